(** C17 -- what the built mxlpy Model computes (a compact executable reading of Model._create_cache /
    get_args / get_right_hand_side; the full treatment of those is C01/C02/C13), the document-level
    reading of the transformed model, and the observation format of the correspondence check.
    No proofs here. *)
From Coq Require Import String Ascii List ZArith QArith Bool.
From SbmlImp Require Import SbmlExpr SbmlImport.
Import ListNotations.
Open Scope string_scope.

Inductive outcome (T : Type) :=
| Val (x : T) | ErrArity | ErrName | ErrMissing | ErrCircular | ErrEval | ErrOther.
Arguments Val {T}. Arguments ErrArity {T}. Arguments ErrName {T}. Arguments ErrMissing {T}.
Arguments ErrCircular {T}. Arguments ErrEval {T}. Arguments ErrOther {T}.

Definition comp := (string * (pyfn * list string))%type.

Section Sem.
  Context {V : Type} (A : alg V).

  (** fn applied to the unpacked values: positional call of a generated def *)
  Definition call (f : pyfn) (vals : list V) : option V :=
    if Nat.eqb (length (pf_params f)) (length vals)
    then eval A (bind (pf_params f) vals) (pf_body f)
    else None.

  (** Derived/Reaction/InitialAssignment.calculate(args) *)
  Definition calc (env : list (string * V)) (c : pyfn * list string) : option V :=
    match map_opt (fun a => lookup a env) (snd c) with
    | Some vals => call (fst c) vals
    | None => None
    end.

  Definition ia_of (l : list (string * mval)) : list comp :=
    flat_map (fun p => match snd p with MIA f a => [(fst p, (f, a))] | MNum _ => [] end) l.
  Definition plain_of (l : list (string * mval)) : list (string * V) :=
    flat_map (fun p => match snd p with MNum q => [(fst p, a_num A q)] | MIA _ _ => [] end) l.
  Definition rxn_comps (m : mmodel) : list comp :=
    map (fun p => (fst p, (mr_fn (snd p), mr_args (snd p)))) (m_rxn m).

  (** one sweep over the pending components: those whose arguments are all known are computed *)
  Fixpoint sweep (env : list (string * V)) (pending acc : list comp) : option (list (string * V) * list comp) :=
    match pending with
    | [] => Some (env, rev acc)
    | c :: r =>
        if forallb (fun a => has_key a env) (snd (snd c))
        then match calc env (snd c) with
             | Some v => sweep ((fst c, v) :: env) r acc
             | None => None
             end
        else sweep env r (c :: acc)
    end.

  Fixpoint resolve (fuel : nat) (env : list (string * V)) (pending : list comp) : outcome (list (string * V)) :=
    match pending with
    | [] => Val env
    | _ :: _ =>
        match fuel with
        | O => ErrCircular
        | S fuel' =>
            match sweep env pending [] with
            | None => ErrEval
            | Some (env', pending') => resolve fuel' env' pending'
            end
        end
    end.

  Definition arity_ok (c : comp) : bool :=
    Nat.eqb (length (pf_params (fst (snd c)))) (length (snd (snd c))).

  Definition resolve_all (base : list (string * V)) (comps : list comp) : outcome (list (string * V)) :=
    if negb (forallb arity_ok comps) then ErrArity
    else if negb (forallb (fun c => forallb (fun a => has_key a base || has_key a comps) (snd (snd c))) comps)
         then ErrMissing
         else resolve (S (length comps)) base comps.

  (** Model._create_cache: everything evaluated once at time 0 from the plain values *)
  Definition dependent (m : mmodel) : outcome (list (string * V)) :=
    resolve_all (("time", a_num A 0) :: plain_of (m_pars m) ++ plain_of (m_vars m))
                (ia_of (m_vars m) ++ ia_of (m_pars m) ++ m_der m ++ rxn_comps m).

  Definition pick (names : list string) (env : list (string * V)) : option (list (string * V)) :=
    map_opt (fun n => match lookup n env with Some v => Some (n, v) | None => None end) names.

  (** get_args(state): parameter values (initial assignments resolved once) + state + time *)
  Definition args_at (m : mmodel) (dep : list (string * V)) (st : list (string * V)) : outcome (list (string * V)) :=
    match pick (map fst (m_pars m)) dep with
    | None => ErrOther
    | Some pv => resolve_all (("time", a_num A 0) :: st ++ pv) (m_der m ++ rxn_comps m)
    end.

  Definition coef_val (env : list (string * V)) (c : mst) : option V :=
    match c with
    | MSNum q => Some (a_num A q)
    | MSDer f args => calc env (f, args)
    end.

  (** d x/dt = sum over the reactions (declaration order) of coefficient * rate *)
  Fixpoint rhs_of (env : list (string * V)) (x : string) (rxns : list (string * mrxn)) (acc : V) : option V :=
    match rxns with
    | [] => Some acc
    | (r, rx) :: rest =>
        match lookup x (mr_st rx) with
        | None => rhs_of env x rest acc
        | Some c =>
            match coef_val env c, lookup r env with
            | Some cv, Some rv => rhs_of env x rest (a_bin A OAdd acc (a_bin A OMul cv rv))
            | _, _ => None
            end
        end
    end.

  Definition rhs_at (m : mmodel) (env : list (string * V)) : outcome (list (string * V)) :=
    match map_opt (fun x => match rhs_of env x (m_rxn m) (a_num A 0) with Some v => Some (x, v) | None => None end)
                  (map fst (m_vars m)) with
    | Some l => Val l
    | None => ErrEval
    end.

  Definition obs_t := (list (string * V) * list (list (string * V) * list (string * V)))%type.

  Fixpoint at_states (m : mmodel) (dep : list (string * V)) (sts : list (list (string * V)))
    : outcome (list (list (string * V) * list (string * V))) :=
    match sts with
    | [] => Val []
    | st :: rest =>
        match args_at m dep st with
        | Val env =>
            match rhs_at m env, at_states m dep rest with
            | Val r, Val l => Val ((env, r) :: l)
            | Val _, e => e
            | ErrArity, _ => ErrArity | ErrName, _ => ErrName | ErrMissing, _ => ErrMissing
            | ErrCircular, _ => ErrCircular | ErrEval, _ => ErrEval | ErrOther, _ => ErrOther
            end
        | ErrArity => ErrArity | ErrName => ErrName | ErrMissing => ErrMissing
        | ErrCircular => ErrCircular | ErrEval => ErrEval | ErrOther => ErrOther
        end
    end.

  (** the whole observation: initial conditions, then (args, rhs) at each given state *)
  Definition observe (om : option mmodel) (sts : list (list (string * V))) : outcome obs_t :=
    match om with
    | None => ErrName
    | Some m =>
        match dependent m with
        | Val dep =>
            match pick (map fst (m_vars m)) dep with
            | None => ErrOther
            | Some ic =>
                match at_states m dep sts with
                | Val l => Val (ic, l)
                | ErrArity => ErrArity | ErrName => ErrName | ErrMissing => ErrMissing
                | ErrCircular => ErrCircular | ErrEval => ErrEval | ErrOther => ErrOther
                end
            end
        | ErrArity => ErrArity | ErrName => ErrName | ErrMissing => ErrMissing
        | ErrCircular => ErrCircular | ErrEval => ErrEval | ErrOther => ErrOther
        end
    end.

  (** ** the document-level reading of the transformed model (the specification side):
      every rule / kinetic law / coefficient is ITS OWN expression read in the environment *)
  Definition tenv (env : string -> V) : string -> option V := fun s => Some (env s).

  Definition TEqs (tm : tmodel) (env : string -> V) : Prop :=
    (forall k e, In (k, e) (t_der tm) -> eval A (tenv env) e = Some (env k)) /\
    (forall k r, In (k, r) (t_rxn tm) -> eval A (tenv env) (tr_expr r) = Some (env k)).

  Definition TInit (tm : tmodel) (env : string -> V) : Prop :=
    forall k e, In (k, e) (t_ia tm) -> (has_key k (t_pars tm) || has_key k (t_vars tm) = true) ->
                eval A (tenv env) e = Some (env k).

  Fixpoint trhs (env : string -> V) (x : string) (rxns : list (string * trxn)) (acc : V) : option V :=
    match rxns with
    | [] => Some acc
    | (r, rx) :: rest =>
        match lookup x (tr_st rx) with
        | None => trhs env x rest acc
        | Some c =>
            match eval A (tenv env) c with
            | Some cv => trhs env x rest (a_bin A OAdd acc (a_bin A OMul cv (env r)))
            | None => None
            end
        end
    end.

  (** ** the same for the built mxlpy model: components are Python functions called positionally
      with the values of their model arguments *)
  Definition callenv (env : string -> V) (c : pyfn * list string) : option V :=
    call (fst c) (map env (snd c)).

  Definition MEqs (m : mmodel) (env : string -> V) : Prop :=
    (forall k c, In (k, c) (m_der m) -> callenv env c = Some (env k)) /\
    (forall k r, In (k, r) (m_rxn m) -> callenv env (mr_fn r, mr_args r) = Some (env k)).

  Definition MInit (m : mmodel) (env : string -> V) : Prop :=
    forall k f a, In (k, MIA f a) (m_vars m ++ m_pars m) -> callenv env (f, a) = Some (env k).

  Definition mcoef (env : string -> V) (c : mst) : option V :=
    match c with
    | MSNum q => Some (a_num A q)
    | MSDer f args => callenv env (f, args)
    end.

  Fixpoint mrhs (env : string -> V) (x : string) (rxns : list (string * mrxn)) (acc : V) : option V :=
    match rxns with
    | [] => Some acc
    | (r, rx) :: rest =>
        match lookup x (mr_st rx) with
        | None => mrhs env x rest acc
        | Some c =>
            match mcoef env c with
            | Some cv => mrhs env x rest (a_bin A OAdd acc (a_bin A OMul cv (env r)))
            | None => None
            end
        end
    end.
End Sem.

(** * comparison with what the implementation returned (exact rationals) *)
Definition str_list_eqb (a b : list string) : bool :=
  Nat.eqb (length a) (length b) && forallb (fun p => String.eqb (fst p) (snd p)) (combine a b).

Definition alist_match (model expected : list (string * Q)) : bool :=
  Nat.eqb (length model) (length expected)
  && forallb (fun p => match lookup (fst p) model with Some v => Qeq_bool v (snd p) | None => false end) expected.

Definition obs_match (mo eo : outcome (obs_t (V := Q))) : bool :=
  match mo, eo with
  | Val (ic, l), Val (ic', l') =>
      alist_match ic ic' && Nat.eqb (length l) (length l')
      && forallb (fun p => alist_match (fst (fst p)) (fst (snd p)) && alist_match (snd (fst p)) (snd (snd p)))
                 (combine l l')
  | ErrArity, ErrArity | ErrName, ErrName | ErrMissing, ErrMissing | ErrCircular, ErrCircular
  | ErrEval, ErrEval => true
  | _, _ => false
  end.

(** structure of the built model: (name, is-initial-assignment) of variables and parameters, derived
    names, reactions with (species, coefficient-is-computed) *)
Definition struct_t :=
  (list (string * bool) * list (string * bool) * list string * list (string * list (string * bool)))%type.

Definition struct_of (m : mmodel) : struct_t :=
  (map (fun p => (fst p, match snd p with MIA _ _ => true | MNum _ => false end)) (m_vars m),
   map (fun p => (fst p, match snd p with MIA _ _ => true | MNum _ => false end)) (m_pars m),
   map fst (m_der m),
   map (fun p => (fst p, map (fun q => (fst q, match snd q with MSDer _ _ => true | MSNum _ => false end))
                             (mr_st (snd p)))) (m_rxn m)).

Definition sb_eqb (a b : list (string * bool)) : bool :=
  Nat.eqb (length a) (length b)
  && forallb (fun p => String.eqb (fst (fst p)) (fst (snd p)) && Bool.eqb (snd (fst p)) (snd (snd p))) (combine a b).

Definition struct_eqb (a b : struct_t) : bool :=
  match a, b with
  | (v, p, d, r), (v', p', d', r') =>
      sb_eqb v v' && sb_eqb p p' && str_list_eqb d d'
      && Nat.eqb (length r) (length r')
      && forallb (fun x => String.eqb (fst (fst x)) (fst (snd x)) && sb_eqb (snd (fst x)) (snd (snd x))) (combine r r')
  end.

(** syntactic equality of defs (used for the same-stem observation) *)
Definition fdef_eqb (a b : fdef) : bool := expr_eqb (fst a) (fst b) && str_list_eqb (snd a) (snd b).

(** the enumeration order of free_symbols the implementation actually used, per expression (read off the
    argument lists of the built Model); any other expression: occurrence order *)
Definition fs_tab (tab : list (expr * list string)) (e : expr) : list string :=
  match find (fun p => expr_eqb e (fst p)) tab with Some p => snd p | None => fsyms e end.

(** one correspondence case *)
Record case := mkCase {
  c_tm : tmodel;
  c_stem : string;
  c_states : list (list (string * Q));
  c_keys : list string;                 (* def names found in the generated file, in order *)
  c_struct : option struct_t;           (* None: create_model() raised NameError *)
  c_obs : outcome (obs_t (V := Q));
  c_values : bool;                      (* false: transcendental math, values are not compared in Coq *)
  c_fs : list (expr * list string)      (* free_symbols orders observed on the implementation *)
}.

Definition case_ok (F : facts) (c : case) : bool :=
  let og := generate F (codegen F (fs_tab (c_fs c)) (c_tm c)) in
  let om := match og with Some g => exec (out_name F (c_stem c)) g | None => None end in
  str_list_eqb (match og with Some g => map fst (g_fns g) | None => [] end) (c_keys c)
  && match om, c_struct c with
     | Some m, Some s => struct_eqb (struct_of m) s
     | None, None => true
     | _, _ => false
     end
  && (negb (c_values c) || obs_match (observe q_alg om (c_states c)) (c_obs c)).

(** two documents in one session: does inspect.getsource on the FIRST model's reaction function
    [fname] still return that function's own def after the second read? *)
Definition source_kept (F : facts) (stem1 stem2 : string) (tm1 tm2 : tmodel) (fname : string) : option bool :=
  let r1 := read F fsyms (empty_session) stem1 tm1 in
  let r2 := read F fsyms (fst r1) stem2 tm2 in
  match snd r1 with
  | None => None
  | Some m1 =>
      match find (fun f => String.eqb (pf_name f) fname) (model_fns m1) with
      | None => None
      | Some f =>
          match getsource (fst r2) f with
          | Some d => Some (fdef_eqb d (pf_body f, pf_params f))
          | None => Some false
          end
      end
  end.

(** syntactic equality of transformed models (the fixed witnesses of SbmlWitness.v are compared with
    what pysbml returns today) *)
Definition alist_eqb {X} (eqb : X -> X -> bool) (a b : list (string * X)) : bool :=
  Nat.eqb (length a) (length b)
  && forallb (fun p => String.eqb (fst (fst p)) (fst (snd p)) && eqb (snd (fst p)) (snd (snd p))) (combine a b).
Definition trxn_eqb (a b : trxn) : bool := expr_eqb (tr_expr a) (tr_expr b) && alist_eqb expr_eqb (tr_st a) (tr_st b).
Definition tmodel_eqb (a b : tmodel) : bool :=
  alist_eqb Qeq_bool (t_vars a) (t_vars b) && alist_eqb Qeq_bool (t_pars a) (t_pars b)
  && alist_eqb expr_eqb (t_der a) (t_der b) && alist_eqb trxn_eqb (t_rxn a) (t_rxn b)
  && alist_eqb expr_eqb (t_ia a) (t_ia b).
