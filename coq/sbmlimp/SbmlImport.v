(** C17 -- the repo side of [mxlpy.sbml.read], statement by statement (no proofs here):

      tmodel  (what pysbml.load_and_transform_model returned)
        --[_codegen / _transform_stoichiometry]-->            symrepr   (SymbolicRepr)
        --[generate_mxlpy_code_from_symbolic_repr]-->         gensrc    (the written module)
        --[import_from_path ; module.create_model()]-->       mmodel    (the mxlpy Model)

    plus [valid_filename] and the session state (cache directory + sys.modules).

    The model is parameterised by [facts] regenerated from /repo's source (GenSbmlFacts.v) and by
    [fs], the enumeration order of [expr.free_symbols] (a Python set: any order can occur). *)
From Coq Require Import String Ascii List ZArith QArith Bool DecimalString.
From SbmlImp Require Import SbmlExpr.
Import ListNotations.
Open Scope string_scope.

(** * facts extracted from the source *)
Inductive ia_order := ParamsThenVars | VarsThenParams | IaUnknown.
Inductive section_tag := SecVars | SecPars | SecDer | SecRxn.
Inductive stoich_key := RxnInfixFn | FnInfixRxn | StoichKeyUnknown.
Inductive module_name := StemOnly | StemPlusDigest | ModuleNameUnknown.
(** how a function body is stored in the [functions] dict:
    RegOverwrite  [functions[key] = (expr, args)]                         (snapshot: a clash replaces the earlier def)
    RegFresh      [name = _register_fn(functions, key, expr, args)]       (fix a07e507: a different function gets key_1, key_2, ...) *)
Inductive register_kind := RegOverwrite | RegFresh | RegUnknown.

Record facts := mkFacts {
  f_init_prefix : string;            (* f"init_{init.fn_name}" *)
  f_stoich_infix : string;           (* f"{k}_stoich_{stoich.fn_name}" *)
  f_stoich_key : stoich_key;         (* which of (reaction key, fn_name) comes first *)
  f_sections : list section_tag;     (* order in which the loops fill the [functions] dict *)
  f_ia_order : ia_order;             (* `if key in model.parameters ... elif key in model.variables` *)
  f_module_name : module_name;       (* out_name = valid_filename(file.stem); file = <tmp>/<out_name>.py *)
  f_file_prefix : string;            (* "mb_" *)
  f_register : register_kind;        (* how every write into [functions] is done *)
  f_shapes_ok : bool                 (* every other statement of the anchored functions has the modelled shape *)
}.

(** * data *)
Record trxn := mkTR { tr_expr : expr; tr_st : list (string * expr) }.
Record tmodel := mkT {
  t_vars : list (string * Q);
  t_pars : list (string * Q);
  t_der : list (string * expr);
  t_rxn : list (string * trxn);
  t_ia : list (string * expr)
}.

Record symfn := mkSF { sf_name : string; sf_expr : expr; sf_args : list string }.
Inductive symval := SVNum (q : Q) | SVFn (f : symfn).
Inductive symst := SSNum (q : Q) | SSName (s : string) | SSFn (f : symfn).
Record symrxn := mkSR { sr_fn : symfn; sr_st : list (string * symst) }.
Record symrepr := mkSym {
  s_vars : list (string * symval);
  s_pars : list (string * symval);
  s_der : list (string * symfn);
  s_rxn : list (string * symrxn)
}.

Definition fdef := (expr * list string)%type.       (* body, parameter names of a generated def *)
Inductive bval := BNum (q : Q) | BIA (fname : string) (args : list string).
Inductive bst := BSNum (q : Q) | BSName (s : string) | BSDer (fname : string) (args : list string).
Record brxn := mkBR { br_fn : string; br_args : list string; br_st : list (string * bst) }.
Record gensrc := mkG {
  g_fns : list (string * fdef);                    (* the defs, in file order *)
  g_vars : list (string * bval);
  g_pars : list (string * bval);
  g_der : list (string * (string * list string));
  g_rxn : list (string * brxn)
}.

(** a Python function object: where its code lives (co_filename, __name__) and what it computes *)
Record pyfn := mkPF { pf_file : string; pf_name : string; pf_params : list string; pf_body : expr }.
Inductive mval := MNum (q : Q) | MIA (f : pyfn) (args : list string).
Inductive mst := MSNum (q : Q) | MSDer (f : pyfn) (args : list string).
Record mrxn := mkMR { mr_fn : pyfn; mr_args : list string; mr_st : list (string * mst) }.
Record mmodel := mkM {
  m_vars : list (string * mval);
  m_pars : list (string * mval);
  m_der : list (string * (pyfn * list string));
  m_rxn : list (string * mrxn)
}.

Fixpoint map_opt {A B} (f : A -> option B) (l : list A) : option (list B) :=
  match l with
  | [] => Some []
  | x :: r => match f x, map_opt f r with Some y, Some ys => Some (y :: ys) | _, _ => None end
  end.

Fixpoint nodup_strb (l : list string) : bool :=
  match l with
  | [] => true
  | x :: r => negb (existsb (String.eqb x) r) && nodup_strb r
  end.

(** ** _register_fn / _positional_fn (codegen_mxlpy.py, fix a07e507) *)
(** f"{fn_name}_{i}" *)
Definition dec (i : nat) : string := NilEmpty.string_of_uint (Nat.to_uint i).

Fixpoint index_of (s : string) (l : list string) (i : nat) : option nat :=
  match l with
  | [] => None
  | x :: r => if String.eqb s x then Some i else index_of s r (S i)
  end.

(** every argument renamed to its (first) position; other symbols stay *)
Fixpoint positional (args : list string) (e : expr) : expr :=
  match e with
  | ENum f q => ENum f q
  | ESym s => match index_of s args 0 with Some i => ESym ("__arg" ++ dec i ++ "__") | None => ESym s end
  | EBin o a b => EBin o (positional args a) (positional args b)
  | EPow a n => EPow (positional args a) n
  | EPw v r a b e' => EPw (positional args v) r (positional args a) (positional args b) (positional args e')
  | EFun f a => EFun f (positional args a)
  end.

(** [_positional_fn(old) == _positional_fn(new)]: equal arity and equal renamed expressions.  SymPy compares
    the renamed expressions in canonical operand order; the model compares the trees as they stand (it can
    only say "different" more often, which costs a fresh name, never a wrong def) *)
Definition pos_eqb (a b : expr * list string) : bool :=
  Nat.eqb (length (snd a)) (length (snd b)) && expr_eqb (positional (snd a) (fst a)) (positional (snd b) (fst b)).

(** the while loop of _register_fn: [name] is the candidate under test, [base_i] the next one;
    [None] = fuel exhausted (never with fuel = len(functions) + 1: SbmlPick.pick_name_total) *)
Fixpoint pick_name (fuel : nat) (d : list (string * (expr * list string))) (base : string) (i : nat) (name : string)
              (new : expr * list string) : option string :=
  match lookup name d with
  | None => Some name
  | Some old =>
      if pos_eqb old new then Some name
      else match fuel with
           | O => None
           | S fuel' => pick_name fuel' d base (S i) (base ++ "_" ++ dec i) new
           end
  end.

Fixpoint map_acc {D X Y} (f : D -> X -> option (D * Y)) (d : D) (l : list X) : option (D * list Y) :=
  match l with
  | [] => Some (d, [])
  | x :: r =>
      match f d x with
      | Some (d', y) => match map_acc f d' r with Some (d'', ys) => Some (d'', y :: ys) | None => None end
      | None => None
      end
  end.

Section Pipeline.
  Variable F : facts.
  Variable fs : expr -> list string.     (* [i.name for i in expr.free_symbols] *)

  (** ** _import.py *)
  Definition mk_fn (k : string) (e : expr) : symfn := mkSF k e (fs e).

  Definition transform_stoich (k : string) (v : expr) : symst :=
    match v with
    | ENum true q => SSNum q
    | ESym s => SSName s
    | _ => SSFn (mk_fn k v)
    end.

  Definition set_val (k : string) (v : symval) (l : list (string * symval)) : list (string * symval) :=
    map (fun p => if String.eqb k (fst p) then (fst p, v) else p) l.

  Definition apply_ia (tm : tmodel) (s : symrepr) (ke : string * expr) : symrepr :=
    let k := fst ke in
    let v := SVFn (mk_fn k (snd ke)) in
    let to_par := mkSym (s_vars s) (set_val k v (s_pars s)) (s_der s) (s_rxn s) in
    let to_var := mkSym (set_val k v (s_vars s)) (s_pars s) (s_der s) (s_rxn s) in
    match f_ia_order F with
    | ParamsThenVars => if has_key k (t_pars tm) then to_par else if has_key k (t_vars tm) then to_var else s
    | VarsThenParams => if has_key k (t_vars tm) then to_var else if has_key k (t_pars tm) then to_par else s
    | IaUnknown => s
    end.

  Definition codegen (tm : tmodel) : symrepr :=
    fold_left (apply_ia tm) (t_ia tm)
      (mkSym (map (fun p => (fst p, SVNum (snd p))) (t_vars tm))
             (map (fun p => (fst p, SVNum (snd p))) (t_pars tm))
             (map (fun p => (fst p, mk_fn (fst p) (snd p))) (t_der tm))
             (map (fun p => (fst p, mkSR (mk_fn (fst p) (tr_expr (snd p)))
                                        (map (fun kv => (fst kv, transform_stoich (fst kv) (snd kv))) (tr_st (snd p)))))
                  (t_rxn tm))).

  (** ** codegen_mxlpy.py: the names under which function bodies are filed *)
  Definition init_key (f : symfn) : string := f_init_prefix F ++ sf_name f.
  Definition stoich_fn_key (rxn : string) (f : symfn) : string :=
    match f_stoich_key F with
    | RxnInfixFn => rxn ++ f_stoich_infix F ++ sf_name f
    | FnInfixRxn => sf_name f ++ f_stoich_infix F ++ rxn
    | StoichKeyUnknown => ""
    end.

  Definition val_events (l : list (string * symval)) : list (string * fdef) :=
    flat_map (fun p => match snd p with SVNum _ => [] | SVFn f => [(init_key f, (sf_expr f, sf_args f))] end) l.
  Definition der_events (l : list (string * symfn)) : list (string * fdef) :=
    map (fun p => (sf_name (snd p), (sf_expr (snd p), sf_args (snd p)))) l.
  Definition st_events (rxn : string) (l : list (string * symst)) : list (string * fdef) :=
    flat_map (fun p => match snd p with SSFn f => [(stoich_fn_key rxn f, (sf_expr f, sf_args f))] | _ => [] end) l.
  Definition rxn_events (l : list (string * symrxn)) : list (string * fdef) :=
    flat_map (fun p => (sf_name (sr_fn (snd p)), (sf_expr (sr_fn (snd p)), sf_args (sr_fn (snd p))))
                         :: st_events (fst p) (sr_st (snd p))) l.

  (** the writes [functions[name] = (expr, args)] in program order *)
  Definition section_events (s : symrepr) (t : section_tag) : list (string * fdef) :=
    match t with
    | SecVars => val_events (s_vars s)
    | SecPars => val_events (s_pars s)
    | SecDer => der_events (s_der s)
    | SecRxn => rxn_events (s_rxn s)
    end.
  Definition events (s : symrepr) : list (string * fdef) := flat_map (section_events s) (f_sections F).

  Definition build_dict (evs : list (string * fdef)) : list (string * fdef) :=
    fold_left (fun d ev => dict_set (fst ev) (snd ev) d) evs [].

  Definition gen_val (p : string * symval) : string * bval :=
    (fst p, match snd p with SVNum q => BNum q | SVFn f => BIA (init_key f) (sf_args f) end).
  Definition gen_st (rxn : string) (p : string * symst) : string * bst :=
    (fst p, match snd p with
            | SSNum q => BSNum q
            | SSName s => BSName s
            | SSFn f => BSDer (stoich_fn_key rxn f) (sf_args f)
            end).

  (** the module as the snapshot wrote it: every body under its requested key, last write wins.  Kept as the
      reference the repaired generator is compared with (they coincide when no two keys clash). *)
  Definition generate_flat (s : symrepr) : gensrc :=
    mkG (build_dict (events s))
        (map gen_val (s_vars s))
        (map gen_val (s_pars s))
        (map (fun p => (fst p, (sf_name (snd p), sf_args (snd p)))) (s_der s))
        (map (fun p => (fst p, mkBR (sf_name (sr_fn (snd p))) (sf_args (sr_fn (snd p)))
                                   (map (gen_st (fst p)) (sr_st (snd p))))) (s_rxn s)).

  (** ** the generator as it is: the dict is threaded through the four loops, every body is stored by
      [reg] and the builder call refers to the name [reg] returned.  [None] = an unrecognised fact. *)
  Definition reg (d : list (string * fdef)) (key : string) (new : fdef) : option (list (string * fdef) * string) :=
    match f_register F with
    | RegOverwrite => Some (dict_set key new d, key)
    | RegFresh =>
        match pick_name (S (length d)) d key 1 key new with
        | Some n => Some (dict_set n new d, n)
        | None => None
        end
    | RegUnknown => None
    end.

  Definition reg_val (d : list (string * fdef)) (p : string * symval) : option (list (string * fdef) * (string * bval)) :=
    match snd p with
    | SVNum q => Some (d, (fst p, BNum q))
    | SVFn f => match reg d (init_key f) (sf_expr f, sf_args f) with
                | Some (d', n) => Some (d', (fst p, BIA n (sf_args f)))
                | None => None
                end
    end.
  Definition reg_der (d : list (string * fdef)) (p : string * symfn) :=
    match reg d (sf_name (snd p)) (sf_expr (snd p), sf_args (snd p)) with
    | Some (d', n) => Some (d', (fst p, (n, sf_args (snd p))))
    | None => None
    end.
  Definition reg_st (rxn : string) (d : list (string * fdef)) (p : string * symst) : option (list (string * fdef) * (string * bst)) :=
    match snd p with
    | SSNum q => Some (d, (fst p, BSNum q))
    | SSName s => Some (d, (fst p, BSName s))
    | SSFn f => match reg d (stoich_fn_key rxn f) (sf_expr f, sf_args f) with
                | Some (d', n) => Some (d', (fst p, BSDer n (sf_args f)))
                | None => None
                end
    end.
  Definition reg_rxn (d : list (string * fdef)) (p : string * symrxn) :=
    match reg d (sf_name (sr_fn (snd p))) (sf_expr (sr_fn (snd p)), sf_args (sr_fn (snd p))) with
    | Some (d1, n) =>
        match map_acc (reg_st (fst p)) d1 (sr_st (snd p)) with
        | Some (d2, st) => Some (d2, (fst p, mkBR n (sf_args (sr_fn (snd p))) st))
        | None => None
        end
    | None => None
    end.

  Definition generate (s : symrepr) : option gensrc :=
    match f_sections F with
    | [SecVars; SecPars; SecDer; SecRxn] =>
        match map_acc reg_val [] (s_vars s) with
        | Some (d1, vs) =>
            match map_acc reg_val d1 (s_pars s) with
            | Some (d2, ps) =>
                match map_acc reg_der d2 (s_der s) with
                | Some (d3, ds) =>
                    match map_acc reg_rxn d3 (s_rxn s) with
                    | Some (d4, rs) => Some (mkG d4 vs ps ds rs)
                    | None => None
                    end
                | None => None
                end
            | None => None
            end
        | None => None
        end
    | _ => None
    end.

  (** ** executing the module: every function reference is resolved in the module namespace
      (the last def of a name wins -- the dict already holds one body per name);
      [None] = NameError (unresolved reference, or Model._insert_id on a duplicate id) *)
  Definition resolve_fn (file : string) (g : gensrc) (n : string) : option pyfn :=
    match lookup n (g_fns g) with
    | Some d => Some (mkPF file n (snd d) (fst d))
    | None => None
    end.

  Definition fn_constant : pyfn := mkPF "mxlpy/fns.py" "constant" ["x"] (ESym "x").

  Definition exec_val (file : string) (g : gensrc) (p : string * bval) : option (string * mval) :=
    match snd p with
    | BNum q => Some (fst p, MNum q)
    | BIA n args => match resolve_fn file g n with Some f => Some (fst p, MIA f args) | None => None end
    end.
  Definition exec_st (file : string) (g : gensrc) (p : string * bst) : option (string * mst) :=
    match snd p with
    | BSNum q => Some (fst p, MSNum q)
    | BSName s => Some (fst p, MSDer fn_constant [s])
    | BSDer n args => match resolve_fn file g n with Some f => Some (fst p, MSDer f args) | None => None end
    end.
  Definition exec_der (file : string) (g : gensrc) (p : string * (string * list string)) :=
    match resolve_fn file g (fst (snd p)) with Some f => Some (fst p, (f, snd (snd p))) | None => None end.
  Definition exec_rxn (file : string) (g : gensrc) (p : string * brxn) : option (string * mrxn) :=
    match resolve_fn file g (br_fn (snd p)), map_opt (exec_st file g) (br_st (snd p)) with
    | Some f, Some st => Some (fst p, mkMR f (br_args (snd p)) st)
    | _, _ => None
    end.

  Definition model_ids (m : mmodel) : list string :=
    map fst (m_vars m) ++ map fst (m_pars m) ++ map fst (m_der m) ++ map fst (m_rxn m).

  Definition exec (file : string) (g : gensrc) : option mmodel :=
    match map_opt (exec_val file g) (g_vars g), map_opt (exec_val file g) (g_pars g),
          map_opt (exec_der file g) (g_der g), map_opt (exec_rxn file g) (g_rxn g) with
    | Some vs, Some ps, Some ds, Some rs =>
        let m := mkM vs ps ds rs in
        if nodup_strb (model_ids m) then Some m else None
    | _, _, _, _ => None
    end.

  (** ** valid_filename (ASCII stems) *)
  Definition in_range (lo hi : nat) (c : ascii) : bool :=
    let n := nat_of_ascii c in Nat.leb lo n && Nat.leb n hi.
  Definition lower (c : ascii) : ascii :=
    if in_range 65 90 c then ascii_of_nat (nat_of_ascii c + 32) else c.
  Definition is_word (c : ascii) : bool :=
    in_range 48 57 c || in_range 65 90 c || in_range 97 122 c || Nat.eqb (nat_of_ascii c) 95.
  Definition is_space (c : ascii) : bool :=
    in_range 9 13 c || Nat.eqb (nat_of_ascii c) 32 || in_range 28 31 c.
  Definition is_dash (c : ascii) : bool := Nat.eqb (nat_of_ascii c) 45.
  Definition underscore : ascii := ascii_of_nat 95.

  (** re.sub(r"[-\s]+", "_", .) *)
  Fixpoint collapse (insep : bool) (l : list ascii) : list ascii :=
    match l with
    | [] => []
    | c :: r =>
        if is_dash c || is_space c
        then (if insep then collapse true r else underscore :: collapse true r)
        else c :: collapse false r
    end.
  Fixpoint lstrip (l : list ascii) : list ascii :=
    match l with
    | c :: r => if is_dash c || Nat.eqb (nat_of_ascii c) 95 then lstrip r else l
    | [] => []
    end.
  Definition strip (l : list ascii) : list ascii := rev (lstrip (rev (lstrip l))).

  Definition valid_filename (stem : string) : string :=
    let l1 := map lower (list_ascii_of_string stem) in
    let l2 := filter (fun c => is_word c || is_space c || is_dash c) l1 in
    f_file_prefix F ++ string_of_list_ascii (strip (collapse false l2)).

  (** ** read(file) in a session: the cache directory and sys.modules are keyed by the module name *)
  Record session := mkS { ss_files : list (string * gensrc); ss_modules : list (string * gensrc) }.
  Definition empty_session : session := mkS [] [].

  Definition out_name (stem : string) : string := valid_filename stem.

  (** _codegen + import_from_path + create_model() under the module name [file] *)
  Definition run_module (file : string) (tm : tmodel) : option mmodel :=
    match generate (codegen tm) with Some g => exec file g | None => None end.

  Definition read (s : session) (stem : string) (tm : tmodel) : session * option mmodel :=
    let name := out_name stem in
    match generate (codegen tm) with
    | Some g => (mkS (dict_set name g (ss_files s)) (dict_set name g (ss_modules s)), exec name g)
    | None => (s, None)
    end.

  (** inspect.getsource(fn): the def of that name in the file the code object points at, as the
      file is NOW *)
  Definition getsource (s : session) (f : pyfn) : option fdef :=
    match lookup (pf_file f) (ss_files s) with
    | Some g => lookup (pf_name f) (g_fns g)
    | None => None
    end.

  Definition model_fns (m : mmodel) : list pyfn :=
    flat_map (fun p => match snd p with MIA f _ => [f] | MNum _ => [] end) (m_vars m)
    ++ flat_map (fun p => match snd p with MIA f _ => [f] | MNum _ => [] end) (m_pars m)
    ++ map (fun p => fst (snd p)) (m_der m)
    ++ flat_map (fun p => mr_fn (snd p)
                          :: flat_map (fun q => match snd q with MSDer f _ => [f] | MSNum _ => [] end) (mr_st (snd p)))
                (m_rxn m).
End Pipeline.

(** the facts of the tree the theorems were proved for *)
Definition expected_facts : facts :=
  mkFacts "init_" "_stoich_" RxnInfixFn [SecVars; SecPars; SecDer; SecRxn] ParamsThenVars StemOnly "mb_" RegFresh true.

(** the facts of the snapshot (before fix a07e507): regression witness for the key-collision defect *)
Definition snapshot_facts : facts :=
  mkFacts "init_" "_stoich_" RxnInfixFn [SecVars; SecPars; SecDer; SecRxn] ParamsThenVars StemOnly "mb_" RegOverwrite true.
