(** C17 -- fixed witnesses for the seeded shapes C17-4..6: what pysbml 0.5.0 returns for the documents
    harness/c17_streams.py::fixed_documents() "idle_reaction_unread", "coefficients_needing_17_digits" and
    "math_ids_as_arguments".  Data only.  The harness checks on every run that pysbml still returns exactly
    these for those documents (witness_mismatches). *)
From Coq Require Import String List ZArith QArith.
From SbmlImp Require Import SbmlExpr SbmlImport.
Import ListNotations.
Open Scope string_scope.

Definition w_idle : tmodel :=
  (mkT [("A"%string, (3 # 2)%Q); ("B"%string, (1 # 4)%Q)] [("k1"%string, (1 # 2)%Q); ("k2"%string, (2 # 1)%Q); ("J"%string, (9 # 1)%Q); ("c"%string, (1 # 1)%Q); ("X"%string, (4 # 1)%Q)] [("A_conc"%string, (EBin OMul (ESym "A"%string) (EPow (ESym "c"%string) (-1)%Z))); ("B_conc"%string, (EBin OMul (ESym "B"%string) (EPow (ESym "c"%string) (-1)%Z)))] [("sense"%string, mkTR (EBin OMul (EBin OMul (ESym "A"%string) (ESym "X"%string)) (ESym "k1"%string)) []); ("v1"%string, mkTR (EBin OMul (ESym "J"%string) (ESym "k2"%string)) [("A"%string, (ENum true (-1 # 1)%Q)); ("B"%string, (ENum true (1 # 1)%Q))])] []).
Definition w_precise : tmodel :=
  (mkT [("S"%string, (1 # 1)%Q); ("P"%string, (0 # 1)%Q); ("Q"%string, (0 # 1)%Q); ("R"%string, (0 # 1)%Q)] [("k"%string, (3 # 1)%Q); ("c"%string, (1 # 1)%Q)] [("S_conc"%string, (EBin OMul (ESym "S"%string) (EPow (ESym "c"%string) (-1)%Z))); ("P_conc"%string, (EBin OMul (ESym "P"%string) (EPow (ESym "c"%string) (-1)%Z))); ("Q_conc"%string, (EBin OMul (ESym "Q"%string) (EPow (ESym "c"%string) (-1)%Z))); ("R_conc"%string, (EBin OMul (ESym "R"%string) (EPow (ESym "c"%string) (-1)%Z)))] [("v1"%string, mkTR (EBin OMul (ESym "S"%string) (ESym "k"%string)) [("S"%string, (ENum true (-1 # 1)%Q)); ("P"%string, (ENum true (6004799503160661 # 18014398509481984)%Q)); ("Q"%string, (ENum true (1351079888211149 # 4503599627370496)%Q)); ("R"%string, (ENum true (6121026514868073 # 2251799813685248)%Q))])] []).
Definition w_mathids : tmodel :=
  (mkT [("log"%string, (5 # 2)%Q); ("P"%string, (1 # 2)%Q)] [("exp"%string, (3 # 4)%Q); ("k"%string, (5 # 4)%Q); ("c"%string, (1 # 1)%Q)] [("log_conc"%string, (EBin OMul (ESym "log"%string) (EPow (ESym "c"%string) (-1)%Z))); ("P_conc"%string, (EBin OMul (ESym "P"%string) (EPow (ESym "c"%string) (-1)%Z)))] [("r1"%string, mkTR (EBin OMul (ESym "k"%string) (EFun "log"%string (EBin OAdd (ENum true (1 # 1)%Q) (ESym "log"%string)))) [("log"%string, (ENum true (-1 # 1)%Q)); ("P"%string, (ENum true (2 # 1)%Q))]); ("r2"%string, mkTR (EBin OMul (ESym "P"%string) (EFun "exp"%string (EBin OMul (ENum false (-1 # 1)%Q) (ESym "exp"%string)))) [("P"%string, (ENum true (-1 # 1)%Q))])] []).
