(** C17 -- the fresh-name search of _register_fn never runs out of fuel (fuel = len(functions) + 1):
    key, key_1, key_2, ... are pairwise different, so they cannot all be keys of the dict. *)
From Coq Require Import String Ascii List ZArith Bool Lia DecimalString DecimalNat FinFun.
From SbmlImp Require Import SbmlExpr SbmlImport.
Import ListNotations.
Open Scope string_scope.

Definition cand (base : string) (j : nat) : string :=
  match j with O => base | S _ => base ++ "_" ++ dec j end.

Lemma append_inv_head (s a b : string) : (s ++ a = s ++ b)%string -> a = b.
Proof. induction s as [|c s IH]; cbn; intros H; [exact H|]. injection H as H. exact (IH H). Qed.

Lemma append_self_nil (s x : string) : (s = s ++ x)%string -> x = EmptyString.
Proof. induction s as [|c s IH]; cbn; intros H; [symmetry; exact H|]. injection H as H. exact (IH H). Qed.

Lemma dec_inj i j : dec i = dec j -> i = j.
Proof.
  unfold dec. intros H. apply (f_equal NilEmpty.uint_of_string) in H. rewrite !NilEmpty.usu in H.
  injection H as H. apply (f_equal Nat.of_uint) in H. rewrite !Unsigned.of_to in H. exact H.
Qed.

Lemma cand_inj k : Injective (cand k).
Proof.
  intros [|i] [|j] H; cbn [cand] in H.
  - reflexivity.
  - apply append_self_nil in H. discriminate.
  - symmetry in H. apply append_self_nil in H. discriminate.
  - apply append_inv_head in H. cbn [append] in H. injection H as H. apply dec_inj in H. exact H.
Qed.

Lemma lookup_key_in : forall T k (l : list (string * T)) v, lookup k l = Some v -> In k (map fst l).
Proof.
  induction l as [|[k' v'] r IH]; cbn; intros v H; [discriminate|].
  destruct (String.eqb k k') eqn:E; [apply String.eqb_eq in E; subst; now left|right; eauto].
Qed.

Lemma pick_name_none : forall fuel d base j new,
  pick_name fuel d base (S j) (cand base j) new = None ->
  forall j', (j <= j' <= j + fuel)%nat -> In (cand base j') (map fst d).
Proof.
  induction fuel as [|fuel IH]; intros d base j new H j' Hj; cbn [pick_name] in H;
    destruct (lookup (cand base j) d) as [old|] eqn:Hl; try discriminate;
    destruct (pos_eqb old new); try discriminate.
  - assert (j' = j) by lia. subst. eapply lookup_key_in; eauto.
  - destruct (Nat.eq_dec j' j) as [->|Hne]; [eapply lookup_key_in; eauto|].
    apply (IH d base (S j) new H). lia.
Qed.

(** the fuel of the model is never exhausted *)
Lemma pick_name_total : forall d key new, pick_name (S (length d)) d key 1 key new <> None.
Proof.
  intros d key new H. change key with (cand key 0) in H at 2.
  pose proof (pick_name_none _ _ _ _ _ H) as Hin.
  assert (Hnd : NoDup (map (cand key) (seq 0 (S (length d))))).
  { apply Injective_map_NoDup; [apply cand_inj|apply seq_NoDup]. }
  assert (Hincl : incl (map (cand key) (seq 0 (S (length d)))) (map fst d)).
  { intros x Hx. apply in_map_iff in Hx. destruct Hx as [j [<- Hj]]. apply in_seq in Hj. apply Hin. lia. }
  pose proof (NoDup_incl_length Hnd Hincl) as Hlen. rewrite !map_length, seq_length in Hlen. lia.
Qed.

(** hence storing a function body always succeeds under the recognised facts *)
Lemma reg_total : forall F d key new, f_register F <> RegUnknown -> reg F d key new <> None.
Proof.
  intros F d key new HF. unfold reg. destruct (f_register F); try discriminate; [|congruence].
  destruct (pick_name (S (length d)) d key 1 key new) eqn:E; [discriminate|].
  exfalso. exact (pick_name_total d key new E).
Qed.

Lemma map_acc_total : forall D X Y (f : D -> X -> option (D * Y)) l d,
  (forall d0 x, f d0 x <> None) -> map_acc f d l <> None.
Proof.
  induction l as [|x r IH]; cbn; intros d Hf; [discriminate|].
  destruct (f d x) as [[d' y]|] eqn:E; [|exfalso; exact (Hf d x E)].
  destruct (map_acc f d' r) as [[d'' ys]|] eqn:Er; [discriminate|]. exfalso. exact (IH d' Hf Er).
Qed.

(** the generator never gives up: [generate] returns a module for every symbolic representation *)
Lemma generate_total : forall F, F = expected_facts -> forall s, generate F s <> None.
Proof.
  intros F EF s. subst F.
  assert (HR : forall d key new, reg expected_facts d key new <> None)
    by (intros; apply reg_total; cbn; discriminate).
  assert (Hval : forall d x, reg_val expected_facts d x <> None).
  { intros d [k [q|f]]; unfold reg_val; cbn [fst snd]; [discriminate|].
    destruct (reg expected_facts d (init_key expected_facts f) (sf_expr f, sf_args f)) as [[d' n]|] eqn:E; [discriminate|].
    exfalso. exact (HR _ _ _ E). }
  assert (Hder : forall d x, reg_der expected_facts d x <> None).
  { intros d [k f]; unfold reg_der; cbn [fst snd].
    destruct (reg expected_facts d (sf_name f) (sf_expr f, sf_args f)) as [[d' n]|] eqn:E; [discriminate|]. exfalso. exact (HR _ _ _ E). }
  assert (Hst : forall rxn d x, reg_st expected_facts rxn d x <> None).
  { intros rxn d [k [q|s0|f]]; unfold reg_st; cbn [fst snd]; try discriminate.
    destruct (reg expected_facts d (stoich_fn_key expected_facts rxn f) (sf_expr f, sf_args f)) as [[d' n]|] eqn:E; [discriminate|].
    exfalso. exact (HR _ _ _ E). }
  assert (Hrxn : forall d x, reg_rxn expected_facts d x <> None).
  { intros d [k r]; unfold reg_rxn; cbn [fst snd].
    destruct (reg expected_facts d (sf_name (sr_fn r)) (sf_expr (sr_fn r), sf_args (sr_fn r))) as [[d1 n]|] eqn:E; [|exfalso; exact (HR _ _ _ E)].
    destruct (map_acc (reg_st expected_facts k) d1 (sr_st r)) as [[d2 st]|] eqn:E2; [discriminate|].
    exfalso. exact (map_acc_total _ _ _ _ _ _ (Hst k) E2). }
  unfold generate. cbn [f_sections expected_facts].
  destruct (map_acc (reg_val expected_facts) [] (s_vars s)) as [[d1 vs]|] eqn:E1; [|exfalso; exact (map_acc_total _ _ _ _ _ _ Hval E1)].
  destruct (map_acc (reg_val expected_facts) d1 (s_pars s)) as [[d2 ps]|] eqn:E2; [|exfalso; exact (map_acc_total _ _ _ _ _ _ Hval E2)].
  destruct (map_acc (reg_der expected_facts) d2 (s_der s)) as [[d3 ds]|] eqn:E3; [|exfalso; exact (map_acc_total _ _ _ _ _ _ Hder E3)].
  destruct (map_acc (reg_rxn expected_facts) d3 (s_rxn s)) as [[d4 rs]|] eqn:E4; [discriminate|exfalso; exact (map_acc_total _ _ _ _ _ _ Hrxn E4)].
Qed.
