(** C17 -- expressions of the generated SBML subset as they arrive from pysbml (sympy trees),
    their evaluation over an arbitrary value algebra, and free symbols.  No proofs here. *)
From Coq Require Import String Ascii List ZArith QArith Qabs Bool.
Import ListNotations.
Open Scope string_scope.

Inductive binop := OAdd | OMul.
(** REq / RNe (round 3): MathML eq / neq, printed by SymPy as (a == b) / (a != b) *)
Inductive rel := RLt | RLe | RGt | RGe | REq | RNe.

(** [ENum true q] is a [sympy.Float], [ENum false q] an Integer/Rational (the distinction matters
    in [_transform_stoichiometry]); [EPw v r a b e] is [Piecewise((v, a r b), (e, True))];
    [EFun] is an uninterpreted unary function (exp, log, sin, cos, sqrt, Abs). *)
Inductive expr :=
| ENum (isfloat : bool) (q : Q)
| ESym (s : string)
| EBin (o : binop) (a b : expr)
| EPow (a : expr) (n : Z)
| EPw (v : expr) (r : rel) (a b : expr) (e : expr)
| EFun (f : string) (a : expr).

(** what the arithmetic of the executing interpreter does -- abstract in the theorems (so they
    hold for binary64 as well as for Q), instantiated with exact rationals for the runs *)
Record alg (V : Type) := mkAlg {
  a_num : Q -> V;
  a_bin : binop -> V -> V -> V;
  a_pow : V -> Z -> option V;          (* None: ZeroDivisionError *)
  a_rel : rel -> V -> V -> bool;
  a_fun : string -> V -> option V      (* None: domain error / not interpreted *)
}.
Arguments a_num {V}. Arguments a_bin {V}. Arguments a_pow {V}. Arguments a_rel {V}. Arguments a_fun {V}.

Section Eval.
  Context {V : Type} (A : alg V).

  (** evaluation of the printed Python expression in a namespace; [None] = the evaluation raises
      (unbound name, division by zero, domain error).  The conditional is lazy, like Python's. *)
  Fixpoint eval (env : string -> option V) (e : expr) : option V :=
    match e with
    | ENum _ q => Some (a_num A q)
    | ESym s => env s
    | EBin o a b =>
        match eval env a, eval env b with
        | Some x, Some y => Some (a_bin A o x y)
        | _, _ => None
        end
    | EPow a n => match eval env a with Some x => a_pow A x n | None => None end
    | EPw v r a b e' =>
        match eval env a, eval env b with
        | Some x, Some y => if a_rel A r x y then eval env v else eval env e'
        | _, _ => None
        end
    | EFun f a => match eval env a with Some x => a_fun A f x | None => None end
    end.
End Eval.

(** symbols in occurrence order (with repetitions) and the canonical duplicate-free list *)
Fixpoint syms (e : expr) : list string :=
  match e with
  | ENum _ _ => []
  | ESym s => [s]
  | EBin _ a b => syms a ++ syms b
  | EPow a _ => syms a
  | EPw v _ a b e' => syms v ++ syms a ++ syms b ++ syms e'
  | EFun _ a => syms a
  end.

Definition fsyms (e : expr) : list string := nodup string_dec (syms e).

(** association lists = Python dicts in insertion order *)
Fixpoint lookup {A} (k : string) (l : list (string * A)) : option A :=
  match l with
  | [] => None
  | (k', v) :: r => if String.eqb k k' then Some v else lookup k r
  end.

Definition has_key {A} (k : string) (l : list (string * A)) : bool :=
  match lookup k l with Some _ => true | None => false end.

(** [d[k] = v]: an existing key keeps its position and gets the new value; a new key is appended *)
Fixpoint dict_set {A} (k : string) (v : A) (l : list (string * A)) : list (string * A) :=
  match l with
  | [] => [(k, v)]
  | (k', v') :: r => if String.eqb k k' then (k', v) :: r else (k', v') :: dict_set k v r
  end.

(** positional binding of a call: parameter names to argument values *)
Fixpoint bind {V} (ps : list string) (vs : list V) (s : string) : option V :=
  match ps, vs with
  | p :: ps', v :: vs' => if String.eqb s p then Some v else bind ps' vs' s
  | _, _ => None
  end.

(** exact rational arithmetic (values kept normalised, so [Qeq_bool] and [=] agree on results) *)
Definition q_rel (r : rel) (x y : Q) : bool :=
  match r with
  | RLt => negb (Qle_bool y x)
  | RLe => Qle_bool x y
  | RGt => negb (Qle_bool x y)
  | RGe => Qle_bool y x
  | REq => Qeq_bool x y
  | RNe => negb (Qeq_bool x y)
  end.

Definition q_alg : alg Q := {|
  a_num := Qred;
  a_bin := fun o x y => match o with OAdd => Qred (x + y) | OMul => Qred (x * y) end;
  a_pow := fun x n => if (Z.ltb n 0 && Qeq_bool x 0)%bool then None else Some (Qred (Qpower x n));
  a_rel := q_rel;
  a_fun := fun f x => if String.eqb f "Abs" then Some (Qred (Qabs x)) else None
|}.

(** syntactic equality of expressions *)
Fixpoint expr_eqb (a b : expr) : bool :=
  match a, b with
  | ENum f q, ENum f' q' => Bool.eqb f f' && Qeq_bool q q'
  | ESym s, ESym s' => String.eqb s s'
  | EBin o x y, EBin o' x' y' =>
      match o, o' with OAdd, OAdd | OMul, OMul => true | _, _ => false end && expr_eqb x x' && expr_eqb y y'
  | EPow x n, EPow x' n' => expr_eqb x x' && Z.eqb n n'
  | EPw v r x y e, EPw v' r' x' y' e' =>
      match r, r' with RLt, RLt | RLe, RLe | RGt, RGt | RGe, RGe | REq, REq | RNe, RNe => true | _, _ => false end
      && expr_eqb v v' && expr_eqb x x' && expr_eqb y y' && expr_eqb e e'
  | EFun f x, EFun f' x' => String.eqb f f' && expr_eqb x x'
  | _, _ => false
  end.

