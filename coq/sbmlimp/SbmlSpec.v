(** C17 -- the vocabulary of the theorem statements (definitions only, no proofs):
    hypotheses on the transformed model that pysbml hands over, the guard of the partial theorem,
    the components of the built model, and histories of reads in one session. *)
From Coq Require Import String Ascii List ZArith QArith Bool.
From SbmlImp Require Import SbmlExpr SbmlImport SbmlRun.
Import ListNotations.
Open Scope string_scope.

(** [expr.free_symbols] is a Python set: the enumeration order is arbitrary, the content is not *)
Definition FsOk (fs : expr -> list string) : Prop := forall e x, In x (fs e) <-> In x (syms e).

Definition tm_ids (tm : tmodel) : list string :=
  map fst (t_vars tm) ++ map fst (t_pars tm) ++ map fst (t_der tm) ++ map fst (t_rxn tm).

(** the dictionaries of the transformed model have one entry per id, ids are unique in a document *)
Definition WellFormed (tm : tmodel) : Prop := NoDup (tm_ids tm) /\ NoDup (map fst (t_ia tm)).

(** every expression of the transformed model *)
Definition tm_exprs (tm : tmodel) : list expr :=
  map snd (t_der tm) ++ map (fun p => tr_expr (snd p)) (t_rxn tm)
  ++ flat_map (fun p => map snd (tr_st (snd p))) (t_rxn tm) ++ map snd (t_ia tm).

Definition tm_names (tm : tmodel) : list string := tm_ids tm ++ flat_map syms (tm_exprs tm).

(** every symbol is an id of the document (or the time symbol) *)
Definition Closed (tm : tmodel) : Prop :=
  forall e, In e (tm_exprs tm) -> forall x, In x (syms e) -> In x (tm_ids tm) \/ x = "time".

(** names the generated module itself uses at top level or calls inside generated defs; a document id
    equal to one of them captures it (recorded finding C17-reserved-name-capture; NOT modelled) *)
Definition reserved : list string :=
  ["math"; "scipy"; "Model"; "Derived"; "InitialAssignment"; "create_model"; "abs"; "min"; "max"].
Definition NoReserved (tm : tmodel) : Prop := forall x, In x reserved -> ~ In x (tm_names tm).

(** the names under which the generator files function bodies are pairwise different
    (guard of the partial theorem; complement = recorded finding C17-function-key-collision) *)
Definition fn_keys (F : facts) (fs : expr -> list string) (tm : tmodel) : list string :=
  map fst (events F (codegen F fs tm)).
Definition NoKeyCollision (F : facts) (fs : expr -> list string) (tm : tmodel) : Prop :=
  NoDup (fn_keys F fs tm).

(** every component of the built model that calls a function: (name, (function, argument names)) *)
Definition st_comps (m : mmodel) : list comp :=
  flat_map (fun p => flat_map (fun q => match snd q with MSDer f a => [(fst q, (f, a))] | MSNum _ => [] end)
                              (mr_st (snd p))) (m_rxn m).
Definition comps_all (m : mmodel) : list comp :=
  ia_of (m_vars m) ++ ia_of (m_pars m) ++ m_der m ++ rxn_comps m ++ st_comps m.

(** a history of reads in one session *)
Definition read_many (F : facts) (fs : expr -> list string) (s : session) (l : list (string * tmodel)) : session :=
  fold_left (fun s0 d => fst (read F fs s0 (fst d) (snd d))) l s.

(** the generated functions of a model (those living in the module file [file]) *)
Definition own_fns (file : string) (m : mmodel) : list pyfn :=
  filter (fun f => String.eqb (pf_file f) file) (model_fns m).
