(** C17 -- the executable reading of Model.get_right_hand_side used by the correspondence check
    ([rhs_of], association-list environment) computes the spec-level sum [mrhs] of the theorems. *)
From Coq Require Import String Ascii List ZArith QArith Bool.
From SbmlImp Require Import SbmlExpr SbmlImport SbmlRun.
Import ListNotations.
Open Scope string_scope.

Section RunProofs.
  Context {V : Type} (A : alg V).

  Definition Agree (l : list (string * V)) (envf : string -> V) : Prop :=
    forall n v, lookup n l = Some v -> envf n = v.

  Lemma map_opt_lookup_agree : forall l envf args vals,
    Agree l envf -> map_opt (fun a => lookup a l) args = Some vals -> vals = map envf args.
  Proof.
    intros l envf args vals Hag. revert vals. induction args as [|a r IH]; cbn; intros vals H.
    - inversion H; reflexivity.
    - destruct (lookup a l) as [v|] eqn:E; [|discriminate].
      destruct (map_opt (fun a0 => lookup a0 l) r) as [vs|] eqn:Er; [|discriminate].
      inversion H; subst. cbn. rewrite (Hag a v E). f_equal. apply IH; reflexivity.
  Qed.

  Lemma coef_val_mcoef : forall l envf c v, Agree l envf -> coef_val A l c = Some v -> mcoef A envf c = Some v.
  Proof.
    intros l envf [q|f args] v Hag H; cbn in *; [exact H|].
    unfold calc in H; cbn [fst snd] in H.
    destruct (map_opt (fun a => lookup a l) args) as [vals|] eqn:E; [|discriminate].
    unfold callenv; cbn [fst snd]. rewrite <- (map_opt_lookup_agree l envf args vals Hag E). exact H.
  Qed.

  Lemma rhs_of_mrhs : forall l envf x rxns acc v,
    Agree l envf -> rhs_of A l x rxns acc = Some v -> mrhs A envf x rxns acc = Some v.
  Proof.
    intros l envf x rxns. induction rxns as [|[r rx] rest IH]; cbn; intros acc v Hag H; [exact H|].
    destruct (lookup x (mr_st rx)) as [c|]; [|apply IH; assumption].
    destruct (coef_val A l c) as [cv|] eqn:Ec; [|discriminate].
    destruct (lookup r l) as [rv|] eqn:Er; [|discriminate].
    rewrite (coef_val_mcoef l envf c cv Hag Ec). rewrite (Hag r rv Er). apply IH; assumption.
  Qed.
End RunProofs.
