(** C17 -- fixed witnesses for the seeded shapes C17-8 / C17-9: what pysbml 0.5.0 returns for the documents
    harness/c17_close3.py::fixed_documents3() "eq_neq_conditions" and "guarded_inverse_twice".  Data only.  The
    harness checks on every run that pysbml still returns exactly these (witness_mismatches). *)
From Coq Require Import String List ZArith QArith.
From SbmlImp Require Import SbmlExpr SbmlImport.
Import ListNotations.
Open Scope string_scope.

Definition w_eqcond : tmodel :=
  (mkT [("S1"%string, (1 # 1)%Q); ("S2"%string, (1 # 1)%Q)] [("k1"%string, (1 # 2)%Q); ("k2"%string, (3 # 1)%Q); ("c"%string, (1 # 1)%Q)] [("S1_conc"%string, (EBin OMul (ESym "S1"%string) (EPow (ESym "c"%string) (-1)%Z))); ("S2_conc"%string, (EBin OMul (ESym "S2"%string) (EPow (ESym "c"%string) (-1)%Z)))] [("v1"%string, mkTR (EPw (EBin OMul (ESym "S1"%string) (ESym "k1"%string)) REq (ESym "S1"%string) (ESym "S2"%string) (EBin OMul (ESym "S1"%string) (ESym "k2"%string))) [("S1"%string, (ENum true (-1 # 1)%Q)); ("S2"%string, (ENum true (1 # 1)%Q))]); ("v2"%string, mkTR (EPw (EBin OMul (ESym "S2"%string) (ESym "k2"%string)) RNe (ESym "S1"%string) (ESym "S2"%string) (EBin OMul (ESym "S2"%string) (ESym "k1"%string))) [("S2"%string, (ENum true (-1 # 1)%Q))])] []).

Definition w_guarded : tmodel :=
  (mkT [("S1"%string, (2 # 1)%Q); ("S2"%string, (1 # 1)%Q)] [("k1"%string, (1 # 2)%Q); ("k2"%string, (3 # 1)%Q); ("c"%string, (1 # 1)%Q)] [("S1_conc"%string, (EBin OMul (ESym "S1"%string) (EPow (ESym "c"%string) (-1)%Z))); ("S2_conc"%string, (EBin OMul (ESym "S2"%string) (EPow (ESym "c"%string) (-1)%Z)))] [("v1"%string, mkTR (EPw (EBin OAdd (EBin OMul (ESym "S2"%string) (EPow (ESym "S1"%string) (-1)%Z)) (EBin OMul (ESym "k1"%string) (EPow (ESym "S1"%string) (-1)%Z))) RGt (ESym "S1"%string) (ENum false (0 # 1)%Q) (ESym "k2"%string)) [("S1"%string, (ENum true (-1 # 1)%Q)); ("S2"%string, (ENum true (1 # 1)%Q))])] []).
