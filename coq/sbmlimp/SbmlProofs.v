(** C17 -- proofs about the repo side of [mxlpy.sbml.read] (SbmlImport.v / SbmlRun.v).
    Lemmas and proofs only; the statements the check counts are in PropsC17.v. *)
From Coq Require Import String Ascii List ZArith QArith Bool Lia.
From SbmlImp Require Import SbmlExpr SbmlImport SbmlRun SbmlSpec.
Import ListNotations.
Open Scope string_scope.

(** * association lists *)
Lemma lookup_in : forall T k (l : list (string * T)) v, lookup k l = Some v -> In (k, v) l.
Proof.
  induction l as [|[k' v'] r IH]; cbn; intros v H; [discriminate|].
  destruct (String.eqb k k') eqn:E.
  - apply String.eqb_eq in E. inversion H; subst. now left.
  - right; auto.
Qed.

Lemma has_key_in : forall T k (l : list (string * T)), has_key k l = true -> In k (map fst l).
Proof.
  unfold has_key. intros T k l H. destruct (lookup k l) eqn:E; [|discriminate].
  apply lookup_in in E. apply (in_map fst) in E. exact E.
Qed.

Lemma in_has_key : forall T k (l : list (string * T)), In k (map fst l) -> has_key k l = true.
Proof.
  unfold has_key. induction l as [|[k' v'] r IH]; cbn; intros H; [tauto|].
  destruct (String.eqb k k') eqn:E; [reflexivity|].
  destruct H as [H|H]; [subst; rewrite String.eqb_refl in E; discriminate|auto].
Qed.

Lemma lookup_dict_set_same : forall T k (v : T) l, lookup k (dict_set k v l) = Some v.
Proof.
  induction l as [|[k' v'] r IH]; cbn.
  - rewrite String.eqb_refl. reflexivity.
  - destruct (String.eqb k k') eqn:E; cbn; rewrite E; auto.
Qed.

Lemma lookup_dict_set_other : forall T k k' (v : T) l, k <> k' -> lookup k (dict_set k' v l) = lookup k l.
Proof.
  induction l as [|[k2 v2] r IH]; cbn; intros Hne.
  - apply String.eqb_neq in Hne. rewrite Hne. reflexivity.
  - destruct (String.eqb k' k2) eqn:E; cbn.
    + apply String.eqb_eq in E; subst k2. apply String.eqb_neq in Hne. rewrite Hne. reflexivity.
    + destruct (String.eqb k k2); auto.
Qed.

Notation dfold evs d := (fold_left (fun (d0 : list (string * fdef)) ev => dict_set (fst ev) (snd ev) d0) evs d).

Lemma fold_lookup_notin : forall (evs : list (string * fdef)) d k,
  ~ In k (map fst evs) -> lookup k (dfold evs d) = lookup k d.
Proof.
  induction evs as [|[k' v'] r IH]; cbn; intros d k Hn; [reflexivity|].
  rewrite IH by tauto. apply lookup_dict_set_other. intro E. apply Hn. left. now symmetry.
Qed.

Lemma fold_lookup_nodup : forall (evs : list (string * fdef)) d k v,
  NoDup (map fst evs) -> In (k, v) evs -> lookup k (dfold evs d) = Some v.
Proof.
  induction evs as [|[k' v'] r IH]; cbn; intros d k v Hnd Hin; [tauto|].
  inversion Hnd as [|? ? Hnot Hnd']; subst.
  destruct Hin as [E|Hin].
  - inversion E; subst. rewrite fold_lookup_notin by assumption. apply lookup_dict_set_same.
  - apply IH; assumption.
Qed.

Lemma fold_lookup_in : forall (evs : list (string * fdef)) d k,
  In k (map fst evs) -> exists v, lookup k (dfold evs d) = Some v.
Proof.
  induction evs as [|[k' v'] r IH]; cbn; intros d k Hin; [tauto|].
  destruct (in_dec string_dec k (map fst r)) as [Hr|Hr].
  - apply IH; assumption.
  - destruct Hin as [E|Hin]; [|tauto]. subst k'.
    exists v'. rewrite fold_lookup_notin by assumption. apply lookup_dict_set_same.
Qed.

(** * map_opt *)
Lemma map_opt_map_eq : forall X Y (f : X -> option Y) (h : X -> Y) l,
  (forall x, In x l -> f x = Some (h x)) -> map_opt f l = Some (map h l).
Proof.
  induction l as [|x r IH]; cbn; intros H; [reflexivity|].
  rewrite (H x) by now left. rewrite IH by (intros; apply H; now right). reflexivity.
Qed.

Lemma map_opt_total : forall X Y (f : X -> option Y) l,
  (forall x, In x l -> exists y, f x = Some y) -> exists l', map_opt f l = Some l'.
Proof.
  induction l as [|x r IH]; cbn; intros H; [eexists; reflexivity|].
  destruct (H x) as [y Hy]; [now left|]. rewrite Hy.
  destruct IH as [l' Hl']; [intros; apply H; now right|]. rewrite Hl'. eexists; reflexivity.
Qed.

Lemma nodup_strb_true : forall l, NoDup l -> nodup_strb l = true.
Proof.
  induction l as [|x r IH]; cbn; intros H; [reflexivity|].
  inversion H as [|? ? Hn Hr]; subst. rewrite IH by assumption.
  destruct (existsb (String.eqb x) r) eqn:E; [|reflexivity].
  apply existsb_exists in E. destruct E as [y [Hy Hxy]]. apply String.eqb_eq in Hxy. subst. tauto.
Qed.

(** * evaluation *)
Section EvalLemmas.
  Context {V : Type} (A : alg V).

  Lemma eval_ext : forall e env1 env2,
    (forall s, In s (syms e) -> env1 s = env2 s) -> eval A env1 e = eval A env2 e.
  Proof.
    induction e as [f q|s|o a IHa b IHb|a IHa n|v IHv r a IHa b IHb e' IHe|f a IHa]; cbn; intros env1 env2 H.
    - reflexivity.
    - apply H; now left.
    - rewrite (IHa env1 env2), (IHb env1 env2); auto; intros; apply H; apply in_or_app; auto.
    - rewrite (IHa env1 env2); auto.
    - rewrite (IHv env1 env2), (IHa env1 env2), (IHb env1 env2), (IHe env1 env2); auto;
        intros; apply H; repeat (apply in_or_app; auto; right).
    - rewrite (IHa env1 env2); auto.
  Qed.

  Lemma bind_map : forall (env : string -> V) ps s, In s ps -> bind ps (map env ps) s = Some (env s).
  Proof.
    induction ps as [|p r IH]; cbn; intros s H; [tauto|].
    destruct (String.eqb s p) eqn:E.
    - apply String.eqb_eq in E; subst; reflexivity.
    - destruct H as [H|H]; [subst; rewrite String.eqb_refl in E; discriminate|auto].
  Qed.

  (** a generated def called positionally with the values of its own argument list computes its
      body in the environment -- provided the argument list covers the symbols of the body *)
  Lemma call_params : forall file n ps e (env : string -> V),
    incl (syms e) ps -> call A (mkPF file n ps e) (map env ps) = eval A (tenv env) e.
  Proof.
    intros file n ps e env Hinc. unfold call; cbn. rewrite map_length, Nat.eqb_refl.
    apply eval_ext. intros s Hs. unfold tenv. apply bind_map. auto.
  Qed.
End EvalLemmas.

Lemma map_opt_map_eq2 : forall X X' Y (f : X' -> option Y) (g : X -> X') (h : X -> Y) l,
  (forall x, In x l -> f (g x) = Some (h x)) -> map_opt f (map g l) = Some (map h l).
Proof.
  induction l as [|x r IH]; cbn; intros H; [reflexivity|].
  rewrite (H x) by now left. rewrite IH by (intros; apply H; now right). reflexivity.
Qed.

(** * _codegen *)
Lemma set_val_fst : forall k v l, map fst (set_val k v l) = map fst l.
Proof.
  unfold set_val. intros. rewrite map_map. apply map_ext. intros p.
  destruct (String.eqb k (fst p)); reflexivity.
Qed.

Lemma set_val_in : forall k v l k' v',
  In (k', v') (set_val k v l) -> In (k', v') l \/ (k' = k /\ v' = v).
Proof.
  unfold set_val; intros k v l k' v' H. apply in_map_iff in H. destruct H as [p [E Hp]].
  destruct (String.eqb k (fst p)) eqn:Ek.
  - apply String.eqb_eq in Ek. inversion E; subst. right; auto.
  - subst p. left; auto.
Qed.

Lemma set_val_hit : forall k v l, In k (map fst l) -> In (k, v) (set_val k v l).
Proof.
  intros k v l H. apply in_map_iff in H. destruct H as [p [E Hp]]. unfold set_val.
  apply in_map_iff. exists p. split; auto. subst k. rewrite String.eqb_refl. reflexivity.
Qed.

Lemma set_val_miss : forall k v l k' v', k' <> k -> In (k', v') l -> In (k', v') (set_val k v l).
Proof.
  intros k v l k' v' Hne H. unfold set_val. apply in_map_iff. exists (k', v'). split; auto. cbn.
  destruct (String.eqb k k') eqn:E; auto. apply String.eqb_eq in E. subst; tauto.
Qed.

Section PipelineProofs.
  Variable fs : expr -> list string.
  Hypothesis Hfs : FsOk fs.
  Variable tm : tmodel.
  Notation F := expected_facts.

  Definition cg0 : symrepr :=
    mkSym (map (fun p => (fst p, SVNum (snd p))) (t_vars tm))
          (map (fun p => (fst p, SVNum (snd p))) (t_pars tm))
          (map (fun p => (fst p, mk_fn fs (fst p) (snd p))) (t_der tm))
          (map (fun p => (fst p, mkSR (mk_fn fs (fst p) (tr_expr (snd p)))
                                     (map (fun kv => (fst kv, transform_stoich fs (fst kv) (snd kv))) (tr_st (snd p)))))
               (t_rxn tm)).

  Lemma codegen_unfold : codegen F fs tm = fold_left (apply_ia F fs tm) (t_ia tm) cg0.
  Proof. reflexivity. Qed.

  Lemma apply_ia_cases : forall s ke,
    apply_ia F fs tm s ke =
      if has_key (fst ke) (t_pars tm)
      then mkSym (s_vars s) (set_val (fst ke) (SVFn (mk_fn fs (fst ke) (snd ke))) (s_pars s)) (s_der s) (s_rxn s)
      else if has_key (fst ke) (t_vars tm)
           then mkSym (set_val (fst ke) (SVFn (mk_fn fs (fst ke) (snd ke))) (s_vars s)) (s_pars s) (s_der s) (s_rxn s)
           else s.
  Proof. reflexivity. Qed.

  Lemma ia_fold_inv : forall (P : symrepr -> Prop) l s,
    P s -> (forall s0 ke, In ke l -> P s0 -> P (apply_ia F fs tm s0 ke)) ->
    P (fold_left (apply_ia F fs tm) l s).
  Proof.
    induction l as [|x r IH]; cbn; intros s Hs Hstep; [exact Hs|].
    apply IH; [apply Hstep; auto|]. intros; apply Hstep; auto.
  Qed.

  Lemma apply_ia_keys : forall s ke,
    map fst (s_vars (apply_ia F fs tm s ke)) = map fst (s_vars s)
    /\ map fst (s_pars (apply_ia F fs tm s ke)) = map fst (s_pars s)
    /\ s_der (apply_ia F fs tm s ke) = s_der s /\ s_rxn (apply_ia F fs tm s ke) = s_rxn s.
  Proof.
    intros s ke. rewrite apply_ia_cases.
    destruct (has_key (fst ke) (t_pars tm)); [|destruct (has_key (fst ke) (t_vars tm))]; cbn;
      rewrite ?set_val_fst; auto.
  Qed.

  Lemma apply_ia_keep : forall s x k v, k <> fst x ->
    (In (k, v) (s_pars s) -> In (k, v) (s_pars (apply_ia F fs tm s x)))
    /\ (In (k, v) (s_vars s) -> In (k, v) (s_vars (apply_ia F fs tm s x))).
  Proof.
    intros s x k v Hne. rewrite apply_ia_cases.
    destruct (has_key (fst x) (t_pars tm)); [|destruct (has_key (fst x) (t_vars tm))]; cbn;
      split; auto using set_val_miss.
  Qed.

  Lemma ia_keep : forall l s k v, ~ In k (map fst l) ->
    (In (k, v) (s_pars s) -> In (k, v) (s_pars (fold_left (apply_ia F fs tm) l s)))
    /\ (In (k, v) (s_vars s) -> In (k, v) (s_vars (fold_left (apply_ia F fs tm) l s))).
  Proof.
    induction l as [|x r IH]; cbn; intros s k v Hn; [tauto|].
    assert (Hx : k <> fst x) by (intro; apply Hn; left; auto).
    assert (Hr : ~ In k (map fst r)) by tauto.
    destruct (IH (apply_ia F fs tm s x) k v Hr) as [IHp IHv].
    destruct (apply_ia_keep s x k v Hx) as [Sp Sv]. split; auto.
  Qed.

  Lemma fold_keys : forall l s,
    map fst (s_vars (fold_left (apply_ia F fs tm) l s)) = map fst (s_vars s)
    /\ map fst (s_pars (fold_left (apply_ia F fs tm) l s)) = map fst (s_pars s)
    /\ s_der (fold_left (apply_ia F fs tm) l s) = s_der s
    /\ s_rxn (fold_left (apply_ia F fs tm) l s) = s_rxn s.
  Proof.
    intros l s.
    apply (ia_fold_inv (fun s' => map fst (s_vars s') = map fst (s_vars s) /\ map fst (s_pars s') = map fst (s_pars s)
                                  /\ s_der s' = s_der s /\ s_rxn s' = s_rxn s)); [auto|].
    intros s0 ke _ [H1 [H2 [H3 H4]]]. destruct (apply_ia_keys s0 ke) as [K1 [K2 [K3 K4]]].
    rewrite K1, K2, K3, K4. auto.
  Qed.

  Lemma ia_complete : forall l s k e, NoDup (map fst l) -> In (k, e) l ->
    (has_key k (t_pars tm) = true -> In k (map fst (s_pars s)) ->
       In (k, SVFn (mk_fn fs k e)) (s_pars (fold_left (apply_ia F fs tm) l s)))
    /\ (has_key k (t_pars tm) = false -> has_key k (t_vars tm) = true -> In k (map fst (s_vars s)) ->
       In (k, SVFn (mk_fn fs k e)) (s_vars (fold_left (apply_ia F fs tm) l s))).
  Proof.
    induction l as [|x r IH]; cbn; intros s k e Hnd Hin; [tauto|].
    inversion Hnd as [|? ? Hnot Hnd']; subst.
    destruct Hin as [E|Hin].
    - subst x. cbn in Hnot.
      destruct (ia_keep r (apply_ia F fs tm s (k, e)) k (SVFn (mk_fn fs k e)) Hnot) as [Kp Kv].
      split.
      + intros Hp Hk. apply Kp. rewrite apply_ia_cases. cbn [fst snd]. rewrite Hp. cbn.
        apply set_val_hit; assumption.
      + intros Hp Hv Hk. apply Kv. rewrite apply_ia_cases. cbn [fst snd]. rewrite Hp, Hv. cbn.
        apply set_val_hit; assumption.
    - destruct (IH (apply_ia F fs tm s x) k e Hnd' Hin) as [IHp IHv].
      destruct (apply_ia_keys s x) as [K1 [K2 _]]. split.
      + intros Hp Hk. apply IHp; auto. rewrite K2; assumption.
      + intros Hp Hv Hk. apply IHv; auto. rewrite K1; assumption.
  Qed.

  (** every value of the symbolic representation is the document's number or the document's
      initial assignment for that very id *)
  Lemma ia_sound : forall l s,
    (forall k v, In (k, v) (s_vars (fold_left (apply_ia F fs tm) l s)) ->
       In (k, v) (s_vars s) \/ exists e, In (k, e) l /\ v = SVFn (mk_fn fs k e))
    /\ (forall k v, In (k, v) (s_pars (fold_left (apply_ia F fs tm) l s)) ->
       In (k, v) (s_pars s) \/ exists e, In (k, e) l /\ v = SVFn (mk_fn fs k e)).
  Proof.
    intros l s.
    apply (ia_fold_inv (fun s' =>
      (forall k v, In (k, v) (s_vars s') -> In (k, v) (s_vars s) \/ exists e, In (k, e) l /\ v = SVFn (mk_fn fs k e))
      /\ (forall k v, In (k, v) (s_pars s') -> In (k, v) (s_pars s) \/ exists e, In (k, e) l /\ v = SVFn (mk_fn fs k e)))).
    - split; auto.
    - intros s0 [k0 e0] Hke [Hv Hp]. rewrite apply_ia_cases. cbn [fst snd].
      destruct (has_key k0 (t_pars tm)); [|destruct (has_key k0 (t_vars tm))]; cbn; split; auto;
        intros k v Hin; apply set_val_in in Hin; destruct Hin as [Hin|[E1 E2]]; auto;
        subst; right; exists e0; auto.
  Qed.

  Definition sr : symrepr := codegen F fs tm.

  Lemma sr_keys : map fst (s_vars sr) = map fst (t_vars tm) /\ map fst (s_pars sr) = map fst (t_pars tm)
                  /\ s_der sr = s_der cg0 /\ s_rxn sr = s_rxn cg0.
  Proof.
    unfold sr. rewrite codegen_unfold. destruct (fold_keys (t_ia tm) cg0) as [K1 [K2 [K3 K4]]].
    rewrite K1, K2, K3, K4. cbn. rewrite !map_map. cbn.
    repeat split; apply map_ext; reflexivity.
  Qed.

  Lemma sr_vars_sound : forall k v, In (k, v) (s_vars sr) ->
    (exists q, v = SVNum q /\ In (k, q) (t_vars tm)) \/ (exists e, In (k, e) (t_ia tm) /\ v = SVFn (mk_fn fs k e)).
  Proof.
    intros k v H. unfold sr in H. rewrite codegen_unfold in H.
    destruct (ia_sound (t_ia tm) cg0) as [S _]. destruct (S k v H) as [H0|H0]; [left|right; exact H0].
    cbn in H0. apply in_map_iff in H0. destruct H0 as [[k' q] [E Hin]]. inversion E; subst. eauto.
  Qed.

  Lemma sr_pars_sound : forall k v, In (k, v) (s_pars sr) ->
    (exists q, v = SVNum q /\ In (k, q) (t_pars tm)) \/ (exists e, In (k, e) (t_ia tm) /\ v = SVFn (mk_fn fs k e)).
  Proof.
    intros k v H. unfold sr in H. rewrite codegen_unfold in H.
    destruct (ia_sound (t_ia tm) cg0) as [_ S]. destruct (S k v H) as [H0|H0]; [left|right; exact H0].
    cbn in H0. apply in_map_iff in H0. destruct H0 as [[k' q] [E Hin]]. inversion E; subst. eauto.
  Qed.

  (** * generate: the writes into [functions] *)
  Lemma events_exp : forall s,
    events F s = (val_events F (s_vars s) ++ val_events F (s_pars s) ++ der_events (s_der s) ++ rxn_events F (s_rxn s) ++ [])%list.
  Proof. reflexivity. Qed.

  Lemma in_val_events : forall l k f, In (k, SVFn f) l -> In (init_key F f, (sf_expr f, sf_args f)) (val_events F l).
  Proof.
    intros l k f H. unfold val_events. apply in_flat_map. exists (k, SVFn f). split; [exact H|]. cbn. now left.
  Qed.

  Lemma ev_vars : forall k f, In (k, SVFn f) (s_vars sr) -> In (init_key F f, (sf_expr f, sf_args f)) (events F sr).
  Proof. intros. rewrite events_exp. apply in_or_app. left. eapply in_val_events; eauto. Qed.

  Lemma ev_pars : forall k f, In (k, SVFn f) (s_pars sr) -> In (init_key F f, (sf_expr f, sf_args f)) (events F sr).
  Proof. intros. rewrite events_exp. apply in_or_app. right. apply in_or_app. left. eapply in_val_events; eauto. Qed.

  Lemma ev_der : forall k e, In (k, e) (t_der tm) -> In (k, (e, fs e)) (events F sr).
  Proof.
    intros k e H. rewrite events_exp. do 2 (apply in_or_app; right). apply in_or_app. left.
    destruct sr_keys as [_ [_ [K3 _]]]. rewrite K3. cbn. unfold der_events. rewrite map_map. cbn.
    apply in_map_iff. exists (k, e). split; auto.
  Qed.

  Lemma ev_rxn : forall k r, In (k, r) (t_rxn tm) -> In (k, (tr_expr r, fs (tr_expr r))) (events F sr).
  Proof.
    intros k r H. rewrite events_exp. do 3 (apply in_or_app; right). apply in_or_app. left.
    destruct sr_keys as [_ [_ [_ K4]]]. rewrite K4. cbn. unfold rxn_events. apply in_flat_map.
    eexists. split; [apply in_map; exact H|]. cbn. now left.
  Qed.

  Lemma ev_st : forall k r sp c f, In (k, r) (t_rxn tm) -> In (sp, c) (tr_st r) -> transform_stoich fs sp c = SSFn f ->
    In (stoich_fn_key F k f, (sf_expr f, sf_args f)) (events F sr).
  Proof.
    intros k r sp c f H Hc Ht. rewrite events_exp. do 3 (apply in_or_app; right). apply in_or_app. left.
    destruct sr_keys as [_ [_ [_ K4]]]. rewrite K4. cbn. unfold rxn_events. apply in_flat_map.
    eexists. split; [apply in_map; exact H|]. cbn. right. unfold st_events. apply in_flat_map.
    exists (sp, transform_stoich fs sp c). split.
    - apply in_map_iff. exists (sp, c). split; auto.
    - cbn. rewrite Ht. now left.
  Qed.

  (** * executing the module *)
  Lemma resolve_ok : forall file key d, NoKeyCollision F fs tm -> In (key, d) (events F sr) ->
    resolve_fn file (generate_flat F sr) key = Some (mkPF file key (snd d) (fst d)).
  Proof.
    intros file key d Hnd Hin. unfold resolve_fn, generate_flat. cbn [g_fns]. unfold build_dict.
    rewrite (fold_lookup_nodup (events F sr) [] key d Hnd Hin). reflexivity.
  Qed.

  Lemma resolve_some : forall file key d, In (key, d) (events F sr) ->
    exists f, resolve_fn file (generate_flat F sr) key = Some f.
  Proof.
    intros file key d Hin. unfold resolve_fn, generate_flat. cbn [g_fns]. unfold build_dict.
    destruct (fold_lookup_in (events F sr) [] key) as [v Hv].
    - apply (in_map fst) in Hin. exact Hin.
    - rewrite Hv. eexists; reflexivity.
  Qed.

  Definition mval_of (file : string) (p : string * symval) : string * mval :=
    (fst p, match snd p with
            | SVNum q => MNum q
            | SVFn f => MIA (mkPF file (init_key F f) (sf_args f) (sf_expr f)) (sf_args f)
            end).
  Definition mst_of (file rxn : string) (kv : string * expr) : string * mst :=
    (fst kv, match transform_stoich fs (fst kv) (snd kv) with
             | SSNum q => MSNum q
             | SSName s => MSDer fn_constant [s]
             | SSFn f => MSDer (mkPF file (stoich_fn_key F rxn f) (sf_args f) (sf_expr f)) (sf_args f)
             end).

  (** the model [create_model()] returns when no two function bodies share a name *)
  Definition built (file : string) : mmodel :=
    mkM (map (mval_of file) (s_vars sr)) (map (mval_of file) (s_pars sr))
        (map (fun p => (fst p, (mkPF file (fst p) (fs (snd p)) (snd p), fs (snd p)))) (t_der tm))
        (map (fun p => (fst p, mkMR (mkPF file (fst p) (fs (tr_expr (snd p))) (tr_expr (snd p))) (fs (tr_expr (snd p)))
                                    (map (mst_of file (fst p)) (tr_st (snd p))))) (t_rxn tm)).

  Lemma built_ids : forall file, model_ids (built file) = tm_ids tm.
  Proof.
    intros file. unfold model_ids, built, tm_ids. cbn. destruct sr_keys as [K1 [K2 _]].
    rewrite !map_map. cbn. rewrite <- K1, <- K2.
    replace (map (fun x => fst (mval_of file x)) (s_vars sr)) with (map fst (s_vars sr)) by (apply map_ext; reflexivity).
    replace (map (fun x => fst (mval_of file x)) (s_pars sr)) with (map fst (s_pars sr)) by (apply map_ext; reflexivity).
    reflexivity.
  Qed.

  Local Opaque init_key stoich_fn_key.
  Lemma exec_built : forall file, WellFormed tm -> NoKeyCollision F fs tm ->
    exec file (generate_flat F sr) = Some (built file).
  Proof.
    intros file [Hids _] Hnd. unfold exec.
    assert (E1 : map_opt (exec_val file (generate_flat F sr)) (g_vars (generate_flat F sr)) = Some (map (mval_of file) (s_vars sr))).
    { cbn [generate_flat g_vars]. apply map_opt_map_eq2. intros [k [q|f]] Hin; cbn; [reflexivity|].
      unfold exec_val; cbn. rewrite (resolve_ok file _ _ Hnd (ev_vars k f Hin)). reflexivity. }
    assert (E2 : map_opt (exec_val file (generate_flat F sr)) (g_pars (generate_flat F sr)) = Some (map (mval_of file) (s_pars sr))).
    { cbn [generate_flat g_pars]. apply map_opt_map_eq2. intros [k [q|f]] Hin; cbn; [reflexivity|].
      unfold exec_val; cbn. rewrite (resolve_ok file _ _ Hnd (ev_pars k f Hin)). reflexivity. }
    destruct sr_keys as [_ [_ [K3 K4]]].
    assert (E3 : map_opt (exec_der file (generate_flat F sr)) (g_der (generate_flat F sr)) = Some (m_der (built file))).
    { cbn [generate_flat g_der built m_der]. rewrite K3. cbn [cg0 s_der]. rewrite map_map.
      apply map_opt_map_eq2. intros [k e] Hin. unfold exec_der; cbn.
      rewrite (resolve_ok file _ _ Hnd (ev_der k e Hin)). reflexivity. }
    assert (E4 : map_opt (exec_rxn file (generate_flat F sr)) (g_rxn (generate_flat F sr)) = Some (m_rxn (built file))).
    { cbn [generate_flat g_rxn built m_rxn]. rewrite K4. cbn [cg0 s_rxn]. rewrite map_map.
      apply map_opt_map_eq2. intros [k r] Hin. unfold exec_rxn; cbn.
      rewrite (resolve_ok file _ _ Hnd (ev_rxn k r Hin)). cbn. rewrite map_map.
      rewrite (map_opt_map_eq2 _ _ _ (exec_st file (generate_flat F sr)) _ (mst_of file k) (tr_st r)); [reflexivity|].
      intros [sp c] Hc. unfold exec_st, mst_of, gen_st; cbn.
      destruct (transform_stoich fs sp c) as [q|s|f] eqn:Et; try reflexivity.
      rewrite (resolve_ok file _ _ Hnd (ev_st k r sp c f Hin Hc Et)). reflexivity. }
    rewrite E1, E2, E3, E4.
    change (mkM (map (mval_of file) (s_vars sr)) (map (mval_of file) (s_pars sr)) (m_der (built file)) (m_rxn (built file)))
      with (built file).
    rewrite built_ids. rewrite (nodup_strb_true _ Hids). reflexivity.
  Qed.
End PipelineProofs.

(** * what the built model computes = what the transformed document says *)
Section SemProofs.
  Variable fs : expr -> list string.
  Hypothesis Hfs : FsOk fs.
  Variable tm : tmodel.
  Context {V : Type} (A : alg V).
  Notation F := expected_facts.
  Transparent init_key stoich_fn_key.

  Lemma callenv_pf : forall file n e (env : string -> V),
    callenv A env (mkPF file n (fs e) e, fs e) = eval A (tenv env) e.
  Proof.
    intros. unfold callenv; cbn [fst snd]. apply call_params. intros x Hx. apply Hfs. exact Hx.
  Qed.

  Lemma MEqs_built : forall file env, MEqs A (built fs tm file) env <-> TEqs A tm env.
  Proof.
    intros file env. unfold MEqs, TEqs, built; cbn [m_der m_rxn]. split; intros [Hd Hr]; split.
    - intros k e Hin.
      rewrite <- (callenv_pf file k e env). apply Hd.
      apply in_map_iff. exists (k, e). split; auto.
    - intros k r Hin.
      rewrite <- (callenv_pf file k (tr_expr r) env).
      apply (Hr k (mkMR (mkPF file k (fs (tr_expr r)) (tr_expr r)) (fs (tr_expr r)) (map (mst_of fs file k) (tr_st r)))).
      apply in_map_iff. exists (k, r). split; auto.
    - intros k c Hin. apply in_map_iff in Hin. destruct Hin as [[k' e] [E Hin]]. cbn in E. inversion E; subst.
      rewrite callenv_pf. apply Hd; assumption.
    - intros k r Hin. apply in_map_iff in Hin. destruct Hin as [[k' r'] [E Hin]]. cbn in E. inversion E; subst.
      cbn [mr_fn mr_args]. rewrite callenv_pf. apply Hr; assumption.
  Qed.

  Lemma in_mval_ia : forall file l k f a, In (k, MIA f a) (map (mval_of file) l) ->
    exists sf, In (k, SVFn sf) l /\ f = mkPF file (init_key F sf) (sf_args sf) (sf_expr sf) /\ a = sf_args sf.
  Proof.
    intros file l k f a H. apply in_map_iff in H. destruct H as [[k' [q|sf]] [E Hin]]; unfold mval_of in E; cbn in E.
    - discriminate.
    - inversion E; subst. exists sf. auto.
  Qed.

  Lemma MInit_built : forall file env, NoDup (map fst (t_ia tm)) ->
    (MInit A (built fs tm file) env <-> TInit A tm env).
  Proof.
    intros file env Hnd. unfold MInit, TInit, built; cbn [m_vars m_pars].
    destruct (sr_keys fs tm) as [K1 [K2 _]]. split.
    - intros HM k e Hin Hkey.
      destruct (ia_complete fs tm (t_ia tm) (cg0 fs tm) k e Hnd Hin) as [Cp Cv].
      destruct (has_key k (t_pars tm)) eqn:Ep.
      + assert (Hm : In (k, SVFn (mk_fn fs k e)) (s_pars (sr fs tm))).
        { unfold sr. rewrite codegen_unfold. apply Cp; auto. cbn. rewrite map_map. cbn.
          apply has_key_in in Ep. rewrite map_ext with (g := fst) by reflexivity. exact Ep. }
        rewrite <- (callenv_pf file (init_key F (mk_fn fs k e)) e env).
        apply (HM k). apply in_or_app. right.
        apply in_map_iff. exists (k, SVFn (mk_fn fs k e)). split; auto.
      + cbn in Hkey.
        assert (Hm : In (k, SVFn (mk_fn fs k e)) (s_vars (sr fs tm))).
        { unfold sr. rewrite codegen_unfold. apply Cv; auto. cbn. rewrite map_map. cbn.
          apply has_key_in in Hkey. rewrite map_ext with (g := fst) by reflexivity. exact Hkey. }
        rewrite <- (callenv_pf file (init_key F (mk_fn fs k e)) e env).
        apply (HM k). apply in_or_app. left.
        apply in_map_iff. exists (k, SVFn (mk_fn fs k e)). split; auto.
    - intros HT k f a Hin. apply in_app_or in Hin. destruct Hin as [Hin|Hin];
        apply in_mval_ia in Hin; destruct Hin as [sf [Hsf [Ef Ea]]]; subst f a.
      + destruct (sr_vars_sound fs tm k _ Hsf) as [[q [E _]]|[e [Hie E]]]; [discriminate|].
        inversion E; subst sf. cbn [sf_args sf_expr mk_fn]. rewrite callenv_pf. apply HT; auto.
        apply (in_map fst) in Hsf. cbn in Hsf. rewrite K1 in Hsf. apply in_has_key in Hsf. rewrite Hsf.
        apply orb_true_r.
      + destruct (sr_pars_sound fs tm k _ Hsf) as [[q [E _]]|[e [Hie E]]]; [discriminate|].
        inversion E; subst sf. cbn [sf_args sf_expr mk_fn]. rewrite callenv_pf. apply HT; auto.
        apply (in_map fst) in Hsf. cbn in Hsf. rewrite K2 in Hsf. apply in_has_key in Hsf. rewrite Hsf.
        reflexivity.
  Qed.

  Lemma lookup_mst : forall file r x st,
    lookup x (map (mst_of fs file r) st)
    = match lookup x st with Some c => Some (snd (mst_of fs file r (x, c))) | None => None end.
  Proof.
    induction st as [|[k c] rest IH]; cbn; [reflexivity|].
    destruct (String.eqb x k) eqn:E; [|exact IH]. apply String.eqb_eq in E. subst. reflexivity.
  Qed.

  (** a coefficient of the built model (number, [constant] over a named quantity, or a generated
      function) has the value of the document's coefficient expression *)
  Lemma mcoef_mst : forall file r x c (env : string -> V),
    mcoef A env (snd (mst_of fs file r (x, c))) = eval A (tenv env) c.
  Proof.
    intros file r x c env. unfold mst_of; cbn [fst snd].
    destruct c as [[|] q|s|o a b|a n|v rl a b e'|f a]; cbn [transform_stoich mcoef];
      try (cbn [mk_fn sf_args sf_expr]; apply callenv_pf).
    - reflexivity.
    - unfold callenv, call, fn_constant, tenv; cbn. reflexivity.
  Qed.

  Lemma mrhs_built : forall file (env : string -> V) x l acc,
    mrhs A env x
      (map (fun p => (fst p, mkMR (mkPF file (fst p) (fs (tr_expr (snd p))) (tr_expr (snd p))) (fs (tr_expr (snd p)))
                                  (map (mst_of fs file (fst p)) (tr_st (snd p))))) l) acc
    = trhs A env x l acc.
  Proof.
    intros file env x. induction l as [|[r tr] rest IH]; intros acc; cbn [map mrhs trhs fst snd mr_st]; [reflexivity|].
    rewrite lookup_mst. destruct (lookup x (tr_st tr)) as [c|]; [|apply IH].
    rewrite mcoef_mst. destruct (eval A (tenv env) c); [apply IH|reflexivity].
  Qed.
End SemProofs.

(** * plain values, assembly *)
Section Assembly.
  Variable fs : expr -> list string.
  Hypothesis Hfs : FsOk fs.
  Variable tm : tmodel.
  Notation F := expected_facts.

  Lemma built_plain_sound : forall file k q,
    In (k, MNum q) (m_vars (built fs tm file) ++ m_pars (built fs tm file)) -> In (k, q) (t_vars tm ++ t_pars tm).
  Proof.
    intros file k q H. unfold built in H; cbn [m_vars m_pars] in H. apply in_app_or in H.
    destruct H as [H|H]; apply in_map_iff in H; destruct H as [[k' [q'|sf]] [E Hin]];
      unfold mval_of in E; cbn in E; try discriminate; inversion E; subst; apply in_or_app.
    - left. destruct (sr_vars_sound fs tm k _ Hin) as [[q0 [E0 H0]]|[e [_ E0]]]; [|discriminate].
      inversion E0; subst; exact H0.
    - right. destruct (sr_pars_sound fs tm k _ Hin) as [[q0 [E0 H0]]|[e [_ E0]]]; [|discriminate].
      inversion E0; subst; exact H0.
  Qed.

  Lemma built_plain_complete : forall file k q,
    In (k, q) (t_vars tm ++ t_pars tm) -> ~ In k (map fst (t_ia tm)) ->
    In (k, MNum q) (m_vars (built fs tm file) ++ m_pars (built fs tm file)).
  Proof.
    intros file k q H Hn. unfold built; cbn [m_vars m_pars].
    destruct (ia_keep fs tm (t_ia tm) (cg0 fs tm) k (SVNum q) Hn) as [Kp Kv].
    apply in_app_or in H. apply in_or_app. destruct H as [H|H]; [left|right];
      apply in_map_iff; exists (k, SVNum q); (split; [reflexivity|]); unfold sr; rewrite codegen_unfold.
    - apply Kv. cbn. apply in_map_iff. exists (k, q). auto.
    - apply Kp. cbn. apply in_map_iff. exists (k, q). auto.
  Qed.

  (** ** every reference resolves (no hypothesis on key collisions) *)
  Lemma map_opt_fst : forall X Y (f : string * X -> option (string * Y)) l l',
    (forall x y, f x = Some y -> fst y = fst x) -> map_opt f l = Some l' -> map fst l' = map fst l.
  Proof.
    induction l as [|x r IH]; cbn; intros l' Hf H.
    - inversion H; reflexivity.
    - destruct (f x) as [y|] eqn:E; [|discriminate]. destruct (map_opt f r) as [ys|] eqn:Er; [|discriminate].
      inversion H; subst. cbn. rewrite (Hf x y E). f_equal. apply IH; auto.
  Qed.

  Lemma exec_val_fst : forall file g x y, exec_val file g x = Some y -> fst y = fst x.
  Proof.
    intros file g [k [q|n a]] y; unfold exec_val; cbn [fst snd]; [|destruct (resolve_fn file g n)];
      intros E; inversion E; reflexivity.
  Qed.
  Lemma exec_der_fst : forall file g x y, exec_der file g x = Some y -> fst y = fst x.
  Proof.
    intros file g x y; unfold exec_der. destruct (resolve_fn file g (fst (snd x))); intros E; inversion E; reflexivity.
  Qed.
  Lemma exec_rxn_fst : forall file g x y, exec_rxn file g x = Some y -> fst y = fst x.
  Proof.
    intros file g x y; unfold exec_rxn. destruct (resolve_fn file g (br_fn (snd x))); [destruct (map_opt (exec_st file g) (br_st (snd x)))|];
      intros E; inversion E; reflexivity.
  Qed.

  Lemma exec_total : forall file, WellFormed tm -> exists m, exec file (generate_flat F (sr fs tm)) = Some m.
  Proof.
    intros file [Hids _]. unfold exec. set (g := generate_flat F (sr fs tm)).
    destruct (sr_keys fs tm) as [K1 [K2 [K3 K4]]].
    assert (Hv : forall l, (forall k f, In (k, SVFn f) l -> In (init_key F f, (sf_expr f, sf_args f)) (events F (sr fs tm))) ->
                  exists l', map_opt (exec_val file g) (map (gen_val F) l) = Some l').
    { intros l Hl. apply map_opt_total. intros x Hx. apply in_map_iff in Hx. destruct Hx as [[k [q|f]] [E Hin]]; subst x.
      - eexists; reflexivity.
      - unfold exec_val, gen_val; cbn [fst snd]. destruct (resolve_some fs tm file _ _ (Hl k f Hin)) as [pf Hpf].
        subst g. rewrite Hpf. eexists; reflexivity. }
    destruct (Hv (s_vars (sr fs tm)) (ev_vars fs tm)) as [vs Evs].
    destruct (Hv (s_pars (sr fs tm)) (ev_pars fs tm)) as [ps Eps].
    assert (Ed : exists ds, map_opt (exec_der file g) (g_der g) = Some ds).
    { apply map_opt_total. subst g. cbn [generate_flat g_der]. rewrite K3. cbn [cg0 s_der]. rewrite map_map.
      intros x Hx. apply in_map_iff in Hx. destruct Hx as [[k e] [E Hin]]; subst x. unfold exec_der; cbn [fst snd sf_name sf_args mk_fn].
      destruct (resolve_some fs tm file _ _ (ev_der fs tm k e Hin)) as [pf Hpf]. rewrite Hpf. eexists; reflexivity. }
    assert (Er : exists rs, map_opt (exec_rxn file g) (g_rxn g) = Some rs).
    { apply map_opt_total. subst g. cbn [generate_flat g_rxn]. rewrite K4. cbn [cg0 s_rxn]. rewrite map_map.
      intros x Hx. apply in_map_iff in Hx. destruct Hx as [[k r] [E Hin]]; subst x.
      unfold exec_rxn; cbn [fst snd sf_name sf_args mk_fn sr_fn sr_st br_fn br_st br_args].
      destruct (resolve_some fs tm file _ _ (ev_rxn fs tm k r Hin)) as [pf Hpf]. rewrite Hpf.
      assert (Es : exists st, map_opt (exec_st file (generate_flat F (sr fs tm)))
                     (map (gen_st F k) (map (fun kv => (fst kv, transform_stoich fs (fst kv) (snd kv))) (tr_st r))) = Some st).
      { apply map_opt_total. rewrite map_map. intros y Hy. apply in_map_iff in Hy. destruct Hy as [[sp c] [E Hc]]; subst y.
        unfold exec_st, gen_st; cbn [fst snd]. destruct (transform_stoich fs sp c) as [q|s|f] eqn:Et; try (eexists; reflexivity).
        destruct (resolve_some fs tm file _ _ (ev_st fs tm k r sp c f Hin Hc Et)) as [pf' Hpf']. rewrite Hpf'. eexists; reflexivity. }
      destruct Es as [st Est]. rewrite Est. eexists; reflexivity. }
    destruct Ed as [ds Eds]. destruct Er as [rs Ers].
    change (g_vars g) with (map (gen_val F) (s_vars (sr fs tm))). change (g_pars g) with (map (gen_val F) (s_pars (sr fs tm))).
    rewrite Evs, Eps, Eds, Ers.
    assert (Hid : model_ids (mkM vs ps ds rs) = tm_ids tm).
    { unfold model_ids, tm_ids; cbn [m_vars m_pars m_der m_rxn].
      rewrite (map_opt_fst _ _ _ _ _ (exec_val_fst file g) Evs), (map_opt_fst _ _ _ _ _ (exec_val_fst file g) Eps),
              (map_opt_fst _ _ _ _ _ (exec_der_fst file g) Eds), (map_opt_fst _ _ _ _ _ (exec_rxn_fst file g) Ers).
      subst g. cbn [generate_flat g_der g_rxn]. rewrite !map_map. cbn [fst]. rewrite K3, K4. cbn [cg0 s_der s_rxn]. rewrite !map_map. cbn [fst].
      rewrite <- K1, <- K2. repeat f_equal; apply map_ext; reflexivity. }
    rewrite Hid, (nodup_strb_true _ Hids). eexists; reflexivity.
  Qed.
End Assembly.

(** * every argument of every component is an id of the model *)
Section Names.
  Variable fs : expr -> list string.
  Hypothesis Hfs : FsOk fs.
  Variable tm : tmodel.
  Hypothesis Hcl : Closed tm.
  Notation F := expected_facts.

  Lemma arg_ok : forall e a, In e (tm_exprs tm) -> In a (fs e) -> In a (tm_ids tm) \/ a = "time".
  Proof. intros e a He Ha. apply (Hcl e He). apply Hfs. exact Ha. Qed.

  Lemma ex_der : forall k e, In (k, e) (t_der tm) -> In e (tm_exprs tm).
  Proof. intros k e H. unfold tm_exprs. apply in_or_app. left. apply (in_map snd) in H. exact H. Qed.
  Lemma ex_rxn : forall k r, In (k, r) (t_rxn tm) -> In (tr_expr r) (tm_exprs tm).
  Proof.
    intros k r H. unfold tm_exprs. apply in_or_app. right. apply in_or_app. left.
    apply in_map_iff. exists (k, r). auto.
  Qed.
  Lemma ex_st : forall k r sp c, In (k, r) (t_rxn tm) -> In (sp, c) (tr_st r) -> In c (tm_exprs tm).
  Proof.
    intros k r sp c H Hc. unfold tm_exprs. do 2 (apply in_or_app; right). apply in_or_app. left.
    apply in_flat_map. exists (k, r). split; auto. cbn. apply (in_map snd) in Hc. exact Hc.
  Qed.
  Lemma ex_ia : forall k e, In (k, e) (t_ia tm) -> In e (tm_exprs tm).
  Proof. intros k e H. unfold tm_exprs. do 3 (apply in_or_app; right). apply (in_map snd) in H. exact H. Qed.

  Lemma in_ia_of : forall l k c, In (k, c) (ia_of l) -> In (k, MIA (fst c) (snd c)) l.
  Proof.
    intros l k [f a] H. unfold ia_of in H. apply in_flat_map in H. destruct H as [[k' [q|f' a']] [Hin Hc]]; cbn in Hc; [tauto|].
    destruct Hc as [E|[]]. inversion E; subst. exact Hin.
  Qed.

  Lemma built_args_closed : forall file k c,
    In (k, c) (comps_all (built fs tm file)) -> forall a, In a (snd c) -> In a (model_ids (built fs tm file)) \/ a = "time".
  Proof.
    intros file k c H a Ha. rewrite built_ids. unfold comps_all in H.
    repeat (apply in_app_or in H; destruct H as [H|H]).
    - apply in_ia_of in H. unfold built in H; cbn [m_vars] in H. apply in_mval_ia in H. destruct H as [sf [Hsf [_ Ea]]].
      destruct (sr_vars_sound fs tm k _ Hsf) as [[q [E _]]|[e [Hie E]]]; [discriminate|]. inversion E; subst sf.
      rewrite Ea in Ha. cbn in Ha. eapply arg_ok; eauto using ex_ia.
    - apply in_ia_of in H. unfold built in H; cbn [m_pars] in H. apply in_mval_ia in H. destruct H as [sf [Hsf [_ Ea]]].
      destruct (sr_pars_sound fs tm k _ Hsf) as [[q [E _]]|[e [Hie E]]]; [discriminate|]. inversion E; subst sf.
      rewrite Ea in Ha. cbn in Ha. eapply arg_ok; eauto using ex_ia.
    - unfold built in H; cbn [m_der] in H. apply in_map_iff in H. destruct H as [[k' e] [E Hin]]. cbn in E. inversion E; subst.
      cbn in Ha. eapply arg_ok; eauto using ex_der.
    - unfold rxn_comps, built in H; cbn [m_rxn] in H. rewrite map_map in H. apply in_map_iff in H.
      destruct H as [[k' r] [E Hin]]. cbn in E. inversion E; subst. cbn in Ha. eapply arg_ok; eauto using ex_rxn.
    - unfold st_comps, built in H; cbn [m_rxn] in H. apply in_flat_map in H. destruct H as [[k' mr] [Hmr Hq]].
      apply in_map_iff in Hmr. destruct Hmr as [[k2 r] [E Hin]]. cbn in E. inversion E; subst. cbn [snd mr_st] in Hq.
      apply in_flat_map in Hq. destruct Hq as [[sp ms] [Hms Hc]]. apply in_map_iff in Hms. destruct Hms as [[sp' c0] [E2 Hc0]].
      unfold mst_of in E2; cbn [fst snd] in E2. inversion E2; subst sp'. clear E2. cbn [snd] in Hc.
      assert (Hex := ex_st k' r sp c0 Hin Hc0).
      destruct c0 as [[|] q|s|o x y|x n|v rl x y e'|f x]; cbn [transform_stoich] in H1; subst ms; cbn in Hc;
        try tauto; destruct Hc as [E3|[]]; inversion E3; subst; cbn [snd] in Ha;
        try (eapply arg_ok; [exact Hex|exact Ha]).
      destruct Ha as [Ha|[]]. subst a. apply (Hcl _ Hex). now left.
  Qed.
End Names.

(** * two documents in one session *)
Section Sessions.
  Variable fs : expr -> list string.
  Notation F := expected_facts.

  Lemma map_opt_in_bwd : forall X Y (f : X -> option Y) l l' y,
    map_opt f l = Some l' -> In y l' -> exists x, In x l /\ f x = Some y.
  Proof.
    induction l as [|x r IH]; cbn; intros l' y H Hy.
    - inversion H; subst. destruct Hy.
    - destruct (f x) as [y0|] eqn:E; [|discriminate]. destruct (map_opt f r) as [ys|] eqn:Er; [|discriminate].
      inversion H; subst. destruct Hy as [Hy|Hy].
      + subst. exists x. auto.
      + destruct (IH ys y eq_refl Hy) as [x' [Hx' Hf]]. exists x'. auto.
  Qed.

  Definition from_module (file : string) (g : gensrc) (f : pyfn) : Prop :=
    pf_file f = file /\ lookup (pf_name f) (g_fns g) = Some (pf_body f, pf_params f).

  Lemma resolve_from : forall file g n f, resolve_fn file g n = Some f -> from_module file g f.
  Proof.
    intros file g n f H. unfold resolve_fn in H. destruct (lookup n (g_fns g)) as [[b ps]|] eqn:E; [|discriminate].
    inversion H; subst. split; cbn; auto.
  Qed.

  Lemma exec_fns : forall file g m f, exec file g = Some m -> In f (model_fns m) -> f = fn_constant \/ from_module file g f.
  Proof.
    intros file g m f H Hf. unfold exec in H.
    destruct (map_opt (exec_val file g) (g_vars g)) as [vs|] eqn:Ev; [|discriminate].
    destruct (map_opt (exec_val file g) (g_pars g)) as [ps|] eqn:Ep; [|discriminate].
    destruct (map_opt (exec_der file g) (g_der g)) as [ds|] eqn:Ed; [|discriminate].
    destruct (map_opt (exec_rxn file g) (g_rxn g)) as [rs|] eqn:Er; [|discriminate].
    destruct (nodup_strb (model_ids (mkM vs ps ds rs))); [|discriminate]. inversion H; subst m. clear H.
    assert (Hval : forall l l', map_opt (exec_val file g) l = Some l' ->
              In f (flat_map (fun p => match snd p with MIA f0 _ => [f0] | MNum _ => [] end) l') -> from_module file g f).
    { intros l l' Hl Hin. apply in_flat_map in Hin. destruct Hin as [[k [q|f0 a]] [Hk Hc]]; cbn in Hc; [tauto|].
      destruct Hc as [E|[]]; subst f0. destruct (map_opt_in_bwd _ _ _ _ _ _ Hl Hk) as [[k' [q'|n a']] [_ Hx]];
        unfold exec_val in Hx; cbn [fst snd] in Hx; [discriminate|].
      destruct (resolve_fn file g n) eqn:Er'; [|discriminate]. inversion Hx; subst. eapply resolve_from; eauto. }
    unfold model_fns in Hf; cbn [m_vars m_pars m_der m_rxn] in Hf.
    repeat (apply in_app_or in Hf; destruct Hf as [Hf|Hf]).
    - right. exact (Hval _ _ Ev Hf).
    - right. exact (Hval _ _ Ep Hf).
    - right. apply in_map_iff in Hf. destruct Hf as [[k [f0 a]] [E Hin]]. cbn in E. subst f0.
      destruct (map_opt_in_bwd _ _ _ _ _ _ Ed Hin) as [x [_ Hx]]. unfold exec_der in Hx.
      destruct (resolve_fn file g (fst (snd x))) eqn:Er'; [|discriminate]. inversion Hx; subst. eapply resolve_from; eauto.
    - apply in_flat_map in Hf. destruct Hf as [[k mr] [Hk Hc]].
      destruct (map_opt_in_bwd _ _ _ _ _ _ Er Hk) as [x [_ Hx]]. unfold exec_rxn in Hx.
      destruct (resolve_fn file g (br_fn (snd x))) eqn:Er'; [|discriminate].
      destruct (map_opt (exec_st file g) (br_st (snd x))) as [st|] eqn:Est; [|discriminate].
      inversion Hx; subst. cbn [snd mr_fn mr_st] in Hc. destruct Hc as [Hc|Hc].
      + subst. right. eapply resolve_from; eauto.
      + apply in_flat_map in Hc. destruct Hc as [[sp [q|f0 a]] [Hsp Hc]]; cbn in Hc; [tauto|].
        destruct Hc as [E|[]]; subst f0. destruct (map_opt_in_bwd _ _ _ _ _ _ Est Hsp) as [[sp' [q'|s|n a']] [_ Hy]];
          unfold exec_st in Hy; cbn [fst snd] in Hy.
        * discriminate.
        * inversion Hy; subst. left; reflexivity.
        * destruct (resolve_fn file g n) eqn:Er2; [|discriminate]. inversion Hy; subst. right. eapply resolve_from; eauto.
  Qed.

  Lemma out_name_not_fns : forall stem, out_name F stem <> "mxlpy/fns.py".
  Proof. intros stem. unfold out_name, valid_filename. cbn [f_file_prefix expected_facts]. cbn. discriminate. Qed.

  Lemma own_fns_from : forall s stem tm m f,
    snd (read F fs s stem tm) = Some m -> In f (own_fns (out_name F stem) m) ->
    exists g, generate F (codegen F fs tm) = Some g /\ from_module (out_name F stem) g f.
  Proof.
    intros s stem tm m f Hm Hf. unfold read in Hm.
    destruct (generate F (codegen F fs tm)) as [g|] eqn:Eg; cbn [snd] in Hm; [|discriminate].
    exists g. split; [reflexivity|]. unfold own_fns in Hf.
    apply filter_In in Hf. destruct Hf as [Hin Hfile]. apply String.eqb_eq in Hfile.
    destruct (exec_fns _ _ _ _ Hm Hin) as [E|E]; [|exact E].
    subst f. cbn in Hfile. exfalso. apply (out_name_not_fns stem). symmetry. exact Hfile.
  Qed.

  Lemma read_many_other : forall l s name,
    Forall (fun d => out_name F (fst d) <> name) l ->
    lookup name (ss_files (read_many F fs s l)) = lookup name (ss_files s).
  Proof.
    induction l as [|d r IH]; intros s name H; [reflexivity|].
    inversion H as [|? ? Hd Hr]; subst. unfold read_many; cbn [fold_left].
    change (fold_left _ r ?s0) with (read_many F fs s0 r). rewrite (IH _ name Hr).
    unfold read. destruct (generate F (codegen F fs (snd d))); cbn [fst ss_files]; [|reflexivity].
    apply lookup_dict_set_other. intro E. apply Hd. symmetry. exact E.
  Qed.

  (** after any history of further reads under other module names, the source of every generated
      function of the first model is still its own def *)
  Lemma two_documents : forall s0 stem1 tm1 m1 l,
    snd (read F fs s0 stem1 tm1) = Some m1 ->
    Forall (fun d => out_name F (fst d) <> out_name F stem1) l ->
    forall f, In f (own_fns (out_name F stem1) m1) ->
      getsource (read_many F fs (fst (read F fs s0 stem1 tm1)) l) f = Some (pf_body f, pf_params f).
  Proof.
    intros s0 stem1 tm1 m1 l Hm Hl f Hf. destruct (own_fns_from s0 stem1 tm1 m1 f Hm Hf) as [g [Eg [Efile Esrc]]].
    unfold getsource. rewrite Efile. rewrite (read_many_other l _ _ Hl).
    unfold read. rewrite Eg. cbn [fst ss_files]. rewrite lookup_dict_set_same. exact Esrc.
  Qed.

  Lemma read_pure : forall s stem tm, snd (read F fs s stem tm) = snd (read F fs empty_session stem tm).
  Proof. intros. unfold read. destruct (generate F (codegen F fs tm)); reflexivity. Qed.
End Sessions.

(** * the repaired generator (fresh names on a clash) writes the same module as the snapshot's generator
    whenever no two requested keys clash *)
Section Bridge.
  Notation F := expected_facts.
  Local Open Scope list_scope.

  Lemma reg_fresh : forall (evs0 : list (string * fdef)) key new,
    ~ In key (map fst evs0) ->
    reg F (dfold evs0 []) key new = Some (dfold (evs0 ++ [(key, new)]) [], key).
  Proof.
    intros evs0 key new Hn. unfold reg. cbn [f_register expected_facts].
    assert (Hl : lookup key (dfold evs0 []) = None) by (rewrite fold_lookup_notin by assumption; reflexivity).
    cbn [pick_name]. unfold fdef in *. rewrite Hl. rewrite fold_left_app. reflexivity.
  Qed.

  Lemma NoDup_app_remove_r : forall X (l l' : list X), NoDup (l ++ l') -> NoDup l.
  Proof.
    induction l as [|x r IH]; cbn; intros l' H; [constructor|].
    inversion H as [|? ? Hn Hr]; subst. constructor; [|eapply IH; eauto].
    intro Hin. apply Hn. apply in_or_app. left. exact Hin.
  Qed.

  Lemma nodup_key_fresh : forall (evs0 : list (string * fdef)) key (d : fdef) rest,
    NoDup (map fst (evs0 ++ (key, d) :: rest)) -> ~ In key (map fst evs0).
  Proof.
    intros evs0 key d rest H. rewrite map_app in H. cbn in H. apply NoDup_remove_2 in H.
    intro Hin. apply H. apply in_or_app. left. exact Hin.
  Qed.

  Lemma map_acc_flat : forall X Y (f : list (string * fdef) -> X -> option (list (string * fdef) * Y))
                              (ev : X -> list (string * fdef)) (out : X -> Y),
    (forall evs0 x, NoDup (map fst (evs0 ++ ev x)) -> f (dfold evs0 []) x = Some (dfold (evs0 ++ ev x) [], out x)) ->
    forall l evs0, NoDup (map fst (evs0 ++ flat_map ev l)) ->
      map_acc f (dfold evs0 []) l = Some (dfold (evs0 ++ flat_map ev l) [], map out l).
  Proof.
    intros X Y f ev out Hstep. induction l as [|x r IH]; intros evs0 Hnd; cbn [map_acc flat_map map].
    - rewrite app_nil_r. reflexivity.
    - cbn [flat_map] in Hnd. rewrite app_assoc in Hnd.
      assert (Hx : NoDup (map fst (evs0 ++ ev x))) by (rewrite map_app in Hnd; apply NoDup_app_remove_r in Hnd; exact Hnd).
      rewrite (Hstep evs0 x Hx). rewrite (IH (evs0 ++ ev x) Hnd). rewrite <- app_assoc. reflexivity.
  Qed.

  Definition bev_val (p : string * symval) : list (string * fdef) :=
    match snd p with SVNum _ => [] | SVFn f => [(init_key F f, (sf_expr f, sf_args f))] end.
  Definition bev_st (rxn : string) (p : string * symst) : list (string * fdef) :=
    match snd p with SSFn f => [(stoich_fn_key F rxn f, (sf_expr f, sf_args f))] | _ => [] end.
  Definition bev_rxn (p : string * symrxn) : list (string * fdef) :=
    (sf_name (sr_fn (snd p)), (sf_expr (sr_fn (snd p)), sf_args (sr_fn (snd p)))) :: st_events F (fst p) (sr_st (snd p)).
  Definition bev_der (p : string * symfn) : list (string * fdef) :=
    [(sf_name (snd p), (sf_expr (snd p), sf_args (snd p)))].

  Lemma step_val : forall evs0 x, NoDup (map fst (evs0 ++ bev_val x)) ->
    reg_val F (dfold evs0 []) x = Some (dfold (evs0 ++ bev_val x) [], gen_val F x).
  Proof.
    intros evs0 [k [q|f]] Hnd; unfold reg_val, bev_val, gen_val in *; cbn [fst snd] in *.
    - rewrite app_nil_r. reflexivity.
    - rewrite (reg_fresh evs0 _ _ (nodup_key_fresh _ _ _ _ Hnd)). reflexivity.
  Qed.

  Lemma step_der : forall evs0 x, NoDup (map fst (evs0 ++ bev_der x)) ->
    reg_der F (dfold evs0 []) x
    = Some (dfold (evs0 ++ bev_der x) [], (fst x, (sf_name (snd x), sf_args (snd x)))).
  Proof.
    intros evs0 [k f] Hnd; unfold reg_der, bev_der in *; cbn [fst snd] in *.
    rewrite (reg_fresh evs0 _ _ (nodup_key_fresh _ _ _ _ Hnd)). reflexivity.
  Qed.

  Lemma step_st : forall rxn evs0 x, NoDup (map fst (evs0 ++ bev_st rxn x)) ->
    reg_st F rxn (dfold evs0 []) x = Some (dfold (evs0 ++ bev_st rxn x) [], gen_st F rxn x).
  Proof.
    intros rxn evs0 [k [q|s|f]] Hnd; unfold reg_st, bev_st, gen_st in *; cbn [fst snd] in *;
      try (rewrite app_nil_r; reflexivity).
    rewrite (reg_fresh evs0 _ _ (nodup_key_fresh _ _ _ _ Hnd)). reflexivity.
  Qed.

  Lemma step_rxn : forall evs0 x, NoDup (map fst (evs0 ++ bev_rxn x)) ->
    reg_rxn F (dfold evs0 []) x
    = Some (dfold (evs0 ++ bev_rxn x) [],
            (fst x, mkBR (sf_name (sr_fn (snd x))) (sf_args (sr_fn (snd x))) (map (gen_st F (fst x)) (sr_st (snd x))))).
  Proof.
    intros evs0 [k r] Hnd; unfold reg_rxn, bev_rxn in *; cbn [fst snd] in *.
    rewrite (reg_fresh evs0 _ _ (nodup_key_fresh _ _ _ _ Hnd)). cbv beta iota.
    assert (Hst : NoDup (map fst ((evs0 ++ [(sf_name (sr_fn r), (sf_expr (sr_fn r), sf_args (sr_fn r)))]) ++ flat_map (bev_st k) (sr_st r)))).
    { rewrite <- app_assoc. exact Hnd. }
    pose proof (map_acc_flat _ _ (reg_st F k) (bev_st k) (gen_st F k) (step_st k) (sr_st r) _ Hst) as E.
    unfold fdef in *. rewrite E. rewrite <- app_assoc. reflexivity.
  Qed.

  Lemma flat_map_single : forall X Y (g : X -> Y) l, flat_map (fun x => [g x]) l = map g l.
  Proof. induction l as [|x r IH]; cbn; [reflexivity|]. rewrite IH. reflexivity. Qed.

  Lemma generate_nodup : forall s, NoDup (map fst (events F s)) -> generate F s = Some (generate_flat F s).
  Proof.
    intros s Hnd. unfold generate. cbn [f_sections expected_facts].
    assert (Eev : events F s = (flat_map bev_val (s_vars s) ++ flat_map bev_val (s_pars s)
                                ++ flat_map bev_der (s_der s) ++ flat_map bev_rxn (s_rxn s))%list).
    { unfold events. cbn [f_sections expected_facts flat_map section_events]. rewrite app_nil_r.
      unfold der_events. rewrite <- (flat_map_single _ _ (fun p => (sf_name (snd p), (sf_expr (snd p), sf_args (snd p))))).
      reflexivity. }
    rewrite Eev in Hnd.
    set (E1 := flat_map bev_val (s_vars s)) in *. set (E2 := flat_map bev_val (s_pars s)) in *.
    set (E3 := flat_map bev_der (s_der s)) in *. set (E4 := flat_map bev_rxn (s_rxn s)) in *.
    assert (H1 : NoDup (map fst ([] ++ E1))).
    { cbn. rewrite map_app in Hnd. apply NoDup_app_remove_r in Hnd. exact Hnd. }
    assert (H2 : NoDup (map fst (E1 ++ E2))).
    { rewrite app_assoc, map_app in Hnd. apply NoDup_app_remove_r in Hnd. exact Hnd. }
    assert (H3 : NoDup (map fst ((E1 ++ E2) ++ E3))).
    { rewrite app_assoc, app_assoc, map_app in Hnd. apply NoDup_app_remove_r in Hnd. exact Hnd. }
    assert (H4 : NoDup (map fst (((E1 ++ E2) ++ E3) ++ E4))).
    { rewrite <- !app_assoc. exact Hnd. }
    pose proof (map_acc_flat _ _ (reg_val F) bev_val (gen_val F) step_val (s_vars s) [] H1) as A1.
    pose proof (map_acc_flat _ _ (reg_val F) bev_val (gen_val F) step_val (s_pars s) E1 H2) as A2.
    pose proof (map_acc_flat _ _ (reg_der F) bev_der _ step_der (s_der s) (E1 ++ E2) H3) as A3.
    pose proof (map_acc_flat _ _ (reg_rxn F) bev_rxn _ step_rxn (s_rxn s) ((E1 ++ E2) ++ E3) H4) as A4.
    cbn [app fold_left] in A1. fold E1 E2 E3 E4 in A1, A2, A3, A4.
    unfold fdef in *. rewrite A1. cbv beta iota. rewrite A2. cbv beta iota. rewrite A3. cbv beta iota. rewrite A4. cbv beta iota.
    unfold generate_flat, build_dict. rewrite Eev. fold E1 E2 E3 E4. rewrite <- !app_assoc. reflexivity.
  Qed.
End Bridge.

(** * statements for the facts of the tree (instantiated in PropsC17.v through C17_facts_pinned) *)
Lemma fsyms_ok : FsOk fsyms.
Proof. intros e x. unfold fsyms. apply nodup_In. Qed.

Lemma import_correct : forall F, F = expected_facts ->
  forall (V : Type) (A : alg V) fs file tm,
    FsOk fs -> WellFormed tm -> NoReserved tm -> NoKeyCollision F fs tm ->
    exists m, run_module F fs file tm = Some m
      /\ model_ids m = tm_ids tm
      /\ map fst (m_vars m) = map fst (t_vars tm)
      /\ (forall k q, In (k, MNum q) (m_vars m ++ m_pars m) -> In (k, q) (t_vars tm ++ t_pars tm))
      /\ (forall k q, In (k, q) (t_vars tm ++ t_pars tm) -> ~ In k (map fst (t_ia tm)) ->
            In (k, MNum q) (m_vars m ++ m_pars m))
      /\ forall env : string -> V,
           (MEqs A m env <-> TEqs A tm env)
           /\ (MInit A m env <-> TInit A tm env)
           /\ (forall x acc, mrhs A env x (m_rxn m) acc = trhs A env x (t_rxn tm) acc).
Proof.
  intros F EF V A fs file tm Hfs Hwf _ Hnd. subst F. exists (built fs tm file).
  split; [unfold run_module; rewrite (generate_nodup _ Hnd); apply exec_built; assumption|].
  split; [apply built_ids|].
  split. { unfold built; cbn [m_vars]. rewrite map_map. destruct (sr_keys fs tm) as [K1 _]. rewrite <- K1. apply map_ext. reflexivity. }
  split; [apply built_plain_sound|]. split; [apply built_plain_complete|].
  intros env. split; [apply MEqs_built; assumption|]. split; [apply MInit_built; [assumption|apply Hwf]|].
  intros x acc. unfold built; cbn [m_rxn]. apply mrhs_built; assumption.
Qed.

Lemma names_consistent : forall F, F = expected_facts ->
  forall fs file tm, FsOk fs -> WellFormed tm -> NoReserved tm -> NoKeyCollision F fs tm -> Closed tm ->
    exists m, run_module F fs file tm = Some m
      /\ model_ids m = tm_ids tm /\ NoDup (model_ids m)
      /\ forall k c, In (k, c) (comps_all m) -> forall a, In a (snd c) -> In a (model_ids m) \/ a = "time".
Proof.
  intros F EF fs file tm Hfs Hwf _ Hnd Hcl. subst F. exists (built fs tm file).
  split; [unfold run_module; rewrite (generate_nodup _ Hnd); apply exec_built; assumption|]. split; [apply built_ids|].
  split; [rewrite built_ids; apply Hwf|]. apply built_args_closed; assumption.
Qed.

Lemma two_documents_F : forall F, F = expected_facts ->
  forall fs s0 stem1 tm1 m1 l,
    snd (read F fs s0 stem1 tm1) = Some m1 ->
    Forall (fun d => out_name F (fst d) <> out_name F stem1) l ->
    (forall f, In f (own_fns (out_name F stem1) m1) ->
       getsource (read_many F fs (fst (read F fs s0 stem1 tm1)) l) f = Some (pf_body f, pf_params f))
    /\ (forall s stem tm, snd (read F fs s stem tm) = snd (read F fs empty_session stem tm)).
Proof.
  intros F EF fs s0 stem1 tm1 m1 l Hm Hl. subst F. split.
  - apply two_documents; assumption.
  - intros; apply read_pure.
Qed.

(** the theorem with pysbml made explicit: [transform] is pysbml.load_and_transform_model, the
    document's own meaning is [DocEqs]/[DocInit]/[docrhs]; pysbml's correctness is a hypothesis *)
Section PySbml.
  Variable doc : Type.
  Variable transform : doc -> tmodel.
  Context {V : Type} (A : alg V).
  Variables (DocEqs DocInit : doc -> (string -> V) -> Prop).
  Variable docrhs : doc -> (string -> V) -> string -> option V.
  Hypothesis pysbml_ok : forall d env,
    WellFormed (transform d)
    /\ (TEqs A (transform d) env <-> DocEqs d env)
    /\ (TInit A (transform d) env <-> DocInit d env)
    /\ (forall x, trhs A env x (t_rxn (transform d)) (a_num A 0) = docrhs d env x).

  Lemma import_correct_doc : forall F, F = expected_facts ->
    forall fs file d, FsOk fs -> NoReserved (transform d) -> NoKeyCollision F fs (transform d) ->
      exists m, run_module F fs file (transform d) = Some m
        /\ forall env,
             (MEqs A m env <-> DocEqs d env) /\ (MInit A m env <-> DocInit d env)
             /\ (forall x, mrhs A env x (m_rxn m) (a_num A 0) = docrhs d env x).
  Proof.
    intros F EF fs file d Hfs Hres Hnd.
    assert (Hwf : WellFormed (transform d)) by (destruct (pysbml_ok d (fun _ => a_num A 0)) as [H _]; exact H).
    destruct (import_correct F EF V A fs file (transform d) Hfs Hwf Hres Hnd) as [m [He [_ [_ [_ [_ Hsem]]]]]].
    exists m. split; [exact He|]. intros env. destruct (Hsem env) as [H1 [H2 H3]].
    destruct (pysbml_ok d env) as [_ [P1 [P2 P3]]]. split; [|split].
    - rewrite H1. exact P1.
    - rewrite H2. exact P2.
    - intros x. rewrite H3. apply P3.
  Qed.
End PySbml.

(** * boolean checks for concrete documents *)
Lemma nodup_strb_sound : forall l, nodup_strb l = true -> NoDup l.
Proof.
  induction l as [|x r IH]; cbn; intros H; [constructor|].
  apply andb_true_iff in H. destruct H as [H1 H2]. constructor; [|auto].
  intro Hin. apply negb_true_iff in H1. assert (existsb (String.eqb x) r = true); [|congruence].
  apply existsb_exists. exists x. split; [exact Hin|apply String.eqb_refl].
Qed.

Lemma existsb_eqb_false : forall x l, existsb (String.eqb x) l = false -> ~ In x l.
Proof.
  intros x l H Hin. assert (existsb (String.eqb x) l = true); [|congruence].
  apply existsb_exists. exists x. split; [exact Hin|apply String.eqb_refl].
Qed.

Definition no_reserved_b (tm : tmodel) : bool :=
  forallb (fun x => negb (existsb (String.eqb x) (tm_names tm))) reserved.
Lemma no_reserved_sound : forall tm, no_reserved_b tm = true -> NoReserved tm.
Proof.
  intros tm H x Hx. unfold no_reserved_b in H. rewrite forallb_forall in H. specialize (H x Hx).
  apply negb_true_iff in H. apply existsb_eqb_false. exact H.
Qed.

Definition closed_b (tm : tmodel) : bool :=
  forallb (fun e => forallb (fun x => existsb (String.eqb x) ("time" :: tm_ids tm)) (syms e)) (tm_exprs tm).
Lemma closed_sound : forall tm, closed_b tm = true -> Closed tm.
Proof.
  intros tm H e He x Hx. unfold closed_b in H. rewrite forallb_forall in H. specialize (H e He).
  rewrite forallb_forall in H. specialize (H x Hx). apply existsb_exists in H. destruct H as [y [Hy E]].
  apply String.eqb_eq in E. subst y. destruct Hy as [Hy|Hy]; auto.
Qed.

Definition wellformed_b (tm : tmodel) : bool := nodup_strb (tm_ids tm) && nodup_strb (map fst (t_ia tm)).
Lemma wellformed_sound : forall tm, wellformed_b tm = true -> WellFormed tm.
Proof.
  intros tm H. apply andb_true_iff in H. destruct H. split; apply nodup_strb_sound; assumption.
Qed.
