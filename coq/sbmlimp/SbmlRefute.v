(** C17 -- machine-checked counter-examples (recorded findings) and the non-vacuity example. *)
From Coq Require Import String Ascii List ZArith QArith Bool Lia.
From SbmlImp Require Import SbmlExpr SbmlImport SbmlRun SbmlSpec SbmlProofs SbmlWitness.
Import ListNotations.
Open Scope string_scope.

Definition env_of (l : list (string * Q)) : string -> Q :=
  fun s => match lookup s l with Some v => v | None => 0%Q end.

(** the document has a rule-defined parameter called v1_stoich_A and a reaction v1 consuming A in a
    compartment of size 2: both function bodies are filed as "v1_stoich_A", the later one wins *)
Definition w_env : string -> Q :=
  env_of [("A", 4#1); ("B", 1#1); ("k1", 3#1); ("k3", 1#1); ("c", 2#1); ("v1_stoich_A", 8#1);
          ("A_amount", 8#1); ("B_amount", 2#1); ("v1", 96#1)]%Q.

(** with the snapshot's way of storing function bodies ([functions[key] = ...]) the property fails *)
Lemma key_collision_old_code_refuted :
  exists tm file m env,
    WellFormed tm /\ NoReserved tm /\ Closed tm /\ ~ NoKeyCollision snapshot_facts fsyms tm
    /\ run_module snapshot_facts fsyms file tm = Some m
    /\ TEqs q_alg tm env /\ ~ MEqs q_alg m env.
Proof.
  exists w_stoich_coll, "mb_w". eexists. exists w_env.
  split; [apply wellformed_sound; vm_compute; reflexivity|].
  split; [apply no_reserved_sound; vm_compute; reflexivity|].
  split; [apply closed_sound; vm_compute; reflexivity|].
  split.
  { intro H. apply nodup_strb_true in H. vm_compute in H. discriminate H. }
  split; [vm_compute; reflexivity|].
  split.
  - split.
    + intros k e Hin. cbn in Hin. destruct Hin as [E|[E|[E|[]]]]; inversion E; subst; vm_compute; reflexivity.
    + intros k r Hin. cbn in Hin. destruct Hin as [E|[]]; inversion E; subst; vm_compute; reflexivity.
  - intros [Hd _]. specialize (Hd "v1_stoich_A" _ (or_introl eq_refl)). vm_compute in Hd. discriminate Hd.
Qed.

(** the same document with the repaired generator (fresh name v1_stoich_A_1 for the second body): the
    built Model's rules and laws hold in the environment in which the document's hold, and the
    derivatives are the document's *)
Lemma key_collision_repaired : forall F, F = expected_facts ->
  ~ NoKeyCollision F fsyms w_stoich_coll
  /\ exists m, run_module F fsyms "mb_w" w_stoich_coll = Some m
       /\ TEqs q_alg w_stoich_coll w_env /\ MEqs q_alg m w_env
       /\ (forall x, mrhs q_alg w_env x (m_rxn m) 0 = trhs q_alg w_env x (t_rxn w_stoich_coll) 0).
Proof.
  intros F EF. subst F. split.
  { intro H. apply nodup_strb_true in H. vm_compute in H. discriminate H. }
  eexists. split; [vm_compute; reflexivity|].
  split; [|split].
  - split.
    + intros k e Hin. cbn in Hin. destruct Hin as [E|[E|[E|[]]]]; inversion E; subst; vm_compute; reflexivity.
    + intros k r Hin. cbn in Hin. destruct Hin as [E|[]]; inversion E; subst; vm_compute; reflexivity.
  - split.
    + intros k c Hin. cbn in Hin. destruct Hin as [E|[E|[E|[]]]]; inversion E; subst; vm_compute; reflexivity.
    + intros k r Hin. cbn in Hin. destruct Hin as [E|[]]; inversion E; subst; vm_compute; reflexivity.
  - intros x. cbn [m_rxn t_rxn w_stoich_coll mrhs trhs].
    destruct (String.eqb x "A") eqn:EA; [apply String.eqb_eq in EA; subst; vm_compute; reflexivity|].
    destruct (String.eqb x "B") eqn:EB; [apply String.eqb_eq in EB; subst; vm_compute; reflexivity|].
    cbn [lookup mr_st tr_st]. rewrite EA, EB. reflexivity.
Qed.

(** same normalised stem: the second read overwrites the module file of the first *)
Definition w_m1 : option mmodel :=
  Eval vm_compute in snd (read expected_facts fsyms empty_session "My Model" w_base1).
Definition w_f : pyfn :=
  Eval vm_compute in
    match w_m1 with
    | Some m => match find (fun f => String.eqb (pf_name f) "v1") (own_fns "mb_my_model" m) with
                | Some f => f | None => fn_constant end
    | None => fn_constant
    end.

Lemma same_stem_refuted : forall F, F = expected_facts ->
  exists stem1 stem2 tm1 tm2 m1 f,
    stem1 <> stem2 /\ out_name F stem1 = out_name F stem2
    /\ WellFormed tm1 /\ WellFormed tm2 /\ NoKeyCollision F fsyms tm1 /\ NoKeyCollision F fsyms tm2
    /\ snd (read F fsyms empty_session stem1 tm1) = Some m1
    /\ In f (own_fns (out_name F stem1) m1)
    /\ getsource (fst (read F fsyms empty_session stem1 tm1)) f = Some (pf_body f, pf_params f)
    /\ getsource (fst (read F fsyms (fst (read F fsyms empty_session stem1 tm1)) stem2 tm2)) f
       <> Some (pf_body f, pf_params f).
Proof.
  intros F EF. subst F. exists "My Model", "my-model", w_base1, w_base5. eexists. exists w_f.
  split; [discriminate|]. split; [vm_compute; reflexivity|].
  split; [apply wellformed_sound; vm_compute; reflexivity|].
  split; [apply wellformed_sound; vm_compute; reflexivity|].
  split; [apply nodup_strb_sound; vm_compute; reflexivity|].
  split; [apply nodup_strb_sound; vm_compute; reflexivity|].
  split; [vm_compute; reflexivity|].
  split; [vm_compute; tauto|].
  split; [vm_compute; reflexivity|].
  vm_compute. discriminate.
Qed.

(** non-vacuity: a document with a compartment of size 2, a rule, initial assignments on a parameter
    and on a species, an amount species whose id is a Python keyword (pysbml: lambda -> lambda_), a
    fractional coefficient -- meets every hypothesis, and the model computes what mxlpy returned *)
Lemma nonvacuous : forall F, F = expected_facts ->
  FsOk fsyms /\ WellFormed w_nonvac /\ NoReserved w_nonvac /\ Closed w_nonvac /\ NoKeyCollision F fsyms w_nonvac
  /\ exists ic args,
       observe q_alg (run_module F fsyms "mb_nv" w_nonvac)
               [[("A", 4#1); ("B", 4#1); ("lambda_", 2#1)]%Q]
       = Val (ic, [(args, [("A", (-132)#1); ("B", 262#1); ("lambda_", 8#1)]%Q)]).
Proof.
  intros F EF. subst F.
  split; [exact fsyms_ok|].
  split; [apply wellformed_sound; vm_compute; reflexivity|].
  split; [apply no_reserved_sound; vm_compute; reflexivity|].
  split; [apply closed_sound; vm_compute; reflexivity|].
  split; [apply nodup_strb_sound; vm_compute; reflexivity|].
  eexists. eexists. vm_compute. reflexivity.
Qed.
