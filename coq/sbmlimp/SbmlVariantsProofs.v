(** C17 -- proofs about the pipeline behind the three further facts (SbmlVariants.v): for the facts of the
    tree nothing is dropped and no number is changed; every reaction of the document reaches the Model with
    the species of its coefficients and its constant coefficients as they stand; regression witnesses for
    the three seeded shapes. *)
From Coq Require Import String Ascii List ZArith QArith Qabs Bool Lia.
From SbmlImp Require Import SbmlExpr SbmlImport SbmlRun SbmlSpec SbmlProofs SbmlVariants SbmlWitness2.
Import ListNotations.
Open Scope string_scope.

Lemma map_opt_id : forall X (f : X -> option X) l, (forall x, f x = Some x) -> map_opt f l = Some l.
Proof.
  induction l as [|x r IH]; intros H; cbn; [reflexivity|]. rewrite (H x), (IH H). reflexivity.
Qed.

Lemma filter_true : forall X (f : X -> bool) l, (forall x, f x = true) -> filter f l = l.
Proof.
  induction l as [|x r IH]; intros H; cbn; [reflexivity|]. rewrite (H x), (IH H). reflexivity.
Qed.

Lemma lit_coef_repr : forall p, lit_coef LitRepr p = Some p.
Proof. intros [k e]. destruct e as [[|] q| | | | |]; reflexivity. Qed.

Lemma lit_rxn_repr : forall p, lit_rxn LitRepr p = Some p.
Proof.
  intros [k [e st]]. unfold lit_rxn; cbn [fst snd tr_st tr_expr].
  rewrite (map_opt_id _ _ st lit_coef_repr). reflexivity.
Qed.

Lemma lit_pairs_repr : forall l, lit_pairs LitRepr l = Some l.
Proof. intros l. unfold lit_pairs. apply map_opt_id. intros [k q]. reflexivity. Qed.

(** for the facts of the tree the generated module carries the transformed document unchanged *)
Lemma carried_expected : forall tm, carried expected_facts2 tm = Some tm.
Proof.
  intros [vs ps ds rs ia]. unfold carried; cbn [expected_facts2 f_rxn_filter f_lit_var f_lit_par f_lit_stoich t_vars t_pars t_der t_rxn t_ia].
  rewrite !lit_pairs_repr. rewrite (filter_true _ _ rs) by (intros; reflexivity).
  rewrite (map_opt_id _ _ rs lit_rxn_repr). reflexivity.
Qed.

Lemma run_module2_expected : forall G, G = expected_facts2 -> forall F fs file tm,
  run_module2 G F fs file tm = run_module F fs file tm.
Proof. intros G EG F fs file tm. subst G. unfold run_module2. rewrite carried_expected. reflexivity. Qed.

Lemma nothing_dropped : forall G, G = expected_facts2 -> forall F fs file tm,
  carried G tm = Some tm /\ run_module2 G F fs file tm = run_module F fs file tm.
Proof.
  intros G EG F fs file tm. split; [subst G; apply carried_expected|apply run_module2_expected; exact EG].
Qed.

Lemma case_ok2_expected : forall G, G = expected_facts2 -> forall F c, case_ok2 G F c = case_ok F c.
Proof. intros G EG F [tm st ss ks str ob vs cf]. subst G. unfold case_ok2. cbn [c_tm]. rewrite carried_expected. reflexivity. Qed.

(** every reaction of the transformed document is a reaction of the built Model, in the document's order,
    acting on the same species; a constant coefficient is the document's number *)
Lemma reactions_imported : forall F G, F = expected_facts -> G = expected_facts2 ->
  forall fs file tm, FsOk fs -> WellFormed tm -> NoReserved tm -> NoKeyCollision F fs tm ->
    exists m, run_module2 G F fs file tm = Some m
      /\ map (fun p => (fst p, map fst (mr_st (snd p)))) (m_rxn m) = map (fun p => (fst p, map fst (tr_st (snd p)))) (t_rxn tm)
      /\ (forall r rx sp q, In (r, rx) (t_rxn tm) -> In (sp, ENum true q) (tr_st rx) ->
            exists mr, In (r, mr) (m_rxn m) /\ In (sp, MSNum q) (mr_st mr)).
Proof.
  intros F G EF EG fs file tm Hfs Hwf _ Hnd. subst F. rewrite (run_module2_expected G EG).
  exists (built fs tm file).
  split; [unfold run_module; rewrite (generate_nodup _ Hnd); apply exec_built; assumption|].
  split.
  - unfold built; cbn [m_rxn]. rewrite map_map. apply map_ext. intros [k rx]; cbn [fst snd mr_st].
    f_equal. rewrite map_map. apply map_ext. intros kv. reflexivity.
  - intros r rx sp q Hr Hc. unfold built; cbn [m_rxn].
    eexists. split.
    + apply in_map_iff. exists (r, rx). split; [reflexivity|exact Hr].
    + cbn [mr_st fst snd]. apply in_map_iff. exists (sp, ENum true q). split; [reflexivity|exact Hc].
Qed.

Lemma mem_in : forall x l, existsb (String.eqb x) l = true -> In x l.
Proof.
  intros x l H. apply existsb_exists in H. destruct H as [y [Hy E]]. apply String.eqb_eq in E. subst y. exact Hy.
Qed.

(** seeded shape C17-5: a reaction without changed species that no other math reads is not handed to the generator *)
Lemma unread_reaction_skipped : forall F, F = expected_facts ->
  exists tm file m,
    WellFormed tm /\ NoReserved tm /\ Closed tm /\ NoKeyCollision F fsyms tm
    /\ run_module2 skip_facts2 F fsyms file tm = Some m
    /\ map fst (t_rxn tm) = ["sense"; "v1"] /\ map fst (m_rxn m) = ["v1"].
Proof.
  intros F EF. subst F. exists w_idle, "mb_w". eexists.
  split; [apply wellformed_sound; vm_compute; reflexivity|].
  split; [apply no_reserved_sound; vm_compute; reflexivity|].
  split; [apply closed_sound; vm_compute; reflexivity|].
  split; [apply nodup_strb_sound; vm_compute; reflexivity|].
  split; [vm_compute; reflexivity|].
  split; vm_compute; reflexivity.
Qed.

Definition tcoef (tm : tmodel) (r sp : string) : option expr :=
  match lookup r (t_rxn tm) with Some rx => lookup sp (tr_st rx) | None => None end.
Definition mcoef_of (m : mmodel) (r sp : string) : option mst :=
  match lookup r (m_rxn m) with Some rx => lookup sp (mr_st rx) | None => None end.

(** seeded shape C17-6: a coefficient written with 15 significant digits denotes a number that is more than
    half a unit in the last place (2^-55 for a double in [1/4, 1/2)) away from the document's double, so no
    correctly rounding reader returns the document's coefficient *)
Lemma fifteen_digit_coefficient : forall F, F = expected_facts ->
  exists tm file m q q',
    WellFormed tm /\ NoReserved tm /\ NoKeyCollision F fsyms tm
    /\ run_module2 lit15_facts2 F fsyms file tm = Some m
    /\ tcoef tm "v1" "P" = Some (ENum true q) /\ mcoef_of m "v1" "P" = Some (MSNum q')
    /\ (1 # 4 <= q)%Q /\ (q < 1 # 2)%Q /\ (1 # 36028797018963968 < Qabs (q' - q))%Q.
Proof.
  intros F EF. subst F. exists w_precise, "mb_w". eexists. eexists. eexists.
  split; [apply wellformed_sound; vm_compute; reflexivity|].
  split; [apply no_reserved_sound; vm_compute; reflexivity|].
  split; [apply nodup_strb_sound; vm_compute; reflexivity|].
  split; [vm_compute; reflexivity|].
  split; [vm_compute; reflexivity|].
  split; [vm_compute; reflexivity|].
  split; [vm_compute; discriminate|].
  split; vm_compute; reflexivity.
Qed.

(** ... while the same document through the tree's facts keeps the number *)
Lemma repr_coefficient_kept : forall F G, F = expected_facts -> G = expected_facts2 ->
  exists m q, run_module2 G F fsyms "mb_w" w_precise = Some m
    /\ tcoef w_precise "v1" "P" = Some (ENum true q) /\ mcoef_of m "v1" "P" = Some (MSNum q).
Proof.
  intros F G EF EG. subst F G. eexists. eexists.
  split; [vm_compute; reflexivity|]. split; vm_compute; reflexivity.
Qed.

(** the names a generated module needs: with qualified references exactly the recorded [reserved] list, so the
    names of the math functions are ordinary ids *)
Lemma math_names_free : forall G, G = expected_facts2 -> forall tm, NoReserved2 G tm <-> NoReserved tm.
Proof. intros G EG tm. subst G. unfold NoReserved2, NoReserved. cbn [needed_names expected_facts2 f_math_ref]. tauto. Qed.

(** seeded shape C17-4: a document with a species called log and a parameter called exp, used inside laws that
    call ln() and exp(), meets every hypothesis of the import theorem; with bare references both ids are names
    the module needs *)
Lemma math_ids_witness : forall F, F = expected_facts ->
  WellFormed w_mathids /\ NoReserved w_mathids /\ Closed w_mathids /\ NoKeyCollision F fsyms w_mathids
  /\ In "exp" (tm_names w_mathids) /\ In "log" (tm_names w_mathids)
  /\ NoReserved2 expected_facts2 w_mathids /\ ~ NoReserved2 bare_facts2 w_mathids.
Proof.
  intros F EF. subst F.
  split; [apply wellformed_sound; vm_compute; reflexivity|].
  assert (Hn : NoReserved w_mathids) by (apply no_reserved_sound; vm_compute; reflexivity).
  split; [exact Hn|].
  split; [apply closed_sound; vm_compute; reflexivity|].
  split; [apply nodup_strb_sound; vm_compute; reflexivity|].
  assert (He : In "exp" (tm_names w_mathids)) by (apply mem_in; vm_compute; reflexivity).
  split; [exact He|].
  split; [apply mem_in; vm_compute; reflexivity|].
  split; [apply (math_names_free _ eq_refl); exact Hn|].
  intro H. apply (H "exp"); [apply mem_in; vm_compute; reflexivity|exact He].
Qed.

Lemma math_names_statement : forall F G, F = expected_facts -> G = expected_facts2 ->
  (forall tm, NoReserved2 G tm <-> NoReserved tm)
  /\ WellFormed w_mathids /\ NoReserved w_mathids /\ Closed w_mathids /\ NoKeyCollision F fsyms w_mathids
  /\ In "exp" (tm_names w_mathids) /\ In "log" (tm_names w_mathids)
  /\ NoReserved2 expected_facts2 w_mathids /\ ~ NoReserved2 bare_facts2 w_mathids.
Proof. intros F G EF EG. split; [exact (math_names_free G EG)|exact (math_ids_witness F EF)]. Qed.
