(** C17 -- SBML import builds the model the document describes.

    ONLY theorem statements (written out in full), each closed by [exact <lemma>] and followed by
    [Print Assumptions].  All statements are about [gen_facts], the facts REGENERATED from
    /repo/src/mxlpy/sbml/_import.py, meta/codegen_mxlpy.py and meta/sympy_tools.py on every run;
    [C17_facts_pinned] breaks when the names under which function bodies are filed, the order of the
    loops that fill the [functions] dict, the way a body is stored ([_register_fn]: fresh name on a
    clash -- fix a07e507 -- vs. the snapshot's plain overwrite), the parameters-before-variables dispatch
    of initial assignments, the module/file name or the shape of any other anchored statement is edited.
    [run_module F fs file tm] = _codegen + generate_mxlpy_code_from_symbolic_repr + import_from_path +
    create_model() under the module name [file].

    Pipeline (SbmlImport.v):   tmodel  (what pysbml.load_and_transform_model returned)
        --[_codegen/_transform_stoichiometry]--> symrepr --[generate_mxlpy_code_from_symbolic_repr]-->
        gensrc (the written module) --[import_from_path ; create_model()]--> mmodel (the mxlpy Model).
    Reading of the two ends (SbmlRun.v), for an arbitrary value algebra [A] (binary64 or exact Q) and
    an arbitrary assignment [env] of values to all names (= "at every state"):
      [TEqs tm env]   every rule / kinetic law of the transformed document holds in env,
      [TInit tm env]  every initial assignment of the document holds in env,
      [trhs env x ..] sum over the reactions of coefficient-expression * rate for species x;
      [MEqs m env], [MInit m env], [mrhs env x ..]  the same for the built Model, whose components are
      Python functions called positionally with the values of their argument lists.

    The property is PARTIAL by design: pysbml's transformer (function definitions inlined,
    compartment sizes applied, ids renamed) is external -- its output is the input here, and
    [C17_import_correct_doc_partial] takes its meaning-preservation as an explicit hypothesis. *)
From Coq Require Import String List QArith.
From SbmlImp Require Import SbmlExpr SbmlImport SbmlRun SbmlSpec SbmlProofs SbmlWitness SbmlRefute SbmlRunProofs SbmlPick
  SbmlVariants SbmlWitness2 SbmlVariantsProofs SbmlClose3 SbmlWitness3 SbmlClose3Proofs GenSbmlFacts.
Import ListNotations.
Open Scope string_scope.

Theorem C17_facts_pinned : gen_facts = expected_facts.
Proof. vm_compute. reflexivity. Qed.
Print Assumptions C17_facts_pinned.

(** FULL STATEMENT: the same without the hypotheses [NoReserved tm] (false of the code: recorded finding
    C17-reserved-name-capture) and [NoKeyCollision gen_facts fs tm].  Since fix a07e507 the code no longer
    violates the statement when keys clash (a different function gets a fresh name: see
    C17_key_collision_repaired for the former witness, and C17_key_collision_old_code_refuted for the
    snapshot's behaviour); the GENERAL proof for clashing keys (every reference resolves to a def that is
    positionally interchangeable with the component's own) is NOT done here -- it is proved for the
    same generator in coq/mxlgen (C11) and validated here by correspondence + oracle on deliberately
    colliding documents.  What is proved: when no two requested keys clash the repaired generator
    writes the very module the snapshot's generator wrote (SbmlProofs.generate_nodup), and then:

    Proved: for every transformed document whose dictionaries are well formed, that uses none of the
    names the generated module needs itself, and for which the generator files every function body
    under its own name -- for EVERY enumeration order [fs] of sympy's free_symbols sets and EVERY
    module name -- create_model() succeeds and returns a Model with the document's ids, whose plain
    values are the document's numbers, whose initial assignments override exactly the values the
    document assigns (parameters and variables alike), whose rules and kinetic laws hold in exactly
    the environments in which the document's do, and whose species derivatives (constant Float,
    named-quantity and computed coefficients) are the document's: stoichiometry x kinetic laws. *)
Theorem C17_import_correct_partial :
  forall (V : Type) (A : alg V) (fs : expr -> list string) (file : string) (tm : tmodel),
    FsOk fs -> WellFormed tm -> NoReserved tm -> NoKeyCollision gen_facts fs tm ->
    exists m, run_module gen_facts fs file tm = Some m
      /\ model_ids m = tm_ids tm
      /\ map fst (m_vars m) = map fst (t_vars tm)
      /\ (forall k q, In (k, MNum q) (m_vars m ++ m_pars m) -> In (k, q) (t_vars tm ++ t_pars tm))
      /\ (forall k q, In (k, q) (t_vars tm ++ t_pars tm) -> ~ In k (map fst (t_ia tm)) ->
            In (k, MNum q) (m_vars m ++ m_pars m))
      /\ forall env : string -> V,
           (MEqs A m env <-> TEqs A tm env)
           /\ (MInit A m env <-> TInit A tm env)
           /\ (forall x acc, mrhs A env x (m_rxn m) acc = trhs A env x (t_rxn tm) acc).
Proof. exact (import_correct gen_facts C17_facts_pinned). Qed.
Print Assumptions C17_import_correct_partial.

(** the same with pysbml explicit: IF load_and_transform_model ([transform]) returns a well-formed
    model that means what the document means ([DocEqs]/[DocInit]/[docrhs]: function definitions,
    assignment rules and compartment sizes applied), THEN the Model mxlpy builds means it too *)
Theorem C17_import_correct_doc_partial :
  forall (doc : Type) (transform : doc -> tmodel) (V : Type) (A : alg V)
         (DocEqs DocInit : doc -> (string -> V) -> Prop) (docrhs : doc -> (string -> V) -> string -> option V),
    (forall d env,
        WellFormed (transform d)
        /\ (TEqs A (transform d) env <-> DocEqs d env)
        /\ (TInit A (transform d) env <-> DocInit d env)
        /\ (forall x, trhs A env x (t_rxn (transform d)) (a_num A 0) = docrhs d env x)) ->
    forall (fs : expr -> list string) (file : string) (d : doc),
      FsOk fs -> NoReserved (transform d) -> NoKeyCollision gen_facts fs (transform d) ->
      exists m, run_module gen_facts fs file (transform d) = Some m
        /\ forall env,
             (MEqs A m env <-> DocEqs d env) /\ (MInit A m env <-> DocInit d env)
             /\ (forall x, mrhs A env x (m_rxn m) (a_num A 0) = docrhs d env x).
Proof.
  exact (fun doc transform V A DocEqs DocInit docrhs H =>
           import_correct_doc doc transform A DocEqs DocInit docrhs H gen_facts C17_facts_pinned).
Qed.
Print Assumptions C17_import_correct_doc_partial.

(** the generator never gives up, key clashes or not: the fresh-name search of _register_fn (key, key_1,
    key_2, ...; fuel = len(functions) + 1 in the model) always finds a name, so a module is written for
    EVERY symbolic representation -- the [None] outcome of the model's [generate] is unreachable *)
Theorem C17_generator_total :
  forall (s : symrepr), generate gen_facts s <> None.
Proof. exact (generate_total gen_facts C17_facts_pinned). Qed.
Print Assumptions C17_generator_total.

(** FULL STATEMENT: the same for ids as they stand in the SBML file.  The renaming of ids that are not
    usable Python names (keywords, leading non-letters) happens inside pysbml and is NOT injective
    ("if" and "if_" are merged: recorded finding C17-keyword-escape-not-injective); proved here for the
    ids as pysbml hands them over: they are pairwise different in the built Model and every argument
    name of every component (initial assignments, rules, kinetic laws, computed coefficients) is an
    id of the Model or the time symbol *)
Theorem C17_names_consistent_partial :
  forall (fs : expr -> list string) (file : string) (tm : tmodel),
    FsOk fs -> WellFormed tm -> NoReserved tm -> NoKeyCollision gen_facts fs tm -> Closed tm ->
    exists m, run_module gen_facts fs file tm = Some m
      /\ model_ids m = tm_ids tm /\ NoDup (model_ids m)
      /\ forall k c, In (k, c) (comps_all m) -> forall a, In a (snd c) -> In a (model_ids m) \/ a = "time".
Proof. exact (names_consistent gen_facts C17_facts_pinned). Qed.
Print Assumptions C17_names_consistent_partial.

(** two documents in one session: after ANY history of further reads whose normalised module names
    differ from the first one's, inspect.getsource of every generated function of the first model is
    still that function's own def; and what a read returns does not depend on the session at all *)
Theorem C17_two_documents :
  forall (fs : expr -> list string) (s0 : session) (stem1 : string) (tm1 : tmodel) (m1 : mmodel)
         (l : list (string * tmodel)),
    snd (read gen_facts fs s0 stem1 tm1) = Some m1 ->
    Forall (fun d => out_name gen_facts (fst d) <> out_name gen_facts stem1) l ->
    (forall f, In f (own_fns (out_name gen_facts stem1) m1) ->
       getsource (read_many gen_facts fs (fst (read gen_facts fs s0 stem1 tm1)) l) f = Some (pf_body f, pf_params f))
    /\ (forall s stem tm, snd (read gen_facts fs s stem tm) = snd (read gen_facts fs empty_session stem tm)).
Proof. exact (two_documents_F gen_facts C17_facts_pinned). Qed.
Print Assumptions C17_two_documents.

(** link to the executable reading of Model.get_right_hand_side that the correspondence check runs
    against mxlpy ([rhs_of], association-list environment): whenever it returns a number, that number is
    the sum [mrhs] of the theorems above, in every environment that agrees with the association list *)
Theorem C17_executable_rhs_is_mrhs :
  forall (V : Type) (A : alg V) (l : list (string * V)) (envf : string -> V) (x : string)
         (rxns : list (string * mrxn)) (acc v : V),
    (forall n w, lookup n l = Some w -> envf n = w) ->
    rhs_of A l x rxns acc = Some v -> mrhs A envf x rxns acc = Some v.
Proof. exact (fun V A => rhs_of_mrhs A). Qed.
Print Assumptions C17_executable_rhs_is_mrhs.

(** REPAIRED defect C17-function-key-collision (fix a07e507), regression witness about the OLD fact value
    [snapshot_facts] (= expected facts with f_register := RegOverwrite): a well-formed, closed document
    without reserved names (a rule-defined parameter called v1_stoich_A next to a reaction v1 that consumes
    A in a compartment of size 2) whose rules hold in an environment in which the built Model's do not *)
Theorem C17_key_collision_old_code_refuted :
  exists (tm : tmodel) (file : string) (m : mmodel) (env : string -> Q),
    WellFormed tm /\ NoReserved tm /\ Closed tm /\ ~ NoKeyCollision snapshot_facts fsyms tm
    /\ run_module snapshot_facts fsyms file tm = Some m
    /\ TEqs q_alg tm env /\ ~ MEqs q_alg m env.
Proof. exact key_collision_old_code_refuted. Qed.
Print Assumptions C17_key_collision_old_code_refuted.

(** the same document under the CURRENT facts: keys still clash, the second body is stored as
    v1_stoich_A_1, the built Model's rules and laws hold in that environment and the derivatives of every
    species are the document's *)
Theorem C17_key_collision_repaired :
  ~ NoKeyCollision gen_facts fsyms w_stoich_coll
  /\ exists m, run_module gen_facts fsyms "mb_w" w_stoich_coll = Some m
       /\ TEqs q_alg w_stoich_coll w_env /\ MEqs q_alg m w_env
       /\ (forall x, mrhs q_alg w_env x (m_rxn m) 0 = trhs q_alg w_env x (t_rxn w_stoich_coll) 0).
Proof. exact (key_collision_repaired gen_facts C17_facts_pinned). Qed.
Print Assumptions C17_key_collision_repaired.

(** recorded finding C17-same-stem-overwrite: two different file stems with the same normalised module
    name ("My Model" / "my-model"); right after the first read the source of the first model's
    function is its own def, after the second read it is not *)
Theorem C17_same_stem_refuted :
  exists (stem1 stem2 : string) (tm1 tm2 : tmodel) (m1 : mmodel) (f : pyfn),
    stem1 <> stem2 /\ out_name gen_facts stem1 = out_name gen_facts stem2
    /\ WellFormed tm1 /\ WellFormed tm2 /\ NoKeyCollision gen_facts fsyms tm1 /\ NoKeyCollision gen_facts fsyms tm2
    /\ snd (read gen_facts fsyms empty_session stem1 tm1) = Some m1
    /\ In f (own_fns (out_name gen_facts stem1) m1)
    /\ getsource (fst (read gen_facts fsyms empty_session stem1 tm1)) f = Some (pf_body f, pf_params f)
    /\ getsource (fst (read gen_facts fsyms (fst (read gen_facts fsyms empty_session stem1 tm1)) stem2 tm2)) f
       <> Some (pf_body f, pf_params f).
Proof. exact (same_stem_refuted gen_facts C17_facts_pinned). Qed.
Print Assumptions C17_same_stem_refuted.

(** non-vacuity: a document with a compartment of size 2, a rule, initial assignments on a parameter
    and on a species, an amount species whose id is a Python keyword (pysbml: lambda -> lambda_) and a
    fractional coefficient meets every hypothesis of the theorems above; the executable model of
    Model.get_right_hand_side returns the numbers mxlpy returned for it *)
Example C17_nonvacuous :
  FsOk fsyms /\ WellFormed w_nonvac /\ NoReserved w_nonvac /\ Closed w_nonvac /\ NoKeyCollision gen_facts fsyms w_nonvac
  /\ exists ic args,
       observe q_alg (run_module gen_facts fsyms "mb_nv" w_nonvac)
               [[("A", 4#1); ("B", 4#1); ("lambda_", 2#1)]%Q]
       = Val (ic, [(args, [("A", (-132)#1); ("B", 262#1); ("lambda_", 8#1)]%Q)]).
Proof. exact (nonvacuous gen_facts C17_facts_pinned). Qed.
Print Assumptions C17_nonvacuous.

(** ---------------------------------------------------------------------------------------------------
    Three further regenerated facts (SbmlVariants.v: which reactions _codegen hands to the generator, how a
    generated def refers to the math module, how plain numbers are written) and what they give.
    [run_module2 gen_facts2 gen_facts] is the pipeline behind these steps; the correspondence check runs it. *)
Theorem C17_facts2_pinned : gen_facts2 = expected_facts2.
Proof. vm_compute. reflexivity. Qed.
Print Assumptions C17_facts2_pinned.

(** for the facts of the tree no reaction is dropped and no number is changed on the way into the module:
    the pipeline behind the three steps IS the pipeline of the theorems above *)
Theorem C17_nothing_dropped_nothing_rounded :
  forall (fs : expr -> list string) (file : string) (tm : tmodel),
    carried gen_facts2 tm = Some tm
    /\ run_module2 gen_facts2 gen_facts fs file tm = run_module gen_facts fs file tm.
Proof. exact (nothing_dropped gen_facts2 C17_facts2_pinned gen_facts). Qed.
Print Assumptions C17_nothing_dropped_nothing_rounded.

(** FULL STATEMENT: without [NoReserved] / [NoKeyCollision] (see C17_import_correct_partial).
    Every reaction of the document is a reaction of the Model -- also one that changes no variable (only
    modifiers / boundary species / no participants) and that no other math reads --, in the document's order
    and acting on the same species; a constant (Float) coefficient is the document's number, unchanged *)
Theorem C17_every_reaction_imported_partial :
  forall (fs : expr -> list string) (file : string) (tm : tmodel),
    FsOk fs -> WellFormed tm -> NoReserved tm -> NoKeyCollision gen_facts fs tm ->
    exists m, run_module2 gen_facts2 gen_facts fs file tm = Some m
      /\ map (fun p => (fst p, map fst (mr_st (snd p)))) (m_rxn m) = map (fun p => (fst p, map fst (tr_st (snd p)))) (t_rxn tm)
      /\ (forall r rx sp q, In (r, rx) (t_rxn tm) -> In (sp, ENum true q) (tr_st rx) ->
            exists mr, In (r, mr) (m_rxn m) /\ In (sp, MSNum q) (mr_st mr)).
Proof. exact (reactions_imported gen_facts gen_facts2 C17_facts_pinned C17_facts2_pinned). Qed.
Print Assumptions C17_every_reaction_imported_partial.

(** regression witness for the seeded shape C17-5 ([skip_facts2]: a reaction with an empty transformed
    stoichiometry is skipped unless other math reads its id): a well-formed, closed document without reserved
    names or clashing keys declares the reactions sense (modifier only) and v1; the built Model has v1 only *)
Theorem C17_unread_reaction_skipped_refuted :
  exists (tm : tmodel) (file : string) (m : mmodel),
    WellFormed tm /\ NoReserved tm /\ Closed tm /\ NoKeyCollision gen_facts fsyms tm
    /\ run_module2 skip_facts2 gen_facts fsyms file tm = Some m
    /\ map fst (t_rxn tm) = ["sense"; "v1"] /\ map fst (m_rxn m) = ["v1"].
Proof. exact (unread_reaction_skipped gen_facts C17_facts_pinned). Qed.
Print Assumptions C17_unread_reaction_skipped_refuted.

(** regression witness for the seeded shape C17-6 ([lit15_facts2]: coefficients written by SymPy's printer with
    15 significant digits): the coefficient 0.3333333333333333 of P in v1 (a double in [1/4, 1/2), unit in the
    last place 2^-54) reaches the Model as a number more than 2^-55 away -- so whatever correctly rounding
    reader parses the literal, the Model does not hold the document's coefficient *)
Theorem C17_fifteen_digit_coefficient_refuted :
  exists (tm : tmodel) (file : string) (m : mmodel) (q q' : Q),
    WellFormed tm /\ NoReserved tm /\ NoKeyCollision gen_facts fsyms tm
    /\ run_module2 lit15_facts2 gen_facts fsyms file tm = Some m
    /\ tcoef tm "v1" "P" = Some (ENum true q) /\ mcoef_of m "v1" "P" = Some (MSNum q')
    /\ (1 # 4 <= q)%Q /\ (q < 1 # 2)%Q /\ (1 # 36028797018963968 < Qabs.Qabs (q' - q))%Q.
Proof. exact (fifteen_digit_coefficient gen_facts C17_facts_pinned). Qed.
Print Assumptions C17_fifteen_digit_coefficient_refuted.

(** ... and the same document through the facts of the tree keeps that coefficient *)
Theorem C17_coefficient_kept_on_witness :
  exists (m : mmodel) (q : Q), run_module2 gen_facts2 gen_facts fsyms "mb_w" w_precise = Some m
    /\ tcoef w_precise "v1" "P" = Some (ENum true q) /\ mcoef_of m "v1" "P" = Some (MSNum q).
Proof. exact (repr_coefficient_kept gen_facts gen_facts2 C17_facts_pinned C17_facts2_pinned). Qed.
Print Assumptions C17_coefficient_kept_on_witness.

(** the names a generated module needs are exactly the [reserved] list of the hypothesis NoReserved: generated
    defs refer to math functions as math.<name>, so exp, log, sin, ... are ordinary ids.  (How a captured name
    misbehaves is NOT modelled; this pins the guard.)  Witness = seeded shape C17-4: a species called log and a
    parameter called exp inside laws that call ln() and exp() meet every hypothesis of the import theorem; with
    bare references ([bare_facts2]) both would be names the module needs *)
Theorem C17_math_names_are_free :
  (forall tm, NoReserved2 gen_facts2 tm <-> NoReserved tm)
  /\ WellFormed w_mathids /\ NoReserved w_mathids /\ Closed w_mathids /\ NoKeyCollision gen_facts fsyms w_mathids
  /\ In "exp" (tm_names w_mathids) /\ In "log" (tm_names w_mathids)
  /\ NoReserved2 expected_facts2 w_mathids /\ ~ NoReserved2 bare_facts2 w_mathids.
Proof. exact (math_names_statement gen_facts gen_facts2 C17_facts_pinned C17_facts2_pinned). Qed.
Print Assumptions C17_math_names_are_free.

(** ---------------------------------------------------------------------------------------------------
    Round-3 closing.  Three further regenerated facts (SbmlClose3.v: when valid_filename prefixes the slug of the
    file stem, how equalities are printed into a generated def, what the body of a generated def consists of). *)
Theorem C17_facts3_pinned : gen_facts3 = expected_facts3.
Proof. vm_compute. reflexivity. Qed.
Print Assumptions C17_facts3_pinned.

(** The module name of a read -- file name in the cache directory AND key of the generated module in
    sys.modules -- is the name the older theorems use and never the name of a module that generated code
    imports (math, scipy, mxlpy), whatever the file is called *)
Theorem C17_module_name_is_no_imported_module :
  forall stem : string,
    module_name3 gen_facts3 gen_facts stem = out_name gen_facts stem
    /\ ~ In (module_name3 gen_facts3 gen_facts stem) imported_modules.
Proof. exact (module_name_statement gen_facts3 gen_facts C17_facts3_pinned C17_facts_pinned). Qed.
Print Assumptions C17_module_name_is_no_imported_module.

(** ... hence for ANY sequence of documents under ANY file stems read in one interpreter whose sys.modules
    holds the libraries, every generated module that is built binds math / scipy / mxlpy to the libraries
    ([Some true]; [None] = no model was built) *)
Theorem C17_libraries_survive_any_session :
  forall (fs : expr -> list string) (l : list (string * tmodel)) (mods : list (string * modval)),
    imports_ok mods = true ->
    Forall (fun o => o = None \/ o = Some true) (session3 gen_facts3 gen_facts fs mods l).
Proof. exact (libraries_survive gen_facts3 gen_facts C17_facts3_pinned C17_facts_pinned). Qed.
Print Assumptions C17_libraries_survive_any_session.

(** regression witness for the seeded shape C17-7 ([bare_stem_facts3]: a slug that is an identifier and no
    keyword is returned without the prefix): math.xml / Math.xml get the module name "math" (test-suite stems and
    keywords keep the prefix); in the session alpha.xml, math.xml, beta.xml the first document is fine, the
    second replaces sys.modules["math"], so its own functions and those of every later document no longer see
    the library.  With the facts of the tree all three do *)
Theorem C17_identifier_stem_replaces_math_refuted :
  module_name3 bare_stem_facts3 gen_facts "math" = "math"
  /\ module_name3 bare_stem_facts3 gen_facts "Math" = "math"
  /\ module_name3 bare_stem_facts3 gen_facts "00001-sbml-l3v2" = "mb_00001_sbml_l3v2"
  /\ module_name3 bare_stem_facts3 gen_facts "class" = "mb_class"
  /\ session3 bare_stem_facts3 gen_facts fsyms fresh_interpreter [("alpha", w_base1); ("math", w_base5); ("beta", w_base1)]
     = [Some true; Some false; Some false]
  /\ session3 expected_facts3 gen_facts fsyms fresh_interpreter [("alpha", w_base1); ("math", w_base5); ("beta", w_base1)]
     = [Some true; Some true; Some true].
Proof. exact (identifier_stem_replaces_math gen_facts C17_facts_pinned). Qed.
Print Assumptions C17_identifier_stem_replaces_math_refuted.

(** for the facts of the tree a generated def evaluates relations (also eq / neq: [REq] / [RNe], which the import
    theorems above cover like every other relation, for every algebra) exactly, its body is the printed
    expression, and the correspondence case behind the three steps is the one of round 2 *)
Theorem C17_conditions_and_bodies_as_printed :
  printed_alg (f_eq_print gen_facts3) = q_alg
  /\ (forall (V : Type) (A : alg V) (env : string -> option V) (e : expr),
        eval_body A (f_body gen_facts3) env e = eval A env e)
  /\ (forall (G : facts2) (F : facts) (c : case), case_ok3 gen_facts3 G F c = case_ok2 G F c).
Proof. exact (as_printed gen_facts3 C17_facts3_pinned). Qed.
Print Assumptions C17_conditions_and_bodies_as_printed.

(** the conditional of a printed expression evaluates its condition and then the SELECTED branch only: whether
    the other branch can be evaluated at all (division by zero, domain error) does not matter -- for every algebra *)
Theorem C17_guard_protects_its_branch :
  forall (V : Type) (A : alg V) (env : string -> option V) (v : expr) (r : rel) (a b e' : expr) (x y : V),
    eval A env a = Some x -> eval A env b = Some y ->
    eval A env (EPw v r a b e') = if a_rel A r x y then eval A env v else eval A env e'.
Proof. exact guard_protects. Qed.
Print Assumptions C17_guard_protects_its_branch.

(** regression witness for the seeded shape C17-8 ([EqIsClose]: eq / neq printed as math.isclose, relative
    tolerance 1e-9, read over the rationals): the document of seeded/C17-8 (v1 = k1*S1 if S1 == S2 else k2*S1)
    meets every hypothesis of the import theorem; at S1 = 1, S2 = 1 + 2^-31 the document gives dS1/dt = -3
    (what the model computes with exact relations), the module with isclose computes -1/2 *)
Theorem C17_isclose_equality_refuted :
  exists ic args r ic' args' r',
    WellFormed w_eqcond /\ NoReserved w_eqcond /\ Closed w_eqcond /\ NoKeyCollision gen_facts fsyms w_eqcond
    /\ observe q_alg (run_module gen_facts fsyms "mb_w" w_eqcond) [w_near_state] = Val (ic, [(args, r)])
    /\ observe (printed_alg EqIsClose) (run_module gen_facts fsyms "mb_w" w_eqcond) [w_near_state] = Val (ic', [(args', r')])
    /\ lookup "S1" r = Some (-3 # 1)%Q /\ lookup "S1" r' = Some (-1 # 2)%Q.
Proof. exact (isclose_equality_refuted gen_facts C17_facts_pinned). Qed.
Print Assumptions C17_isclose_equality_refuted.

(** regression witness for the seeded shape C17-9 ([BodyCse]: repeated compound sub-expressions are computed
    before the return statement; [repeated] is a syntactic reading of what a common-subexpression pass pulls
    out): the law of v1 in the rational sibling of the document of seeded/C17-9, (S2/S1 + k1/S1) if S1 > 0
    else k2, on its guard S1 = 0: the printed expression gives k2 = 3, with 1/S1 hoisted the call raises.
    Where a hoisted body does return a value it is the expression's *)
Theorem C17_hoisted_guarded_term_refuted :
  (exists rx, lookup "v1" (t_rxn w_guarded) = Some rx /\ tr_expr rx = w_guard_law)
  /\ WellFormed w_guarded /\ NoReserved w_guarded /\ Closed w_guarded
  /\ eval q_alg w_guard_env w_guard_law = Some (3 # 1)%Q
  /\ eval_body q_alg BodyExpr w_guard_env w_guard_law = Some (3 # 1)%Q
  /\ In (EPow (ESym "S1") (-1)) (repeated w_guard_law)
  /\ eval_body q_alg BodyCse w_guard_env w_guard_law = None.
Proof. exact hoisted_guarded_term_refuted. Qed.
Print Assumptions C17_hoisted_guarded_term_refuted.

Theorem C17_hoisted_body_agrees_where_defined :
  forall (V : Type) (A : alg V) (env : string -> option V) (e : expr) (v : V),
    eval_body A BodyCse env e = Some v -> eval A env e = Some v.
Proof. exact cse_agrees_where_defined. Qed.
Print Assumptions C17_hoisted_body_agrees_where_defined.
