(** C17 -- SBML import builds the model the document describes (statements only). *)
From Coq Require Import String List.
From SbmlImp Require Import SbmlExpr SbmlImport SbmlRun GenSbmlFacts.
Import ListNotations.
Open Scope string_scope.

Theorem C17_facts_pinned : gen_facts = expected_facts.
Proof. vm_compute. reflexivity. Qed.
Print Assumptions C17_facts_pinned.
