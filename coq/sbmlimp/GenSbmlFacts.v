(* REGENERATED from src/mxlpy/sbml/_import.py, src/mxlpy/meta/codegen_mxlpy.py and
   src/mxlpy/meta/sympy_tools.py by harness/c17.py; do not edit.  An unrecognised shape yields an
   *Unknown constructor / empty string / false, which breaks C17_facts_pinned. *)
From Coq Require Import String List.
From SbmlImp Require Import SbmlImport SbmlVariants SbmlClose3.
Import ListNotations.
Open Scope string_scope.
Definition gen_facts : facts :=
  mkFacts "init_"%string "_stoich_"%string RxnInfixFn [SecVars; SecPars; SecDer; SecRxn] ParamsThenVars StemOnly "mb_"%string RegFresh true.
Definition gen_facts2 : facts2 :=
  mkFacts2 RxnAll MathQualified LitRepr LitRepr LitRepr.
Definition gen_facts3 : facts3 :=
  mkFacts3 PrefixAlways EqExact BodyExpr.
