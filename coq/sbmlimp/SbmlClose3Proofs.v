(** C17 (round-3 closing) -- proofs about SbmlClose3.v: module names never name an imported module, libraries
    survive any session, the steps behind the three facts are the identity for the facts of the tree, and the
    regression witnesses of the seeded shapes C17-7..9. *)
From Coq Require Import String Ascii List ZArith QArith Qabs Bool Lia.
From SbmlImp Require Import SbmlExpr SbmlImport SbmlRun SbmlSpec SbmlProofs SbmlWitness SbmlRefute SbmlVariants SbmlClose3 SbmlWitness3.
Import ListNotations.
Open Scope string_scope.

(** * module names *)
Lemma valid_filename_split : forall F stem, valid_filename F stem = f_file_prefix F ++ slug stem.
Proof. reflexivity. Qed.

Lemma prefixed_not_imported : forall F stem, f_file_prefix F = "mb_" -> ~ In (valid_filename F stem) imported_modules.
Proof.
  intros F stem HP. rewrite valid_filename_split, HP. cbn [append imported_modules In].
  intros [E|[E|[E|[]]]]; discriminate E.
Qed.

Lemma module_name3_always : forall G3 F stem, f_prefix_rule G3 = PrefixAlways ->
  module_name3 G3 F stem = out_name F stem.
Proof. intros G3 F stem H. unfold module_name3. rewrite H. reflexivity. Qed.

Lemma imports_ok_set_other : forall name v mods, ~ In name imported_modules ->
  imports_ok (dict_set name v mods) = imports_ok mods.
Proof.
  intros name v mods Hn. unfold imports_ok, imported_modules. cbn [forallb].
  rewrite !lookup_dict_set_other; [reflexivity| | |];
    intro E; apply Hn; rewrite <- E; cbn; tauto.
Qed.

Lemma session_keeps_libraries : forall G3 F fs, f_prefix_rule G3 = PrefixAlways -> f_file_prefix F = "mb_" ->
  forall l mods, imports_ok mods = true ->
    Forall (fun o => o = None \/ o = Some true) (session3 G3 F fs mods l).
Proof.
  intros G3 F fs HR HP. induction l as [|[stem tm] r IH]; intros mods Hok; cbn [session3]; [constructor|].
  assert (Hn : ~ In (module_name3 G3 F stem) imported_modules).
  { rewrite module_name3_always by exact HR. apply prefixed_not_imported. exact HP. }
  unfold read3. destruct (generate F (codegen F fs tm)) as [g|] eqn:Eg; cbn [fst snd].
  - constructor.
    + destruct (exec (module_name3 G3 F stem) g); [right|left; reflexivity].
      rewrite imports_ok_set_other by exact Hn. rewrite Hok. reflexivity.
    + apply IH. rewrite imports_ok_set_other by exact Hn. exact Hok.
  - constructor; [left; reflexivity|]. apply IH. exact Hok.
Qed.

Lemma module_name_statement : forall G3 F, G3 = expected_facts3 -> F = expected_facts ->
  forall stem, module_name3 G3 F stem = out_name F stem /\ ~ In (module_name3 G3 F stem) imported_modules.
Proof.
  intros G3 F E3 EF stem. subst G3 F. split; [reflexivity|].
  rewrite module_name3_always by reflexivity. apply prefixed_not_imported. reflexivity.
Qed.

Lemma libraries_survive : forall G3 F, G3 = expected_facts3 -> F = expected_facts ->
  forall fs l mods, imports_ok mods = true ->
    Forall (fun o => o = None \/ o = Some true) (session3 G3 F fs mods l).
Proof. intros G3 F E3 EF fs. subst G3 F. apply session_keeps_libraries; reflexivity. Qed.

Lemma fresh_interpreter_ok : imports_ok fresh_interpreter = true.
Proof. reflexivity. Qed.

(** seeded shape C17-7: a stem that is an identifier keeps its bare slug as module name *)
Lemma identifier_stem_replaces_math : forall F, F = expected_facts ->
  module_name3 bare_stem_facts3 F "math" = "math"
  /\ module_name3 bare_stem_facts3 F "Math" = "math"
  /\ module_name3 bare_stem_facts3 F "00001-sbml-l3v2" = "mb_00001_sbml_l3v2"
  /\ module_name3 bare_stem_facts3 F "class" = "mb_class"
  /\ session3 bare_stem_facts3 F fsyms fresh_interpreter [("alpha", w_base1); ("math", w_base5); ("beta", w_base1)]
     = [Some true; Some false; Some false]
  /\ session3 expected_facts3 F fsyms fresh_interpreter [("alpha", w_base1); ("math", w_base5); ("beta", w_base1)]
     = [Some true; Some true; Some true].
Proof. intros F EF. subst F. repeat split; vm_compute; reflexivity. Qed.

(** * conditions and bodies *)
Lemma printed_exact : printed_alg EqExact = q_alg.
Proof. reflexivity. Qed.

Lemma case_ok3_expected : forall G F c, case_ok3 expected_facts3 G F c = case_ok2 G F c.
Proof. intros G F c. unfold case_ok3, case_ok2. cbn [f_eq_print f_body expected_facts3]. destruct (carried G (c_tm c)); reflexivity. Qed.

Lemma as_printed : forall G3, G3 = expected_facts3 ->
  printed_alg (f_eq_print G3) = q_alg
  /\ (forall (V : Type) (A : alg V) env e, eval_body A (f_body G3) env e = eval A env e)
  /\ (forall G F c, case_ok3 G3 G F c = case_ok2 G F c).
Proof.
  intros G3 E. subst G3. split; [exact printed_exact|]. split; [reflexivity|]. exact case_ok3_expected.
Qed.

Lemma guard_protects : forall (V : Type) (A : alg V) env v r a b e' x y,
  eval A env a = Some x -> eval A env b = Some y ->
  eval A env (EPw v r a b e') = if a_rel A r x y then eval A env v else eval A env e'.
Proof. intros V A env v r a b e' x y Ha Hb. cbn [eval]. rewrite Ha, Hb. reflexivity. Qed.

Lemma cse_agrees_where_defined : forall (V : Type) (A : alg V) env e v,
  eval_body A BodyCse env e = Some v -> eval A env e = Some v.
Proof.
  intros V A env e v. unfold eval_body.
  destruct (forallb (fun t => is_some (eval A env t)) (repeated e)); [tauto|discriminate].
Qed.

(** seeded shape C17-8: S1 = 1, S2 = 1 + 2^-31; the document's conditions S1 == S2 / S1 != S2 are false / true *)
Definition w_near_state : list (string * Q) := [("S1", 1 # 1); ("S2", 2147483649 # 2147483648)]%Q.

Lemma isclose_equality_refuted : forall F, F = expected_facts ->
  exists ic args r ic' args' r',
    WellFormed w_eqcond /\ NoReserved w_eqcond /\ Closed w_eqcond /\ NoKeyCollision F fsyms w_eqcond
    /\ observe q_alg (run_module F fsyms "mb_w" w_eqcond) [w_near_state] = Val (ic, [(args, r)])
    /\ observe (printed_alg EqIsClose) (run_module F fsyms "mb_w" w_eqcond) [w_near_state] = Val (ic', [(args', r')])
    /\ lookup "S1" r = Some (-3 # 1)%Q /\ lookup "S1" r' = Some (-1 # 2)%Q.
Proof.
  intros F EF. subst F. do 6 eexists.
  split; [apply wellformed_sound; vm_compute; reflexivity|].
  split; [apply no_reserved_sound; vm_compute; reflexivity|].
  split; [apply closed_sound; vm_compute; reflexivity|].
  split; [apply nodup_strb_sound; vm_compute; reflexivity|].
  split; [vm_compute; reflexivity|].
  split; [vm_compute; reflexivity|].
  split; vm_compute; reflexivity.
Qed.

(** seeded shape C17-9: the law of v1 in [w_guarded] on its guard (S1 = 0) *)
Definition w_guard_law : expr :=
  EPw (EBin OAdd (EBin OMul (ESym "S2") (EPow (ESym "S1") (-1))) (EBin OMul (ESym "k1") (EPow (ESym "S1") (-1))))
      RGt (ESym "S1") (ENum false 0) (ESym "k2").
Definition w_guard_env : string -> option Q :=
  fun s => lookup s [("S1", 0 # 1); ("S2", 3 # 2); ("k1", 1 # 2); ("k2", 3 # 1)]%Q.

Lemma hoisted_guarded_term_refuted :
  (exists rx, lookup "v1" (t_rxn w_guarded) = Some rx /\ tr_expr rx = w_guard_law)
  /\ WellFormed w_guarded /\ NoReserved w_guarded /\ Closed w_guarded
  /\ eval q_alg w_guard_env w_guard_law = Some (3 # 1)%Q
  /\ eval_body q_alg BodyExpr w_guard_env w_guard_law = Some (3 # 1)%Q
  /\ In (EPow (ESym "S1") (-1)) (repeated w_guard_law)
  /\ eval_body q_alg BodyCse w_guard_env w_guard_law = None.
Proof.
  split; [eexists; split; vm_compute; reflexivity|].
  split; [apply wellformed_sound; vm_compute; reflexivity|].
  split; [apply no_reserved_sound; vm_compute; reflexivity|].
  split; [apply closed_sound; vm_compute; reflexivity|].
  split; [vm_compute; reflexivity|]. split; [vm_compute; reflexivity|].
  split; [vm_compute; tauto|]. vm_compute. reflexivity.
Qed.
