(* REGENERATED from src/mxlpy/model.py by harness/c01.py; do not edit.
   true = the method body is statement-for-statement the one modelled in Query.v *)
Record query_facts := mkQueryFacts { qf_call : bool; qf_rhs : bool; qf_get_args : bool }.
Definition gen_query_facts : query_facts := mkQueryFacts true true true.
