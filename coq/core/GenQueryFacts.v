(* REGENERATED from src/mxlpy/model.py by harness/c01.py; do not edit.
   true = the method body is statement-for-statement the one modelled in Query.v *)
Record query_facts := mkQueryFacts { qf_call : bool; qf_rhs : bool; qf_get_args : bool;
  qf_public : bool (* get_args / get_fluxes / get_right_hand_side / get_stoichiometries / get_initial_conditions: QueryTC.v *);
  qf_time_course : bool (* _get_args_time_course / get_args_time_course / get_fluxes_time_course / get_right_hand_side_time_course *) }.
Definition gen_query_facts : query_facts := mkQueryFacts true true true true true.
