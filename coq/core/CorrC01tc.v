(** Comparison functions for the correspondence of the public wrappers at the default state and of the
    time-course forms on multi-row frames (harness/c01.py; no proofs). *)
From Coq Require Import ZArith List Bool.
From MxlBase Require Import ListX.
From Core Require Import Sort GenSortFacts FnLib Model Cache Query QueryTC CorrC01.
Import ListNotations.

Definition table_eqb (a b : list (Z * list (name * Z))) : bool :=
  list_eqb (fun x y => Z.eqb (fst x) (fst y) && pairsZ_eqb (snd x) (snd y)) a b.

(* model, frame rows (time label, state mapping), observed: args table, flux table, rhs table *)
Definition c01tc_case : Type :=
  (model * list (Z * list (name * Z)) * list (Z * list (name * Z)) * list (Z * list (name * Z))
   * list (Z * list (name * Z)))%type.

Definition c01tc_case_ok (c : c01tc_case) : bool :=
  let '(m, rows, o_args, o_flux, o_rhs) := c in
  match run_create_cache m with
  | Err _ => false
  | Val ch =>
    res_is table_eqb (get_args_time_course FnLib.fsem FnLib.fsemN m ch rows) o_args
    && res_is table_eqb (get_fluxes_time_course FnLib.fsem FnLib.fsemN m ch rows) o_flux
    && res_is table_eqb (get_rhs_time_course FnLib.fsem m ch o_args) o_rhs
  end.

(* model, time, observed through variables=None: args, fluxes, rhs *)
Definition c01pub_case : Type :=
  (model * Z * list (name * Z) * list (name * Z) * list (name * Z))%type.
Definition c01pub_case_ok (c : c01pub_case) : bool :=
  let '(m, t, o_args, o_flux, o_rhs) := c in
  match run_create_cache m with
  | Err _ => false
  | Val ch =>
    res_is pairsZ_eqb (get_args_pub FnLib.fsem FnLib.fsemN m ch None t) o_args
    && res_is pairsZ_eqb (get_fluxes_pub FnLib.fsem FnLib.fsemN m ch None t) o_flux
    && res_is pairsZ_eqb (get_rhs_pub FnLib.fsem FnLib.fsemN m ch None t) o_rhs
  end.
