(** Executable model of [Model._create_cache] (src/mxlpy/model.py:439-582), in the order of the
    Python statements.  The arity sanity check is outside the model (functions are assumed to
    have the arity of their argument lists; a wrong arity surfaces as [EType] when called). *)
From Coq Require Import ZArith List Bool.
From MxlBase Require Import ListX.
From Core Require Import Sort Model.
Import ListNotations.

Record cache := mkCache {
  c_order : list name;
  c_var_names : list name;
  c_dyn_order : list name;
  c_base_par : env;                                        (* base_parameter_values, dict order *)
  c_all_par : env;                                         (* all_parameter_values, dict order *)
  c_stoich : list (name * list (name * Z));                (* stoich_by_cpds *)
  c_dyn_stoich : list (name * list (name * (fnid * list name)));   (* dyn_stoich_by_cpds *)
  c_init : env                                             (* initial_conditions, variable order *)
}.

Definition sort_res (F : sort_facts) (avail : list name) (els : list dep) : res (list name) :=
  match sort F avail els with
  | Ok o => Val o
  | Missing m => Err (EMissing m)
  | Circular _ => Err ECircular
  | OutOfFuel => Err EFuel
  end.

(** static/dynamic split of the sorted order (model.py:512-526) *)
Fixpoint split_order (m : model) (order : list name) (allpar : list name)
  : res (list name * list name * list name) :=   (* static_order, dyn_order, all_parameter_names *)
  match order with
  | [] => Val ([], [], allpar)
  | nm :: rest =>
    if has nm (m_rxn m) || has nm (m_sur m) then
      do r <- split_order m rest allpar;
      let '(s, d, a) := r in Val (s, nm :: d, a)
    else if has nm (m_var m) || has nm (m_par m) then
      do r <- split_order m rest allpar;
      let '(s, d, a) := r in Val (nm :: s, d, a)
    else
      match lookup nm (m_der m) with
      | None => Err EKey
      | Some der =>
        if forallb (fun i => memN i allpar) (d_args der) then
          do r <- split_order m rest (nm :: allpar);
          let '(s, d, a) := r in Val (nm :: s, d, a)
        else
          do r <- split_order m rest allpar;
          let '(s, d, a) := r in Val (s, nm :: d, a)
      end
  end.

Section WithFns.
  Variable fsem : fnid -> list Z -> option Z.
  Variable fsemN : fnid -> list Z -> option (list Z).

  Definition stoich_tables : Type :=
    (list (name * list (name * Z)) * list (name * list (name * (fnid * list name))))%type.

  (** one (cpd_name, factor) entry of the reaction called [rxn] (model.py:532-542 / 546-556) *)
  Definition add_stoich_entry (allpar : list name) (dependent : env) (rxn : name)
             (t : stoich_tables) (entry : name * coef) : res stoich_tables :=
    let '(st, dy) := t in
    let cpd := fst entry in
    let st1 := dsetdefault cpd [] st in
    let d_static := match lookup cpd st1 with Some d => d | None => [] end in
    match snd entry with
    | CStat q => Val (dset cpd (dset rxn q d_static) st1, dy)
    | CDyn f args =>
      if forallb (fun i => memN i allpar) args then
        do v <- calc fsem f args dependent;
        Val (dset cpd (dset rxn v d_static) st1, dy)
      else
        let dy1 := dsetdefault cpd [] dy in
        let d_dyn := match lookup cpd dy1 with Some d => d | None => [] end in
        Val (st1, dset cpd (dset rxn (f, args) d_dyn) dy1)
    end.

  Fixpoint add_stoich_entries (allpar : list name) (dependent : env) (rxn : name)
           (t : stoich_tables) (entries : list (name * coef)) : res stoich_tables :=
    match entries with
    | [] => Val t
    | en :: rest => do t' <- add_stoich_entry allpar dependent rxn t en;
                    add_stoich_entries allpar dependent rxn t' rest
    end.

  Fixpoint add_rxn_list (allpar : list name) (dependent : env) (t : stoich_tables)
           (rs : list (name * list (name * coef))) : res stoich_tables :=
    match rs with
    | [] => Val t
    | (rn, entries) :: rest => do t' <- add_stoich_entries allpar dependent rn t entries;
                               add_rxn_list allpar dependent t' rest
    end.

  (** reactions first, then every surrogate's stoichiometries in order *)
  Definition all_rxn_entries (m : model) : list (name * list (name * coef)) :=
    map (fun kv => (fst kv, r_st (snd kv))) (m_rxn m) ++ flat_map (fun kv => s_st (snd kv)) (m_sur m).

  (** all_parameter_values (model.py:562-570) *)
  Fixpoint fill_all_par (m : model) (dependent : env) (static_order : list name) (acc : env) : res env :=
    match static_order with
    | [] => Val acc
    | nm :: rest =>
      if has nm (m_var m) then fill_all_par m dependent rest acc
      else if has nm (m_par m) || has nm (m_der m) then
        match lookup nm dependent with
        | None => Err EKey
        | Some v => fill_all_par m dependent rest (dset nm v acc)
        end
      else Err EKey
    end.

  Fixpoint init_conditions (vars : list name) (dependent : env) : res env :=
    match vars with
    | [] => Val []
    | k :: rest =>
      match lookup k dependent with
      | None => Err EKey
      | Some v => do r <- init_conditions rest dependent; Val ((k, v) :: r)
      end
    end.

  Definition create_cache (F : sort_facts) (m : model) : res cache :=
    let base_par := plain_of (m_par m) in
    let base_var := plain_of (m_var m) in
    let table := to_sort m in
    do order <- sort_res F (base_available m) (map dep_of table);
    (* dependent = base_parameter_values | base_variable_values | data | {"time": 0} *)
    let dependent0 := (time_name, 0%Z) :: env_of_dict (m_dat m) (env_of_dict base_var (env_of_dict base_par [])) in
    do dependent <- eval_order fsem fsemN table order dependent0;
    do sp <- split_order m order (keys (m_par m));
    let '(static_order, dyn_order, allpar) := sp in
    do tabs <- add_rxn_list allpar dependent ([], []) (all_rxn_entries m);
    let '(st, dy) := tabs in
    do init <- init_conditions (keys (m_var m)) dependent;
    do all_par <- fill_all_par m dependent static_order base_par;
    Val (mkCache order (keys (m_var m)) dyn_order base_par all_par st dy init).
End WithFns.
