(** Instantiation of the general sorter lemmas at the facts regenerated from the source, plus
    independence of the outcome kind from the declaration order. *)
From Coq Require Import Permutation Lia.
From MxlBase Require Import ListX.
From Core Require Import Sort GenSortFacts SortProofs SortAcyclic.

Definition expected_facts : sort_facts := mkSortFacts CapSquare CmpGt ScRaise true.

Section Pinned.
  Hypothesis Hpin : gen_sort_facts = expected_facts.

  Lemma pin_cap : f_cap gen_sort_facts = CapSquare. Proof. rewrite Hpin. reflexivity. Qed.
  Lemma pin_cmp : f_cmp gen_sort_facts = CmpGt. Proof. rewrite Hpin. reflexivity. Qed.
  Lemma pin_sc : f_shortcut gen_sort_facts <> ScAppendBreak. Proof. rewrite Hpin. discriminate. Qed.
  Lemma pin_chk : f_checks_first gen_sort_facts = true. Proof. rewrite Hpin. reflexivity. Qed.

  Lemma missing_exact avail els :
    ~ Complete avail els ->
    sort gen_sort_facts avail els = Missing (not_solvable avail els)
    /\ (forall n l, In (n, l) (not_solvable avail els) <->
          exists d, In d els /\ d_name d = n /\ ~ incl (d_req d) (all_provided avail els)
                    /\ l = sort_dedup (diffN (d_req d) (all_provided avail els)))
    /\ (forall d x, In x (sort_dedup (diffN (d_req d) (all_provided avail els))) <->
          In x (d_req d) /\ ~ In x (all_provided avail els)).
  Proof.
    intros Hn. split; [|split].
    - apply (proj2 (sort_missing_iff gen_sort_facts avail els pin_chk)). exact Hn.
    - intros n l. apply not_solvable_In.
    - intros d x. rewrite sort_dedup_In. apply diffN_In.
  Qed.

  Lemma ok_is_topological avail els o :
    sort gen_sort_facts avail els = Ok o ->
    exists ds, o = map d_name ds /\ Permutation ds els /\ topo_from avail ds.
  Proof. apply sort_ok_topo. exact pin_sc. Qed.

  Lemma cyclic_rejected avail els :
    Complete avail els -> ~ Acyclic avail els -> exists m, sort gen_sort_facts avail els = Circular m.
  Proof. apply sort_cyclic_rejected; [exact pin_chk|exact pin_sc]. Qed.

  Lemma complete_acyclic_sorted avail els :
    NoDup (map d_name els) -> Acyclic avail els -> exists o, sort gen_sort_facts avail els = Ok o.
  Proof. apply sort_complete_acyclic; [exact pin_cap|exact pin_cmp]. Qed.

  (** ---- order independence ---- *)

  Lemma all_provided_perm_iff avail els els' x :
    Permutation els els' -> (In x (all_provided avail els) <-> In x (all_provided avail els')).
  Proof.
    intros Hp. split; apply all_provided_perm; [exact Hp|apply Permutation_sym; exact Hp].
  Qed.

  Lemma complete_perm avail els els' : Permutation els els' -> Complete avail els -> Complete avail els'.
  Proof.
    intros Hp Hc d Hd x Hx. apply (all_provided_perm avail els els' x Hp).
    apply (Hc d); [|exact Hx]. eapply Permutation_in; [apply Permutation_sym; exact Hp|exact Hd].
  Qed.

  Lemma acyclic_perm avail els els' : Permutation els els' -> Acyclic avail els -> Acyclic avail els'.
  Proof.
    intros Hp [ds [Hp' Ht]]. exists ds. split; [|exact Ht]. eapply Permutation_trans; eassumption.
  Qed.

  Lemma memN_ext a b : (forall x, In x a <-> In x b) -> forall x, memN x a = memN x b.
  Proof.
    intros H x. destruct (memN x a) eqn:Ea; destruct (memN x b) eqn:Eb; try reflexivity.
    - apply memN_In in Ea. apply H in Ea. apply memN_In in Ea. congruence.
    - apply memN_In in Eb. apply H in Eb. apply memN_In in Eb. congruence.
  Qed.

  Lemma not_solvable_perm avail els els' :
    Permutation els els' -> Permutation (not_solvable avail els) (not_solvable avail els').
  Proof.
    intros Hp. unfold not_solvable.
    assert (Hext : forall x, memN x (all_provided avail els) = memN x (all_provided avail els')).
    { apply memN_ext. intro x. apply all_provided_perm_iff. exact Hp. }
    assert (Hf : forall d,
               (if subsetN (d_req d) (all_provided avail els) then []
                else [(d_name d, sort_dedup (diffN (d_req d) (all_provided avail els)))]) =
               (if subsetN (d_req d) (all_provided avail els') then []
                else [(d_name d, sort_dedup (diffN (d_req d) (all_provided avail els')))])).
    { intro d.
      assert (Hsub : subsetN (d_req d) (all_provided avail els) = subsetN (d_req d) (all_provided avail els')).
      { unfold subsetN. induction (d_req d) as [|y ys IHy]; [reflexivity|]. cbn [forallb]. rewrite Hext, IHy. reflexivity. }
      assert (Hdiff : diffN (d_req d) (all_provided avail els) = diffN (d_req d) (all_provided avail els')).
      { unfold diffN. apply filter_ext. intro x. rewrite Hext. reflexivity. }
      rewrite Hsub, Hdiff. reflexivity. }
    rewrite (flat_map_ext _ _ Hf). apply Permutation_flat_map. exact Hp.
  Qed.

  Lemma complete_dec avail els : Complete avail els \/ ~ Complete avail els.
  Proof.
    destruct (not_solvable avail els) eqn:E.
    - left. apply not_solvable_nil_iff. exact E.
    - right. intro H. apply not_solvable_nil_iff in H. congruence.
  Qed.

  Lemma order_independent_kind avail els els' :
    NoDup (map d_name els) -> Permutation els els' ->
    (forall o, sort gen_sort_facts avail els = Ok o -> exists o', sort gen_sort_facts avail els' = Ok o')
    /\ (forall m, sort gen_sort_facts avail els = Missing m ->
          exists m', sort gen_sort_facts avail els' = Missing m' /\ Permutation m m')
    /\ (forall m, sort gen_sort_facts avail els = Circular m -> exists m', sort gen_sort_facts avail els' = Circular m').
  Proof.
    intros Hnd Hp.
    assert (Hnd' : NoDup (map d_name els')).
    { eapply Permutation_NoDup; [apply Permutation_map; exact Hp|exact Hnd]. }
    split; [|split].
    - intros o Ho. apply complete_acyclic_sorted; [exact Hnd'|].
      apply (acyclic_perm avail els els' Hp).
      apply ok_is_topological in Ho. destruct Ho as [ds [_ [Hpd Ht]]]. exists ds. split; assumption.
    - intros m Hm. apply (proj1 (sort_missing_iff gen_sort_facts avail els pin_chk)) in Hm.
      destruct Hm as [-> Hnc]. exists (not_solvable avail els'). split.
      + apply (proj2 (sort_missing_iff gen_sort_facts avail els' pin_chk)).
        intro Hc. apply Hnc. apply (complete_perm avail els' els); [apply Permutation_sym; exact Hp|exact Hc].
      + apply not_solvable_perm. exact Hp.
    - intros m Hm.
      assert (Hc : Complete avail els).
      { destruct (complete_dec avail els) as [Hc|Hnc]; [exact Hc|]. exfalso.
        apply (proj2 (sort_missing_iff gen_sort_facts avail els pin_chk)) in Hnc. congruence. }
      assert (Hna : ~ Acyclic avail els).
      { intro Ha. destruct (complete_acyclic_sorted avail els Hnd Ha) as [o Ho]. congruence. }
      apply cyclic_rejected.
      + apply (complete_perm avail els els' Hp Hc).
      + intro Ha. apply Hna. apply (acyclic_perm avail els' els); [apply Permutation_sym; exact Hp|exact Ha].
  Qed.
End Pinned.
