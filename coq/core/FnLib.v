(** Meaning of the function ids used by the correspondence checks; mirrors harness/fnlib.py
    (same table, same ids).  [None] = wrong number of arguments (Python raises TypeError). *)
From Coq Require Import ZArith List.
Import ListNotations.
Open Scope Z_scope.

Definition fnid := N.

Definition fsem (f : fnid) (args : list Z) : option Z :=
  match f, args with
  | 0%N, [a] => Some a                         (* f_id *)
  | 1%N, [a] => Some (- a)                     (* f_neg *)
  | 2%N, [a; b] => Some (a + b)                (* f_add *)
  | 3%N, [a; b] => Some (a - b)                (* f_sub *)
  | 4%N, [a; b] => Some (a * b)                (* f_mul *)
  | 5%N, [a; b; c] => Some (a * b + c)         (* f_lin *)
  | 6%N, [a] => Some (a * a)                   (* f_sq *)
  | 7%N, [a; b] => Some (a * a - 3 * b + 1)    (* f_poly2 *)
  | 8%N, [] => Some 2                          (* f_two *)
  | 9%N, [s1; s2; k] => Some (k * s1 * s2)     (* f_ma2 *)
  | 10%N, [a; b; c] => Some (a + b + c)        (* f_sum3 *)
  | _, _ => None
  end.

(** multi-output functions for MockSurrogate (harness/fnlib.py: MULTI) *)
Definition fsemN (f : fnid) (args : list Z) : option (list Z) :=
  match f, args with
  | 0%N, [a] => Some [a]                       (* m_one *)
  | 1%N, [a; b] => Some [a + b; a * b]         (* m_pair *)
  | 2%N, [a] => Some [a; 2 * a; a * a]         (* m_triple *)
  | 3%N, [a; b] => Some [a - b; b]             (* m_pair2 *)
  | _, _ => None
  end.
