(** Executable model of the PUBLIC query wrappers of [Model] and of their time-course forms
    (src/mxlpy/model.py: get_args / get_fluxes / get_right_hand_side / get_stoichiometries with
    [variables=None], _get_args_time_course, get_args_time_course, get_fluxes_time_course,
    get_right_hand_side_time_course).  No proofs here (CoreP.ProofsTC).

    - [variables=None] means [self.get_initial_conditions()] -- the cache's resolved initial
      conditions -- evaluated at the time GIVEN (not at 0).
    - the time-course forms walk over the rows of a frame ([variables.iterrows()]: time label, row as
      a dict) and store one result per time label in a Python dict ([args_by_time[time] = args]):
      a label that occurs again OVERWRITES the earlier entry and keeps its position ([zset]). *)
From Coq Require Import ZArith List Bool.
From MxlBase Require Import ListX.
From Core Require Import Sort Model Cache Query.
Import ListNotations.

(** dicts keyed by a time label *)
Fixpoint zlookup {A} (t : Z) (d : list (Z * A)) : option A :=
  match d with
  | [] => None
  | (t', v) :: r => if Z.eqb t t' then Some v else zlookup t r
  end.
Fixpoint zset {A} (t : Z) (v : A) (d : list (Z * A)) : list (Z * A) :=
  match d with
  | [] => [(t, v)]
  | (t', v') :: r => if Z.eqb t t' then (t, v) :: r else (t', v') :: zset t v r
  end.

(** [for label, row in frame.iterrows(): out[label] = f(label, row)] *)
Fixpoint by_time {A B} (f : Z -> A -> res B) (rows : list (Z * A)) (acc : list (Z * B)) : res (list (Z * B)) :=
  match rows with
  | [] => Val acc
  | (t, a) :: rest => do b <- f t a; by_time f rest (zset t b acc)
  end.

(** [frame.loc[:, names]] *)
Fixpoint select_rows (names : list name) (tab : list (Z * env)) : res (list (Z * list (name * Z))) :=
  match tab with
  | [] => Val []
  | (t, e) :: rest => do r <- select names e; do rs <- select_rows names rest; Val ((t, r) :: rs)
  end.

Section WithFns.
  Variable fsem : fnid -> list Z -> option Z.
  Variable fsemN : fnid -> list Z -> option (list Z).

  Definition state_or_default (c : cache) (o : option env) : env :=
    match o with Some s => s | None => c_init c end.

  Definition get_args_pub (m : model) (c : cache) (o : option env) (t : Z) :=
    get_args fsem fsemN m c (state_or_default c o) t.
  Definition get_fluxes_pub (m : model) (c : cache) (o : option env) (t : Z) :=
    get_fluxes fsem fsemN m c (state_or_default c o) t.
  Definition get_rhs_pub (m : model) (c : cache) (o : option env) (t : Z) :=
    get_rhs fsem fsemN m c (state_or_default c o) t.
  Definition get_stoichiometries_pub (m : model) (c : cache) (o : option env) (t : Z) :=
    get_stoichiometries fsem fsemN m c (state_or_default c o) t.

  (** get_args(..., include_time=False): the row format of the time-course table *)
  Definition get_args_notime (m : model) (c : cache) (vars : env) (t : Z) : res (list (name * Z)) :=
    do raw <- get_args_raw fsem fsemN m c vars t; select (arg_names m c false) raw.

  (** _get_args_time_course (readouts excluded) *)
  Definition args_by_time (m : model) (c : cache) (rows : list (Z * env)) : res (list (Z * env)) :=
    by_time (fun t s => get_args_raw fsem fsemN m c s t) rows [].

  Definition get_args_time_course (m : model) (c : cache) (rows : list (Z * env)) :=
    do tab <- args_by_time m c rows; select_rows (arg_names m c false) tab.
  Definition get_fluxes_time_course (m : model) (c : cache) (rows : list (Z * env)) :=
    do tab <- args_by_time m c rows; select_rows (flux_names m) tab.

  (** get_right_hand_side_time_course(args): per row [variables.to_dict() | {"time": time}] *)
  Definition get_rhs_time_course (m : model) (c : cache) (args : list (Z * list (name * Z)))
    : res (list (Z * list (name * Z))) :=
    by_time (fun t row => rhs_of_args fsem c (keys (m_var m)) ((time_name, t) :: env_of_dict row [])) args [].
End WithFns.
