(** Comparison functions used by the generated correspondence files for C01/C13 (no proofs). *)
From Coq Require Import ZArith List Bool.
From MxlBase Require Import ListX.
From Core Require Import Sort GenSortFacts FnLib Model Cache Query.
Import ListNotations.

Definition pairsZ_eqb (a b : list (name * Z)) : bool :=
  list_eqb (fun x y => N.eqb (fst x) (fst y) && Z.eqb (snd x) (snd y)) a b.

Definition run_create_cache (m : model) : res cache :=
  create_cache FnLib.fsem FnLib.fsemN gen_sort_facts m.

(* model, time, state (None = declared initial conditions), observed: call, rhs, args, fluxes, stoich *)
Definition c01_case : Type :=
  (model * Z * option (list (name * Z)) * list Z * list (name * Z) * list (name * Z) * list (name * Z)
   * list (name * name * Z))%type.

Definition res_is {A} (eqb : A -> A -> bool) (r : res A) (x : A) : bool :=
  match r with Val a => eqb a x | Err _ => false end.

Definition c01_case_ok (c : c01_case) : bool :=
  let '(m, t, st, o_call, o_rhs, o_args, o_flux, o_sto) := c in
  match run_create_cache m with
  | Err _ => false
  | Val ch =>
    let vars := match st with Some s => s | None => c_init ch end in
    let y := map (fun k => match lookup k vars with Some v => v | None => 0%Z end) (c_var_names ch) in
    res_is (list_eqb Z.eqb) (call FnLib.fsem FnLib.fsemN m ch t y) o_call
    && res_is pairsZ_eqb (get_rhs FnLib.fsem FnLib.fsemN m ch vars t) o_rhs
    && res_is pairsZ_eqb (get_args FnLib.fsem FnLib.fsemN m ch vars t) o_args
    && res_is pairsZ_eqb (get_fluxes FnLib.fsem FnLib.fsemN m ch vars t) o_flux
    && match get_stoichiometries FnLib.fsem FnLib.fsemN m ch vars t with
       | Err _ => false
       | Val tab =>
         forallb (fun e => let '(cpd, rxn, v) := e in Z.eqb (stoich_at tab cpd rxn) v) o_sto
         && forallb (fun row => forallb (fun e => Z.eqb (snd e) 0 ||
                       existsb (fun o => let '(cpd, rxn, _) := o in N.eqb cpd (fst row) && N.eqb rxn (fst e)) o_sto)
                     (snd row)) tab
       end
  end.

(* C13: model, observed initial conditions, parameter values (plain), derived parameter names,
   derived variable names *)
Definition c13_case : Type :=
  (model * list (name * Z) * list (name * Z) * list name * list name)%type.

Definition c13_case_ok (c : c13_case) : bool :=
  let '(m, o_ic, o_pv, o_dp, o_dv) := c in
  match run_create_cache m with
  | Err _ => false
  | Val ch =>
    pairsZ_eqb (c_init ch) o_ic && pairsZ_eqb (c_base_par ch) o_pv
    && list_eqb N.eqb (derived_parameter_names m ch) o_dp
    && list_eqb N.eqb (derived_variable_names m ch) o_dv
  end.
