(* REGENERATED from src/mxlpy/model.py (Model._create_cache) by harness/c13.py; do not edit.
   gen_cache_shape: true = the method body is statement-for-statement the one modelled in Cache.v;
   gen_split_seed: what the closure all_parameter_names starts from (CacheData.v);
   gen_init_source: initial_conditions read from the values of the time-zero pass, or evaluated again (CacheDraw.v) *)
Inductive seed_kind := SeedPar | SeedParData | SeedUnknown.
Inductive init_kind := InitFromPass | InitAgain | InitUnknown.
Definition gen_cache_shape : bool := true.
Definition gen_split_seed : seed_kind := SeedPar.
Definition gen_init_source : init_kind := InitFromPass.
