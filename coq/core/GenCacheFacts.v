(* REGENERATED from src/mxlpy/model.py (Model._create_cache) by harness/c13.py; do not edit.
   true = the method body is statement-for-statement the one modelled in Cache.v *)
Definition gen_cache_shape : bool := true.
