(** Comparison function for the value-level stage of C02 (harness/c02_values.py; no proofs): what
    [create_cache] of the model answers for a description -- built (with these initial conditions),
    rejected with exactly this missing-dependency payload, or rejected as circular -- against what the
    implementation answered for the same description (any declaration order, bad graphs included). *)
From Coq Require Import ZArith List Bool.
From MxlBase Require Import ListX.
From Core Require Import Sort GenSortFacts FnLib Model Cache Query CorrC01.
Import ListNotations.

Inductive c02v_expect :=
| VBuilt (ic : list (name * Z))
| VMissing (p : list (name * list name))
| VCircular.

Definition payload_eqb (a b : list (name * list name)) : bool :=
  list_eqb (fun x y => N.eqb (fst x) (fst y) && list_eqb N.eqb (snd x) (snd y)) a b.

Definition c02v_case : Type := (model * c02v_expect)%type.

Definition c02v_case_ok (c : c02v_case) : bool :=
  let '(m, e) := c in
  match run_create_cache m, e with
  | Val ch, VBuilt ic => pairsZ_eqb (c_init ch) ic
  | Err (EMissing p), VMissing q => payload_eqb p q
  | Err ECircular, VCircular => true
  | _, _ => false
  end.
