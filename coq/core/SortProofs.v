(** Proofs about the sorter model.  Lemmas only; the property statements live in PropsC02.v. *)
From Coq Require Import Permutation.
From MxlBase Require Import ListX.
From Core Require Import Sort.

Section Proofs.
  Variable F : sort_facts.
  Variable els : list dep.
  Variable cap : nat.

  (** Every [Ok] answer of the loop extends the order built so far by a valid evaluation
      order of exactly the queued elements -- provided the shortcut does not append. *)
  Lemma loop_ok_topo :
    f_shortcut F <> ScAppendBreak ->
    forall fuel i avail queue last order o,
      loop F els cap fuel i avail queue last order = Ok o ->
      exists ds, o = rev order ++ map d_name ds /\ Permutation ds queue /\ topo_from avail ds.
  Proof.
    intros Hsc. induction fuel as [|fuel IH]; intros i avail queue last order o H.
    - discriminate H.
    - cbn [loop] in H. destruct queue as [|d q].
      + injection H as <-. exists []. split; [now rewrite app_nil_r|]. split; [constructor|exact I].
      + destruct (subsetN (d_req d) avail) eqn:Hsub.
        * destruct (exceeded (f_cmp F) (S i) cap); [discriminate H|].
          apply IH in H. destruct H as [ds [Ho [Hp Ht]]].
          exists (d :: ds). split; [|split].
          -- rewrite Ho. cbn [rev map]. rewrite <- app_assoc. reflexivity.
          -- constructor. exact Hp.
          -- cbn [topo_from]. split; [apply subsetN_incl; exact Hsub|exact Ht].
        * assert (Hretry : forall o',
                     (if exceeded (f_cmp F) (S i) cap then Circular (circ_payload els avail (q ++ [d]))
                      else loop F els cap fuel (S i) avail (q ++ [d]) (Some (d_name d)) order) = Ok o' ->
                     exists ds, o' = rev order ++ map d_name ds /\ Permutation ds (d :: q) /\ topo_from avail ds).
          { intros o' H'. destruct (exceeded (f_cmp F) (S i) cap); [discriminate H'|].
            apply IH in H'. destruct H' as [ds [Ho [Hp Ht]]]. exists ds. split; [exact Ho|]. split; [|exact Ht].
            eapply Permutation_trans; [exact Hp|]. apply Permutation_sym. apply Permutation_cons_append. }
          destruct (optionN_eqb last (Some (d_name d))).
          -- destruct (f_shortcut F) eqn:Hk.
             ++ exfalso. apply Hsc. reflexivity.
             ++ discriminate H.
             ++ apply Hretry. exact H.
             ++ apply Hretry. exact H.
          -- apply Hretry. exact H.
  Qed.

  (** exceeded is implied by being strictly above the cap, whatever comparison is used *)
  Lemma not_exceeded_le c i : exceeded c (S i) cap = false -> S i <= cap.
  Proof.
    destruct c; cbn [exceeded]; intro H.
    - apply Nat.ltb_ge in H. exact H.
    - apply Nat.leb_gt in H. lia.
    - discriminate H.
  Qed.

  Lemma loop_never_out_of_fuel :
    forall fuel i avail queue last order,
      fuel + i = cap + 2 -> i <= cap ->
      loop F els cap fuel i avail queue last order <> OutOfFuel.
  Proof.
    induction fuel as [|fuel IH]; intros i avail queue last order Hsum Hle.
    - lia.
    - cbn [loop]. destruct queue as [|d q]; [discriminate|].
      destruct (subsetN (d_req d) avail).
      + destruct (exceeded (f_cmp F) (S i) cap) eqn:He; [discriminate|].
        apply not_exceeded_le in He. apply IH; lia.
      + assert (Hretry :
                  (if exceeded (f_cmp F) (S i) cap then Circular (circ_payload els avail (q ++ [d]))
                   else loop F els cap fuel (S i) avail (q ++ [d]) (Some (d_name d)) order) <> OutOfFuel).
        { destruct (exceeded (f_cmp F) (S i) cap) eqn:He; [discriminate|].
          apply not_exceeded_le in He. apply IH; lia. }
        destruct (optionN_eqb last (Some (d_name d))); [|exact Hretry].
        destruct (f_shortcut F); try discriminate; exact Hretry.
  Qed.
  Lemma loop_never_missing :
    forall fuel i avail queue last order m,
      loop F els cap fuel i avail queue last order <> Missing m.
  Proof.
    induction fuel as [|fuel IH]; intros i avail queue last order m H; [discriminate H|].
    cbn [loop] in H. destruct queue as [|d q]; [discriminate H|].
    destruct (subsetN (d_req d) avail).
    - destruct (exceeded _ _ _); [discriminate H|]. eapply IH; exact H.
    - destruct (optionN_eqb last (Some (d_name d))).
      + destruct (f_shortcut F); try discriminate H;
          (destruct (exceeded _ _ _); [discriminate H|]; eapply IH; exact H).
      + destruct (exceeded _ _ _); [discriminate H|]. eapply IH; exact H.
  Qed.
End Proofs.

(** ---- _check_if_is_sortable -------------------------------------------------------- *)

Lemma diffN_In a b x : In x (diffN a b) <-> In x a /\ ~ In x b.
Proof.
  unfold diffN. rewrite filter_In. rewrite negb_true_iff, memN_false. tauto.
Qed.

Lemma not_solvable_In avail els n l :
  In (n, l) (not_solvable avail els) <->
  exists d, In d els /\ d_name d = n /\ ~ incl (d_req d) (all_provided avail els)
            /\ l = sort_dedup (diffN (d_req d) (all_provided avail els)).
Proof.
  unfold not_solvable. rewrite in_flat_map. split.
  - intros [d [Hd Hin]]. destruct (subsetN (d_req d) (all_provided avail els)) eqn:Hs.
    + destruct Hin.
    + destruct Hin as [Heq|[]]. injection Heq as <- <-. exists d. repeat split; try assumption.
      intro Hincl. apply subsetN_incl in Hincl. congruence.
  - intros [d [Hd [Hn [Hni Hl]]]]. exists d. split; [exact Hd|].
    destruct (subsetN (d_req d) (all_provided avail els)) eqn:Hs.
    + exfalso. apply Hni. apply subsetN_incl. exact Hs.
    + left. subst. reflexivity.
Qed.

Lemma not_solvable_nil_iff avail els : not_solvable avail els = [] <-> Complete avail els.
Proof.
  unfold Complete. split.
  - intros H d Hd. unfold not_solvable in H.
    destruct (subsetN (d_req d) (all_provided avail els)) eqn:Hs.
    + apply subsetN_incl. exact Hs.
    + exfalso. assert (Hin : In (d_name d, sort_dedup (diffN (d_req d) (all_provided avail els)))
                           (not_solvable avail els)).
      { apply not_solvable_In. exists d. repeat split; try assumption.
        intro Hi. apply subsetN_incl in Hi. congruence. }
      unfold not_solvable in Hin. rewrite H in Hin. destruct Hin.
  - intros H. destruct (not_solvable avail els) as [|[n l] rest] eqn:E; [reflexivity|].
    exfalso. assert (Hin : In (n, l) (not_solvable avail els)) by (rewrite E; left; reflexivity).
    apply not_solvable_In in Hin. destruct Hin as [d [Hd [_ [Hni _]]]]. apply Hni. apply H. exact Hd.
Qed.

(** ---- whole-function results ------------------------------------------------------- *)

Lemma sort_missing_iff F avail els :
  f_checks_first F = true ->
  (forall m, sort F avail els = Missing m -> m = not_solvable avail els /\ ~ Complete avail els)
  /\ (~ Complete avail els -> sort F avail els = Missing (not_solvable avail els)).
Proof.
  intros Hc. unfold sort. rewrite Hc. split.
  - intros m H. destruct (not_solvable avail els) as [|p rest] eqn:E.
    + exfalso. exact (loop_never_missing _ _ _ _ _ _ _ _ _ _ H).
    + injection H as <-. split; [reflexivity|]. intro Hcomp.
      apply not_solvable_nil_iff in Hcomp. congruence.
  - intros Hn. destruct (not_solvable avail els) as [|p rest] eqn:E; [|reflexivity].
    exfalso. apply Hn. apply not_solvable_nil_iff. exact E.
Qed.

Lemma sort_never_out_of_fuel F avail els : sort F avail els <> OutOfFuel.
Proof.
  unfold sort. destruct (if f_checks_first F then not_solvable avail els else []); [|discriminate].
  apply loop_never_out_of_fuel; lia.
Qed.

Lemma sort_ok_topo F avail els o :
  f_shortcut F <> ScAppendBreak ->
  sort F avail els = Ok o ->
  exists ds, o = map d_name ds /\ Permutation ds els /\ topo_from avail ds.
Proof.
  intros Hsc. unfold sort.
  destruct (if f_checks_first F then not_solvable avail els else []); [|discriminate].
  intro H. apply loop_ok_topo in H; [|exact Hsc]. exact H.
Qed.

Lemma sort_cyclic_rejected F avail els :
  f_checks_first F = true -> f_shortcut F <> ScAppendBreak ->
  Complete avail els -> ~ Acyclic avail els ->
  exists m, sort F avail els = Circular m.
Proof.
  intros Hc Hsc Hcomp Hcyc. destruct (sort F avail els) as [o|m|m|] eqn:E.
  - exfalso. apply Hcyc. apply sort_ok_topo in E; [|exact Hsc].
    destruct E as [ds [_ [Hp Ht]]]. exists ds. split; assumption.
  - exfalso. apply (proj1 (sort_missing_iff F avail els Hc)) in E. destruct E as [_ Hn]. apply Hn. exact Hcomp.
  - exists m. reflexivity.
  - exfalso. exact (sort_never_out_of_fuel F avail els E).
Qed.
