(** The hard direction for the sorter: every complete acyclic graph is sorted, for every
    declaration order, i.e. neither the [len(elements)**2] iteration cap nor the [last_name]
    shortcut ever fires on a good graph.  Potential argument: with n elements, m of them still
    queued and s consecutive failures since the last success,
        2*i + m*(m+1) <= n*(n+1) + 2*s   and   s < m,
    hence i <= n(n+1)/2 <= n^2 at every iteration. *)
From Coq Require Import Permutation Lia.
From MxlBase Require Import ListX.
From Core Require Import Sort SortProofs.

Section Acyclic.
  Variable F : sort_facts.
  Hypothesis Hcap : f_cap F = CapSquare.
  Hypothesis Hcmp : f_cmp F = CmpGt.
  Variable els : list dep.
  Variable avail0 : list N.
  Variable ds : list dep.                 (* one valid evaluation order of all elements *)
  Hypothesis Hds_topo : topo_from avail0 ds.
  Let n := length els.
  Let cap := n * n.

  (** some queued element is satisfiable *)
  Lemma first_sat avail queue :
    forall ds' a0,
      topo_from a0 ds' -> incl a0 avail ->
      (forall d, In d ds' -> In d queue \/ incl (d_prov d) avail) ->
      (exists d, In d ds' /\ In d queue) ->
      exists d, In d queue /\ incl (d_req d) avail.
  Proof.
    induction ds' as [|d rest IH]; intros a0 Ht Ha Hcov [w [Hw1 Hw2]].
    - destruct Hw1.
    - cbn [topo_from] in Ht. destruct Ht as [Hreq Ht].
      destruct (Hcov d (or_introl eq_refl)) as [Hq|Hp].
      + exists d. split; [exact Hq|]. eapply incl_tran; eassumption.
      + destruct Hw1 as [->|Hw1].
        * exists w. split; [exact Hw2|]. eapply incl_tran; eassumption.
        * apply (IH (d_prov d ++ a0)); try assumption.
          -- apply incl_app; assumption.
          -- intros d' Hd'. apply Hcov. right. exact Hd'.
          -- exists w. split; assumption.
  Qed.

  Definition last_inv (queue : list dep) (last : option N) : Prop :=
    forall x, last = Some x -> forall d, In d queue -> d_name d = x -> exists q', queue = q' ++ [d].

  Record Inv (i : nat) (avail : list N) (queue : list dep) (last : option N) (s : nat) : Prop := {
    inv_nodup : NoDup (map d_name queue);
    inv_in_ds : forall d, In d queue -> In d ds;
    inv_avail0 : incl avail0 avail;
    inv_cover : forall d, In d ds -> In d queue \/ incl (d_prov d) avail;
    inv_last : last_inv queue last;
    inv_tail : exists q1 q2, queue = q1 ++ q2 /\ length q2 = s /\
                             forall d, In d q2 -> subsetN (d_req d) avail = false;
    inv_pot : 2 * i + length queue * (length queue + 1) <= n * (n + 1) + 2 * s;
    inv_len : length queue <= n
  }.

  Lemma inv_sat i avail queue last s :
    Inv i avail queue last s -> queue <> [] -> exists d, In d queue /\ incl (d_req d) avail.
  Proof.
    intros I Hne. apply (first_sat avail queue ds avail0 Hds_topo (inv_avail0 _ _ _ _ _ I) (inv_cover _ _ _ _ _ I)).
    destruct queue as [|d q]; [congruence|]. exists d. split; [apply (inv_in_ds _ _ _ _ _ I)|]; left; reflexivity.
  Qed.

  (** s < m: the satisfiable element is not among the s trailing unsatisfiable ones *)
  Lemma inv_s_lt i avail queue last s :
    Inv i avail queue last s -> queue <> [] ->
    exists d q1' q2, queue = (d :: q1') ++ q2 /\ length q2 = s /\
                     (forall d', In d' q2 -> subsetN (d_req d') avail = false).
  Proof.
    intros I Hne. destruct (inv_sat _ _ _ _ _ I Hne) as [w [Hw Hsat]].
    destruct (inv_tail _ _ _ _ _ I) as [q1 [q2 [Hq [Hl Hun]]]].
    destruct q1 as [|d q1'].
    - exfalso. cbn in Hq. subst queue. apply Hun in Hw. apply subsetN_incl in Hsat. congruence.
    - exists d, q1', q2. repeat split; assumption.
  Qed.

  Lemma not_exceeded i avail queue last s :
    Inv i avail queue last s -> queue <> [] -> exceeded (f_cmp F) (S i) cap = false.
  Proof.
    intros I Hne. rewrite Hcmp. cbn [exceeded]. apply Nat.ltb_ge.
    destruct (inv_s_lt _ _ _ _ _ I Hne) as [d [q1' [q2 [Hq [Hl _]]]]].
    pose proof (inv_pot _ _ _ _ _ I) as Hp. pose proof (inv_len _ _ _ _ _ I) as Hlen.
    assert (Hm : s + 1 <= length queue).
    { rewrite Hq. rewrite app_length. cbn [length]. lia. }
    unfold cap. set (m := length queue) in *. nia.
  Qed.

  Lemma inv_success i avail d q last s :
    Inv i avail (d :: q) last s -> subsetN (d_req d) avail = true ->
    Inv (S i) (d_prov d ++ avail) q last 0.
  Proof.
    intros I Hs. assert (Hne : d :: q <> []) by discriminate.
    destruct (inv_s_lt _ _ _ _ _ I Hne) as [d0 [q1' [q2 [Hq [Hl _]]]]].
    pose proof (inv_pot _ _ _ _ _ I) as Hp. pose proof (inv_len _ _ _ _ _ I) as Hlen.
    pose proof (inv_nodup _ _ _ _ _ I) as Hnd. cbn [map] in Hnd. apply NoDup_cons_iff in Hnd. destruct Hnd as [Hnotin Hnd'].
    constructor.
    - exact Hnd'.
    - intros d' Hd'. apply (inv_in_ds _ _ _ _ _ I). right. exact Hd'.
    - apply incl_appr. exact (inv_avail0 _ _ _ _ _ I).
    - intros d' Hd'. destruct (inv_cover _ _ _ _ _ I d' Hd') as [[<-|Hin]|Hp'].
      + right. apply incl_appl. apply incl_refl.
      + left. exact Hin.
      + right. apply incl_appr. exact Hp'.
    - intros x Hx d' Hd' Hn.
      destruct (inv_last _ _ _ _ _ I x Hx d' (or_intror Hd') Hn) as [q' Hq'].
      destruct q' as [|e q''].
      + exfalso. cbn in Hq'. injection Hq' as -> ->. apply Hnotin. apply in_map. exact Hd'.
      + cbn in Hq'. injection Hq' as -> ->. exists q''. reflexivity.
    - exists q, []. split; [now rewrite app_nil_r|]. split; [reflexivity|]. intros ? [].
    - assert (Hm : s + 1 <= length (d :: q)).
      { rewrite Hq. rewrite app_length. cbn [length]. lia. }
      cbn [length] in *. nia.
    - cbn [length] in Hlen. lia.
  Qed.

  Lemma inv_retry i avail d q last s :
    Inv i avail (d :: q) last s -> subsetN (d_req d) avail = false ->
    Inv (S i) avail (q ++ [d]) (Some (d_name d)) (S s).
  Proof.
    intros I Hs. assert (Hne : d :: q <> []) by discriminate.
    destruct (inv_s_lt _ _ _ _ _ I Hne) as [d0 [q1' [q2 [Hq [Hl Hun]]]]].
    cbn in Hq. injection Hq as <- Hq.
    pose proof (inv_pot _ _ _ _ _ I) as Hp. pose proof (inv_len _ _ _ _ _ I) as Hlen.
    pose proof (inv_nodup _ _ _ _ _ I) as Hnd.
    assert (Hperm : Permutation (d :: q) (q ++ [d])) by apply Permutation_cons_append.
    constructor.
    - eapply Permutation_NoDup; [|exact Hnd]. apply Permutation_map. exact Hperm.
    - intros d' Hd'. apply (inv_in_ds _ _ _ _ _ I). eapply Permutation_in; [apply Permutation_sym; exact Hperm|exact Hd'].
    - exact (inv_avail0 _ _ _ _ _ I).
    - intros d' Hd'. destruct (inv_cover _ _ _ _ _ I d' Hd') as [Hin|Hp'].
      + left. eapply Permutation_in; [exact Hperm|exact Hin].
      + right. exact Hp'.
    - intros x Hx d' Hd' Hn. injection Hx as <-.
      assert (d' = d).
      { apply in_app_or in Hd'. destruct Hd' as [Hd'|[<-|[]]]; [|reflexivity].
        exfalso. cbn [map] in Hnd. apply NoDup_cons_iff in Hnd. destruct Hnd as [Hnotin _]. apply Hnotin.
        rewrite <- Hn. apply in_map. exact Hd'. }
      subst d'. exists q. reflexivity.
    - exists q1', (q2 ++ [d]). split; [|split].
      + rewrite Hq. rewrite app_assoc. reflexivity.
      + rewrite app_length. cbn [length]. lia.
      + intros d' Hd'. apply in_app_or in Hd'. destruct Hd' as [Hd'|[<-|[]]]; [apply Hun; exact Hd'|exact Hs].
    - rewrite app_length. cbn [length] in *. rewrite Nat.add_1_r. cbn [length]. lia.
    - rewrite app_length. cbn [length] in *. lia.
  Qed.

  (** on a good graph the shortcut's condition is never met *)
  Lemma inv_no_shortcut i avail d q last s :
    Inv i avail (d :: q) last s -> subsetN (d_req d) avail = false ->
    optionN_eqb last (Some (d_name d)) = false.
  Proof.
    intros I Hs. destruct (optionN_eqb last (Some (d_name d))) eqn:E; [|reflexivity]. exfalso.
    destruct last as [x|]; [|discriminate E]. cbn in E. apply N.eqb_eq in E. subst x.
    destruct (inv_last _ _ _ _ _ I (d_name d) eq_refl d (or_introl eq_refl) eq_refl) as [q' Hq'].
    assert (Hq : q = []).
    { destruct q' as [|e q'']; cbn in Hq'.
      - injection Hq' as ->. reflexivity.
      - injection Hq' as -> ->. exfalso.
        pose proof (inv_nodup _ _ _ _ _ I) as Hnd. cbn [map] in Hnd. apply NoDup_cons_iff in Hnd. destruct Hnd as [Hnotin _].
        apply Hnotin. rewrite map_app. apply in_or_app. right. left. reflexivity. }
    subst q. assert (Hne : [d] <> []) by discriminate.
    destruct (inv_sat _ _ _ _ _ I Hne) as [w [[<-|[]] Hsat]]. apply subsetN_incl in Hsat. congruence.
  Qed.

  Lemma loop_acyclic_not_circular :
    forall fuel i avail queue last order s m,
      Inv i avail queue last s ->
      loop F els cap fuel i avail queue last order <> Circular m.
  Proof.
    induction fuel as [|fuel IH]; intros i avail queue last order s m I H; [discriminate H|].
    cbn [loop] in H. destruct queue as [|d q]; [discriminate H|].
    assert (Hne : d :: q <> []) by discriminate.
    rewrite (not_exceeded _ _ _ _ _ I Hne) in H.
    destruct (subsetN (d_req d) avail) eqn:Hs.
    - exact (IH _ _ _ _ _ _ _ (inv_success _ _ _ _ _ _ I Hs) H).
    - rewrite (inv_no_shortcut _ _ _ _ _ _ I Hs) in H.
      exact (IH _ _ _ _ _ _ _ (inv_retry _ _ _ _ _ _ I Hs) H).
  Qed.
End Acyclic.

Lemma all_provided_perm avail els els' x :
  Permutation els els' -> In x (all_provided avail els) -> In x (all_provided avail els').
Proof.
  intros Hp. unfold all_provided. rewrite !in_app_iff, !in_flat_map.
  intros [H|[d [Hd Hx]]]; [left; exact H|]. right. exists d. split; [|exact Hx].
  eapply Permutation_in; eassumption.
Qed.

Lemma topo_from_complete :
  forall ds a0 d, topo_from a0 ds -> In d ds -> incl (d_req d) (all_provided a0 ds).
Proof.
  induction ds as [|e rest IH]; intros a0 d Ht Hd; [destruct Hd|].
  cbn [topo_from] in Ht. destruct Ht as [Hreq Ht]. unfold all_provided. cbn [flat_map].
  destruct Hd as [<-|Hd].
  - intros x Hx. apply in_or_app. left. apply Hreq. exact Hx.
  - intros x Hx. specialize (IH _ _ Ht Hd x Hx). unfold all_provided in IH.
    rewrite !in_app_iff in *. tauto.
Qed.

Lemma acyclic_complete avail els : Acyclic avail els -> Complete avail els.
Proof.
  intros [ds [Hp Ht]] d Hd x Hx.
  apply (all_provided_perm avail ds els x Hp).
  apply (topo_from_complete ds avail d Ht); [|exact Hx].
  eapply Permutation_in; [apply Permutation_sym; exact Hp|exact Hd].
Qed.

Lemma sort_complete_acyclic F avail els :
  f_cap F = CapSquare -> f_cmp F = CmpGt ->
  NoDup (map d_name els) -> Acyclic avail els ->
  exists o, sort F avail els = Ok o.
Proof.
  intros Hcap Hcmp Hnd Hac. pose proof (acyclic_complete _ _ Hac) as Hcomp.
  destruct Hac as [ds [Hp Ht]].
  unfold sort. assert (Hns : (if f_checks_first F then not_solvable avail els else []) = []).
  { destruct (f_checks_first F); [|reflexivity]. apply not_solvable_nil_iff. exact Hcomp. }
  rewrite Hns. rewrite Hcap. cbn [cap_of].
  destruct (loop F els (length els * length els) (length els * length els + 2) 0 avail els None []) as [o|m|m|] eqn:E.
  - exists o. reflexivity.
  - exfalso. exact (loop_never_missing _ _ _ _ _ _ _ _ _ _ E).
  - exfalso. eapply (loop_acyclic_not_circular F Hcmp els avail ds Ht); [|exact E].
    instantiate (1 := 0). constructor.
    + exact Hnd.
    + intros d Hd. eapply Permutation_in; [apply Permutation_sym; exact Hp|exact Hd].
    + apply incl_refl.
    + intros d Hd. left. eapply Permutation_in; eassumption.
    + intros x Hx. discriminate Hx.
    + exists els, []. split; [now rewrite app_nil_r|]. split; [reflexivity|]. intros ? [].
    + lia.
    + lia.
  - exfalso. eapply loop_never_out_of_fuel; [| |exact E]; lia.
Qed.
