(** Executable model of the query entry points of [Model] (src/mxlpy/model.py:1953-2384):
    _get_args, get_args (default flags), get_fluxes, __call__, get_right_hand_side,
    _get_right_hand_side (consumed row-wise by the time-course forms), get_stoichiometries,
    get_derived_parameter_names / get_derived_variable_names, get_initial_conditions,
    get_parameter_values.  Each follows the Python control flow, including WHICH dictionary
    (cache or live container) each lookup reads. *)
From Coq Require Import ZArith List Bool.
From MxlBase Require Import ListX.
From Core Require Import Sort Model Cache.
Import ListNotations.

Section WithFns.
  Variable fsem : fnid -> list Z -> option Z.
  Variable fsemN : fnid -> list Z -> option (list Z).

  (** _get_args: args = all_parameter_values | variables | data ; args["time"] = t ;
      evaluate dyn_order from the live containers ; pop the data keys *)
  Definition get_args_raw (m : model) (c : cache) (vars : env) (t : Z) : res env :=
    let args0 := (time_name, t) :: env_of_dict (m_dat m) (env_of_dict vars (env_of_dict (c_all_par c) [])) in
    do e <- eval_order fsem fsemN (containers m) (c_dyn_order c) args0;
    Val (filter (fun kv => negb (has (fst kv) (m_dat m))) e).

  Definition derived_parameter_names (m : model) (c : cache) : list name :=
    filter (fun k => has k (c_all_par c)) (keys (m_der m)).
  Definition derived_variable_names (m : model) (c : cache) : list name :=
    filter (fun k => negb (has k (c_all_par c))) (keys (m_der m)).
  Definition surrogate_reaction_names (m : model) : list name :=
    flat_map (fun kv => keys (s_st (snd kv))) (m_sur m).
  Definition surrogate_output_nonflux (m : model) : list name :=
    flat_map (fun kv => filter (fun x => negb (has x (s_st (snd kv)))) (s_out (snd kv))) (m_sur m).

  (** get_arg_names with the default flags of get_args (readouts excluded) *)
  Definition arg_names (m : model) (c : cache) (include_time : bool) : list name :=
    (if include_time then [time_name] else [])
      ++ keys (m_var m) ++ keys (m_par m)
      ++ derived_variable_names m c ++ derived_parameter_names m c
      ++ keys (m_rxn m) ++ surrogate_output_nonflux m ++ surrogate_reaction_names m.

  Definition flux_names (m : model) : list name := keys (m_rxn m) ++ surrogate_reaction_names m.

  (** pd.Series(raw).loc[names]  (a missing label is a KeyError) *)
  Fixpoint select (names : list name) (e : env) : res (list (name * Z)) :=
    match names with
    | [] => Val []
    | k :: rest => match lookup k e with
                   | None => Err EKey
                   | Some v => do r <- select rest e; Val ((k, v) :: r)
                   end
    end.

  Definition get_args (m : model) (c : cache) (vars : env) (t : Z) : res (list (name * Z)) :=
    do raw <- get_args_raw m c vars t; select (arg_names m c true) raw.

  Definition get_fluxes (m : model) (c : cache) (vars : env) (t : Z) : res (list (name * Z)) :=
    do raw <- get_args_raw m c vars t; select (flux_names m) raw.

  (** accumulation loops shared by __call__ and _get_right_hand_side:
      [dxdt] is keyed by the variable names; [dxdt[k] += n * args[flux]] *)
  Fixpoint acc_static_row (k : name) (row : list (name * Z)) (args : env) (dxdt : env) : res env :=
    match row with
    | [] => Val dxdt
    | (flux, n) :: rest =>
      match lookup k dxdt, lookup flux args with
      | Some old, Some v => acc_static_row k rest args (dset k (old + n * v)%Z dxdt)
      | _, _ => Err EKey
      end
    end.
  Fixpoint acc_static (tab : list (name * list (name * Z))) (args : env) (dxdt : env) : res env :=
    match tab with
    | [] => Val dxdt
    | (k, row) :: rest => do d' <- acc_static_row k row args dxdt; acc_static rest args d'
    end.
  Fixpoint acc_dyn_row (k : name) (row : list (name * (fnid * list name))) (args : env) (dxdt : env) : res env :=
    match row with
    | [] => Val dxdt
    | (flux, (f, a)) :: rest =>
      do n <- calc fsem f a args;
      match lookup k dxdt, lookup flux args with
      | Some old, Some v => acc_dyn_row k rest args (dset k (old + n * v)%Z dxdt)
      | _, _ => Err EKey
      end
    end.
  Fixpoint acc_dyn (tab : list (name * list (name * (fnid * list name)))) (args : env) (dxdt : env) : res env :=
    match tab with
    | [] => Val dxdt
    | (k, row) :: rest => do d' <- acc_dyn_row k row args dxdt; acc_dyn rest args d'
    end.

  (** _get_right_hand_side(args, var_names, cache) : a Series over var_names *)
  Definition rhs_of_args (c : cache) (var_names : list name) (args : env) : res (list (name * Z)) :=
    let dxdt0 := map (fun k => (k, 0%Z)) var_names in
    do d1 <- acc_static (c_stoich c) args dxdt0;
    do d2 <- acc_dyn (c_dyn_stoich c) args d1;
    Val d2.

  (** get_right_hand_side(variables, time): var_names from the LIVE container *)
  Definition get_rhs (m : model) (c : cache) (vars : env) (t : Z) : res (list (name * Z)) :=
    do args <- get_args_raw m c vars t; rhs_of_args c (keys (m_var m)) args.

  (** __call__(time, variables): zip(cache.var_names, variables, strict=True) ; tuple in var_names order *)
  Definition call (m : model) (c : cache) (t : Z) (y : list Z) : res (list Z) :=
    if negb (Nat.eqb (length y) (length (c_var_names c))) then Err EValue
    else
      do args <- get_args_raw m c (combine (c_var_names c) y) t;
      do d <- rhs_of_args c (c_var_names c) args;
      do sel <- select (c_var_names c) d;
      Val (map snd sel).

  (** get_stoichiometries: static table with the dynamic entries evaluated and written over it *)
  Fixpoint over_dyn_row (cpd : name) (row : list (name * (fnid * list name))) (args : env)
           (tab : list (name * list (name * Z))) : res (list (name * list (name * Z))) :=
    match row with
    | [] => Val tab
    | (rxn, (f, a)) :: rest =>
      do v <- calc fsem f a args;
      match lookup cpd tab with
      | None => Err EKey
      | Some r => over_dyn_row cpd rest args (dset cpd (dset rxn v r) tab)
      end
    end.
  Fixpoint over_dyn (dy : list (name * list (name * (fnid * list name)))) (args : env)
           (tab : list (name * list (name * Z))) : res (list (name * list (name * Z))) :=
    match dy with
    | [] => Val tab
    | (cpd, row) :: rest => do t' <- over_dyn_row cpd row args tab; over_dyn rest args t'
    end.
  Definition get_stoichiometries (m : model) (c : cache) (vars : env) (t : Z)
    : res (list (name * list (name * Z))) :=
    do args <- get_args m c vars t;        (* the selected Series, not the raw dict *)
    over_dyn (c_dyn_stoich c) args (c_stoich c).
End WithFns.

(** dense lookup used by the correspondence: coefficient of [rxn] on [cpd], 0 if absent *)
Definition stoich_at (tab : list (name * list (name * Z))) (cpd rxn : name) : Z :=
  match lookup cpd tab with
  | None => 0%Z
  | Some row => match lookup rxn row with Some v => v | None => 0%Z end
  end.
