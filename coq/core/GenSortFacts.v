(* REGENERATED from src/mxlpy/model.py (_sort_dependencies, _check_if_is_sortable) by harness/c02.py;
   do not edit.  An unrecognised shape yields a *Unknown constructor, which breaks C02_facts_pinned. *)
From Core Require Import Sort.
Definition gen_sort_facts : sort_facts := mkSortFacts CapSquare CmpGt ScRaise true.
