(** Data sets exchanged through the public API ([Model.update_data]) and the split seed of
    [_create_cache] as a parameter, so that the seeded shape "data sets count as static names"
    (seeded change C01-9) can be run next to the shipped one.  No proofs here.

    Python                                              model
    ------                                              -----
    update_data(name, data): KeyError if unknown,       [update_data]: [Err EKey] / the model with the
        else self._data[name] = data                     data set replaced (same position)
    all_parameter_names = set(parameter_names)          [create_cache_seeded par_seed]   (= [create_cache])
    all_parameter_names = parameter_names | set(_data)  [create_cache_seeded par_data_seed]  (seeded C01-9)
    a query that finds a cache built BEFORE the         the query functions of Query.v applied to the NEW
        data set was exchanged (no invalidation)         model and the OLD cache *)
From Coq Require Import ZArith List Bool.
From MxlBase Require Import ListX.
From Core Require Import Sort Model Cache.
Import ListNotations.

Definition update_data (m : model) (k : name) (v : Z) : res model :=
  if has k (m_dat m)
  then Val (mkModel (m_par m) (m_var m) (m_der m) (m_rxn m) (m_sur m) (m_ro m) (dset k v (m_dat m)))
  else Err EKey.

Definition par_seed (m : model) : list name := keys (m_par m).
Definition par_data_seed (m : model) : list name := keys (m_par m) ++ keys (m_dat m).

Section WithFns.
  Variable fsem : fnid -> list Z -> option Z.
  Variable fsemN : fnid -> list Z -> option (list Z).

  (** [create_cache] with the seed of [all_parameter_names] as a parameter (statement for statement
      Cache.create_cache otherwise) *)
  Definition create_cache_seeded (seed : model -> list name) (F : sort_facts) (m : model) : res cache :=
    let base_par := plain_of (m_par m) in
    let base_var := plain_of (m_var m) in
    let table := to_sort m in
    do order <- sort_res F (base_available m) (map dep_of table);
    let dependent0 := (time_name, 0%Z) :: env_of_dict (m_dat m) (env_of_dict base_var (env_of_dict base_par [])) in
    do dependent <- eval_order fsem fsemN table order dependent0;
    do sp <- split_order m order (seed m);
    let '(static_order, dyn_order, allpar) := sp in
    do tabs <- add_rxn_list fsem allpar dependent ([], []) (all_rxn_entries m);
    let '(st, dy) := tabs in
    do init <- init_conditions (keys (m_var m)) dependent;
    do all_par <- fill_all_par m dependent static_order base_par;
    Val (mkCache order (keys (m_var m)) dyn_order base_par all_par st dy init).
End WithFns.
