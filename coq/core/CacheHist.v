(** REGRESSION VARIANTS of the cache construction (closing round, seeded changes C02-7 / C02-8).  No proofs here.
    None of this is the shipped code: [create_cache] (Cache.v) is.  The variants are executable models of two
    plausible edits; ../coreproofs/ProofsHist.v proves where they agree with the shipped behaviour and exhibits the
    inputs on which they break the property.

    (1) [create_cache_selfcheck]: the 'Sanity checks' loop of [_create_cache] also raises CircularDependencyError for
        the first of  initial assignments | derived | reactions | readouts  that lists its own name among its
        arguments -- BEFORE [_sort_dependencies], hence before the completeness check.
    (2) [sort_memo] / [create_cache_memo]: [_sort_dependencies] remembers the order found for a tuple of
        (name, frozenset(required), frozenset(provided)) in a module-level dict bounded to 64 entries and returns
        it on a hit BEFORE [_check_if_is_sortable]; the key forgets [available].  The memo is threaded explicitly:
        a process is a sequence of calls, each starting from the memo the previous one left. *)
From Coq Require Import ZArith List Bool.
From MxlBase Require Import ListX.
From Core Require Import Sort Model Cache.
Import ListNotations.

(** ---- (1) early self-reference check ---------------------------------------------------------- *)

(** it.chain(initial_assignments.items(), self._derived.items(), self._reactions.items()) -- the part of the
    loop that ranges over components of the dependency graph (surrogates are not in the loop) *)
Definition self_checked (m : model) : list (name * comp) :=
  ias_of (m_var m) ++ ias_of (m_par m) ++ der_comps m ++ rxn_comps m.

Definition names_itself (m : model) : bool :=
  existsb (fun kc => memN (fst kc) (comp_args (snd kc))) (self_checked m).

(** ... and self._readouts.items(), which are not part of the graph at all *)
Definition readout_names_itself (m : model) : bool :=
  existsb (fun kv => memN (fst kv) (d_args (snd kv))) (m_ro m).

(** ---- (2) memo keyed without [available] ------------------------------------------------------- *)

Definition mkey : Type := list (N * list N * list N).
Definition memo_key (els : list dep) : mkey :=
  map (fun d => (d_name d, sort_dedup (d_req d), sort_dedup (d_prov d))) els.
Definition trip_eqb (a b : N * list N * list N) : bool :=
  let '(n, r, p) := a in let '(n', r', p') := b in
  N.eqb n n' && list_eqb N.eqb r r' && list_eqb N.eqb p p'.
Definition memo : Type := list (mkey * list N).
Definition memo_find (k : mkey) (mm : memo) : option (mkey * list N) :=
  find (fun kv => list_eqb trip_eqb (fst kv) k) mm.
Definition memo_cap : nat := 64.

Definition sort_memo (F : sort_facts) (mm : memo) (avail : list N) (els : list dep) : outcome * memo :=
  match memo_find (memo_key els) mm with
  | Some kv => (Ok (snd kv), mm)
  | None =>
    match sort F avail els with
    | Ok o => (Ok o, (if Nat.leb memo_cap (length mm) then tl mm else mm) ++ [(memo_key els, o)])
    | r => (r, mm)
    end
  end.

Section WithFns.
  Variable fsem : fnid -> list Z -> option Z.
  Variable fsemN : fnid -> list Z -> option (list Z).

  Definition create_cache_selfcheck (F : sort_facts) (m : model) : res cache :=
    if names_itself m || readout_names_itself m then Err ECircular else create_cache fsem fsemN F m.

  (** [_create_cache] after the sorter answered [o] (the statements of Cache.create_cache, verbatim) *)
  Definition create_cache_from (o : outcome) (m : model) : res cache :=
    let base_par := plain_of (m_par m) in
    let base_var := plain_of (m_var m) in
    let table := to_sort m in
    do order <- match o with
                | Ok o => Val o
                | Missing mi => Err (EMissing mi)
                | Circular _ => Err ECircular
                | OutOfFuel => Err EFuel
                end;
    let dependent0 := (time_name, 0%Z) :: env_of_dict (m_dat m) (env_of_dict base_var (env_of_dict base_par [])) in
    do dependent <- eval_order fsem fsemN table order dependent0;
    do sp <- split_order m order (keys (m_par m));
    let '(static_order, dyn_order, allpar) := sp in
    do tabs <- add_rxn_list fsem allpar dependent ([], []) (all_rxn_entries m);
    let '(st, dy) := tabs in
    do init <- init_conditions (keys (m_var m)) dependent;
    do all_par <- fill_all_par m dependent static_order base_par;
    Val (mkCache order (keys (m_var m)) dyn_order base_par all_par st dy init).

  Definition create_cache_memo (F : sort_facts) (mm : memo) (m : model) : res cache * memo :=
    let om := sort_memo F mm (base_available m) (map dep_of (to_sort m)) in
    (create_cache_from (fst om) m, snd om).
End WithFns.

(** the edits of the histories: remove_parameter / remove_variable (its stoichiometric entries go with it:
    remove_stoichiometries=True) / remove_data *)
Definition keep (p : name) {A} (kv : name * A) : bool := negb (N.eqb (fst kv) p).
Definition drop_cpd (x : name) (ent : list (name * coef)) : list (name * coef) := filter (keep x) ent.
Definition remove_par (p : name) (m : model) : model :=
  mkModel (filter (keep p) (m_par m)) (m_var m) (m_der m) (m_rxn m) (m_sur m) (m_ro m) (m_dat m).
Definition remove_var (x : name) (m : model) : model :=
  mkModel (m_par m) (filter (keep x) (m_var m)) (m_der m)
          (map (fun kv => (fst kv, mkRxn (r_fn (snd kv)) (r_args (snd kv)) (drop_cpd x (r_st (snd kv))))) (m_rxn m))
          (map (fun kv => (fst kv, mkSur (s_fn (snd kv)) (s_args (snd kv)) (s_out (snd kv))
                                         (map (fun oe => (fst oe, drop_cpd x (snd oe))) (s_st (snd kv))))) (m_sur m))
          (m_ro m) (m_dat m).
Definition remove_dat (x : name) (m : model) : model :=
  mkModel (m_par m) (m_var m) (m_der m) (m_rxn m) (m_sur m) (m_ro m) (filter (keep x) (m_dat m)).

Inductive base_kind := BPar | BVar | BDat.
Definition remove_base (k : base_kind) (p : name) (m : model) : model :=
  match k with BPar => remove_par p m | BVar => remove_var p m | BDat => remove_dat p m end.
(** [p] is a plain parameter / a plain variable / a data set of [m] *)
Definition is_base (k : base_kind) (p : name) (m : model) : Prop :=
  match k with
  | BPar => In p (keys (plain_of (m_par m)))
  | BVar => In p (keys (plain_of (m_var m)))
  | BDat => In p (keys (m_dat m))
  end.
