(** C02 -- Dependency resolution is order-independent; bad graphs are rejected.

    ONLY theorem statements (written out in full), each closed by [exact <lemma>] and followed
    by [Print Assumptions].  All statements are about [gen_sort_facts], the facts REGENERATED
    from /repo/src/mxlpy/model.py on every run; [C02_facts_pinned] is the obligation that breaks
    when the iteration cap, its comparison, the [last_name] branch or the initial completeness
    check of [_sort_dependencies] is edited. *)
From Coq Require Import Permutation.
From MxlBase Require Import ListX.
From Core Require Import Sort GenSortFacts SortProofs SortAcyclic SortProps.

Theorem C02_facts_pinned : gen_sort_facts = mkSortFacts CapSquare CmpGt ScRaise true.
Proof. vm_compute. reflexivity. Qed.
Print Assumptions C02_facts_pinned.

(** resolution always terminates: the fuel of the model (cap + 2) is never exhausted *)
Theorem C02_terminates : forall avail els, sort gen_sort_facts avail els <> OutOfFuel.
Proof. exact (sort_never_out_of_fuel gen_sort_facts). Qed.
Print Assumptions C02_terminates.

(** a component naming something nobody provides: rejected, listing exactly those names *)
Theorem C02_missing_exact :
  forall avail els,
    ~ Complete avail els ->
    sort gen_sort_facts avail els = Missing (not_solvable avail els)
    /\ (forall n l, In (n, l) (not_solvable avail els) <->
          exists d, In d els /\ d_name d = n /\ ~ incl (d_req d) (all_provided avail els)
                    /\ l = sort_dedup (diffN (d_req d) (all_provided avail els)))
    /\ (forall d x, In x (sort_dedup (diffN (d_req d) (all_provided avail els))) <->
          In x (d_req d) /\ ~ In x (all_provided avail els)).
Proof. exact (missing_exact C02_facts_pinned). Qed.
Print Assumptions C02_missing_exact.

(** no numbers for a bad graph: whenever an order is returned it lists every element exactly
    once and each element comes after everything that provides what it names *)
Theorem C02_ok_is_topological :
  forall avail els o,
    sort gen_sort_facts avail els = Ok o ->
    exists ds, o = map d_name ds /\ Permutation ds els /\ topo_from avail ds.
Proof. exact (ok_is_topological C02_facts_pinned). Qed.
Print Assumptions C02_ok_is_topological.

(** every cycle (self loops included) in a complete graph is rejected as circular *)
Theorem C02_cyclic_rejected :
  forall avail els,
    Complete avail els -> ~ Acyclic avail els ->
    exists m, sort gen_sort_facts avail els = Circular m.
Proof. exact (cyclic_rejected C02_facts_pinned). Qed.
Print Assumptions C02_cyclic_rejected.

(** every complete acyclic graph is sorted, in whatever order it was declared; in particular the
    n^2 iteration cap and the retry shortcut never fire on a good graph *)
Theorem C02_complete_acyclic_sorted :
  forall avail els,
    NoDup (map d_name els) -> Acyclic avail els ->
    exists o, sort gen_sort_facts avail els = Ok o.
Proof. exact (complete_acyclic_sorted C02_facts_pinned). Qed.
Print Assumptions C02_complete_acyclic_sorted.

(** the outcome KIND does not depend on the declaration order *)
Theorem C02_order_independent_kind :
  forall avail els els',
    NoDup (map d_name els) -> Permutation els els' ->
    (forall o, sort gen_sort_facts avail els = Ok o -> exists o', sort gen_sort_facts avail els' = Ok o')
    /\ (forall m, sort gen_sort_facts avail els = Missing m ->
          exists m', sort gen_sort_facts avail els' = Missing m' /\ Permutation m m')
    /\ (forall m, sort gen_sort_facts avail els = Circular m -> exists m', sort gen_sort_facts avail els' = Circular m').
Proof. exact (order_independent_kind C02_facts_pinned). Qed.
Print Assumptions C02_order_independent_kind.

(** non-vacuity: a 5-element diamond with a two-output provider, declared in reverse order *)
Example C02_nonvacuous :
  let els := [mkDep 5 [3;4] [5]; mkDep 4 [2;10] [4]; mkDep 3 [1;2] [3]; mkDep 2 [0] [2;10]; mkDep 1 [0] [1]]%N in
  NoDup (map d_name els) /\ Complete [0%N] els /\
  sort gen_sort_facts [0%N] els = Ok [2;1;4;3;5]%N.
Proof.
  cbv zeta. split; [|split].
  - repeat constructor; cbn; intuition discriminate.
  - apply not_solvable_nil_iff. vm_compute. reflexivity.
  - vm_compute. reflexivity.
Qed.
Print Assumptions C02_nonvacuous.
