(** Executable model of [_check_if_is_sortable] and [_sort_dependencies]
    (src/mxlpy/model.py), statement by statement.

    Python                               model
    ------                               -----
    set[str]                             list N (membership only; duplicates harmless)
    SimpleQueue                          list, get = head, put = append at the back
    `while True` loop                    structural recursion on fuel = cap + 2
                                         ([OutOfFuel] is proved unreachable)
    raise MissingDependenciesError(d)    [Missing d]   (d in element order, values sorted+dedup)
    raise CircularDependencyError(m)     [Circular m]
    return order                         [Ok order]

    The three facts that are *regenerated from the source on every run* (GenSortFacts.v) are
    the iteration cap expression, the comparison against it and what the [last_name] branch
    does; the loop consults them, PropsC02.v pins them. *)
From Coq Require Import Permutation.
From MxlBase Require Import ListX.

Record dep := mkDep { d_name : N; d_req : list N; d_prov : list N }.

Inductive cap_kind := CapSquare | CapDouble | CapLinear | CapCube | CapUnknown.
Inductive cmp_kind := CmpGt | CmpGe | CmpUnknown.
Inductive shortcut_kind := ScAppendBreak | ScRaise | ScAbsent | ScUnknown.
Record sort_facts := mkSortFacts {
  f_cap : cap_kind; f_cmp : cmp_kind; f_shortcut : shortcut_kind;
  f_checks_first : bool  (* _sort_dependencies starts with _check_if_is_sortable *)
}.

Definition cap_of (k : cap_kind) (n : nat) : nat :=
  match k with
  | CapSquare => n * n | CapDouble => 2 * n | CapLinear => n | CapCube => n * n * n
  | CapUnknown => 0
  end.

Definition exceeded (c : cmp_kind) (i cap : nat) : bool :=
  match c with CmpGt => Nat.ltb cap i | CmpGe => Nat.leb cap i | CmpUnknown => true end.

Inductive outcome :=
| Ok (order : list N)
| Missing (m : list (N * list N))
| Circular (m : list (N * list N))
| OutOfFuel.

Definition all_provided (avail : list N) (els : list dep) : list N :=
  avail ++ flat_map d_prov els.

Definition diffN (a b : list N) : list N := filter (fun x => negb (memN x b)) a.

(** _check_if_is_sortable: the dict comprehension, in element order *)
Definition not_solvable (avail : list N) (els : list dep) : list (N * list N) :=
  let alla := all_provided avail els in
  flat_map (fun d => if subsetN (d_req d) alla then []
                     else [(d_name d, sort_dedup (diffN (d_req d) alla))]) els.

Definition req_of (els : list dep) (n : N) : list N :=
  match find (fun d => N.eqb (d_name d) n) els with
  | Some d => d_req d
  | None => []
  end.

(** payload of CircularDependencyError raised by the iteration cap: names left in the queue,
    each with its requirements that are still unavailable (as a sorted list: it is a set) *)
Definition circ_payload (els : list dep) (avail : list N) (queue : list dep) : list (N * list N) :=
  map (fun d => (d_name d, sort_dedup (diffN (req_of els (d_name d)) avail))) queue.

Section Loop.
  Variable F : sort_facts.
  Variable els : list dep.
  Variable cap : nat.

  (** [order] is accumulated in reverse *)
  Fixpoint loop (fuel i : nat) (avail : list N) (queue : list dep) (last : option N)
           (order : list N) : outcome :=
    match fuel with
    | O => OutOfFuel
    | S fuel' =>
      match queue with
      | [] => Ok (rev order)
      | d :: q =>
        if subsetN (d_req d) avail then
          let avail' := d_prov d ++ avail in
          if exceeded (f_cmp F) (S i) cap then Circular (circ_payload els avail' q)
          else loop fuel' (S i) avail' q last (d_name d :: order)
        else
          let retry :=
            let q' := q ++ [d] in
            if exceeded (f_cmp F) (S i) cap then Circular (circ_payload els avail q')
            else loop fuel' (S i) avail q' (Some (d_name d)) order in
          if optionN_eqb last (Some (d_name d)) then
            match f_shortcut F with
            | ScAppendBreak => Ok (rev (d_name d :: order))
            | ScRaise => Circular [(d_name d, sort_dedup (diffN (d_req d) avail))]
            | ScAbsent | ScUnknown => retry
            end
          else retry
      end
    end.
End Loop.

Definition sort (F : sort_facts) (avail : list N) (els : list dep) : outcome :=
  let ns := if f_checks_first F then not_solvable avail els else [] in
  match ns with
  | _ :: _ => Missing ns
  | [] =>
    let cap := cap_of (f_cap F) (length els) in
    loop F els cap (cap + 2) 0 avail els None []
  end.

(** ------------------------------------------------------------------------------------ *)
(** Specification vocabulary *)

(** [o] lists elements such that each one's requirements are available from [avail] and the
    outputs of the elements before it *)
Fixpoint topo_from (avail : list N) (ds : list dep) : Prop :=
  match ds with
  | [] => True
  | d :: rest => incl (d_req d) avail /\ topo_from (d_prov d ++ avail) rest
  end.

Definition Complete (avail : list N) (els : list dep) : Prop :=
  forall d, In d els -> incl (d_req d) (all_provided avail els).

(** acyclic = the elements can be arranged in a valid evaluation order *)
Definition Acyclic (avail : list N) (els : list dep) : Prop :=
  exists ds, Permutation ds els /\ topo_from avail ds.

(** comparison helpers for the correspondence files *)
Definition pairs_eqb (a b : list (N * list N)) : bool :=
  list_eqb (fun x y => N.eqb (fst x) (fst y) && list_eqb N.eqb (snd x) (snd y)) a b.

Definition outcome_eqb (a b : outcome) : bool :=
  match a, b with
  | Ok x, Ok y => list_eqb N.eqb x y
  | Missing x, Missing y => pairs_eqb x y
  | Circular x, Circular y => pairs_eqb x y
  | _, _ => false
  end.
