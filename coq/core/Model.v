(** Executable model of the MxlPy [Model] core (src/mxlpy/model.py, types.py, surrogates/abstract.py):
    containers, environments, component evaluation.  No proofs here.

    Python                                 model
    ------                                 -----
    component names (str)                  [name := N]; ["time"] is [time_name = 0]
    float values                           [Z] (the correspondence uses integer-valued polynomial
                                           functions, so binary64 arithmetic is exact)
    dict (insertion ordered, unique keys)  association list; [dset] overwrites in place or appends
    evaluation environment [args]/[dependent] (a dict that is only read by key and written
                                           by key)  [env]: newest binding first, [lookup] = first match
    fn applied to args[a] for a in self.args [lookups] (None = KeyError) then [fsem] (None = TypeError)
    exceptions                             [Err e]
    the meaning of Python functions        Section variables [fsem], [fsemN] (instantiated by FnLib
                                           for execution; theorems hold for every meaning) *)
From Coq Require Import ZArith List Bool.
From MxlBase Require Import ListX.
From Core Require Import Sort.
Import ListNotations.

Definition name := N.
Definition fnid := N.
Definition time_name : name := 0%N.

Inductive coef := CStat (q : Z) | CDyn (f : fnid) (args : list name).
Inductive valia := Plain (v : Z) | IA (f : fnid) (args : list name).
Record derived := mkDer { d_fn : fnid; d_args : list name }.
Record reaction := mkRxn { r_fn : fnid; r_args : list name; r_st : list (name * coef) }.
Record surrogate := mkSur { s_fn : fnid; s_args : list name; s_out : list name;
                            s_st : list (name * list (name * coef)) }.
Record model := mkModel {
  m_par : list (name * valia);
  m_var : list (name * valia);
  m_der : list (name * derived);
  m_rxn : list (name * reaction);
  m_sur : list (name * surrogate);
  m_ro  : list (name * derived);
  m_dat : list (name * Z)
}.

Inductive err :=
| EMissing (m : list (name * list name))
| ECircular
| EKey | EType | EValue | EFuel | EName.
Inductive res (A : Type) := Val (a : A) | Err (e : err).
Arguments Val {A} a.
Arguments Err {A} e.

Definition bind {A B} (r : res A) (f : A -> res B) : res B :=
  match r with Val a => f a | Err e => Err e end.
Notation "'do' x <- r ; k" := (bind r (fun x => k)) (at level 200, x pattern, r at level 100, k at level 200).

(** ---- dictionaries and environments ------------------------------------------------ *)

Definition env := list (name * Z).

Fixpoint lookup {A} (k : name) (e : list (name * A)) : option A :=
  match e with
  | [] => None
  | (k', v) :: r => if N.eqb k k' then Some v else lookup k r
  end.

Fixpoint lookups (ks : list name) (e : env) : option (list Z) :=
  match ks with
  | [] => Some []
  | k :: r => match lookup k e, lookups r e with
              | Some v, Some vs => Some (v :: vs)
              | _, _ => None
              end
  end.

Definition has {A} (k : name) (e : list (name * A)) : bool :=
  match lookup k e with Some _ => true | None => false end.

(** insertion-ordered dict write: overwrite in place, else append *)
Fixpoint dset {A} (k : name) (v : A) (d : list (name * A)) : list (name * A) :=
  match d with
  | [] => [(k, v)]
  | (k', v') :: r => if N.eqb k k' then (k', v) :: r else (k', v') :: dset k v r
  end.

Definition dsetdefault {A} (k : name) (dflt : A) (d : list (name * A)) : list (name * A) :=
  if has k d then d else d ++ [(k, dflt)].

(** [a | b | ...] read as an environment: later writes win *)
Definition env_of_dict (d : list (name * Z)) (e : env) : env := rev d ++ e.

Definition keys {A} (d : list (name * A)) : list name := map fst d.

(** ---- components ------------------------------------------------------------------- *)

Inductive comp :=
| CFn (f : fnid) (args : list name)
| CSur (f : fnid) (args outs : list name).

Definition comp_args (c : comp) : list name :=
  match c with CFn _ a => a | CSur _ a _ => a end.
Definition comp_outs (nm : name) (c : comp) : list name :=
  match c with CFn _ _ => [nm] | CSur _ _ o => o end.

Section WithFns.
  Variable fsem : fnid -> list Z -> option Z.
  Variable fsemN : fnid -> list Z -> option (list Z).

  (** Derived/Reaction/InitialAssignment/Readout.calculate *)
  Definition calc (f : fnid) (args : list name) (e : env) : res Z :=
    match lookups args e with
    | None => Err EKey
    | Some vs => match fsem f vs with None => Err EType | Some v => Val v end
    end.

  (** .calculate_inpl(name, args) ; MockSurrogate: args |= dict(zip(outputs, fn(..), strict=True)) *)
  Definition eval_comp (nm : name) (c : comp) (e : env) : res env :=
    match c with
    | CFn f args => do v <- calc f args e; Val ((nm, v) :: e)
    | CSur f args outs =>
      match lookups args e with
      | None => Err EKey
      | Some vs =>
        match fsemN f vs with
        | None => Err EType
        | Some ws => if Nat.eqb (length ws) (length outs)
                     then Val (env_of_dict (combine outs ws) e)
                     else Err EValue
        end
      end
    end.

  (** for name in order: table[name].calculate_inpl(name, env) *)
  Fixpoint eval_order (table : list (name * comp)) (order : list name) (e : env) : res env :=
    match order with
    | [] => Val e
    | nm :: rest =>
      match lookup nm table with
      | None => Err EKey
      | Some c => do e' <- eval_comp nm c e; eval_order table rest e'
      end
    end.
End WithFns.

(** ---- views of the containers -------------------------------------------------------- *)

Definition plain_of (l : list (name * valia)) : env :=
  flat_map (fun kv => match snd kv with Plain v => [(fst kv, v)] | IA _ _ => [] end) l.
Definition ias_of (l : list (name * valia)) : list (name * comp) :=
  flat_map (fun kv => match snd kv with Plain _ => [] | IA f a => [(fst kv, CFn f a)] end) l.

Definition der_comps (m : model) : list (name * comp) :=
  map (fun kv => (fst kv, CFn (d_fn (snd kv)) (d_args (snd kv)))) (m_der m).
Definition rxn_comps (m : model) : list (name * comp) :=
  map (fun kv => (fst kv, CFn (r_fn (snd kv)) (r_args (snd kv)))) (m_rxn m).
Definition sur_comps (m : model) : list (name * comp) :=
  map (fun kv => (fst kv, CSur (s_fn (snd kv)) (s_args (snd kv)) (s_out (snd kv)))) (m_sur m).

(** initial_assignments | derived | reactions | surrogates  (keys are unique by the id registry) *)
Definition to_sort (m : model) : list (name * comp) :=
  ias_of (m_var m) ++ ias_of (m_par m) ++ der_comps m ++ rxn_comps m ++ sur_comps m.

(** derived | reactions | surrogates, as read by _get_args from the LIVE containers *)
Definition containers (m : model) : list (name * comp) :=
  der_comps m ++ rxn_comps m ++ sur_comps m.

Definition dep_of (kc : name * comp) : dep :=
  mkDep (fst kc) (comp_args (snd kc)) (comp_outs (fst kc) (snd kc)).

Definition base_available (m : model) : list name :=
  keys (plain_of (m_par m)) ++ keys (plain_of (m_var m)) ++ keys (m_dat m) ++ [time_name].
