(** [Model._create_cache] when assignment functions are NOT pure functions of their arguments
    (a start value drawn from a random generator, a counter, a value read from elsewhere): the
    evaluation pass at time zero threads the history of draws.  No proofs here.

    Python                                          model
    ------                                          -----
    an InitialAssignment whose fn draws             its name is in [imp]; the k-th draw made during this
                                                    resolution (k = 0, 1, ...) adds [draw k] to the
                                                    function's pure meaning [fsem f vs]
    for name in order:                              [eval_order_d]: state = (environment, log of the names
        to_sort[name].calculate_inpl(name, dependent)   that drew, in call order); k = length of the log
    initial_conditions = {k: dependent[k] ...}      [create_cache_d false]: read from the values of the pass
    seeded C13-8: {k: base[k] if plain else         [create_cache_d true]: every variable assignment is
                   init.calculate(dependent)}        evaluated a SECOND time against the finished pass values

    Derived quantities, reactions, surrogates and computed coefficients keep the pure meaning (they are
    re-evaluated at every query anyway; "computed once" is a statement about assignments). *)
From Coq Require Import ZArith List Bool.
From MxlBase Require Import ListX.
From Core Require Import Sort Model Cache.
Import ListNotations.

Section Draw.
  Variable fsem : fnid -> list Z -> option Z.
  Variable fsemN : fnid -> list Z -> option (list Z).
  Variable imp : list name.
  Variable draw : nat -> Z.

  Definition dstate : Type := (env * list name)%type.

  (** one evaluation of a drawing function: the pure value plus the next draw, and the log grows *)
  Definition calc_d (nm : name) (f : fnid) (args : list name) (st : dstate) : res (Z * list name) :=
    let '(e, log) := st in
    do v <- calc fsem f args e;
    if memN nm imp then Val ((v + draw (length log))%Z, log ++ [nm]) else Val (v, log).

  Definition eval_comp_d (nm : name) (c : comp) (st : dstate) : res dstate :=
    match c with
    | CFn f args => do r <- calc_d nm f args st; Val ((nm, fst r) :: fst st, snd r)
    | CSur _ _ _ => do e' <- eval_comp fsem fsemN nm c (fst st); Val (e', snd st)
    end.

  Fixpoint eval_order_d (table : list (name * comp)) (order : list name) (st : dstate) : res dstate :=
    match order with
    | [] => Val st
    | nm :: rest =>
      match lookup nm table with
      | None => Err EKey
      | Some c => do st' <- eval_comp_d nm c st; eval_order_d table rest st'
      end
    end.

  (** seeded C13-8: initial_conditions rebuilt from the declarations, in variable order *)
  Fixpoint init_conditions_again (vars : list (name * valia)) (dependent : env) (log : list name)
    : res (env * list name) :=
    match vars with
    | [] => Val ([], log)
    | (k, Plain v) :: rest =>
      do r <- init_conditions_again rest dependent log; Val ((k, v) :: fst r, snd r)
    | (k, IA f a) :: rest =>
      do r1 <- calc_d k f a (dependent, log);
      do r <- init_conditions_again rest dependent (snd r1); Val ((k, fst r1) :: fst r, snd r)
    end.

  (** [again = false]: the code as shipped; [again = true]: the seeded shape *)
  Definition create_cache_d (again : bool) (F : sort_facts) (m : model) : res (cache * list name) :=
    let base_par := plain_of (m_par m) in
    let base_var := plain_of (m_var m) in
    let table := to_sort m in
    do order <- sort_res F (base_available m) (map dep_of table);
    let dependent0 := (time_name, 0%Z) :: env_of_dict (m_dat m) (env_of_dict base_var (env_of_dict base_par [])) in
    do st <- eval_order_d table order (dependent0, []);
    let '(dependent, log) := st in
    do sp <- split_order m order (keys (m_par m));
    let '(static_order, dyn_order, allpar) := sp in
    do tabs <- add_rxn_list fsem allpar dependent ([], []) (all_rxn_entries m);
    let '(st_, dy) := tabs in
    do il <- (if again then init_conditions_again (m_var m) dependent log
              else do i <- init_conditions (keys (m_var m)) dependent; Val (i, log));
    let '(init, log') := il in
    do all_par <- fill_all_par m dependent static_order base_par;
    Val (mkCache order (keys (m_var m)) dyn_order base_par all_par st_ dy init, log').
End Draw.
