(** Comparison glue for the drawing-assignment correspondence of C13 (no proofs): the stateful model of
    CacheDraw.v, in the shape the regenerated fact [gen_init_source] names, against what the implementation
    showed when its assignment functions drew. *)
From Coq Require Import ZArith List Bool.
From MxlBase Require Import ListX.
From Core Require Import Sort GenSortFacts FnLib Model Cache CacheData CacheDraw Query GenCacheFacts CorrC01.
Import ListNotations.

Definition again_of (k : init_kind) : option bool :=
  match k with InitFromPass => Some false | InitAgain => Some true | InitUnknown => None end.

Definition seed_of (k : seed_kind) : option (model -> list name) :=
  match k with SeedPar => Some par_seed | SeedParData => Some par_data_seed | SeedUnknown => None end.

(* model, drawing assignments, draws made by the model BEFORE this resolution (the k-th draw of the model's life adds
   k), observed: initial conditions, values of the assignment-defined parameters (argument table at the default
   state), names that drew in call order *)
Definition c13d_case : Type :=
  (model * list name * Z * list (name * Z) * list (name * Z) * list name)%type.

Definition c13d_case_ok (c : c13d_case) : bool :=
  let '(m, imp, off, o_ic, o_ia, o_log) := c in
  match again_of gen_init_source with
  | None => false
  | Some ag =>
    match create_cache_d FnLib.fsem FnLib.fsemN imp (fun k => (off + Z.of_nat (S k))%Z) ag gen_sort_facts m with
    | Err _ => false
    | Val (ch, log) =>
      pairsZ_eqb (c_init ch) o_ic
      && forallb (fun kv => match lookup (fst kv) (c_all_par ch) with Some v => Z.eqb v (snd kv) | None => false end) o_ia
      && list_eqb N.eqb log o_log
    end
  end.
