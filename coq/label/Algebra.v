(** Algebra over an arbitrary commutative ring (Leibniz equality, [ring_theory]) with a ring morphism
    [ofZ] from Z: finite sums and products, the enumeration of label patterns, and the two identities
    at the heart of C05 / C16:

      sum over patterns of a product of per-compound weights = product of the per-compound sums
      ([sum_prod_patterns]), and its marginal version with one position fixed ([marginal_patterns]). *)
From Coq Require Import List ZArith NArith Bool Arith Lia Permutation Ring.
From MxlBase Require Import ListX.
From Label Require Import LModel Iso.
Import ListNotations.

(** ---- label patterns ------------------------------------------------------------------------- *)
Lemma all_patterns_length n p : In p (all_patterns n) -> length p = n.
Proof.
  revert p. induction n as [|n IH]; intros p Hp; cbn in Hp.
  - destruct Hp as [<-|[]]. reflexivity.
  - apply in_app_or in Hp. destruct Hp as [Hp|Hp]; apply in_map_iff in Hp; destruct Hp as [q [<- Hq]];
      cbn; f_equal; apply IH; exact Hq.
Qed.

Lemma all_patterns_complete n p : length p = n -> In p (all_patterns n).
Proof.
  revert p. induction n as [|n IH]; intros p Hp.
  - destruct p; [left; reflexivity|discriminate].
  - destruct p as [|b q]; [discriminate|]. cbn. apply in_or_app.
    destruct b; [right|left]; apply in_map; apply IH; cbn in Hp; lia.
Qed.

Lemma NoDup_app_lemma {A} (l1 l2 : list A) :
  NoDup l1 -> NoDup l2 -> (forall x, In x l1 -> In x l2 -> False) -> NoDup (l1 ++ l2).
Proof.
  induction l1 as [|x l IH]; intros H1 H2 Hd; cbn; [exact H2|].
  inversion H1 as [|? ? Hnx H1']; subst. constructor.
  - intro Hin. apply in_app_or in Hin. destruct Hin as [Hin|Hin]; [contradiction|].
    apply (Hd x); [left; reflexivity|exact Hin].
  - apply IH; [exact H1'|exact H2|]. intros y Hy1 Hy2. apply (Hd y); [right; exact Hy1|exact Hy2].
Qed.

Lemma all_patterns_NoDup n : NoDup (all_patterns n).
Proof.
  induction n as [|n IH]; cbn.
  - constructor; [intros []|constructor].
  - assert (Hinj : forall b, NoDup (map (cons b) (all_patterns n))).
    { intro b. apply FinFun.Injective_map_NoDup; [|exact IH]. intros x y H. inversion H. reflexivity. }
    apply NoDup_app_lemma; [apply Hinj|apply Hinj|].
    intros x Hx Hy. apply in_map_iff in Hx. apply in_map_iff in Hy.
    destruct Hx as [a [<- _]]. destruct Hy as [b [Hb _]]. discriminate.
Qed.

Lemma all_patterns_count n : length (all_patterns n) = 2 ^ n.
Proof.
  induction n as [|n IH]; cbn [all_patterns]; [reflexivity|].
  rewrite app_length, !map_length, IH. cbn. lia.
Qed.

Lemma all_patterns_app a b :
  all_patterns (a + b) = flat_map (fun p => map (app p) (all_patterns b)) (all_patterns a).
Proof.
  induction a as [|a IH]; cbn [all_patterns Nat.add flat_map].
  - rewrite app_nil_r. symmetry. apply map_id.
  - rewrite IH, flat_map_app. f_equal.
    + rewrite !flat_map_concat_map, concat_map, !map_map. f_equal. apply map_ext. intro p.
      rewrite map_map. reflexivity.
    + rewrite !flat_map_concat_map, concat_map, !map_map. f_equal. apply map_ext. intro p.
      rewrite map_map. reflexivity.
Qed.

Section Alg.
  Variable R : Type.
  Variables (rO rI : R) (radd rmul rsub : R -> R -> R) (ropp : R -> R) (ofZ : Z -> R).
  Hypothesis Rth : ring_theory rO rI radd rmul rsub ropp eq.
  Hypothesis ofZ_0 : ofZ 0%Z = rO.
  Hypothesis ofZ_1 : ofZ 1%Z = rI.
  Hypothesis ofZ_add : forall a b, ofZ (a + b)%Z = radd (ofZ a) (ofZ b).
  Hypothesis ofZ_opp : forall a, ofZ (- a)%Z = ropp (ofZ a).
  Add Ring Rring : Rth.

  Notation "0" := rO. Notation "1" := rI.
  Infix "+" := radd. Infix "*" := rmul. Infix "-" := rsub.
  Notation sum := (sumR R rO radd).
  Notation prod := (prodR R rI rmul).

  Lemma sum_nil : sum [] = 0. Proof. reflexivity. Qed.
  Lemma prod_nil : prod [] = 1. Proof. reflexivity. Qed.
  Lemma sum_cons x l : sum (x :: l) = x + sum l. Proof. reflexivity. Qed.
  Lemma prod_cons x l : prod (x :: l) = x * prod l. Proof. reflexivity. Qed.

  Ltac norm := cbn [map app flat_map combine fst snd]; rewrite ?sum_cons, ?sum_nil, ?prod_cons, ?prod_nil.

  Lemma sum_app l1 l2 : sum (l1 ++ l2) = sum l1 + sum l2.
  Proof. induction l1 as [|x l IH]; norm; [ring|]. rewrite IH. ring. Qed.

  Lemma prod_app l1 l2 : prod (l1 ++ l2) = prod l1 * prod l2.
  Proof. induction l1 as [|x l IH]; norm; [ring|]. rewrite IH. ring. Qed.

  Lemma sum_map_ext {A} (f g : A -> R) l : (forall x, In x l -> f x = g x) -> sum (map f l) = sum (map g l).
  Proof.
    induction l as [|x l IH]; intro H; norm; [reflexivity|].
    rewrite IH, (H x); [reflexivity|left; reflexivity|].
    intros y Hy. apply H. right. exact Hy.
  Qed.

  Lemma sum_map_scale {A} c (f : A -> R) l : sum (map (fun x => c * f x) l) = c * sum (map f l).
  Proof. induction l as [|x l IH]; norm; [ring|]. rewrite IH. ring. Qed.

  Lemma sum_map_scale_r {A} c (f : A -> R) l : sum (map (fun x => f x * c) l) = sum (map f l) * c.
  Proof. induction l as [|x l IH]; norm; [ring|]. rewrite IH. ring. Qed.

  Lemma sum_map_add {A} (f g : A -> R) l : sum (map (fun x => f x + g x) l) = sum (map f l) + sum (map g l).
  Proof. induction l as [|x l IH]; norm; [ring|]. rewrite IH. ring. Qed.

  Lemma sum_map_sub {A} (f g : A -> R) l : sum (map (fun x => f x - g x) l) = sum (map f l) - sum (map g l).
  Proof. induction l as [|x l IH]; norm; [ring|]. rewrite IH. ring. Qed.

  Lemma sum_map_zero {A} (l : list A) : sum (map (fun _ => 0) l) = 0.
  Proof. induction l as [|x l IH]; norm; [reflexivity|]. rewrite IH. ring. Qed.

  Lemma sum_flat_map {A B} (f : A -> list B) (g : B -> R) l :
    sum (map g (flat_map f l)) = sum (map (fun x => sum (map g (f x))) l).
  Proof.
    induction l as [|x l IH]; norm; [reflexivity|]. rewrite map_app, sum_app, IH. reflexivity.
  Qed.

  Lemma sum_swap {A B} (f : A -> B -> R) la lb :
    sum (map (fun a => sum (map (fun b => f a b) lb)) la) = sum (map (fun b => sum (map (fun a => f a b) la)) lb).
  Proof.
    induction la as [|a la IH]; norm.
    - symmetry. apply sum_map_zero.
    - rewrite IH, <- sum_map_add. apply sum_map_ext. intros b _. norm. reflexivity.
  Qed.

  Lemma prod_perm l l' : Permutation l l' -> prod l = prod l'.
  Proof.
    induction 1 as [| x l l' _ IH | x y l | l l' l'' _ IH1 _ IH2]; norm.
    - reflexivity.
    - rewrite IH. reflexivity.
    - ring.
    - rewrite IH1. exact IH2.
  Qed.

  Lemma sum_perm l l' : Permutation l l' -> sum l = sum l'.
  Proof.
    induction 1 as [| x l l' _ IH | x y l | l l' l'' _ IH1 _ IH2]; norm.
    - reflexivity.
    - rewrite IH. reflexivity.
    - ring.
    - rewrite IH1. exact IH2.
  Qed.

  (** indicator sums *)
  Lemma sum_indicator {A} (eqd : forall a b : A, {a = b} + {a <> b}) (g : A -> R) (q : A) l :
    NoDup l -> In q l -> sum (map (fun x => if eqd q x then g x else 0) l) = g q.
  Proof.
    induction l as [|x l IH]; intros Hnd Hin; [destruct Hin|]. apply NoDup_cons_iff in Hnd. destruct Hnd as [Hnx Hnd'].
    norm. destruct (eqd q x) as [->|Hne].
    - rewrite (sum_map_ext _ (fun _ => 0)), sum_map_zero; [ring|].
      intros y Hy. destruct (eqd x y) as [->|]; [contradiction|reflexivity].
    - destruct Hin as [->|Hin]; [contradiction|]. rewrite IH by assumption. ring.
  Qed.

  Lemma sum_indicator_none {A} (eqd : forall a b : A, {a = b} + {a <> b}) (g : A -> R) (q : A) l :
    ~ In q l -> sum (map (fun x => if eqd q x then g x else 0) l) = 0.
  Proof.
    intro Hn. rewrite (sum_map_ext _ (fun _ => 0)), sum_map_zero; [reflexivity|].
    intros y Hy. destruct (eqd q y) as [->|]; [contradiction|reflexivity].
  Qed.

  (** embedding of naturals (counts) *)
  Definition ofNat (n : nat) : R := ofZ (Z.of_nat n).
  Lemma ofNat_S n : ofNat (S n) = 1 + ofNat n.
  Proof. unfold ofNat. rewrite Nat2Z.inj_succ, <- Z.add_1_l, ofZ_add, ofZ_1. reflexivity. Qed.
  Lemma ofNat_0 : ofNat 0 = 0. Proof. unfold ofNat. exact ofZ_0. Qed.
  Lemma ofZ_sub a b : ofZ (a - b)%Z = ofZ a - ofZ b.
  Proof. unfold Z.sub. rewrite ofZ_add, ofZ_opp. ring. Qed.

  (** ---- the weighted pattern sums ---------------------------------------------------------- *)
  Variable nl : N -> nat.                       (* label count per compound *)
  Variable w : N -> list bool -> R.             (* weight of an isotopomer *)

  Definition W (cs : list N) (p : list bool) : R :=
    prod (map (fun cq => w (fst cq) (snd cq)) (combine cs (split_label p (map nl cs)))).
  Definition tot (c : N) : R := sum (map (w c) (all_patterns (nl c))).

  Lemma split_label_app q p' n rest :
    length q = n -> split_label (q ++ p') (n :: rest) = q :: split_label p' rest.
  Proof.
    intro H. cbn. rewrite firstn_app, skipn_app, H, Nat.sub_diag, firstn_all2, skipn_all2 by lia.
    cbn. rewrite app_nil_r. reflexivity.
  Qed.

  (** sum over all patterns of the product of weights = product of the totals *)
  Lemma sum_prod_patterns cs :
    sum (map (W cs) (all_patterns (total (map nl cs)))) = prod (map tot cs).
  Proof.
    induction cs as [|c cs IH]; cbn [map total fold_right].
    - cbn [all_patterns]. unfold W. norm. ring.
    - fold (total (map nl cs)). rewrite all_patterns_app, sum_flat_map.
      rewrite (sum_map_ext _ (fun q => w c q * prod (map tot cs))).
      + rewrite sum_map_scale_r. norm. reflexivity.
      + intros q Hq. apply all_patterns_length in Hq. rewrite map_map.
        rewrite (sum_map_ext _ (fun p' => w c q * W cs p')).
        * rewrite sum_map_scale, IH. reflexivity.
        * intros p' _. unfold W. cbn [map]. rewrite split_label_app by exact Hq. norm. reflexivity.
  Qed.

  (** marginal: fix flattened position [h] to "labelled" *)
  Definition bit (p : list bool) (h : nat) : R := if nth h p false then 1 else 0.

  Fixpoint Mrg (cs : list N) (h : nat) : R :=
    match cs with
    | [] => 0
    | c :: r => if Nat.ltb h (nl c)
                then sum (map (fun q => bit q h * w c q) (all_patterns (nl c))) * prod (map tot r)
                else tot c * Mrg r (h - nl c)
    end.

  Lemma marginal_patterns cs h :
    sum (map (fun p => bit p h * W cs p) (all_patterns (total (map nl cs)))) = Mrg cs h.
  Proof.
    revert h. induction cs as [|c cs IH]; intro h; cbn [map total fold_right Mrg].
    - cbn [all_patterns]. unfold W, bit. norm. destruct h; cbn [nth]; ring.
    - fold (total (map nl cs)). rewrite all_patterns_app, sum_flat_map.
      destruct (Nat.ltb h (nl c)) eqn:Hlt.
      + apply Nat.ltb_lt in Hlt.
        rewrite (sum_map_ext _ (fun q => (bit q h * w c q) * prod (map tot cs))).
        * rewrite sum_map_scale_r. reflexivity.
        * intros q Hq. apply all_patterns_length in Hq. rewrite map_map.
          rewrite (sum_map_ext _ (fun p' => (bit q h * w c q) * W cs p')).
          -- rewrite sum_map_scale, sum_prod_patterns. reflexivity.
          -- intros p' _. unfold W at 1. cbn [map]. rewrite split_label_app by exact Hq. norm.
             unfold bit. rewrite app_nth1 by lia. unfold W. ring.
      + apply Nat.ltb_ge in Hlt.
        rewrite (sum_map_ext _ (fun q => w c q * Mrg cs (h - nl c))).
        * rewrite sum_map_scale_r. reflexivity.
        * intros q Hq. apply all_patterns_length in Hq. rewrite map_map.
          rewrite (sum_map_ext _ (fun p' => w c q * (bit p' (h - nl c) * W cs p'))).
          -- rewrite sum_map_scale, IH. reflexivity.
          -- intros p' _. unfold W at 1. cbn [map]. rewrite split_label_app by exact Hq. norm.
             unfold bit. rewrite app_nth2 by lia. rewrite Hq. unfold W. ring.
  Qed.
End Alg.
