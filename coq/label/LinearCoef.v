(** C16, stoichiometric coefficients of magnitude >= 2 (2 A -> B, B -> 2 C) in the linear label mapper.

    - [lin_rxns_x_duplicated] / [build_linear_x_duplicated]   the fact-dispatching model the correspondence runs IS the
                                       model of the theorems while the regenerated expansion fact is ExpDuplicated
    - [keys_only_same_on_unit_coefficients]   the keys-only expansion (seeded change C16-4: iterating the dicts of
                                       _unpack_stoichiometries) builds the SAME reactions whenever every coefficient is +1 / -1:
                                       only a coefficient of magnitude >= 2 (or 0) can tell the two apart
    - [keys_only_refuted]              regression witness: with ExpKeysOnly the one-reaction statement fails for
                                       B(2) -> 2 C(1) (inside the modelled class: no compound twice on the SUBSTRATE side)
    - [enrichment_rate_steady_positional]   the C16 statement for the per-occurrence form of the isotopomer mapper's
                                       renaming block with NO restriction on repeated substrates (homodimers 2 A -> B inside)
    - [enrichment_homodimer_nonvacuous]     2 A(1) -> B(2), map [1;0]: every hypothesis of that statement holds although
                                       A stands twice on the substrate side. *)
From Coq Require Import List ZArith NArith Bool Arith Lia Permutation Ring InitialRing.
From MxlBase Require Import ListX.
From Label Require Import LModel Iso Linear Algebra IsoProofs IsoInitProofs IsoPropsZ LinearProofs LinearProps.
Import ListNotations.

Lemma lin_rxns_x_duplicated dir isos r lmap : lin_rxns_x ExpDuplicated dir isos r lmap = lin_rxns dir isos r lmap.
Proof. reflexivity. Qed.

Lemma build_linear_x_duplicated dir lv lmaps init concs fluxes ext rxns :
  build_linear_x ExpDuplicated dir lv lmaps init concs fluxes ext rxns = build_linear dir lv lmaps init concs fluxes ext rxns.
Proof. reflexivity. Qed.

(** ---- on coefficients +1 / -1 the two expansions coincide -------------------------------------------------- *)
Lemma keys_unit_subs st :
  (forall k v, In (k, v) st -> v = 1%Z \/ v = (-1)%Z) -> subs_keys st = subs_of st.
Proof.
  unfold subs_keys, subs_of. induction st as [|[k v] st IH]; intro H; [reflexivity|].
  cbn [filter flat_map map fst snd].
  assert (IH' := IH (fun k' v' Hin => H k' v' (or_intror Hin))).
  destruct (H k v (or_introl eq_refl)) as [-> | ->]; cbn; change (Pos.to_nat 1) with 1; cbn [repeat app].
  - exact IH'.
  - f_equal. exact IH'.
Qed.

Lemma keys_unit_prods st :
  (forall k v, In (k, v) st -> v = 1%Z \/ v = (-1)%Z) -> prods_keys st = prods_of st.
Proof.
  unfold prods_keys, prods_of. induction st as [|[k v] st IH]; intro H; [reflexivity|].
  cbn [filter flat_map map fst snd].
  assert (IH' := IH (fun k' v' Hin => H k' v' (or_intror Hin))).
  destruct (H k v (or_introl eq_refl)) as [-> | ->]; cbn; change (Pos.to_nat 1) with 1; cbn [repeat app].
  - f_equal. exact IH'.
  - exact IH'.
Qed.

Theorem keys_only_same_on_unit_coefficients dir isos r lmap :
  (forall k v, In (k, v) (r_stoich r) -> v = 1%Z \/ v = (-1)%Z) ->
  lin_rxns_x ExpKeysOnly dir isos r lmap = lin_rxns dir isos r lmap.
Proof.
  intro H. unfold lin_rxns_x, lin_rxns_sides, lin_rxns.
  rewrite (keys_unit_subs _ H), (keys_unit_prods _ H). reflexivity.
Qed.

(** ---- regression witness for the keys-only expansion ---------------------------------------------------------
    B(2 positions) -> 2 C(1 position), rate k*B, identity map [0;1]; pools 1, flux 1; all of B is the isotopomer 01
    (enrichment of B's position 1 is 1), C unlabelled.  The isotopomer mapper produces C__0 + C__1: the enrichment of
    C's only position rises at rate 1.  Iterating the product DICT lists C's position once, so B's position 0 feeds C
    and B's position 1 is sent to EXT: the linear model leaves C's position at rate 0. *)
Definition ko_lv : label_vars := [(1%N, 2); (2%N, 1)].
Definition ko_rxn : brxn := mkBR 40%N FProd [1%N; 20%N] [(1%N, (-1)%Z); (2%N, 2%Z)].
Definition ko_map : list nat := [0; 1].
Definition ko_envI : lname -> Z :=
  fun a => match getL a [(LIso 1%N [false; true], 1%Z); (LIso 2%N [false], 1%Z); (LPlain 20%N, 1%Z)] with
           | Some v => v | None => 0%Z end.
Definition ko_envL : lname -> Z :=
  fun a => match getL a [(LPlain 1%N, 1%Z); (LPlain 2%N, 1%Z); (LPlain 40%N, 1%Z); (LExt, 1%Z); (LPos 1%N 1%Z, 1%Z)] with
           | Some v => v | None => 0%Z end.

Theorem keys_only_refuted :
  forall rk : repl_kind,
  exists (lv : label_vars) (r : brxn) (extra : list N) (mun : list nat) (envI envL : lname -> Z)
         (isos : list (N * list lname)) (irxns lrxns lrxns_dup : list lrxn) (c : N) (i : nat),
    let bs := subs_of (r_stoich r) in let bp := prods_of (r_stoich r) in
    r_fn r = FProd /\ Permutation (r_args r) (bs ++ extra) /\ NoDup (map fst (r_stoich r)) /\ NoDup bs /\
    (forall a, In a extra -> ~ In a bs /\ ~ In a bp /\ nlab lv a = 0 /\ (rk = ReplPositional -> getN a lv = None)) /\
    (forall c, In c (bs ++ bp) -> 0 < nlab lv c) /\
    Permutation mun (seq 0 (Nat.max (total (labels_per lv bs)) (total (labels_per lv bp)))) /\
    create_iso_rxns true rk lv r (map Z.of_nat mun) = Ok irxns /\
    lin_isotopomers lv = Ok isos /\
    lin_rxns_x ExpKeysOnly DirDocumented isos r (map Z.of_nat mun) = Ok lrxns /\
    lin_rxns_x ExpDuplicated DirDocumented isos r (map Z.of_nat mun) = Ok lrxns_dup /\
    (forall c, In c (bs ++ bp) -> envL (LPlain c) = benv Z 0%Z Z.add lv envI c /\ (envL (LPlain c) * idZ (envL (LPlain c)) = 1)%Z) /\
    envL (LPlain (r_name r)) = prodR Z 1%Z Z.mul (map (benv Z 0%Z Z.add lv envI) (r_args r)) /\
    (forall c j, In c bs -> j < nlab lv c ->
       (envL (LPos c (Z.of_nat j)) * envL (LPlain c))%Z = marg Z 0%Z 1%Z Z.add Z.mul envI lv c j) /\
    envL LExt = 1%Z /\
    In c (bs ++ bp) /\ i < nlab lv c /\
    derivZ' envL lrxns (LPos c (Z.of_nat i)) = 0%Z /\
    derivZ' envL lrxns_dup (LPos c (Z.of_nat i)) = 1%Z /\
    (idZ (envL (LPlain c))
     * sumR Z 0%Z Z.add (map (fun bits => bit Z 0%Z 1%Z bits i * derivZ' envI irxns (iso_name c bits)) (all_patterns (nlab lv c))))%Z = 1%Z.
Proof.
  intro rk.
  assert (Hiso : exists irxns, create_iso_rxns true rk ko_lv ko_rxn (map Z.of_nat ko_map) = Ok irxns /\
                   (idZ (ko_envL (LPlain 2%N))
                    * sumR Z 0%Z Z.add (map (fun bits => bit Z 0%Z 1%Z bits 0 * derivZ' ko_envI irxns (iso_name 2%N bits))
                                            (all_patterns (nlab ko_lv 2%N))))%Z = 1%Z).
  { destruct rk; eexists; (split; [vm_compute; reflexivity|vm_compute; reflexivity]). }
  destruct Hiso as [irxns [Hi Hlast]].
  destruct (lin_isotopomers ko_lv) as [isos|] eqn:Hs; [|vm_compute in Hs; discriminate].
  destruct (lin_rxns_x ExpKeysOnly DirDocumented isos ko_rxn (map Z.of_nat ko_map)) as [lrxns|] eqn:Hl;
    [|vm_compute in Hs; inversion Hs; subst isos; vm_compute in Hl; discriminate].
  destruct (lin_rxns_x ExpDuplicated DirDocumented isos ko_rxn (map Z.of_nat ko_map)) as [lrxns_dup|] eqn:Hd;
    [|vm_compute in Hs; inversion Hs; subst isos; vm_compute in Hd; discriminate].
  exists ko_lv, ko_rxn, [20%N], ko_map, ko_envI, ko_envL, isos, irxns, lrxns, lrxns_dup, 2%N, 0.
  cbv zeta.
  vm_compute in Hs. inversion Hs; subst isos. clear Hs.
  vm_compute in Hl. inversion Hl; subst lrxns. clear Hl.
  vm_compute in Hd. inversion Hd; subst lrxns_dup. clear Hd.
  assert (Hrk : (forall a, In a [20%N] -> ~ In a (subs_of (r_stoich ko_rxn)) /\ ~ In a (prods_of (r_stoich ko_rxn)) /\ nlab ko_lv a = 0
                                         /\ (rk = ReplPositional -> getN a ko_lv = None))).
  { intros a [<-|[]]. vm_compute. intuition (try discriminate; try reflexivity). }
  repeat match goal with |- _ /\ _ => split end.
  - reflexivity.
  - vm_compute. apply Permutation_refl.
  - vm_compute. repeat constructor; cbn; intuition (try discriminate; try reflexivity).
  - vm_compute. repeat constructor; cbn; intuition (try discriminate; try reflexivity).
  - exact Hrk.
  - intros c Hc. vm_compute in Hc. destruct Hc as [<-|[<-|[<-|[]]]]; vm_compute; lia.
  - vm_compute. apply Permutation_refl.
  - exact Hi.
  - reflexivity.
  - reflexivity.
  - reflexivity.
  - intros c Hc. vm_compute in Hc. destruct Hc as [<-|[<-|[<-|[]]]]; vm_compute; split; reflexivity.
  - vm_compute. reflexivity.
  - intros c j Hc Hj. vm_compute in Hc. destruct Hc as [<-|[]].
    change (nlab ko_lv 1%N) with 2 in Hj.
    destruct j as [|[|j]]; [vm_compute; reflexivity..|lia].
  - reflexivity.
  - vm_compute. right. left. reflexivity.
  - vm_compute. lia.
  - vm_compute. reflexivity.
  - vm_compute. reflexivity.
  - exact Hlast.
Qed.

(** ---- the per-occurrence form: no restriction on repeated substrates ---------------------------------------- *)
Section Positional.
  Variable R : Type.
  Variables (rO rI : R) (radd rmul rsub : R -> R -> R) (ropp rinv : R -> R) (ofZ : Z -> R).
  Hypothesis Rth : ring_theory rO rI radd rmul rsub ropp eq.
  Hypothesis ofZ_0 : ofZ 0%Z = rO.
  Hypothesis ofZ_1 : ofZ 1%Z = rI.
  Hypothesis ofZ_add : forall a b, ofZ (a + b)%Z = radd (ofZ a) (ofZ b).
  Hypothesis ofZ_opp : forall a, ofZ (- a)%Z = ropp (ofZ a).

  Theorem enrichment_rate_steady_positional :
    forall (lv : label_vars) (rms : list (brxn * list Z)) (envI envL : lname -> R)
           (isos : list (N * list lname)) (irs lrs : list (list lrxn)),
      Forall (fun rm =>
                let r := fst rm in
                let bs := subs_of (r_stoich r) in let bp := prods_of (r_stoich r) in
                exists (extra : list N) (mun : list nat),
                  r_fn r = FProd /\ Permutation (r_args r) (bs ++ extra) /\ NoDup (map fst (r_stoich r)) /\
                  (forall a, In a extra -> ~ In a bs /\ ~ In a bp /\ getN a lv = None) /\
                  (forall c, In c (bs ++ bp) -> O < nlab lv c) /\
                  snd rm = map Z.of_nat mun /\
                  Permutation mun (seq O (Nat.max (total (labels_per lv bs)) (total (labels_per lv bp)))) /\
                  envL (LPlain (r_name r)) = prodR R rI rmul (map (benv R rO radd lv envI) (r_args r))) rms ->
      collect (map (fun rm => create_iso_rxns true ReplPositional lv (fst rm) (snd rm)) rms) = Ok irs ->
      lin_isotopomers lv = Ok isos ->
      collect (map (fun rm => lin_rxns DirDocumented isos (fst rm) (snd rm)) rms) = Ok lrs ->
      (forall c, O < nlab lv c -> envL (LPlain c) = benv R rO radd lv envI c) ->
      (forall c j, j < nlab lv c ->
         rmul (envL (LPos c (Z.of_nat j))) (envL (LPlain c)) = marg R rO rI radd rmul envI lv c j) ->
      envL LExt = rI ->
      forall c i, i < nlab lv c ->
        let P := envL (LPlain c) in
        let m := marg R rO rI radd rmul envI lv c i in
        let dm := sumR R rO radd (map (fun bits => rmul (bit R rO rI bits i)
                                                       (deriv R rO rI radd rmul ropp rinv ofZ envI (concat irs) (iso_name c bits)))
                                      (all_patterns (nlab lv c))) in
        let dP := sumR R rO radd (map (fun bits => deriv R rO rI radd rmul ropp rinv ofZ envI (concat irs) (iso_name c bits))
                                      (all_patterns (nlab lv c))) in
        deriv R rO rI radd rmul ropp rinv ofZ envL (concat lrs) (LPos c (Z.of_nat i)) = rmul (rinv P) dm
        /\ (rmul P (rinv P) = rI -> dP = rO ->
            rmul (deriv R rO rI radd rmul ropp rinv ofZ envL (concat lrs) (LPos c (Z.of_nat i))) (rmul P P)
            = rsub (rmul dm P) (rmul m dP)).
  Proof.
    intros lv rms envI envL isos irs lrs Hwf.
    apply (enrichment_rate_steady R rO rI radd rmul rsub ropp rinv ofZ Rth ofZ_0 ofZ_1 ofZ_add ofZ_opp ReplPositional).
    eapply Forall_impl; [|exact Hwf]. intros rm H. cbv zeta in *.
    destruct H as [extra [mun [Hfn [Hargs [Hnd [Hextra [Hlab [Hmap [Hperm Hflux]]]]]]]]].
    exists extra, mun.
    split; [exact Hfn|]. split; [exact Hargs|]. split; [exact Hnd|]. split; [left; reflexivity|].
    split.
    { intros a Ha. destruct (Hextra a Ha) as [H1 [H2 Hn]]. split; [exact H1|]. split; [exact H2|].
      split; [unfold nlab; rewrite Hn; reflexivity|intros _; exact Hn]. }
    split; [exact Hlab|]. split; [exact Hmap|]. split; [exact Hperm|exact Hflux].
  Qed.
End Positional.

(** non-vacuity for a homodimer: 2 A(1) -> B(2), rate k*A*A, map [1;0]; pool of A = 1 (its one molecule labelled),
    flux = 1*1*1 = 1, B unlabelled with pool 1 *)
Definition hd2_lv : label_vars := [(1%N, 1); (2%N, 2)].
Definition hd2_rxn : brxn := mkBR 40%N FProd [1%N; 1%N; 20%N] [(1%N, (-2)%Z); (2%N, 1%Z)].
Definition hd2_map : list nat := [1; 0].
Definition hd2_envI : lname -> Z :=
  fun a => match getL a [(LIso 1%N [true], 1%Z); (LIso 2%N [false; false], 1%Z); (LPlain 20%N, 1%Z)] with
           | Some v => v | None => 0%Z end.
Definition hd2_envL : lname -> Z :=
  fun a => match getL a [(LPlain 1%N, 1%Z); (LPlain 2%N, 1%Z); (LPlain 40%N, 1%Z); (LExt, 1%Z); (LPos 1%N 0%Z, 1%Z)] with
           | Some v => v | None => 0%Z end.

Example enrichment_homodimer_nonvacuous :
  let rms := [(hd2_rxn, map Z.of_nat hd2_map)] in
  ~ NoDup (subs_of (r_stoich hd2_rxn)) /\
  Forall (fun rm =>
            let r := fst rm in
            let bs := subs_of (r_stoich r) in let bp := prods_of (r_stoich r) in
            exists (extra : list N) (mun : list nat),
              r_fn r = FProd /\ Permutation (r_args r) (bs ++ extra) /\ NoDup (map fst (r_stoich r)) /\
              (forall a, In a extra -> ~ In a bs /\ ~ In a bp /\ getN a hd2_lv = None) /\
              (forall c, In c (bs ++ bp) -> O < nlab hd2_lv c) /\
              snd rm = map Z.of_nat mun /\
              Permutation mun (seq O (Nat.max (total (labels_per hd2_lv bs)) (total (labels_per hd2_lv bp)))) /\
              hd2_envL (LPlain (r_name r)) = prodR Z 1%Z Z.mul (map (benv Z 0%Z Z.add hd2_lv hd2_envI) (r_args r))) rms /\
  (exists irs, collect (map (fun rm => create_iso_rxns true ReplPositional hd2_lv (fst rm) (snd rm)) rms) = Ok irs /\ length (concat irs) = 4) /\
  (exists isos lrs, lin_isotopomers hd2_lv = Ok isos /\
                    collect (map (fun rm => lin_rxns DirDocumented isos (fst rm) (snd rm)) rms) = Ok lrs /\ length (concat lrs) = 2) /\
  (forall c, O < nlab hd2_lv c -> hd2_envL (LPlain c) = benv Z 0%Z Z.add hd2_lv hd2_envI c) /\
  (forall c j, j < nlab hd2_lv c ->
     (hd2_envL (LPos c (Z.of_nat j)) * hd2_envL (LPlain c))%Z = marg Z 0%Z 1%Z Z.add Z.mul hd2_envI hd2_lv c j) /\
  hd2_envL LExt = 1%Z /\
  (* and the conclusion is not trivial there: A's position is drained at rate -2 (both copies), B's position 1 gains 1 *)
  (forall isos lrs, lin_isotopomers hd2_lv = Ok isos ->
                    collect (map (fun rm => lin_rxns DirDocumented isos (fst rm) (snd rm)) rms) = Ok lrs ->
                    derivZ' hd2_envL (concat lrs) (LPos 1%N 0%Z) = (-2)%Z /\ derivZ' hd2_envL (concat lrs) (LPos 2%N 1%Z) = 1%Z).
Proof.
  cbv zeta. repeat match goal with |- _ /\ _ => split end.
  - vm_compute. intro H. inversion H as [|x l Hn _]. apply Hn. left. reflexivity.
  - constructor; [|constructor]. cbv zeta. exists [20%N], hd2_map.
    repeat match goal with |- _ /\ _ => split end.
    + reflexivity.
    + vm_compute. apply Permutation_refl.
    + vm_compute. repeat constructor; cbn; intuition (try discriminate; try reflexivity).
    + intros a [<-|[]]. vm_compute. intuition (try discriminate; try reflexivity).
    + intros c Hc. vm_compute in Hc. destruct Hc as [<-|[<-|[<-|[]]]]; vm_compute; lia.
    + reflexivity.
    + vm_compute. apply perm_swap.
    + vm_compute. reflexivity.
  - eexists. split; [vm_compute; reflexivity|reflexivity].
  - eexists. eexists. split; [vm_compute; reflexivity|]. split; [vm_compute; reflexivity|reflexivity].
  - intros c Hc. unfold nlab, getN, hd2_lv in Hc. cbn [dict_get] in Hc.
    destruct (N.eq_dec c 1) as [->|H1]; [vm_compute; reflexivity|].
    destruct (N.eq_dec c 2) as [->|H2]; [vm_compute; reflexivity|lia].
  - intros c j Hj. unfold nlab, getN, hd2_lv in Hj. cbn [dict_get] in Hj.
    destruct (N.eq_dec c 1) as [->|H1].
    + destruct j as [|j]; [vm_compute; reflexivity|lia].
    + destruct (N.eq_dec c 2) as [->|H2]; [|lia].
      destruct j as [|[|j]]; [vm_compute; reflexivity..|lia].
  - reflexivity.
  - intros isos lrs Hs Hl. vm_compute in Hs. inversion Hs; subst isos. vm_compute in Hl. inversion Hl; subst lrs.
    split; vm_compute; reflexivity.
Qed.

Print Assumptions keys_only_same_on_unit_coefficients.
Print Assumptions keys_only_refuted.
Print Assumptions enrichment_rate_steady_positional.
Print Assumptions enrichment_homodimer_nonvacuous.
