(** Executable model of src/mxlpy/linear_label_map.py (LinearLabelMapper.build_model).

    _generate_isotope_labels           [gen_positions]   (ValueError for a count <= 0)
    _unpack_stoichiometries + _stoichiometry_to_duplicate_list
                                       [Iso.subs_of] / [Iso.prods_of] (same expansion, dict order)
    isotopomers[i] for i in subs       [positions_of_all] (KeyError for an unlabelled compound)
    _add_label_influx_or_efflux        [pad_ext]          (EXT padding, ValueError for a short map)
    _map_substrates_to_labelmap        [map_to_labelmap]: the READING DIRECTION is a regenerated fact
        DirInverse     res[pos] = substrate  for (substrate, pos) in zip(substrates, labelmap, strict)
        DirDocumented  [subs[i] for i in labelmap]   (product position i <- substrate position map[i])
    per-position reactions             [lin_loop]        (skip substrate == product; -1/pool, +1/pool)  *)
From Coq Require Import List ZArith NArith Bool Arith Lia QArith.
From MxlBase Require Import ListX.
From Label Require Import LModel Iso.
Import ListNotations.

Inductive direction := DirInverse | DirDocumented | DirUnknown.

Definition gen_positions (c : N) (n : nat) : result (list lname) :=
  match n with
  | O => Err ErrValue
  | _ => Ok (map (fun i => LPos c (Z.of_nat i)) (seq 0 n))
  end.

Definition lin_isotopomers (lv : label_vars) : result (list (N * list lname)) :=
  collect (map (fun cn => bind (gen_positions (fst cn) (snd cn)) (fun l => Ok (fst cn, l))) lv).

Definition positions_of_all (isos : list (N * list lname)) (cs : list N) : result (list lname) :=
  bind (collect (map (fun c => match getN c isos with Some l => Ok l | None => Err ErrKey end) cs))
       (fun ls => Ok (concat ls)).

Definition pad_ext (subs prods : list lname) (lmap : list Z) : result (list lname * list lname) :=
  let prods1 := prods ++ repeat LExt (length subs - length prods) in
  let subs1 := subs ++ repeat LExt (length prods1 - length subs) in
  if Nat.ltb (length lmap) (length subs1) then Err ErrValue else Ok (subs1, prods1).

(** res[pos] = substrate over zip(substrates, labelmap, strict=True) *)
Fixpoint inverse_loop (subs : list lname) (lmap : list Z) (res : list lname) : result (list lname) :=
  match subs, lmap with
  | [], [] => Ok res
  | s :: ss, p :: ps =>
    match py_set res p s with
    | None => Err ErrIndex
    | Some res' => inverse_loop ss ps res'
    end
  | _, _ => Err ErrValue
  end.

Definition map_to_labelmap (dir : direction) (subs prods : list lname) (lmap : list Z) : result (list lname) :=
  match dir with
  | DirInverse => inverse_loop subs lmap (repeat LExt (length subs))
  | DirDocumented =>
    match mapM (py_index subs) lmap with
    | None => Err ErrIndex
    | Some subs' => if Nat.eqb (length subs') (length prods) then Ok subs' else Err ErrValue
    end
  | DirUnknown => Err ErrName
  end.

Definition compound_of (x : lname) : lname :=
  match x with LPos c _ => LPlain c | LIso c _ => LPlain c | _ => x end.

Fixpoint lin_loop (rn : N) (i : Z) (subs prods : list lname) : list lrxn :=
  match subs, prods with
  | s :: ss, p :: ps =>
    (if lname_eq_dec s p then []
     else [mkLR (LPos rn i) FProd [s; LPlain rn]
                ((match s with LExt => [] | _ => [(s, CDer FNegOneDiv [compound_of s])] end)
                 ++ (match p with LExt => [] | _ => [(p, CDer FOneDiv [compound_of p])] end))])
    ++ lin_loop rn (i + 1) ss ps
  | _, _ => []
  end.

Definition lin_rxns (dir : direction) (isos : list (N * list lname)) (r : brxn) (lmap : list Z)
  : result (list lrxn) :=
  bind (positions_of_all isos (subs_of (r_stoich r))) (fun subs =>
  bind (positions_of_all isos (prods_of (r_stoich r))) (fun prods =>
  bind (pad_ext subs prods lmap) (fun sp =>
  bind (map_to_labelmap dir (fst sp) (snd sp) lmap) (fun subs' =>
  Ok (lin_loop (r_name r) 0 subs' (snd sp)))))).

(** initial label: variables[f"{base}__{pos}"] = 1 / len(positions) *)
Definition lin_init_step (vars : list (lname * Q)) (ci : N * ilabel) : list (lname * Q) :=
  let pos := positions_of (snd ci) in
  fold_left (fun d p => setL (LPos (fst ci) p) (1 # Pos.of_nat (length pos))%Q d) pos vars.

Definition build_linear (dir : direction) (lv : label_vars) (lmaps : label_maps) (init : option init_labels)
           (concs fluxes : list (N * Q)) (ext : Q) (rxns : list brxn) : result (lmodel Q) :=
  bind (lin_isotopomers lv) (fun isos =>
  let vars0 := flat_map (fun ci => map (fun k => (k, 0%Q)) (snd ci)) isos in
  let vars := match init with None => vars0 | Some il => fold_left lin_init_step il vars0 end in
  let params := dict_update lname_eq_dec []
                  (map (fun kv => (LPlain (fst kv), snd kv)) concs
                   ++ map (fun kv => (LPlain (fst kv), snd kv)) fluxes ++ [(LExt, ext)]) in
  bind (collect (map (fun nm =>
          match find (fun r => N.eqb (r_name r) (fst nm)) rxns with
          | None => Err ErrKey
          | Some r => lin_rxns dir isos r (snd nm)
          end) lmaps))
       (fun rs => Ok (mkLM params vars [] (concat rs)))).

(** ---- facts regenerated from the source on every run (GenLabelFacts.v) ----------------------- *)
Inductive iso_dir_kind := IsoDocumented | IsoUnknown.       (* rate_suffix[i] for i in labelmap *)
Inductive short_check_kind := ShortLt0 | ShortUnknown.      (* len(labelmap) - total_substrate_labels < 0 -> ValueError *)
(* [repl_kind] (form of the rate-argument renaming block) is defined in Iso.v *)
Record label_facts := mkLabelFacts {
  f_iso_dir : iso_dir_kind;
  f_ext_bit : option bool;          (* character appended for external positions: Some true = "1" *)
  f_short : short_check_kind;
  f_repl : repl_kind;
  f_iso_helpers : bool;             (* the small helpers of label_map.py have the modelled shape *)
  f_lin_dir : direction;            (* reading direction used by LinearLabelMapper.build_model *)
  f_lin_helpers : bool;             (* the helpers / loop of linear_label_map.py have the modelled shape *)
  f_init_name : init_name_kind      (* name that receives the amount of an initially labelled compound *)
}.
Definition ext_bit_of (f : label_facts) : bool := match f_ext_bit f with Some b => b | None => false end.
