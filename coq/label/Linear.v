(** Executable model of src/mxlpy/linear_label_map.py (LinearLabelMapper.build_model).

    _generate_isotope_labels           [gen_positions]   (ValueError for a count <= 0)
    _unpack_stoichiometries + _stoichiometry_to_duplicate_list
                                       [Iso.subs_of] / [Iso.prods_of] (same expansion, dict order)
    isotopomers[i] for i in subs       [positions_of_all] (KeyError for an unlabelled compound)
    _add_label_influx_or_efflux        [pad_ext]          (EXT padding, ValueError for a short map)
    _map_substrates_to_labelmap        [map_to_labelmap]: the READING DIRECTION is a regenerated fact
        DirInverse     res[pos] = substrate  for (substrate, pos) in zip(substrates, labelmap, strict)
        DirDocumented  [subs[i] for i in labelmap]   (product position i <- substrate position map[i])
    per-position reactions             [lin_loop]        (skip substrate == product; -1/pool, +1/pool)
    HOW the {compound: coefficient} dicts become lists of compounds is a regenerated fact ([expand_kind]):
        ExpDuplicated  _stoichiometry_to_duplicate_list: a coefficient k gives k copies ([Iso.subs_of] / [Iso.prods_of])
        ExpKeysOnly    iterating the dicts themselves (the change seeded as C16-4): every compound ONCE whatever its
                       coefficient ([subs_keys] / [prods_keys]; a zero coefficient is a key of the product dict)
      [lin_rxns] is the ExpDuplicated form (all theorems are about it); [lin_rxns_x] dispatches on the fact and is what
      the correspondence check runs.  *)
From Coq Require Import List ZArith NArith Bool Arith Lia QArith.
From MxlBase Require Import ListX.
From Label Require Import LModel Iso.
Import ListNotations.

Inductive direction := DirInverse | DirDocumented | DirUnknown.

Definition gen_positions (c : N) (n : nat) : result (list lname) :=
  match n with
  | O => Err ErrValue
  | _ => Ok (map (fun i => LPos c (Z.of_nat i)) (seq 0 n))
  end.

Definition lin_isotopomers (lv : label_vars) : result (list (N * list lname)) :=
  collect (map (fun cn => bind (gen_positions (fst cn) (snd cn)) (fun l => Ok (fst cn, l))) lv).

Definition positions_of_all (isos : list (N * list lname)) (cs : list N) : result (list lname) :=
  bind (collect (map (fun c => match getN c isos with Some l => Ok l | None => Err ErrKey end) cs))
       (fun ls => Ok (concat ls)).

Definition pad_ext (subs prods : list lname) (lmap : list Z) : result (list lname * list lname) :=
  let prods1 := prods ++ repeat LExt (length subs - length prods) in
  let subs1 := subs ++ repeat LExt (length prods1 - length subs) in
  if Nat.ltb (length lmap) (length subs1) then Err ErrValue else Ok (subs1, prods1).

(** res[pos] = substrate over zip(substrates, labelmap, strict=True) *)
Fixpoint inverse_loop (subs : list lname) (lmap : list Z) (res : list lname) : result (list lname) :=
  match subs, lmap with
  | [], [] => Ok res
  | s :: ss, p :: ps =>
    match py_set res p s with
    | None => Err ErrIndex
    | Some res' => inverse_loop ss ps res'
    end
  | _, _ => Err ErrValue
  end.

Definition map_to_labelmap (dir : direction) (subs prods : list lname) (lmap : list Z) : result (list lname) :=
  match dir with
  | DirInverse => inverse_loop subs lmap (repeat LExt (length subs))
  | DirDocumented =>
    match mapM (py_index subs) lmap with
    | None => Err ErrIndex
    | Some subs' => if Nat.eqb (length subs') (length prods) then Ok subs' else Err ErrValue
    end
  | DirUnknown => Err ErrName
  end.

Definition compound_of (x : lname) : lname :=
  match x with LPos c _ => LPlain c | LIso c _ => LPlain c | _ => x end.

Fixpoint lin_loop (rn : N) (i : Z) (subs prods : list lname) : list lrxn :=
  match subs, prods with
  | s :: ss, p :: ps =>
    (if lname_eq_dec s p then []
     else [mkLR (LPos rn i) FProd [s; LPlain rn]
                ((match s with LExt => [] | _ => [(s, CDer FNegOneDiv [compound_of s])] end)
                 ++ (match p with LExt => [] | _ => [(p, CDer FOneDiv [compound_of p])] end))])
    ++ lin_loop rn (i + 1) ss ps
  | _, _ => []
  end.

Definition lin_rxns (dir : direction) (isos : list (N * list lname)) (r : brxn) (lmap : list Z)
  : result (list lrxn) :=
  bind (positions_of_all isos (subs_of (r_stoich r))) (fun subs =>
  bind (positions_of_all isos (prods_of (r_stoich r))) (fun prods =>
  bind (pad_ext subs prods lmap) (fun sp =>
  bind (map_to_labelmap dir (fst sp) (snd sp) lmap) (fun subs' =>
  Ok (lin_loop (r_name r) 0 subs' (snd sp)))))).

(** ---- the expansion of the stoichiometry dicts as a fact ---- *)
Inductive expand_kind := ExpDuplicated | ExpKeysOnly | ExpUnknown.

(** keys of the dicts returned by _unpack_stoichiometries: v < 0 -> substrates, everything else (0 included) -> products *)
Definition subs_keys (st : list (N * Z)) : list N := map fst (filter (fun kv => (snd kv <? 0)%Z) st).
Definition prods_keys (st : list (N * Z)) : list N := map fst (filter (fun kv => negb (snd kv <? 0)%Z) st).

(** [lin_rxns] with the compound lists [bs] / [bp] given *)
Definition lin_rxns_sides (dir : direction) (isos : list (N * list lname)) (rn : N) (bs bp : list N) (lmap : list Z)
  : result (list lrxn) :=
  bind (positions_of_all isos bs) (fun subs =>
  bind (positions_of_all isos bp) (fun prods =>
  bind (pad_ext subs prods lmap) (fun sp =>
  bind (map_to_labelmap dir (fst sp) (snd sp) lmap) (fun subs' =>
  Ok (lin_loop rn 0 subs' (snd sp)))))).

Definition lin_rxns_x (ek : expand_kind) (dir : direction) (isos : list (N * list lname)) (r : brxn) (lmap : list Z)
  : result (list lrxn) :=
  match ek with
  | ExpDuplicated => lin_rxns dir isos r lmap
  | ExpKeysOnly => lin_rxns_sides dir isos (r_name r) (subs_keys (r_stoich r)) (prods_keys (r_stoich r)) lmap
  | ExpUnknown => Err ErrName
  end.

(** initial label: variables[f"{base}__{pos}"] = 1 / len(positions) *)
Definition lin_init_step (vars : list (lname * Q)) (ci : N * ilabel) : list (lname * Q) :=
  let pos := positions_of (snd ci) in
  fold_left (fun d p => setL (LPos (fst ci) p) (1 # Pos.of_nat (length pos))%Q d) pos vars.

(** build_model with the per-reaction translation [per_rxn] left open ([lin_rxns dir] in every theorem) *)
Definition build_linear_with (per_rxn : list (N * list lname) -> brxn -> list Z -> result (list lrxn))
           (lv : label_vars) (lmaps : label_maps) (init : option init_labels)
           (concs fluxes : list (N * Q)) (ext : Q) (rxns : list brxn) : result (lmodel Q) :=
  bind (lin_isotopomers lv) (fun isos =>
  let vars0 := flat_map (fun ci => map (fun k => (k, 0%Q)) (snd ci)) isos in
  let vars := match init with None => vars0 | Some il => fold_left lin_init_step il vars0 end in
  let params := dict_update lname_eq_dec []
                  (map (fun kv => (LPlain (fst kv), snd kv)) concs
                   ++ map (fun kv => (LPlain (fst kv), snd kv)) fluxes ++ [(LExt, ext)]) in
  bind (collect (map (fun nm =>
          match find (fun r => N.eqb (r_name r) (fst nm)) rxns with
          | None => Err ErrKey
          | Some r => per_rxn isos r (snd nm)
          end) lmaps))
       (fun rs => Ok (mkLM params vars [] (concat rs)))).

Definition build_linear (dir : direction) := build_linear_with (lin_rxns dir).
(** what the correspondence check runs: the expansion follows the regenerated fact *)
Definition build_linear_x (ek : expand_kind) (dir : direction) := build_linear_with (lin_rxns_x ek dir).

(** ---- facts regenerated from the source on every run (GenLabelFacts.v) ----------------------- *)
Inductive iso_dir_kind := IsoDocumented | IsoUnknown.       (* rate_suffix[i] for i in labelmap *)
Inductive short_check_kind := ShortLt0 | ShortUnknown.      (* len(labelmap) - total_substrate_labels < 0 -> ValueError *)
(* [repl_kind] (form of the rate-argument renaming block) is defined in Iso.v *)
Record label_facts := mkLabelFacts {
  f_iso_dir : iso_dir_kind;
  f_ext_bit : option bool;          (* character appended for external positions: Some true = "1" *)
  f_short : short_check_kind;
  f_repl : repl_kind;
  f_iso_helpers : bool;             (* the small helpers of label_map.py have the modelled shape *)
  f_lin_dir : direction;            (* reading direction used by LinearLabelMapper.build_model *)
  f_lin_helpers : bool;             (* the helpers / loop of linear_label_map.py have the modelled shape *)
  f_init_name : init_name_kind;     (* name that receives the amount of an initially labelled compound *)
  f_lin_expand : expand_kind        (* how build_model expands the stoichiometry dicts into compound lists *)
}.
Definition ext_bit_of (f : label_facts) : bool := match f_ext_bit f with Some b => b | None => false end.
