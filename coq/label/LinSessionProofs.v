(** Proofs about histories of operations on ONE LinearLabelMapper (model: LinSession.v).

    [session_none_fresh]        the tree ([CacheNone]): for EVERY history of edits and builds, every `build_model` call answers
                                like a fresh mapper holding the field values of that moment, and builds never write the fields
    [build_linear_split]        `build_model` = (variables, parameters from the call) + (transfers from counts, maps, network)
    [aliased_unedited_fresh]    the seeded shape ([CacheAliased]): edits BEFORE the first build and any number of builds after
                                it (other steady states, other initial labels) are answered like fresh builds
    [aliased_in_place_refuted]  ... but one in-place edit after a build is not seen: witness on the regression 3-cycle net *)
From Coq Require Import List ZArith NArith Bool Arith QArith Lia.
From MxlBase Require Import ListX.
From Label Require Import LModel Iso Linear LinSession Exec.
Import ListNotations.

Lemma build_linear_split :
  forall (per : per_rxn_t) lv lmaps a rxns,
    build_linear_a per lv lmaps a rxns = build_linear_from lv a (lin_transfers per lv lmaps rxns).
Proof.
  intros per lv lmaps a rxns.
  unfold build_linear_a, build_linear_with, build_linear_from, lin_transfers.
  destruct (lin_isotopomers lv) as [isos|e]; cbn [bind]; [|reflexivity].
  match goal with |- context [collect ?X] => destruct (collect X) as [rs|e] end; reflexivity.
Qed.

Theorem session_none_fresh :
  forall (per : per_rxn_t) (rxns : list brxn) (ops : list lin_op) (mp : mapper),
    fst (lin_session CacheNone per rxns mp ops) = fresh_builds per rxns (mp_lv mp) (mp_maps mp) ops /\
    (mp_lv (snd (lin_session CacheNone per rxns mp ops)), mp_maps (snd (lin_session CacheNone per rxns mp ops)))
    = fields_after (mp_lv mp) (mp_maps mp) ops.
Proof.
  intros per rxns ops.
  induction ops as [|op ops IH]; intros mp; [split; reflexivity|].
  unfold fields_after in *.
  destruct op; cbn [lin_session mp_step fresh_builds fold_left edit_fields fst snd];
    match goal with |- context [lin_session CacheNone per rxns ?m ops] =>
      specialize (IH m); destruct (lin_session CacheNone per rxns m ops) as [outs mp2] end;
    cbn [fst snd mp_lv mp_maps] in *; destruct IH as [IH1 IH2]; split; try exact IH2; rewrite IH1; reflexivity.
Qed.

(** ---- the seeded shape ---- *)
Definition cache_ok (per : per_rxn_t) (rxns : list brxn) (mp : mapper) : Prop :=
  match mp_tr mp with
  | None => True
  | Some t => lin_transfers per (mp_lv mp) (mp_maps mp) rxns = Ok t /\ mp_src_lv mp = None /\ mp_src_maps mp = None
  end.

Lemma aliased_builds_only :
  forall (per : per_rxn_t) (rxns : list brxn) (ops : list lin_op) (mp : mapper),
    forallb is_build ops = true -> cache_ok per rxns mp ->
    fst (lin_session CacheAliased per rxns mp ops) = fresh_builds per rxns (mp_lv mp) (mp_maps mp) ops.
Proof.
  intros per rxns ops.
  induction ops as [|op ops IH]; intros mp Hb Hok; [reflexivity|].
  cbn [forallb] in Hb. apply andb_true_iff in Hb. destruct Hb as [Hop Hb].
  destruct op as [a| | | |]; try discriminate Hop.
  cbn [lin_session mp_step fresh_builds].
  unfold cache_ok in Hok. unfold cache_hit.
  destruct mp as [lv lmaps tr slv smaps]. cbn [mp_tr mp_lv mp_maps mp_src_lv mp_src_maps] in *.
  destruct tr as [t|].
  - destruct Hok as [Ht [-> ->]]. cbn [andb].
    specialize (IH (mkMp lv lmaps (Some t) None None) Hb).
    destruct (lin_session CacheAliased per rxns (mkMp lv lmaps (Some t) None None) ops) as [outs mp2].
    cbn [fst snd mp_lv mp_maps] in *. rewrite IH by (unfold cache_ok; cbn; auto).
    rewrite build_linear_split, Ht. reflexivity.
  - destruct (lin_transfers per lv lmaps rxns) as [t|e] eqn:Ht.
    + specialize (IH (mkMp lv lmaps (Some t) None None) Hb).
      destruct (lin_session CacheAliased per rxns (mkMp lv lmaps (Some t) None None) ops) as [outs mp2].
      cbn [fst snd mp_lv mp_maps] in *. rewrite IH by (unfold cache_ok; cbn; auto).
      rewrite build_linear_split, Ht. reflexivity.
    + specialize (IH (mkMp lv lmaps None slv smaps) Hb).
      destruct (lin_session CacheAliased per rxns (mkMp lv lmaps None slv smaps) ops) as [outs mp2].
      cbn [fst snd mp_lv mp_maps] in *. rewrite IH by (unfold cache_ok; cbn; auto).
      rewrite build_linear_split, Ht. reflexivity.
Qed.

Theorem aliased_unedited_fresh :
  forall (per : per_rxn_t) (rxns : list brxn) (edits builds : list lin_op) (mp : mapper),
    mp_tr mp = None ->
    forallb (fun op => negb (is_build op)) edits = true -> forallb is_build builds = true ->
    fst (lin_session CacheAliased per rxns mp (edits ++ builds))
    = fresh_builds per rxns (mp_lv mp) (mp_maps mp) (edits ++ builds).
Proof.
  intros per rxns edits builds.
  induction edits as [|op edits IH]; intros mp Hn He Hb.
  - cbn [app]. apply aliased_builds_only; [exact Hb|]. unfold cache_ok. rewrite Hn. exact I.
  - cbn [forallb] in He. apply andb_true_iff in He. destruct He as [Hop He].
    destruct mp as [lv lmaps tr slv smaps]. cbn [mp_tr] in Hn. subst tr.
    destruct op; try discriminate Hop;
      cbn [app lin_session mp_step fresh_builds edit_fields fst snd mp_lv mp_maps mp_tr mp_src_lv mp_src_maps];
      match goal with |- context [lin_session CacheAliased per rxns ?m (edits ++ builds)] =>
        specialize (IH m eq_refl He Hb); destruct (lin_session CacheAliased per rxns m (edits ++ builds)) as [outs mp2] end;
      cbn [fst snd mp_lv mp_maps] in *; exact IH.
Qed.

(** ---- witness: the regression 3-cycle net, -> A(3) -> B(3) ->, identity maps; then `label_maps[v41] = [1, 2, 0]` ---- *)
Definition sw_rxns : list brxn :=
  [mkBR 40%N FProd [20%N] [(1%N, 1%Z)];
   mkBR 41%N FProd [1%N; 21%N] [(1%N, (-1)%Z); (2%N, 1%Z)];
   mkBR 42%N FProd [2%N; 22%N] [(2%N, (-1)%Z)]].
Definition sw_lv : label_vars := [(1%N, 3%nat); (2%N, 3%nat)].
Definition sw_maps : label_maps := [(40%N, [0; 1; 2]%Z); (41%N, [0; 1; 2]%Z); (42%N, [0; 1; 2]%Z)].
Definition sw_args : build_args :=
  mkBA None [(1%N, 1%Q); (2%N, 1%Q)] [(40%N, 1%Q); (41%N, 1%Q); (42%N, 1%Q)] 1%Q.
Definition sw_ops : list lin_op := [LBuild sw_args; LSetMap 41%N [1; 2; 0]%Z; LBuild sw_args].
(** enrichment 1 at A's position 0, nothing else labelled *)
Definition sw_state : list (lname * Q) :=
  [(LPos 1%N 0%Z, 1%Q); (LPos 1%N 1%Z, 0%Q); (LPos 1%N 2%Z, 0%Q);
   (LPos 2%N 0%Z, 0%Q); (LPos 2%N 1%Z, 0%Q); (LPos 2%N 2%Z, 0%Q)].

Theorem aliased_in_place_refuted :
  exists (lin1 lin2 fresh2 : lmodel Q),
    fst (lin_session CacheAliased (lin_rxns DirDocumented) sw_rxns (new_mapper sw_lv sw_maps) sw_ops) = [Ok lin1; Ok lin2] /\
    fresh_builds (lin_rxns DirDocumented) sw_rxns sw_lv sw_maps sw_ops = [Ok lin1; Ok fresh2] /\
    lin2 = lin1 /\ lm_rxns lin2 <> lm_rxns fresh2 /\
    (* d/dt of A0 A1 A2 B0 B1 B2: the current map sends A's position 0 to B's position 2, the stale model to position 0 *)
    rhs_exec (fun q => q) fresh2 sw_state = Some [0; 1; 1; 0; 0; 1]%Q /\
    rhs_exec (fun q => q) lin2 sw_state = Some [0; 1; 1; 1; 0; 0]%Q.
Proof.
  destruct (lin_session CacheAliased (lin_rxns DirDocumented) sw_rxns (new_mapper sw_lv sw_maps) sw_ops) as [outs mp] eqn:Hs.
  vm_compute in Hs. inversion Hs as [[Ho Hm]]. clear Hs Hm.
  destruct (fresh_builds (lin_rxns DirDocumented) sw_rxns sw_lv sw_maps sw_ops) as [|f1 fs] eqn:Hf; [vm_compute in Hf; discriminate|].
  vm_compute in Hf. inversion Hf as [[Hf1 Hf2]]. clear Hf.
  eexists. eexists. eexists.
  split; [reflexivity|]. split; [reflexivity|]. split; [reflexivity|].
  split; [intros H; vm_compute in H; discriminate H|].
  split; vm_compute; reflexivity.
Qed.
