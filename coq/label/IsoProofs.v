(** Proofs about the isotopomer mapper model (Iso.v): structure of the generated reactions (C05),
    collapse of stoichiometries and of mass-action dynamics, in an arbitrary commutative ring. *)
From Coq Require Import List ZArith NArith Bool Arith Lia Permutation Ring.
From MxlBase Require Import ListX.
From Label Require Import LModel Iso Algebra.
Import ListNotations.

(** ---- generic list / option / result lemmas ------------------------------------------------ *)
Lemma collect_map_ok {A B} (f : A -> result B) l ys :
  collect (map f l) = Ok ys -> Forall2 (fun x y => f x = Ok y) l ys.
Proof.
  revert ys. induction l as [|x l IH]; intros ys H; cbn in H.
  - inversion H. constructor.
  - destruct (f x) as [y|e] eqn:Hf; [|discriminate].
    destruct (collect (map f l)) as [ys'|e] eqn:Hc; [|discriminate].
    inversion H; subst ys. constructor; [exact Hf|apply IH; reflexivity].
Qed.

Lemma collect_map_err {A B} (f : A -> result B) l x e :
  In x l -> f x = Err e -> exists e', collect (map f l) = Err e'.
Proof.
  induction l as [|y l IH]; intros Hin Hf; [destruct Hin|]. cbn.
  destruct Hin as [->|Hin].
  - rewrite Hf. eexists. reflexivity.
  - destruct (f y); [|eexists; reflexivity].
    destruct (IH Hin Hf) as [e' ->]. eexists. reflexivity.
Qed.

Lemma mapM_length {A B} (f : A -> option B) l ys : mapM f l = Some ys -> length ys = length l.
Proof.
  revert ys. induction l as [|x l IH]; intros ys H; cbn in H.
  - inversion H. reflexivity.
  - destruct (f x); [|discriminate]. destruct (mapM f l) as [ys'|]; [|discriminate].
    inversion H. cbn. f_equal. apply IH. reflexivity.
Qed.

Lemma mapM_nth_error {A B} (f : A -> option B) l ys i x :
  mapM f l = Some ys -> nth_error l i = Some x -> nth_error ys i = f x.
Proof.
  revert ys i. induction l as [|y l IH]; intros ys i H Hn; cbn in H.
  - destruct i; discriminate.
  - destruct (f y) as [b|] eqn:Hf; [|discriminate]. destruct (mapM f l) as [ys'|] eqn:Hm; [|discriminate].
    inversion H; subst ys. destruct i; cbn in *.
    + inversion Hn; subst. symmetry. exact Hf.
    + apply IH; [reflexivity|exact Hn].
Qed.

Lemma Forall2_impl {A B} (P Q : A -> B -> Prop) l l' :
  (forall x y, P x y -> Q x y) -> Forall2 P l l' -> Forall2 Q l l'.
Proof. intros H. induction 1; constructor; auto. Qed.

Lemma Forall2_map_eq {A B} (g : A -> B) l ys : Forall2 (fun x y => g x = y) l ys -> ys = map g l.
Proof. induction 1 as [|x y l ys H _ IH]; cbn; [reflexivity|]. rewrite H, IH. reflexivity. Qed.

(** ---- Python dict lemmas ------------------------------------------------------------------------ *)
Section DictLemmas.
  Context {K V : Type}.
  Variable eqd : forall a b : K, {a = b} + {a <> b}.

  Lemma dict_get_set k k' (v : V) (d : list (K * V)) :
    dict_get eqd k (dict_set eqd k' v d) = if eqd k k' then Some v else dict_get eqd k d.
  Proof.
    induction d as [|[k0 v0] d IH]; cbn.
    - destruct (eqd k k'); reflexivity.
    - destruct (eqd k' k0) as [->|Hne]; cbn.
      + destruct (eqd k k0); reflexivity.
      + destruct (eqd k k0) as [->|Hne2].
        * destruct (eqd k0 k') as [->|]; [contradiction|reflexivity].
        * exact IH.
  Qed.

  Lemma dict_update_snoc (d pairs : list (K * V)) kv :
    dict_update eqd d (pairs ++ [kv]) = dict_set eqd (fst kv) (snd kv) (dict_update eqd d pairs).
  Proof. unfold dict_update. rewrite fold_left_app. reflexivity. Qed.

  Lemma dict_update_notin k (d pairs : list (K * V)) :
    ~ In k (map fst pairs) -> dict_get eqd k (dict_update eqd d pairs) = dict_get eqd k d.
  Proof.
    induction pairs as [|kv pairs IH] using rev_ind; intro Hn; [reflexivity|].
    rewrite dict_update_snoc, dict_get_set. rewrite map_app, in_app_iff in Hn. cbn in Hn.
    destruct (eqd k (fst kv)) as [->|Hne]; [exfalso; apply Hn; right; left; reflexivity|].
    apply IH. intro H. apply Hn. left. exact H.
  Qed.

  Lemma dict_update_in k v (d pairs : list (K * V)) :
    NoDup (map fst pairs) -> In (k, v) pairs -> dict_get eqd k (dict_update eqd d pairs) = Some v.
  Proof.
    induction pairs as [|kv pairs IH] using rev_ind; intros Hnd Hin; [destruct Hin|].
    rewrite dict_update_snoc, dict_get_set. rewrite map_app in Hnd. cbn in Hnd.
    apply in_app_or in Hin. destruct Hin as [Hin|[Hkv|[]]]; [|subst kv].
    - destruct (eqd k (fst kv)) as [Heq|Hne].
      + exfalso. apply NoDup_remove_2 in Hnd. apply Hnd. rewrite app_nil_r.
        rewrite <- Heq. apply (in_map fst) in Hin. exact Hin.
      + apply IH; [|exact Hin]. apply NoDup_remove_1 in Hnd. rewrite app_nil_r in Hnd. exact Hnd.
    - cbn. destruct (eqd k k); [reflexivity|contradiction].
  Qed.
End DictLemmas.

Lemma in_combine_fst {A B} (l : list A) (l' : list B) x : In x (map fst (combine l l')) -> In x l.
Proof.
  intro H. apply in_map_iff in H. destruct H as [[a b] [<- Hin]]. apply in_combine_l in Hin. exact Hin.
Qed.

Lemma map_fst_combine {A B} (l : list A) (l' : list B) : length l = length l' -> map fst (combine l l') = l.
Proof.
  revert l'. induction l as [|x l IH]; intros [|y l'] H; cbn in *; try reflexivity; try discriminate.
  f_equal. apply IH. lia.
Qed.

Lemma map_via_combine {A B} (f : A -> B) (l : list A) (l' : list B) :
  length l = length l' -> (forall k v, In (k, v) (combine l l') -> f k = v) -> map f l = l'.
Proof.
  revert l'. induction l as [|x l IH]; intros [|y l'] Hlen H; cbn in *; try reflexivity; try discriminate.
  f_equal; [apply H; left; reflexivity|]. apply IH; [lia|]. intros k v Hin. apply H. right. exact Hin.
Qed.

(** ---- stoichiometry expansion ---------------------------------------------------------------------- *)
Lemma in_subs_of st k : In k (subs_of st) -> exists v, In (k, v) st /\ (v < 0)%Z.
Proof.
  unfold subs_of. intro H. apply in_flat_map in H. destruct H as [[k' v] [Hin Hk]]. cbn in Hk.
  destruct (v <? 0)%Z eqn:Hv; [|destruct Hk]. apply repeat_spec in Hk. subst. exists v. split; [exact Hin|lia].
Qed.

Lemma in_prods_of st k : In k (prods_of st) -> exists v, In (k, v) st /\ (0 <= v)%Z.
Proof.
  unfold prods_of. intro H. apply in_flat_map in H. destruct H as [[k' v] [Hin Hk]]. cbn in Hk.
  destruct (v <? 0)%Z eqn:Hv; [destruct Hk|]. apply repeat_spec in Hk. subst. exists v. split; [exact Hin|lia].
Qed.

Lemma NoDup_fst_functional {A B} (l : list (A * B)) k v v' :
  NoDup (map fst l) -> In (k, v) l -> In (k, v') l -> v = v'.
Proof.
  induction l as [|[a b] l IH]; intros Hnd H1 H2; [destruct H1|]. cbn in Hnd.
  apply NoDup_cons_iff in Hnd. destruct Hnd as [Hn Hnd].
  destruct H1 as [H1|H1], H2 as [H2|H2].
  - congruence.
  - inversion H1; subst. exfalso. apply Hn. apply (in_map fst) in H2. exact H2.
  - inversion H2; subst. exfalso. apply Hn. apply (in_map fst) in H1. exact H1.
  - apply IH; assumption.
Qed.

Lemma subs_prods_disjoint st k : NoDup (map fst st) -> In k (subs_of st) -> In k (prods_of st) -> False.
Proof.
  intros Hnd Hs Hp. apply in_subs_of in Hs. apply in_prods_of in Hp.
  destruct Hs as [v [Hv Hlt]]. destruct Hp as [v' [Hv' Hge]].
  assert (v = v') by (eapply NoDup_fst_functional; eassumption). lia.
Qed.

(** net coefficient of the base stoichiometry = #products - #substrates *)
Lemma count_subs_notin st c : ~ In c (map fst st) -> count_occ N.eq_dec (subs_of st) c = 0.
Proof.
  intro H. apply count_occ_not_In. intro Hin. apply in_subs_of in Hin. destruct Hin as [v [Hv _]].
  apply H. apply (in_map fst) in Hv. exact Hv.
Qed.
Lemma count_prods_notin st c : ~ In c (map fst st) -> count_occ N.eq_dec (prods_of st) c = 0.
Proof.
  intro H. apply count_occ_not_In. intro Hin. apply in_prods_of in Hin. destruct Hin as [v [Hv _]].
  apply H. apply (in_map fst) in Hv. exact Hv.
Qed.

Lemma count_repeat_same (c : N) n : count_occ N.eq_dec (repeat c n) c = n.
Proof. induction n; cbn; [reflexivity|]. destruct (N.eq_dec c c); [lia|contradiction]. Qed.
Lemma count_repeat_other (c k : N) n : k <> c -> count_occ N.eq_dec (repeat k n) c = 0.
Proof. intro H. induction n; cbn; [reflexivity|]. destruct (N.eq_dec k c); [contradiction|exact IHn]. Qed.

Lemma net_stoichiometry st c :
  NoDup (map fst st) ->
  (Z.of_nat (count_occ N.eq_dec (prods_of st) c) - Z.of_nat (count_occ N.eq_dec (subs_of st) c))%Z
  = match getN c st with Some v => v | None => 0%Z end.
Proof.
  induction st as [|[k v] st IH]; intro Hnd; [reflexivity|].
  cbn in Hnd. apply NoDup_cons_iff in Hnd. destruct Hnd as [Hn Hnd].
  unfold getN in *. cbn [dict_get]. unfold subs_of, prods_of in *. cbn [flat_map fst snd].
  rewrite !count_occ_app. destruct (N.eq_dec c k) as [->|Hne].
  - fold (subs_of st). fold (prods_of st). rewrite count_subs_notin, count_prods_notin by exact Hn.
    destruct (v <? 0)%Z eqn:Hv; cbn [count_occ]; rewrite count_repeat_same; lia.
  - specialize (IH Hnd). destruct (v <? 0)%Z; cbn [count_occ]; rewrite count_repeat_other by congruence; lia.
Qed.

(** ---- split / assign ------------------------------------------------------------------------------ *)
Lemma split_label_length l counts : length (split_label l counts) = length counts.
Proof. revert l. induction counts as [|c cs IH]; intro l; cbn; [reflexivity|]. rewrite IH. reflexivity. Qed.

Lemma total_cons c cs : total (c :: cs) = c + total cs. Proof. reflexivity. Qed.

Lemma split_label_full l counts :
  total counts <= length l -> Forall2 (fun q n => length q = n) (split_label l counts) counts.
Proof.
  revert l. induction counts as [|c cs IH]; intros l H; cbn [split_label]; constructor.
  - rewrite total_cons in H. rewrite firstn_length. lia.
  - rewrite total_cons in H. apply IH. rewrite skipn_length. lia.
Qed.

Lemma split_label_concat l counts : total counts <= length l -> concat (split_label l counts) = firstn (total counts) l.
Proof.
  revert l. induction counts as [|c cs IH]; intros l H; [reflexivity|].
  rewrite total_cons in *. cbn [split_label concat].
  rewrite IH by (rewrite skipn_length; lia).
  rewrite <- (firstn_skipn c l) at 3. rewrite firstn_app, firstn_length, Nat.min_l by lia.
  rewrite firstn_firstn, Nat.min_r by lia.
  replace (c + total cs - c) with (total cs) by lia. reflexivity.
Qed.

Lemma split_label_prefix p e counts : total counts <= length p -> split_label (p ++ e) counts = split_label p counts.
Proof.
  revert p. induction counts as [|c cs IH]; intros p H; [reflexivity|].
  rewrite total_cons in H. cbn [split_label].
  rewrite firstn_app, skipn_app. replace (c - length p) with 0 by lia. cbn. rewrite app_nil_r. f_equal.
  apply IH. rewrite skipn_length. lia.
Qed.

Lemma iso_name_inj c q c' q' : iso_name c q = iso_name c' q' -> c = c' /\ q = q'.
Proof. destruct q, q'; cbn; intro H; inversion H; auto. Qed.

(** the pairs (compound, bits) behind [assign_labels] are well formed when the label string is long enough *)
Definition wf_pairs (nl : N -> nat) (pairs : list (N * list bool)) : Prop :=
  Forall (fun cq => length (snd cq) = nl (fst cq)) pairs.

Lemma wf_pairs_split (nl : N -> nat) cs l :
  total (map nl cs) <= length l -> wf_pairs nl (combine cs (split_label l (map nl cs))).
Proof.
  revert l. induction cs as [|c cs IH]; intros l H; cbn [map split_label combine]; constructor.
  - cbn [map] in H. rewrite total_cons in H. cbn [fst snd]. rewrite firstn_length. lia.
  - cbn [map] in H. rewrite total_cons in H. apply IH. rewrite skipn_length. lia.
Qed.

(** ---- C05: one reaction per pattern, rejection of short maps, positions ----------------------------- *)
Section Structure.
  Variable ext_bit : bool.
  Variable rk : repl_kind.
  Variable lv : label_vars.
  Variable r : brxn.
  Variable lmap : list Z.
  Let bs := subs_of (r_stoich r).
  Let bp := prods_of (r_stoich r).
  Let tsl := total (labels_per lv bs).
  Let tpl := total (labels_per lv bp).

  Definition psuffix_of (p : list bool) : list bool :=
    match map_s2p (suffix_of ext_bit lv r p) lmap with Some s => s | None => [] end.

  Lemma create_ok_shape rxns :
    create_iso_rxns ext_bit rk lv r lmap = Ok rxns ->
    tsl <= length lmap
    /\ rxns = map (fun p => mk_iso_rxn rk lv r (suffix_of ext_bit lv r p) (psuffix_of p)) (all_patterns tsl)
    /\ forall p, In p (all_patterns tsl) -> map_s2p (suffix_of ext_bit lv r p) lmap = Some (psuffix_of p).
  Proof.
    unfold create_iso_rxns. fold bs. fold tsl. destruct (Nat.ltb (length lmap) tsl) eqn:Hlt; [discriminate|].
    apply Nat.ltb_ge in Hlt. intro H. apply collect_map_ok in H. split; [exact Hlt|].
    assert (Hall : Forall2 (fun p y => map_s2p (suffix_of ext_bit lv r p) lmap = Some (psuffix_of p)
                                       /\ mk_iso_rxn rk lv r (suffix_of ext_bit lv r p) (psuffix_of p) = y)
                           (all_patterns tsl) rxns).
    { eapply Forall2_impl; [|exact H]. cbv beta. intros p y Hy. unfold iso_rxn_for in Hy. unfold psuffix_of.
      destruct (map_s2p (suffix_of ext_bit lv r p) lmap); [|discriminate]. inversion Hy. split; reflexivity. }
    split.
    - apply Forall2_map_eq. eapply Forall2_impl; [|exact Hall]. intros p y [_ Hy]. exact Hy.
    - intros p Hp. clear H. induction Hall as [|x y l ys [Hx _] _ IH]; [destruct Hp|].
      destruct Hp as [<-|Hp]; [exact Hx|apply IH; exact Hp].
  Qed.

  Lemma one_reaction_per_pattern rxns :
    create_iso_rxns ext_bit rk lv r lmap = Ok rxns ->
    map lr_name rxns = map (fun p => LIso (r_name r) (p ++ repeat ext_bit (tpl - tsl))) (all_patterns tsl)
    /\ NoDup (map lr_name rxns)
    /\ length rxns = 2 ^ tsl.
  Proof.
    intro H. apply create_ok_shape in H. destruct H as [_ [-> _]]. rewrite map_map. cbn [lr_name mk_iso_rxn].
    split; [reflexivity|split].
    - apply FinFun.Injective_map_NoDup; [|apply all_patterns_NoDup].
      intros x y Hxy. inversion Hxy as [Happ]. unfold suffix_of in Happ. apply app_inv_tail in Happ. exact Happ.
    - rewrite map_length. apply all_patterns_count.
  Qed.

  Lemma short_map_rejected : length lmap < tsl -> create_iso_rxns ext_bit rk lv r lmap = Err ErrValue.
  Proof.
    intro H. unfold create_iso_rxns. fold bs. fold tsl. apply Nat.ltb_lt in H. rewrite H. reflexivity.
  Qed.

  Lemma positions rxns p :
    create_iso_rxns ext_bit rk lv r lmap = Ok rxns -> In p (all_patterns tsl) ->
    exists psuffix,
      In (mk_iso_rxn rk lv r (p ++ repeat ext_bit (tpl - tsl)) psuffix) rxns
      /\ length psuffix = length lmap
      /\ (forall i m, nth_error lmap i = Some m ->
                      nth_error psuffix i = py_index (p ++ repeat ext_bit (tpl - tsl)) m)
      /\ concat (split_label (p ++ repeat ext_bit (tpl - tsl)) (labels_per lv bs)) = p
      /\ (tpl <= length lmap -> concat (split_label psuffix (labels_per lv bp)) = firstn tpl psuffix).
  Proof.
    intros H Hp. apply create_ok_shape in H. destruct H as [Hlen [-> Hs]]. specialize (Hs p Hp).
    exists (psuffix_of p). unfold map_s2p in Hs. pose proof (all_patterns_length _ _ Hp) as Hpl.
    split; [|split; [|split; [|split]]].
    - apply in_map_iff. exists p. split; [reflexivity|exact Hp].
    - eapply mapM_length. exact Hs.
    - intros i m Hm. eapply mapM_nth_error in Hs; [|exact Hm]. exact Hs.
    - rewrite split_label_concat by (rewrite app_length; fold bs tsl; lia).
      fold bs tsl. rewrite firstn_app, Hpl, Nat.sub_diag, firstn_all2 by lia. cbn. apply app_nil_r.
    - intro Hl. apply split_label_concat. fold bp tpl. apply mapM_length in Hs. lia.
  Qed.
End Structure.

(** reading a label string with a Python index *)
Lemma py_index_substrate {A} (p e : list A) (m : Z) :
  (0 <= m < Z.of_nat (length p))%Z -> py_index (p ++ e) m = nth_error p (Z.to_nat m).
Proof.
  intro H. unfold py_index, py_norm. rewrite app_length.
  destruct (Z.leb_spec 0 m) as [H0|H0]; [|lia].
  destruct (Z.ltb_spec m (Z.of_nat (length p + length e))) as [H1|H1]; [|lia].
  apply nth_error_app1. lia.
Qed.

Lemma py_index_external (p : list bool) b k (m : Z) :
  (Z.of_nat (length p) <= m < Z.of_nat (length p + k))%Z -> py_index (p ++ repeat b k) m = Some b.
Proof.
  intro H. unfold py_index, py_norm. rewrite app_length, repeat_length.
  destruct (Z.leb_spec 0 m) as [H0|H0]; [|lia].
  destruct (Z.ltb_spec m (Z.of_nat (length p + k))) as [H1|H1]; [|lia].
  rewrite nth_error_app2 by lia. apply nth_error_repeat. lia.
Qed.

(** ---- per-occurrence renaming of the rate arguments ([rename_pos], the repaired form) --------------- *)
Definition countkey (k : N) (pairs : list (N * lname)) : nat := count_occ N.eq_dec (map fst pairs) k.

Lemma take_first_none k pairs : countkey k pairs = 0 -> take_first k pairs = None.
Proof.
  unfold countkey. induction pairs as [|[k' v] pairs IH]; cbn; intro H; [reflexivity|].
  destruct (N.eq_dec k' k) as [->|Hne]; [discriminate|].
  destruct (N.eq_dec k k') as [->|_]; [contradiction|]. rewrite (IH H). reflexivity.
Qed.

Lemma take_first_some k pairs :
  countkey k pairs <> 0 ->
  exists v pairs', take_first k pairs = Some (v, pairs')
                   /\ Permutation (map snd pairs) (v :: map snd pairs')
                   /\ (forall j, countkey j pairs = if N.eq_dec k j then S (countkey j pairs') else countkey j pairs').
Proof.
  unfold countkey. induction pairs as [|[k' v] pairs IH]; cbn; intro H; [contradiction|].
  destruct (N.eq_dec k k') as [->|Hne].
  - exists v, pairs. split; [reflexivity|]. split; [apply Permutation_refl|].
    intro j. destruct (N.eq_dec k' j); reflexivity.
  - destruct (N.eq_dec k' k) as [->|_]; [contradiction|].
    destruct (IH H) as [v' [pairs' [Ht [Hp Hc]]]]. rewrite Ht.
    exists v', ((k', v) :: pairs'). split; [reflexivity|]. split.
    + cbn. apply (Permutation_trans (l' := v :: v' :: map snd pairs')); [apply perm_skip; exact Hp|apply perm_swap].
    + intro j. cbn. specialize (Hc j). destruct (N.eq_dec k' j) as [->|Hj].
      * destruct (N.eq_dec k j) as [->|_]; [contradiction|]. rewrite Hc. reflexivity.
      * exact Hc.
Qed.

Lemma take_first_app k S P :
  take_first k (S ++ P)
  = match take_first k S with
    | Some (v, S') => Some (v, S' ++ P)
    | None => match take_first k P with Some (v, P') => Some (v, S ++ P') | None => None end
    end.
Proof.
  induction S as [|[k' v] S IH]; cbn.
  - destruct (take_first k P) as [[v P']|]; reflexivity.
  - destruct (N.eq_dec k k'); [reflexivity|]. rewrite IH.
    destruct (take_first k S) as [[v' S']|]; [reflexivity|].
    destruct (take_first k P) as [[v' P']|]; reflexivity.
Qed.

Lemma filter_perm {A} (f : A -> bool) l l' : Permutation l l' -> Permutation (filter f l) (filter f l').
Proof.
  induction 1 as [|x l l' _ IH|x y l|l l' l'' _ IH1 _ IH2]; cbn.
  - constructor.
  - destruct (f x); [apply perm_skip|]; exact IH.
  - destruct (f x), (f y); try apply Permutation_refl. apply perm_swap.
  - eapply Permutation_trans; eassumption.
Qed.

Definition unused (pairs : list (N * lname)) (k : N) : bool := Nat.eqb (countkey k pairs) 0.

(** when every compound occurs in the arguments exactly as often as it has pairs (or has no pair and no
    remembered name), the renamed arguments are -- as a multiset -- ALL the new names plus the bystanders *)
Lemma rename_pos_perm lv args : forall pairs last,
  (forall k, count_occ N.eq_dec args k = countkey k pairs \/ (countkey k pairs = 0 /\ getN k last = None)) ->
  Permutation (rename_pos lv pairs last args)
              (map snd pairs ++ map (bystander_name lv) (filter (unused pairs) args)).
Proof.
  induction args as [|k rest IH]; intros pairs last Hinv.
  - cbn. assert (pairs = []) as ->.
    { destruct pairs as [|[k v] pairs]; [reflexivity|]. exfalso.
      destruct (Hinv k) as [H|[H _]]; unfold countkey in H; cbn in H; destruct (N.eq_dec k k); try discriminate; contradiction. }
    constructor.
  - cbn [rename_pos]. destruct (Nat.eq_dec (countkey k pairs) 0) as [Hz|Hnz].
    + rewrite (take_first_none _ _ Hz).
      destruct (Hinv k) as [H|[_ Hl]]; [cbn in H; destruct (N.eq_dec k k); [rewrite Hz in H; discriminate|contradiction]|].
      rewrite Hl. cbn [filter]. unfold unused at 1. rewrite Hz. cbn [Nat.eqb map].
      apply Permutation_cons_app. apply IH. intro j. destruct (N.eq_dec k j) as [<-|Hne].
      * right. split; [exact Hz|exact Hl].
      * destruct (Hinv j) as [H|H]; [left|right; exact H]. cbn in H. destruct (N.eq_dec k j); [contradiction|exact H].
    + destruct (take_first_some _ _ Hnz) as [v [pairs' [Ht [Hp Hc]]]]. rewrite Ht.
      assert (Hk : count_occ N.eq_dec rest k = countkey k pairs').
      { destruct (Hinv k) as [H|[H _]]; [|contradiction]. cbn in H. specialize (Hc k).
        destruct (N.eq_dec k k); [|contradiction]. lia. }
      cbn [filter]. unfold unused at 1. apply Nat.eqb_neq in Hnz. rewrite Hnz.
      assert (Hf : filter (unused pairs) rest = filter (unused pairs') rest).
      { apply filter_ext_in. intros j Hj. unfold unused. specialize (Hc j). destruct (N.eq_dec k j) as [<-|Hne].
        - rewrite Hc. cbn. symmetry. apply Nat.eqb_neq. rewrite <- Hk.
          intro H0. apply (count_occ_not_In N.eq_dec) in H0. contradiction.
        - rewrite Hc. reflexivity. }
      rewrite Hf.
      apply (Permutation_trans (l' := v :: (map snd pairs' ++ map (bystander_name lv) (filter (unused pairs') rest)))).
      * apply perm_skip. apply IH. intro j. destruct (N.eq_dec k j) as [<-|Hne]; [left; exact Hk|].
        specialize (Hc j). destruct (N.eq_dec k j); [contradiction|].
        destruct (Hinv j) as [H|[H1 H2]].
        -- left. cbn in H. destruct (N.eq_dec k j); [contradiction|]. rewrite <- Hc. exact H.
        -- right. split; [rewrite <- Hc; exact H1|]. unfold getN. rewrite dict_get_set.
           destruct (N.eq_dec j k) as [->|_]; [contradiction|exact H2].
      * change (v :: (map snd pairs' ++ ?X)) with ((v :: map snd pairs') ++ X).
        apply Permutation_app_tail. apply Permutation_sym. exact Hp.
Qed.

(** pairs whose keys do not occur in the arguments play no role *)
Lemma rename_pos_unused lv args : forall S P last,
  (forall k, In k args -> countkey k P = 0) ->
  rename_pos lv (S ++ P) last args = rename_pos lv S last args.
Proof.
  induction args as [|k rest IH]; intros S P last H; [reflexivity|].
  cbn [rename_pos]. rewrite take_first_app. rewrite (take_first_none k P) by (apply H; left; reflexivity).
  destruct (take_first k S) as [[v S']|].
  - f_equal. apply IH. intros j Hj. apply H. right. exact Hj.
  - f_equal. apply IH. intros j Hj. apply H. right. exact Hj.
Qed.

Lemma countkey_combine k (cs : list N) (ns : list lname) :
  length cs = length ns -> countkey k (combine cs ns) = count_occ N.eq_dec cs k.
Proof. intro H. unfold countkey. rewrite map_fst_combine by exact H. reflexivity. Qed.

Lemma map_snd_combine {A B} (l : list A) (l' : list B) : length l = length l' -> map snd (combine l l') = l'.
Proof.
  revert l'. induction l as [|x l IH]; intros [|y l'] H; cbn in *; try reflexivity; try discriminate.
  f_equal. apply IH. lia.
Qed.

(** ---- total coefficient of a repacked stoichiometry (Z) ------------------------------------------- *)
Definition tc (d : list (lname * Z)) (X : lname) : Z :=
  fold_right Z.add 0%Z (map (fun kz => if lname_eq_dec (fst kz) X then snd kz else 0%Z) d).

Lemma tc_app d1 d2 X : tc (d1 ++ d2) X = (tc d1 X + tc d2 X)%Z.
Proof. unfold tc. induction d1 as [|kz d IH]; cbn; [reflexivity|]. cbn in IH. rewrite IH. lia. Qed.

Lemma tc_set_get a v v' d X :
  getL a d = Some v -> tc (setL a v' d) X = (tc d X + (if lname_eq_dec a X then v' - v else 0))%Z.
Proof.
  unfold getL, setL. induction d as [|[k0 v0] d IH]; intro H; cbn in H; [discriminate|].
  cbn [dict_set]. destruct (lname_eq_dec a k0) as [->|Hne].
  - inversion H; subst v0. unfold tc. cbn. destruct (lname_eq_dec k0 X); lia.
  - specialize (IH H). unfold tc in *. cbn in *. rewrite IH. lia.
Qed.

Lemma tc_dict_add a dz d X : tc (dict_add a dz d) X = (tc d X + (if lname_eq_dec a X then dz else 0))%Z.
Proof.
  unfold dict_add. destruct (getL a d) as [v|] eqn:Hg.
  - rewrite (tc_set_get _ _ _ _ _ Hg). destruct (lname_eq_dec a X); lia.
  - rewrite tc_app. unfold tc at 2. cbn. destruct (lname_eq_dec a X); lia.
Qed.

Lemma tc_fold_add dz l d0 X :
  tc (fold_left (fun d a => dict_add a dz d) l d0) X
  = (tc d0 X + dz * Z.of_nat (count_occ lname_eq_dec l X))%Z.
Proof.
  revert d0. induction l as [|a l IH]; intro d0; cbn [fold_left count_occ]; [lia|].
  rewrite IH, tc_dict_add. destruct (lname_eq_dec a X); lia.
Qed.

Lemma tc_repack ns np X :
  tc (repack ns np) X = (Z.of_nat (count_occ lname_eq_dec np X) - Z.of_nat (count_occ lname_eq_dec ns X))%Z.
Proof. unfold repack. rewrite !tc_fold_add. change (tc [] X) with 0%Z. lia. Qed.

Definition base_env_gen {R} (sum : list R -> R) (lv : label_vars) (env : lname -> R) (a : N) : R :=
  sum (map (fun q => env (iso_name a q)) (all_patterns (nlab lv a))).

Section Dynamics.
  Variable R : Type.
  Variables (rO rI : R) (radd rmul rsub : R -> R -> R) (ropp rinv : R -> R) (ofZ : Z -> R).
  Hypothesis Rth : ring_theory rO rI radd rmul rsub ropp eq.
  Hypothesis ofZ_0 : ofZ 0%Z = rO.
  Hypothesis ofZ_1 : ofZ 1%Z = rI.
  Hypothesis ofZ_add : forall a b, ofZ (a + b)%Z = radd (ofZ a) (ofZ b).
  Hypothesis ofZ_opp : forall a, ofZ (- a)%Z = ropp (ofZ a).
  Add Ring Rring_dyn : Rth.

  Notation "0" := rO. Notation "1" := rI.
  Infix "+" := radd. Infix "*" := rmul. Infix "-" := rsub.
  Notation sum := (sumR R rO radd).
  Notation prod := (prodR R rI rmul).
  Notation ofN := (ofNat R ofZ).
  Notation Deriv := (deriv R rO rI radd rmul ropp rinv ofZ).
  Notation Rate := (rate R rO rI radd rmul ropp rinv).
  Notation CoefAt := (coef_at R rO rI radd rmul ropp rinv ofZ).

  Let s_app := sum_app R rO rI radd rmul rsub ropp Rth.
  Let p_app := prod_app R rO rI radd rmul rsub ropp Rth.
  Let s_scale := @sum_map_scale R rO rI radd rmul rsub ropp Rth.
  Let s_scale_r := @sum_map_scale_r R rO rI radd rmul rsub ropp Rth.
  Let s_add := @sum_map_add R rO rI radd rmul rsub ropp Rth.
  Let s_sub := @sum_map_sub R rO rI radd rmul rsub ropp Rth.
  Let s_zero := @sum_map_zero R rO rI radd rmul rsub ropp Rth.
  Let s_swap := @sum_swap R rO rI radd rmul rsub ropp Rth.
  Let s_ext := @sum_map_ext R rO radd.
  Let s_cons := sum_cons R rO radd.
  Let p_cons := prod_cons R rI rmul.
  Let ofN_S := ofNat_S R rI radd ofZ ofZ_1 ofZ_add.
  Let ofZ_minus := ofZ_sub R rO rI radd rmul rsub ropp ofZ Rth ofZ_add ofZ_opp.

  Lemma coef_at_CZ env name fn args (d : list (lname * Z)) X :
    CoefAt env (mkLR name fn args (map (fun kz => (fst kz, CZ (snd kz))) d)) X = ofZ (tc d X).
  Proof.
    unfold coef_at. cbn [lr_stoich]. rewrite map_map. cbn [fst snd coefval].
    induction d as [|[k z] d IH].
    - cbn [map]. unfold tc. cbn. symmetry. exact ofZ_0.
    - cbn [map fst snd]. rewrite s_cons, IH. unfold tc. cbn [map fold_right fst snd].
      rewrite ofZ_add. destruct (lname_eq_dec k X); [reflexivity|]. rewrite ofZ_0. reflexivity.
  Qed.

  Lemma coef_at_CZ' env rx (d : list (lname * Z)) X :
    lr_stoich rx = map (fun kz => (fst kz, CZ (snd kz))) d -> CoefAt env rx X = ofZ (tc d X).
  Proof.
    intro H. rewrite <- (coef_at_CZ env (lr_name rx) (lr_fn rx) (lr_args rx) d X).
    unfold coef_at. cbn [lr_stoich]. rewrite H. reflexivity.
  Qed.

  Section Collapse.
    Variable nl : N -> nat.
    Variable g : list bool -> R.

    Definition Gsum (c : N) (pairs : list (N * list bool)) : R :=
      sum (map (fun cq => if N.eq_dec (fst cq) c then g (snd cq) else 0) pairs).

    Lemma collapse_g pairs c :
      wf_pairs nl pairs ->
      sum (map (fun bits => g bits * ofN (count_occ lname_eq_dec (map (fun cq => iso_name (fst cq) (snd cq)) pairs)
                                                    (iso_name c bits)))
               (all_patterns (nl c)))
      = Gsum c pairs.
    Proof.
      unfold Gsum. induction pairs as [|[c' q] pairs IH]; intro Hwf.
      - cbn [map count_occ]. rewrite (s_ext _ _ (fun _ => 0)); [apply s_zero|].
        intros bits _. unfold ofNat. cbn. rewrite ofZ_0. ring.
      - apply Forall_cons_iff in Hwf. destruct Hwf as [Hq Hwf]. cbn [fst snd] in Hq.
        cbn [map fst snd]. rewrite s_cons, <- (IH Hwf). clear IH.
        destruct (N.eq_dec c' c) as [->|Hne].
        + rewrite <- (sum_indicator R rO rI radd rmul rsub ropp Rth (list_eq_dec Bool.bool_dec) g q (all_patterns (nl c)))
            by (try apply all_patterns_NoDup; apply all_patterns_complete; exact Hq).
          rewrite <- s_add. apply s_ext. intros bits _. cbn [count_occ].
          destruct (lname_eq_dec (iso_name c q) (iso_name c bits)) as [Heq|Hneq].
          * apply iso_name_inj in Heq. destruct Heq as [_ ->].
            destruct (list_eq_dec Bool.bool_dec bits bits); [|contradiction]. rewrite ofN_S. ring.
          * destruct (list_eq_dec Bool.bool_dec q bits) as [->|]; [contradiction|]. ring.
        + match goal with |- _ = 0 + ?S => replace (0 + S) with S by ring end.
          apply s_ext. intros bits _. cbn [count_occ].
          destruct (lname_eq_dec (iso_name c' q) (iso_name c bits)) as [Heq|Hneq].
          * apply iso_name_inj in Heq. destruct Heq as [Hc _]. contradiction.
          * reflexivity.
    Qed.
  End Collapse.

  Lemma Gsum_one c cs sufs :
    length cs = length sufs -> Gsum (fun _ => 1) c (combine cs sufs) = ofN (count_occ N.eq_dec cs c).
  Proof.
    unfold Gsum. revert sufs. induction cs as [|c' cs IH]; intros [|q sufs] H; cbn in H; try discriminate.
    - cbn. unfold ofNat. symmetry. exact ofZ_0.
    - cbn [combine map fst snd count_occ]. rewrite s_cons, IH by lia.
      destruct (N.eq_dec c' c); [rewrite ofN_S; reflexivity|ring].
  Qed.

  (** ---- one mapped reaction ------------------------------------------------------------------- *)
  Section OneReaction.
    Variable ext_bit : bool.
    Variable rk : repl_kind.
    Variable lv : label_vars.
    Variable r : brxn.
    Variable lmap : list Z.
    Variable env : lname -> R.
    Let bs := subs_of (r_stoich r).
    Let bp := prods_of (r_stoich r).
    Let lps := labels_per lv bs.
    Let lpp := labels_per lv bp.
    Let tsl := total lps.
    Let tpl := total lpp.
    Let nl := nlab lv.
    Let sfx := suffix_of ext_bit lv r.
    Let psfx := psuffix_of ext_bit lv r lmap.
    Definition subpairs (p : list bool) := combine bs (split_label (sfx p) lps).
    Definition prodpairs (p : list bool) := combine bp (split_label (psfx p) lpp).

    Lemma mk_iso_rxn_stoich p :
      lr_stoich (mk_iso_rxn rk lv r (sfx p) (psfx p))
      = map (fun kz => (fst kz, CZ (snd kz)))
            (repack (map (fun cq => iso_name (fst cq) (snd cq)) (subpairs p))
                    (map (fun cq => iso_name (fst cq) (snd cq)) (prodpairs p))).
    Proof. reflexivity. Qed.

    Lemma subpairs_wf p : In p (all_patterns tsl) -> wf_pairs nl (subpairs p).
    Proof.
      intro Hp. apply all_patterns_length in Hp. unfold subpairs, lps, labels_per. fold nl.
      apply wf_pairs_split. unfold sfx, suffix_of. rewrite app_length. fold bs. fold lps. fold tsl.
      fold nl in tsl. unfold tsl, lps, labels_per in Hp. fold nl in Hp. lia.
    Qed.

    (** the weighted collapse: sum over c's isotopomers of g(bits) * derivative *)
    Lemma weighted_collapse (g : list bool -> R) c rxns :
      create_iso_rxns ext_bit rk lv r lmap = Ok rxns ->
      tpl <= length lmap ->
      sum (map (fun bits => g bits * Deriv env rxns (iso_name c bits)) (all_patterns (nl c)))
      = sum (map (fun p => (Gsum g c (prodpairs p) - Gsum g c (subpairs p))
                           * Rate env (mk_iso_rxn rk lv r (sfx p) (psfx p)))
                 (all_patterns tsl)).
    Proof.
      intros Hc Hl. apply create_ok_shape in Hc. fold bs in Hc. fold lps in Hc. fold tsl in Hc.
      destruct Hc as [Hlen [-> Hs]]. fold sfx in Hs. fold psfx in Hs. fold sfx. fold psfx.
      unfold deriv. rewrite (s_ext _ _ (fun bits => sum (map (fun p =>
           g bits * (CoefAt env (mk_iso_rxn rk lv r (sfx p) (psfx p)) (iso_name c bits)
                     * Rate env (mk_iso_rxn rk lv r (sfx p) (psfx p)))) (all_patterns tsl)))).
      2:{ intros bits _. rewrite map_map, <- s_scale. reflexivity. }
      rewrite s_swap. apply s_ext. intros p Hp.
      assert (Hwp : wf_pairs nl (prodpairs p)).
      { unfold prodpairs, lpp, labels_per. fold nl. apply wf_pairs_split.
        specialize (Hs p Hp). apply mapM_length in Hs. fold nl in tpl. unfold tpl, lpp, labels_per in Hl. fold nl in Hl. lia. }
      pose proof (subpairs_wf p Hp) as Hws.
      rewrite <- (collapse_g nl g _ c Hwp), <- (collapse_g nl g _ c Hws), <- s_sub.
      rewrite <- s_scale_r. apply s_ext. intros bits _.
      rewrite (coef_at_CZ' env _ _ (iso_name c bits) (mk_iso_rxn_stoich p)).
      rewrite tc_repack, ofZ_minus. unfold ofNat. ring.
    Qed.

    (** ---- mass action: k * product of the substrates ------------------------------------------------
        General hypotheses: the arguments are the substrate side (every unit of the stoichiometry once, in any
        order) plus [extra] arguments that take no part in the reaction and whose renamed name evaluates to
        their total; the renaming is per occurrence (the repaired form) OR no compound stands twice on the
        substrate side (the guard under which the dict form is right). *)
    Definition benv (a : N) : R := sum (map (fun q => env (iso_name a q)) (all_patterns (nl a))).

    (** what an argument that takes no part in the reaction is renamed to *)
    Definition ext_name (a : N) : lname :=
      match rk with ReplPositional => bystander_name lv a | _ => LPlain a end.

    Variable extra : list N.                       (* the non-substrate arguments (rate constants, modifiers) *)
    Hypothesis Hfn : r_fn r = FProd.
    Hypothesis Hargs : Permutation (r_args r) (bs ++ extra).
    Hypothesis Hnd_st : NoDup (map fst (r_stoich r)).
    Hypothesis Hrk : rk = ReplPositional \/ NoDup bs.
    Hypothesis Hextra : forall a, In a extra -> ~ In a bs /\ ~ In a bp /\ env (ext_name a) = benv a.

    Let ren ns np := fun k => match getN k (replacements bs ns bp np) with Some v => v | None => LPlain k end.

    Lemma rename_subs ns np : NoDup bs -> length ns = length bs -> map (ren ns np) bs = ns.
    Proof.
      intros Hnd_bs Hl. apply map_via_combine; [lia|]. intros k v Hin. unfold ren, replacements, getN.
      rewrite dict_update_notin.
      - rewrite (dict_update_in N.eq_dec k v); [reflexivity| |exact Hin].
        rewrite map_fst_combine by lia. exact Hnd_bs.
      - intro H. apply in_combine_fst in H. apply in_combine_l in Hin.
        exact (subs_prods_disjoint _ _ Hnd_st Hin H).
    Qed.

    Lemma rename_extra ns np : map (ren ns np) extra = map LPlain extra.
    Proof.
      apply map_ext_in. intros a Ha. destruct (Hextra a Ha) as [H1 [H2 _]]. unfold ren, replacements, getN.
      rewrite !dict_update_notin; [reflexivity| |]; intro H; apply in_combine_fst in H; contradiction.
    Qed.

    (** the renamed arguments are, as a multiset, the substrate isotopomers of the pattern plus the renamed extras *)
    Lemma renamed_args_perm ns np :
      length ns = length bs -> length np = length bp ->
      Permutation (match rk with
                   | ReplPositional => rename_pos lv (combine bs ns ++ combine bp np) [] (r_args r)
                   | _ => rename_args (replacements bs ns bp np) (r_args r)
                   end)
                  (ns ++ map ext_name extra).
    Proof.
      intros Hls Hlp.
      assert (Hdict : NoDup bs -> Permutation (rename_args (replacements bs ns bp np) (r_args r)) (ns ++ map LPlain extra)).
      { intro Hnd_bs. unfold rename_args. fold (ren ns np).
        apply (Permutation_trans (l' := map (ren ns np) (bs ++ extra))); [apply Permutation_map; exact Hargs|].
        rewrite map_app, rename_extra, rename_subs by assumption. apply Permutation_refl. }
      assert (Hpos : Permutation (rename_pos lv (combine bs ns ++ combine bp np) [] (r_args r))
                                 (ns ++ map (bystander_name lv) extra)).
      { rewrite rename_pos_unused.
        2:{ intros k Hk. rewrite countkey_combine by (symmetry; exact Hlp). apply count_occ_not_In. intro Hp.
            apply (Permutation_in _ Hargs) in Hk. apply in_app_or in Hk. destruct Hk as [Hk|Hk].
            - exact (subs_prods_disjoint _ _ Hnd_st Hk Hp).
            - destruct (Hextra k Hk) as [_ [H _]]. contradiction. }
        eapply Permutation_trans.
        - apply rename_pos_perm. intro k. rewrite countkey_combine by (symmetry; exact Hls).
          rewrite (Permutation_count_occ N.eq_dec) in Hargs. rewrite (Hargs k), count_occ_app.
          destruct (in_dec N.eq_dec k extra) as [Hin|Hnin].
          + right. destruct (Hextra k Hin) as [Hb _]. split; [|reflexivity]. apply count_occ_not_In. exact Hb.
          + left. apply (count_occ_not_In N.eq_dec) in Hnin. lia.
        - rewrite map_snd_combine by (symmetry; exact Hls). apply Permutation_app_head. apply Permutation_map.
          apply (Permutation_trans (l' := filter (unused (combine bs ns)) (bs ++ extra))); [apply filter_perm; exact Hargs|].
          rewrite filter_app.
          assert (Hb : filter (unused (combine bs ns)) bs = []).
          {
            clear - Hls. assert (H : forall l, (forall k, In k l -> In k bs) -> filter (unused (combine bs ns)) l = []).
            { induction l as [|k l IH]; intro H; [reflexivity|]. cbn. unfold unused at 1.
              rewrite countkey_combine by (symmetry; exact Hls).
              destruct (Nat.eqb_spec (count_occ N.eq_dec bs k) 0) as [H0|_].
              - apply (count_occ_not_In N.eq_dec) in H0. exfalso. apply H0. apply H. left. reflexivity.
              - apply IH. intros j Hj. apply H. right. exact Hj. }
            apply H. auto. }
          rewrite Hb. cbn [app].
          assert (He : forall l, (forall k, In k l -> In k extra) -> filter (unused (combine bs ns)) l = l).
          { induction l as [|k l IH]; intro H; [reflexivity|]. cbn. unfold unused at 1.
            rewrite countkey_combine by (symmetry; exact Hls).
            destruct (Hextra k (H k (or_introl eq_refl))) as [Hnb _]. apply (count_occ_not_In N.eq_dec) in Hnb.
            rewrite Hnb. cbn. f_equal. apply IH. intros j Hj. apply H. right. exact Hj. }
          rewrite He by auto. apply Permutation_refl. }
      unfold ext_name. destruct rk; [|exact Hpos|]; (destruct Hrk as [Hr|Hnd]; [discriminate|apply Hdict; exact Hnd]).
    Qed.

    Lemma rate_mass_action_gen p :
      Rate env (mk_iso_rxn rk lv r (sfx p) (psfx p))
      = prod (map env (map (fun cq => iso_name (fst cq) (snd cq)) (subpairs p))) * prod (map benv extra).
    Proof.
      unfold rate. cbn [lr_fn lr_args mk_iso_rxn]. rewrite Hfn. cbn [fsem].
      fold bs. fold bp. fold lps. fold lpp.
      set (ns := assign_labels bs (split_label (sfx p) lps)).
      set (np := assign_labels bp (split_label (psfx p) lpp)).
      assert (Hls : length ns = length bs).
      { unfold ns, assign_labels. rewrite map_length, combine_length, split_label_length.
        unfold lps, labels_per. rewrite map_length. lia. }
      assert (Hlp : length np = length bp).
      { unfold np, assign_labels. rewrite map_length, combine_length, split_label_length.
        unfold lpp, labels_per. rewrite map_length. lia. }
      rewrite (prod_perm R rO rI radd rmul rsub ropp Rth _ (map env (ns ++ map ext_name extra)))
        by (apply Permutation_map; apply renamed_args_perm; assumption).
      rewrite map_app, p_app. f_equal. rewrite map_map. f_equal. apply map_ext_in. intros a Ha.
      destruct (Hextra a Ha) as [_ [_ H]]. exact H.
    Qed.

    Lemma subpairs_W p :
      In p (all_patterns tsl) ->
      prod (map env (map (fun cq => iso_name (fst cq) (snd cq)) (subpairs p)))
      = W R rI rmul nl (fun c q => env (iso_name c q)) bs p.
    Proof.
      intro Hp. apply all_patterns_length in Hp. unfold W, subpairs, sfx, suffix_of. rewrite map_map.
      unfold lps, labels_per. fold nl. rewrite split_label_prefix; [reflexivity|].
      unfold tsl, lps, labels_per in Hp. fold nl in Hp. lia.
    Qed.

    Lemma sum_rates_gen :
      sum (map (fun p => Rate env (mk_iso_rxn rk lv r (sfx p) (psfx p))) (all_patterns tsl))
      = prod (map benv bs) * prod (map benv extra).
    Proof.
      rewrite (s_ext _ _ (fun p => W R rI rmul nl (fun c q => env (iso_name c q)) bs p * prod (map benv extra))).
      - rewrite s_scale_r. unfold tsl, lps, labels_per. fold nl.
        rewrite (sum_prod_patterns R rO rI radd rmul rsub ropp Rth nl (fun c q => env (iso_name c q)) bs).
        reflexivity.
      - intros p Hp. rewrite rate_mass_action_gen, subpairs_W by exact Hp. reflexivity.
    Qed.

    Lemma base_rate_gen : prod (map benv (r_args r)) = prod (map benv bs) * prod (map benv extra).
    Proof.
      rewrite (prod_perm R rO rI radd rmul rsub ropp Rth _ (map benv (bs ++ extra)))
        by (apply Permutation_map; exact Hargs).
      rewrite map_app, p_app. reflexivity.
    Qed.

    (** C05, dynamics of one mapped mass-action reaction: the derivatives of c's isotopomers sum to
        (base coefficient of c) * (base rate evaluated at the isotopomer totals) *)
    Theorem dynamics_collapse_rxn_gen c rxns :
      create_iso_rxns ext_bit rk lv r lmap = Ok rxns ->
      tpl <= length lmap ->
      sum (map (fun bits => Deriv env rxns (iso_name c bits)) (all_patterns (nl c)))
      = ofZ (match getN c (r_stoich r) with Some v => v | None => 0%Z end) * prod (map benv (r_args r)).
    Proof.
      intros Hc Hl.
      rewrite (s_ext _ _ (fun bits => (fun _ => 1) bits * Deriv env rxns (iso_name c bits)))
        by (intros; ring).
      rewrite (weighted_collapse (fun _ => 1) c rxns Hc Hl).
      pose proof (create_ok_shape _ _ _ _ _ _ Hc) as [_ [_ Hs]].
      rewrite (s_ext _ _ (fun p => (ofN (count_occ N.eq_dec bp c) - ofN (count_occ N.eq_dec bs c))
                                   * Rate env (mk_iso_rxn rk lv r (sfx p) (psfx p)))).
      - rewrite s_scale, sum_rates_gen, base_rate_gen.
        rewrite <- (net_stoichiometry _ c Hnd_st), ofZ_minus. reflexivity.
      - intros p Hp. unfold prodpairs, subpairs. rewrite !Gsum_one; [reflexivity| |].
        + rewrite split_label_length. unfold lps, labels_per. rewrite map_length. reflexivity.
        + rewrite split_label_length. unfold lpp, labels_per. rewrite map_length. reflexivity.
    Qed.
  End OneReaction.

  (** ---- the same with the extras being plain unlabelled constants; per-occurrence renaming (the repaired form: a compound
      may stand several times on the substrate side, 2 A -> B) OR no compound twice on the substrate side (then either form of
      the renaming block): the form used by the C16 proofs (LinearProofs.v) ---- *)
  Section OneReactionPlain.
    Variable ext_bit : bool.
    Variable rk : repl_kind.
    Variable lv : label_vars.
    Variable r : brxn.
    Variable lmap : list Z.
    Variable env : lname -> R.
    Variable extra : list N.
    Let bs := subs_of (r_stoich r).
    Let bp := prods_of (r_stoich r).
    Hypothesis Hfn : r_fn r = FProd.
    Hypothesis Hargs : Permutation (r_args r) (bs ++ extra).
    Hypothesis Hnd_st : NoDup (map fst (r_stoich r)).
    Hypothesis Hrk : rk = ReplPositional \/ NoDup bs.
    Hypothesis Hextra : forall a, In a extra -> ~ In a bs /\ ~ In a bp /\ nlab lv a = O
                                               /\ (rk = ReplPositional -> getN a lv = None).

    Lemma plain_benv a : nlab lv a = O -> benv lv env a = env (LPlain a).
    Proof.
      intro H0. unfold benv. rewrite H0. cbn [all_patterns map iso_name]. rewrite s_cons.
      change (sum []) with 0. ring.
    Qed.

    Lemma plain_extra : forall a, In a extra -> ~ In a bs /\ ~ In a bp /\ env (ext_name rk lv a) = benv lv env a.
    Proof.
      intros a Ha. destruct (Hextra a Ha) as [H1 [H2 [H0 Hn]]]. split; [exact H1|]. split; [exact H2|].
      rewrite (plain_benv a H0). unfold ext_name, bystander_name. destruct rk; try reflexivity.
      rewrite (Hn eq_refl). reflexivity.
    Qed.

    Lemma plain_kx : prod (map (benv lv env) extra) = prod (map (fun a => env (LPlain a)) extra).
    Proof.
      f_equal. apply map_ext_in. intros a Ha. destruct (Hextra a Ha) as [_ [_ [H0 _]]]. apply plain_benv. exact H0.
    Qed.

    Lemma rate_mass_action p :
      Rate env (mk_iso_rxn rk lv r (suffix_of ext_bit lv r p) (psuffix_of ext_bit lv r lmap p))
      = prod (map env (map (fun cq => iso_name (fst cq) (snd cq)) (subpairs ext_bit lv r p)))
        * prod (map (fun a => env (LPlain a)) extra).
    Proof.
      rewrite (rate_mass_action_gen ext_bit rk lv r lmap env extra Hfn Hargs Hnd_st Hrk plain_extra p).
      rewrite plain_kx. reflexivity.
    Qed.

    Lemma sum_rates :
      sum (map (fun p => Rate env (mk_iso_rxn rk lv r (suffix_of ext_bit lv r p) (psuffix_of ext_bit lv r lmap p)))
               (all_patterns (total (labels_per lv bs))))
      = prod (map (benv lv env) bs) * prod (map (fun a => env (LPlain a)) extra).
    Proof.
      rewrite <- plain_kx.
      exact (sum_rates_gen ext_bit rk lv r lmap env extra Hfn Hargs Hnd_st Hrk plain_extra).
    Qed.

    Lemma base_rate :
      prod (map (benv lv env) (r_args r)) = prod (map (benv lv env) bs) * prod (map (fun a => env (LPlain a)) extra).
    Proof. rewrite (base_rate_gen lv r env extra Hargs). rewrite plain_kx. reflexivity. Qed.
  End OneReactionPlain.
End Dynamics.
