(** Hand-edited (together with a [fix:] commit in /repo only): which form of the rate-argument renaming block of
    label_map._create_isotopomer_reactions PropsC05.v expects the extractor to regenerate from the current tree.

    [C05_expected_repl]
      ReplDict        the snapshot: one dict `replacements`, `args=[replacements.get(k, k) for k in args]`
                      (recorded findings c05-homodimer and c05-labelled-modifier; theorems
                      C05_dynamics_collapse_partial / C05_homodimer_refuted / C05_labelled_modifier_refuted describe the tree)
      ReplPositional  after fixes/C05-homodimer.diff: per-occurrence renaming, labelled bystanders read through their
                      total (theorems C05_dynamics_collapse / C05_dynamics_collapse_model / C05_homodimer_repaired /
                      C05_labelled_modifier_repaired describe the tree)
    tools/c05_switch.py rewrites this line and known_findings.d/C05.json consistently. *)
From Label Require Import LModel Iso.

Definition C05_expected_repl : repl_kind := ReplPositional.
