(** Proofs about the life of a LabelMapper object (IsoSession.v).

    MapsRead (the tree): a call leaves the mapper's dict as it found it and returns [build_iso] of the mapper's
    fields, so EVERY call of any history is the build of a fresh mapper -- every theorem about [build_iso] /
    [create_iso_rxns] speaks about every call.
    MapsPopped (regression shape): the first call is still [build_iso]; it leaves only the maps that name no reaction;
    when all maps name reactions, every later call is [build_iso] with NO maps -- not one isotopomer reaction. *)
From Coq Require Import List ZArith NArith Bool Arith Lia.
From MxlBase Require Import ListX.
From Label Require Import LModel Iso IsoSession Algebra IsoProofs IsoInitProofs IsoPropsZ.
Import ListNotations.

(** ---- the loop that only reads ---- *)
Lemma rxn_loop_read ext_bit rk lv rs lm :
  rxn_loop MapsRead ext_bit rk lv rs lm
  = (collect (map (fun r => rxn_step ext_bit rk lv r (getN (r_name r) lm)) rs), lm).
Proof.
  induction rs as [|r rest IH]; cbn [rxn_loop map collect]; [reflexivity|].
  destruct (rxn_step ext_bit rk lv r (getN (r_name r) lm)) as [x|e]; [|reflexivity].
  rewrite IH. reflexivity.
Qed.

Lemma build_iso_as_steps ext_bit rk ik lv lm init bm :
  build_iso ext_bit rk ik lv lm init bm
  = bind (collect (map (fun r => rxn_step ext_bit rk lv r (getN (r_name r) lm)) (b_rxns bm)))
         (fun rxns => Ok (mkLM (map (fun kv => (LPlain (fst kv), snd kv)) (b_params bm))
                               (build_vars ik lv init (b_vars bm))
                               (map (fun d => mkLD (LPlain (d_name d)) (d_fn d) (map LPlain (d_args d))) (b_dpars bm)
                                ++ map (fun ci => mkLD (LTotal (fst ci)) FSum (snd ci)) (isotopomers lv)
                                ++ map (fun d => mkLD (LPlain (d_name d)) (d_fn d) (map (total_name lv) (d_args d))) (b_dvars bm))
                               (concat rxns))).
Proof. reflexivity. Qed.

Lemma build_read ext_bit rk ik lv lm init bm :
  build_iso_st MapsRead ext_bit rk ik lv lm init bm = (build_iso ext_bit rk ik lv lm init bm, lm).
Proof. unfold build_iso_st. rewrite rxn_loop_read, build_iso_as_steps. reflexivity. Qed.

Theorem session_read ext_bit rk ik lv lm bm inits :
  session MapsRead ext_bit rk ik lv lm bm inits = (map (fun i => build_iso ext_bit rk ik lv lm i bm) inits, lm).
Proof.
  induction inits as [|i rest IH]; cbn [session map]; [reflexivity|].
  rewrite build_read, IH. reflexivity.
Qed.

Corollary session_read_nth ext_bit rk ik lv lm bm inits k i :
  nth_error inits k = Some i ->
  nth_error (fst (session MapsRead ext_bit rk ik lv lm bm inits)) k = Some (build_iso ext_bit rk ik lv lm i bm).
Proof. intro H. rewrite session_read. cbn [fst]. rewrite nth_error_map, H. reflexivity. Qed.

(** ---- the loop that pops ---- *)
Lemma filter_ext' {A} (f g : A -> bool) l : (forall a, f a = g a) -> filter f l = filter g l.
Proof. intro H. induction l as [|a l IH]; cbn; [reflexivity|]. rewrite H, IH. reflexivity. Qed.

Lemma filter_filter' {A} (f g : A -> bool) l : filter f (filter g l) = filter (fun a => g a && f a) l.
Proof.
  induction l as [|a l IH]; cbn; [reflexivity|].
  destruct (g a); cbn; [destruct (f a); rewrite IH; reflexivity | exact IH].
Qed.

Lemma filter_all {A} (l : list A) : filter (fun _ => true) l = l.
Proof. induction l as [|a l IH]; cbn; [reflexivity|]. rewrite IH. reflexivity. Qed.

Lemma getN_delN_neq {V} (k k' : N) (d : list (N * V)) : k <> k' -> getN k (delN k' d) = getN k d.
Proof.
  intro Hne. unfold getN, delN. induction d as [|[k0 v] d IH]; cbn; [reflexivity|].
  destruct (N.eqb k0 k') eqn:E; cbn.
  - apply N.eqb_eq in E. subst k0. destruct (N.eq_dec k k'); [contradiction | exact IH].
  - destruct (N.eq_dec k k0); [reflexivity | exact IH].
Qed.

Definition memN (k : N) (l : list N) : bool := existsb (N.eqb k) l.

(** the first call still sees every map: popping one reaction's entry does not disturb the lookups of the others *)
Lemma rxn_loop_popped_fst ext_bit rk lv rs :
  NoDup (map r_name rs) ->
  forall lm lm', (forall r, In r rs -> getN (r_name r) lm' = getN (r_name r) lm) ->
  fst (rxn_loop MapsPopped ext_bit rk lv rs lm')
  = collect (map (fun r => rxn_step ext_bit rk lv r (getN (r_name r) lm)) rs).
Proof.
  induction rs as [|r rest IH]; intros Hnd lm lm' Hsame; cbn [rxn_loop map collect]; [reflexivity|].
  cbn [map] in Hnd. inversion Hnd as [|? ? Hnotin Hnd']; subst.
  rewrite (Hsame r (or_introl eq_refl)).
  destruct (rxn_step ext_bit rk lv r (getN (r_name r) lm)) as [x|e]; [|reflexivity].
  specialize (IH Hnd' lm (delN (r_name r) lm')).
  destruct (rxn_loop MapsPopped ext_bit rk lv rest (delN (r_name r) lm')) as [res lm2].
  cbn [fst] in *. rewrite <- IH; [reflexivity|].
  intros r' Hin. rewrite getN_delN_neq; [apply Hsame; right; exact Hin|].
  intro Heq. apply Hnotin. rewrite <- Heq. apply in_map. exact Hin.
Qed.

(** after a call that did not raise, exactly the maps that name no reaction of the base model are left *)
Lemma rxn_loop_popped_snd ext_bit rk lv rs :
  forall lm xs, fst (rxn_loop MapsPopped ext_bit rk lv rs lm) = Ok xs ->
  snd (rxn_loop MapsPopped ext_bit rk lv rs lm) = filter (fun kv => negb (memN (fst kv) (map r_name rs))) lm.
Proof.
  induction rs as [|r rest IH]; intros lm xs Hok; cbn [rxn_loop map] in *.
  - cbn. symmetry. apply filter_all.
  - destruct (rxn_step ext_bit rk lv r (getN (r_name r) lm)) as [x|e]; [|discriminate].
    specialize (IH (delN (r_name r) lm)).
    destruct (rxn_loop MapsPopped ext_bit rk lv rest (delN (r_name r) lm)) as [res lm2].
    cbn [fst snd] in *. destruct res as [xs'|e]; [|discriminate].
    rewrite (IH xs' eq_refl). unfold delN. rewrite filter_filter'. apply filter_ext'.
    intros [k v]. cbn [fst memN existsb]. rewrite negb_orb. reflexivity.
Qed.

Theorem popped_first_build ext_bit rk ik lv lm init bm :
  NoDup (map r_name (b_rxns bm)) ->
  fst (build_iso_st MapsPopped ext_bit rk ik lv lm init bm) = build_iso ext_bit rk ik lv lm init bm.
Proof.
  intro Hnd. unfold build_iso_st. rewrite build_iso_as_steps.
  pose proof (rxn_loop_popped_fst ext_bit rk lv (b_rxns bm) Hnd lm lm (fun _ _ => eq_refl)) as H.
  destruct (rxn_loop MapsPopped ext_bit rk lv (b_rxns bm) lm) as [res lm']. cbn [fst] in *. rewrite H. reflexivity.
Qed.

Theorem popped_leftover ext_bit rk ik lv lm init bm m :
  fst (build_iso_st MapsPopped ext_bit rk ik lv lm init bm) = Ok m ->
  snd (build_iso_st MapsPopped ext_bit rk ik lv lm init bm)
  = filter (fun kv => negb (memN (fst kv) (map r_name (b_rxns bm)))) lm.
Proof.
  unfold build_iso_st. intro H.
  pose proof (rxn_loop_popped_snd ext_bit rk lv (b_rxns bm) lm) as Hs.
  destruct (rxn_loop MapsPopped ext_bit rk lv (b_rxns bm) lm) as [res lm']. cbn [fst snd] in *.
  destruct res as [xs|e]; [|discriminate]. exact (Hs xs eq_refl).
Qed.

Lemma filter_none {A} (f : A -> bool) l : (forall a, In a l -> f a = false) -> filter f l = [].
Proof.
  induction l as [|a l IH]; intro H; cbn; [reflexivity|].
  rewrite (H a (or_introl eq_refl)). apply IH. intros b Hb. apply H. right. exact Hb.
Qed.

(** all maps name reactions: the second call of the popping loop is the build of a mapper WITHOUT maps *)
Theorem popped_second_build ext_bit rk ik lv lm bm i1 i2 m1 :
  NoDup (map r_name (b_rxns bm)) ->
  (forall k, In k (map fst lm) -> In k (map r_name (b_rxns bm))) ->
  build_iso ext_bit rk ik lv lm i1 bm = Ok m1 ->
  session MapsPopped ext_bit rk ik lv lm bm [i1; i2]
  = ([Ok m1; build_iso ext_bit rk ik lv [] i2 bm], []).
Proof.
  intros Hnd Hkeys H1. cbn [session].
  pose proof (popped_first_build ext_bit rk ik lv lm i1 bm Hnd) as Hf.
  pose proof (popped_leftover ext_bit rk ik lv lm i1 bm m1) as Hl.
  destruct (build_iso_st MapsPopped ext_bit rk ik lv lm i1 bm) as [r1 lm1]. cbn [fst snd] in *.
  rewrite H1 in Hf. subst r1. rewrite (Hl eq_refl).
  rewrite filter_none.
  2:{ intros [k v] Hin. cbn [fst]. apply negb_false_iff. unfold memN. apply existsb_exists.
      exists k. split; [|apply N.eqb_refl]. apply Hkeys. apply (in_map fst) in Hin. exact Hin. }
  pose proof (popped_first_build ext_bit rk ik lv [] i2 bm Hnd) as Hf2.
  pose proof (popped_leftover ext_bit rk ik lv [] i2 bm) as Hl2.
  destruct (build_iso_st MapsPopped ext_bit rk ik lv [] i2 bm) as [r2 lm2]. cbn [fst snd] in *.
  subst r2. f_equal.
  destruct (build_iso ext_bit rk ik lv [] i2 bm) as [m2|e] eqn:E.
  - rewrite (Hl2 m2 eq_refl). reflexivity.
  - (* a mapper without maps never raises *)
    exfalso. rewrite build_iso_as_steps in E. cbn [getN dict_get] in E.
    assert (Hc : forall rs, exists xs, collect (map (fun r => rxn_step ext_bit rk lv r (@None (list Z))) rs) = Ok xs).
    { induction rs as [|r rs [xs IH]]; cbn [map collect rxn_step]; [eexists; reflexivity|].
      cbn [rxn_step] in IH. rewrite IH. eexists; reflexivity. }
    destruct (Hc (b_rxns bm)) as [xs Hxs]. unfold getN in E. cbn [dict_get] in E. rewrite Hxs in E. discriminate.
Qed.

(** a mapper without maps builds no isotopomer reaction *)
Theorem no_maps_no_iso_rxns ext_bit rk ik lv init bm m :
  build_iso ext_bit rk ik lv [] init bm = Ok m -> forallb (fun rx => negb (is_iso_rxn rx)) (lm_rxns m) = true.
Proof.
  rewrite build_iso_as_steps. unfold getN. cbn [dict_get].
  assert (Hc : forall rs, exists xs, collect (map (fun r => rxn_step ext_bit rk lv r (@None (list Z))) rs) = Ok xs
                                   /\ forallb (fun rx => negb (is_iso_rxn rx)) (concat xs) = true).
  { induction rs as [|r rs [xs [IH1 IH2]]]; cbn [map collect]; [exists []; split; reflexivity|].
    cbn [rxn_step] in *. rewrite IH1. eexists; split; [reflexivity|]. cbn [concat app forallb]. rewrite IH2. reflexivity. }
  destruct (Hc (b_rxns bm)) as [xs [Hxs Hiso]]. rewrite Hxs. cbn [bind]. intro H. inversion H; subst m. exact Hiso.
Qed.

Theorem popped_second_build_unmapped ext_bit rk ik lv lm bm i1 i2 m1 :
  NoDup (map r_name (b_rxns bm)) ->
  (forall k, In k (map fst lm) -> In k (map r_name (b_rxns bm))) ->
  build_iso ext_bit rk ik lv lm i1 bm = Ok m1 ->
  session MapsPopped ext_bit rk ik lv lm bm [i1; i2] = ([Ok m1; build_iso ext_bit rk ik lv [] i2 bm], [])
  /\ forall m2, build_iso ext_bit rk ik lv [] i2 bm = Ok m2 -> forallb (fun rx => negb (is_iso_rxn rx)) (lm_rxns m2) = true.
Proof.
  intros Hnd Hkeys H1. split; [exact (popped_second_build ext_bit rk ik lv lm bm i1 i2 m1 Hnd Hkeys H1)|].
  exact (no_maps_no_iso_rxns ext_bit rk ik lv i2 bm).
Qed.

(** ---- witness: in -> A(1) -> B(1) -> out, every reaction mapped; reference build, then the tracer on A ---- *)
Definition sw_lv : label_vars := [(1%N, 1); (2%N, 1)].
Definition sw_maps : label_maps := [(40%N, [0%Z]); (41%N, [0%Z]); (42%N, [0%Z])].
Definition sw_base : bmodel :=
  mkBM [(20%N, 1%Z)] [] [(1%N, 3%Z); (2%N, 4%Z)] []
       [mkBR 40%N FProd [20%N] [(1%N, 1%Z)];
        mkBR 41%N FProd [1%N; 20%N] [(1%N, (-1)%Z); (2%N, 1%Z)];
        mkBR 42%N FProd [2%N; 20%N] [(2%N, (-1)%Z)]].
Definition sw_tracer : init_labels := [(1%N, IInt 0%Z)].
Definition sw_env (x : lname) : Z :=
  match x with
  | LIso 1%N [false] => 1%Z | LIso 1%N [true] => 2%Z | LIso 2%N [false] => 3%Z | LIso 2%N [true] => 1%Z
  | LTotal 1%N => 3%Z | LTotal 2%N => 4%Z | LPlain 20%N => 1%Z | _ => 0%Z
  end.

Theorem popped_maps_refuted :
  exists m1 m2 m2' : lmodel Z,
    session MapsPopped true ReplPositional InitIsoName sw_lv sw_maps sw_base [[]; sw_tracer] = ([Ok m1; Ok m2], []) /\
    build_iso true ReplPositional InitIsoName sw_lv sw_maps [] sw_base = Ok m1 /\
    build_iso true ReplPositional InitIsoName sw_lv sw_maps sw_tracer sw_base = Ok m2' /\
    length (filter is_iso_rxn (lm_rxns m1)) = 5 /\ length (filter is_iso_rxn (lm_rxns m2')) = 5 /\
    filter is_iso_rxn (lm_rxns m2) = [] /\
    map lr_name (lm_rxns m2) = [LPlain 40%N; LPlain 41%N; LPlain 42%N] /\
    lm_vars m2 = lm_vars m2' /\
    sumZ (map (fun bits => derivZ sw_env (lm_rxns m2') (iso_name 1%N bits)) (all_patterns (nlab sw_lv 1%N))) = (-2)%Z /\
    sumZ (map (fun bits => derivZ sw_env (lm_rxns m2) (iso_name 1%N bits)) (all_patterns (nlab sw_lv 1%N))) = 0%Z.
Proof.
  destruct (build_iso true ReplPositional InitIsoName sw_lv sw_maps [] sw_base) as [m1|] eqn:E1; [|vm_compute in E1; discriminate].
  destruct (build_iso true ReplPositional InitIsoName sw_lv sw_maps sw_tracer sw_base) as [m2'|] eqn:E2'; [|vm_compute in E2'; discriminate].
  destruct (build_iso true ReplPositional InitIsoName sw_lv [] sw_tracer sw_base) as [m2|] eqn:E2; [|vm_compute in E2; discriminate].
  exists m1, m2, m2'.
  split.
  { assert (Hnd : NoDup (map r_name (b_rxns sw_base))).
    { vm_compute. repeat constructor; intro H; repeat (destruct H as [H|H]; [discriminate|]); exact H. }
    assert (Hkeys : forall k, In k (map fst sw_maps) -> In k (map r_name (b_rxns sw_base))).
    { intros k Hk. vm_compute in Hk |- *. tauto. }
    pose proof (popped_second_build true ReplPositional InitIsoName sw_lv sw_maps sw_base [] sw_tracer m1 Hnd Hkeys E1) as Hs.
    rewrite E2 in Hs. exact Hs. }
  vm_compute in E1, E2, E2'. inversion E1; subst m1. inversion E2; subst m2. inversion E2'; subst m2'.
  repeat split; vm_compute; reflexivity.
Qed.

(** the same history on the tree's form: both calls are complete expansions, the mapper keeps its maps *)
Theorem session_nonvacuous :
  exists m1 m2 : lmodel Z,
    session MapsRead true ReplPositional InitIsoName sw_lv sw_maps sw_base [[]; sw_tracer] = ([Ok m1; Ok m2], sw_maps) /\
    length (filter is_iso_rxn (lm_rxns m1)) = 5 /\ length (filter is_iso_rxn (lm_rxns m2)) = 5 /\
    getL (LIso 1%N [true]) (lm_vars m2) = Some 3%Z /\ getL (LIso 1%N [false]) (lm_vars m1) = Some 3%Z.
Proof.
  rewrite session_read. cbn [map].
  destruct (build_iso true ReplPositional InitIsoName sw_lv sw_maps [] sw_base) as [m1|] eqn:E1; [|vm_compute in E1; discriminate].
  destruct (build_iso true ReplPositional InitIsoName sw_lv sw_maps sw_tracer sw_base) as [m2|] eqn:E2; [|vm_compute in E2; discriminate].
  exists m1, m2. split; [reflexivity|].
  vm_compute in E1, E2. inversion E1; subst m1. inversion E2; subst m2. repeat split; vm_compute; reflexivity.
Qed.
