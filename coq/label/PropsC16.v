(** C16 -- the linear label model tracks the isotopomer model's positional enrichment.

    ONLY theorem statements (written out in full), each closed by [exact <lemma>] and followed by
    [Print Assumptions].  Models: coq/label/Linear.v (src/mxlpy/linear_label_map.py statement by statement) and
    coq/label/Iso.v (label_map.py, property C05).  [gen_label_facts] is REGENERATED from /repo on every run;
    [C16_facts_pinned] breaks when the reading direction used by LinearLabelMapper.build_model, the shape of
    any helper / of the reaction loop, the isotopomer mapper's reading direction or its external-label
    character changes.  Statements that mention [f_lin_dir gen_label_facts] / [ext_bit_of gen_label_facts]
    type-check only while /repo reads a map in the DOCUMENTED direction (product position i <- substrate
    position map[i]; repair fixes/C16-map-direction.diff) and external positions enter as "1".

    Numbers: every statement is for an ARBITRARY commutative ring R (Leibniz equality, [ring_theory]) with a
    ring morphism ofZ from Z and a function rinv used as 1/pool (only [P * rinv P = 1] is ever required, and
    only where stated): Q, R, Z/p ... are instances.

    Modelled class (the hypotheses of C16_enrichment_rate, per mapped reaction): mass action (rate = product of
    its arguments: every unit of the substrate side once + unlabelled constants); stoichiometric coefficients of any
    magnitude on the product side (B -> 2 C) and -- for the per-occurrence form [rk = ReplPositional] of the isotopomer
    mapper's rate-argument renaming, which is the tree since 1a03052 -- also on the substrate side (2 A -> B, 3 A -> B,
    2 A + B -> C); for the dict form (C05's repaired homodimer defect) no compound twice on the substrate side: the
    disjunct [rk = ReplPositional \/ NoDup bs]; the constants must not be listed in label_variables for the
    per-occurrence form (conjunct [rk = ReplPositional -> getN a lv = None]); every compound of the reaction labelled (the linear mapper raises KeyError otherwise),
    the map a bijection of the positions 0 .. max(substrate atoms, product atoms)-1 (atoms are neither
    duplicated nor lost; merges and splits of COMPOUNDS, external positions and non-involutive permutations are
    covered), the supplied pool sizes / fluxes are those of the isotopomer state (pool = sum of the isotopomers,
    flux = rate at the pools).  Every reaction that touches a labelled compound is mapped. *)
From Coq Require Import List ZArith NArith Bool Arith Permutation Ring.
From MxlBase Require Import ListX.
From Label Require Import LModel Iso Linear LinSession GenLabelFacts Exec Algebra IsoProofs IsoPropsZ LinearProofs LinearProps LinearCoef LinSessionProofs.
Import ListNotations.

Theorem C16_facts_pinned :
  f_lin_dir gen_label_facts = DirDocumented /\ f_lin_helpers gen_label_facts = true /\
  f_iso_dir gen_label_facts = IsoDocumented /\ f_ext_bit gen_label_facts = Some true /\
  f_lin_expand gen_label_facts = ExpDuplicated.
Proof. vm_compute. repeat split. Qed.
Print Assumptions C16_facts_pinned.

(** C16, main statement.  For all label counts, all lists of mapped reactions in the modelled class, all
    isotopomer states envI and the linear state envL carrying the same pools, fluxes and enrichments
    (enrichment * pool = marginal sum of the isotopomers carrying that position), external pool fully labelled:
    the derivative the linear model assigns to position i of compound c is (1/pool) * the marginal sum of the
    isotopomer model's derivatives; and at a metabolic steady state (pool of c stationary in the isotopomer
    model, dP = 0) that is exactly the derivative of the enrichment m/P (quotient rule, cross-multiplied). *)
Theorem C16_enrichment_rate :
  forall (R : Type) (rO rI : R) (radd rmul rsub : R -> R -> R) (ropp rinv : R -> R) (ofZ : Z -> R),
    ring_theory rO rI radd rmul rsub ropp eq ->
    ofZ 0%Z = rO -> ofZ 1%Z = rI ->
    (forall a b : Z, ofZ (a + b)%Z = radd (ofZ a) (ofZ b)) ->
    (forall a : Z, ofZ (- a)%Z = ropp (ofZ a)) ->
    forall (rk : repl_kind) (lv : label_vars) (rms : list (brxn * list Z)) (envI envL : lname -> R)
           (isos : list (N * list lname)) (irs lrs : list (list lrxn)),
      Forall (fun rm =>
                let r := fst rm in
                let bs := subs_of (r_stoich r) in let bp := prods_of (r_stoich r) in
                exists (extra : list N) (mun : list nat),
                  r_fn r = FProd /\ Permutation (r_args r) (bs ++ extra) /\ NoDup (map fst (r_stoich r)) /\ (rk = ReplPositional \/ NoDup bs) /\
                  (forall a, In a extra -> ~ In a bs /\ ~ In a bp /\ nlab lv a = O /\ (rk = ReplPositional -> getN a lv = None)) /\
                  (forall c, In c (bs ++ bp) -> O < nlab lv c) /\
                  snd rm = map Z.of_nat mun /\
                  Permutation mun (seq O (Nat.max (total (labels_per lv bs)) (total (labels_per lv bp)))) /\
                  envL (LPlain (r_name r)) = prodR R rI rmul (map (benv R rO radd lv envI) (r_args r))) rms ->
      collect (map (fun rm => create_iso_rxns (ext_bit_of gen_label_facts) rk lv (fst rm) (snd rm)) rms) = Ok irs ->
      lin_isotopomers lv = Ok isos ->
      collect (map (fun rm => lin_rxns (f_lin_dir gen_label_facts) isos (fst rm) (snd rm)) rms) = Ok lrs ->
      (forall c, O < nlab lv c -> envL (LPlain c) = benv R rO radd lv envI c) ->
      (forall c j, j < nlab lv c ->
         rmul (envL (LPos c (Z.of_nat j))) (envL (LPlain c)) = marg R rO rI radd rmul envI lv c j) ->
      envL LExt = rI ->
      forall c i, i < nlab lv c ->
        let P := envL (LPlain c) in
        let m := marg R rO rI radd rmul envI lv c i in
        let dm := sumR R rO radd (map (fun bits => rmul (bit R rO rI bits i)
                                                       (deriv R rO rI radd rmul ropp rinv ofZ envI (concat irs) (iso_name c bits)))
                                      (all_patterns (nlab lv c))) in
        let dP := sumR R rO radd (map (fun bits => deriv R rO rI radd rmul ropp rinv ofZ envI (concat irs) (iso_name c bits))
                                      (all_patterns (nlab lv c))) in
        deriv R rO rI radd rmul ropp rinv ofZ envL (concat lrs) (LPos c (Z.of_nat i)) = rmul (rinv P) dm
        /\ (rmul P (rinv P) = rI -> dP = rO ->
            rmul (deriv R rO rI radd rmul ropp rinv ofZ envL (concat lrs) (LPos c (Z.of_nat i))) (rmul P P)
            = rsub (rmul dm P) (rmul m dP)).
Proof. exact enrichment_rate_steady. Qed.
Print Assumptions C16_enrichment_rate.

(** C16 on the tree as it is, with NO restriction on repeated substrates: the isotopomer mapper's renaming block is the
    REGENERATED fact [f_repl gen_label_facts] (the statement type-checks only while that fact is ReplPositional, the
    per-occurrence form), so homodimers and higher coefficients on the substrate side (2 A -> B, 3 A -> B, 2 A + B -> C)
    are inside: every unit of the stoichiometry stands once in the mass-action rate ([Permutation (r_args r) (bs ++ extra)]
    with [bs] the duplicate list), each copy of a substrate position is drained by the flux, each copy of a product
    receives label.  The constants of the rate ([extra]) are not listed in label_variables. *)
Theorem C16_enrichment_rate_any_coefficients :
  forall (R : Type) (rO rI : R) (radd rmul rsub : R -> R -> R) (ropp rinv : R -> R) (ofZ : Z -> R),
    ring_theory rO rI radd rmul rsub ropp eq ->
    ofZ 0%Z = rO -> ofZ 1%Z = rI ->
    (forall a b : Z, ofZ (a + b)%Z = radd (ofZ a) (ofZ b)) ->
    (forall a : Z, ofZ (- a)%Z = ropp (ofZ a)) ->
    forall (lv : label_vars) (rms : list (brxn * list Z)) (envI envL : lname -> R)
           (isos : list (N * list lname)) (irs lrs : list (list lrxn)),
      Forall (fun rm =>
                let r := fst rm in
                let bs := subs_of (r_stoich r) in let bp := prods_of (r_stoich r) in
                exists (extra : list N) (mun : list nat),
                  r_fn r = FProd /\ Permutation (r_args r) (bs ++ extra) /\ NoDup (map fst (r_stoich r)) /\
                  (forall a, In a extra -> ~ In a bs /\ ~ In a bp /\ getN a lv = None) /\
                  (forall c, In c (bs ++ bp) -> O < nlab lv c) /\
                  snd rm = map Z.of_nat mun /\
                  Permutation mun (seq O (Nat.max (total (labels_per lv bs)) (total (labels_per lv bp)))) /\
                  envL (LPlain (r_name r)) = prodR R rI rmul (map (benv R rO radd lv envI) (r_args r))) rms ->
      collect (map (fun rm => create_iso_rxns (ext_bit_of gen_label_facts) (f_repl gen_label_facts) lv (fst rm) (snd rm)) rms) = Ok irs ->
      lin_isotopomers lv = Ok isos ->
      collect (map (fun rm => lin_rxns_x (f_lin_expand gen_label_facts) (f_lin_dir gen_label_facts) isos (fst rm) (snd rm)) rms) = Ok lrs ->
      (forall c, O < nlab lv c -> envL (LPlain c) = benv R rO radd lv envI c) ->
      (forall c j, j < nlab lv c ->
         rmul (envL (LPos c (Z.of_nat j))) (envL (LPlain c)) = marg R rO rI radd rmul envI lv c j) ->
      envL LExt = rI ->
      forall c i, i < nlab lv c ->
        let P := envL (LPlain c) in
        let m := marg R rO rI radd rmul envI lv c i in
        let dm := sumR R rO radd (map (fun bits => rmul (bit R rO rI bits i)
                                                       (deriv R rO rI radd rmul ropp rinv ofZ envI (concat irs) (iso_name c bits)))
                                      (all_patterns (nlab lv c))) in
        let dP := sumR R rO radd (map (fun bits => deriv R rO rI radd rmul ropp rinv ofZ envI (concat irs) (iso_name c bits))
                                      (all_patterns (nlab lv c))) in
        deriv R rO rI radd rmul ropp rinv ofZ envL (concat lrs) (LPos c (Z.of_nat i)) = rmul (rinv P) dm
        /\ (rmul P (rinv P) = rI -> dP = rO ->
            rmul (deriv R rO rI radd rmul ropp rinv ofZ envL (concat lrs) (LPos c (Z.of_nat i))) (rmul P P)
            = rsub (rmul dm P) (rmul m dP)).
Proof. exact enrichment_rate_steady_positional. Qed.
Print Assumptions C16_enrichment_rate_any_coefficients.

(** the change seeded as C16-4 (build_model iterating the {compound: coefficient} dicts instead of the duplicate lists,
    fact value ExpKeysOnly) cannot be seen on coefficients +1 / -1: it builds the same per-position reactions, for any
    map, any reading direction, any position dict *)
Theorem C16_keys_only_same_on_unit_coefficients :
  forall (dir : direction) (isos : list (N * list lname)) (r : brxn) (lmap : list Z),
    (forall k v, In (k, v) (r_stoich r) -> v = 1%Z \/ v = (-1)%Z) ->
    lin_rxns_x ExpKeysOnly dir isos r lmap = lin_rxns dir isos r lmap.
Proof. exact keys_only_same_on_unit_coefficients. Qed.
Print Assumptions C16_keys_only_same_on_unit_coefficients.

(** ... and it breaks the property as soon as a coefficient has magnitude 2: regression witness B(2) -> 2 C(1), identity
    map, all of B in isotopomer 01, inside the modelled class of C16_enrichment_rate (no compound twice on the substrate
    side): every hypothesis holds, the isotopomer model raises the enrichment of C's position at rate 1 and so does the
    linear model with the duplicate lists ([lrxns_dup]); with the keys-only expansion C's position is listed once, B's
    second position is sent to EXT and the linear rate is 0 *)
Theorem C16_keys_only_expansion_refuted :
  forall rk : repl_kind,
  exists (lv : label_vars) (r : brxn) (extra : list N) (mun : list nat) (envI envL : lname -> Z)
         (isos : list (N * list lname)) (irxns lrxns lrxns_dup : list lrxn) (c : N) (i : nat),
    let bs := subs_of (r_stoich r) in let bp := prods_of (r_stoich r) in
    r_fn r = FProd /\ Permutation (r_args r) (bs ++ extra) /\ NoDup (map fst (r_stoich r)) /\ NoDup bs /\
    (forall a, In a extra -> ~ In a bs /\ ~ In a bp /\ nlab lv a = 0 /\ (rk = ReplPositional -> getN a lv = None)) /\
    (forall c, In c (bs ++ bp) -> 0 < nlab lv c) /\
    Permutation mun (seq 0 (Nat.max (total (labels_per lv bs)) (total (labels_per lv bp)))) /\
    create_iso_rxns true rk lv r (map Z.of_nat mun) = Ok irxns /\
    lin_isotopomers lv = Ok isos /\
    lin_rxns_x ExpKeysOnly DirDocumented isos r (map Z.of_nat mun) = Ok lrxns /\
    lin_rxns_x ExpDuplicated DirDocumented isos r (map Z.of_nat mun) = Ok lrxns_dup /\
    (forall c, In c (bs ++ bp) -> envL (LPlain c) = benv Z 0%Z Z.add lv envI c /\ (envL (LPlain c) * idZ (envL (LPlain c)) = 1)%Z) /\
    envL (LPlain (r_name r)) = prodR Z 1%Z Z.mul (map (benv Z 0%Z Z.add lv envI) (r_args r)) /\
    (forall c j, In c bs -> j < nlab lv c ->
       (envL (LPos c (Z.of_nat j)) * envL (LPlain c))%Z = marg Z 0%Z 1%Z Z.add Z.mul envI lv c j) /\
    envL LExt = 1%Z /\
    In c (bs ++ bp) /\ i < nlab lv c /\
    deriv Z 0%Z 1%Z Z.add Z.mul Z.opp idZ idZ envL lrxns (LPos c (Z.of_nat i)) = 0%Z /\
    deriv Z 0%Z 1%Z Z.add Z.mul Z.opp idZ idZ envL lrxns_dup (LPos c (Z.of_nat i)) = 1%Z /\
    (idZ (envL (LPlain c))
     * sumR Z 0%Z Z.add (map (fun bits => bit Z 0%Z 1%Z bits i
                                          * deriv Z 0%Z 1%Z Z.add Z.mul Z.opp idZ idZ envI irxns (iso_name c bits))
                             (all_patterns (nlab lv c))))%Z = 1%Z.
Proof. exact keys_only_refuted. Qed.
Print Assumptions C16_keys_only_expansion_refuted.

(** regression witness for the PRE-REPAIR reading direction (fact value DirInverse: res[map[j]] = substrate j,
    the inverse permutation): with that fact the one-reaction statement fails for the 3-cycle [1;2;0] -- all
    hypotheses hold, the isotopomer model raises the enrichment of B's position 2 at rate 1, the linear model
    at rate 0.  (For involutive maps the two directions coincide, which is why identity / reversal maps cannot
    see it.) *)
Theorem C16_direction_prefix_refuted :
  forall rk : repl_kind,
  exists (lv : label_vars) (r : brxn) (extra : list N) (mun : list nat) (envI envL : lname -> Z)
         (isos : list (N * list lname)) (irxns lrxns : list lrxn) (c : N) (i : nat),
    let bs := subs_of (r_stoich r) in let bp := prods_of (r_stoich r) in
    r_fn r = FProd /\ Permutation (r_args r) (bs ++ extra) /\ NoDup (map fst (r_stoich r)) /\ NoDup bs /\
    (forall a, In a extra -> ~ In a bs /\ ~ In a bp /\ nlab lv a = 0 /\ (rk = ReplPositional -> getN a lv = None)) /\
    (forall c, In c (bs ++ bp) -> 0 < nlab lv c) /\
    Permutation mun (seq 0 (Nat.max (total (labels_per lv bs)) (total (labels_per lv bp)))) /\
    create_iso_rxns true rk lv r (map Z.of_nat mun) = Ok irxns /\
    lin_isotopomers lv = Ok isos /\
    lin_rxns DirInverse isos r (map Z.of_nat mun) = Ok lrxns /\
    (forall c, In c (bs ++ bp) -> envL (LPlain c) = benv Z 0%Z Z.add lv envI c /\ (envL (LPlain c) * idZ (envL (LPlain c)) = 1)%Z) /\
    envL (LPlain (r_name r)) = prodR Z 1%Z Z.mul (map (benv Z 0%Z Z.add lv envI) (r_args r)) /\
    (forall c j, In c bs -> j < nlab lv c ->
       (envL (LPos c (Z.of_nat j)) * envL (LPlain c))%Z = marg Z 0%Z 1%Z Z.add Z.mul envI lv c j) /\
    envL LExt = 1%Z /\
    In c (bs ++ bp) /\ i < nlab lv c /\
    deriv Z 0%Z 1%Z Z.add Z.mul Z.opp idZ idZ envL lrxns (LPos c (Z.of_nat i)) = 0%Z /\
    (idZ (envL (LPlain c))
     * sumR Z 0%Z Z.add (map (fun bits => bit Z 0%Z 1%Z bits i
                                          * deriv Z 0%Z 1%Z Z.add Z.mul Z.opp idZ idZ envI irxns (iso_name c bits))
                             (all_patterns (nlab lv c))))%Z = 1%Z.
Proof. exact direction_refuted_inverse. Qed.
Print Assumptions C16_direction_prefix_refuted.

(** for any external enrichment e, uniform enrichment of all positions equal to the external pool is stationary
    (network balanced for c at the supplied fluxes: sum over the mapped reactions of coefficient * flux = 0) *)
Theorem C16_uniform_stationary :
  forall (R : Type) (rO rI : R) (radd rmul rsub : R -> R -> R) (ropp rinv : R -> R) (ofZ : Z -> R),
    ring_theory rO rI radd rmul rsub ropp eq ->
    ofZ 0%Z = rO -> ofZ 1%Z = rI ->
    (forall a b : Z, ofZ (a + b)%Z = radd (ofZ a) (ofZ b)) ->
    (forall a : Z, ofZ (- a)%Z = ropp (ofZ a)) ->
    forall (lv : label_vars) (rms : list (brxn * list Z)) (env : lname -> R) (e : R)
           (isos : list (N * list lname)) (lrs : list (list lrxn)),
      Forall (fun rm =>
                let r := fst rm in
                let bs := subs_of (r_stoich r) in let bp := prods_of (r_stoich r) in
                NoDup (map fst (r_stoich r)) /\
                (forall c, In c (bs ++ bp) -> O < nlab lv c) /\
                exists mun : list nat,
                  snd rm = map Z.of_nat mun /\
                  Permutation mun (seq O (Nat.max (total (labels_per lv bs)) (total (labels_per lv bp))))) rms ->
      lin_isotopomers lv = Ok isos ->
      collect (map (fun rm => lin_rxns (f_lin_dir gen_label_facts) isos (fst rm) (snd rm)) rms) = Ok lrs ->
      env LExt = e -> (forall c j, env (LPos c j) = e) ->
      forall c i, i < nlab lv c ->
        sumR R rO radd (map (fun rm => rmul (ofZ (match getN c (r_stoich (fst rm)) with Some v => v | None => 0%Z end))
                                            (env (LPlain (r_name (fst rm))))) rms) = rO ->
        deriv R rO rI radd rmul ropp rinv ofZ env (concat lrs) (LPos c (Z.of_nat i)) = rO.
Proof. exact uniform_stationary_model. Qed.
Print Assumptions C16_uniform_stationary.

(** with no external and no initial label none appears: for EVERY input on which LinearLabelMapper.build_model
    succeeds (any maps, any reading direction), at the all-zero labelling state with EXT = 0 every derivative is 0 *)
Theorem C16_no_label_stays_zero :
  forall (R : Type) (rO rI : R) (radd rmul rsub : R -> R -> R) (ropp rinv : R -> R) (ofZ : Z -> R),
    ring_theory rO rI radd rmul rsub ropp eq ->
    forall (dir : direction) (lv : label_vars) (lmaps : label_maps) (init : option init_labels)
           (concs fluxes : list (N * QArith_base.Q)) (ext : QArith_base.Q) (rxns : list brxn)
           (m : lmodel QArith_base.Q) (env : lname -> R) (X : lname),
      build_linear dir lv lmaps init concs fluxes ext rxns = Ok m ->
      env LExt = rO -> (forall c j, env (LPos c j) = rO) ->
      deriv R rO rI radd rmul ropp rinv ofZ env (lm_rxns m) X = rO.
Proof. exact no_label_build_linear. Qed.
Print Assumptions C16_no_label_stays_zero.

(** non-vacuity: A(3) -> B(3), rate k*A, the 3-cycle [1;2;0] (not an involution), pools 1, flux 1, all of A in
    isotopomer 100: every hypothesis of C16_enrichment_rate holds and both models are built (8 isotopomer
    reactions, 3 label transfers) *)
Example C16_nonvacuous :
  forall rk : repl_kind,
  let rms := [(rf_rxn, map Z.of_nat rf_map)] in
  Forall (fun rm =>
            let r := fst rm in
            let bs := subs_of (r_stoich r) in let bp := prods_of (r_stoich r) in
            exists (extra : list N) (mun : list nat),
              r_fn r = FProd /\ Permutation (r_args r) (bs ++ extra) /\ NoDup (map fst (r_stoich r)) /\ (rk = ReplPositional \/ NoDup bs) /\
              (forall a, In a extra -> ~ In a bs /\ ~ In a bp /\ nlab rf_lv a = O /\ (rk = ReplPositional -> getN a rf_lv = None)) /\
              (forall c, In c (bs ++ bp) -> O < nlab rf_lv c) /\
              snd rm = map Z.of_nat mun /\
              Permutation mun (seq O (Nat.max (total (labels_per rf_lv bs)) (total (labels_per rf_lv bp)))) /\
              rf_envL (LPlain (r_name r)) = prodR Z 1%Z Z.mul (map (benv Z 0%Z Z.add rf_lv rf_envI) (r_args r))) rms /\
  (exists irs, collect (map (fun rm => create_iso_rxns true rk rf_lv (fst rm) (snd rm)) rms) = Ok irs /\ length (concat irs) = 8) /\
  (exists isos lrs, lin_isotopomers rf_lv = Ok isos /\
                    collect (map (fun rm => lin_rxns DirDocumented isos (fst rm) (snd rm)) rms) = Ok lrs /\ length (concat lrs) = 3) /\
  (forall c, O < nlab rf_lv c -> rf_envL (LPlain c) = benv Z 0%Z Z.add rf_lv rf_envI c) /\
  (forall c j, j < nlab rf_lv c ->
     (rf_envL (LPos c (Z.of_nat j)) * rf_envL (LPlain c))%Z = marg Z 0%Z 1%Z Z.add Z.mul rf_envI rf_lv c j) /\
  rf_envL LExt = 1%Z.
Proof. exact enrichment_nonvacuous. Qed.
Print Assumptions C16_nonvacuous.

(** non-vacuity of C16_enrichment_rate_any_coefficients for a homodimer: 2 A(1) -> B(2), rate k*A*A, map [1;0], A fully
    labelled: A stands twice on the substrate side, every hypothesis holds, both models are built (4 isotopomer reactions,
    2 label transfers), and the linear model drains A's position at rate -2 (both copies) and feeds B's position 1 at rate 1 *)
Example C16_homodimer_nonvacuous :
  let rms := [(hd2_rxn, map Z.of_nat hd2_map)] in
  ~ NoDup (subs_of (r_stoich hd2_rxn)) /\
  Forall (fun rm =>
            let r := fst rm in
            let bs := subs_of (r_stoich r) in let bp := prods_of (r_stoich r) in
            exists (extra : list N) (mun : list nat),
              r_fn r = FProd /\ Permutation (r_args r) (bs ++ extra) /\ NoDup (map fst (r_stoich r)) /\
              (forall a, In a extra -> ~ In a bs /\ ~ In a bp /\ getN a hd2_lv = None) /\
              (forall c, In c (bs ++ bp) -> O < nlab hd2_lv c) /\
              snd rm = map Z.of_nat mun /\
              Permutation mun (seq O (Nat.max (total (labels_per hd2_lv bs)) (total (labels_per hd2_lv bp)))) /\
              hd2_envL (LPlain (r_name r)) = prodR Z 1%Z Z.mul (map (benv Z 0%Z Z.add hd2_lv hd2_envI) (r_args r))) rms /\
  (exists irs, collect (map (fun rm => create_iso_rxns true ReplPositional hd2_lv (fst rm) (snd rm)) rms) = Ok irs /\ length (concat irs) = 4) /\
  (exists isos lrs, lin_isotopomers hd2_lv = Ok isos /\
                    collect (map (fun rm => lin_rxns DirDocumented isos (fst rm) (snd rm)) rms) = Ok lrs /\ length (concat lrs) = 2) /\
  (forall c, O < nlab hd2_lv c -> hd2_envL (LPlain c) = benv Z 0%Z Z.add hd2_lv hd2_envI c) /\
  (forall c j, j < nlab hd2_lv c ->
     (hd2_envL (LPos c (Z.of_nat j)) * hd2_envL (LPlain c))%Z = marg Z 0%Z 1%Z Z.add Z.mul hd2_envI hd2_lv c j) /\
  hd2_envL LExt = 1%Z /\
  (forall isos lrs, lin_isotopomers hd2_lv = Ok isos ->
                    collect (map (fun rm => lin_rxns DirDocumented isos (fst rm) (snd rm)) rms) = Ok lrs ->
                    deriv Z 0%Z 1%Z Z.add Z.mul Z.opp idZ idZ hd2_envL (concat lrs) (LPos 1%N 0%Z) = (-2)%Z /\
                    deriv Z 0%Z 1%Z Z.add Z.mul Z.opp idZ idZ hd2_envL (concat lrs) (LPos 2%N 1%Z) = 1%Z).
Proof. exact enrichment_homodimer_nonvacuous. Qed.
Print Assumptions C16_homodimer_nonvacuous.

From Coq Require Import QArith.
(** ---- the LinearLabelMapper OBJECT over its life (closing pass for seeded C16-9; model LinSession.v) ------------------

    The property compares the label model with the isotopomer model "built from the same label counts and atom maps".  The
    counts and maps are PUBLIC, MUTABLE fields of the mapper: the label model of a call must be the one of the values the
    fields hold AT THAT CALL, whatever was built or edited before.  [gen_lin_cache] is regenerated from the class on every
    run (dataclass fields, methods, what build_model reads from self). *)
Theorem C16_lin_cache_pinned : gen_lin_cache = CacheNone.
Proof. vm_compute. reflexivity. Qed.
Print Assumptions C16_lin_cache_pinned.

(** the tree: for EVERY history of operations on one mapper (in-place edits of a map / a label count, new dicts, builds for any
    steady states and initial labels, in any order and number, starting from ANY mapper state) every build_model call returns
    exactly what a fresh mapper holding the current field values returns -- so every statement above about [lin_rxns] /
    [build_linear] applies to every call with the CURRENT counts and maps -- and no call writes the two dicts *)
Theorem C16_every_build_reads_the_current_maps :
  forall (per : per_rxn_t) (rxns : list brxn) (ops : list lin_op) (mp : mapper),
    fst (lin_session CacheNone per rxns mp ops) = fresh_builds per rxns (mp_lv mp) (mp_maps mp) ops /\
    (mp_lv (snd (lin_session CacheNone per rxns mp ops)), mp_maps (snd (lin_session CacheNone per rxns mp ops)))
    = fields_after (mp_lv mp) (mp_maps mp) ops.
Proof. exact session_none_fresh. Qed.
Print Assumptions C16_every_build_reads_the_current_maps.

(** build_model = (variables, initial labels, parameters: current counts + the call's arguments) + (per-position reactions:
    counts, maps and network only) -- the split the seeded change C16-9 caches along; sound as an identity *)
Theorem C16_build_splits_into_transfers_and_state :
  forall (per : per_rxn_t) (lv : label_vars) (lmaps : label_maps) (a : build_args) (rxns : list brxn),
    build_linear_with per lv lmaps (ba_init a) (ba_concs a) (ba_fluxes a) (ba_ext a) rxns
    = build_linear_from lv a (lin_transfers per lv lmaps rxns).
Proof. exact build_linear_split. Qed.
Print Assumptions C16_build_splits_into_transfers_and_state.

(** regression model of the seeded shape (transfers cached on the mapper, validated against a snapshot that holds the same dict
    objects): what still holds -- edits made BEFORE the first build and any number of builds after it (other steady states,
    other initial labels: the documented use of the cache) answer like fresh mappers.
    Full statement (false for this shape, see the witness below):
      forall per rxns ops lv lmaps, fst (lin_session CacheAliased per rxns (new_mapper lv lmaps) ops) = fresh_builds per rxns lv lmaps ops *)
Theorem C16_aliased_cache_unedited_partial :
  forall (per : per_rxn_t) (rxns : list brxn) (edits builds : list lin_op) (mp : mapper),
    mp_tr mp = None ->
    forallb (fun op => negb (is_build op)) edits = true -> forallb is_build builds = true ->
    fst (lin_session CacheAliased per rxns mp (edits ++ builds))
    = fresh_builds per rxns (mp_lv mp) (mp_maps mp) (edits ++ builds).
Proof. exact aliased_unedited_fresh. Qed.
Print Assumptions C16_aliased_cache_unedited_partial.

(** ... and the witness: -> A(3) -> B(3) -> with identity maps, pools and fluxes 1; build, `label_maps[v41] = [1, 2, 0]` in
    place, build again.  With the aliased cache the second call returns the FIRST model again; the fresh build differs; at the
    state "enrichment 1 at A's position 0" the current map feeds B's position 2 at rate 1 (the isotopomer model's rate, see
    C16_direction_prefix_refuted's last conjunct for the same reaction and map), the stale model feeds position 0 instead.
    Also the non-vacuity witness of the two session theorems: both builds succeed and differ in the fresh semantics. *)
Theorem C16_aliased_cache_in_place_edit_refuted :
  exists (lin1 lin2 fresh2 : lmodel Q),
    fst (lin_session CacheAliased (lin_rxns DirDocumented) sw_rxns (new_mapper sw_lv sw_maps) sw_ops) = [Ok lin1; Ok lin2] /\
    fresh_builds (lin_rxns DirDocumented) sw_rxns sw_lv sw_maps sw_ops = [Ok lin1; Ok fresh2] /\
    lin2 = lin1 /\ lm_rxns lin2 <> lm_rxns fresh2 /\
    rhs_exec (fun q => q) fresh2 sw_state = Some [0; 1; 1; 0; 0; 1]%Q /\
    rhs_exec (fun q => q) lin2 sw_state = Some [0; 1; 1; 1; 0; 0]%Q.
Proof. exact aliased_in_place_refuted. Qed.
Print Assumptions C16_aliased_cache_in_place_edit_refuted.
