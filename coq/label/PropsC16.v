From Label Require Import LModel Iso Linear GenLabelFacts.
Theorem C16_facts_pinned :
  f_lin_dir gen_label_facts = DirInverse /\ f_lin_helpers gen_label_facts = true /\ f_iso_dir gen_label_facts = IsoDocumented.
Proof. vm_compute. repeat split. Qed.
Print Assumptions C16_facts_pinned.
