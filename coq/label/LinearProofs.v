(** Proofs about the linear label mapper model (Linear.v), property C16.

    - [lin_loop_deriv]        closed form of the right-hand side of one mapped reaction
    - [no_label_stays_zero]   without label anywhere (and an unlabelled external pool) nothing moves,
                              for both reading directions
    - [enrichment_rate_rxn]   at a metabolic steady state of a mass-action reaction, with the DOCUMENTED
                              reading direction, the linear model's derivative of a label position equals
                              (1/pool) * the marginal sum of the isotopomer model's derivatives. *)
From Coq Require Import List ZArith NArith Bool Arith Lia Permutation Ring.
From MxlBase Require Import ListX.
From Label Require Import LModel Iso Linear Algebra IsoProofs.
Import ListNotations.

(** ---- generic list lemmas ------------------------------------------------------------------------ *)
Lemma combine_nil_r {A B} (l : list A) : combine l (@nil B) = [].
Proof. destruct l; reflexivity. Qed.

Lemma combine_app_gen {A B} (l1 l2 : list A) (l' : list B) :
  combine (l1 ++ l2) l' = combine l1 (firstn (length l1) l') ++ combine l2 (skipn (length l1) l').
Proof.
  revert l'. induction l1 as [|x l1 IH]; intro l'; cbn [app length firstn skipn combine]; [reflexivity|].
  destruct l' as [|y l']; cbn [combine app].
  - rewrite combine_nil_r. reflexivity.
  - rewrite IH. reflexivity.
Qed.

Lemma combine_app_eq {A B} (l1 l2 : list A) (k1 k2 : list B) :
  length l1 = length k1 -> combine (l1 ++ l2) (k1 ++ k2) = combine l1 k1 ++ combine l2 k2.
Proof.
  revert k1. induction l1 as [|x l1 IH]; intros [|y k1] H; cbn in H; try discriminate; cbn [app combine].
  - reflexivity.
  - rewrite IH by lia. reflexivity.
Qed.

Lemma combine_map_r {A B C} (f : B -> C) (l : list A) (l' : list B) :
  combine l (map f l') = map (fun ab => (fst ab, f (snd ab))) (combine l l').
Proof.
  revert l'. induction l as [|x l IH]; intros [|y l']; cbn [map combine fst snd]; try reflexivity.
  rewrite IH. reflexivity.
Qed.

Lemma combine_map_self {A B} (g : A -> B) (l : list A) :
  combine (map g l) l = map (fun k => (g k, k)) l.
Proof. induction l as [|x l IH]; cbn [map combine]; [reflexivity|]. rewrite IH. reflexivity. Qed.

Lemma combine_map_map {A B C} (g : A -> B) (g' : A -> C) (l : list A) :
  combine (map g l) (map g' l) = map (fun k => (g k, g' k)) l.
Proof. induction l as [|x l IH]; cbn [map combine]; [reflexivity|]. rewrite IH. reflexivity. Qed.

Lemma map_snd_combine {A B} (l : list A) (l' : list B) : length l = length l' -> map snd (combine l l') = l'.
Proof.
  revert l'. induction l as [|x l IH]; intros [|y l'] H; cbn in *; try reflexivity; try discriminate.
  f_equal. apply IH. lia.
Qed.

Lemma seq_as_map a n : seq a n = map (fun k => a + k) (seq 0 n).
Proof.
  revert a. induction n as [|n IH]; intro a; cbn [seq map]; [reflexivity|].
  rewrite Nat.add_0_r. f_equal. rewrite <- (seq_shift n 0), map_map, (IH (S a)).
  apply map_ext. intro k. lia.
Qed.

Lemma map_nth_firstn {A} (l : list A) d n :
  n <= length l -> map (fun h => nth h l d) (seq 0 n) = firstn n l.
Proof.
  revert n. induction l as [|x l IH]; intros n Hn; cbn [length] in Hn.
  - replace n with 0 by lia. reflexivity.
  - destruct n as [|n]; [reflexivity|]. cbn [seq map firstn nth]. f_equal.
    rewrite <- (seq_shift n 0), map_map. cbn [nth]. apply IH. lia.
Qed.

Lemma map_nth_seq {A} (l : list A) d : map (fun h => nth h l d) (seq 0 (length l)) = l.
Proof. rewrite map_nth_firstn by lia. apply firstn_all. Qed.

Lemma combine_seq_nth {A} (l : list A) d :
  combine l (seq 0 (length l)) = map (fun h => (nth h l d, h)) (seq 0 (length l)).
Proof. rewrite <- (map_nth_seq l d) at 1. apply combine_map_self. Qed.

Lemma nth_map_lt {A B} (f : A -> B) l d d' h : h < length l -> nth h (map f l) d' = f (nth h l d).
Proof.
  intro H. rewrite (nth_indep (map f l) d' (f d)) by (rewrite map_length; exact H). apply map_nth.
Qed.

Lemma nth_firstn_lt {A} (l : list A) d n i : i < n -> nth i (firstn n l) d = nth i l d.
Proof.
  revert l i. induction n as [|n IH]; intros l i H; [lia|].
  destruct l as [|x l]; [reflexivity|]. destruct i as [|i]; cbn [firstn nth]; [reflexivity|]. apply IH. lia.
Qed.

Lemma nth_skipn_add {A} (l : list A) d a i : nth i (skipn a l) d = nth (a + i) l d.
Proof.
  revert l. induction a as [|a IH]; intro l; [reflexivity|].
  destruct l as [|x l]; cbn [skipn Nat.add nth]; [destruct i; reflexivity|]. apply IH.
Qed.

Lemma skipn_skipn_add {A} (l : list A) a b : skipn a (skipn b l) = skipn (b + a) l.
Proof.
  revert l. induction b as [|b IH]; intro l; [reflexivity|].
  destruct l as [|x l]; cbn [skipn Nat.add]; [destruct a; reflexivity|]. apply IH.
Qed.

Lemma nth_repeat_lt {A} (a d : A) m k : k < m -> nth k (repeat a m) d = a.
Proof.
  revert k. induction m as [|m IH]; intros k H; [lia|].
  destruct k as [|k]; cbn [repeat nth]; [reflexivity|]. apply IH. lia.
Qed.

Lemma firstn_incl {A} n (l : list A) x : In x (firstn n l) -> In x l.
Proof.
  revert l. induction n as [|n IH]; intros l H; [destruct H|].
  destruct l as [|y l]; [destruct H|]. cbn [firstn] in H. destruct H as [H|H]; [left; exact H|right; apply IH; exact H].
Qed.

Lemma dict_get_In {K V} (eqd : forall a b : K, {a = b} + {a <> b}) k (v : V) d :
  dict_get eqd k d = Some v -> In (k, v) d.
Proof.
  induction d as [|[k' v'] d IH]; cbn [dict_get]; intro H; [discriminate|].
  destruct (eqd k k') as [->|]; [inversion H; left; reflexivity|right; apply IH; exact H].
Qed.

Lemma collect_map_Forall2 {A B} (f : A -> result B) l ys :
  Forall2 (fun x y => f x = Ok y) l ys -> collect (map f l) = Ok ys.
Proof.
  induction 1 as [|x y l ys H _ IH]; cbn [map collect]; [reflexivity|]. rewrite H, IH. reflexivity.
Qed.

(** ---- Python indexing with in-range natural indices ---------------------------------------------- *)
Lemma py_index_nat {A} (l : list A) h : h < length l -> py_index l (Z.of_nat h) = nth_error l h.
Proof.
  intro H. unfold py_index, py_norm.
  destruct (Z.leb_spec 0 (Z.of_nat h)) as [_|H0]; [|lia].
  destruct (Z.ltb_spec (Z.of_nat h) (Z.of_nat (length l))) as [_|H1]; [|lia].
  rewrite Nat2Z.id. reflexivity.
Qed.

Lemma mapM_py_index_nat {A} (l : list A) d (mun : list nat) :
  (forall h, In h mun -> h < length l) ->
  mapM (py_index l) (map Z.of_nat mun) = Some (map (fun h => nth h l d) mun).
Proof.
  induction mun as [|h mun IH]; intro H; cbn [map mapM]; [reflexivity|].
  rewrite py_index_nat by (apply H; left; reflexivity).
  rewrite (nth_error_nth' l d) by (apply H; left; reflexivity).
  rewrite IH by (intros k Hk; apply H; right; exact Hk). reflexivity.
Qed.

Lemma py_index_In {A} (l : list A) z x : py_index l z = Some x -> In x l.
Proof.
  unfold py_index. destruct (py_norm (length l) z); [|discriminate]. apply nth_error_In.
Qed.

Lemma mapM_In {A B} (f : A -> option B) l ys y :
  mapM f l = Some ys -> In y ys -> exists x, In x l /\ f x = Some y.
Proof.
  revert ys. induction l as [|x l IH]; intros ys H Hy; cbn [mapM] in H.
  - inversion H; subst ys. destruct Hy.
  - destruct (f x) as [b|] eqn:Hf; [|discriminate]. destruct (mapM f l) as [ys'|]; [|discriminate].
    inversion H; subst ys. destruct Hy as [<-|Hy].
    + exists x. split; [left; reflexivity|exact Hf].
    + destruct (IH ys' eq_refl Hy) as [x' [Hx' Hfx']]. exists x'. split; [right; exact Hx'|exact Hfx'].
Qed.

(** ---- the positions of the linear model --------------------------------------------------------- *)
Definition posnames (c : N) (n : nat) : list lname := map (fun i => LPos c (Z.of_nat i)) (seq 0 n).

Definition poslist (lv : label_vars) (cs : list N) : list lname :=
  flat_map (fun c => map (fun i => LPos c (Z.of_nat i)) (seq 0 (nlab lv c))) cs.

Lemma poslist_cons lv c cs : poslist lv (c :: cs) = posnames c (nlab lv c) ++ poslist lv cs.
Proof. reflexivity. Qed.

Lemma posnames_length c n : length (posnames c n) = n.
Proof. unfold posnames. rewrite map_length, seq_length. reflexivity. Qed.

Lemma poslist_length lv cs : length (poslist lv cs) = total (labels_per lv cs).
Proof.
  induction cs as [|c cs IH]; [reflexivity|].
  rewrite poslist_cons, app_length, posnames_length, IH. reflexivity.
Qed.

Definition is_pos (x : lname) : Prop := exists c j, x = LPos c j.

Lemma lin_isotopomers_pos lv isos :
  lin_isotopomers lv = Ok isos -> forall c l, In (c, l) isos -> Forall is_pos l.
Proof.
  unfold lin_isotopomers. revert isos. induction lv as [|[k n] lv IH]; intros isos H c l Hin; cbn [map collect fst snd] in H.
  - inversion H; subst isos. destruct Hin.
  - destruct n as [|n]; [cbn in H; discriminate|].
    change (gen_positions k (S n)) with (Ok (posnames k (S n))) in H. cbn [bind] in H.
    destruct (collect _) as [isos'|] eqn:Hc; [|discriminate]. inversion H; subst isos.
    destruct Hin as [Hin|Hin].
    + inversion Hin; subst. apply Forall_forall. intros x Hx. unfold posnames in Hx. apply in_map_iff in Hx.
      destruct Hx as [i [<- _]]. exists c, (Z.of_nat i). reflexivity.
    + eapply IH; [reflexivity|exact Hin].
Qed.

Lemma lin_isotopomers_get lv isos :
  lin_isotopomers lv = Ok isos ->
  forall c, 0 < nlab lv c -> getN c isos = Some (posnames c (nlab lv c)).
Proof.
  unfold lin_isotopomers. revert isos. induction lv as [|[k n] lv IH]; intros isos H c Hc; cbn [map collect fst snd] in H.
  - unfold nlab, getN in Hc. cbn in Hc. lia.
  - destruct n as [|n]; [cbn in H; discriminate|].
    change (gen_positions k (S n)) with (Ok (posnames k (S n))) in H. cbn [bind] in H.
    destruct (collect _) as [isos'|] eqn:Hc'; [|discriminate]. inversion H; subst isos.
    unfold nlab, getN in *. cbn [dict_get] in *.
    destruct (N.eq_dec c k) as [->|Hne]; [reflexivity|].
    apply IH; [reflexivity|exact Hc].
Qed.

Lemma positions_of_all_ok lv isos cs :
  lin_isotopomers lv = Ok isos -> (forall c, In c cs -> 0 < nlab lv c) ->
  positions_of_all isos cs = Ok (poslist lv cs).
Proof.
  intros Hi Hcs. unfold positions_of_all.
  rewrite (collect_map_Forall2 _ cs (map (fun c => posnames c (nlab lv c)) cs)).
  - cbn [bind]. unfold poslist. rewrite flat_map_concat_map. reflexivity.
  - induction cs as [|c cs IH]; cbn [map]; constructor.
    + rewrite (lin_isotopomers_get lv isos Hi c) by (apply Hcs; left; reflexivity). reflexivity.
    + apply IH. intros c' Hc'. apply Hcs. right. exact Hc'.
Qed.

Lemma positions_of_all_pos isos cs l :
  (forall c l, In (c, l) isos -> Forall is_pos l) -> positions_of_all isos cs = Ok l -> Forall is_pos l.
Proof.
  intros Hi. unfold positions_of_all.
  destruct (collect _) as [ls|] eqn:Hc; [|discriminate]. cbn [bind]. intro H. inversion H; subst l.
  apply Forall_concat. apply collect_map_ok in Hc. clear H.
  induction Hc as [|c y cs ys Hy _ IH]; constructor; [|exact IH].
  destruct (getN c isos) as [l|] eqn:Hg; [|discriminate]. inversion Hy; subst y.
  apply (Hi c). apply (dict_get_In N.eq_dec). exact Hg.
Qed.

(** ---- the substrate list handed to [lin_loop] only contains EXT and positions ------------------- *)
Definition pos_or_ext (x : lname) : Prop := x = LExt \/ is_pos x.

Lemma list_upd_Forall {A} (Q : A -> Prop) l k v : Forall Q l -> Q v -> Forall Q (list_upd l k v).
Proof.
  intros Hl Hv. revert k. induction Hl as [|x l Hx Hl' IH]; intro k; [destruct k; constructor|].
  destruct k as [|k]; cbn [list_upd]; constructor; auto.
Qed.

Lemma inverse_loop_Forall (Q : lname -> Prop) subs lmap res out :
  Forall Q subs -> Forall Q res -> inverse_loop subs lmap res = Ok out -> Forall Q out.
Proof.
  revert lmap res. induction subs as [|s ss IH]; intros [|p ps] res Hs Hr H; cbn [inverse_loop] in H; try discriminate.
  - inversion H; subst out. exact Hr.
  - apply Forall_cons_iff in Hs. destruct Hs as [Hs Hss].
    unfold py_set in H. destruct (py_norm (length res) p) as [k|]; [|discriminate].
    eapply IH; [exact Hss| |exact H]. apply list_upd_Forall; assumption.
Qed.

Lemma Forall_repeat {A} (Q : A -> Prop) a n : Q a -> Forall Q (repeat a n).
Proof. intro H. induction n; cbn [repeat]; constructor; auto. Qed.

Lemma map_to_labelmap_Forall (Q : lname -> Prop) dir subs prods lmap out :
  Forall Q subs -> Q LExt -> map_to_labelmap dir subs prods lmap = Ok out -> Forall Q out.
Proof.
  intros Hs He. destruct dir; cbn [map_to_labelmap]; intro H.
  - eapply inverse_loop_Forall; [exact Hs| |exact H]. apply Forall_repeat. exact He.
  - destruct (mapM (py_index subs) lmap) as [subs'|] eqn:Hm; [|discriminate].
    destruct (Nat.eqb _ _); [|discriminate]. inversion H; subst out.
    apply Forall_forall. intros y Hy. destruct (mapM_In _ _ _ _ Hm Hy) as [z [_ Hz]].
    apply py_index_In in Hz. rewrite Forall_forall in Hs. apply Hs. exact Hz.
  - discriminate.
Qed.

Lemma lin_rxns_subs dir isos r lmap rxns :
  (forall c l, In (c, l) isos -> Forall is_pos l) ->
  lin_rxns dir isos r lmap = Ok rxns ->
  exists subs' prods1, rxns = lin_loop (r_name r) 0 subs' prods1 /\ Forall pos_or_ext subs'.
Proof.
  intros Hi. unfold lin_rxns.
  destruct (positions_of_all isos (subs_of (r_stoich r))) as [subs|] eqn:Hs; [|discriminate].
  destruct (positions_of_all isos (prods_of (r_stoich r))) as [prods|] eqn:Hp; [|discriminate].
  cbn [bind]. unfold pad_ext. destruct (Nat.ltb _ _); [discriminate|]. cbn [bind fst snd].
  destruct (map_to_labelmap _ _ _ _) as [subs'|] eqn:Hm; [|discriminate]. cbn [bind]. intro H. inversion H.
  eexists. eexists. split; [reflexivity|].
  eapply (map_to_labelmap_Forall pos_or_ext); [| |exact Hm].
  - apply Forall_app. split.
    + apply positions_of_all_pos in Hs; [|exact Hi]. eapply Forall_impl; [|exact Hs]. intros x Hx. right. exact Hx.
    + apply Forall_repeat. left. reflexivity.
  - left. reflexivity.
Qed.

Lemma pad_ext_ok subs prods (lmap : list Z) :
  length lmap = Nat.max (length subs) (length prods) ->
  pad_ext subs prods lmap
  = Ok (subs ++ repeat LExt (Nat.max (length subs) (length prods) - length subs),
        prods ++ repeat LExt (Nat.max (length subs) (length prods) - length prods)).
Proof.
  intro Hl. unfold pad_ext. cbv zeta. rewrite !app_length, !repeat_length.
  replace (length subs - length prods) with (Nat.max (length subs) (length prods) - length prods) by lia.
  replace (length prods + (Nat.max (length subs) (length prods) - length prods) - length subs)
    with (Nat.max (length subs) (length prods) - length subs) by lia.
  destruct (Nat.ltb_spec (length lmap)
              (length subs + (Nat.max (length subs) (length prods) - length subs))) as [H|H]; [lia|reflexivity].
Qed.

(** ---- dynamics of the linear model in an arbitrary commutative ring ----------------------------- *)
Section LinDynamics.
  Variable R : Type.
  Variables (rO rI : R) (radd rmul rsub : R -> R -> R) (ropp rinv : R -> R) (ofZ : Z -> R).
  Hypothesis Rth : ring_theory rO rI radd rmul rsub ropp eq.
  Hypothesis ofZ_0 : ofZ 0%Z = rO.
  Hypothesis ofZ_1 : ofZ 1%Z = rI.
  Hypothesis ofZ_add : forall a b, ofZ (a + b)%Z = radd (ofZ a) (ofZ b).
  Hypothesis ofZ_opp : forall a, ofZ (- a)%Z = ropp (ofZ a).
  Add Ring Rring_lin : Rth.

  Notation "0" := rO. Notation "1" := rI.
  Infix "+" := radd. Infix "*" := rmul. Infix "-" := rsub.
  Notation sum := (sumR R rO radd).
  Notation prod := (prodR R rI rmul).
  Notation Deriv := (deriv R rO rI radd rmul ropp rinv ofZ).
  Notation Rate := (rate R rO rI radd rmul ropp rinv).
  Notation CoefAt := (coef_at R rO rI radd rmul ropp rinv ofZ).
  Notation bitR := (bit R rO rI).
  Notation Benv := (benv R rO radd).

  Let s_app := sum_app R rO rI radd rmul rsub ropp Rth.
  Let p_app := prod_app R rO rI radd rmul rsub ropp Rth.
  Let s_scale := @sum_map_scale R rO rI radd rmul rsub ropp Rth.
  Let s_scale_r := @sum_map_scale_r R rO rI radd rmul rsub ropp Rth.
  Let s_add := @sum_map_add R rO rI radd rmul rsub ropp Rth.
  Let s_sub := @sum_map_sub R rO rI radd rmul rsub ropp Rth.
  Let s_zero := @sum_map_zero R rO rI radd rmul rsub ropp Rth.
  Let s_swap := @sum_swap R rO rI radd rmul rsub ropp Rth.
  Let s_ext := @sum_map_ext R rO radd.
  Let s_cons := sum_cons R rO radd.
  Let s_nil := sum_nil R rO radd.
  Let p_cons := prod_cons R rI rmul.
  Let p_nil := prod_nil R rI rmul.

  Definition ind (a b : lname) : R := if lname_eq_dec a b then 1 else 0.

  Lemma sum_all_zero {A} (F : A -> R) l : (forall x, In x l -> F x = 0) -> sum (map F l) = 0.
  Proof. intro H. rewrite (s_ext _ _ (fun _ => 0) l H). apply s_zero. Qed.

  Lemma deriv_app env l1 l2 X : Deriv env (l1 ++ l2) X = Deriv env l1 X + Deriv env l2 X.
  Proof. unfold deriv. rewrite map_app. apply s_app. Qed.

  Lemma deriv_nil env X : Deriv env [] X = 0.
  Proof. reflexivity. Qed.

  Lemma deriv_one env rx X : Deriv env [rx] X = CoefAt env rx X * Rate env rx.
  Proof. unfold deriv. cbn [map]. rewrite s_cons, s_nil. ring. Qed.

  (** one side of the stoichiometry of a [lin_loop] reaction *)
  Lemma coef_side env f y c i :
    sum (map (fun yc => if lname_eq_dec (fst yc) (LPos c i) then coefval R rO rI radd rmul ropp rinv ofZ env (snd yc) else 0)
             (match y with LExt => [] | _ => [(y, CDer f [compound_of y])] end))
    = ind y (LPos c i) * fsem R rO rI radd rmul ropp rinv f [env (LPlain c)].
  Proof.
    unfold ind. destruct y as [n|n b|n j|n|]; cbn [map fst snd]; rewrite ?s_cons, ?s_nil.
    - destruct (lname_eq_dec (LPlain n) (LPos c i)) as [He|He]; [discriminate He|ring].
    - destruct (lname_eq_dec (LIso n b) (LPos c i)) as [He|He]; [discriminate He|ring].
    - destruct (lname_eq_dec (LPos n j) (LPos c i)) as [He|He]; [|ring].
      injection He as -> ->. cbn [coefval compound_of map]. ring.
    - destruct (lname_eq_dec (LTotal n) (LPos c i)) as [He|He]; [discriminate He|ring].
    - destruct (lname_eq_dec LExt (LPos c i)) as [He|He]; [discriminate He|ring].
  Qed.

  Lemma lin_rxn_rate env rn i s st :
    Rate env (mkLR (LPos rn i) FProd [s; LPlain rn] st) = env s * env (LPlain rn).
  Proof. unfold rate. cbn [lr_fn lr_args fsem map]. rewrite !p_cons, p_nil. ring. Qed.

  Lemma lin_rxn_coef env rn i0 s p c i :
    CoefAt env (mkLR (LPos rn i0) FProd [s; LPlain rn]
                     ((match s with LExt => [] | _ => [(s, CDer FNegOneDiv [compound_of s])] end)
                      ++ (match p with LExt => [] | _ => [(p, CDer FOneDiv [compound_of p])] end))) (LPos c i)
    = (ind p (LPos c i) - ind s (LPos c i)) * rinv (env (LPlain c)).
  Proof.
    unfold coef_at. cbn [lr_stoich]. rewrite map_app, s_app, !coef_side. cbn [fsem]. ring.
  Qed.

  (** L1: closed form of the derivative of a label position under the reactions of one [lin_loop] *)
  Lemma lin_loop_deriv env rn c i : forall subs prods i0,
    Deriv env (lin_loop rn i0 subs prods) (LPos c i)
    = sum (map (fun ps => (ind (fst ps) (LPos c i) - ind (snd ps) (LPos c i))
                          * (rinv (env (LPlain c)) * (env (snd ps) * env (LPlain rn))))
               (combine prods subs)).
  Proof.
    induction subs as [|s ss IH]; intros [|p ps] i0; cbn [lin_loop combine map]; try (rewrite s_nil; apply deriv_nil).
    rewrite s_cons, deriv_app, IH. cbn [fst snd]. f_equal.
    destruct (lname_eq_dec s p) as [->|Hne].
    - rewrite deriv_nil. ring.
    - rewrite deriv_one, lin_rxn_coef, lin_rxn_rate. ring.
  Qed.

  (** every reaction of a [lin_loop] is driven by one of its substrate positions *)
  Lemma lin_loop_deriv_zero env rn X : forall subs prods i0,
    Forall (fun s => env s = 0) subs -> Deriv env (lin_loop rn i0 subs prods) X = 0.
  Proof.
    induction subs as [|s ss IH]; intros [|p ps] i0 H; cbn [lin_loop]; try apply deriv_nil.
    apply Forall_cons_iff in H. destruct H as [Hs Hss].
    rewrite deriv_app, IH by exact Hss. destruct (lname_eq_dec s p).
    - rewrite deriv_nil. ring.
    - rewrite deriv_one, lin_rxn_rate, Hs. ring.
  Qed.

  (** C16 (both reading directions): no label anywhere, unlabelled external pool => nothing moves *)
  Theorem no_label_stays_zero dir isos r lmap rxns env X :
    (forall c l, In (c, l) isos -> Forall (fun x => exists c' j, x = LPos c' j) l) ->
    lin_rxns dir isos r lmap = Ok rxns ->
    env LExt = 0 -> (forall c j, env (LPos c j) = 0) ->
    Deriv env rxns X = 0.
  Proof.
    intros Hi Hr He Hp. destruct (lin_rxns_subs dir isos r lmap rxns Hi Hr) as [subs' [prods1 [-> Hs]]].
    apply lin_loop_deriv_zero. eapply Forall_impl; [|exact Hs].
    intros x [->|[c' [j ->]]]; [exact He|apply Hp].
  Qed.

  (** ---- marginals ---------------------------------------------------------------------------- *)
  (** marginal of position [j] of compound [c] in the isotopomer state [envI] *)
  Definition marg (envI : lname -> R) (lv : label_vars) (c : N) (j : nat) : R :=
    sum (map (fun q => bitR q j * envI (iso_name c q)) (all_patterns (nlab lv c))).

  Lemma ind_pos_same c k i :
    ind (LPos c (Z.of_nat k)) (LPos c (Z.of_nat i)) = if Nat.eq_dec i k then 1 else 0.
  Proof.
    unfold ind. destruct (lname_eq_dec _ _) as [He|He], (Nat.eq_dec i k) as [Hk|Hk]; try reflexivity.
    - injection He as He. apply Nat2Z.inj in He. congruence.
    - subst k. contradiction.
  Qed.

  Lemma sum_one_compound c' c i n a (phi : nat -> R) :
    sum (map (fun xh => ind (fst xh) (LPos c (Z.of_nat i)) * phi (snd xh)) (combine (posnames c' n) (seq a n)))
    = if N.eq_dec c' c then (if lt_dec i n then phi (Nat.add a i) else 0) else 0.
  Proof.
    unfold posnames. rewrite (seq_as_map a n), combine_map_map, map_map. cbn [fst snd].
    destruct (N.eq_dec c' c) as [->|Hne].
    - rewrite (s_ext _ _ (fun k => if Nat.eq_dec i k then phi (Nat.add a k) else 0)).
      2:{ intros k _. rewrite ind_pos_same. destruct (Nat.eq_dec i k); ring. }
      destruct (lt_dec i n) as [Hlt|Hge].
      + apply (sum_indicator R rO rI radd rmul rsub ropp Rth Nat.eq_dec (fun k => phi (Nat.add a k)) i).
        * apply seq_NoDup.
        * apply in_seq. lia.
      + apply (sum_indicator_none R rO rI radd rmul rsub ropp Rth Nat.eq_dec (fun k => phi (Nat.add a k)) i).
        intro H. apply in_seq in H. lia.
    - apply sum_all_zero. intros k _. unfold ind.
      destruct (lname_eq_dec _ _) as [He|He]; [injection He; intros; contradiction|ring].
  Qed.

  (** F1: the weight "bit i of c's label" summed over the compounds of a split label string is the
      sum over the flattened positions *)
  Lemma Gsum_positions lv c i s0 : i < nlab lv c -> forall cs a,
    Gsum R rO radd (fun q => bitR q i) c (combine cs (split_label (skipn a s0) (map (nlab lv) cs)))
    = sum (map (fun xh => ind (fst xh) (LPos c (Z.of_nat i)) * bitR s0 (snd xh))
               (combine (poslist lv cs) (seq a (total (map (nlab lv) cs))))).
  Proof.
    intro Hi. induction cs as [|c' cs IH]; intro a.
    - reflexivity.
    - cbn [map split_label combine]. rewrite total_cons, seq_app, poslist_cons.
      rewrite combine_app_eq by (rewrite posnames_length, seq_length; reflexivity).
      rewrite map_app, s_app, sum_one_compound.
      rewrite skipn_skipn_add, <- (IH (Nat.add a (nlab lv c'))).
      unfold Gsum. cbn [map fst snd]. rewrite s_cons. f_equal.
      destruct (N.eq_dec c' c) as [->|Hne]; [|reflexivity].
      destruct (lt_dec i (nlab lv c)) as [_|Hn]; [|contradiction].
      unfold bit. rewrite nth_firstn_lt by exact Hi. rewrite nth_skipn_add. reflexivity.
  Qed.

  (** the marginalisation identity tied to the position names of the linear model *)
  Lemma Mrg_positions lv (envI envL : lname -> R) : forall bs h,
    (forall c, In c bs -> envL (LPlain c) = Benv lv envI c) ->
    (forall c j, In c bs -> j < nlab lv c -> envL (LPos c (Z.of_nat j)) * envL (LPlain c) = marg envI lv c j) ->
    h < total (map (nlab lv) bs) ->
    envL (nth h (poslist lv bs) LExt) * prod (map (Benv lv envI) bs)
    = Mrg R rO rI radd rmul (nlab lv) (fun c q => envI (iso_name c q)) bs h.
  Proof.
    induction bs as [|c bs IH]; intros h Hpool Hmarg Hh; [cbn in Hh; lia|].
    cbn [map] in Hh. rewrite total_cons in Hh. rewrite poslist_cons. cbn [map Mrg]. rewrite p_cons.
    change (map (tot R rO radd (nlab lv) (fun c q => envI (iso_name c q))) bs) with (map (Benv lv envI) bs).
    change (tot R rO radd (nlab lv) (fun c q => envI (iso_name c q)) c) with (Benv lv envI c).
    destruct (Nat.ltb h (nlab lv c)) eqn:Hlt.
    - apply Nat.ltb_lt in Hlt. rewrite app_nth1 by (rewrite posnames_length; exact Hlt).
      unfold posnames. rewrite (nth_map_lt _ _ O) by (rewrite seq_length; exact Hlt).
      rewrite seq_nth by exact Hlt. cbn [Nat.add].
      pose proof (Hmarg c h (or_introl eq_refl) Hlt) as Hm. unfold marg in Hm. rewrite <- Hm.
      rewrite (Hpool c (or_introl eq_refl)). ring.
    - apply Nat.ltb_ge in Hlt. rewrite app_nth2 by (rewrite posnames_length; exact Hlt).
      rewrite posnames_length. rewrite <- (IH (Nat.sub h (nlab lv c))).
      + ring.
      + intros c' Hc'. apply Hpool. right. exact Hc'.
      + intros c' j Hc'. apply Hmarg. right. exact Hc'.
      + lia.
  Qed.

  (** ---- one mapped mass-action reaction at a metabolic steady state ---------------------------- *)
  Section Rxn.
    Variable rk : repl_kind.     (* form of the isotopomer mapper's argument renaming *)
    Variable lv : label_vars.
    Variable r : brxn.
    Variable mun : list nat.
    Variable extra : list N.
    Variables envI envL : lname -> R.
    Let lmap := map Z.of_nat mun.
    Let bs := subs_of (r_stoich r).
    Let bp := prods_of (r_stoich r).
    Let nl := nlab lv.
    Let tsl := total (labels_per lv bs).
    Let tpl := total (labels_per lv bp).
    Let NN := Nat.max tsl tpl.
    Let SS := poslist lv bs.
    Let PP := poslist lv bp.
    Let S1 := SS ++ repeat LExt (Nat.sub NN tsl).
    Let P1 := PP ++ repeat LExt (Nat.sub NN tpl).
    Let sfx := suffix_of true lv r.
    Let psfx := psuffix_of true lv r lmap.
    Let v := envL (LPlain (r_name r)).
    Let ratep := fun p => Rate envI (mk_iso_rxn rk lv r (sfx p) (psfx p)).
    Let fS := fun h => nth h S1 LExt.
    Let kx := prod (map (fun a => envI (LPlain a)) extra).
    Let PB := prod (map (Benv lv envI) bs).
    Let wI := fun (c : N) (q : list bool) => envI (iso_name c q).

    Hypothesis Hfn : r_fn r = FProd.
    Hypothesis Hargs : Permutation (r_args r) (bs ++ extra).
    Hypothesis Hnd_st : NoDup (map fst (r_stoich r)).
    Hypothesis Hrk : rk = ReplPositional \/ NoDup bs.   (* per-occurrence renaming, or no compound twice on the substrate side *)
    Hypothesis Hextra : forall a, In a extra -> ~ In a bs /\ ~ In a bp /\ nlab lv a = O /\ (rk = ReplPositional -> getN a lv = None).
    Hypothesis Hperm : Permutation mun (seq O NN).
    Hypothesis Hpool : forall c, In c bs -> envL (LPlain c) = Benv lv envI c.
    Hypothesis Hflux : v = prod (map (Benv lv envI) (r_args r)).
    Hypothesis Hmarg : forall c j, In c bs -> j < nlab lv c ->
                                   envL (LPos c (Z.of_nat j)) * envL (LPlain c) = marg envI lv c j.
    Hypothesis Hext : envL LExt = 1.

    Lemma len_SS : length SS = tsl. Proof. apply poslist_length. Qed.
    Lemma len_PP : length PP = tpl. Proof. apply poslist_length. Qed.
    Lemma len_S1 : length S1 = NN.
    Proof. unfold S1. rewrite app_length, repeat_length, len_SS. unfold NN. lia. Qed.
    Lemma len_P1 : length P1 = NN.
    Proof. unfold P1. rewrite app_length, repeat_length, len_PP. unfold NN. lia. Qed.
    Lemma len_mun : length mun = NN.
    Proof. rewrite (Permutation_length Hperm). apply seq_length. Qed.
    Lemma mun_lt h : In h mun -> h < NN.
    Proof. intro H. apply (Permutation_in _ Hperm) in H. apply in_seq in H. lia. Qed.

    Lemma len_sfx p : In p (all_patterns tsl) -> length (sfx p) = NN.
    Proof.
      intro Hp. apply all_patterns_length in Hp. unfold sfx, suffix_of, external_labels.
      rewrite app_length, repeat_length, Hp. fold bs bp. fold tsl tpl. unfold NN. lia.
    Qed.

    Lemma psfx_closed p : In p (all_patterns tsl) -> psfx p = map (fun h => nth h (sfx p) false) mun.
    Proof.
      intro Hp. unfold psfx, psuffix_of, map_s2p, lmap. fold sfx.
      rewrite (mapM_py_index_nat (sfx p) false mun); [reflexivity|].
      intros h Hh. rewrite (len_sfx p Hp). apply mun_lt. exact Hh.
    Qed.

    Lemma v_eq : v = PB * kx.
    Proof. rewrite Hflux. exact (base_rate R rO rI radd rmul rsub ropp Rth rk lv r envI extra Hargs Hextra). Qed.

    Lemma ratep_eq p : In p (all_patterns tsl) -> ratep p = W R rI rmul nl wI bs p * kx.
    Proof.
      intro Hp. unfold ratep, sfx, psfx.
      rewrite (rate_mass_action R rO rI radd rmul rsub ropp rinv Rth true rk lv r lmap envI extra
                                Hfn Hargs Hnd_st Hrk Hextra p).
      rewrite (subpairs_W R rI rmul true lv r envI p Hp). reflexivity.
    Qed.

    Lemma sum_ratep : sum (map ratep (all_patterns tsl)) = v.
    Proof.
      rewrite v_eq.
      exact (sum_rates R rO rI radd rmul rsub ropp rinv Rth true rk lv r lmap envI extra
                       Hfn Hargs Hnd_st Hrk Hextra).
    Qed.

    (** K1: the rate-weighted marginal of flattened substrate position [h] is the linear model's
        substrate at that position times the flux *)
    Lemma K1 h : h < NN ->
      sum (map (fun p => bitR (sfx p) h * ratep p) (all_patterns tsl)) = envL (fS h) * v.
    Proof.
      intro Hh. unfold fS, S1. destruct (lt_dec h tsl) as [Hlt|Hge].
      - rewrite app_nth1 by (rewrite len_SS; exact Hlt).
        rewrite (s_ext _ _ (fun p => (bitR p h * W R rI rmul nl wI bs p) * kx)).
        2:{ intros p Hp. rewrite (ratep_eq p Hp). pose proof (all_patterns_length _ _ Hp) as Hl.
            unfold bit, sfx, suffix_of. rewrite app_nth1 by lia. ring. }
        rewrite s_scale_r.
        assert (Hm : sum (map (fun p => bitR p h * W R rI rmul nl wI bs p) (all_patterns tsl))
                     = Mrg R rO rI radd rmul nl wI bs h)
          by exact (marginal_patterns R rO rI radd rmul rsub ropp Rth nl wI bs h).
        rewrite Hm.
        assert (Hq : envL (nth h SS LExt) * PB = Mrg R rO rI radd rmul nl wI bs h)
          by exact (Mrg_positions lv envI envL bs h Hpool Hmarg Hlt).
        rewrite <- Hq, v_eq. ring.
      - rewrite app_nth2 by (rewrite len_SS; lia). rewrite nth_repeat, Hext.
        rewrite (s_ext _ _ ratep).
        2:{ intros p Hp. pose proof (all_patterns_length _ _ Hp) as Hl.
            unfold bit, sfx, suffix_of, external_labels. rewrite app_nth2 by lia.
            rewrite nth_repeat_lt; [ring|]. fold bs bp. fold tsl tpl. unfold NN in Hh. lia. }
        rewrite sum_ratep. ring.
    Qed.

    Lemma swapK (L : list (lname * nat)) X :
      (forall x h, In (x, h) L -> h < NN) ->
      sum (map (fun p => sum (map (fun xh => ind (fst xh) X * bitR (sfx p) (snd xh)) L) * ratep p) (all_patterns tsl))
      = sum (map (fun xh => ind (fst xh) X * (envL (fS (snd xh)) * v)) L).
    Proof.
      intro HL.
      rewrite (s_ext _ _ (fun p => sum (map (fun xh => ind (fst xh) X * (bitR (sfx p) (snd xh) * ratep p)) L))).
      2:{ intros p _. rewrite <- s_scale_r. apply s_ext. intros xh _. ring. }
      rewrite s_swap. apply s_ext. intros [x h] Hin. cbn [fst snd].
      rewrite s_scale, (K1 h (HL x h Hin)). reflexivity.
    Qed.

    Variable isos : list (N * list lname).
    Variables irxns lrxns : list lrxn.
    Hypothesis Hlab : forall c, In c (bs ++ bp) -> O < nlab lv c.
    Hypothesis Hiso : create_iso_rxns true rk lv r lmap = Ok irxns.
    Hypothesis Hisos : lin_isotopomers lv = Ok isos.
    Hypothesis Hlin : lin_rxns DirDocumented isos r lmap = Ok lrxns.

    (** (1) shape of the linear reactions *)
    Lemma lrxns_shape : lrxns = lin_loop (r_name r) Z0 (map fS mun) P1.
    Proof.
      revert Hlin. unfold lin_rxns. fold bs bp.
      rewrite (positions_of_all_ok lv isos bs Hisos)
        by (intros c Hc; apply Hlab; apply in_or_app; left; exact Hc).
      rewrite (positions_of_all_ok lv isos bp Hisos)
        by (intros c Hc; apply Hlab; apply in_or_app; right; exact Hc).
      cbn [bind]. fold SS PP.
      rewrite (pad_ext_ok SS PP lmap)
        by (unfold lmap; rewrite map_length, len_mun, len_SS, len_PP; reflexivity).
      rewrite len_SS, len_PP. fold NN. fold S1 P1.
      cbn [bind fst snd]. unfold map_to_labelmap, lmap.
      rewrite (mapM_py_index_nat S1 LExt mun) by (intros h Hh; rewrite len_S1; apply mun_lt; exact Hh).
      rewrite map_length, len_mun, len_P1, Nat.eqb_refl. cbn [bind]. intro H. inversion H. reflexivity.
    Qed.

    Section Position.
      Variable c : N.
      Variable i : nat.
      Hypothesis Hi : i < nlab lv c.
      Let X := LPos c (Z.of_nat i).
      Let gbit := fun q : list bool => bitR q i.

      Lemma Gs_eq p :
        Gsum R rO radd gbit c (subpairs true lv r p)
        = sum (map (fun xh => ind (fst xh) X * bitR (sfx p) (snd xh)) (combine SS (seq O tsl))).
      Proof. exact (Gsum_positions lv c i (sfx p) Hi bs O). Qed.

      Lemma Gp_eq p : In p (all_patterns tsl) ->
        Gsum R rO radd gbit c (prodpairs true lv r lmap p)
        = sum (map (fun xh => ind (fst xh) X * bitR (sfx p) (snd xh)) (combine PP (firstn tpl mun))).
      Proof.
        intro Hp.
        transitivity (sum (map (fun xh => ind (fst xh) X * bitR (psfx p) (snd xh)) (combine PP (seq O tpl)))).
        { exact (Gsum_positions lv c i (psfx p) Hi bp O). }
        assert (Hle : tpl <= length mun) by (rewrite len_mun; unfold NN; lia).
        rewrite <- (map_nth_firstn mun O tpl Hle), combine_map_r, map_map. apply s_ext.
        intros [x g] Hin. cbn [fst snd]. f_equal. apply in_combine_r in Hin. apply in_seq in Hin.
        unfold bit. rewrite (psfx_closed p Hp). rewrite (nth_map_lt _ mun O false g) by lia. reflexivity.
      Qed.

      (** the two halves of the linear right-hand side *)
      Lemma A_eq :
        sum (map (fun ph => ind (fst ph) X * (envL (fS (snd ph)) * v)) (combine P1 mun))
        = sum (map (fun xh => ind (fst xh) X * (envL (fS (snd xh)) * v)) (combine PP (firstn tpl mun))).
      Proof.
        unfold P1. rewrite combine_app_gen, len_PP, map_app, s_app.
        rewrite (sum_all_zero _ (combine (repeat LExt _) _)).
        - ring.
        - intros [x h] Hin. apply in_combine_l in Hin. apply repeat_spec in Hin. subst x. cbn [fst].
          unfold ind, X. destruct (lname_eq_dec LExt (LPos c (Z.of_nat i))) as [He|_]; [discriminate He|ring].
      Qed.

      Lemma B_eq :
        sum (map (fun ph => ind (fS (snd ph)) X * (envL (fS (snd ph)) * v)) (combine P1 mun))
        = sum (map (fun xh => ind (fst xh) X * (envL (fS (snd xh)) * v)) (combine SS (seq O tsl))).
      Proof.
        rewrite <- (map_map snd (fun h => ind (fS h) X * (envL (fS h) * v))).
        rewrite map_snd_combine by (rewrite len_P1, len_mun; reflexivity).
        rewrite (sum_perm R rO rI radd rmul rsub ropp Rth _ _ (Permutation_map _ Hperm)).
        replace NN with (Nat.add tsl (Nat.sub NN tsl)) by (unfold NN; lia).
        rewrite seq_app, map_app, s_app. cbn [Nat.add].
        rewrite (sum_all_zero _ (seq tsl _)).
        - assert (Hc : combine SS (seq O tsl) = map (fun h => (nth h SS LExt, h)) (seq O tsl))
            by (rewrite <- len_SS; apply combine_seq_nth).
          rewrite Hc, map_map. cbn [fst snd].
          match goal with |- ?a + 0 = ?b => transitivity a; [ring|] end.
          apply s_ext. intros h Hh. apply in_seq in Hh. unfold fS, S1.
          rewrite app_nth1 by (rewrite len_SS; lia). reflexivity.
        - intros h Hh. apply in_seq in Hh. unfold fS, S1. rewrite app_nth2 by (rewrite len_SS; lia).
          rewrite nth_repeat. unfold ind, X.
          destruct (lname_eq_dec LExt (LPos c (Z.of_nat i))) as [He|_]; [discriminate He|ring].
      Qed.

      Theorem enrichment_rate_core :
        Deriv envL lrxns X
        = rinv (envL (LPlain c))
          * sum (map (fun bits => bitR bits i * Deriv envI irxns (iso_name c bits)) (all_patterns (nlab lv c))).
      Proof.
        assert (Hlen : total (labels_per lv (prods_of (r_stoich r))) <= length lmap).
        { unfold lmap. rewrite map_length, len_mun. fold bp. fold tpl. unfold NN. lia. }
        assert (Hw : sum (map (fun bits => gbit bits * Deriv envI irxns (iso_name c bits)) (all_patterns (nlab lv c)))
                     = sum (map (fun p => (Gsum R rO radd gbit c (prodpairs true lv r lmap p)
                                           - Gsum R rO radd gbit c (subpairs true lv r p)) * ratep p)
                                (all_patterns tsl)))
          by exact (weighted_collapse R rO rI radd rmul rsub ropp rinv ofZ Rth ofZ_0 ofZ_1 ofZ_add ofZ_opp
                                      true rk lv r lmap envI gbit c irxns Hiso Hlen).
        unfold gbit at 1 in Hw. rewrite Hw. clear Hw.
        rewrite (s_ext _ _ (fun p =>
                   sum (map (fun xh => ind (fst xh) X * bitR (sfx p) (snd xh)) (combine PP (firstn tpl mun))) * ratep p
                   - sum (map (fun xh => ind (fst xh) X * bitR (sfx p) (snd xh)) (combine SS (seq O tsl))) * ratep p)).
        2:{ intros p Hp. rewrite (Gp_eq p Hp), (Gs_eq p). ring. }
        rewrite s_sub, !swapK.
        2:{ intros x h Hin. apply in_combine_r in Hin. apply in_seq in Hin. unfold NN. lia. }
        2:{ intros x h Hin. apply in_combine_r in Hin. apply firstn_incl in Hin. apply mun_lt. exact Hin. }
        rewrite <- A_eq, <- B_eq.
        rewrite lrxns_shape. unfold X. rewrite lin_loop_deriv. fold X. fold v.
        rewrite combine_map_r, map_map. cbn [fst snd].
        rewrite (s_ext _ _ (fun ph => rinv (envL (LPlain c)) * (ind (fst ph) X * (envL (fS (snd ph)) * v))
                                      - rinv (envL (LPlain c)) * (ind (fS (snd ph)) X * (envL (fS (snd ph)) * v)))).
        2:{ intros ph _. ring. }
        rewrite s_sub, !s_scale. ring.
      Qed.
    End Position.
  End Rxn.

  (** [no_label_stays_zero] for the position dict built by the mapper itself *)
  Corollary no_label_stays_zero_built dir lv isos r lmap rxns env X :
    lin_isotopomers lv = Ok isos -> lin_rxns dir isos r lmap = Ok rxns ->
    env LExt = 0 -> (forall c j, env (LPos c j) = 0) -> Deriv env rxns X = 0.
  Proof.
    intros Hi. apply no_label_stays_zero. exact (lin_isotopomers_pos lv isos Hi).
  Qed.

  (** C16, one mapped reaction (the statement with all hypotheses spelled out; the invertibility of the
      pools, [NoDup (map fst lv)], [In c (bs ++ bp)] and the pool equations of the products are not used:
      see [enrichment_rate_core]) *)
  Theorem enrichment_rate_rxn :
    forall (rk : repl_kind) (lv : label_vars) (r : brxn) (lmap : list Z) (extra : list N) (envI envL : lname -> R)
           (isos : list (N * list lname)) (irxns lrxns : list lrxn) (mun : list nat),
      let bs := subs_of (r_stoich r) in let bp := prods_of (r_stoich r) in
      let tsl := total (labels_per lv bs) in let tpl := total (labels_per lv bp) in
      (* mass action with distinct substrates, as in IsoProofs.dynamics_collapse_rxn *)
      r_fn r = FProd -> Permutation (r_args r) (bs ++ extra) -> NoDup (map fst (r_stoich r)) -> NoDup bs ->
      (forall a, In a extra -> ~ In a bs /\ ~ In a bp /\ nlab lv a = O /\ (rk = ReplPositional -> getN a lv = None)) ->
      (* every compound of the reaction is labelled; label_variables is a dict *)
      NoDup (map fst lv) -> (forall c, In c (bs ++ bp) -> O < nlab lv c) ->
      (* the map is a bijection of the positions 0 .. max(tsl,tpl)-1 *)
      lmap = map Z.of_nat mun -> Permutation mun (seq O (Nat.max tsl tpl)) ->
      (* both models are built from the same inputs *)
      create_iso_rxns true rk lv r lmap = Ok irxns ->
      lin_isotopomers lv = Ok isos -> lin_rxns DirDocumented isos r lmap = Ok lrxns ->
      (* steady-state link between the two states *)
      (forall c, In c (bs ++ bp) -> envL (LPlain c) = Benv lv envI c
                                    /\ envL (LPlain c) * rinv (envL (LPlain c)) = 1) ->
      envL (LPlain (r_name r)) = prod (map (Benv lv envI) (r_args r)) ->
      (forall c j, In c bs -> j < nlab lv c -> envL (LPos c (Z.of_nat j)) * envL (LPlain c) = marg envI lv c j) ->
      envL LExt = 1 ->
      forall c i, In c (bs ++ bp) -> i < nlab lv c ->
        Deriv envL lrxns (LPos c (Z.of_nat i))
        = rinv (envL (LPlain c))
          * sum (map (fun bits => bitR bits i * Deriv envI irxns (iso_name c bits)) (all_patterns (nlab lv c))).
  Proof.
    intros rk lv r lmap extra envI envL isos irxns lrxns mun bs bp tsl tpl
           Hfn Hargs Hnd_st Hnd_bs Hextra _ Hlab Hlmap Hperm Hiso Hisos Hlin Hpool Hflux Hmarg Hext c i _ Hi.
    subst lmap.
    apply (enrichment_rate_core rk lv r mun extra envI envL Hfn Hargs Hnd_st (or_intror Hnd_bs) Hextra Hperm) with (isos := isos);
      try assumption.
    intros c' Hc'. apply Hpool. apply in_or_app. left. exact Hc'.
  Qed.
End LinDynamics.

Print Assumptions lin_isotopomers_pos.
Print Assumptions lin_loop_deriv.
Print Assumptions no_label_stays_zero.
Print Assumptions no_label_stays_zero_built.
Print Assumptions Gsum_positions.
Print Assumptions Mrg_positions.
Print Assumptions K1.
Print Assumptions lrxns_shape.
Print Assumptions enrichment_rate_core.
Print Assumptions enrichment_rate_rxn.
