(** Initial conditions of the isotopomer model (LabelMapper.build_model, the
    `for k, v in get_initial_conditions().items()` loop, modelled by [build_vars]):
    for a labelled compound c with n label positions every isotopomer of c becomes a variable,
    exactly one of them (the target pattern) carries the base value v, all others are 0,
    hence the total pool of c is preserved. *)
From Coq Require Import List ZArith NArith Bool Arith Lia.
From MxlBase Require Import ListX.
From Label Require Import LModel Iso Algebra.
Import ListNotations.

(** ---- generic dict facts ------------------------------------------------------------------- *)
Section DictFacts.
  Context {K V : Type}.
  Variable eqd : forall a b : K, {a = b} + {a <> b}.

  Lemma dict_get_set (k k' : K) (v : V) (d : list (K * V)) :
    dict_get eqd k (dict_set eqd k' v d) = if eqd k k' then Some v else dict_get eqd k d.
  Proof.
    induction d as [|[k0 v0] r IH]; cbn.
    - destruct (eqd k k'); reflexivity.
    - destruct (eqd k' k0) as [E|NE]; cbn.
      + subst k0. destruct (eqd k k'); reflexivity.
      + destruct (eqd k k0) as [E0|NE0].
        * subst k0. destruct (eqd k k') as [E1|NE1]; [congruence|reflexivity].
        * exact IH.
  Qed.

  Lemma fold_set_const_notin (z : V) (k : K) (isos : list K) :
    forall d0, ~ In k isos ->
      dict_get eqd k (fold_left (fun d i => dict_set eqd i z d) isos d0) = dict_get eqd k d0.
  Proof.
    induction isos as [|i r IH]; intros d0 Hn; cbn [fold_left]; [reflexivity|].
    rewrite IH.
    - rewrite dict_get_set. destruct (eqd k i) as [E|NE]; [|reflexivity].
      exfalso. apply Hn. left. symmetry. exact E.
    - intro Hr. apply Hn. right. exact Hr.
  Qed.

  Lemma fold_set_const_in (z : V) (k : K) (isos : list K) :
    forall d0, In k isos ->
      dict_get eqd k (fold_left (fun d i => dict_set eqd i z d) isos d0) = Some z.
  Proof.
    induction isos as [|i r IH]; intros d0 Hin; cbn [fold_left]; [destruct Hin|].
    destruct (in_dec eqd k r) as [Hr|Hr].
    - apply IH. exact Hr.
    - rewrite fold_set_const_notin by exact Hr. rewrite dict_get_set.
      destruct Hin as [Hi|Hi]; [|contradiction].
      destruct (eqd k i) as [E|NE]; [reflexivity|]. exfalso. apply NE. symmetry. exact Hi.
  Qed.
End DictFacts.

(** ---- isotopomers / gen_binary --------------------------------------------------------------- *)
Lemma getN_isotopomers (c : N) (lv : label_vars) :
  getN c (isotopomers lv) =
  match getN c lv with Some n => Some (gen_binary c n) | None => None end.
Proof.
  unfold getN, isotopomers. induction lv as [|[k m] r IH]; cbn; [reflexivity|].
  destruct (N.eq_dec c k) as [E|NE]; [subst k; reflexivity|exact IH].
Qed.

(** names belonging to compound k *)
Definition comp_is (k : N) (nm : lname) : Prop := nm = LPlain k \/ exists q, nm = LIso k q.

Lemma gen_binary_comp (k : N) (m : nat) (nm : lname) : In nm (gen_binary k m) -> comp_is k nm.
Proof.
  destruct m as [|m]; cbn [gen_binary]; intro Hin.
  - destruct Hin as [Hi|[]]. left. symmetry. exact Hi.
  - apply in_map_iff in Hin. destruct Hin as [q [Hq _]]. right. exists q. symmetry. exact Hq.
Qed.

Lemma hd_gen_binary_comp (k : N) (m : nat) : comp_is k (hd (LPlain k) (gen_binary k m)).
Proof.
  destruct (gen_binary k m) as [|a r] eqn:E; cbn [hd].
  - left. reflexivity.
  - apply (gen_binary_comp k m). rewrite E. left. reflexivity.
Qed.

Lemma iso_name_comp (k c : N) (bits : list bool) (nm : lname) :
  iso_name c bits = nm -> comp_is k nm -> k = c.
Proof.
  intros Hnm [Hc|[q Hc]]; rewrite Hc in Hnm; destruct bits as [|b bs]; cbn [iso_name] in Hnm;
    inversion Hnm; reflexivity.
Qed.

Lemma iso_name_inj (c : N) (a b : list bool) : iso_name c a = iso_name c b -> a = b.
Proof.
  destruct a as [|x xs]; destruct b as [|y ys]; cbn [iso_name]; intro H;
    try reflexivity; try discriminate; inversion H; reflexivity.
Qed.

Lemma iso_name_nonempty (c : N) (bits : list bool) : 0 < length bits -> iso_name c bits = LIso c bits.
Proof. destruct bits as [|b bs]; cbn; [lia|reflexivity]. Qed.

Lemma iso_in_gen_binary (c : N) (n : nat) (bits : list bool) :
  length bits = n -> In (iso_name c bits) (gen_binary c n).
Proof.
  intro Hb. destruct n as [|m]; cbn [gen_binary].
  - destruct bits as [|b bs]; [left; reflexivity|discriminate].
  - rewrite iso_name_nonempty by lia. apply in_map. apply all_patterns_complete. exact Hb.
Qed.

Lemma all_patterns_head (n : nat) : exists tl, all_patterns n = repeat false n :: tl.
Proof.
  induction n as [|n [tl IH]]; cbn [all_patterns repeat].
  - exists []. reflexivity.
  - rewrite IH. cbn [map app]. eexists. reflexivity.
Qed.

Lemma hd_gen_binary (c : N) (n : nat) :
  hd (LPlain c) (gen_binary c n) = iso_name c (repeat false n).
Proof.
  destruct n as [|m]; cbn [gen_binary]; [reflexivity|].
  destruct (all_patterns_head (S m)) as [tl Htl]. rewrite Htl. cbn [map hd].
  symmetry. apply iso_name_nonempty. rewrite repeat_length. lia.
Qed.

Lemma init_suffix_length (n : nat) (pos : list Z) : length (init_suffix n pos) = n.
Proof. unfold init_suffix. rewrite map_length, seq_length. reflexivity. Qed.

(** ---- one loop iteration ------------------------------------------------------------------ *)
(** an iteration for another compound does not touch the isotopomers of c *)
Lemma init_target_comp (ik : init_name_kind) (k : N) (q : list bool) : comp_is k (init_target_name ik k q).
Proof.
  destruct ik; cbn [init_target_name]; try (right; exists q; reflexivity).
  destruct q as [|b q]; cbn [iso_name]; [left; reflexivity|right; eexists; reflexivity].
Qed.

Lemma init_step_other (ik : init_name_kind) (lv : label_vars) (init : init_labels) (vars : list (lname * Z))
      (c k : N) (x : Z) (bits : list bool) :
  k <> c ->
  getL (iso_name c bits) (init_step ik lv init vars (k, x)) = getL (iso_name c bits) vars.
Proof.
  intro Hkc. unfold init_step. cbn [fst snd]. cbv zeta. rewrite getN_isotopomers.
  assert (Hnot : forall nm, comp_is k nm -> iso_name c bits <> nm).
  { intros nm Hc He. apply Hkc. apply (iso_name_comp k c bits nm He Hc). }
  destruct (getN k lv) as [m|].
  - assert (Hfold : getL (iso_name c bits) (fold_left (fun d i => setL i 0%Z d) (gen_binary k m) vars)
                    = getL (iso_name c bits) vars).
    { unfold getL, setL. apply fold_set_const_notin. intro Hin.
      apply (Hnot (iso_name c bits)); [|reflexivity]. apply (gen_binary_comp k m). exact Hin. }
    destruct (getN k init) as [il|].
    + unfold getL, setL in *. rewrite dict_get_set.
      destruct (lname_eq_dec (iso_name c bits) (init_target_name ik k (init_suffix (nlab lv k) (positions_of il)))) as [E|NE].
      * exfalso. apply (Hnot _ (init_target_comp ik k _) E).
      * exact Hfold.
    + unfold getL, setL in *. rewrite dict_get_set.
      destruct (lname_eq_dec (iso_name c bits) (hd (LPlain k) (gen_binary k m))) as [E|NE].
      * exfalso. apply (Hnot _ (hd_gen_binary_comp k m) E).
      * exact Hfold.
  - unfold getL, setL. rewrite dict_get_set.
    destruct (lname_eq_dec (iso_name c bits) (LPlain k)) as [E|NE]; [|reflexivity].
    exfalso. apply (Hnot _ (or_introl eq_refl) E).
Qed.

Lemma steps_other (ik : init_name_kind) (lv : label_vars) (init : init_labels) (c : N) (bits : list bool) (l : list (N * Z)) :
  forall vars, ~ In c (map fst l) ->
    getL (iso_name c bits) (fold_left (init_step ik lv init) l vars) = getL (iso_name c bits) vars.
Proof.
  induction l as [|[k x] r IH]; intros vars Hn; cbn [fold_left]; [reflexivity|].
  rewrite IH.
  - apply init_step_other. intro E. apply Hn. left. cbn. exact E.
  - intro Hr. apply Hn. right. exact Hr.
Qed.

(** zeros for all isotopomers, then the value at the target name *)
Lemma step_self_gen (c : N) (v : Z) (bits target : list bool) (isos : list lname) (vars : list (lname * Z)) :
  In (iso_name c bits) isos ->
  getL (iso_name c bits)
       (setL (iso_name c target) v (fold_left (fun d i => setL i 0%Z d) isos vars))
  = Some (if list_eq_dec Bool.bool_dec bits target then v else 0%Z).
Proof.
  intro Hin. unfold getL, setL. rewrite dict_get_set.
  destruct (lname_eq_dec (iso_name c bits) (iso_name c target)) as [E|NE];
    destruct (list_eq_dec Bool.bool_dec bits target) as [Eb|NEb].
  - reflexivity.
  - exfalso. apply NEb. apply (iso_name_inj c). exact E.
  - exfalso. apply NE. rewrite Eb. reflexivity.
  - apply fold_set_const_in. exact Hin.
Qed.

Lemma init_step_self (ik : init_name_kind) (lv : label_vars) (init : init_labels) (vars : list (lname * Z))
      (c : N) (v : Z) (n : nat) (bits : list bool) :
  getN c lv = Some n ->
  (ik = InitIsoName \/ 0 < n \/ getN c init = None) ->
  length bits = n ->
  getL (iso_name c bits) (init_step ik lv init vars (c, v)) =
  Some (if list_eq_dec Bool.bool_dec bits
             (match getN c init with
              | None => repeat false n
              | Some il => init_suffix n (positions_of il)
              end)
        then v else 0%Z).
Proof.
  intros Hn Hg Hb. unfold init_step. cbn [fst snd]. cbv zeta. rewrite getN_isotopomers, Hn.
  destruct (getN c init) as [il|] eqn:Hi.
  - unfold nlab. rewrite Hn.
    assert (Hname : init_target_name ik c (init_suffix n (positions_of il)) = iso_name c (init_suffix n (positions_of il))).
    { destruct Hg as [->|[Hpos|Hg]]; [reflexivity| |discriminate].
      rewrite (iso_name_nonempty c (init_suffix n (positions_of il))) by (rewrite init_suffix_length; exact Hpos).
      destruct ik; cbn [init_target_name]; try reflexivity.
      apply iso_name_nonempty. rewrite init_suffix_length. exact Hpos. }
    rewrite Hname.
    apply step_self_gen. apply iso_in_gen_binary. exact Hb.
  - rewrite hd_gen_binary. apply step_self_gen. apply iso_in_gen_binary. exact Hb.
Qed.

(** ---- sums of indicator functions --------------------------------------------------------------- *)
Definition sumZ (l : list Z) : Z := fold_right Z.add 0%Z l.

Lemma sum_indicator_notin (v : Z) (t : list bool) (l : list (list bool)) :
  ~ In t l ->
  sumZ (map (fun bits => if list_eq_dec Bool.bool_dec bits t then v else 0%Z) l) = 0%Z.
Proof.
  induction l as [|a r IH]; intro Hn; cbn [map sumZ fold_right]; [reflexivity|].
  fold (sumZ (map (fun bits => if list_eq_dec Bool.bool_dec bits t then v else 0%Z) r)).
  rewrite IH by (intro Hr; apply Hn; right; exact Hr).
  destruct (list_eq_dec Bool.bool_dec a t) as [E|NE]; [|reflexivity].
  exfalso. apply Hn. left. exact E.
Qed.

Lemma sum_indicator_in (v : Z) (t : list bool) (l : list (list bool)) :
  NoDup l -> In t l ->
  sumZ (map (fun bits => if list_eq_dec Bool.bool_dec bits t then v else 0%Z) l) = v.
Proof.
  induction l as [|a r IH]; intros Hnd Hin; [destruct Hin|].
  inversion Hnd as [|a' r' Hna Hndr]; subst a' r'.
  cbn [map sumZ fold_right].
  fold (sumZ (map (fun bits => if list_eq_dec Bool.bool_dec bits t then v else 0%Z) r)).
  destruct (list_eq_dec Bool.bool_dec a t) as [E|NE].
  - subst a. rewrite sum_indicator_notin by exact Hna. lia.
  - destruct Hin as [Hi|Hi]; [contradiction|]. rewrite IH by assumption. lia.
Qed.

(** ---- the theorem --------------------------------------------------------------------------------- *)
Theorem totals_preserved_gen :
  forall (ik : init_name_kind) (lv : label_vars) (init : init_labels) (bvars : list (N * Z)) (c : N) (v : Z) (n : nat),
    NoDup (map fst bvars) ->                 (* get_initial_conditions() is a dict *)
    NoDup (map fst lv) ->                    (* label_variables is a dict *)
    In (c, v) bvars ->
    getN c lv = Some n ->
    (ik = InitIsoName \/ 0 < n \/ getN c init = None) ->         (* the guard *)
    let target := match getN c init with
                  | None => repeat false n
                  | Some il => init_suffix n (positions_of il)
                  end in
    (forall bits, length bits = n ->
       getL (iso_name c bits) (build_vars ik lv init bvars) = Some (if list_eq_dec Bool.bool_dec bits target then v else 0%Z))
    /\ sumZ (map (fun bits => match getL (iso_name c bits) (build_vars ik lv init bvars) with Some x => x | None => 0%Z end)
                 (all_patterns n)) = v
    /\ length target = n.
Proof.
  intros ik lv init bvars c v n Hnd _ Hin Hn Hg target.
  assert (Hlen : length target = n).
  { unfold target. destruct (getN c init) as [il|]; [apply init_suffix_length|apply repeat_length]. }
  assert (Hall : forall bits, length bits = n ->
            getL (iso_name c bits) (build_vars ik lv init bvars)
            = Some (if list_eq_dec Bool.bool_dec bits target then v else 0%Z)).
  { intros bits Hb. destruct (in_split _ _ Hin) as [l1 [l2 Hs]].
    rewrite Hs in Hnd. rewrite map_app in Hnd. cbn [map fst] in Hnd. apply NoDup_remove_2 in Hnd.
    unfold build_vars. rewrite Hs, fold_left_app. cbn [fold_left].
    rewrite steps_other.
    - unfold target. apply init_step_self; assumption.
    - intro H. apply Hnd. apply in_or_app. right. exact H. }
  split; [exact Hall|]. split; [|exact Hlen].
  rewrite (map_ext_in _ (fun bits => if list_eq_dec Bool.bool_dec bits target then v else 0%Z)).
  - apply sum_indicator_in; [apply all_patterns_NoDup|apply all_patterns_complete; exact Hlen].
  - intros bits Hb. rewrite Hall; [reflexivity|]. apply all_patterns_length. exact Hb.
Qed.


(** the repaired tree: no guard *)
Theorem totals_preserved_full :
  forall (lv : label_vars) (init : init_labels) (bvars : list (N * Z)) (c : N) (v : Z) (n : nat),
    NoDup (map fst bvars) -> NoDup (map fst lv) -> In (c, v) bvars -> getN c lv = Some n ->
    let target := match getN c init with
                  | None => repeat false n
                  | Some il => init_suffix n (positions_of il)
                  end in
    (forall bits, length bits = n ->
       getL (iso_name c bits) (build_vars InitIsoName lv init bvars) = Some (if list_eq_dec Bool.bool_dec bits target then v else 0%Z))
    /\ sumZ (map (fun bits => match getL (iso_name c bits) (build_vars InitIsoName lv init bvars) with Some x => x | None => 0%Z end)
                 (all_patterns n)) = v
    /\ length target = n.
Proof.
  intros lv init bvars c v n H1 H2 H3 H4.
  exact (totals_preserved_gen InitIsoName lv init bvars c v n H1 H2 H3 H4 (or_introl eq_refl)).
Qed.

(** the tree before the repair (raw "__" + pattern name): only under the guard *)
Theorem totals_preserved_raw :
  forall (lv : label_vars) (init : init_labels) (bvars : list (N * Z)) (c : N) (v : Z) (n : nat),
    NoDup (map fst bvars) -> NoDup (map fst lv) -> In (c, v) bvars -> getN c lv = Some n ->
    (0 < n \/ getN c init = None) ->
    let target := match getN c init with
                  | None => repeat false n
                  | Some il => init_suffix n (positions_of il)
                  end in
    (forall bits, length bits = n ->
       getL (iso_name c bits) (build_vars InitRawSuffix lv init bvars) = Some (if list_eq_dec Bool.bool_dec bits target then v else 0%Z))
    /\ sumZ (map (fun bits => match getL (iso_name c bits) (build_vars InitRawSuffix lv init bvars) with Some x => x | None => 0%Z end)
                 (all_patterns n)) = v
    /\ length target = n.
Proof.
  intros lv init bvars c v n H1 H2 H3 H4 Hg.
  exact (totals_preserved_gen InitRawSuffix lv init bvars c v n H1 H2 H3 H4 (or_intror Hg)).
Qed.

Print Assumptions totals_preserved_gen.
