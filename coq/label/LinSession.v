(** The LinearLabelMapper OBJECT over its life: edits of its public fields and several `build_model` calls on ONE mapper
    (model file, no proofs).

    `LinearLabelMapper` is a dataclass holding `model`, `label_variables`, `label_maps`; a caller builds the label model,
    changes an atom map or a label count on the mapper (`mapper.label_maps["v1"] = [...]`, `mapper.label_maps["v1"][:] = [...]`,
    `mapper.label_variables["A"] = 2`, or assigns a whole new dict) and builds again.  Linear.v models ONE call as the function
    [build_linear_with] of the mapper's fields.  This file threads the mapper through a history of such operations.

    Whether `build_model` keeps anything on the mapper between calls is a regenerated fact ([cache_mode], GenLabelFacts.v
    `gen_lin_cache`):
      CacheNone     (the tree)  the dataclass has exactly the three public fields, `build_model` computes every per-position
                    reaction from `self.label_variables` / `self.label_maps` / `self.model.get_raw_reactions()` of the call
      CacheAliased  (recognised regression shape, seeded change C16-9)  the position-to-position transfers are computed by a
                    helper `_get_label_transfers` and kept in `self._transfers`; the cache is considered valid while
                    `self._transfers_source == (self.label_variables, self.label_maps)`, where `_transfers_source` holds the
                    very dict OBJECTS it is compared with: after an in-place edit the comparison is still true
      CacheUnknown  anything else (C16_lin_cache_pinned no longer compiles; the session model refuses with ErrName)

    In the CacheAliased model [mp_src_lv] / [mp_src_maps] say what the two components of `_transfers_source` are: [None] = the
    object that is in the mapper's field right now (equal to it whatever was edited in place), [Some v] = another object (the
    field was re-assigned since) whose value is [v]; Python compares dicts by value, irrespective of insertion order
    ([dict_eqbN]).  Limit of the regression model: the caller never puts an OLD dict / list object back into the mapper. *)
From Coq Require Import List ZArith NArith Bool Arith QArith.
From MxlBase Require Import ListX.
From Label Require Import LModel Iso Linear.
Import ListNotations.

Inductive cache_mode := CacheNone | CacheAliased | CacheUnknown.

Definition setN {V} := @dict_set N V N.eq_dec.

(** the arguments of one `build_model(concs, fluxes, external_label, initial_labels)` call *)
Record build_args := mkBA {
  ba_init : option init_labels; ba_concs : list (N * Q); ba_fluxes : list (N * Q); ba_ext : Q
}.

Inductive lin_op :=
| LBuild (a : build_args)                 (* mapper.build_model(...) *)
| LSetMap (rn : N) (m : list Z)           (* mapper.label_maps[rn] = m   /   mapper.label_maps[rn][:] = m *)
| LSetCount (c : N) (n : nat)             (* mapper.label_variables[c] = n *)
| LNewMaps (lmaps : label_maps)           (* mapper.label_maps = {...} (a new dict with new lists) *)
| LNewCounts (lv : label_vars).           (* mapper.label_variables = {...} *)

Definition is_build (op : lin_op) : bool := match op with LBuild _ => true | _ => false end.

(** ---- `build_model` split into the part that depends on network, counts and maps only, and the rest ---- *)
Definition per_rxn_t := list (N * list lname) -> brxn -> list Z -> result (list lrxn).

(** all per-position reactions (the seeded helper's `transfers`, one [lrxn] per tuple) *)
Definition lin_transfers (per_rxn : per_rxn_t) (lv : label_vars) (lmaps : label_maps) (rxns : list brxn)
  : result (list lrxn) :=
  bind (lin_isotopomers lv) (fun isos =>
  bind (collect (map (fun nm =>
          match find (fun r => N.eqb (r_name r) (fst nm)) rxns with
          | None => Err ErrKey
          | Some r => per_rxn isos r (snd nm)
          end) lmaps))
       (fun rs => Ok (concat rs))).

(** variables, initial labels, parameters from the CURRENT counts and the call's arguments, reactions from [tr] *)
Definition build_linear_from (lv : label_vars) (a : build_args) (tr : result (list lrxn)) : result (lmodel Q) :=
  bind (lin_isotopomers lv) (fun isos =>
  let vars0 := flat_map (fun ci => map (fun k => (k, 0%Q)) (snd ci)) isos in
  let vars := match ba_init a with None => vars0 | Some il => fold_left lin_init_step il vars0 end in
  let params := dict_update lname_eq_dec []
                  (map (fun kv => (LPlain (fst kv), snd kv)) (ba_concs a)
                   ++ map (fun kv => (LPlain (fst kv), snd kv)) (ba_fluxes a) ++ [(LExt, ba_ext a)]) in
  bind tr (fun rs => Ok (mkLM params vars [] rs))).

Definition build_linear_a (per_rxn : per_rxn_t) (lv : label_vars) (lmaps : label_maps) (a : build_args) (rxns : list brxn)
  : result (lmodel Q) :=
  build_linear_with per_rxn lv lmaps (ba_init a) (ba_concs a) (ba_fluxes a) (ba_ext a) rxns.

(** ---- the mapper ---- *)
Record mapper := mkMp {
  mp_lv : label_vars; mp_maps : label_maps;
  mp_tr : option (list lrxn);             (* self._transfers *)
  mp_src_lv : option label_vars;          (* self._transfers_source[0]: None = the object in the field, Some v = another one *)
  mp_src_maps : option label_maps         (* self._transfers_source[1] *)
}.
Definition new_mapper (lv : label_vars) (lmaps : label_maps) : mapper := mkMp lv lmaps None None None.

(** Python's `==` on dicts with unique keys: same keys, equal values, any order *)
Definition dict_eqbN {V} (veqb : V -> V -> bool) (a b : list (N * V)) : bool :=
  Nat.eqb (length a) (length b)
  && forallb (fun kv => match getN (fst kv) b with Some v => veqb (snd kv) v | None => false end) a.

Definition cache_hit (mp : mapper) : option (list lrxn) :=
  match mp_tr mp with
  | None => None
  | Some t =>
    if (match mp_src_lv mp with None => true | Some v => dict_eqbN Nat.eqb v (mp_lv mp) end)
       && (match mp_src_maps mp with None => true | Some v => dict_eqbN (list_eqb Z.eqb) v (mp_maps mp) end)
    then Some t else None
  end.

Definition detach {A} (old : A) (src : option A) : option A := match src with None => Some old | s => s end.

(** the public fields after an edit (a build leaves them alone) *)
Definition edit_fields (lvm : label_vars * label_maps) (op : lin_op) : label_vars * label_maps :=
  match op with
  | LBuild _ => lvm
  | LSetMap rn m => (fst lvm, setN rn m (snd lvm))
  | LSetCount c n => (setN c n (fst lvm), snd lvm)
  | LNewMaps d => (fst lvm, d)
  | LNewCounts d => (d, snd lvm)
  end.

Definition mp_step (cm : cache_mode) (per_rxn : per_rxn_t) (rxns : list brxn) (mp : mapper) (op : lin_op)
  : mapper * option (result (lmodel Q)) :=
  match op with
  | LSetMap rn m => (mkMp (mp_lv mp) (setN rn m (mp_maps mp)) (mp_tr mp) (mp_src_lv mp) (mp_src_maps mp), None)
  | LSetCount c n => (mkMp (setN c n (mp_lv mp)) (mp_maps mp) (mp_tr mp) (mp_src_lv mp) (mp_src_maps mp), None)
  | LNewMaps d => (mkMp (mp_lv mp) d (mp_tr mp) (mp_src_lv mp) (detach (mp_maps mp) (mp_src_maps mp)), None)
  | LNewCounts d => (mkMp d (mp_maps mp) (mp_tr mp) (detach (mp_lv mp) (mp_src_lv mp)) (mp_src_maps mp), None)
  | LBuild a =>
    match cm with
    | CacheNone => (mp, Some (build_linear_a per_rxn (mp_lv mp) (mp_maps mp) a rxns))
    | CacheAliased =>
      match cache_hit mp with
      | Some t => (mp, Some (build_linear_from (mp_lv mp) a (Ok t)))
      | None =>
        let tr := lin_transfers per_rxn (mp_lv mp) (mp_maps mp) rxns in
        (match tr with
         | Ok t => mkMp (mp_lv mp) (mp_maps mp) (Some t) None None
         | Err _ => mp
         end, Some (build_linear_from (mp_lv mp) a tr))
      end
    | CacheUnknown => (mp, Some (Err ErrName))
    end
  end.

(** a history of operations on ONE mapper over the base model's reactions [rxns]: what the build_model calls returned, in
    order, and the mapper afterwards *)
Fixpoint lin_session (cm : cache_mode) (per_rxn : per_rxn_t) (rxns : list brxn) (mp : mapper) (ops : list lin_op)
  : list (result (lmodel Q)) * mapper :=
  match ops with
  | [] => ([], mp)
  | op :: rest =>
    let '(mp1, out) := mp_step cm per_rxn rxns mp op in
    let '(outs, mp2) := lin_session cm per_rxn rxns mp1 rest in
    (match out with Some r => r :: outs | None => outs end, mp2)
  end.

(** the specification: every call answers like a FRESH mapper holding the values the fields have at that moment *)
Fixpoint fresh_builds (per_rxn : per_rxn_t) (rxns : list brxn) (lv : label_vars) (lmaps : label_maps) (ops : list lin_op)
  : list (result (lmodel Q)) :=
  match ops with
  | [] => []
  | LBuild a :: rest => build_linear_a per_rxn lv lmaps a rxns :: fresh_builds per_rxn rxns lv lmaps rest
  | op :: rest => let lvm := edit_fields (lv, lmaps) op in fresh_builds per_rxn rxns (fst lvm) (snd lvm) rest
  end.

Definition fields_after (lv : label_vars) (lmaps : label_maps) (ops : list lin_op) : label_vars * label_maps :=
  fold_left edit_fields ops (lv, lmaps).
