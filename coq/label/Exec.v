(** Executable glue used only by the correspondence files (coq/label/corr/*.v): structural
    comparison of generated models and evaluation of right-hand sides over Q.  Nothing here is
    used by a theorem; the theorems talk about [deriv] (LModel.v), which [rhs_exec] calls. *)
From Coq Require Import List ZArith NArith Bool Arith QArith.
From MxlBase Require Import ListX.
From Label Require Import LModel Iso IsoSession Linear LinSession.
Import ListNotations.

Definition lnames_eqb := list_eqb lname_eqb.
Definition coef_eqb (a b : coef) : bool :=
  match a, b with
  | CZ x, CZ y => Z.eqb x y
  | CDer f xs, CDer g ys => fnid_eqb f g && lnames_eqb xs ys
  | _, _ => false
  end.
Definition lrxn_eqb (a b : lrxn) : bool :=
  lname_eqb (lr_name a) (lr_name b) && fnid_eqb (lr_fn a) (lr_fn b) && lnames_eqb (lr_args a) (lr_args b)
  && list_eqb (fun x y => lname_eqb (fst x) (fst y) && coef_eqb (snd x) (snd y)) (lr_stoich a) (lr_stoich b).
Definition lder_eqb (a b : lder) : bool :=
  lname_eqb (ld_name a) (ld_name b) && fnid_eqb (ld_fn a) (ld_fn b) && lnames_eqb (ld_args a) (ld_args b).
Definition lmodel_eqb {V} (veqb : V -> V -> bool) (a b : lmodel V) : bool :=
  list_eqb (fun x y => lname_eqb (fst x) (fst y) && veqb (snd x) (snd y)) (lm_params a) (lm_params b)
  && list_eqb (fun x y => lname_eqb (fst x) (fst y) && veqb (snd x) (snd y)) (lm_vars a) (lm_vars b)
  && list_eqb lder_eqb (lm_derived a) (lm_derived b)
  && list_eqb lrxn_eqb (lm_rxns a) (lm_rxns b).
Definition err_eqb (a b : err) : bool :=
  match a, b with
  | ErrValue, ErrValue | ErrIndex, ErrIndex | ErrKey, ErrKey | ErrName, ErrName => true
  | _, _ => false
  end.
Definition result_eqb {A} (eqb : A -> A -> bool) (a b : result A) : bool :=
  match a, b with Ok x, Ok y => eqb x y | Err e, Err f => err_eqb e f | _, _ => false end.

(** ---- right-hand sides over Q ---- *)
Definition env_of (l : list (lname * Q)) : lname -> Q :=
  fun a => match getL a l with Some v => v | None => 0%Q end.
Definition known (l : list (lname * Q)) (a : lname) : bool :=
  match getL a l with Some _ => true | None => false end.
Definition fsemQ := fsem Q 0%Q 1%Q Qplus Qmult Qopp Qinv.
Definition derivQ := deriv Q 0%Q 1%Q Qplus Qmult Qopp Qinv inject_Z.

(** derived quantities in insertion order (the harness declares base models in dependency order) *)
Fixpoint eval_derived (ds : list lder) (env : list (lname * Q)) : option (list (lname * Q)) :=
  match ds with
  | [] => Some env
  | d :: r =>
    if forallb (known env) (ld_args d)
    then eval_derived r (env ++ [(ld_name d, Qred (fsemQ (ld_fn d) (map (env_of env) (ld_args d))))])
    else None
  end.

Definition coef_known (env : list (lname * Q)) (c : coef) : bool :=
  match c with CZ _ => true | CDer _ args => forallb (known env) args end.

Definition rhs_exec {V} (inj : V -> Q) (m : lmodel V) (state : list (lname * Q)) : option (list Q) :=
  let env0 := map (fun kv => (fst kv, inj (snd kv))) (lm_params m) ++ state in
  match eval_derived (lm_derived m) env0 with
  | None => None
  | Some env =>
    if forallb (fun rx => forallb (known env) (lr_args rx)
                          && forallb (fun yc => known state (fst yc) && coef_known env (snd yc)) (lr_stoich rx))
               (lm_rxns m)
       && forallb (fun kv => known state (fst kv)) (lm_vars m)
    then Some (map (fun kv => Qred (derivQ (env_of env) (lm_rxns m) (fst kv))) (lm_vars m))
    else None
  end.

Definition optQs_eqb (a b : option (list Q)) : bool :=
  match a, b with
  | Some x, Some y => list_eqb Qeq_bool x y
  | None, None => true
  | _, _ => false
  end.

(** one correspondence case of the isotopomer mapper: inputs, what /repo built, and what /repo's
    get_right_hand_side returned at some integer states *)
Record iso_case := mkIsoCase {
  ic_lv : label_vars; ic_maps : label_maps; ic_init : init_labels; ic_base : bmodel;
  ic_built : result (lmodel Z);
  ic_rhs : list (list (lname * Q) * option (list Q))
}.
Definition check_iso (ext_bit : bool) (rk : repl_kind) (ik : init_name_kind) (c : iso_case) : bool :=
  let mine := build_iso ext_bit rk ik (ic_lv c) (ic_maps c) (ic_init c) (ic_base c) in
  result_eqb (lmodel_eqb Z.eqb) mine (ic_built c)
  && match mine with
     | Ok m => forallb (fun sr => optQs_eqb (rhs_exec inject_Z m (fst sr)) (snd sr)) (ic_rhs c)
     | Err _ => true
     end.

(** one HISTORY of build_model calls on ONE LabelMapper object: the mapper's fields, the `initial_labels` of the calls in
    order, what every call of /repo returned, and the mapper's `label_maps` dict after the last call *)
Record sess_case := mkSessCase {
  sc_lv : label_vars; sc_maps : label_maps; sc_inits : list init_labels; sc_base : bmodel;
  sc_built : list (result (lmodel Z));
  sc_maps_after : label_maps
}.
Definition maps_eqb (a b : label_maps) : bool :=
  list_eqb (fun x y => N.eqb (fst x) (fst y) && list_eqb Z.eqb (snd x) (snd y)) a b.
Definition check_sess (mm : maps_mode) (ext_bit : bool) (rk : repl_kind) (ik : init_name_kind) (c : sess_case) : bool :=
  let '(mine, after) := session mm ext_bit rk ik (sc_lv c) (sc_maps c) (sc_base c) (sc_inits c) in
  list_eqb (result_eqb (lmodel_eqb Z.eqb)) mine (sc_built c) && maps_eqb after (sc_maps_after c).

Record lin_case := mkLinCase {
  lc_lv : label_vars; lc_maps : label_maps; lc_init : option init_labels;
  lc_concs : list (N * Q); lc_fluxes : list (N * Q); lc_ext : Q; lc_rxns : list brxn;
  lc_built : result (lmodel Q);
  lc_rhs : list (list (lname * Q) * option (list Q))
}.
Definition check_lin (ek : expand_kind) (dir : direction) (c : lin_case) : bool :=
  let mine := build_linear_x ek dir (lc_lv c) (lc_maps c) (lc_init c) (lc_concs c) (lc_fluxes c) (lc_ext c) (lc_rxns c) in
  result_eqb (lmodel_eqb Qeq_bool) mine (lc_built c)
  && match mine with
     | Ok m => forallb (fun sr => optQs_eqb (rhs_exec (fun q => q) m (fst sr)) (snd sr)) (lc_rhs c)
     | Err _ => true
     end.

(** one HISTORY of operations on ONE LinearLabelMapper object (LinSession.v): the mapper's fields at construction, the base
    model's reactions, the edits and build_model calls in order, what every call of /repo returned, and the mapper's two public
    dicts after the last operation *)
Record lin_sess_case := mkLinSess {
  ls_lv : label_vars; ls_maps : label_maps; ls_rxns : list brxn; ls_ops : list lin_op;
  ls_built : list (result (lmodel Q));
  ls_lv_after : label_vars; ls_maps_after : label_maps
}.
Definition lv_eqb (a b : label_vars) : bool := list_eqb (fun x y => N.eqb (fst x) (fst y) && Nat.eqb (snd x) (snd y)) a b.
Definition check_lin_sess (cm : cache_mode) (ek : expand_kind) (dir : direction) (c : lin_sess_case) : bool :=
  let '(mine, mp) := lin_session cm (lin_rxns_x ek dir) (ls_rxns c) (new_mapper (ls_lv c) (ls_maps c)) (ls_ops c) in
  list_eqb (result_eqb (lmodel_eqb Qeq_bool)) mine (ls_built c)
  && lv_eqb (mp_lv mp) (ls_lv_after c) && maps_eqb (mp_maps mp) (ls_maps_after c).
