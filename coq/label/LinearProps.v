(** C16, whole-model statements about the linear label mapper model (Linear.v), built on the
    one-reaction lemmas of LinearProofs.v:

    - [no_label_build_linear]      build_linear, ANY input, both reading directions: no label anywhere and an
                                   unlabelled external pool => every derivative is 0
    - [enrichment_rate_model]      all mapped mass-action reactions together: linear derivative of a position =
                                   (1/pool) * marginal of the isotopomer derivatives; at a metabolic steady state
                                   (pool stationary) that is the derivative of the enrichment (quotient rule)
    - [uniform_stationary_model]   uniform enrichment equal to the external pool is stationary when the base
                                   network is balanced at the supplied fluxes
    - [direction_refuted_inverse]  regression witness: with the PRE-REPAIR reading direction (DirInverse) the
                                   one-reaction statement fails for the 3-cycle [1;2;0]. *)
From Coq Require Import List ZArith NArith Bool Arith Lia Permutation Ring InitialRing.
From MxlBase Require Import ListX.
From Label Require Import LModel Iso Linear Algebra IsoProofs IsoInitProofs IsoPropsZ LinearProofs.
Import ListNotations.

Section LinWhole.
  Variable R : Type.
  Variables (rO rI : R) (radd rmul rsub : R -> R -> R) (ropp rinv : R -> R) (ofZ : Z -> R).
  Hypothesis Rth : ring_theory rO rI radd rmul rsub ropp eq.
  Hypothesis ofZ_0 : ofZ 0%Z = rO.
  Hypothesis ofZ_1 : ofZ 1%Z = rI.
  Hypothesis ofZ_add : forall a b, ofZ (a + b)%Z = radd (ofZ a) (ofZ b).
  Hypothesis ofZ_opp : forall a, ofZ (- a)%Z = ropp (ofZ a).
  Add Ring Rring_whole : Rth.

  Notation "0" := rO. Notation "1" := rI.
  Infix "+" := radd. Infix "*" := rmul. Infix "-" := rsub.
  Notation sum := (sumR R rO radd).
  Notation prod := (prodR R rI rmul).
  Notation Deriv := (deriv R rO rI radd rmul ropp rinv ofZ).
  Notation bitR := (bit R rO rI).
  Notation Benv := (benv R rO radd).
  Notation Ind := (ind R rO rI).
  Notation Marg := (marg R rO rI radd rmul).
  Notation ofN := (ofNat R ofZ).

  Let s_app := sum_app R rO rI radd rmul rsub ropp Rth.
  Let s_scale := @sum_map_scale R rO rI radd rmul rsub ropp Rth.
  Let s_add := @sum_map_add R rO rI radd rmul rsub ropp Rth.
  Let s_zero := @sum_map_zero R rO rI radd rmul rsub ropp Rth.
  Let s_ext := @sum_map_ext R rO radd.
  Let s_cons := sum_cons R rO radd.
  Let s_nil := sum_nil R rO radd.
  Let d_app := deriv_app R rO rI radd rmul rsub ropp rinv ofZ Rth.
  Let ofN_S := ofNat_S R rI radd ofZ ofZ_1 ofZ_add.
  Let ofZ_minus := ofZ_sub R rO rI radd rmul rsub ropp ofZ Rth ofZ_add ofZ_opp.

  (** ---- derivative of a concatenation ------------------------------------------------------------ *)
  Lemma deriv_concat_collect {A} (f : A -> result (list lrxn)) (g : A -> R) env X :
    forall l lrs,
      collect (map f l) = Ok lrs ->
      (forall a lr, In a l -> f a = Ok lr -> Deriv env lr X = g a) ->
      Deriv env (concat lrs) X = sum (map g l).
  Proof.
    induction l as [|a l IH]; intros lrs Hc Hg; cbn [map collect] in Hc.
    - inversion Hc; subst lrs. reflexivity.
    - destruct (f a) as [lr|] eqn:Hf; [|discriminate].
      destruct (collect (map f l)) as [lrs'|] eqn:Hc'; [|discriminate].
      inversion Hc; subst lrs. cbn [concat map]. rewrite d_app, s_cons.
      rewrite (Hg a lr (or_introl eq_refl) Hf).
      rewrite (IH lrs' eq_refl); [reflexivity|].
      intros a' lr' Hin. apply Hg. right. exact Hin.
  Qed.

  (** ---- no label stays zero: the whole [build_linear], any input, any direction ------------------------ *)
  Theorem no_label_build_linear dir lv lmaps init concs fluxes ext rxns m (env : lname -> R) X :
    build_linear dir lv lmaps init concs fluxes ext rxns = Ok m ->
    env LExt = 0 -> (forall c j, env (LPos c j) = 0) ->
    Deriv env (lm_rxns m) X = 0.
  Proof.
    unfold build_linear, build_linear_with. destruct (lin_isotopomers lv) as [isos|] eqn:Hi; [|discriminate]. cbn [bind].
    destruct (collect _) as [rs|] eqn:Hc; [|discriminate]. cbn [bind]. intros Hm He Hp.
    inversion Hm; subst m. cbn [lm_rxns].
    rewrite (deriv_concat_collect _ (fun _ => 0) env X lmaps rs Hc).
    - apply s_zero.
    - intros nm lr _ Hf. destruct (find _ rxns) as [r|]; [|discriminate].
      exact (no_label_stays_zero_built R rO rI radd rmul rsub ropp rinv ofZ Rth dir lv isos r (snd nm) lr env X Hi Hf He Hp).
  Qed.

  (** ---- enrichment rate: all mapped reactions together ------------------------------------------------ *)
  Theorem enrichment_rate_model :
    forall (rk : repl_kind) (lv : label_vars) (rms : list (brxn * list Z)) (envI envL : lname -> R)
           (isos : list (N * list lname)) (irs lrs : list (list lrxn)),
      Forall (fun rm =>
                let r := fst rm in
                let bs := subs_of (r_stoich r) in let bp := prods_of (r_stoich r) in
                exists (extra : list N) (mun : list nat),
                  r_fn r = FProd /\ Permutation (r_args r) (bs ++ extra) /\ NoDup (map fst (r_stoich r)) /\ (rk = ReplPositional \/ NoDup bs) /\
                  (forall a, In a extra -> ~ In a bs /\ ~ In a bp /\ nlab lv a = O /\ (rk = ReplPositional -> getN a lv = None)) /\
                  (forall c, In c (bs ++ bp) -> O < nlab lv c) /\
                  snd rm = map Z.of_nat mun /\
                  Permutation mun (seq O (Nat.max (total (labels_per lv bs)) (total (labels_per lv bp)))) /\
                  envL (LPlain (r_name r)) = prod (map (Benv lv envI) (r_args r))) rms ->
      collect (map (fun rm => create_iso_rxns true rk lv (fst rm) (snd rm)) rms) = Ok irs ->
      lin_isotopomers lv = Ok isos ->
      collect (map (fun rm => lin_rxns DirDocumented isos (fst rm) (snd rm)) rms) = Ok lrs ->
      (forall c, O < nlab lv c -> envL (LPlain c) = Benv lv envI c) ->
      (forall c j, j < nlab lv c -> envL (LPos c (Z.of_nat j)) * envL (LPlain c) = Marg envI lv c j) ->
      envL LExt = 1 ->
      forall c i, i < nlab lv c ->
        Deriv envL (concat lrs) (LPos c (Z.of_nat i))
        = rinv (envL (LPlain c))
          * sum (map (fun bits => bitR bits i * Deriv envI (concat irs) (iso_name c bits)) (all_patterns (nlab lv c))).
  Proof.
    intros rk lv rms envI envL isos irs lrs Hwf Hi Hisos Hl Hpool Hmarg Hext c i Hci.
    revert irs lrs Hi Hl. induction Hwf as [|rm rms Hrm _ IH]; intros irs lrs Hi Hl; cbn [map collect] in Hi, Hl.
    - inversion Hi; subst irs. inversion Hl; subst lrs. cbn [concat].
      rewrite (s_ext _ _ (fun _ => 0)), s_zero by (intros; cbn; ring). cbn. ring.
    - destruct (create_iso_rxns true rk lv (fst rm) (snd rm)) as [ir|] eqn:Hir; [|discriminate].
      destruct (collect (map (fun rm0 => create_iso_rxns true rk lv (fst rm0) (snd rm0)) rms)) as [irs'|] eqn:Hi'; [|discriminate].
      destruct (lin_rxns DirDocumented isos (fst rm) (snd rm)) as [lr|] eqn:Hlr; [|discriminate].
      destruct (collect (map (fun rm0 => lin_rxns DirDocumented isos (fst rm0) (snd rm0)) rms)) as [lrs'|] eqn:Hl'; [|discriminate].
      inversion Hi; subst irs. inversion Hl; subst lrs. cbn [concat]. rewrite d_app, (IH irs' lrs' eq_refl eq_refl).
      cbv zeta in Hrm. destruct Hrm as [extra [mun [Hfn [Hargs [Hnd [Hndb [Hextra [Hlab [Hmap [Hperm Hflux]]]]]]]]]].
      rewrite Hmap in Hir, Hlr.
      rewrite (enrichment_rate_core R rO rI radd rmul rsub ropp rinv ofZ Rth ofZ_0 ofZ_1 ofZ_add ofZ_opp
                 rk lv (fst rm) mun extra envI envL Hfn Hargs Hnd Hndb Hextra Hperm
                 (fun c' Hc' => Hpool c' (Hlab c' (in_or_app _ _ c' (or_introl Hc'))))
                 Hflux
                 (fun c' j _ Hj => Hmarg c' j Hj)
                 Hext isos ir lr Hlab Hir Hisos Hlr c i Hci).
      rewrite (s_ext _ (fun bits => bitR bits i * Deriv envI (ir ++ concat irs') (iso_name c bits))
                       (fun bits => bitR bits i * Deriv envI ir (iso_name c bits)
                                    + bitR bits i * Deriv envI (concat irs') (iso_name c bits))).
      + rewrite s_add. ring.
      + intros bits _. rewrite d_app. ring.
  Qed.

  (** at a metabolic steady state the right-hand side IS the derivative of the enrichment m/P
      (quotient rule, cross-multiplied: e' * P^2 = m' * P - m * P' with P' = 0) *)
  Corollary enrichment_rate_quotient (P Pinv lhs dm dP m : R) :
    P * Pinv = 1 -> lhs = Pinv * dm -> dP = 0 -> lhs * (P * P) = dm * P - m * dP.
  Proof.
    intros HP -> ->.
    transitivity ((P * Pinv) * (dm * P)); [ring|]. rewrite HP. ring.
  Qed.

  (** the full C16 statement: both forms together *)
  Theorem enrichment_rate_steady :
    forall (rk : repl_kind) (lv : label_vars) (rms : list (brxn * list Z)) (envI envL : lname -> R)
           (isos : list (N * list lname)) (irs lrs : list (list lrxn)),
      Forall (fun rm =>
                let r := fst rm in
                let bs := subs_of (r_stoich r) in let bp := prods_of (r_stoich r) in
                exists (extra : list N) (mun : list nat),
                  r_fn r = FProd /\ Permutation (r_args r) (bs ++ extra) /\ NoDup (map fst (r_stoich r)) /\ (rk = ReplPositional \/ NoDup bs) /\
                  (forall a, In a extra -> ~ In a bs /\ ~ In a bp /\ nlab lv a = O /\ (rk = ReplPositional -> getN a lv = None)) /\
                  (forall c, In c (bs ++ bp) -> O < nlab lv c) /\
                  snd rm = map Z.of_nat mun /\
                  Permutation mun (seq O (Nat.max (total (labels_per lv bs)) (total (labels_per lv bp)))) /\
                  envL (LPlain (r_name r)) = prod (map (Benv lv envI) (r_args r))) rms ->
      collect (map (fun rm => create_iso_rxns true rk lv (fst rm) (snd rm)) rms) = Ok irs ->
      lin_isotopomers lv = Ok isos ->
      collect (map (fun rm => lin_rxns DirDocumented isos (fst rm) (snd rm)) rms) = Ok lrs ->
      (forall c, O < nlab lv c -> envL (LPlain c) = Benv lv envI c) ->
      (forall c j, j < nlab lv c -> envL (LPos c (Z.of_nat j)) * envL (LPlain c) = Marg envI lv c j) ->
      envL LExt = 1 ->
      forall c i, i < nlab lv c ->
        let P := envL (LPlain c) in
        let m := Marg envI lv c i in
        let dm := sum (map (fun bits => bitR bits i * Deriv envI (concat irs) (iso_name c bits)) (all_patterns (nlab lv c))) in
        let dP := sum (map (fun bits => Deriv envI (concat irs) (iso_name c bits)) (all_patterns (nlab lv c))) in
        Deriv envL (concat lrs) (LPos c (Z.of_nat i)) = rinv P * dm
        /\ (P * rinv P = 1 -> dP = 0 -> Deriv envL (concat lrs) (LPos c (Z.of_nat i)) * (P * P) = dm * P - m * dP).
  Proof.
    intros rk lv rms envI envL isos irs lrs Hwf Hi Hisos Hl Hpool Hmarg Hext c i Hci P m dm dP.
    pose proof (enrichment_rate_model rk lv rms envI envL isos irs lrs Hwf Hi Hisos Hl Hpool Hmarg Hext c i Hci) as H.
    split; [exact H|]. intros HP HdP.
    exact (enrichment_rate_quotient P (rinv P) _ dm dP m HP H HdP).
  Qed.

  (** ---- uniform enrichment ---------------------------------------------------------------------------- *)
  Lemma uniform_loop env rn c i e : forall subs prods i0,
    Forall (fun s => env s = e) subs -> length subs = length prods ->
    Deriv env (lin_loop rn i0 subs prods) (LPos c i)
    = (rinv (env (LPlain c)) * (e * env (LPlain rn)))
      * (sum (map (fun p => Ind p (LPos c i)) prods) - sum (map (fun s => Ind s (LPos c i)) subs)).
  Proof.
    intros subs prods i0 Hf Hl.
    rewrite (lin_loop_deriv R rO rI radd rmul rsub ropp rinv ofZ Rth). clear i0.
    revert prods Hl. induction Hf as [|s ss Hs _ IH]; intros [|p ps] Hl; cbn in Hl; try discriminate;
      cbn [combine map]; rewrite ?s_cons, ?s_nil; [ring|].
    rewrite IH by lia. cbn [fst snd]. rewrite Hs. ring.
  Qed.

  Lemma ind_ext c i : Ind LExt (LPos c i) = 0.
  Proof. unfold ind. destruct (lname_eq_dec LExt (LPos c i)) as [He|_]; [discriminate He|reflexivity]. Qed.

  Lemma sum_ind_repeat_ext c i k : sum (map (fun x => Ind x (LPos c i)) (repeat LExt k)) = 0.
  Proof. induction k as [|k IH]; cbn [repeat map]; rewrite ?s_cons, ?s_nil; [reflexivity|]. rewrite IH, ind_ext. ring. Qed.

  Lemma sum_ind_posnames c' c i n :
    sum (map (fun x => Ind x (LPos c (Z.of_nat i))) (posnames c' n))
    = if N.eq_dec c' c then (if lt_dec i n then 1 else 0) else 0.
  Proof.
    rewrite <- (sum_one_compound R rO rI radd rmul rsub ropp Rth c' c i n O (fun _ => 1)).
    rewrite <- (map_fst_combine (posnames c' n) (seq O n)) at 1 by (rewrite posnames_length, seq_length; reflexivity).
    rewrite map_map. apply s_ext. intros xh _. ring.
  Qed.

  Lemma sum_ind_poslist lv c i cs : i < nlab lv c ->
    sum (map (fun x => Ind x (LPos c (Z.of_nat i))) (poslist lv cs)) = ofN (count_occ N.eq_dec cs c).
  Proof.
    intro Hi. induction cs as [|c' cs IH].
    - cbn. symmetry. apply (ofNat_0 R rO ofZ ofZ_0).
    - rewrite poslist_cons, map_app, s_app, IH, sum_ind_posnames. cbn [count_occ].
      destruct (N.eq_dec c' c) as [->|Hne].
      + destruct (lt_dec i (nlab lv c)) as [_|Hn]; [|contradiction]. rewrite ofN_S. reflexivity.
      + ring.
  Qed.

  Lemma uniform_rxn lv r mun isos lrxns (env : lname -> R) e c i :
    Permutation mun (seq O (Nat.max (total (labels_per lv (subs_of (r_stoich r)))) (total (labels_per lv (prods_of (r_stoich r)))))) ->
    (forall c, In c (subs_of (r_stoich r) ++ prods_of (r_stoich r)) -> O < nlab lv c) ->
    lin_isotopomers lv = Ok isos ->
    lin_rxns DirDocumented isos r (map Z.of_nat mun) = Ok lrxns ->
    env LExt = e -> (forall c j, env (LPos c j) = e) ->
    i < nlab lv c ->
    Deriv env lrxns (LPos c (Z.of_nat i))
    = (rinv (env (LPlain c)) * (e * env (LPlain (r_name r))))
      * (ofN (count_occ N.eq_dec (prods_of (r_stoich r)) c) - ofN (count_occ N.eq_dec (subs_of (r_stoich r)) c)).
  Proof.
    intros Hperm Hlab Hisos Hlin He Hp Hi.
    rewrite (lrxns_shape lv r mun Hperm isos lrxns Hlab Hisos Hlin).
    set (tsl := total (labels_per lv (subs_of (r_stoich r)))) in *.
    set (tpl := total (labels_per lv (prods_of (r_stoich r)))) in *.
    set (S1 := poslist lv (subs_of (r_stoich r)) ++ repeat LExt (Nat.max tsl tpl - tsl)).
    set (P1 := poslist lv (prods_of (r_stoich r)) ++ repeat LExt (Nat.max tsl tpl - tpl)).
    assert (HlS : length S1 = Nat.max tsl tpl) by exact (len_S1 lv r).
    assert (HlP : length P1 = Nat.max tsl tpl) by exact (len_P1 lv r).
    assert (Hlm : length mun = Nat.max tsl tpl) by exact (len_mun lv r mun Hperm).
    assert (HS1 : Forall (fun s => env s = e) S1).
    { apply Forall_app. split; [|apply Forall_repeat; exact He].
      apply Forall_forall. intros x Hx. unfold poslist in Hx. apply in_flat_map in Hx.
      destruct Hx as [c' [_ Hx]]. apply in_map_iff in Hx. destruct Hx as [k [<- _]]. apply Hp. }
    rewrite (uniform_loop env (r_name r) c (Z.of_nat i) e).
    - f_equal. f_equal.
      + unfold P1. rewrite map_app, s_app, sum_ind_repeat_ext, (sum_ind_poslist lv c i _ Hi). ring.
      + rewrite map_map.
        rewrite (sum_perm R rO rI radd rmul rsub ropp Rth _ _ (Permutation_map _ Hperm)).
        rewrite <- (map_map (fun h => nth h S1 LExt) (fun x => Ind x (LPos c (Z.of_nat i)))).
        rewrite <- HlS, map_nth_seq.
        unfold S1. rewrite map_app, s_app, sum_ind_repeat_ext, (sum_ind_poslist lv c i _ Hi). ring.
    - apply Forall_forall. intros x Hx. apply in_map_iff in Hx. destruct Hx as [h [<- Hh]].
      rewrite Forall_forall in HS1. apply HS1. apply nth_In. rewrite HlS.
      apply (Permutation_in _ Hperm) in Hh. apply in_seq in Hh. lia.
    - rewrite map_length, Hlm, HlP. reflexivity.
  Qed.

  Theorem uniform_stationary_model :
    forall (lv : label_vars) (rms : list (brxn * list Z)) (env : lname -> R) (e : R)
           (isos : list (N * list lname)) (lrs : list (list lrxn)),
      Forall (fun rm =>
                let r := fst rm in
                let bs := subs_of (r_stoich r) in let bp := prods_of (r_stoich r) in
                NoDup (map fst (r_stoich r)) /\
                (forall c, In c (bs ++ bp) -> O < nlab lv c) /\
                exists mun : list nat,
                  snd rm = map Z.of_nat mun /\
                  Permutation mun (seq O (Nat.max (total (labels_per lv bs)) (total (labels_per lv bp))))) rms ->
      lin_isotopomers lv = Ok isos ->
      collect (map (fun rm => lin_rxns DirDocumented isos (fst rm) (snd rm)) rms) = Ok lrs ->
      env LExt = e -> (forall c j, env (LPos c j) = e) ->
      forall c i, i < nlab lv c ->
        (* the base network is balanced for c at the supplied fluxes: sum of coefficient * flux = 0 *)
        sum (map (fun rm => ofZ (match getN c (r_stoich (fst rm)) with Some v => v | None => 0%Z end)
                            * env (LPlain (r_name (fst rm)))) rms) = 0 ->
        Deriv env (concat lrs) (LPos c (Z.of_nat i)) = 0.
  Proof.
    intros lv rms env e isos lrs Hwf Hisos Hl He Hp c i Hi Hbal.
    rewrite (deriv_concat_collect _
               (fun rm => (rinv (env (LPlain c)) * e)
                          * (ofZ (match getN c (r_stoich (fst rm)) with Some v => v | None => 0%Z end)
                             * env (LPlain (r_name (fst rm))))) env _ rms lrs Hl).
    - rewrite s_scale, Hbal. ring.
    - intros rm lr Hin Hf. rewrite Forall_forall in Hwf. specialize (Hwf rm Hin). cbv zeta in Hwf.
      destruct Hwf as [Hnd [Hlab [mun [Hmap Hperm]]]]. rewrite Hmap in Hf.
      rewrite (uniform_rxn lv (fst rm) mun isos lr env e c i Hperm Hlab Hisos Hf He Hp Hi).
      rewrite <- (net_stoichiometry _ c Hnd), ofZ_minus. unfold ofNat. ring.
  Qed.
End LinWhole.

(** ---- regression witness for the pre-repair reading direction ------------------------------------------- *)
(** A(3 positions) -> B(3 positions), rate k*A, map [1;2;0] (a 3-cycle); pools 1, flux 1; all of A is the
    isotopomer 100 (enrichment of A's position 0 is 1), B unlabelled.  The isotopomer mapper produces B__001
    (B[2] <- A[0]): the enrichment of B's position 2 rises at rate 1.  With the inverse reading the linear model
    moves A[0] to B[1] instead and leaves B[2] at rate 0. *)
Definition rf_lv : label_vars := [(1%N, 3); (2%N, 3)].
Definition rf_rxn : brxn := mkBR 40%N FProd [1%N; 20%N] [(1%N, (-1)%Z); (2%N, 1%Z)].
Definition rf_map : list nat := [1; 2; 0].
Definition rf_envI : lname -> Z :=
  fun a => match getL a [(LIso 1%N [true; false; false], 1%Z); (LIso 2%N [false; false; false], 1%Z); (LPlain 20%N, 1%Z)] with
           | Some v => v | None => 0%Z end.
Definition rf_envL : lname -> Z :=
  fun a => match getL a [(LPlain 1%N, 1%Z); (LPlain 2%N, 1%Z); (LPlain 40%N, 1%Z); (LExt, 1%Z); (LPos 1%N 0%Z, 1%Z)] with
           | Some v => v | None => 0%Z end.

Definition derivZ' := deriv Z 0%Z 1%Z Z.add Z.mul Z.opp idZ idZ.

Theorem direction_refuted_inverse_dict :
  exists (lv : label_vars) (r : brxn) (extra : list N) (mun : list nat) (envI envL : lname -> Z)
         (isos : list (N * list lname)) (irxns lrxns : list lrxn) (c : N) (i : nat),
    let bs := subs_of (r_stoich r) in let bp := prods_of (r_stoich r) in
    r_fn r = FProd /\ Permutation (r_args r) (bs ++ extra) /\ NoDup (map fst (r_stoich r)) /\ NoDup bs /\
    (forall a, In a extra -> ~ In a bs /\ ~ In a bp /\ nlab lv a = 0 /\ (ReplDict = ReplPositional -> getN a lv = None)) /\
    (forall c, In c (bs ++ bp) -> 0 < nlab lv c) /\
    Permutation mun (seq 0 (Nat.max (total (labels_per lv bs)) (total (labels_per lv bp)))) /\
    create_iso_rxns true ReplDict lv r (map Z.of_nat mun) = Ok irxns /\
    lin_isotopomers lv = Ok isos /\
    lin_rxns DirInverse isos r (map Z.of_nat mun) = Ok lrxns /\
    (forall c, In c (bs ++ bp) -> envL (LPlain c) = benv Z 0%Z Z.add lv envI c /\ (envL (LPlain c) * idZ (envL (LPlain c)) = 1)%Z) /\
    envL (LPlain (r_name r)) = prodR Z 1%Z Z.mul (map (benv Z 0%Z Z.add lv envI) (r_args r)) /\
    (forall c j, In c bs -> j < nlab lv c ->
       (envL (LPos c (Z.of_nat j)) * envL (LPlain c))%Z = marg Z 0%Z 1%Z Z.add Z.mul envI lv c j) /\
    envL LExt = 1%Z /\
    In c (bs ++ bp) /\ i < nlab lv c /\
    derivZ' envL lrxns (LPos c (Z.of_nat i)) = 0%Z /\
    (idZ (envL (LPlain c))
     * sumR Z 0%Z Z.add (map (fun bits => bit Z 0%Z 1%Z bits i * derivZ' envI irxns (iso_name c bits)) (all_patterns (nlab lv c))))%Z = 1%Z.
Proof.
  destruct (create_iso_rxns true ReplDict rf_lv rf_rxn (map Z.of_nat rf_map)) as [irxns|] eqn:Hi; [|vm_compute in Hi; discriminate].
  destruct (lin_isotopomers rf_lv) as [isos|] eqn:Hs; [|vm_compute in Hs; discriminate].
  destruct (lin_rxns DirInverse isos rf_rxn (map Z.of_nat rf_map)) as [lrxns|] eqn:Hl;
    [|vm_compute in Hs; inversion Hs; subst isos; vm_compute in Hl; discriminate].
  exists rf_lv, rf_rxn, [20%N], rf_map, rf_envI, rf_envL, isos, irxns, lrxns, 2%N, 2.
  cbv zeta.
  vm_compute in Hs. inversion Hs; subst isos. clear Hs.
  vm_compute in Hi. inversion Hi; subst irxns. clear Hi.
  vm_compute in Hl. inversion Hl; subst lrxns. clear Hl.
  repeat match goal with |- _ /\ _ => split end.
  - reflexivity.
  - vm_compute. apply Permutation_refl.
  - vm_compute. repeat constructor; cbn; intuition (try discriminate; try reflexivity).
  - vm_compute. repeat constructor; cbn; intuition (try discriminate; try reflexivity).
  - intros a [<-|[]]. vm_compute. intuition (try discriminate; try reflexivity).
  - intros c Hc. vm_compute in Hc. destruct Hc as [<-|[<-|[]]]; vm_compute; lia.
  - vm_compute. apply (Permutation_trans (l' := [1; 0; 2])).
    + apply perm_skip. apply perm_swap.
    + apply perm_swap.
  - reflexivity.
  - reflexivity.
  - reflexivity.
  - intros c Hc. vm_compute in Hc. destruct Hc as [<-|[<-|[]]]; vm_compute; split; reflexivity.
  - vm_compute. reflexivity.
  - intros c j Hc Hj. vm_compute in Hc. destruct Hc as [<-|[]].
    change (nlab rf_lv 1%N) with 3 in Hj.
    destruct j as [|[|[|j]]]; [vm_compute; reflexivity..|lia].
  - reflexivity.
  - vm_compute. right. left. reflexivity.
  - vm_compute. lia.
  - vm_compute. reflexivity.
  - vm_compute. reflexivity.
Qed.

Theorem direction_refuted_inverse_pos :
  exists (lv : label_vars) (r : brxn) (extra : list N) (mun : list nat) (envI envL : lname -> Z)
         (isos : list (N * list lname)) (irxns lrxns : list lrxn) (c : N) (i : nat),
    let bs := subs_of (r_stoich r) in let bp := prods_of (r_stoich r) in
    r_fn r = FProd /\ Permutation (r_args r) (bs ++ extra) /\ NoDup (map fst (r_stoich r)) /\ NoDup bs /\
    (forall a, In a extra -> ~ In a bs /\ ~ In a bp /\ nlab lv a = 0 /\ (ReplPositional = ReplPositional -> getN a lv = None)) /\
    (forall c, In c (bs ++ bp) -> 0 < nlab lv c) /\
    Permutation mun (seq 0 (Nat.max (total (labels_per lv bs)) (total (labels_per lv bp)))) /\
    create_iso_rxns true ReplPositional lv r (map Z.of_nat mun) = Ok irxns /\
    lin_isotopomers lv = Ok isos /\
    lin_rxns DirInverse isos r (map Z.of_nat mun) = Ok lrxns /\
    (forall c, In c (bs ++ bp) -> envL (LPlain c) = benv Z 0%Z Z.add lv envI c /\ (envL (LPlain c) * idZ (envL (LPlain c)) = 1)%Z) /\
    envL (LPlain (r_name r)) = prodR Z 1%Z Z.mul (map (benv Z 0%Z Z.add lv envI) (r_args r)) /\
    (forall c j, In c bs -> j < nlab lv c ->
       (envL (LPos c (Z.of_nat j)) * envL (LPlain c))%Z = marg Z 0%Z 1%Z Z.add Z.mul envI lv c j) /\
    envL LExt = 1%Z /\
    In c (bs ++ bp) /\ i < nlab lv c /\
    derivZ' envL lrxns (LPos c (Z.of_nat i)) = 0%Z /\
    (idZ (envL (LPlain c))
     * sumR Z 0%Z Z.add (map (fun bits => bit Z 0%Z 1%Z bits i * derivZ' envI irxns (iso_name c bits)) (all_patterns (nlab lv c))))%Z = 1%Z.
Proof.
  destruct (create_iso_rxns true ReplPositional rf_lv rf_rxn (map Z.of_nat rf_map)) as [irxns|] eqn:Hi; [|vm_compute in Hi; discriminate].
  destruct (lin_isotopomers rf_lv) as [isos|] eqn:Hs; [|vm_compute in Hs; discriminate].
  destruct (lin_rxns DirInverse isos rf_rxn (map Z.of_nat rf_map)) as [lrxns|] eqn:Hl;
    [|vm_compute in Hs; inversion Hs; subst isos; vm_compute in Hl; discriminate].
  exists rf_lv, rf_rxn, [20%N], rf_map, rf_envI, rf_envL, isos, irxns, lrxns, 2%N, 2.
  cbv zeta.
  vm_compute in Hs. inversion Hs; subst isos. clear Hs.
  vm_compute in Hi. inversion Hi; subst irxns. clear Hi.
  vm_compute in Hl. inversion Hl; subst lrxns. clear Hl.
  repeat match goal with |- _ /\ _ => split end.
  - reflexivity.
  - vm_compute. apply Permutation_refl.
  - vm_compute. repeat constructor; cbn; intuition (try discriminate; try reflexivity).
  - vm_compute. repeat constructor; cbn; intuition (try discriminate; try reflexivity).
  - intros a [<-|[]]. vm_compute. intuition (try discriminate; try reflexivity).
  - intros c Hc. vm_compute in Hc. destruct Hc as [<-|[<-|[]]]; vm_compute; lia.
  - vm_compute. apply (Permutation_trans (l' := [1; 0; 2])).
    + apply perm_skip. apply perm_swap.
    + apply perm_swap.
  - reflexivity.
  - reflexivity.
  - reflexivity.
  - intros c Hc. vm_compute in Hc. destruct Hc as [<-|[<-|[]]]; vm_compute; split; reflexivity.
  - vm_compute. reflexivity.
  - intros c j Hc Hj. vm_compute in Hc. destruct Hc as [<-|[]].
    change (nlab rf_lv 1%N) with 3 in Hj.
    destruct j as [|[|[|j]]]; [vm_compute; reflexivity..|lia].
  - reflexivity.
  - vm_compute. right. left. reflexivity.
  - vm_compute. lia.
  - vm_compute. reflexivity.
  - vm_compute. reflexivity.
Qed.

Theorem direction_refuted_inverse_unk :
  exists (lv : label_vars) (r : brxn) (extra : list N) (mun : list nat) (envI envL : lname -> Z)
         (isos : list (N * list lname)) (irxns lrxns : list lrxn) (c : N) (i : nat),
    let bs := subs_of (r_stoich r) in let bp := prods_of (r_stoich r) in
    r_fn r = FProd /\ Permutation (r_args r) (bs ++ extra) /\ NoDup (map fst (r_stoich r)) /\ NoDup bs /\
    (forall a, In a extra -> ~ In a bs /\ ~ In a bp /\ nlab lv a = 0 /\ (ReplUnknown = ReplPositional -> getN a lv = None)) /\
    (forall c, In c (bs ++ bp) -> 0 < nlab lv c) /\
    Permutation mun (seq 0 (Nat.max (total (labels_per lv bs)) (total (labels_per lv bp)))) /\
    create_iso_rxns true ReplUnknown lv r (map Z.of_nat mun) = Ok irxns /\
    lin_isotopomers lv = Ok isos /\
    lin_rxns DirInverse isos r (map Z.of_nat mun) = Ok lrxns /\
    (forall c, In c (bs ++ bp) -> envL (LPlain c) = benv Z 0%Z Z.add lv envI c /\ (envL (LPlain c) * idZ (envL (LPlain c)) = 1)%Z) /\
    envL (LPlain (r_name r)) = prodR Z 1%Z Z.mul (map (benv Z 0%Z Z.add lv envI) (r_args r)) /\
    (forall c j, In c bs -> j < nlab lv c ->
       (envL (LPos c (Z.of_nat j)) * envL (LPlain c))%Z = marg Z 0%Z 1%Z Z.add Z.mul envI lv c j) /\
    envL LExt = 1%Z /\
    In c (bs ++ bp) /\ i < nlab lv c /\
    derivZ' envL lrxns (LPos c (Z.of_nat i)) = 0%Z /\
    (idZ (envL (LPlain c))
     * sumR Z 0%Z Z.add (map (fun bits => bit Z 0%Z 1%Z bits i * derivZ' envI irxns (iso_name c bits)) (all_patterns (nlab lv c))))%Z = 1%Z.
Proof.
  destruct (create_iso_rxns true ReplUnknown rf_lv rf_rxn (map Z.of_nat rf_map)) as [irxns|] eqn:Hi; [|vm_compute in Hi; discriminate].
  destruct (lin_isotopomers rf_lv) as [isos|] eqn:Hs; [|vm_compute in Hs; discriminate].
  destruct (lin_rxns DirInverse isos rf_rxn (map Z.of_nat rf_map)) as [lrxns|] eqn:Hl;
    [|vm_compute in Hs; inversion Hs; subst isos; vm_compute in Hl; discriminate].
  exists rf_lv, rf_rxn, [20%N], rf_map, rf_envI, rf_envL, isos, irxns, lrxns, 2%N, 2.
  cbv zeta.
  vm_compute in Hs. inversion Hs; subst isos. clear Hs.
  vm_compute in Hi. inversion Hi; subst irxns. clear Hi.
  vm_compute in Hl. inversion Hl; subst lrxns. clear Hl.
  repeat match goal with |- _ /\ _ => split end.
  - reflexivity.
  - vm_compute. apply Permutation_refl.
  - vm_compute. repeat constructor; cbn; intuition (try discriminate; try reflexivity).
  - vm_compute. repeat constructor; cbn; intuition (try discriminate; try reflexivity).
  - intros a [<-|[]]. vm_compute. intuition (try discriminate; try reflexivity).
  - intros c Hc. vm_compute in Hc. destruct Hc as [<-|[<-|[]]]; vm_compute; lia.
  - vm_compute. apply (Permutation_trans (l' := [1; 0; 2])).
    + apply perm_skip. apply perm_swap.
    + apply perm_swap.
  - reflexivity.
  - reflexivity.
  - reflexivity.
  - intros c Hc. vm_compute in Hc. destruct Hc as [<-|[<-|[]]]; vm_compute; split; reflexivity.
  - vm_compute. reflexivity.
  - intros c j Hc Hj. vm_compute in Hc. destruct Hc as [<-|[]].
    change (nlab rf_lv 1%N) with 3 in Hj.
    destruct j as [|[|[|j]]]; [vm_compute; reflexivity..|lia].
  - reflexivity.
  - vm_compute. right. left. reflexivity.
  - vm_compute. lia.
  - vm_compute. reflexivity.
  - vm_compute. reflexivity.
Qed.

(** the form of the isotopomer mapper's argument renaming plays no role in the witness *)
Theorem direction_refuted_inverse :
  forall rk : repl_kind,
  exists (lv : label_vars) (r : brxn) (extra : list N) (mun : list nat) (envI envL : lname -> Z)
         (isos : list (N * list lname)) (irxns lrxns : list lrxn) (c : N) (i : nat),
    let bs := subs_of (r_stoich r) in let bp := prods_of (r_stoich r) in
    r_fn r = FProd /\ Permutation (r_args r) (bs ++ extra) /\ NoDup (map fst (r_stoich r)) /\ NoDup bs /\
    (forall a, In a extra -> ~ In a bs /\ ~ In a bp /\ nlab lv a = 0 /\ (rk = ReplPositional -> getN a lv = None)) /\
    (forall c, In c (bs ++ bp) -> 0 < nlab lv c) /\
    Permutation mun (seq 0 (Nat.max (total (labels_per lv bs)) (total (labels_per lv bp)))) /\
    create_iso_rxns true rk lv r (map Z.of_nat mun) = Ok irxns /\
    lin_isotopomers lv = Ok isos /\
    lin_rxns DirInverse isos r (map Z.of_nat mun) = Ok lrxns /\
    (forall c, In c (bs ++ bp) -> envL (LPlain c) = benv Z 0%Z Z.add lv envI c /\ (envL (LPlain c) * idZ (envL (LPlain c)) = 1)%Z) /\
    envL (LPlain (r_name r)) = prodR Z 1%Z Z.mul (map (benv Z 0%Z Z.add lv envI) (r_args r)) /\
    (forall c j, In c bs -> j < nlab lv c ->
       (envL (LPos c (Z.of_nat j)) * envL (LPlain c))%Z = marg Z 0%Z 1%Z Z.add Z.mul envI lv c j) /\
    envL LExt = 1%Z /\
    In c (bs ++ bp) /\ i < nlab lv c /\
    derivZ' envL lrxns (LPos c (Z.of_nat i)) = 0%Z /\
    (idZ (envL (LPlain c))
     * sumR Z 0%Z Z.add (map (fun bits => bit Z 0%Z 1%Z bits i * derivZ' envI irxns (iso_name c bits)) (all_patterns (nlab lv c))))%Z = 1%Z.
Proof.
  intro rk. destruct rk; [exact direction_refuted_inverse_dict|exact direction_refuted_inverse_pos|exact direction_refuted_inverse_unk].
Qed.

(** non-vacuity of [enrichment_rate_model] / [uniform_stationary_model]: the same reaction with the same
    3-cycle, documented reading, meets every hypothesis (and both models are built) *)
Example enrichment_nonvacuous_dict :
  let rms := [(rf_rxn, map Z.of_nat rf_map)] in
  Forall (fun rm =>
            let r := fst rm in
            let bs := subs_of (r_stoich r) in let bp := prods_of (r_stoich r) in
            exists (extra : list N) (mun : list nat),
              r_fn r = FProd /\ Permutation (r_args r) (bs ++ extra) /\ NoDup (map fst (r_stoich r)) /\ (ReplDict = ReplPositional \/ NoDup bs) /\
              (forall a, In a extra -> ~ In a bs /\ ~ In a bp /\ nlab rf_lv a = O /\ (ReplDict = ReplPositional -> getN a rf_lv = None)) /\
              (forall c, In c (bs ++ bp) -> O < nlab rf_lv c) /\
              snd rm = map Z.of_nat mun /\
              Permutation mun (seq O (Nat.max (total (labels_per rf_lv bs)) (total (labels_per rf_lv bp)))) /\
              rf_envL (LPlain (r_name r)) = prodR Z 1%Z Z.mul (map (benv Z 0%Z Z.add rf_lv rf_envI) (r_args r))) rms /\
  (exists irs, collect (map (fun rm => create_iso_rxns true ReplDict rf_lv (fst rm) (snd rm)) rms) = Ok irs /\ length (concat irs) = 8) /\
  (exists isos lrs, lin_isotopomers rf_lv = Ok isos /\
                    collect (map (fun rm => lin_rxns DirDocumented isos (fst rm) (snd rm)) rms) = Ok lrs /\ length (concat lrs) = 3) /\
  (forall c, O < nlab rf_lv c -> rf_envL (LPlain c) = benv Z 0%Z Z.add rf_lv rf_envI c) /\
  (forall c j, j < nlab rf_lv c ->
     (rf_envL (LPos c (Z.of_nat j)) * rf_envL (LPlain c))%Z = marg Z 0%Z 1%Z Z.add Z.mul rf_envI rf_lv c j) /\
  rf_envL LExt = 1%Z.
Proof.
  cbv zeta. repeat match goal with |- _ /\ _ => split end.
  - constructor; [|constructor]. cbv zeta. exists [20%N], rf_map.
    repeat match goal with |- _ /\ _ => split end.
    + reflexivity.
    + vm_compute. apply Permutation_refl.
    + vm_compute. repeat constructor; cbn; intuition (try discriminate; try reflexivity).
    + right. vm_compute. repeat constructor; cbn; intuition (try discriminate; try reflexivity).
    + intros a [<-|[]]. vm_compute. intuition (try discriminate; try reflexivity).
    + intros c Hc. vm_compute in Hc. destruct Hc as [<-|[<-|[]]]; vm_compute; lia.
    + reflexivity.
    + vm_compute. apply (Permutation_trans (l' := [1; 0; 2])).
      * apply perm_skip. apply perm_swap.
      * apply perm_swap.
    + vm_compute. reflexivity.
  - eexists. split; [vm_compute; reflexivity|reflexivity].
  - eexists. eexists. split; [vm_compute; reflexivity|]. split; [vm_compute; reflexivity|reflexivity].
  - intros c Hc. unfold nlab, getN, rf_lv in Hc. cbn [dict_get] in Hc.
    destruct (N.eq_dec c 1) as [->|H1]; [vm_compute; reflexivity|].
    destruct (N.eq_dec c 2) as [->|H2]; [vm_compute; reflexivity|lia].
  - intros c j Hj. unfold nlab, getN, rf_lv in Hj. cbn [dict_get] in Hj.
    destruct (N.eq_dec c 1) as [->|H1].
    + destruct j as [|[|[|j]]]; [vm_compute; reflexivity..|lia].
    + destruct (N.eq_dec c 2) as [->|H2]; [|lia].
      destruct j as [|[|[|j]]]; [vm_compute; reflexivity..|lia].
  - reflexivity.
Qed.

Example enrichment_nonvacuous_pos :
  let rms := [(rf_rxn, map Z.of_nat rf_map)] in
  Forall (fun rm =>
            let r := fst rm in
            let bs := subs_of (r_stoich r) in let bp := prods_of (r_stoich r) in
            exists (extra : list N) (mun : list nat),
              r_fn r = FProd /\ Permutation (r_args r) (bs ++ extra) /\ NoDup (map fst (r_stoich r)) /\ (ReplPositional = ReplPositional \/ NoDup bs) /\
              (forall a, In a extra -> ~ In a bs /\ ~ In a bp /\ nlab rf_lv a = O /\ (ReplPositional = ReplPositional -> getN a rf_lv = None)) /\
              (forall c, In c (bs ++ bp) -> O < nlab rf_lv c) /\
              snd rm = map Z.of_nat mun /\
              Permutation mun (seq O (Nat.max (total (labels_per rf_lv bs)) (total (labels_per rf_lv bp)))) /\
              rf_envL (LPlain (r_name r)) = prodR Z 1%Z Z.mul (map (benv Z 0%Z Z.add rf_lv rf_envI) (r_args r))) rms /\
  (exists irs, collect (map (fun rm => create_iso_rxns true ReplPositional rf_lv (fst rm) (snd rm)) rms) = Ok irs /\ length (concat irs) = 8) /\
  (exists isos lrs, lin_isotopomers rf_lv = Ok isos /\
                    collect (map (fun rm => lin_rxns DirDocumented isos (fst rm) (snd rm)) rms) = Ok lrs /\ length (concat lrs) = 3) /\
  (forall c, O < nlab rf_lv c -> rf_envL (LPlain c) = benv Z 0%Z Z.add rf_lv rf_envI c) /\
  (forall c j, j < nlab rf_lv c ->
     (rf_envL (LPos c (Z.of_nat j)) * rf_envL (LPlain c))%Z = marg Z 0%Z 1%Z Z.add Z.mul rf_envI rf_lv c j) /\
  rf_envL LExt = 1%Z.
Proof.
  cbv zeta. repeat match goal with |- _ /\ _ => split end.
  - constructor; [|constructor]. cbv zeta. exists [20%N], rf_map.
    repeat match goal with |- _ /\ _ => split end.
    + reflexivity.
    + vm_compute. apply Permutation_refl.
    + vm_compute. repeat constructor; cbn; intuition (try discriminate; try reflexivity).
    + right. vm_compute. repeat constructor; cbn; intuition (try discriminate; try reflexivity).
    + intros a [<-|[]]. vm_compute. intuition (try discriminate; try reflexivity).
    + intros c Hc. vm_compute in Hc. destruct Hc as [<-|[<-|[]]]; vm_compute; lia.
    + reflexivity.
    + vm_compute. apply (Permutation_trans (l' := [1; 0; 2])).
      * apply perm_skip. apply perm_swap.
      * apply perm_swap.
    + vm_compute. reflexivity.
  - eexists. split; [vm_compute; reflexivity|reflexivity].
  - eexists. eexists. split; [vm_compute; reflexivity|]. split; [vm_compute; reflexivity|reflexivity].
  - intros c Hc. unfold nlab, getN, rf_lv in Hc. cbn [dict_get] in Hc.
    destruct (N.eq_dec c 1) as [->|H1]; [vm_compute; reflexivity|].
    destruct (N.eq_dec c 2) as [->|H2]; [vm_compute; reflexivity|lia].
  - intros c j Hj. unfold nlab, getN, rf_lv in Hj. cbn [dict_get] in Hj.
    destruct (N.eq_dec c 1) as [->|H1].
    + destruct j as [|[|[|j]]]; [vm_compute; reflexivity..|lia].
    + destruct (N.eq_dec c 2) as [->|H2]; [|lia].
      destruct j as [|[|[|j]]]; [vm_compute; reflexivity..|lia].
  - reflexivity.
Qed.

Example enrichment_nonvacuous_unk :
  let rms := [(rf_rxn, map Z.of_nat rf_map)] in
  Forall (fun rm =>
            let r := fst rm in
            let bs := subs_of (r_stoich r) in let bp := prods_of (r_stoich r) in
            exists (extra : list N) (mun : list nat),
              r_fn r = FProd /\ Permutation (r_args r) (bs ++ extra) /\ NoDup (map fst (r_stoich r)) /\ (ReplUnknown = ReplPositional \/ NoDup bs) /\
              (forall a, In a extra -> ~ In a bs /\ ~ In a bp /\ nlab rf_lv a = O /\ (ReplUnknown = ReplPositional -> getN a rf_lv = None)) /\
              (forall c, In c (bs ++ bp) -> O < nlab rf_lv c) /\
              snd rm = map Z.of_nat mun /\
              Permutation mun (seq O (Nat.max (total (labels_per rf_lv bs)) (total (labels_per rf_lv bp)))) /\
              rf_envL (LPlain (r_name r)) = prodR Z 1%Z Z.mul (map (benv Z 0%Z Z.add rf_lv rf_envI) (r_args r))) rms /\
  (exists irs, collect (map (fun rm => create_iso_rxns true ReplUnknown rf_lv (fst rm) (snd rm)) rms) = Ok irs /\ length (concat irs) = 8) /\
  (exists isos lrs, lin_isotopomers rf_lv = Ok isos /\
                    collect (map (fun rm => lin_rxns DirDocumented isos (fst rm) (snd rm)) rms) = Ok lrs /\ length (concat lrs) = 3) /\
  (forall c, O < nlab rf_lv c -> rf_envL (LPlain c) = benv Z 0%Z Z.add rf_lv rf_envI c) /\
  (forall c j, j < nlab rf_lv c ->
     (rf_envL (LPos c (Z.of_nat j)) * rf_envL (LPlain c))%Z = marg Z 0%Z 1%Z Z.add Z.mul rf_envI rf_lv c j) /\
  rf_envL LExt = 1%Z.
Proof.
  cbv zeta. repeat match goal with |- _ /\ _ => split end.
  - constructor; [|constructor]. cbv zeta. exists [20%N], rf_map.
    repeat match goal with |- _ /\ _ => split end.
    + reflexivity.
    + vm_compute. apply Permutation_refl.
    + vm_compute. repeat constructor; cbn; intuition (try discriminate; try reflexivity).
    + right. vm_compute. repeat constructor; cbn; intuition (try discriminate; try reflexivity).
    + intros a [<-|[]]. vm_compute. intuition (try discriminate; try reflexivity).
    + intros c Hc. vm_compute in Hc. destruct Hc as [<-|[<-|[]]]; vm_compute; lia.
    + reflexivity.
    + vm_compute. apply (Permutation_trans (l' := [1; 0; 2])).
      * apply perm_skip. apply perm_swap.
      * apply perm_swap.
    + vm_compute. reflexivity.
  - eexists. split; [vm_compute; reflexivity|reflexivity].
  - eexists. eexists. split; [vm_compute; reflexivity|]. split; [vm_compute; reflexivity|reflexivity].
  - intros c Hc. unfold nlab, getN, rf_lv in Hc. cbn [dict_get] in Hc.
    destruct (N.eq_dec c 1) as [->|H1]; [vm_compute; reflexivity|].
    destruct (N.eq_dec c 2) as [->|H2]; [vm_compute; reflexivity|lia].
  - intros c j Hj. unfold nlab, getN, rf_lv in Hj. cbn [dict_get] in Hj.
    destruct (N.eq_dec c 1) as [->|H1].
    + destruct j as [|[|[|j]]]; [vm_compute; reflexivity..|lia].
    + destruct (N.eq_dec c 2) as [->|H2]; [|lia].
      destruct j as [|[|[|j]]]; [vm_compute; reflexivity..|lia].
  - reflexivity.
Qed.

Example enrichment_nonvacuous :
  forall rk : repl_kind,
  let rms := [(rf_rxn, map Z.of_nat rf_map)] in
  Forall (fun rm =>
            let r := fst rm in
            let bs := subs_of (r_stoich r) in let bp := prods_of (r_stoich r) in
            exists (extra : list N) (mun : list nat),
              r_fn r = FProd /\ Permutation (r_args r) (bs ++ extra) /\ NoDup (map fst (r_stoich r)) /\ (rk = ReplPositional \/ NoDup bs) /\
              (forall a, In a extra -> ~ In a bs /\ ~ In a bp /\ nlab rf_lv a = O /\ (rk = ReplPositional -> getN a rf_lv = None)) /\
              (forall c, In c (bs ++ bp) -> O < nlab rf_lv c) /\
              snd rm = map Z.of_nat mun /\
              Permutation mun (seq O (Nat.max (total (labels_per rf_lv bs)) (total (labels_per rf_lv bp)))) /\
              rf_envL (LPlain (r_name r)) = prodR Z 1%Z Z.mul (map (benv Z 0%Z Z.add rf_lv rf_envI) (r_args r))) rms /\
  (exists irs, collect (map (fun rm => create_iso_rxns true rk rf_lv (fst rm) (snd rm)) rms) = Ok irs /\ length (concat irs) = 8) /\
  (exists isos lrs, lin_isotopomers rf_lv = Ok isos /\
                    collect (map (fun rm => lin_rxns DirDocumented isos (fst rm) (snd rm)) rms) = Ok lrs /\ length (concat lrs) = 3) /\
  (forall c, O < nlab rf_lv c -> rf_envL (LPlain c) = benv Z 0%Z Z.add rf_lv rf_envI c) /\
  (forall c j, j < nlab rf_lv c ->
     (rf_envL (LPos c (Z.of_nat j)) * rf_envL (LPlain c))%Z = marg Z 0%Z 1%Z Z.add Z.mul rf_envI rf_lv c j) /\
  rf_envL LExt = 1%Z.
Proof.
  intro rk. destruct rk; [exact enrichment_nonvacuous_dict|exact enrichment_nonvacuous_pos|exact enrichment_nonvacuous_unk].
Qed.

Print Assumptions no_label_build_linear.
Print Assumptions enrichment_rate_model.
Print Assumptions enrichment_rate_steady.
Print Assumptions uniform_stationary_model.
Print Assumptions direction_refuted_inverse.
