(** Executable model of src/mxlpy/label_map.py, statement by statement (bugs included).

    _unpack_stoichiometries        [subs_of] / [prods_of]   (dict order, |v| copies; v = 0 gives none)
    _get_labels_per_variable       [labels_per]             (label_variables.get(c, 0))
    _get_external_labels           [external_labels]        ("1" * max(0, products - substrates))
    it.product(("0","1"), repeat)  [all_patterns]
    _map_substrates_to_products    [map_s2p]                (rate_suffix[i] for i in labelmap; IndexError)
    _split_label_string            [split_label]            (slices never raise; short input gives short slices)
    _assign_compound_labels        [assign_labels]          (suffix "" keeps the bare name)
    _repack_stoichiometries        [repack]                 (defaultdict(int), substrates first)
    renaming of the rate arguments -- the FORM of that block is a regenerated fact ([repl_kind]):
      ReplDict        replacements = dict(zip(subs, new_subs)) | dict(zip(prods, new_prods));
                      args = [replacements.get(k, k) for k in args]
                      [replacements] / [rename_args]: LATER KEY WINS (2A -> B maps both occurrences of A to the
                      last isotopomer -- finding c05-homodimer); a labelled species that is neither substrate nor
                      product keeps its BASE name, which does not exist in the labelled model (finding
                      c05-labelled-modifier)
      ReplPositional  (fixes/C05-homodimer.diff) pools[base].append(new) over zip(subs + prods, new_subs + new_prods);
                      for k in args: if pool := pools.get(k): last[k] = pool.pop(0);
                      new_args.append(last.get(k, f"{k}__total" if k in label_variables else k))
                      [rename_pos]: the j-th occurrence of a compound reads its j-th isotopomer, an exhausted pool
                      repeats the last one, labelled bystanders are read through their total
    _create_isotopomer_reactions   [create_iso_rxns]
    LabelMapper.build_model        [build_iso]

    The character appended for external positions is a regenerated fact ([ext_bit], true = "1"). *)
From Coq Require Import List ZArith NArith Bool Arith Lia.
From MxlBase Require Import ListX.
From Label Require Import LModel.
Import ListNotations.

Definition label_vars := list (N * nat).          (* label_variables (dict) *)
Definition label_maps := list (N * list Z).       (* label_maps (dict) *)
Inductive ilabel := IInt (z : Z) | IList (l : list Z).
Definition init_labels := list (N * ilabel).      (* initial_labels (dict) *)

Definition subs_of (st : list (N * Z)) : list N :=
  flat_map (fun kv => if (snd kv <? 0)%Z then repeat (fst kv) (Z.to_nat (- snd kv)) else []) st.
Definition prods_of (st : list (N * Z)) : list N :=
  flat_map (fun kv => if (snd kv <? 0)%Z then [] else repeat (fst kv) (Z.to_nat (snd kv))) st.

Definition nlab (lv : label_vars) (c : N) : nat :=
  match getN c lv with Some n => n | None => O end.
Definition labels_per (lv : label_vars) (cs : list N) : list nat := map (nlab lv) cs.
Definition total (l : list nat) : nat := fold_right Nat.add O l.

Definition external_labels (ext_bit : bool) (tpl tsl : nat) : list bool := repeat ext_bit (tpl - tsl).

Definition map_s2p (suffix : list bool) (lmap : list Z) : option (list bool) :=
  mapM (py_index suffix) lmap.

Fixpoint split_label (l : list bool) (counts : list nat) : list (list bool) :=
  match counts with
  | [] => []
  | c :: cs => firstn c l :: split_label (skipn c l) cs
  end.

Definition iso_name (c : N) (bits : list bool) : lname :=
  match bits with [] => LPlain c | _ => LIso c bits end.

Definition assign_labels (cs : list N) (sufs : list (list bool)) : list lname :=
  map (fun cs => iso_name (fst cs) (snd cs)) (combine cs sufs).

(** d[k] += dz on a defaultdict(int) *)
Definition dict_add (k : lname) (dz : Z) (d : list (lname * Z)) : list (lname * Z) :=
  match getL k d with
  | Some v => setL k (v + dz)%Z d
  | None => d ++ [(k, dz)]
  end.

Definition repack (nsubs nprods : list lname) : list (lname * Z) :=
  fold_left (fun d a => dict_add a 1 d) nprods (fold_left (fun d a => dict_add a (-1) d) nsubs []).

Definition replacements (bs : list N) (ns : list lname) (bp : list N) (np : list lname) : list (N * lname) :=
  dict_update N.eq_dec (dict_update N.eq_dec [] (combine bs ns)) (combine bp np).

Definition rename_args (repl : list (N * lname)) (args : list N) : list lname :=
  map (fun k => match getN k repl with Some v => v | None => LPlain k end) args.

(** ---- per-occurrence renaming (the repaired form of the block) ---- *)
Inductive repl_kind := ReplDict | ReplPositional | ReplUnknown.

(** pools[k].pop(0) over the flat list of (base compound, new name) pairs: first pair with key k, removed *)
Fixpoint take_first (k : N) (pairs : list (N * lname)) : option (lname * list (N * lname)) :=
  match pairs with
  | [] => None
  | (k', v) :: rest =>
    if N.eq_dec k k' then Some (v, rest)
    else match take_first k rest with
         | Some (v', rest') => Some (v', (k', v) :: rest')
         | None => None
         end
  end.

(** f"{k}__total" if k in label_variables else k *)
Definition bystander_name (lv : list (N * nat)) (k : N) : lname :=
  match getN k lv with Some _ => LTotal k | None => LPlain k end.

Fixpoint rename_pos (lv : list (N * nat)) (pairs last : list (N * lname)) (args : list N) : list lname :=
  match args with
  | [] => []
  | k :: rest =>
    match take_first k pairs with
    | Some (v, pairs') => v :: rename_pos lv pairs' (dict_set N.eq_dec k v last) rest
    | None => (match getN k last with Some v => v | None => bystander_name lv k end) :: rename_pos lv pairs last rest
    end
  end.

Section IsoRxn.
  Variable ext_bit : bool.
  Variable rk : repl_kind.
  Variable lv : label_vars.

  (** the body of the `for rate_suffix in ...` loop for one substrate pattern [p];
      [mk_iso_rxn] is everything after the product suffix has been computed *)
  Definition mk_iso_rxn (r : brxn) (suffix psuffix : list bool) : lrxn :=
    let bs := subs_of (r_stoich r) in
    let bp := prods_of (r_stoich r) in
    let ns := assign_labels bs (split_label suffix (labels_per lv bs)) in
    let np := assign_labels bp (split_label psuffix (labels_per lv bp)) in
    mkLR (LIso (r_name r) suffix) (r_fn r)
         (match rk with
          | ReplPositional => rename_pos lv (combine bs ns ++ combine bp np) [] (r_args r)
          | _ => rename_args (replacements bs ns bp np) (r_args r)
          end)
         (map (fun kz => (fst kz, CZ (snd kz))) (repack ns np)).

  Definition suffix_of (r : brxn) (p : list bool) : list bool :=
    p ++ external_labels ext_bit (total (labels_per lv (prods_of (r_stoich r))))
                         (total (labels_per lv (subs_of (r_stoich r)))).

  Definition iso_rxn_for (r : brxn) (lmap : list Z) (p : list bool) : result lrxn :=
    match map_s2p (suffix_of r p) lmap with
    | None => Err ErrIndex
    | Some psuffix => Ok (mk_iso_rxn r (suffix_of r p) psuffix)
    end.

  Definition create_iso_rxns (r : brxn) (lmap : list Z) : result (list lrxn) :=
    let tsl := total (labels_per lv (subs_of (r_stoich r))) in
    if Nat.ltb (length lmap) tsl then Err ErrValue
    else collect (map (iso_rxn_for r lmap) (all_patterns tsl)).
End IsoRxn.

(** ---- build_model ------------------------------------------------------------------------------ *)
Definition gen_binary (c : N) (n : nat) : list lname :=
  match n with O => [LPlain c] | _ => map (LIso c) (all_patterns n) end.

Definition isotopomers (lv : label_vars) : list (N * list lname) :=
  map (fun cn => (fst cn, gen_binary (fst cn) (snd cn))) lv.

Definition memZ (x : Z) (l : list Z) : bool := existsb (Z.eqb x) l.
Definition positions_of (il : ilabel) : list Z := match il with IInt z => [z] | IList l => l end.
Definition init_suffix (n : nat) (pos : list Z) : list bool :=
  map (fun idx => memZ (Z.of_nat idx) pos) (seq 0 n).

(** name of the variable that receives the amount when an initial label is requested -- a regenerated fact:
      InitRawSuffix   variables[f"{k}{suffix}"] with suffix = "__" + pattern   (the tree before the repair:
                      for a compound with 0 label positions this is the stray name "k__")
      InitIsoName     variables[f"{k}__{suffix}" if suffix else k] with suffix = pattern  (the isotopomer name) *)
Inductive init_name_kind := InitRawSuffix | InitIsoName | InitUnknown.
Definition init_target_name (ik : init_name_kind) (k : N) (bits : list bool) : lname :=
  match ik with InitIsoName => iso_name k bits | _ => LIso k bits end.

(** one iteration of `for k, v in get_initial_conditions().items()` *)
Definition init_step (ik : init_name_kind) (lv : label_vars) (init : init_labels) (vars : list (lname * Z)) (kv : N * Z)
  : list (lname * Z) :=
  let k := fst kv in let v := snd kv in
  match getN k (isotopomers lv) with
  | None => setL (LPlain k) v vars
  | Some isos =>
    let vars1 := fold_left (fun d i => setL i 0%Z d) isos vars in
    match getN k init with
    | None => setL (hd (LPlain k) isos) v vars1
    | Some il => setL (init_target_name ik k (init_suffix (nlab lv k) (positions_of il))) v vars1
    end
  end.

Definition build_vars (ik : init_name_kind) (lv : label_vars) (init : init_labels) (bvars : list (N * Z)) : list (lname * Z) :=
  fold_left (init_step ik lv init) bvars [].

Definition total_name (lv : label_vars) (a : N) : lname :=
  match getN a (isotopomers lv) with Some _ => LTotal a | None => LPlain a end.

Definition build_iso (ext_bit : bool) (rk : repl_kind) (ik : init_name_kind) (lv : label_vars) (lmaps : label_maps) (init : init_labels) (bm : bmodel)
  : result (lmodel Z) :=
  let params := map (fun kv => (LPlain (fst kv), snd kv)) (b_params bm) in
  let dpars := map (fun d => mkLD (LPlain (d_name d)) (d_fn d) (map LPlain (d_args d))) (b_dpars bm) in
  let vars := build_vars ik lv init (b_vars bm) in
  let totals := map (fun ci => mkLD (LTotal (fst ci)) FSum (snd ci)) (isotopomers lv) in
  let dvars := map (fun d => mkLD (LPlain (d_name d)) (d_fn d) (map (total_name lv) (d_args d))) (b_dvars bm) in
  bind (collect (map (fun r =>
          match getN (r_name r) lmaps with
          | None => Ok [mkLR (LPlain (r_name r)) (r_fn r) (map (total_name lv) (r_args r))
                             (map (fun kz => (LPlain (fst kz), CZ (snd kz))) (r_stoich r))]
          | Some lmap => create_iso_rxns ext_bit rk lv r lmap
          end) (b_rxns bm)))
       (fun rxns => Ok (mkLM params vars (dpars ++ totals ++ dvars) (concat rxns))).
