(** C05 -- Isotopomer expansion preserves base structure, totals and dynamics.

    ONLY theorem statements (written out in full), each closed by [exact <lemma>] and followed by
    [Print Assumptions].  The model is coq/label/Iso.v (src/mxlpy/label_map.py statement by statement);
    [gen_label_facts] is REGENERATED from /repo on every run and [C05_facts_pinned] is the obligation
    that breaks when the reading direction of the map, the external-label character, the short-map
    test, the form of the rate-argument renaming block or the shape of any helper / of build_model is edited.
    The renaming block has two recognised forms ([repl_kind], Iso.v): ReplDict (the tree: one dict keyed by
    compound) and ReplPositional (after fixes/C05-homodimer.diff: per occurrence, labelled bystanders through
    their total); coq/label/ExpectedFacts.v says which one the tree is expected to have, the structural
    theorems hold for BOTH (forall rk), the dynamics theorems are stated for each form explicitly.
    Statements that mention [ext_bit_of gen_label_facts] type-check only while the regenerated
    external-label character is "1".

    Numbers: the dynamics theorems are proved for EVERY commutative ring with a ring morphism from Z
    (IsoProofs.dynamics_collapse_rxn, used again by C16); they are stated here over Z. *)
From Coq Require Import List ZArith NArith Bool Arith Permutation.
From MxlBase Require Import ListX.
From Label Require Import LModel Iso IsoSession Linear GenLabelFacts ExpectedFacts Algebra IsoProofs IsoInitProofs IsoPropsZ IsoWhole IsoSessionProofs.
Import ListNotations.

Theorem C05_facts_pinned :
  f_iso_dir gen_label_facts = IsoDocumented /\ f_ext_bit gen_label_facts = Some true /\
  f_short gen_label_facts = ShortLt0 /\ f_repl gen_label_facts = C05_expected_repl /\ f_iso_helpers gen_label_facts = true /\
  f_init_name gen_label_facts = InitIsoName.
Proof. vm_compute. repeat split. Qed.
Print Assumptions C05_facts_pinned.

(** the labelling patterns of n positions: exactly the bit strings of length n, each once, 2^n of them *)
Theorem C05_patterns_enumerated :
  forall n, (forall p, In p (all_patterns n) <-> length p = n) /\ NoDup (all_patterns n) /\ length (all_patterns n) = 2 ^ n.
Proof. exact patterns_enumerated. Qed.
Print Assumptions C05_patterns_enumerated.

(** exactly one isotopomer reaction per labelling pattern of the substrates: the generated names are
    rate__<pattern><external 1s> for every pattern, pairwise distinct, 2^(sum of substrate labels) many *)
Theorem C05_one_reaction_per_pattern :
  forall (rk : repl_kind) (lv : label_vars) (r : brxn) (lmap : list Z) (rxns : list lrxn),
    create_iso_rxns (ext_bit_of gen_label_facts) rk lv r lmap = Ok rxns ->
    map lr_name rxns
    = map (fun p => LIso (r_name r)
                      (p ++ repeat true (total (labels_per lv (prods_of (r_stoich r)))
                                         - total (labels_per lv (subs_of (r_stoich r))))))
          (all_patterns (total (labels_per lv (subs_of (r_stoich r)))))
    /\ NoDup (map lr_name rxns)
    /\ length rxns = 2 ^ total (labels_per lv (subs_of (r_stoich r))).
Proof. exact (one_reaction_per_pattern true). Qed.
Print Assumptions C05_one_reaction_per_pattern.

(** each generated reaction consumes and produces one isotopomer per unit of base stoichiometry: every
    stoichiometric key is an isotopomer (right number of positions) of a compound of the base reaction
    and, per compound, the coefficients over all its isotopomers sum to the base coefficient *)
Theorem C05_collapse_stoichiometry :
  forall (rk : repl_kind) (lv : label_vars) (r : brxn) (lmap : list Z) (rxns : list lrxn) (rx : lrxn),
    NoDup (map fst (r_stoich r)) ->
    create_iso_rxns (ext_bit_of gen_label_facts) rk lv r lmap = Ok rxns ->
    total (labels_per lv (prods_of (r_stoich r))) <= length lmap ->
    In rx rxns ->
    (forall Y co, In (Y, co) (lr_stoich rx) ->
       exists c q z, Y = iso_name c q /\ length q = nlab lv c /\ co = CZ z
                     /\ (In c (subs_of (r_stoich r)) \/ In c (prods_of (r_stoich r))))
    /\ (forall c, sumZ (map (fun bits => coefZ rx (iso_name c bits)) (all_patterns (nlab lv c)))
                  = match getN c (r_stoich r) with Some v => v | None => 0%Z end).
Proof. exact (collapse_stoichiometry true). Qed.
Print Assumptions C05_collapse_stoichiometry.

(** product position i carries the label of the substrate position the map names for i; positions beyond
    the substrates enter labelled.  For every substrate pattern p the generated reaction is
    [mk_iso_rxn .. (p ++ 1..1) psuffix] where psuffix[i] = (p ++ 1..1)[map[i]] (Python indexing), the
    substrates consume exactly p and the products read psuffix from position 0 *)
Theorem C05_positions :
  forall (rk : repl_kind) (lv : label_vars) (r : brxn) (lmap : list Z) (rxns : list lrxn) (p : list bool),
    create_iso_rxns (ext_bit_of gen_label_facts) rk lv r lmap = Ok rxns ->
    In p (all_patterns (total (labels_per lv (subs_of (r_stoich r))))) ->
    exists psuffix,
      In (mk_iso_rxn rk lv r (p ++ repeat true (total (labels_per lv (prods_of (r_stoich r)))
                                             - total (labels_per lv (subs_of (r_stoich r))))) psuffix) rxns
      /\ length psuffix = length lmap
      /\ (forall i m, nth_error lmap i = Some m ->
            nth_error psuffix i
            = py_index (p ++ repeat true (total (labels_per lv (prods_of (r_stoich r)))
                                          - total (labels_per lv (subs_of (r_stoich r))))) m)
      /\ concat (split_label (p ++ repeat true (total (labels_per lv (prods_of (r_stoich r)))
                                                - total (labels_per lv (subs_of (r_stoich r)))))
                             (labels_per lv (subs_of (r_stoich r)))) = p
      /\ (total (labels_per lv (prods_of (r_stoich r))) <= length lmap ->
          concat (split_label psuffix (labels_per lv (prods_of (r_stoich r))))
          = firstn (total (labels_per lv (prods_of (r_stoich r)))) psuffix).
Proof. exact (positions true). Qed.
Print Assumptions C05_positions.

(** what the Python index reads: a substrate position gives that substrate bit, a position beyond the
    substrates gives 1 *)
Theorem C05_index_reads :
  forall (p : list bool) (k : nat) (m : Z),
    ((0 <= m < Z.of_nat (length p))%Z -> py_index (p ++ repeat true k) m = nth_error p (Z.to_nat m))
    /\ ((Z.of_nat (length p) <= m < Z.of_nat (length p + k))%Z -> py_index (p ++ repeat true k) m = Some true).
Proof. exact (fun p k m => conj (py_index_substrate p (repeat true k) m) (py_index_external p true k m)). Qed.
Print Assumptions C05_index_reads.

(** a map shorter than the substrates' atoms is rejected -- by the reaction builder and by build_model *)
Theorem C05_short_map_rejected :
  forall (rk : repl_kind) (lv : label_vars) (lmaps : label_maps) (init : init_labels) (bm : bmodel) (r : brxn) (lmap : list Z),
    length lmap < total (labels_per lv (subs_of (r_stoich r))) ->
    create_iso_rxns (ext_bit_of gen_label_facts) rk lv r lmap = Err ErrValue
    /\ (In r (b_rxns bm) -> getN (r_name r) lmaps = Some lmap ->
        exists e, build_iso (ext_bit_of gen_label_facts) rk (f_init_name gen_label_facts) lv lmaps init bm = Err e).
Proof.
  exact (fun rk lv lmaps init bm r lmap H =>
           conj (short_map_rejected true rk lv r lmap H)
                (fun Hin Hm => build_short_map_rejected true rk InitIsoName lv lmaps init bm r lmap Hin Hm H)).
Qed.
Print Assumptions C05_short_map_rejected.

(** total initial amount per compound is preserved and the label sits where requested -- for ALL label counts
    (0 included), all requested positions (positions outside 0..n-1 are ignored by [init_suffix]).
    Stated for the regenerated naming fact: type-checks only while /repo names the receiving variable by its
    isotopomer name (repair fixes/C05-zero-label-initial.diff). *)
Theorem C05_totals_preserved :
  forall (lv : label_vars) (init : init_labels) (bvars : list (N * Z)) (c : N) (v : Z) (n : nat),
    NoDup (map fst bvars) ->
    NoDup (map fst lv) ->
    In (c, v) bvars ->
    getN c lv = Some n ->
    let target := match getN c init with
                  | None => repeat false n
                  | Some il => init_suffix n (positions_of il)
                  end in
    (forall bits, length bits = n ->
       getL (iso_name c bits) (build_vars (f_init_name gen_label_facts) lv init bvars)
       = Some (if list_eq_dec Bool.bool_dec bits target then v else 0%Z))
    /\ sumZ (map (fun bits => match getL (iso_name c bits) (build_vars (f_init_name gen_label_facts) lv init bvars) with Some x => x | None => 0%Z end)
                 (all_patterns n)) = v
    /\ length target = n.
Proof. exact totals_preserved_full. Qed.
Print Assumptions C05_totals_preserved.

(** regression witnesses for the PRE-REPAIR naming (variables[f"{k}__" + pattern], fact value InitRawSuffix):
    with that fact the statement only holds under the guard `0 < n \/ no initial label requested for c`, and
    fails for label_variables = {A: 0}, initial_labels = {A: []} (the amount lands in the stray variable "A__"). *)
Theorem C05_totals_preserved_prefix_partial :
  forall (lv : label_vars) (init : init_labels) (bvars : list (N * Z)) (c : N) (v : Z) (n : nat),
    NoDup (map fst bvars) ->
    NoDup (map fst lv) ->
    In (c, v) bvars ->
    getN c lv = Some n ->
    (0 < n \/ getN c init = None) ->
    let target := match getN c init with
                  | None => repeat false n
                  | Some il => init_suffix n (positions_of il)
                  end in
    (forall bits, length bits = n ->
       getL (iso_name c bits) (build_vars InitRawSuffix lv init bvars)
       = Some (if list_eq_dec Bool.bool_dec bits target then v else 0%Z))
    /\ sumZ (map (fun bits => match getL (iso_name c bits) (build_vars InitRawSuffix lv init bvars) with Some x => x | None => 0%Z end)
                 (all_patterns n)) = v
    /\ length target = n.
Proof. exact totals_preserved_raw. Qed.
Print Assumptions C05_totals_preserved_prefix_partial.

Theorem C05_zero_label_initial_prefix_refuted :
  exists (lv : label_vars) (init : init_labels) (bvars : list (N * Z)) (c : N) (v : Z) (n : nat),
    NoDup (map fst bvars) /\ NoDup (map fst lv) /\ In (c, v) bvars /\ getN c lv = Some n /\
    sumZ (map (fun bits => match getL (iso_name c bits) (build_vars InitRawSuffix lv init bvars) with Some x => x | None => 0%Z end)
              (all_patterns n)) <> v.
Proof. exact zero_label_initial_refuted. Qed.
Print Assumptions C05_zero_label_initial_prefix_refuted.

(** dynamics, FULL statement, for the per-occurrence form of the renaming block (ReplPositional: the tree after
    fixes/C05-homodimer.diff): for a mapped mass-action reaction (rate = product of its arguments: every unit of the
    substrate side once, in any order, plus arguments that take no part in the reaction -- rate constants, and
    modifiers which may be LABELLED: they are read through their [__total], which the state evaluates to the sum of
    their isotopomers) the derivatives of the isotopomers of any compound c sum to
    (base coefficient of c) * (base rate at the isotopomer totals), at EVERY state.  No guard on repeated substrates
    (2A -> B is inside, see C05_homodimer_repaired). *)
Theorem C05_dynamics_collapse :
  forall (lv : label_vars) (r : brxn) (lmap : list Z) (env : lname -> Z) (extra : list N) (c : N) (rxns : list lrxn),
    r_fn r = FProd ->
    Permutation (r_args r) (subs_of (r_stoich r) ++ extra) ->
    NoDup (map fst (r_stoich r)) ->
    (forall a, In a extra -> ~ In a (subs_of (r_stoich r)) /\ ~ In a (prods_of (r_stoich r))
                             /\ env (bystander_name lv a) = totalZ lv env a) ->
    create_iso_rxns (ext_bit_of gen_label_facts) ReplPositional lv r lmap = Ok rxns ->
    total (labels_per lv (prods_of (r_stoich r))) <= length lmap ->
    sumZ (map (fun bits => derivZ env rxns (iso_name c bits)) (all_patterns (nlab lv c)))
    = ((match getN c (r_stoich r) with Some v => v | None => 0 end)
       * prodZ (map (totalZ lv env) (r_args r)))%Z.
Proof. exact dynamics_collapse_rxn_pos_Z. Qed.
Print Assumptions C05_dynamics_collapse.

(** the same for the whole generated network (per-occurrence form): over ALL mapped mass-action reactions together
    the summed derivatives of c's isotopomers equal the base model's derivative of c (sum over the reactions of
    coefficient * rate, the sum Model._get_right_hand_side computes) evaluated at the isotopomer totals *)
Theorem C05_dynamics_collapse_model :
  forall (lv : label_vars) (rms : list (brxn * list Z)) (env : lname -> Z) (irs : list (list lrxn)) (c : N),
    Forall (fun rm =>
              let r := fst rm in
              let bs := subs_of (r_stoich r) in let bp := prods_of (r_stoich r) in
              exists extra : list N,
                r_fn r = FProd /\ Permutation (r_args r) (bs ++ extra) /\ NoDup (map fst (r_stoich r)) /\
                (forall a, In a extra -> ~ In a bs /\ ~ In a bp /\ env (bystander_name lv a) = totalZ lv env a) /\
                total (labels_per lv bp) <= length (snd rm)) rms ->
    collect (map (fun rm => create_iso_rxns (ext_bit_of gen_label_facts) ReplPositional lv (fst rm) (snd rm)) rms) = Ok irs ->
    sumZ (map (fun bits => derivZ env (concat irs) (iso_name c bits)) (all_patterns (nlab lv c)))
    = sumZ (map (fun rm => ((match getN c (r_stoich (fst rm)) with Some v => v | None => 0 end)
                            * prodZ (map (totalZ lv env) (r_args (fst rm))))%Z) rms).
Proof. exact dynamics_collapse_model_pos_Z. Qed.
Print Assumptions C05_dynamics_collapse_model.

(** dynamics for the DICT form of the renaming block (ReplDict: the tree before fixes/C05-homodimer.diff).
    The full statement above is false of that form, see C05_homodimer_refuted / C05_labelled_modifier_refuted.
    Guards: NoDup (subs_of (r_stoich r)) -- no compound twice on the substrate side -- and the arguments that take
    no part in the reaction are unlabelled. *)
Theorem C05_dynamics_collapse_partial :
  forall (lv : label_vars) (r : brxn) (lmap : list Z) (env : lname -> Z) (extra : list N) (c : N) (rxns : list lrxn),
    r_fn r = FProd ->
    Permutation (r_args r) (subs_of (r_stoich r) ++ extra) ->
    NoDup (map fst (r_stoich r)) ->
    NoDup (subs_of (r_stoich r)) ->
    (forall a, In a extra -> ~ In a (subs_of (r_stoich r)) /\ ~ In a (prods_of (r_stoich r)) /\ nlab lv a = 0) ->
    create_iso_rxns (ext_bit_of gen_label_facts) ReplDict lv r lmap = Ok rxns ->
    total (labels_per lv (prods_of (r_stoich r))) <= length lmap ->
    sumZ (map (fun bits => derivZ env rxns (iso_name c bits)) (all_patterns (nlab lv c)))
    = ((match getN c (r_stoich r) with Some v => v | None => 0 end)
       * prodZ (map (totalZ lv env) (r_args r)))%Z.
Proof. exact dynamics_collapse_rxn_Z. Qed.
Print Assumptions C05_dynamics_collapse_partial.

Theorem C05_dynamics_collapse_model_partial :
  forall (lv : label_vars) (rms : list (brxn * list Z)) (env : lname -> Z) (irs : list (list lrxn)) (c : N),
    Forall (fun rm =>
              let r := fst rm in
              let bs := subs_of (r_stoich r) in let bp := prods_of (r_stoich r) in
              exists extra : list N,
                r_fn r = FProd /\ Permutation (r_args r) (bs ++ extra) /\ NoDup (map fst (r_stoich r)) /\ NoDup bs /\
                (forall a, In a extra -> ~ In a bs /\ ~ In a bp /\ nlab lv a = O) /\
                total (labels_per lv bp) <= length (snd rm)) rms ->
    collect (map (fun rm => create_iso_rxns (ext_bit_of gen_label_facts) ReplDict lv (fst rm) (snd rm)) rms) = Ok irs ->
    sumZ (map (fun bits => derivZ env (concat irs) (iso_name c bits)) (all_patterns (nlab lv c)))
    = sumZ (map (fun rm => ((match getN c (r_stoich (fst rm)) with Some v => v | None => 0 end)
                            * prodZ (map (totalZ lv env) (r_args (fst rm))))%Z) rms).
Proof. exact dynamics_collapse_model_Z. Qed.
Print Assumptions C05_dynamics_collapse_model_partial.

(** dict form, 2A -> B with k*A*A: both occurrences of A are renamed to the LAST isotopomer; -40 vs -32 *)
Theorem C05_homodimer_refuted :
  exists (lv : label_vars) (r : brxn) (lmap : list Z) (env : lname -> Z) (extra : list N) (c : N) (rxns : list lrxn),
    r_fn r = FProd /\
    Permutation (r_args r) (subs_of (r_stoich r) ++ extra) /\
    NoDup (map fst (r_stoich r)) /\
    (forall a, In a extra -> ~ In a (subs_of (r_stoich r)) /\ ~ In a (prods_of (r_stoich r)) /\ nlab lv a = 0) /\
    create_iso_rxns true ReplDict lv r lmap = Ok rxns /\
    total (labels_per lv (prods_of (r_stoich r))) <= length lmap /\
    sumZ (map (fun bits => derivZ env rxns (iso_name c bits)) (all_patterns (nlab lv c))) = (-40)%Z /\
    ((match getN c (r_stoich r) with Some v => v | None => 0 end) * prodZ (map (totalZ lv env) (r_args r)))%Z = (-32)%Z.
Proof. exact homodimer_refuted. Qed.
Print Assumptions C05_homodimer_refuted.

(** per-occurrence form, the same input: the four reactions read (A__0,A__0) (A__0,A__1) (A__1,A__0) (A__1,A__1),
    both sides are -32; all hypotheses of C05_dynamics_collapse hold although A stands twice on the substrate side *)
Theorem C05_homodimer_repaired :
  exists rxns : list lrxn,
    r_fn hd_rxn = FProd /\
    Permutation (r_args hd_rxn) (subs_of (r_stoich hd_rxn) ++ [20%N]) /\
    NoDup (map fst (r_stoich hd_rxn)) /\
    ~ NoDup (subs_of (r_stoich hd_rxn)) /\
    (forall a, In a [20%N] -> ~ In a (subs_of (r_stoich hd_rxn)) /\ ~ In a (prods_of (r_stoich hd_rxn))
                              /\ hd_env (bystander_name hd_lv a) = totalZ hd_lv hd_env a) /\
    create_iso_rxns true ReplPositional hd_lv hd_rxn [0%Z; 1%Z] = Ok rxns /\
    map lr_args rxns = [[LIso 1%N [false]; LIso 1%N [false]; LPlain 20%N]; [LIso 1%N [false]; LIso 1%N [true]; LPlain 20%N];
                        [LIso 1%N [true]; LIso 1%N [false]; LPlain 20%N]; [LIso 1%N [true]; LIso 1%N [true]; LPlain 20%N]] /\
    sumZ (map (fun bits => derivZ hd_env rxns (iso_name 1%N bits)) (all_patterns (nlab hd_lv 1%N))) = (-32)%Z /\
    ((match getN 1%N (r_stoich hd_rxn) with Some v => v | None => 0 end) * prodZ (map (totalZ hd_lv hd_env) (r_args hd_rxn)))%Z = (-32)%Z.
Proof. exact homodimer_repaired. Qed.
Print Assumptions C05_homodimer_repaired.

(** dict form, A(1) -> B(1) with rate k*A*M, M labelled and not part of the reaction: the generated reactions read the
    base name M, which the generated model does not define -- the right-hand side cannot be evaluated at any state *)
Theorem C05_labelled_modifier_refuted :
  r_fn md_rxn = FProd /\
  Permutation (r_args md_rxn) (subs_of (r_stoich md_rxn) ++ [3%N; 20%N]) /\
  (forall a, In a [3%N; 20%N] -> ~ In a (subs_of (r_stoich md_rxn)) /\ ~ In a (prods_of (r_stoich md_rxn))) /\
  exists m rx, build_iso true ReplDict InitIsoName md_lv [(40%N, [0%Z])] [] md_base = Ok m /\
               In rx (lm_rxns m) /\ In (LPlain 3%N) (lr_args rx) /\ ~ In (LPlain 3%N) (defined_names m) /\
               all_args_defined m = false.
Proof. exact labelled_modifier_refuted. Qed.
Print Assumptions C05_labelled_modifier_refuted.

(** per-occurrence form, the same input: M__total is read, every argument of every reaction is defined *)
Theorem C05_labelled_modifier_repaired :
  exists m, build_iso true ReplPositional InitIsoName md_lv [(40%N, [0%Z])] [] md_base = Ok m /\
            map lr_args (lm_rxns m) = [[LIso 1%N [false]; LTotal 3%N; LPlain 20%N]; [LIso 1%N [true]; LTotal 3%N; LPlain 20%N]] /\
            all_args_defined m = true.
Proof. exact labelled_modifier_repaired. Qed.
Print Assumptions C05_labelled_modifier_repaired.

(** reversible mass action written as one reaction (rate kf*S.. - kr*P.., the product is a rate argument).
    FULL statement wanted (NOT proved in general; validated on every run by the oracle and the correspondence on
    random reversible networks with equally many positions on both sides and permutation maps):
      forall lv r mun env c rxns m sargs pargs kf kr,
        r_fn r = FRev m -> r_args r = sargs ++ pargs ++ [kf; kr] -> length sargs = m ->
        Permutation sargs (subs_of (r_stoich r)) -> Permutation pargs (prods_of (r_stoich r)) ->
        (kf, kr unlabelled constants) -> NoDup (map fst (r_stoich r)) ->
        total (labels_per lv (subs_of ..)) = total (labels_per lv (prods_of ..)) = n -> Permutation mun (seq 0 n) ->
        create_iso_rxns true rk lv r (map Z.of_nat mun) = Ok rxns ->
        sum over c's isotopomers of derivZ env rxns = coefficient * (kf * prod totals(sargs) - kr * prod totals(pargs)).
    Without `equally many positions` / `permutation` the statement is FALSE of the code (either form of the renaming
    block): recorded finding c05-reversible-unbalanced, witness below.  Proved: the witness, and the statement for the
    reaction A(2) <-> B(2) with the swap map at every state. *)
Theorem C05_reversible_unbalanced_refuted :
  forall rk : repl_kind,
  exists rxns : list lrxn,
    create_iso_rxns true rk rv_lv rv_rxn [0%Z; 1%Z] = Ok rxns /\
    map lr_args rxns = [[LIso 1%N [false]; LIso 2%N [false; true]; LPlain 20%N; LPlain 21%N];
                        [LIso 1%N [true]; LIso 2%N [true; true]; LPlain 20%N; LPlain 21%N]] /\
    sumZ (map (fun bits => derivZ rv_env rxns (iso_name 1%N bits)) (all_patterns (nlab rv_lv 1%N))) = (-2)%Z /\
    ((match getN 1%N (r_stoich rv_rxn) with Some v => v | None => 0 end)
     * fsemZ (r_fn rv_rxn) (map (totalZ rv_lv rv_env) (r_args rv_rxn)))%Z = (-1)%Z.
Proof. exact reversible_unbalanced_refuted. Qed.
Print Assumptions C05_reversible_unbalanced_refuted.

Theorem C05_reversible_swap_collapse_partial :
  forall (rk : repl_kind) (env : lname -> Z),
  exists rxns : list lrxn,
    create_iso_rxns true rk rb_lv rb_rxn [1%Z; 0%Z] = Ok rxns /\
    forall c, c = 1%N \/ c = 2%N ->
    sumZ (map (fun bits => derivZ env rxns (iso_name c bits)) (all_patterns (nlab rb_lv c)))
    = ((match getN c (r_stoich rb_rxn) with Some v => v | None => 0 end)
       * fsemZ (r_fn rb_rxn) (map (totalZ rb_lv env) (r_args rb_rxn)))%Z.
Proof. exact reversible_swap_collapse. Qed.
Print Assumptions C05_reversible_swap_collapse_partial.

(** non-vacuity: A(2 labels) + U(unlabelled) -> B(2 labels), arguments (U, k, A), map [1;0] *)
Example C05_nonvacuous :
  r_fn nv_rxn = FProd /\
  Permutation (r_args nv_rxn) (subs_of (r_stoich nv_rxn) ++ [20%N]) /\
  NoDup (map fst (r_stoich nv_rxn)) /\ NoDup (subs_of (r_stoich nv_rxn)) /\
  (forall a, In a [20%N] -> ~ In a (subs_of (r_stoich nv_rxn)) /\ ~ In a (prods_of (r_stoich nv_rxn)) /\ nlab nv_lv a = 0) /\
  (exists rxns, create_iso_rxns true ReplDict nv_lv nv_rxn [1%Z; 0%Z] = Ok rxns /\ length rxns = 4) /\
  total (labels_per nv_lv (prods_of (r_stoich nv_rxn))) <= length [1%Z; 0%Z].
Proof. exact dynamics_nonvacuous. Qed.
Print Assumptions C05_nonvacuous.

(** ---- the LabelMapper OBJECT over its life (IsoSession.v): any number of build_model calls on one mapper ----

    `for every base model, assignment of label counts and atom-transition map, the labelled model has ...` is a statement
    about every model build_model returns, the second and the tenth as much as the first.  [session] threads the
    mapper's own `label_maps` dict through the reaction loop of every call; how the loop consults the dict is the
    regenerated fact [gen_build_maps] (MapsRead = the tree: `self.label_maps.get(rxn_name)`). *)
Theorem C05_build_maps_pinned : gen_build_maps = MapsRead.
Proof. vm_compute. reflexivity. Qed.
Print Assumptions C05_build_maps_pinned.

(** FULL, every history: on the tree's form each call returns exactly [build_iso] of the mapper's fields and its own
    `initial_labels` -- whatever was built before -- and the mapper's maps are left as they were.  Hence every theorem
    above about [build_iso] / [create_iso_rxns] holds for EVERY call of every history (the k-th call below). *)
Theorem C05_every_build_is_a_fresh_build :
  forall (rk : repl_kind) (ik : init_name_kind) (lv : label_vars) (lmaps : label_maps) (bm : bmodel) (inits : list init_labels),
    session gen_build_maps (ext_bit_of gen_label_facts) rk ik lv lmaps bm inits
    = (map (fun i => build_iso (ext_bit_of gen_label_facts) rk ik lv lmaps i bm) inits, lmaps).
Proof. exact (session_read true). Qed.
Print Assumptions C05_every_build_is_a_fresh_build.

Theorem C05_kth_build :
  forall (rk : repl_kind) (ik : init_name_kind) (lv : label_vars) (lmaps : label_maps) (bm : bmodel) (inits : list init_labels)
         (k : nat) (i : init_labels),
    nth_error inits k = Some i ->
    nth_error (fst (session gen_build_maps (ext_bit_of gen_label_facts) rk ik lv lmaps bm inits)) k
    = Some (build_iso (ext_bit_of gen_label_facts) rk ik lv lmaps i bm).
Proof. exact (session_read_nth true). Qed.
Print Assumptions C05_kth_build.

(** regression shape MapsPopped (seeded change C05-9: `open_maps = self.label_maps`, `open_maps.pop(rxn_name, None)`).
    PARTIAL: only the FIRST call of a mapper is the fresh build ... *)
Theorem C05_popped_maps_first_build_partial :
  forall (ext_bit : bool) (rk : repl_kind) (ik : init_name_kind) (lv : label_vars) (lmaps : label_maps) (init : init_labels) (bm : bmodel),
    NoDup (map r_name (b_rxns bm)) ->
    fst (build_iso_st MapsPopped ext_bit rk ik lv lmaps init bm) = build_iso ext_bit rk ik lv lmaps init bm.
Proof. exact popped_first_build. Qed.
Print Assumptions C05_popped_maps_first_build_partial.

(** ... it leaves exactly the maps that name no reaction of the base model ... *)
Theorem C05_popped_maps_leftover :
  forall (ext_bit : bool) (rk : repl_kind) (ik : init_name_kind) (lv : label_vars) (lmaps : label_maps) (init : init_labels) (bm : bmodel)
         (m : lmodel Z),
    fst (build_iso_st MapsPopped ext_bit rk ik lv lmaps init bm) = Ok m ->
    snd (build_iso_st MapsPopped ext_bit rk ik lv lmaps init bm)
    = filter (fun kv => negb (existsb (N.eqb (fst kv)) (map r_name (b_rxns bm)))) lmaps.
Proof. exact popped_leftover. Qed.
Print Assumptions C05_popped_maps_leftover.

(** ... so when every map names a reaction, the second call is the build of a mapper WITHOUT maps, which contains not one
    isotopomer reaction (all base models, label counts, maps, initial labels) *)
Theorem C05_popped_maps_second_build_unmapped :
  forall (ext_bit : bool) (rk : repl_kind) (ik : init_name_kind) (lv : label_vars) (lmaps : label_maps) (bm : bmodel)
         (i1 i2 : init_labels) (m1 : lmodel Z),
    NoDup (map r_name (b_rxns bm)) ->
    (forall k, In k (map fst lmaps) -> In k (map r_name (b_rxns bm))) ->
    build_iso ext_bit rk ik lv lmaps i1 bm = Ok m1 ->
    session MapsPopped ext_bit rk ik lv lmaps bm [i1; i2] = ([Ok m1; build_iso ext_bit rk ik lv [] i2 bm], [])
    /\ forall m2, build_iso ext_bit rk ik lv [] i2 bm = Ok m2 -> forallb (fun rx => negb (is_iso_rxn rx)) (lm_rxns m2) = true.
Proof. exact popped_second_build_unmapped. Qed.
Print Assumptions C05_popped_maps_second_build_unmapped.

(** witness (in -> A(1) -> B(1) -> out, all three reactions mapped; reference build, then the tracer on A): under the popping
    form the second call has the reactions v40, v41, v42 on base names and no isotopomer reaction, the mapper's maps are
    gone; the isotopomers of A then do not move (0) where the fresh build gives the base derivative -2 *)
Theorem C05_popped_maps_refuted :
  exists m1 m2 m2' : lmodel Z,
    session MapsPopped true ReplPositional InitIsoName sw_lv sw_maps sw_base [[]; sw_tracer] = ([Ok m1; Ok m2], []) /\
    build_iso true ReplPositional InitIsoName sw_lv sw_maps [] sw_base = Ok m1 /\
    build_iso true ReplPositional InitIsoName sw_lv sw_maps sw_tracer sw_base = Ok m2' /\
    length (filter is_iso_rxn (lm_rxns m1)) = 5 /\ length (filter is_iso_rxn (lm_rxns m2')) = 5 /\
    filter is_iso_rxn (lm_rxns m2) = [] /\
    map lr_name (lm_rxns m2) = [LPlain 40%N; LPlain 41%N; LPlain 42%N] /\
    lm_vars m2 = lm_vars m2' /\
    sumZ (map (fun bits => derivZ sw_env (lm_rxns m2') (iso_name 1%N bits)) (all_patterns (nlab sw_lv 1%N))) = (-2)%Z /\
    sumZ (map (fun bits => derivZ sw_env (lm_rxns m2) (iso_name 1%N bits)) (all_patterns (nlab sw_lv 1%N))) = 0%Z.
Proof. exact popped_maps_refuted. Qed.
Print Assumptions C05_popped_maps_refuted.

(** non-vacuity of C05_every_build_is_a_fresh_build: the same history on the tree's form -- two complete expansions (five
    isotopomer reactions each), the amount of A on A__0 in the reference build and on A__1 in the tracer build, maps kept *)
Example C05_session_nonvacuous :
  exists m1 m2 : lmodel Z,
    session MapsRead true ReplPositional InitIsoName sw_lv sw_maps sw_base [[]; sw_tracer] = ([Ok m1; Ok m2], sw_maps) /\
    length (filter is_iso_rxn (lm_rxns m1)) = 5 /\ length (filter is_iso_rxn (lm_rxns m2)) = 5 /\
    getL (LIso 1%N [true]) (lm_vars m2) = Some 3%Z /\ getL (LIso 1%N [false]) (lm_vars m1) = Some 3%Z.
Proof. exact session_nonvacuous. Qed.
Print Assumptions C05_session_nonvacuous.
