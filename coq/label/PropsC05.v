From Label Require Import LModel Iso Linear GenLabelFacts.
Theorem C05_facts_pinned :
  f_iso_dir gen_label_facts = IsoDocumented /\ f_ext_bit gen_label_facts = Some true /\
  f_short gen_label_facts = ShortLt0 /\ f_repl gen_label_facts = ReplDict /\ f_iso_helpers gen_label_facts = true.
Proof. vm_compute. repeat split. Qed.
Print Assumptions C05_facts_pinned.
