(** C05 statements instantiated at the ring Z (the general versions live in IsoProofs.v), the
    collapse of every generated stoichiometry, and the two machine-checked counter-examples. *)
From Coq Require Import List ZArith NArith Bool Arith Lia Permutation Ring InitialRing.
From MxlBase Require Import ListX.
From Label Require Import LModel Iso Linear Algebra IsoProofs IsoInitProofs.
Import ListNotations.

Definition idZ (z : Z) : Z := z.
Definition derivZ (env : lname -> Z) (rxns : list lrxn) (X : lname) : Z :=
  deriv Z 0%Z 1%Z Z.add Z.mul Z.opp idZ idZ env rxns X.
Definition coefZ (rx : lrxn) (X : lname) : Z :=
  coef_at Z 0%Z 1%Z Z.add Z.mul Z.opp idZ idZ (fun _ => 0%Z) rx X.
Definition prodZ (l : list Z) : Z := fold_right Z.mul 1%Z l.
(** total amount of compound [a] in the isotopomer state [env] (an unlabelled name is its own total) *)
Definition totalZ (lv : label_vars) (env : lname -> Z) (a : N) : Z :=
  sumZ (map (fun q => env (iso_name a q)) (all_patterns (nlab lv a))).

(** the guarded statement about the dict form of the renaming block (the tree before fixes/C05-homodimer.diff) *)
Theorem dynamics_collapse_rxn_Z :
  forall (lv : label_vars) (r : brxn) (lmap : list Z) (env : lname -> Z) (extra : list N) (c : N) (rxns : list lrxn),
    r_fn r = FProd ->
    Permutation (r_args r) (subs_of (r_stoich r) ++ extra) ->
    NoDup (map fst (r_stoich r)) ->
    NoDup (subs_of (r_stoich r)) ->
    (forall a, In a extra -> ~ In a (subs_of (r_stoich r)) /\ ~ In a (prods_of (r_stoich r)) /\ nlab lv a = 0) ->
    create_iso_rxns true ReplDict lv r lmap = Ok rxns ->
    total (labels_per lv (prods_of (r_stoich r))) <= length lmap ->
    sumZ (map (fun bits => derivZ env rxns (iso_name c bits)) (all_patterns (nlab lv c)))
    = ((match getN c (r_stoich r) with Some v => v | None => 0 end)
       * prodZ (map (totalZ lv env) (r_args r)))%Z.
Proof.
  intros lv r lmap env extra c rxns H1 H2 H3 H4 H5 H6 H7.
  refine (dynamics_collapse_rxn_gen Z 0%Z 1%Z Z.add Z.mul Z.sub Z.opp idZ idZ Zth eq_refl eq_refl
           (fun _ _ => eq_refl) (fun _ => eq_refl) true ReplDict lv r lmap env extra H1 H2 H3 (or_intror H4) _ c rxns H6 H7).
  intros a Ha. destruct (H5 a Ha) as [Ha1 [Ha2 Ha0]]. split; [exact Ha1|]. split; [exact Ha2|].
  cbn [ext_name]. unfold benv. rewrite Ha0. cbn. lia.
Qed.

(** the FULL statement about the per-occurrence form (after fixes/C05-homodimer.diff): no guard on repeated
    substrates; arguments that take no part in the reaction may be labelled -- they are read through their
    [__total], which the state [env] evaluates to the sum of the isotopomers *)
Theorem dynamics_collapse_rxn_pos_Z :
  forall (lv : label_vars) (r : brxn) (lmap : list Z) (env : lname -> Z) (extra : list N) (c : N) (rxns : list lrxn),
    r_fn r = FProd ->
    Permutation (r_args r) (subs_of (r_stoich r) ++ extra) ->
    NoDup (map fst (r_stoich r)) ->
    (forall a, In a extra -> ~ In a (subs_of (r_stoich r)) /\ ~ In a (prods_of (r_stoich r))
                             /\ env (bystander_name lv a) = totalZ lv env a) ->
    create_iso_rxns true ReplPositional lv r lmap = Ok rxns ->
    total (labels_per lv (prods_of (r_stoich r))) <= length lmap ->
    sumZ (map (fun bits => derivZ env rxns (iso_name c bits)) (all_patterns (nlab lv c)))
    = ((match getN c (r_stoich r) with Some v => v | None => 0 end)
       * prodZ (map (totalZ lv env) (r_args r)))%Z.
Proof.
  intros lv r lmap env extra c rxns H1 H2 H3 H5 H6 H7.
  exact (dynamics_collapse_rxn_gen Z 0%Z 1%Z Z.add Z.mul Z.sub Z.opp idZ idZ Zth eq_refl eq_refl
           (fun _ _ => eq_refl) (fun _ => eq_refl) true ReplPositional lv r lmap env extra H1 H2 H3 (or_introl eq_refl) H5 c rxns H6 H7).
Qed.

(** keys of a repacked stoichiometry *)
Lemma setL_keys {V} a (v : V) d k z : In (k, z) (setL a v d) -> k = a \/ In (k, z) d.
Proof.
  unfold setL. induction d as [|[k0 v0] d IH]; cbn; intro H.
  - destruct H as [H|[]]. inversion H. left. reflexivity.
  - destruct (lname_eq_dec a k0) as [->|Hne]; cbn in H.
    + destruct H as [H|H]; [inversion H; left; reflexivity|right; right; exact H].
    + destruct H as [H|H]; [right; left; exact H|]. destruct (IH H) as [->|Hd]; [left; reflexivity|right; right; exact Hd].
Qed.

Lemma dict_add_keys a dz d k z : In (k, z) (dict_add a dz d) -> k = a \/ exists z', In (k, z') d.
Proof.
  unfold dict_add. destruct (getL a d) as [v|].
  - intro H. apply setL_keys in H. destruct H as [->|H]; [left; reflexivity|right; exists z; exact H].
  - intro H. apply in_app_or in H. destruct H as [H|[H|[]]]; [right; exists z; exact H|inversion H; left; reflexivity].
Qed.

Lemma fold_add_keys dz l d0 k z :
  In (k, z) (fold_left (fun d a => dict_add a dz d) l d0) -> In k l \/ exists z', In (k, z') d0.
Proof.
  revert d0 z. induction l as [|a l IH]; intros d0 z H; cbn in H; [right; exists z; exact H|].
  destruct (IH _ _ H) as [Hl|[z' Hd]]; [left; right; exact Hl|].
  apply dict_add_keys in Hd. destruct Hd as [->|Hd]; [left; left; reflexivity|right; exact Hd].
Qed.

Lemma repack_keys ns np k z : In (k, z) (repack ns np) -> In k ns \/ In k np.
Proof.
  unfold repack. intro H. apply fold_add_keys in H. destruct H as [H|[z' H]]; [right; exact H|].
  apply fold_add_keys in H. destruct H as [H|[z'' []]]. left. exact H.
Qed.

(** C05, structure of one generated reaction: every stoichiometric key is an isotopomer (right number
    of label positions) of a compound of the base reaction, and per compound the coefficients sum to
    the base coefficient *)
Theorem collapse_stoichiometry :
  forall (ext_bit : bool) (rk : repl_kind) (lv : label_vars) (r : brxn) (lmap : list Z) (rxns : list lrxn) (rx : lrxn),
    NoDup (map fst (r_stoich r)) ->
    create_iso_rxns ext_bit rk lv r lmap = Ok rxns ->
    total (labels_per lv (prods_of (r_stoich r))) <= length lmap ->
    In rx rxns ->
    (forall Y co, In (Y, co) (lr_stoich rx) ->
       exists c q z, Y = iso_name c q /\ length q = nlab lv c /\ co = CZ z
                     /\ (In c (subs_of (r_stoich r)) \/ In c (prods_of (r_stoich r))))
    /\ (forall c, sumZ (map (fun bits => coefZ rx (iso_name c bits)) (all_patterns (nlab lv c)))
                  = match getN c (r_stoich r) with Some v => v | None => 0%Z end).
Proof.
  intros ext_bit rk lv r lmap rxns rx Hnd Hc Hl Hin.
  pose proof (create_ok_shape _ _ _ _ _ _ Hc) as [Hlen [Hrx Hs]]. subst rxns.
  apply in_map_iff in Hin. destruct Hin as [p [<- Hp]].
  pose proof (subpairs_wf ext_bit lv r p Hp) as Hws.
  assert (Hwp : wf_pairs (nlab lv) (prodpairs ext_bit lv r lmap p)).
  { unfold prodpairs, labels_per. apply wf_pairs_split. specialize (Hs p Hp). apply mapM_length in Hs.
    unfold labels_per in Hl. rewrite Hs. lia. }
  split.
  - intros Y co HY. rewrite (mk_iso_rxn_stoich ext_bit rk lv r lmap p) in HY.
    apply in_map_iff in HY. destruct HY as [[k z] [Heq Hk]]. cbn in Heq. inversion Heq; subst Y co.
    apply repack_keys in Hk.
    assert (Hgen : forall pairs cs sufs, pairs = combine cs sufs -> wf_pairs (nlab lv) pairs ->
               In k (map (fun cq => iso_name (fst cq) (snd cq)) pairs) ->
               exists c q, k = iso_name c q /\ length q = nlab lv c /\ In c cs).
    { intros pairs cs sufs -> Hwf Hk'. apply in_map_iff in Hk'. destruct Hk' as [[c q] [<- Hcq]].
      exists c, q. split; [reflexivity|split].
      - unfold wf_pairs in Hwf. rewrite Forall_forall in Hwf. apply (Hwf _ Hcq).
      - apply in_combine_l in Hcq. exact Hcq. }
    destruct Hk as [Hk|Hk].
    + destruct (Hgen _ _ _ eq_refl Hws Hk) as [c [q [H1 [H2 H3]]]]. exists c, q, z. auto.
    + destruct (Hgen _ _ _ eq_refl Hwp Hk) as [c [q [H1 [H2 H3]]]]. exists c, q, z. auto.
  - intro c. unfold coefZ.
    rewrite (map_ext _ (fun bits => (1 * idZ (Z.of_nat (count_occ lname_eq_dec
                 (map (fun cq => iso_name (fst cq) (snd cq)) (prodpairs ext_bit lv r lmap p)) (iso_name c bits)))
              - 1 * idZ (Z.of_nat (count_occ lname_eq_dec
                 (map (fun cq => iso_name (fst cq) (snd cq)) (subpairs ext_bit lv r p)) (iso_name c bits))))%Z)).
    2:{ intro bits. rewrite (coef_at_CZ' Z 0%Z 1%Z Z.add Z.mul Z.opp idZ idZ eq_refl (fun _ _ => eq_refl) _ _ _ _
                              (mk_iso_rxn_stoich ext_bit rk lv r lmap p)).
        rewrite tc_repack. unfold idZ. lia. }
    change sumZ with (sumR Z 0%Z Z.add).
    rewrite (sum_map_sub Z 0%Z 1%Z Z.add Z.mul Z.sub Z.opp Zth).
    pose proof (collapse_g Z 0%Z 1%Z Z.add Z.mul Z.sub Z.opp idZ Zth eq_refl eq_refl (fun _ _ => eq_refl)
                  (nlab lv) (fun _ => 1%Z)) as Hcg. unfold ofNat in Hcg.
    rewrite (Hcg _ c Hwp), (Hcg _ c Hws).
    unfold prodpairs, subpairs.
    rewrite !(Gsum_one Z 0%Z 1%Z Z.add Z.mul Z.sub Z.opp idZ Zth eq_refl eq_refl (fun _ _ => eq_refl))
      by (rewrite split_label_length; unfold labels_per; rewrite map_length; reflexivity).
    unfold ofNat, idZ. apply net_stoichiometry. exact Hnd.
Qed.

(** ---- counter-examples (the code violates the unguarded statements) ----------------------------- *)
(* 2A -> B, A with one label, B with two, map [0;1], mass action k*A*A *)
Definition hd_lv : label_vars := [(1%N, 1); (2%N, 2)].
Definition hd_rxn : brxn := mkBR 40%N FProd [1%N; 1%N; 20%N] [(1%N, (-2)%Z); (2%N, 1%Z)].
Definition hd_env (x : lname) : Z :=
  match x with
  | LIso 1%N [false] => 3%Z | LIso 1%N [true] => 1%Z | LPlain 20%N => 1%Z | _ => 0%Z
  end.

Theorem homodimer_refuted :
  exists (lv : label_vars) (r : brxn) (lmap : list Z) (env : lname -> Z) (extra : list N) (c : N) (rxns : list lrxn),
    r_fn r = FProd /\
    Permutation (r_args r) (subs_of (r_stoich r) ++ extra) /\
    NoDup (map fst (r_stoich r)) /\
    (forall a, In a extra -> ~ In a (subs_of (r_stoich r)) /\ ~ In a (prods_of (r_stoich r)) /\ nlab lv a = 0) /\
    create_iso_rxns true ReplDict lv r lmap = Ok rxns /\
    total (labels_per lv (prods_of (r_stoich r))) <= length lmap /\
    sumZ (map (fun bits => derivZ env rxns (iso_name c bits)) (all_patterns (nlab lv c))) = (-40)%Z /\
    ((match getN c (r_stoich r) with Some v => v | None => 0 end) * prodZ (map (totalZ lv env) (r_args r)))%Z = (-32)%Z.
Proof.
  exists hd_lv, hd_rxn, [0%Z; 1%Z], hd_env, [20%N], 1%N.
  destruct (create_iso_rxns true ReplDict hd_lv hd_rxn [0%Z; 1%Z]) as [rxns|e] eqn:Hc; [|vm_compute in Hc; discriminate].
  exists rxns. repeat split.
  - vm_compute. apply Permutation_refl.
  - vm_compute. repeat constructor; cbn; intuition discriminate.
  - destruct H as [<-|[]]. vm_compute. intuition discriminate.
  - destruct H as [<-|[]]. vm_compute. intuition discriminate.
  - destruct H as [<-|[]]. reflexivity.
  - vm_compute. lia.
  - vm_compute in Hc. inversion Hc; subst rxns. vm_compute. reflexivity.
Qed.

(** the same input under the per-occurrence form (fixes/C05-homodimer.diff): the reactions read (A__0, A__1);
    the summed derivative and the base derivative at the totals agree (-32), although A stands twice on the
    substrate side -- a non-trivial instance of [dynamics_collapse_rxn_pos_Z] *)
Theorem homodimer_repaired :
  exists rxns : list lrxn,
    r_fn hd_rxn = FProd /\
    Permutation (r_args hd_rxn) (subs_of (r_stoich hd_rxn) ++ [20%N]) /\
    NoDup (map fst (r_stoich hd_rxn)) /\
    ~ NoDup (subs_of (r_stoich hd_rxn)) /\
    (forall a, In a [20%N] -> ~ In a (subs_of (r_stoich hd_rxn)) /\ ~ In a (prods_of (r_stoich hd_rxn))
                              /\ hd_env (bystander_name hd_lv a) = totalZ hd_lv hd_env a) /\
    create_iso_rxns true ReplPositional hd_lv hd_rxn [0%Z; 1%Z] = Ok rxns /\
    map lr_args rxns = [[LIso 1%N [false]; LIso 1%N [false]; LPlain 20%N]; [LIso 1%N [false]; LIso 1%N [true]; LPlain 20%N];
                        [LIso 1%N [true]; LIso 1%N [false]; LPlain 20%N]; [LIso 1%N [true]; LIso 1%N [true]; LPlain 20%N]] /\
    sumZ (map (fun bits => derivZ hd_env rxns (iso_name 1%N bits)) (all_patterns (nlab hd_lv 1%N))) = (-32)%Z /\
    ((match getN 1%N (r_stoich hd_rxn) with Some v => v | None => 0 end) * prodZ (map (totalZ hd_lv hd_env) (r_args hd_rxn)))%Z = (-32)%Z.
Proof.
  destruct (create_iso_rxns true ReplPositional hd_lv hd_rxn [0%Z; 1%Z]) as [rxns|e] eqn:Hc; [|vm_compute in Hc; discriminate].
  exists rxns. vm_compute in Hc. inversion Hc; subst rxns. clear Hc.
  repeat match goal with |- _ /\ _ => split end.
  - reflexivity.
  - vm_compute. apply Permutation_refl.
  - vm_compute. repeat constructor; cbn; intuition discriminate.
  - vm_compute. intro H. inversion H as [|x l Hn _]. apply Hn. left. reflexivity.
  - intros a [<-|[]]. vm_compute. repeat split; intuition discriminate.
  - reflexivity.
  - reflexivity.
  - vm_compute. reflexivity.
  - vm_compute. reflexivity.
Qed.

(** a labelled compound that enters the rate of a mapped reaction without taking part in it (a modifier):
    A(1) -> B(1), rate k*A*M with M labelled.  Dict form: the generated reactions read the BASE name M, which the
    generated model does not define (only M__0, M__1 and M__total exist) -- its right-hand side cannot be
    evaluated.  Per-occurrence form: M__total is read and every argument of every reaction is defined. *)
Definition md_lv : label_vars := [(1%N, 1); (2%N, 1); (3%N, 1)].
Definition md_rxn : brxn := mkBR 40%N FProd [1%N; 3%N; 20%N] [(1%N, (-1)%Z); (2%N, 1%Z)].
Definition md_base : bmodel := mkBM [(20%N, 1%Z)] [] [(1%N, 1%Z); (2%N, 1%Z); (3%N, 1%Z)] [] [md_rxn].
Definition defined_names (m : lmodel Z) : list lname :=
  map fst (lm_params m) ++ map fst (lm_vars m) ++ map ld_name (lm_derived m).
Definition all_args_defined (m : lmodel Z) : bool :=
  forallb (fun rx => forallb (fun a => existsb (lname_eqb a) (defined_names m)) (lr_args rx)) (lm_rxns m).

Theorem labelled_modifier_refuted :
  r_fn md_rxn = FProd /\
  Permutation (r_args md_rxn) (subs_of (r_stoich md_rxn) ++ [3%N; 20%N]) /\
  (forall a, In a [3%N; 20%N] -> ~ In a (subs_of (r_stoich md_rxn)) /\ ~ In a (prods_of (r_stoich md_rxn))) /\
  exists m rx, build_iso true ReplDict InitIsoName md_lv [(40%N, [0%Z])] [] md_base = Ok m /\
               In rx (lm_rxns m) /\ In (LPlain 3%N) (lr_args rx) /\ ~ In (LPlain 3%N) (defined_names m) /\
               all_args_defined m = false.
Proof.
  split; [reflexivity|]. split; [vm_compute; apply Permutation_refl|]. split.
  - intros a [<-|[<-|[]]]; vm_compute; intuition discriminate.
  - destruct (build_iso true ReplDict InitIsoName md_lv [(40%N, [0%Z])] [] md_base) as [m|e] eqn:Hb; [|vm_compute in Hb; discriminate].
    vm_compute in Hb. inversion Hb; subst m. clear Hb.
    eexists. eexists. split; [reflexivity|]. split; [left; reflexivity|]. split; [right; left; reflexivity|]. split.
    + vm_compute. intuition discriminate.
    + vm_compute. reflexivity.
Qed.

Theorem labelled_modifier_repaired :
  exists m, build_iso true ReplPositional InitIsoName md_lv [(40%N, [0%Z])] [] md_base = Ok m /\
            map lr_args (lm_rxns m) = [[LIso 1%N [false]; LTotal 3%N; LPlain 20%N]; [LIso 1%N [true]; LTotal 3%N; LPlain 20%N]] /\
            all_args_defined m = true.
Proof.
  destruct (build_iso true ReplPositional InitIsoName md_lv [(40%N, [0%Z])] [] md_base) as [m|e] eqn:Hb; [|vm_compute in Hb; discriminate].
  vm_compute in Hb. inversion Hb; subst m. clear Hb. eexists. split; [reflexivity|]. split; vm_compute; reflexivity.
Qed.

(** ---- reversible mass action written as ONE reaction (the rate takes its own product: kf*S - kr*P, [FRev]) --------
    One isotopomer reaction per SUBSTRATE pattern p is generated and the product argument is renamed to the product
    isotopomer pi(p) that pattern produces.  The summed rate is kf * S_total - kr * sum_p P[pi(p)], which is the base
    rate at the totals exactly when p |-> pi(p) is a bijection between substrate and product patterns.
    (1) A(1) <-> B(2), one external position: pi hits B__01 and B__11 only -- refuted for either form of the renaming;
    (2) A(2) <-> B(2) with the swap map: holds at EVERY state (all states, this reaction). *)
Definition rv_lv : label_vars := [(1%N, 1); (2%N, 2)].
Definition rv_rxn : brxn := mkBR 40%N (FRev 1) [1%N; 2%N; 20%N; 21%N] [(1%N, (-1)%Z); (2%N, 1%Z)].
Definition rv_env (x : lname) : Z :=
  match x with
  | LIso 1%N [false] => 1%Z | LIso 1%N [true] => 1%Z | LIso 2%N [false; false] => 1%Z
  | LPlain 20%N => 1%Z | LPlain 21%N => 1%Z | _ => 0%Z
  end.
Definition fsemZ := fsem Z 0%Z 1%Z Z.add Z.mul Z.opp idZ.

Theorem reversible_unbalanced_refuted :
  forall rk : repl_kind,
  exists rxns : list lrxn,
    create_iso_rxns true rk rv_lv rv_rxn [0%Z; 1%Z] = Ok rxns /\
    map lr_args rxns = [[LIso 1%N [false]; LIso 2%N [false; true]; LPlain 20%N; LPlain 21%N];
                        [LIso 1%N [true]; LIso 2%N [true; true]; LPlain 20%N; LPlain 21%N]] /\
    sumZ (map (fun bits => derivZ rv_env rxns (iso_name 1%N bits)) (all_patterns (nlab rv_lv 1%N))) = (-2)%Z /\
    ((match getN 1%N (r_stoich rv_rxn) with Some v => v | None => 0 end)
     * fsemZ (r_fn rv_rxn) (map (totalZ rv_lv rv_env) (r_args rv_rxn)))%Z = (-1)%Z.
Proof.
  intro rk.
  assert (H : forall rk', create_iso_rxns true rk' rv_lv rv_rxn [0%Z; 1%Z]
                = create_iso_rxns true ReplDict rv_lv rv_rxn [0%Z; 1%Z]) by (intros [| |]; vm_compute; reflexivity).
  rewrite H. eexists. split; [vm_compute; reflexivity|]. repeat split; vm_compute; reflexivity.
Qed.

(* balanced: A(2) <-> B(2), swap *)
Definition rb_lv : label_vars := [(1%N, 2); (2%N, 2)].
Definition rb_rxn : brxn := mkBR 40%N (FRev 1) [1%N; 2%N; 20%N; 21%N] [(1%N, (-1)%Z); (2%N, 1%Z)].
Theorem reversible_swap_collapse :
  forall (rk : repl_kind) (env : lname -> Z),
  exists rxns : list lrxn,
    create_iso_rxns true rk rb_lv rb_rxn [1%Z; 0%Z] = Ok rxns /\
    forall c, c = 1%N \/ c = 2%N ->
    sumZ (map (fun bits => derivZ env rxns (iso_name c bits)) (all_patterns (nlab rb_lv c)))
    = ((match getN c (r_stoich rb_rxn) with Some v => v | None => 0 end)
       * fsemZ (r_fn rb_rxn) (map (totalZ rb_lv env) (r_args rb_rxn)))%Z.
Proof.
  intros rk env.
  assert (H : forall rk', create_iso_rxns true rk' rb_lv rb_rxn [1%Z; 0%Z]
                = create_iso_rxns true ReplDict rb_lv rb_rxn [1%Z; 0%Z]) by (intros [| |]; vm_compute; reflexivity).
  rewrite H. eexists. split; [vm_compute; reflexivity|].
  intros c [->| ->]; cbv -[Z.add Z.mul Z.opp]; ring.
Qed.

(* label_variables = {A: 0}, initial_labels = {A: []}: with the PRE-REPAIR naming the amount goes to the stray name "A__" *)
Theorem zero_label_initial_refuted :
  exists (lv : label_vars) (init : init_labels) (bvars : list (N * Z)) (c : N) (v : Z) (n : nat),
    NoDup (map fst bvars) /\ NoDup (map fst lv) /\ In (c, v) bvars /\ getN c lv = Some n /\
    sumZ (map (fun bits => match getL (iso_name c bits) (build_vars InitRawSuffix lv init bvars) with Some x => x | None => 0%Z end)
              (all_patterns n)) <> v.
Proof.
  exists [(1%N, 0)], [(1%N, IList [])], [(1%N, 4%Z)], 1%N, 4%Z, 0.
  repeat split.
  all: try (repeat constructor; cbn; intuition discriminate).
  all: try (left; reflexivity).
  all: try (vm_compute; discriminate).
Qed.

(** non-vacuity: a bimolecular reaction A(2 labels) + U(unlabelled) -> B(2) with the swap map meets
    every hypothesis of the dynamics theorem and is built *)
Definition nv_lv : label_vars := [(1%N, 2); (2%N, 2)].
Definition nv_rxn : brxn := mkBR 41%N FProd [3%N; 20%N; 1%N] [(1%N, (-1)%Z); (3%N, (-1)%Z); (2%N, 1%Z)].
Example dynamics_nonvacuous :
  r_fn nv_rxn = FProd /\
  Permutation (r_args nv_rxn) (subs_of (r_stoich nv_rxn) ++ [20%N]) /\
  NoDup (map fst (r_stoich nv_rxn)) /\ NoDup (subs_of (r_stoich nv_rxn)) /\
  (forall a, In a [20%N] -> ~ In a (subs_of (r_stoich nv_rxn)) /\ ~ In a (prods_of (r_stoich nv_rxn)) /\ nlab nv_lv a = 0) /\
  (exists rxns, create_iso_rxns true ReplDict nv_lv nv_rxn [1%Z; 0%Z] = Ok rxns /\ length rxns = 4) /\
  total (labels_per nv_lv (prods_of (r_stoich nv_rxn))) <= length [1%Z; 0%Z].
Proof.
  repeat split.
  - vm_compute. apply Permutation_sym. apply (Permutation_trans (l' := [3%N; 1%N; 20%N])).
    + apply perm_swap.
    + apply perm_skip. apply perm_swap.
  - vm_compute. repeat constructor; cbn; intuition discriminate.
  - vm_compute. repeat constructor; cbn; intuition discriminate.
  - destruct H as [<-|[]]. vm_compute. intuition discriminate.
  - destruct H as [<-|[]]. vm_compute. intuition discriminate.
  - destruct H as [<-|[]]. reflexivity.
  - destruct (create_iso_rxns true ReplDict nv_lv nv_rxn [1%Z; 0%Z]) as [rxns|e] eqn:Hc; [|vm_compute in Hc; discriminate].
    exists rxns. split; [reflexivity|]. vm_compute in Hc. inversion Hc. reflexivity.
  - vm_compute. lia.
Qed.

(** a short map anywhere in label_maps makes build_model fail *)
Lemma build_short_map_rejected ext_bit rk ik lv lmaps init bm r lmap :
  In r (b_rxns bm) -> getN (r_name r) lmaps = Some lmap ->
  length lmap < total (labels_per lv (subs_of (r_stoich r))) ->
  exists e, build_iso ext_bit rk ik lv lmaps init bm = Err e.
Proof.
  intros Hin Hm Hshort. unfold build_iso.
  destruct (collect_map_err
              (fun r0 => match getN (r_name r0) lmaps with
                         | None => Ok [mkLR (LPlain (r_name r0)) (r_fn r0) (map (total_name lv) (r_args r0))
                                            (map (fun kz => (LPlain (fst kz), CZ (snd kz))) (r_stoich r0))]
                         | Some lmap0 => create_iso_rxns ext_bit rk lv r0 lmap0
                         end) (b_rxns bm) r ErrValue Hin) as [e He].
  - rewrite Hm. apply short_map_rejected. exact Hshort.
  - exists e. rewrite He. reflexivity.
Qed.

Lemma ext_bit_pinned_true : forall f, f_ext_bit f = Some true -> ext_bit_of f = true.
Proof. intros f H. unfold ext_bit_of. rewrite H. reflexivity. Qed.

Lemma patterns_enumerated n :
  (forall p, In p (all_patterns n) <-> length p = n) /\ NoDup (all_patterns n) /\ length (all_patterns n) = 2 ^ n.
Proof.
  split; [|split; [apply all_patterns_NoDup|apply all_patterns_count]].
  intro p. split; [apply all_patterns_length|apply all_patterns_complete].
Qed.
