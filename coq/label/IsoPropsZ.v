(** C05 statements instantiated at the ring Z (the general versions live in IsoProofs.v), the
    collapse of every generated stoichiometry, and the two machine-checked counter-examples. *)
From Coq Require Import List ZArith NArith Bool Arith Lia Permutation Ring InitialRing.
From MxlBase Require Import ListX.
From Label Require Import LModel Iso Linear Algebra IsoProofs IsoInitProofs.
Import ListNotations.

Definition idZ (z : Z) : Z := z.
Definition derivZ (env : lname -> Z) (rxns : list lrxn) (X : lname) : Z :=
  deriv Z 0%Z 1%Z Z.add Z.mul Z.opp idZ idZ env rxns X.
Definition coefZ (rx : lrxn) (X : lname) : Z :=
  coef_at Z 0%Z 1%Z Z.add Z.mul Z.opp idZ idZ (fun _ => 0%Z) rx X.
Definition prodZ (l : list Z) : Z := fold_right Z.mul 1%Z l.
(** total amount of compound [a] in the isotopomer state [env] (an unlabelled name is its own total) *)
Definition totalZ (lv : label_vars) (env : lname -> Z) (a : N) : Z :=
  sumZ (map (fun q => env (iso_name a q)) (all_patterns (nlab lv a))).

Theorem dynamics_collapse_rxn_Z :
  forall (lv : label_vars) (r : brxn) (lmap : list Z) (env : lname -> Z) (extra : list N) (c : N) (rxns : list lrxn),
    r_fn r = FProd ->
    Permutation (r_args r) (subs_of (r_stoich r) ++ extra) ->
    NoDup (map fst (r_stoich r)) ->
    NoDup (subs_of (r_stoich r)) ->
    (forall a, In a extra -> ~ In a (subs_of (r_stoich r)) /\ ~ In a (prods_of (r_stoich r)) /\ nlab lv a = 0) ->
    create_iso_rxns true lv r lmap = Ok rxns ->
    total (labels_per lv (prods_of (r_stoich r))) <= length lmap ->
    sumZ (map (fun bits => derivZ env rxns (iso_name c bits)) (all_patterns (nlab lv c)))
    = ((match getN c (r_stoich r) with Some v => v | None => 0 end)
       * prodZ (map (totalZ lv env) (r_args r)))%Z.
Proof.
  intros lv r lmap env extra c rxns H1 H2 H3 H4 H5 H6 H7.
  exact (dynamics_collapse_rxn Z 0%Z 1%Z Z.add Z.mul Z.sub Z.opp idZ idZ Zth eq_refl eq_refl
           (fun _ _ => eq_refl) (fun _ => eq_refl) true lv r lmap env extra H1 H2 H3 H4 H5 c rxns H6 H7).
Qed.

(** keys of a repacked stoichiometry *)
Lemma setL_keys {V} a (v : V) d k z : In (k, z) (setL a v d) -> k = a \/ In (k, z) d.
Proof.
  unfold setL. induction d as [|[k0 v0] d IH]; cbn; intro H.
  - destruct H as [H|[]]. inversion H. left. reflexivity.
  - destruct (lname_eq_dec a k0) as [->|Hne]; cbn in H.
    + destruct H as [H|H]; [inversion H; left; reflexivity|right; right; exact H].
    + destruct H as [H|H]; [right; left; exact H|]. destruct (IH H) as [->|Hd]; [left; reflexivity|right; right; exact Hd].
Qed.

Lemma dict_add_keys a dz d k z : In (k, z) (dict_add a dz d) -> k = a \/ exists z', In (k, z') d.
Proof.
  unfold dict_add. destruct (getL a d) as [v|].
  - intro H. apply setL_keys in H. destruct H as [->|H]; [left; reflexivity|right; exists z; exact H].
  - intro H. apply in_app_or in H. destruct H as [H|[H|[]]]; [right; exists z; exact H|inversion H; left; reflexivity].
Qed.

Lemma fold_add_keys dz l d0 k z :
  In (k, z) (fold_left (fun d a => dict_add a dz d) l d0) -> In k l \/ exists z', In (k, z') d0.
Proof.
  revert d0 z. induction l as [|a l IH]; intros d0 z H; cbn in H; [right; exists z; exact H|].
  destruct (IH _ _ H) as [Hl|[z' Hd]]; [left; right; exact Hl|].
  apply dict_add_keys in Hd. destruct Hd as [->|Hd]; [left; left; reflexivity|right; exact Hd].
Qed.

Lemma repack_keys ns np k z : In (k, z) (repack ns np) -> In k ns \/ In k np.
Proof.
  unfold repack. intro H. apply fold_add_keys in H. destruct H as [H|[z' H]]; [right; exact H|].
  apply fold_add_keys in H. destruct H as [H|[z'' []]]. left. exact H.
Qed.

(** C05, structure of one generated reaction: every stoichiometric key is an isotopomer (right number
    of label positions) of a compound of the base reaction, and per compound the coefficients sum to
    the base coefficient *)
Theorem collapse_stoichiometry :
  forall (ext_bit : bool) (lv : label_vars) (r : brxn) (lmap : list Z) (rxns : list lrxn) (rx : lrxn),
    NoDup (map fst (r_stoich r)) ->
    create_iso_rxns ext_bit lv r lmap = Ok rxns ->
    total (labels_per lv (prods_of (r_stoich r))) <= length lmap ->
    In rx rxns ->
    (forall Y co, In (Y, co) (lr_stoich rx) ->
       exists c q z, Y = iso_name c q /\ length q = nlab lv c /\ co = CZ z
                     /\ (In c (subs_of (r_stoich r)) \/ In c (prods_of (r_stoich r))))
    /\ (forall c, sumZ (map (fun bits => coefZ rx (iso_name c bits)) (all_patterns (nlab lv c)))
                  = match getN c (r_stoich r) with Some v => v | None => 0%Z end).
Proof.
  intros ext_bit lv r lmap rxns rx Hnd Hc Hl Hin.
  pose proof (create_ok_shape _ _ _ _ _ Hc) as [Hlen [Hrx Hs]]. subst rxns.
  apply in_map_iff in Hin. destruct Hin as [p [<- Hp]].
  pose proof (subpairs_wf ext_bit lv r p Hp) as Hws.
  assert (Hwp : wf_pairs (nlab lv) (prodpairs ext_bit lv r lmap p)).
  { unfold prodpairs, labels_per. apply wf_pairs_split. specialize (Hs p Hp). apply mapM_length in Hs.
    unfold labels_per in Hl. rewrite Hs. lia. }
  split.
  - intros Y co HY. rewrite (mk_iso_rxn_stoich ext_bit lv r lmap p) in HY.
    apply in_map_iff in HY. destruct HY as [[k z] [Heq Hk]]. cbn in Heq. inversion Heq; subst Y co.
    apply repack_keys in Hk.
    assert (Hgen : forall pairs cs sufs, pairs = combine cs sufs -> wf_pairs (nlab lv) pairs ->
               In k (map (fun cq => iso_name (fst cq) (snd cq)) pairs) ->
               exists c q, k = iso_name c q /\ length q = nlab lv c /\ In c cs).
    { intros pairs cs sufs -> Hwf Hk'. apply in_map_iff in Hk'. destruct Hk' as [[c q] [<- Hcq]].
      exists c, q. split; [reflexivity|split].
      - unfold wf_pairs in Hwf. rewrite Forall_forall in Hwf. apply (Hwf _ Hcq).
      - apply in_combine_l in Hcq. exact Hcq. }
    destruct Hk as [Hk|Hk].
    + destruct (Hgen _ _ _ eq_refl Hws Hk) as [c [q [H1 [H2 H3]]]]. exists c, q, z. auto.
    + destruct (Hgen _ _ _ eq_refl Hwp Hk) as [c [q [H1 [H2 H3]]]]. exists c, q, z. auto.
  - intro c. unfold coefZ.
    rewrite (map_ext _ (fun bits => (1 * idZ (Z.of_nat (count_occ lname_eq_dec
                 (map (fun cq => iso_name (fst cq) (snd cq)) (prodpairs ext_bit lv r lmap p)) (iso_name c bits)))
              - 1 * idZ (Z.of_nat (count_occ lname_eq_dec
                 (map (fun cq => iso_name (fst cq) (snd cq)) (subpairs ext_bit lv r p)) (iso_name c bits))))%Z)).
    2:{ intro bits. rewrite (coef_at_CZ' Z 0%Z 1%Z Z.add Z.mul Z.opp idZ idZ eq_refl (fun _ _ => eq_refl) _ _ _ _
                              (mk_iso_rxn_stoich ext_bit lv r lmap p)).
        rewrite tc_repack. unfold idZ. lia. }
    change sumZ with (sumR Z 0%Z Z.add).
    rewrite (sum_map_sub Z 0%Z 1%Z Z.add Z.mul Z.sub Z.opp Zth).
    pose proof (collapse_g Z 0%Z 1%Z Z.add Z.mul Z.sub Z.opp idZ Zth eq_refl eq_refl (fun _ _ => eq_refl)
                  (nlab lv) (fun _ => 1%Z)) as Hcg. unfold ofNat in Hcg.
    rewrite (Hcg _ c Hwp), (Hcg _ c Hws).
    unfold prodpairs, subpairs.
    rewrite !(Gsum_one Z 0%Z 1%Z Z.add Z.mul Z.sub Z.opp idZ Zth eq_refl eq_refl (fun _ _ => eq_refl))
      by (rewrite split_label_length; unfold labels_per; rewrite map_length; reflexivity).
    unfold ofNat, idZ. apply net_stoichiometry. exact Hnd.
Qed.

(** ---- counter-examples (the code violates the unguarded statements) ----------------------------- *)
(* 2A -> B, A with one label, B with two, map [0;1], mass action k*A*A *)
Definition hd_lv : label_vars := [(1%N, 1); (2%N, 2)].
Definition hd_rxn : brxn := mkBR 40%N FProd [1%N; 1%N; 20%N] [(1%N, (-2)%Z); (2%N, 1%Z)].
Definition hd_env (x : lname) : Z :=
  match x with
  | LIso 1%N [false] => 3%Z | LIso 1%N [true] => 1%Z | LPlain 20%N => 1%Z | _ => 0%Z
  end.

Theorem homodimer_refuted :
  exists (lv : label_vars) (r : brxn) (lmap : list Z) (env : lname -> Z) (extra : list N) (c : N) (rxns : list lrxn),
    r_fn r = FProd /\
    Permutation (r_args r) (subs_of (r_stoich r) ++ extra) /\
    NoDup (map fst (r_stoich r)) /\
    (forall a, In a extra -> ~ In a (subs_of (r_stoich r)) /\ ~ In a (prods_of (r_stoich r)) /\ nlab lv a = 0) /\
    create_iso_rxns true lv r lmap = Ok rxns /\
    total (labels_per lv (prods_of (r_stoich r))) <= length lmap /\
    sumZ (map (fun bits => derivZ env rxns (iso_name c bits)) (all_patterns (nlab lv c))) = (-40)%Z /\
    ((match getN c (r_stoich r) with Some v => v | None => 0 end) * prodZ (map (totalZ lv env) (r_args r)))%Z = (-32)%Z.
Proof.
  exists hd_lv, hd_rxn, [0%Z; 1%Z], hd_env, [20%N], 1%N.
  destruct (create_iso_rxns true hd_lv hd_rxn [0%Z; 1%Z]) as [rxns|e] eqn:Hc; [|vm_compute in Hc; discriminate].
  exists rxns. repeat split.
  - vm_compute. apply Permutation_refl.
  - vm_compute. repeat constructor; cbn; intuition discriminate.
  - destruct H as [<-|[]]. vm_compute. intuition discriminate.
  - destruct H as [<-|[]]. vm_compute. intuition discriminate.
  - destruct H as [<-|[]]. reflexivity.
  - vm_compute. lia.
  - vm_compute in Hc. inversion Hc; subst rxns. vm_compute. reflexivity.
Qed.

(* label_variables = {A: 0}, initial_labels = {A: []}: with the PRE-REPAIR naming the amount goes to the stray name "A__" *)
Theorem zero_label_initial_refuted :
  exists (lv : label_vars) (init : init_labels) (bvars : list (N * Z)) (c : N) (v : Z) (n : nat),
    NoDup (map fst bvars) /\ NoDup (map fst lv) /\ In (c, v) bvars /\ getN c lv = Some n /\
    sumZ (map (fun bits => match getL (iso_name c bits) (build_vars InitRawSuffix lv init bvars) with Some x => x | None => 0%Z end)
              (all_patterns n)) <> v.
Proof.
  exists [(1%N, 0)], [(1%N, IList [])], [(1%N, 4%Z)], 1%N, 4%Z, 0.
  repeat split.
  all: try (repeat constructor; cbn; intuition discriminate).
  all: try (left; reflexivity).
  all: try (vm_compute; discriminate).
Qed.

(** non-vacuity: a bimolecular reaction A(2 labels) + U(unlabelled) -> B(2) with the swap map meets
    every hypothesis of the dynamics theorem and is built *)
Definition nv_lv : label_vars := [(1%N, 2); (2%N, 2)].
Definition nv_rxn : brxn := mkBR 41%N FProd [3%N; 20%N; 1%N] [(1%N, (-1)%Z); (3%N, (-1)%Z); (2%N, 1%Z)].
Example dynamics_nonvacuous :
  r_fn nv_rxn = FProd /\
  Permutation (r_args nv_rxn) (subs_of (r_stoich nv_rxn) ++ [20%N]) /\
  NoDup (map fst (r_stoich nv_rxn)) /\ NoDup (subs_of (r_stoich nv_rxn)) /\
  (forall a, In a [20%N] -> ~ In a (subs_of (r_stoich nv_rxn)) /\ ~ In a (prods_of (r_stoich nv_rxn)) /\ nlab nv_lv a = 0) /\
  (exists rxns, create_iso_rxns true nv_lv nv_rxn [1%Z; 0%Z] = Ok rxns /\ length rxns = 4) /\
  total (labels_per nv_lv (prods_of (r_stoich nv_rxn))) <= length [1%Z; 0%Z].
Proof.
  repeat split.
  - vm_compute. apply Permutation_sym. apply (Permutation_trans (l' := [3%N; 1%N; 20%N])).
    + apply perm_swap.
    + apply perm_skip. apply perm_swap.
  - vm_compute. repeat constructor; cbn; intuition discriminate.
  - vm_compute. repeat constructor; cbn; intuition discriminate.
  - destruct H as [<-|[]]. vm_compute. intuition discriminate.
  - destruct H as [<-|[]]. vm_compute. intuition discriminate.
  - destruct H as [<-|[]]. reflexivity.
  - destruct (create_iso_rxns true nv_lv nv_rxn [1%Z; 0%Z]) as [rxns|e] eqn:Hc; [|vm_compute in Hc; discriminate].
    exists rxns. split; [reflexivity|]. vm_compute in Hc. inversion Hc. reflexivity.
  - vm_compute. lia.
Qed.

(** a short map anywhere in label_maps makes build_model fail *)
Lemma build_short_map_rejected ext_bit ik lv lmaps init bm r lmap :
  In r (b_rxns bm) -> getN (r_name r) lmaps = Some lmap ->
  length lmap < total (labels_per lv (subs_of (r_stoich r))) ->
  exists e, build_iso ext_bit ik lv lmaps init bm = Err e.
Proof.
  intros Hin Hm Hshort. unfold build_iso.
  destruct (collect_map_err
              (fun r0 => match getN (r_name r0) lmaps with
                         | None => Ok [mkLR (LPlain (r_name r0)) (r_fn r0) (map (total_name lv) (r_args r0))
                                            (map (fun kz => (LPlain (fst kz), CZ (snd kz))) (r_stoich r0))]
                         | Some lmap0 => create_iso_rxns ext_bit lv r0 lmap0
                         end) (b_rxns bm) r ErrValue Hin) as [e He].
  - rewrite Hm. apply short_map_rejected. exact Hshort.
  - exists e. rewrite He. reflexivity.
Qed.

Lemma ext_bit_pinned_true : forall f, f_ext_bit f = Some true -> ext_bit_of f = true.
Proof. intros f H. unfold ext_bit_of. rewrite H. reflexivity. Qed.

Lemma patterns_enumerated n :
  (forall p, In p (all_patterns n) <-> length p = n) /\ NoDup (all_patterns n) /\ length (all_patterns n) = 2 ^ n.
Proof.
  split; [|split; [apply all_patterns_NoDup|apply all_patterns_count]].
  intro p. split; [apply all_patterns_length|apply all_patterns_complete].
Qed.
