(* REGENERATED from src/mxlpy/label_map.py and src/mxlpy/linear_label_map.py by harness/c05_label.py;
   do not edit.  An unrecognised shape yields an *Unknown constructor / None / false, which breaks
   C05_facts_pinned or C16_facts_pinned. *)
From Label Require Import LModel Iso IsoSession Linear LinSession.
Definition gen_label_facts : label_facts :=
  mkLabelFacts IsoDocumented (Some true) ShortLt0 ReplPositional true DirDocumented true InitIsoName ExpDuplicated.
(* how LabelMapper.build_model's reaction loop consults the mapper's own label_maps dict (IsoSession.v); pinned by C05_build_maps_pinned *)
Definition gen_build_maps : maps_mode := MapsRead.
(* what LinearLabelMapper keeps between build_model calls (LinSession.v); pinned by C16_lin_cache_pinned *)
Definition gen_lin_cache : cache_mode := CacheNone.
