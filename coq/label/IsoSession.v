(** The LabelMapper OBJECT over its life: several `build_model` calls on one mapper (model file, no proofs).

    `LabelMapper` is a dataclass holding `model`, `label_variables`, `label_maps`; `build_model(initial_labels)` is
    called any number of times on it (the unlabelled reference model first, then the tracer experiments).  Iso.v models
    ONE call as the function [build_iso] of the mapper's fields.  This file threads the mapper's own `label_maps` dict
    through the reaction loop of `build_model`, so that what a call leaves behind for the next one is part of the model.

    How the loop consults the dict is a regenerated fact ([maps_mode], GenLabelFacts.v `gen_build_maps`):
      MapsRead    (the tree)  `if (label_map := self.label_maps.get(rxn_name)) is None:` -- the dict is only read
      MapsPopped  (recognised regression shape, seeded change C05-9)
                  `open_maps = self.label_maps` before the loop and
                  `if (label_map := open_maps.pop(rxn_name, None)) is None:` inside it -- `open_maps` IS the mapper's
                  dict, every reaction of the base model removes its own entry (also when its expansion then raises)
      MapsUnknown anything else (C05_build_maps_pinned no longer compiles)

    [rxn_loop] returns the loop's outcome AND the dict as the loop leaves it; [build_iso_st] is `build_model` with that
    second component, [session] a whole history of calls on one mapper (each call sees the dict its predecessors left). *)
From Coq Require Import List ZArith NArith Bool Arith.
From MxlBase Require Import ListX.
From Label Require Import LModel Iso.
Import ListNotations.

Inductive maps_mode := MapsRead | MapsPopped | MapsUnknown.

(** `d.pop(k, None)` on the mapper's dict (a Python dict has every key once; on an association list with a repeated
    key all its entries go) *)
Definition delN {V} (k : N) (d : list (N * V)) : list (N * V) :=
  filter (fun kv => negb (N.eqb (fst kv) k)) d.

(** what the loop adds for ONE base reaction, given the map it found (None: the reaction is copied onto the totals) *)
Definition rxn_step (ext_bit : bool) (rk : repl_kind) (lv : label_vars) (r : brxn) (found : option (list Z))
  : result (list lrxn) :=
  match found with
  | None => Ok [mkLR (LPlain (r_name r)) (r_fn r) (map (total_name lv) (r_args r))
                     (map (fun kz => (LPlain (fst kz), CZ (snd kz))) (r_stoich r))]
  | Some lmap => create_iso_rxns ext_bit rk lv r lmap
  end.

(** `for rxn_name, rxn in self.model.get_raw_reactions().items(): ...` with the mapper's dict threaded through;
    an exception leaves the loop at once (the dict keeps what was done to it so far) *)
Fixpoint rxn_loop (mm : maps_mode) (ext_bit : bool) (rk : repl_kind) (lv : label_vars) (rs : list brxn) (lmaps : label_maps)
  : result (list (list lrxn)) * label_maps :=
  match rs with
  | [] => (Ok [], lmaps)
  | r :: rest =>
    let found := getN (r_name r) lmaps in
    let lmaps1 := match mm with MapsPopped => delN (r_name r) lmaps | _ => lmaps end in
    match rxn_step ext_bit rk lv r found with
    | Err e => (Err e, lmaps1)
    | Ok x =>
      let '(res, lmaps2) := rxn_loop mm ext_bit rk lv rest lmaps1 in
      (match res with Ok xs => Ok (x :: xs) | Err e => Err e end, lmaps2)
    end
  end.

(** `LabelMapper.build_model(initial_labels)`: the built model (or the exception) and the mapper's `label_maps`
    afterwards.  Everything before the reaction loop is as in [build_iso] and touches neither dict. *)
Definition build_iso_st (mm : maps_mode) (ext_bit : bool) (rk : repl_kind) (ik : init_name_kind) (lv : label_vars)
           (lmaps : label_maps) (init : init_labels) (bm : bmodel) : result (lmodel Z) * label_maps :=
  let params := map (fun kv => (LPlain (fst kv), snd kv)) (b_params bm) in
  let dpars := map (fun d => mkLD (LPlain (d_name d)) (d_fn d) (map LPlain (d_args d))) (b_dpars bm) in
  let vars := build_vars ik lv init (b_vars bm) in
  let totals := map (fun ci => mkLD (LTotal (fst ci)) FSum (snd ci)) (isotopomers lv) in
  let dvars := map (fun d => mkLD (LPlain (d_name d)) (d_fn d) (map (total_name lv) (d_args d))) (b_dvars bm) in
  let '(res, lmaps') := rxn_loop mm ext_bit rk lv (b_rxns bm) lmaps in
  (bind res (fun rxns => Ok (mkLM params vars (dpars ++ totals ++ dvars) (concat rxns))), lmaps').

(** a history of calls on ONE mapper: the results in call order and the mapper's `label_maps` at the end *)
Fixpoint session (mm : maps_mode) (ext_bit : bool) (rk : repl_kind) (ik : init_name_kind) (lv : label_vars)
         (lmaps : label_maps) (bm : bmodel) (inits : list init_labels) : list (result (lmodel Z)) * label_maps :=
  match inits with
  | [] => ([], lmaps)
  | i :: rest =>
    let '(r, lmaps1) := build_iso_st mm ext_bit rk ik lv lmaps i bm in
    let '(rs, lmaps2) := session mm ext_bit rk ik lv lmaps1 bm rest in
    (r :: rs, lmaps2)
  end.

(** the names of the generated reactions that are isotopomer reactions (rate__<pattern>) *)
Definition is_iso_rxn (rx : lrxn) : bool := match lr_name rx with LIso _ _ => true | _ => false end.
