(** Shared vocabulary of the two label mappers (src/mxlpy/label_map.py, linear_label_map.py):
    names of the generated models, Python dict / index semantics, the generated-model record and
    a generic evaluator of right-hand sides over any number structure.

    Python                                  model
    ------                                  -----
    str names "A", "A__01", "A__", "A__2",  [lname]: LPlain / LIso (bits, [] is the bare "__") /
      "A__total", "EXT"                       LPos (linear model, also "v1__2") / LTotal / LExt
    dict (insertion ordered)                association list, [dict_set] keeps the position of an
                                              existing key, appends a new one
    s[i], l[i] = v with Python indices      [py_index] / [py_set]: negative indices wrap, out of
                                              range is [None] (IndexError)
    rate functions                          [fnid]: FProd (product of all arguments: constants and
                                              mass action k*s1*..*sn, _relative_label_flux), FSum
                                              (_total_concentration, additive test functions),
                                              FOneDiv / FNegOneDiv (1/y, -1/y),
                                              FRev m (reversible mass action kf*S.. - kr*P..) *)
From Coq Require Import List ZArith NArith Bool Arith Lia.
From MxlBase Require Import ListX.
Import ListNotations.

Inductive lname :=
| LPlain (n : N)
| LIso (n : N) (bits : list bool)
| LPos (n : N) (i : Z)
| LTotal (n : N)
| LExt.

Definition lname_eq_dec (a b : lname) : {a = b} + {a <> b}.
Proof.
  decide equality; try apply N.eq_dec; try apply Z.eq_dec.
  apply (list_eq_dec Bool.bool_dec).
Defined.

Definition lname_eqb (a b : lname) : bool := if lname_eq_dec a b then true else false.

(** [FRev m]: reversible mass action kf * s1*..*sm - kr * p1*..*pq with the arguments in the order
    (s1 .. sm, p1 .. pq, kf, kr) -- mxlpy.fns.mass_action_1s_1p / mass_action_2s_1p and the harness's rev_m_q *)
Inductive fnid := FProd | FSum | FOneDiv | FNegOneDiv | FRev (m : nat).
Definition fnid_eqb (a b : fnid) : bool :=
  match a, b with
  | FProd, FProd | FSum, FSum | FOneDiv, FOneDiv | FNegOneDiv, FNegOneDiv => true
  | FRev x, FRev y => Nat.eqb x y
  | _, _ => false
  end.

Inductive err := ErrValue | ErrIndex | ErrKey | ErrName.
Inductive result (A : Type) := Ok (a : A) | Err (e : err).
Arguments Ok {A} a.
Arguments Err {A} e.

Definition bind {A B} (r : result A) (f : A -> result B) : result B :=
  match r with Ok a => f a | Err e => Err e end.

(** sequence a list of results: first error wins (Python raises at the first failing iteration) *)
Fixpoint collect {A} (l : list (result A)) : result (list A) :=
  match l with
  | [] => Ok []
  | r :: rs => match r with
               | Err e => Err e
               | Ok a => match collect rs with Ok as_ => Ok (a :: as_) | Err e => Err e end
               end
  end.

Fixpoint mapM {A B} (f : A -> option B) (l : list A) : option (list B) :=
  match l with
  | [] => Some []
  | x :: xs => match f x with
               | None => None
               | Some y => match mapM f xs with Some ys => Some (y :: ys) | None => None end
               end
  end.

(** ---- Python dicts as association lists ------------------------------------------- *)
Section Dict.
  Context {K V : Type}.
  Variable eqd : forall a b : K, {a = b} + {a <> b}.

  Fixpoint dict_get (k : K) (d : list (K * V)) : option V :=
    match d with
    | [] => None
    | (k', v) :: r => if eqd k k' then Some v else dict_get k r
    end.

  Fixpoint dict_set (k : K) (v : V) (d : list (K * V)) : list (K * V) :=
    match d with
    | [] => [(k, v)]
    | (k', v') :: r => if eqd k k' then (k', v) :: r else (k', v') :: dict_set k v r
    end.

  (** dict(pairs) / d.update(pairs) / d1 | d2 *)
  Definition dict_update (d : list (K * V)) (pairs : list (K * V)) : list (K * V) :=
    fold_left (fun acc kv => dict_set (fst kv) (snd kv) acc) pairs d.
End Dict.

Definition getN {V} := @dict_get N V N.eq_dec.
Definition getL {V} := @dict_get lname V lname_eq_dec.
Definition setL {V} := @dict_set lname V lname_eq_dec.

(** ---- Python indexing --------------------------------------------------------------- *)
Definition py_norm (len : nat) (i : Z) : option nat :=
  let n := Z.of_nat len in
  if (0 <=? i)%Z then (if (i <? n)%Z then Some (Z.to_nat i) else None)
  else if (- n <=? i)%Z then Some (Z.to_nat (n + i)) else None.

Definition py_index {A} (l : list A) (i : Z) : option A :=
  match py_norm (length l) i with Some k => nth_error l k | None => None end.

Fixpoint list_upd {A} (l : list A) (k : nat) (v : A) : list A :=
  match l, k with
  | [], _ => []
  | _ :: t, O => v :: t
  | h :: t, S k' => h :: list_upd t k' v
  end.

Definition py_set {A} (l : list A) (i : Z) (v : A) : option (list A) :=
  match py_norm (length l) i with Some k => Some (list_upd l k v) | None => None end.

(** itertools.product(("0","1"), repeat=n): first position varies slowest, "0" first *)
Fixpoint all_patterns (n : nat) : list (list bool) :=
  match n with
  | O => [[]]
  | S n' => map (cons false) (all_patterns n') ++ map (cons true) (all_patterns n')
  end.

(** ---- base model (input of both mappers) ----------------------------------------------- *)
Record brxn := mkBR { r_name : N; r_fn : fnid; r_args : list N; r_stoich : list (N * Z) }.
Record bder := mkBD { d_name : N; d_fn : fnid; d_args : list N }.
Record bmodel := mkBM {
  b_params : list (N * Z);     (* get_parameter_values() *)
  b_dpars : list bder;         (* get_derived_parameters() *)
  b_vars : list (N * Z);       (* get_initial_conditions() *)
  b_dvars : list bder;         (* get_derived_variables() *)
  b_rxns : list brxn           (* get_raw_reactions() *)
}.

(** ---- generated model ---------------------------------------------------------------------- *)
Inductive coef := CZ (z : Z) | CDer (f : fnid) (args : list lname).
Record lrxn := mkLR { lr_name : lname; lr_fn : fnid; lr_args : list lname; lr_stoich : list (lname * coef) }.
Record lder := mkLD { ld_name : lname; ld_fn : fnid; ld_args : list lname }.
Record lmodel (V : Type) := mkLM {
  lm_params : list (lname * V);
  lm_vars : list (lname * V);
  lm_derived : list lder;
  lm_rxns : list lrxn
}.
Arguments mkLM {V}.
Arguments lm_params {V}.
Arguments lm_vars {V}.
Arguments lm_derived {V}.
Arguments lm_rxns {V}.

(** ---- evaluation over an arbitrary number structure ---------------------------------------
    (Z for the isotopomer theorems, Q inside the correspondence check, an abstract commutative
    ring with inverses of the pool sizes in the C16 theorems).  [deriv] mirrors
    Model._get_right_hand_side: dxdt[X] = sum over reactions of coefficient * flux. *)
Section Eval.
  Variable R : Type.
  Variables (rO rI : R) (radd rmul : R -> R -> R) (ropp rinv : R -> R) (ofZ : Z -> R).

  Definition sumR (l : list R) : R := fold_right radd rO l.
  Definition prodR (l : list R) : R := fold_right rmul rI l.

  Definition fsem (f : fnid) (vs : list R) : R :=
    match f with
    | FProd => prodR vs
    | FSum => sumR vs
    | FOneDiv => match vs with [y] => rinv y | _ => rO end
    | FNegOneDiv => match vs with [y] => ropp (rinv y) | _ => rO end
    | FRev m =>
      let rest := skipn m vs in
      let q := length rest - 2 in
      match skipn q rest with
      | [kf; kr] => radd (rmul kf (prodR (firstn m vs))) (ropp (rmul kr (prodR (firstn q rest))))
      | _ => rO
      end
    end.

  Definition coefval (env : lname -> R) (c : coef) : R :=
    match c with CZ z => ofZ z | CDer f args => fsem f (map env args) end.

  Definition rate (env : lname -> R) (rx : lrxn) : R := fsem (lr_fn rx) (map env (lr_args rx)).

  Definition coef_at (env : lname -> R) (rx : lrxn) (X : lname) : R :=
    sumR (map (fun yc => if lname_eq_dec (fst yc) X then coefval env (snd yc) else rO) (lr_stoich rx)).

  Definition deriv (env : lname -> R) (rxns : list lrxn) (X : lname) : R :=
    sumR (map (fun rx => rmul (coef_at env rx X) (rate env rx)) rxns).
End Eval.
