(** C05, dynamics of ALL mapped mass-action reactions together: the derivatives of the isotopomers of a compound,
    summed, equal the base model's derivative (sum over the reactions of coefficient * rate) evaluated at the
    isotopomer totals -- in an arbitrary commutative ring, at every state.  Built on
    IsoProofs.dynamics_collapse_rxn_gen by linearity of [deriv] over the concatenated reaction list. *)
From Coq Require Import List ZArith NArith Bool Arith Lia Permutation Ring InitialRing.
From MxlBase Require Import ListX.
From Label Require Import LModel Iso Algebra IsoProofs IsoInitProofs IsoPropsZ.
Import ListNotations.

Section IsoWhole.
  Variable R : Type.
  Variables (rO rI : R) (radd rmul rsub : R -> R -> R) (ropp rinv : R -> R) (ofZ : Z -> R).
  Hypothesis Rth : ring_theory rO rI radd rmul rsub ropp eq.
  Hypothesis ofZ_0 : ofZ 0%Z = rO.
  Hypothesis ofZ_1 : ofZ 1%Z = rI.
  Hypothesis ofZ_add : forall a b, ofZ (a + b)%Z = radd (ofZ a) (ofZ b).
  Hypothesis ofZ_opp : forall a, ofZ (- a)%Z = ropp (ofZ a).
  Add Ring Rring_isowhole : Rth.

  Notation "0" := rO. Notation "1" := rI.
  Infix "+" := radd. Infix "*" := rmul. Infix "-" := rsub.
  Notation sum := (sumR R rO radd).
  Notation prod := (prodR R rI rmul).
  Notation Deriv := (deriv R rO rI radd rmul ropp rinv ofZ).
  Notation Benv := (benv R rO radd).

  Let s_app := sum_app R rO rI radd rmul rsub ropp Rth.
  Let s_add := @sum_map_add R rO rI radd rmul rsub ropp Rth.
  Let s_zero := @sum_map_zero R rO rI radd rmul rsub ropp Rth.
  Let s_ext := @sum_map_ext R rO radd.
  Let s_cons := sum_cons R rO radd.

  Lemma deriv_app' env l1 l2 X : Deriv env (l1 ++ l2) X = Deriv env l1 X + Deriv env l2 X.
  Proof. unfold deriv. rewrite map_app. apply s_app. Qed.

  Theorem dynamics_collapse_model :
    forall (ext_bit : bool) (rk : repl_kind) (lv : label_vars) (rms : list (brxn * list Z)) (env : lname -> R)
           (irs : list (list lrxn)) (c : N),
      Forall (fun rm =>
                let r := fst rm in
                let bs := subs_of (r_stoich r) in let bp := prods_of (r_stoich r) in
                exists extra : list N,
                  r_fn r = FProd /\ Permutation (r_args r) (bs ++ extra) /\ NoDup (map fst (r_stoich r)) /\
                  (rk = ReplPositional \/ NoDup bs) /\
                  (forall a, In a extra -> ~ In a bs /\ ~ In a bp /\ env (ext_name rk lv a) = Benv lv env a) /\
                  total (labels_per lv bp) <= length (snd rm)) rms ->
      collect (map (fun rm => create_iso_rxns ext_bit rk lv (fst rm) (snd rm)) rms) = Ok irs ->
      sum (map (fun bits => Deriv env (concat irs) (iso_name c bits)) (all_patterns (nlab lv c)))
      = sum (map (fun rm => ofZ (match getN c (r_stoich (fst rm)) with Some v => v | None => 0%Z end)
                            * prod (map (Benv lv env) (r_args (fst rm)))) rms).
  Proof.
    intros ext_bit rk lv rms env irs c Hwf. revert irs.
    induction Hwf as [|rm rms Hrm _ IH]; intros irs Hi; cbn [map collect] in Hi.
    - inversion Hi; subst irs. cbn [concat map]. rewrite (s_ext _ _ (fun _ => 0)) by (intros; reflexivity). apply s_zero.
    - destruct (create_iso_rxns ext_bit rk lv (fst rm) (snd rm)) as [ir|] eqn:Hir; [|discriminate].
      destruct (collect (map (fun rm0 => create_iso_rxns ext_bit rk lv (fst rm0) (snd rm0)) rms)) as [irs'|] eqn:Hi'; [|discriminate].
      inversion Hi; subst irs. cbn [concat map]. rewrite s_cons, <- (IH irs' eq_refl).
      cbv zeta in Hrm. destruct Hrm as [extra [Hfn [Hargs [Hnd [Hrk [Hextra Hlen]]]]]].
      rewrite <- (dynamics_collapse_rxn_gen R rO rI radd rmul rsub ropp rinv ofZ Rth ofZ_0 ofZ_1 ofZ_add ofZ_opp
                    ext_bit rk lv (fst rm) (snd rm) env extra Hfn Hargs Hnd Hrk Hextra c ir Hir Hlen).
      rewrite <- s_add. apply s_ext. intros bits _. apply deriv_app'.
  Qed.
End IsoWhole.

(** dict form (the tree before fixes/C05-homodimer.diff): guarded *)
Theorem dynamics_collapse_model_Z :
  forall (lv : label_vars) (rms : list (brxn * list Z)) (env : lname -> Z) (irs : list (list lrxn)) (c : N),
    Forall (fun rm =>
              let r := fst rm in
              let bs := subs_of (r_stoich r) in let bp := prods_of (r_stoich r) in
              exists extra : list N,
                r_fn r = FProd /\ Permutation (r_args r) (bs ++ extra) /\ NoDup (map fst (r_stoich r)) /\ NoDup bs /\
                (forall a, In a extra -> ~ In a bs /\ ~ In a bp /\ nlab lv a = O) /\
                total (labels_per lv bp) <= length (snd rm)) rms ->
    collect (map (fun rm => create_iso_rxns true ReplDict lv (fst rm) (snd rm)) rms) = Ok irs ->
    sumZ (map (fun bits => derivZ env (concat irs) (iso_name c bits)) (all_patterns (nlab lv c)))
    = sumZ (map (fun rm => ((match getN c (r_stoich (fst rm)) with Some v => v | None => 0 end)
                            * prodZ (map (totalZ lv env) (r_args (fst rm))))%Z) rms).
Proof.
  intros lv rms env irs c Hwf Hi.
  refine (dynamics_collapse_model Z 0%Z 1%Z Z.add Z.mul Z.sub Z.opp idZ idZ Zth eq_refl eq_refl
           (fun _ _ => eq_refl) (fun _ => eq_refl) true ReplDict lv rms env irs c _ Hi).
  eapply Forall_impl; [|exact Hwf]. cbv zeta. intros rm [extra [H1 [H2 [H3 [H4 [H5 H6]]]]]].
  exists extra. repeat split; try assumption; try (right; exact H4).
  - apply (H5 a H).
  - apply (H5 a H).
  - destruct (H5 a H) as [_ [_ H0]]. cbn [ext_name]. unfold benv. rewrite H0. cbn. lia.
Qed.
Print Assumptions dynamics_collapse_model_Z.

(** per-occurrence form (after fixes/C05-homodimer.diff): no guard on repeated substrates, labelled bystanders allowed *)
Theorem dynamics_collapse_model_pos_Z :
  forall (lv : label_vars) (rms : list (brxn * list Z)) (env : lname -> Z) (irs : list (list lrxn)) (c : N),
    Forall (fun rm =>
              let r := fst rm in
              let bs := subs_of (r_stoich r) in let bp := prods_of (r_stoich r) in
              exists extra : list N,
                r_fn r = FProd /\ Permutation (r_args r) (bs ++ extra) /\ NoDup (map fst (r_stoich r)) /\
                (forall a, In a extra -> ~ In a bs /\ ~ In a bp /\ env (bystander_name lv a) = totalZ lv env a) /\
                total (labels_per lv bp) <= length (snd rm)) rms ->
    collect (map (fun rm => create_iso_rxns true ReplPositional lv (fst rm) (snd rm)) rms) = Ok irs ->
    sumZ (map (fun bits => derivZ env (concat irs) (iso_name c bits)) (all_patterns (nlab lv c)))
    = sumZ (map (fun rm => ((match getN c (r_stoich (fst rm)) with Some v => v | None => 0 end)
                            * prodZ (map (totalZ lv env) (r_args (fst rm))))%Z) rms).
Proof.
  intros lv rms env irs c Hwf Hi.
  refine (dynamics_collapse_model Z 0%Z 1%Z Z.add Z.mul Z.sub Z.opp idZ idZ Zth eq_refl eq_refl
           (fun _ _ => eq_refl) (fun _ => eq_refl) true ReplPositional lv rms env irs c _ Hi).
  eapply Forall_impl; [|exact Hwf]. cbv zeta. intros rm [extra [H1 [H2 [H3 [H5 H6]]]]].
  exists extra. repeat split; try assumption; try (left; reflexivity); apply (H5 a H).
Qed.
Print Assumptions dynamics_collapse_model_pos_Z.
