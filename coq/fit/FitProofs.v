(** C20 -- proofs about the fit plumbing model (FitModel.v), for EVERY numeric carrier, every
    settings object, every minimiser (strategy tree) and every history of candidate evaluations. *)
From Coq Require Import List ZArith NArith QArith Bool Lia.
From MxlBase Require Import ListX.
From Fit Require Import LossOps FitModel.
Import ListNotations.

Ltac dm := match goal with
  | |- context [match ?x with _ => _ end] => destruct x eqn:?
  | |- context [if ?x then _ else _] => destruct x eqn:?
  end.

(** ** association lists that agree outside a set of written names *)
Definition agree {A} (W : list name) (l l0 : list (name * A)) : Prop :=
  Forall2 (fun a b => fst a = fst b /\ (memN (fst a) W = false -> snd a = snd b)) l l0.
Definition minus (W ns : list name) : list name := filter (fun k => negb (memN k ns)) W.

Lemma agree_refl {A} W (l : list (name * A)) : agree W l l.
Proof. induction l; constructor; auto. Qed.
Lemma agree_sym {A} W (l l0 : list (name * A)) : agree W l l0 -> agree W l0 l.
Proof.
  induction 1 as [|a b l l0 [Hk Hv] _ IH]; constructor; auto.
  split; [symmetry; exact Hk|]. intros Hm. symmetry. apply Hv. rewrite Hk. exact Hm.
Qed.
Lemma agree_trans {A} W (l1 l2 l3 : list (name * A)) : agree W l1 l2 -> agree W l2 l3 -> agree W l1 l3.
Proof.
  intros H; revert l3; induction H as [|a b l l0 [Hk Hv] _ IH]; intros l3 H3; inversion H3 as [|b' c l0' l3' Hbc H3']; subst; constructor.
  - destruct Hbc as [Hk' Hv']. split; [rewrite Hk; exact Hk'|]. intros Hm. rewrite Hv by exact Hm. apply Hv'. rewrite <- Hk. exact Hm.
  - apply IH. exact H3'.
Qed.
Lemma agree_keys {A} W (l l0 : list (name * A)) : agree W l l0 -> keys l = keys l0.
Proof. induction 1 as [|a b l l0 [Hk _] _ IH]; unfold keys in *; cbn [map]; [reflexivity|]. f_equal; assumption. Qed.
Lemma agree_weaken {A} W W' (l l0 : list (name * A)) :
  (forall k, memN k W' = false -> memN k W = false) -> agree W l l0 -> agree W' l l0.
Proof.
  intros HW. induction 1 as [|a b l l0 [Hk Hv] _ IH]; constructor; auto.
Qed.
Lemma agree_none_eq {A} W (l l0 : list (name * A)) : (forall k, memN k W = false) -> agree W l l0 -> l = l0.
Proof.
  intros HW. induction 1 as [|a b l l0 [Hk Hv] _ IH]; [reflexivity|]. f_equal; [|exact IH].
  destruct a, b; simpl in *. f_equal; [exact Hk | apply Hv, HW].
Qed.

Lemma memN_minus k W ns : memN k (minus W ns) = memN k W && negb (memN k ns).
Proof.
  unfold minus. induction W as [|w W IH]; simpl; [reflexivity|].
  destruct (memN w ns) eqn:Hw; simpl.
  - rewrite IH. destruct (N.eqb_spec k w) as [->|Hne]; simpl; [rewrite Hw; simpl; destruct (memN w W); reflexivity | reflexivity].
  - rewrite IH. destruct (N.eqb_spec k w) as [->|Hne]; simpl; [rewrite Hw; reflexivity | reflexivity].
Qed.

Lemma agree_set {A} W n (v : A) l l0 :
  agree W l l0 -> agree (minus W [n]) (set_key n v l) (set_key n v l0).
Proof.
  induction 1 as [|a b l l0 [Hk Hv] _ IH]; simpl; constructor; auto.
  destruct (N.eqb_spec (fst a) n) as [He|Hne]; destruct (N.eqb_spec (fst b) n) as [He'|Hne']; simpl.
  - split; [exact Hk | reflexivity].
  - exfalso. apply Hne'. rewrite <- Hk. exact He.
  - exfalso. apply Hne. rewrite Hk. exact He'.
  - split; [exact Hk|]. intros Hm. apply Hv. rewrite memN_minus in Hm. simpl in Hm.
    destruct (N.eqb_spec (fst a) n); [contradiction|]. simpl in Hm. rewrite andb_true_r in Hm. exact Hm.
Qed.
Lemma set_key_touches {A} n (v : A) l : agree [n] (set_key n v l) l.
Proof.
  induction l as [|a l IH]; simpl; constructor; auto.
  match goal with |- context [N.eqb ?x ?y] => destruct (N.eqb x y) eqn:He end; simpl.
  - split; [reflexivity|]. intros Hm. rewrite He in Hm. discriminate.
  - split; reflexivity.
Qed.
Lemma keys_set_key {A} n (v : A) l : keys (set_key n v l) = keys l.
Proof. unfold keys, set_key. rewrite map_map. apply map_ext. intros a. match goal with |- context [N.eqb ?x ?y] => destruct (N.eqb x y) end; reflexivity. Qed.

(** same outcome (error or not) from agreeing containers; the written names stop mattering *)
Lemma seq_update_agree {A} ns (f : name -> option A) : forall W l l0 l' e,
  agree W l l0 -> seq_update ns f l = (l', e) ->
  exists l0', seq_update ns f l0 = (l0', e) /\ agree (match e with None => minus W ns | Some _ => W end) l' l0'.
Proof.
  induction ns as [|n ns IH]; intros W l l0 l' e Hag Hs; simpl in *.
  - inversion Hs; subst. exists l0. split; [reflexivity|].
    eapply agree_weaken; [|exact Hag]. intros k Hk. rewrite memN_minus in Hk. simpl in Hk. rewrite andb_true_r in Hk. exact Hk.
  - destruct (f n) as [v|].
    + rewrite <- (agree_keys _ _ _ Hag). destruct (memN n (keys l)) eqn:Hm.
      * destruct (IH _ _ _ _ _ (agree_set W n v _ _ Hag) Hs) as [l0' [Hs0 Hag']]. exists l0'. split; [exact Hs0|].
        destruct e.
        -- eapply agree_weaken; [|exact Hag']. intros k Hk. rewrite memN_minus. rewrite Hk. reflexivity.
        -- eapply agree_weaken; [|exact Hag']. intros k Hk. rewrite !memN_minus in *. simpl in *.
           destruct (memN k W); simpl in *; [|reflexivity]. rewrite orb_false_r.
           destruct (N.eqb k n); simpl in *; [reflexivity|]. exact Hk.
      * inversion Hs; subst. exists l0. split; [reflexivity | exact Hag].
    + inversion Hs; subst. exists l0. split; [reflexivity | exact Hag].
Qed.

Lemma seq_update_touches {A} ns (f : name -> option A) : forall l l' e,
  seq_update ns f l = (l', e) -> agree ns l' l.
Proof.
  induction ns as [|n ns IH]; intros l l' e Hs; simpl in *.
  - inversion Hs; subst. apply agree_refl.
  - destruct (f n) as [v|]; [|inversion Hs; subst; apply agree_refl].
    destruct (memN n (keys l)); [|inversion Hs; subst; apply agree_refl].
    apply IH in Hs. eapply agree_trans.
    + eapply agree_weaken; [|exact Hs]. intros k Hk. simpl in Hk. apply orb_false_iff in Hk. tauto.
    + eapply agree_weaken; [|apply set_key_touches]. intros k Hk. simpl in *. apply orb_false_iff in Hk.
      rewrite orb_false_r. tauto.
Qed.

(** the batch editors: same statements as for the plain fold, for every shape of the editor *)
Lemma batch_update_agree {A} mode ns (f : name -> option A) : forall W l l0 l' e,
  agree W l l0 -> batch_update mode ns f l = (l', e) ->
  exists l0', batch_update mode ns f l0 = (l0', e) /\ agree (match e with None => minus W ns | Some _ => W end) l' l0'.
Proof.
  intros W l l0 l' e Hag Hs. destruct mode; simpl in *.
  - eapply seq_update_agree; eauto.
  - rewrite <- (agree_keys _ _ _ Hag). destruct (forallb (fun n => memN n (keys l)) ns).
    + eapply seq_update_agree; eauto.
    + inversion Hs; subst. exists l0. split; [reflexivity | exact Hag].
  - inversion Hs; subst. exists l0. split; [reflexivity | exact Hag].
Qed.
Lemma batch_update_touches {A} mode ns (f : name -> option A) : forall l l' e,
  batch_update mode ns f l = (l', e) -> agree ns l' l.
Proof.
  intros l l' e Hs. destruct mode; simpl in *.
  - eapply seq_update_touches; eauto.
  - destruct (forallb (fun n => memN n (keys l)) ns); [eapply seq_update_touches; eauto | inversion Hs; subst; apply agree_refl].
  - inversion Hs; subst. apply agree_refl.
Qed.

(** a validated batch edit is all-or-nothing: when every value is defined, an error means nothing was written *)
Lemma seq_update_ok {A} ns (f : name -> option A) : forall l,
  (forall n, In n ns -> f n <> None) -> forallb (fun n => memN n (keys l)) ns = true ->
  snd (seq_update ns f l) = None.
Proof.
  induction ns as [|n ns IH]; intros l Hf Hk; simpl in *; [reflexivity|].
  apply andb_true_iff in Hk. destruct Hk as [Hn Hk].
  destruct (f n) as [v|] eqn:E; [|exfalso; apply (Hf n); auto].
  rewrite Hn. apply IH; [intros m Hm; apply Hf; auto | rewrite keys_set_key; exact Hk].
Qed.
Lemma batch_validated_all_or_nothing {A} ns (f : name -> option A) l l' e :
  (forall n, In n ns -> f n <> None) ->
  batch_update BatchValidated ns f l = (l', Some e) -> l' = l.
Proof.
  intros Hf Hs. simpl in Hs. destruct (forallb (fun n => memN n (keys l)) ns) eqn:Hk.
  - pose proof (seq_update_ok ns f l Hf Hk) as H. rewrite Hs in H. discriminate.
  - inversion Hs; reflexivity.
Qed.
Lemma lookup_keys_some {A} (l : list (name * A)) n : In n (keys l) -> lookup n l <> None.
Proof.
  induction l as [|[k v] r IH]; simpl; [contradiction|]. intros [->|H].
  - rewrite N.eqb_refl. discriminate.
  - destruct (N.eqb n k); [discriminate | apply IH; exact H].
Qed.

Section Proofs.
  Context {T : Type} (O : num_ops T) (ff : fit_facts).
  Notation mstate := (mstate (T:=T)).
  Notation settings := (settings (T:=T)).

  Definition agree_st (Wp Wv : list name) (st st0 : mstate) : Prop :=
    agree Wp (ms_pars st) (ms_pars st0) /\ agree Wv (ms_vars st) (ms_vars st0).

  Lemma agree_st_refl Wp Wv st : agree_st Wp Wv st st.
  Proof. split; apply agree_refl. Qed.
  Lemma agree_st_trans Wp Wv a b c : agree_st Wp Wv a b -> agree_st Wp Wv b c -> agree_st Wp Wv a c.
  Proof. intros [H1 H2] [H3 H4]. split; eapply agree_trans; eauto. Qed.
  Lemma agree_st_weaken Wp Wv Wp' Wv' a b :
    (forall k, memN k Wp' = false -> memN k Wp = false) -> (forall k, memN k Wv' = false -> memN k Wv = false) ->
    agree_st Wp Wv a b -> agree_st Wp' Wv' a b.
  Proof. intros H1 H2 [H3 H4]. split; eapply agree_weaken; eauto. Qed.

  (** names written by one update phase *)
  Definition wp_phase (S : settings) (ph : upd_phase) : list name :=
    match ph with UpdPars => s_p_names S | _ => [] end.
  Definition wv_phase (S : settings) (ph : upd_phase) : list name :=
    match ph with
    | UpdY0 => match s_y0 S with Some y0 => keys y0 | None => [] end
    | UpdVars => s_v_names S
    | UpdPars => []
    end.

  Lemma minus_nil W k : memN k (minus W []) = memN k W.
  Proof. rewrite memN_minus. simpl. apply andb_true_r. Qed.

  Lemma apply_phase_agree S u ph Wp Wv st st0 st1 e :
    agree_st Wp Wv st st0 -> apply_phase ff S u ph st = (st1, e) ->
    exists st01, apply_phase ff S u ph st0 = (st01, e) /\
                 match e with
                 | None => agree_st (minus Wp (wp_phase S ph)) (minus Wv (wv_phase S ph)) st1 st01
                 | Some _ => agree_st Wp Wv st1 st01
                 end.
  Proof.
    intros [Hp Hv] Ha. destruct ph; simpl in *.
    - destruct (s_y0 S) as [y0|].
      + destruct (batch_update (ff_batch_vars ff) (keys y0) (fun n => lookup n y0) (ms_vars st)) as [v e'] eqn:Hs. inversion Ha; subst.
        destruct (batch_update_agree _ _ _ Wv _ _ _ _ Hv Hs) as [v0 [Hs0 Hag]]. rewrite Hs0. eexists. split; [reflexivity|].
        destruct e; split; simpl; auto. eapply agree_weaken; [|exact Hp]. intros k; rewrite minus_nil; auto.
      + inversion Ha; subst. exists st0. split; [reflexivity|]. split; simpl; (eapply agree_weaken; [|eassumption]); intros k; rewrite minus_nil; auto.
    - destruct (seq_update (s_p_names S) (fun n => lookup n u) (ms_pars st)) as [p e'] eqn:Hs. inversion Ha; subst.
      destruct (seq_update_agree _ _ Wp _ _ _ _ Hp Hs) as [p0 [Hs0 Hag]]. rewrite Hs0. eexists. split; [reflexivity|].
      destruct e; split; simpl; auto. eapply agree_weaken; [|exact Hv]. intros k; rewrite minus_nil; auto.
    - destruct (seq_update (s_v_names S) (fun n => lookup n u) (ms_vars st)) as [v e'] eqn:Hs. inversion Ha; subst.
      destruct (seq_update_agree _ _ Wv _ _ _ _ Hv Hs) as [v0 [Hs0 Hag]]. rewrite Hs0. eexists. split; [reflexivity|].
      destruct e; split; simpl; auto. eapply agree_weaken; [|exact Hp]. intros k; rewrite minus_nil; auto.
  Qed.

  Lemma apply_phase_touches S u ph st st1 e :
    apply_phase ff S u ph st = (st1, e) -> agree_st (wp_phase S ph) (wv_phase S ph) st1 st.
  Proof.
    intros Ha. destruct ph; simpl in *.
    - destruct (s_y0 S) as [y0|].
      + destruct (batch_update (ff_batch_vars ff) (keys y0) _ (ms_vars st)) as [v e'] eqn:Hs. inversion Ha; subst. split; simpl; [apply agree_refl|].
        eapply batch_update_touches; eauto.
      + inversion Ha; subst. apply agree_st_refl.
    - destruct (seq_update (s_p_names S) _ (ms_pars st)) as [p e'] eqn:Hs. inversion Ha; subst. split; simpl; [|apply agree_refl].
      eapply seq_update_touches; eauto.
    - destruct (seq_update (s_v_names S) _ (ms_vars st)) as [v e'] eqn:Hs. inversion Ha; subst. split; simpl; [apply agree_refl|].
      eapply seq_update_touches; eauto.
  Qed.

  Definition wp_phases S phs := flat_map (wp_phase S) phs.
  Definition wv_phases S phs := flat_map (wv_phase S) phs.

  Lemma memN_app k a b : memN k (a ++ b) = memN k a || memN k b.
  Proof. unfold memN. apply existsb_app. Qed.

  Lemma apply_phases_agree S u phs : forall Wp Wv st st0 st1 e,
    agree_st Wp Wv st st0 -> apply_phases ff S u phs st = (st1, e) ->
    exists st01, apply_phases ff S u phs st0 = (st01, e) /\
                 match e with
                 | None => agree_st (minus Wp (wp_phases S phs)) (minus Wv (wv_phases S phs)) st1 st01
                 | Some _ => agree_st Wp Wv st1 st01
                 end.
  Proof.
    induction phs as [|ph phs IH]; intros Wp Wv st st0 st1 e Hag Ha; simpl in *.
    - inversion Ha; subst. exists st0. split; [reflexivity|].
      eapply agree_st_weaken; [| |exact Hag]; intros k; rewrite minus_nil; auto.
    - destruct (apply_phase ff S u ph st) as [st' [e'|]] eqn:Hph.
      + inversion Ha; subst. destruct (apply_phase_agree _ _ _ _ _ _ _ _ _ Hag Hph) as [st0' [H0 Hag']].
        rewrite H0. exists st0'. split; [reflexivity | exact Hag'].
      + destruct (apply_phase_agree _ _ _ _ _ _ _ _ _ Hag Hph) as [st0' [H0 Hag']]. rewrite H0.
        destruct (IH _ _ _ _ _ _ Hag' Ha) as [st01 [H1 Hag1]]. exists st01. split; [exact H1|].
        destruct e.
        * eapply agree_st_weaken; [| |exact Hag1]; intros k Hk; rewrite memN_minus, Hk; reflexivity.
        * eapply agree_st_weaken; [| |exact Hag1]; intros k Hk; rewrite !memN_minus in *;
            unfold wp_phases, wv_phases in *; simpl in Hk; rewrite memN_app, negb_orb in Hk; rewrite <- andb_assoc; exact Hk.
  Qed.

  Lemma apply_phases_touches S u phs : forall st st1 e,
    apply_phases ff S u phs st = (st1, e) -> agree_st (wp_phases S phs) (wv_phases S phs) st1 st.
  Proof.
    induction phs as [|ph phs IH]; intros st st1 e Ha; simpl in *.
    - inversion Ha; subst. apply agree_st_refl.
    - destruct (apply_phase ff S u ph st) as [st' [e'|]] eqn:Hph.
      + inversion Ha; subst. apply apply_phase_touches in Hph.
        eapply agree_st_weaken; [| |exact Hph]; intros k Hk; unfold wp_phases, wv_phases in Hk; simpl in Hk;
          rewrite memN_app in Hk; apply orb_false_iff in Hk; tauto.
      + apply IH in Ha. apply apply_phase_touches in Hph. eapply agree_st_trans.
        * eapply agree_st_weaken; [| |exact Ha]; intros k Hk; unfold wp_phases, wv_phases in Hk; simpl in Hk;
            rewrite memN_app in Hk; apply orb_false_iff in Hk; tauto.
        * eapply agree_st_weaken; [| |exact Hph]; intros k Hk; unfold wp_phases, wv_phases in Hk; simpl in Hk;
            rewrite memN_app in Hk; apply orb_false_iff in Hk; tauto.
  Qed.

  (** *** the simulations: steady state and time course do not write; the protocol writes its own columns *)
  Lemma sim_steady_state S st : fst (sim_steady O S st) = st.
  Proof. unfold sim_steady. repeat (reflexivity || dm). Qed.
  Lemma sim_tc_state S st : fst (sim_time_course O S st) = st.
  Proof. unfold sim_time_course. repeat (reflexivity || dm). Qed.

  Ltac dmh H := match type of H with
    | context [match ?x with _ => _ end] => destruct x eqn:?
    | context [if ?x then _ else _] => destruct x eqn:?
    end.

  Lemma memN_minus_self W k : memN k (minus W W) = false.
  Proof. rewrite memN_minus. destruct (memN k W); reflexivity. Qed.

  Lemma proto_steps_touches S : forall steps full st t y acc st' out,
    proto_steps O ff S steps full st t y acc = (st', out) ->
    agree (s_proto_names S) (ms_pars st') (ms_pars st) /\ ms_vars st' = ms_vars st.
  Proof.
    induction steps as [|[t_end vals] r IH]; intros full st t y acc st' out H; simpl in H.
    - inversion H; subst. split; [apply agree_refl | reflexivity].
    - destruct (batch_update (ff_batch_pars ff) (s_proto_names S) (fun n => lookup n (combine (s_proto_names S) vals)) (ms_pars st)) as [p e] eqn:Hs.
      apply batch_update_touches in Hs.
      repeat dmh H;
        first [ inversion H; subst; simpl; split; [exact Hs | reflexivity]
              | apply IH in H; destruct H as [H1 H2]; simpl in *; split; [eapply agree_trans; [exact H1 | exact Hs] | exact H2] ].
  Qed.

  Lemma proto_steps_agree S steps full st st0 t y acc st' out :
    agree (s_proto_names S) (ms_pars st) (ms_pars st0) -> ms_vars st = ms_vars st0 ->
    proto_steps O ff S steps full st t y acc = (st', out) ->
    exists st0', proto_steps O ff S steps full st0 t y acc = (st0', out) /\
                 agree (s_proto_names S) (ms_pars st') (ms_pars st0') /\ ms_vars st' = ms_vars st0'.
  Proof.
    intros Hp Hv H. destruct steps as [|[t_end vals] r]; simpl in *.
    - inversion H; subst. exists st0. repeat split; assumption.
    - destruct (batch_update (ff_batch_pars ff) (s_proto_names S) (fun n => lookup n (combine (s_proto_names S) vals)) (ms_pars st)) as [p e] eqn:Hs.
      destruct (batch_update_agree _ _ _ _ _ _ _ _ Hp Hs) as [p0 [Hs0 Hag]]. rewrite Hs0. rewrite <- Hv.
      destruct e as [e|].
      + inversion H; subst. eexists. split; [reflexivity|]. simpl. split; [exact Hag | reflexivity].
      + assert (p = p0) as <- by (eapply agree_none_eq; [|exact Hag]; apply memN_minus_self).
        eexists. split; [exact H|]. split; [apply agree_refl | reflexivity].
  Qed.

  Definition proto_w (k : fit_kind) (S : settings) : list name :=
    match k with KProtocol => s_proto_names S | _ => [] end.

  Lemma mstate_eq (a b : mstate) : ms_pars a = ms_pars b -> ms_vars a = ms_vars b -> a = b.
  Proof. destruct a, b; simpl; intros; subst; reflexivity. Qed.

  Lemma simulate_agree k S st st0 st' out :
    agree (proto_w k S) (ms_pars st) (ms_pars st0) -> ms_vars st = ms_vars st0 ->
    simulate O ff k S st = (st', out) ->
    exists st0', simulate O ff k S st0 = (st0', out) /\
                 agree (proto_w k S) (ms_pars st') (ms_pars st0') /\ ms_vars st' = ms_vars st0'.
  Proof.
    intros Hp Hv H. destruct k; simpl in *.
    - assert (st = st0) as <- by (apply mstate_eq; [eapply agree_none_eq; [|exact Hp]; reflexivity | exact Hv]).
      exists st'. split; [exact H|]. split; [apply agree_refl | reflexivity].
    - assert (st = st0) as <- by (apply mstate_eq; [eapply agree_none_eq; [|exact Hp]; reflexivity | exact Hv]).
      exists st'. split; [exact H|]. split; [apply agree_refl | reflexivity].
    - unfold sim_protocol in *. rewrite <- Hv.
      repeat dmh H;
        first [ inversion H; subst; eexists; split; [reflexivity|]; split; assumption
              | eapply proto_steps_agree; eassumption ].
  Qed.

  Lemma simulate_touches k S st st' out :
    simulate O ff k S st = (st', out) -> agree (proto_w k S) (ms_pars st') (ms_pars st) /\ ms_vars st' = ms_vars st.
  Proof.
    intros H. destruct k; simpl in *.
    - pose proof (sim_steady_state S st) as E. rewrite H in E. simpl in E. subst. split; [apply agree_refl | reflexivity].
    - pose proof (sim_tc_state S st) as E. rewrite H in E. simpl in E. subst. split; [apply agree_refl | reflexivity].
    - unfold sim_protocol in H.
      repeat dmh H;
        first [ inversion H; subst; split; [apply agree_refl | reflexivity]
              | eapply proto_steps_touches; eassumption ].
  Qed.

  (** *** one residual call *)
  Section Step.
    Variable k : fit_kind.
    Variable S : settings.
    Let order := rf_order (res_facts ff k).
    Definition Wp : list name := wp_phases S order ++ proto_w k S.
    Definition Wv : list name := wv_phases S order.
    Definition step := residual_step O ff k S.

    Lemma weaken_proto kk : memN kk (proto_w k S) = false -> memN kk (minus Wp (wp_phases S order)) = false.
    Proof.
      intros H. rewrite memN_minus. unfold Wp. rewrite memN_app, H, orb_false_r.
      destruct (memN kk (wp_phases S order)); reflexivity.
    Qed.
    Lemma weaken_Wp_proto kk : memN kk Wp = false -> memN kk (proto_w k S) = false.
    Proof. unfold Wp. rewrite memN_app. intros H. apply orb_false_iff in H. tauto. Qed.
    Lemma weaken_Wp_phases kk : memN kk Wp = false -> memN kk (wp_phases S order) = false.
    Proof. unfold Wp. rewrite memN_app. intros H. apply orb_false_iff in H. tauto. Qed.

    (** two models that agree outside the written names give the SAME residual, and still agree *)
    Lemma step_agree st st0 u st' l :
      agree_st Wp Wv st st0 -> step st u = (st', l) ->
      exists st0', step st0 u = (st0', l) /\ agree_st Wp Wv st' st0'.
    Proof.
      intros Hag H. unfold step, residual_step in *. fold order in H |- *.
      destruct (apply_phases ff S u order st) as [st1 e] eqn:Hph.
      destruct (apply_phases_agree S u order _ _ _ _ _ _ Hag Hph) as [st01 [H0 Hag1]]. rewrite H0.
      destruct e as [e|].
      - inversion H; subst. exists st01. split; [reflexivity | exact Hag1].
      - destruct (simulate O ff k S st1) as [st2 out] eqn:Hsim. inversion H; subst.
        destruct Hag1 as [Hp1 Hv1].
        assert (Hv1' : ms_vars st1 = ms_vars st01) by (eapply agree_none_eq; [|exact Hv1]; apply memN_minus_self).
        assert (Hp1' : agree (proto_w k S) (ms_pars st1) (ms_pars st01))
          by (eapply agree_weaken; [|exact Hp1]; apply weaken_proto).
        destruct (simulate_agree _ _ _ _ _ _ Hp1' Hv1' Hsim) as [st02 [Hs0 [Hp2 Hv2]]]. rewrite Hs0.
        exists st02. split; [reflexivity|]. split.
        + eapply agree_weaken; [|exact Hp2]. apply weaken_Wp_proto.
        + rewrite Hv2. apply agree_refl.
    Qed.

    (** a residual call writes only the written names *)
    Lemma step_touches st u st' l : step st u = (st', l) -> agree_st Wp Wv st' st.
    Proof.
      intros H. unfold step, residual_step in *. fold order in H.
      destruct (apply_phases ff S u order st) as [st1 e] eqn:Hph. apply apply_phases_touches in Hph.
      assert (Hph' : agree_st Wp Wv st1 st)
        by (eapply agree_st_weaken; [| |exact Hph]; [apply weaken_Wp_phases | auto]).
      destruct e as [e|]; [inversion H; subst; exact Hph'|].
      destruct (simulate O ff k S st1) as [st2 out] eqn:Hsim. inversion H; subst.
      apply simulate_touches in Hsim. destruct Hsim as [Hp Hv]. eapply agree_st_trans; [|exact Hph'].
      split; [eapply agree_weaken; [|exact Hp]; apply weaken_Wp_proto | rewrite Hv; apply agree_refl].
    Qed.

    Definition after_history (st0 : mstate) (us : list (list (name * T))) : mstate :=
      fold_left (fun st u => fst (step st u)) us st0.

    Lemma after_history_agree st0 us : agree_st Wp Wv (after_history st0 us) st0.
    Proof.
      unfold after_history. rewrite <- fold_left_rev_right. induction (rev us) as [|u r IH]; simpl; [apply agree_st_refl|].
      destruct (step (fold_right (fun y x => fst (step x y)) st0 r) u) as [st' l] eqn:Hs. simpl.
      eapply agree_st_trans; [eapply step_touches; exact Hs | exact IH].
    Qed.

    (** T1: whatever candidates were evaluated before on the shared settings object, the residual
        at [u] is the residual a pristine model gives at [u] *)
    Lemma residual_history_independent st0 us u :
      snd (step (after_history st0 us) u) = snd (step st0 u).
    Proof.
      destruct (step (after_history st0 us) u) as [st' l] eqn:Hs.
      destruct (step_agree _ _ _ _ _ (after_history_agree st0 us) Hs) as [st0' [H0 _]]. rewrite H0. reflexivity.
    Qed.

    (** *** minimisers *)
    Notation strat := (strat (T:=T)).
    Fixpoint honest (seen : list (list (name * T) * rloss (T:=T))) (s : strat) : Prop :=
      match s with
      | Done None => True
      | Raise _ => True
      | Done (Some (x, v)) => In (x, RVal v) seen
      | Ask u kont => forall l, honest ((u, l) :: seen) (kont l)
      end.

    Lemma run_honest st0 : forall (s : strat) seen st st' x v,
      agree_st Wp Wv st st0 ->
      (forall u l, In (u, l) seen -> snd (step st0 u) = l) ->
      honest seen s ->
      run_strat step s st = (st', RunDone (Some (x, v))) ->
      snd (step st0 x) = RVal v.
    Proof.
      induction s as [u kont IH|r|e]; intros seen st st' x v Hag Hseen Hh Hr; simpl in *.
      - destruct (step st u) as [st1 l] eqn:Hs.
        destruct (step_agree _ _ _ _ _ Hag Hs) as [st01 [H0 _]].
        assert (Hag1 : agree_st Wp Wv st1 st0) by (eapply agree_st_trans; [eapply step_touches; exact Hs | exact Hag]).
        assert (Hseen' : forall u' l', In (u', l') ((u, l) :: seen) -> snd (step st0 u') = l').
        { intros u' l' [Hin|Hin]; [inversion Hin; subst; rewrite H0; reflexivity | apply Hseen; exact Hin]. }
        destruct l; try discriminate; eapply IH; eauto.
      - inversion Hr; subst. simpl in Hh. apply Hseen. exact Hh.
      - discriminate.
    Qed.

    Fixpoint leaves_le (le : T -> T -> Prop) (b : T) (s : strat) : Prop :=
      match s with
      | Done (Some (_, v)) => le v b
      | Done None => True
      | Raise _ => True
      | Ask u kont => forall l, leaves_le le b (kont l)
      end.
    Lemma run_leaves_le le b : forall (s : strat) st st' x v,
      leaves_le le b s -> run_strat step s st = (st', RunDone (Some (x, v))) -> le v b.
    Proof.
      induction s as [u kont IH|r|e]; intros st st' x v Hl Hr; simpl in *.
      - destruct (step st u) as [st1 l]. destruct l; try discriminate; eapply IH; eauto.
      - inversion Hr; subst. exact Hl.
      - discriminate.
    Qed.
  End Step.

  (** *** leaves of a strategy tree: whatever a run answers is one of the tree's answers *)
  Fixpoint leaves_sat (P : list (name * T) -> T -> Prop) (s : strat (T:=T)) : Prop :=
    match s with
    | Done (Some (x, v)) => P x v
    | Done None => True
    | Raise _ => True
    | Ask u kont => forall l, leaves_sat P (kont l)
    end.
  Lemma run_leaves_sat P stp : forall (s : strat (T:=T)) st st' x v,
    leaves_sat P s -> run_strat stp s st = (st', RunDone (Some (x, v))) -> P x v.
  Proof.
    induction s as [u kont IH|r|e]; intros st st' x v Hl Hr; simpl in *.
    - destruct (stp st u) as [st1 l]. destruct l; try discriminate; eapply IH; eauto.
    - inversion Hr; subst. exact Hl.
    - discriminate.
  Qed.
  Lemma leaves_le_sat le b (s : strat (T:=T)) : leaves_sat (fun _ v => le v b) s -> leaves_le le b s.
  Proof. induction s as [u kont IH|[[x v]|]|e]; simpl; auto. Qed.

  (** a run writes only the written names (any minimiser, any number of evaluations) *)
  Lemma run_touches k S : forall (s : strat (T:=T)) st st' r,
    run_strat (step k S) s st = (st', r) -> agree_st (Wp k S) (Wv k S) st' st.
  Proof.
    induction s as [u kont IH|r0|e]; intros st st' r Hr; simpl in *.
    - destruct (step k S st u) as [st1 l] eqn:Hs. apply step_touches in Hs.
      destruct l; try (inversion Hr; subst; exact Hs);
        (eapply agree_st_trans; [eapply IH; exact Hr | exact Hs]).
    - inversion Hr; subst. apply agree_st_refl.
    - inversion Hr; subst. apply agree_st_refl.
  Qed.

  (** *** the wrappers *)
  Lemma fit_ext k S copy caller p0 (mini mini' : list (name * T) -> strat (T:=T)) :
    mini p0 = mini' p0 -> fit O ff k S copy caller p0 mini = fit O ff k S copy caller p0 mini'.
  Proof. intros H. unfold fit. rewrite H. reflexivity. Qed.

  (** with nothing in front of the copy guard the wrapper is: run the minimiser on the caller's content *)
  Lemma fit_unfold k S copy caller p0 (mini : list (name * T) -> strat (T:=T)) :
    wf_pre_copy (wr_facts ff k) = [] ->
    fit O ff k S copy caller p0 mini =
    (let '(st', r) := run_strat (residual_step O ff k (route S caller p0)) (mini p0) caller in
     (if wf_copy_guard (wr_facts ff k) && match copy with Some b => b | None => wf_copy_default (wr_facts ff k) end
      then caller else st',
      match r with
      | RunDone (Some (x, v)) => FitOk st' x v
      | RunDone None => FitFailed
      | RunRaised e => FitRaised e
      end)).
  Proof. intros Hpre. unfold fit. rewrite Hpre. reflexivity. Qed.

  Lemma fit_reported_loss k S copy caller p0 (mini : list (name * T) -> strat (T:=T)) after m x v :
    wf_pre_copy (wr_facts ff k) = [] ->
    honest [] (mini p0) ->
    fit O ff k S copy caller p0 mini = (after, FitOk m x v) ->
    snd (residual_step O ff k (route S caller p0) caller x) = RVal v.
  Proof.
    intros Hpre Hh Hf. rewrite (fit_unfold _ _ _ _ _ _ Hpre) in Hf.
    destruct (run_strat (residual_step O ff k (route S caller p0)) (mini p0) caller) as [st' r] eqn:Hr.
    destruct r as [[[x' v']|]|e]; inversion Hf; subst.
    eapply (run_honest k (route S caller p0) caller (mini p0) [] caller); eauto.
    - apply agree_st_refl.
    - intros u l [].
  Qed.

  Lemma fit_not_worse_than_start (le : T -> T -> Prop) k S copy caller p0 kont after m x v :
    wf_pre_copy (wr_facts ff k) = [] ->
    (forall b, leaves_le le b (kont (RVal b))) ->
    fit O ff k S copy caller p0 (fun p => Ask p kont) = (after, FitOk m x v) ->
    snd (residual_step O ff k (route S caller p0) caller p0) = RInf
    \/ exists b, snd (residual_step O ff k (route S caller p0) caller p0) = RVal b /\ le v b.
  Proof.
    intros Hpre Hl Hf. rewrite (fit_unfold _ _ _ _ _ _ Hpre) in Hf.
    destruct (run_strat (residual_step O ff k (route S caller p0)) (Ask p0 kont) caller) as [st' r] eqn:Hr.
    destruct r as [[[x' v']|]|e]; inversion Hf; subst. simpl in Hr.
    destruct (residual_step O ff k (route S caller p0) caller p0) as [st1 l] eqn:Hs. simpl.
    destruct l as [b| |e]; [right|left; reflexivity|discriminate].
    exists b. split; [reflexivity|]. eapply run_leaves_le; [apply Hl | exact Hr].
  Qed.

  Lemma fit_input_untouched k S copy caller p0 mini :
    wf_pre_copy (wr_facts ff k) = [] ->
    wf_copy_guard (wr_facts ff k) = true -> wf_copy_default (wr_facts ff k) = true ->
    copy = None \/ copy = Some true ->
    fst (fit O ff k S copy caller p0 mini) = caller.
  Proof.
    intros Hpre Hg Hd Hc. rewrite (fit_unfold _ _ _ _ _ _ Hpre). rewrite Hg.
    destruct (run_strat (residual_step O ff k (route S caller p0)) (mini p0) caller) as [st' r].
    destruct Hc as [->| ->]; simpl; [rewrite Hd|]; reflexivity.
  Qed.

  (** WITHOUT copying the caller's model is the minimiser's work model: it differs from what it was at
      most in the written names (routed parameters / variables, y0's variables, the protocol's columns) *)
  Lemma fit_touches k S caller p0 mini :
    wf_pre_copy (wr_facts ff k) = [] ->
    agree_st (Wp k (route S caller p0)) (Wv k (route S caller p0))
             (fst (fit O ff k S (Some false) caller p0 mini)) caller.
  Proof.
    intros Hpre. rewrite (fit_unfold _ _ _ _ _ _ Hpre). rewrite andb_false_r.
    destruct (run_strat (residual_step O ff k (route S caller p0)) (mini p0) caller) as [st' r] eqn:Hr.
    simpl. eapply run_touches. exact Hr.
  Qed.

  Lemma agree_lookup {A} W (l l0 : list (name * A)) n : agree W l l0 -> memN n W = false -> lookup n l = lookup n l0.
  Proof.
    induction 1 as [|a b l l0 [Hk Hv] _ IH]; intros Hm; [reflexivity|].
    destruct a as [ka va], b as [kb vb]; simpl in *. subst kb.
    destruct (N.eqb_spec n ka) as [->|Hne]; [rewrite (Hv Hm); reflexivity | apply IH; exact Hm].
  Qed.

  (** the residual is the loss between the data and the prediction at the candidate values *)
  Lemma residual_is_loss_of_prediction k S st u st1 st2 rows pred :
    apply_phases ff S u (rf_order (res_facts ff k)) st = (st1, None) ->
    simulate O ff k S st1 = (st2, SimRows rows) ->
    prediction (rf_select (res_facts ff k)) k S rows = inl (Some pred) ->
    ff_args_unscaled ff = DataFirst -> ff_args_scaled ff = DataFirst ->
    residual_step O ff k S st u =
      (st2, RVal (if s_scale S
                  then s_loss S (concat (scale_frame O (s_data S) (s_data S))) (concat (scale_frame O (s_data S) pred))
                  else s_loss S (concat (s_data S)) (concat pred))).
  Proof.
    intros Hph Hsim Hpred Hu Hs. unfold residual_step. rewrite Hph, Hsim. unfold score. rewrite Hpred.
    unfold settings_loss. rewrite Hu, Hs. destruct (s_scale S); reflexivity.
  Qed.

  (** LocalScipyMinimizer's packing keeps an honest positional optimiser honest *)
  Fixpoint vhonest (seen : list (list T * rloss (T:=T))) (s : vstrat (T:=T)) : Prop :=
    match s with
    | VDone ok x f => ok = true -> In (x, RVal f) seen
    | VAsk x kont => forall l, vhonest ((x, l) :: seen) (kont l)
    end.
  Lemma lift_honest names : forall (s : vstrat (T:=T)) seen,
    vhonest seen s ->
    honest (map (fun e => (combine names (fst e), snd e)) seen) (lift_vstrat names s).
  Proof.
    induction s as [x kont IH|ok x f]; intros seen Hv; simpl in *.
    - destruct (Nat.eqb (length x) (length names)); simpl; [|exact I].
      intros l. apply (IH l ((x, l) :: seen)). apply Hv.
    - destruct ok; simpl; [|exact I]. destruct (Nat.eqb (length x) (length names)); simpl; [|exact I].
      apply (in_map (fun e => (combine names (fst e), snd e)) seen (x, RVal f)). apply Hv. reflexivity.
  Qed.
  (** *** LocalScipyMinimizer: bounds are a function of the parameter NAME *)
  Fixpoint vleaves_sat (P : list T -> T -> Prop) (s : vstrat (T:=T)) : Prop :=
    match s with
    | VDone ok x f => ok = true -> P x f
    | VAsk x kont => forall l, vleaves_sat P (kont l)
    end.
  Lemma lift_leaves_sat names (P : list T -> T -> Prop) : forall (s : vstrat (T:=T)),
    vleaves_sat P s ->
    leaves_sat (fun u v => exists x, u = combine names x /\ P x v) (lift_vstrat names s).
  Proof.
    induction s as [x kont IH|ok x f]; intros Hv; simpl in *.
    - destruct (Nat.eqb (length x) (length names)); simpl; [|exact I]. intros l. apply IH, Hv.
    - destruct ok; simpl; [|exact I]. destruct (Nat.eqb (length x) (length names)); simpl; [|exact I].
      exists x. split; [reflexivity | apply Hv; reflexivity].
  Qed.

  Lemma in_combine_aligned (within : T * T -> T -> Prop) bounds : forall names x,
    Forall2 within (aligned_bounds O ff bounds names) x ->
    forall n v, In (n, v) (combine names x) -> within (bound_for O ff bounds n) v.
  Proof.
    induction names as [|m names IH]; intros x HF n v Hin; simpl in *; [contradiction|].
    inversion HF as [|b y bl x' Hb HF' E1 E2]; subst. simpl in Hin. destruct Hin as [E|Hin].
    - inversion E; subst. exact Hb.
    - eapply IH; eauto.
  Qed.

  (** every reported parameter lies within ITS OWN bounds (the user's interval for that name, else the
      default), for every positional optimiser that answers inside the box it was handed *)
  Lemma scipy_bounds_by_name (within : T * T -> T -> Prop) k S copy caller p0
        (scipy : list T -> list (T * T) -> vstrat (T:=T)) bounds after m best loss :
    (forall x0 bl, vleaves_sat (fun x _ => Forall2 within bl x) (scipy x0 bl)) ->
    fit O ff k S copy caller p0 (local_scipy_minimizer O ff scipy bounds) = (after, FitOk m best loss) ->
    forall n v, In (n, v) best -> within (bound_for O ff bounds n) v.
  Proof.
    intros Hbox Hf n v Hin. unfold fit in Hf.
    destruct (apply_phases ff (route S caller p0) p0 (wf_pre_copy (wr_facts ff k)) caller) as [c1 [e|]]; [discriminate|].
    destruct (run_strat (residual_step O ff k (route S caller p0)) (local_scipy_minimizer O ff scipy bounds p0) c1) as [st' r] eqn:Hr.
    destruct r as [[[x' v']|]|e]; inversion Hf; subst.
    unfold local_scipy_minimizer in Hr.
    destruct (ff_scipy_call ff && ff_scipy_pack ff && ff_pack_updates ff); [|simpl in Hr; discriminate].
    pose proof (run_leaves_sat _ _ _ _ _ _ _
                  (lift_leaves_sat (keys p0) _ _ (Hbox (map snd p0) (aligned_bounds O ff bounds (keys p0)))) Hr) as [x [-> HF]].
    eapply in_combine_aligned; eauto.
  Qed.

  Lemma combine_keys_vals (p0 : list (name * T)) : combine (keys p0) (map snd p0) = p0.
  Proof. induction p0 as [|[n v] r IH]; simpl; [reflexivity|]. f_equal. exact IH. Qed.

  (** a start that lies within the bounds of ITS OWN names is not moved by the projection into the box *)
  Lemma clip_start_kept (within : T * T -> T -> Prop) (clip1 : T * T -> T -> T) bounds (p0 : list (name * T)) :
    (forall b v, within b v -> clip1 b v = v) ->
    (forall n v, In (n, v) p0 -> within (bound_for O ff bounds n) v) ->
    clip_box clip1 (aligned_bounds O ff bounds (keys p0)) (map snd p0) = map snd p0.
  Proof.
    intros Hc. induction p0 as [|[n v] r IH]; intros Hin; simpl; [reflexivity|].
    unfold clip_box in *. simpl. f_equal.
    - apply Hc. apply Hin. left. reflexivity.
    - apply IH. intros n' v' H. apply Hin. right. exact H.
  Qed.

  Lemma lift_leaves_le names le b : forall (s : vstrat (T:=T)),
    vleaves_sat (fun _ f => le f b) s -> leaves_le le b (lift_vstrat names s).
  Proof.
    intros s Hv. apply leaves_le_sat. pose proof (lift_leaves_sat names _ s Hv) as H.
    revert H. generalize (lift_vstrat names s). induction s0 as [u kont IH|[[x v]|]|e]; simpl; auto.
    intros [x0 [_ H]]. exact H.
  Qed.

  (** never worse than the start THROUGH LocalScipyMinimizer: a box-constrained optimiser first evaluates the
      projection of x0 into the box it was handed and answers nothing worse than what it saw there; because
      the box is aligned with x0 BY NAME, a start within its own bounds is evaluated unmoved *)
  Lemma scipy_not_worse_than_start (le : T -> T -> Prop) (within : T * T -> T -> Prop) (clip1 : T * T -> T -> T)
        k S copy caller p0 bounds (vkont : list (T * T) -> rloss (T:=T) -> vstrat (T:=T)) after m best loss :
    wf_pre_copy (wr_facts ff k) = [] ->
    (forall b v, within b v -> clip1 b v = v) ->
    (forall n v, In (n, v) p0 -> within (bound_for O ff bounds n) v) ->
    (forall bl b, vleaves_sat (fun _ f => le f b) (vkont bl (RVal b))) ->
    fit O ff k S copy caller p0
        (local_scipy_minimizer O ff (fun x0 bl => VAsk (clip_box clip1 bl x0) (vkont bl)) bounds) = (after, FitOk m best loss) ->
    snd (residual_step O ff k (route S caller p0) caller p0) = RInf
    \/ exists b, snd (residual_step O ff k (route S caller p0) caller p0) = RVal b /\ le loss b.
  Proof.
    intros Hpre Hc Hin Hl Hf.
    set (bl := aligned_bounds O ff bounds (keys p0)) in *.
    assert (Hm : ff_scipy_call ff && ff_scipy_pack ff && ff_pack_updates ff = true).
    { destruct (ff_scipy_call ff && ff_scipy_pack ff && ff_pack_updates ff) eqn:E; [reflexivity|].
      rewrite (fit_unfold _ _ _ _ _ _ Hpre) in Hf. unfold local_scipy_minimizer in Hf. rewrite E in Hf. simpl in Hf. discriminate. }
    assert (Hmini : local_scipy_minimizer O ff (fun x0 bl => VAsk (clip_box clip1 bl x0) (vkont bl)) bounds p0
                    = Ask p0 (fun l => lift_vstrat (keys p0) (vkont bl l))).
    { unfold local_scipy_minimizer. rewrite Hm. fold bl. simpl.
      unfold bl. rewrite (clip_start_kept within clip1 bounds p0 Hc Hin).
      unfold keys at 1. rewrite !map_length, Nat.eqb_refl. rewrite combine_keys_vals. reflexivity. }
    rewrite (fit_ext k S copy caller p0 _ (fun p => Ask p (fun l => lift_vstrat (keys p0) (vkont bl l)))) in Hf by exact Hmini.
    eapply fit_not_worse_than_start; [exact Hpre | | exact Hf].
    intros b. apply lift_leaves_le. apply Hl.
  Qed.

  (** a rejected [update_variables(y0)] (validated batch editor) leaves the model as it was *)
  Lemma y0_rejected_changes_nothing (S : settings) (u : list (name * T)) (st st' : mstate) e :
    ff_batch_vars ff = BatchValidated -> apply_phase ff S u UpdY0 st = (st', Some e) -> st' = st.
  Proof.
    intros Hm Ha. simpl in Ha. rewrite Hm in Ha. destruct (s_y0 S) as [y0|]; [|discriminate].
    destruct (batch_update BatchValidated (keys y0) (fun n => lookup n y0) (ms_vars st)) as [v e'] eqn:Hs.
    inversion Ha; subst. apply batch_validated_all_or_nothing in Hs; [|intros n; apply lookup_keys_some].
    subst v. destruct st; reflexivity.
  Qed.
End Proofs.
