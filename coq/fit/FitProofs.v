(** C20 -- proofs about the fit plumbing model (FitModel.v), for EVERY numeric carrier, every
    settings object, every minimiser (strategy tree) and every history of candidate evaluations. *)
From Coq Require Import List ZArith NArith QArith Bool Lia.
From MxlBase Require Import ListX.
From Fit Require Import LossOps FitModel.
Import ListNotations.

Ltac dm := match goal with
  | |- context [match ?x with _ => _ end] => destruct x eqn:?
  | |- context [if ?x then _ else _] => destruct x eqn:?
  end.

(** ** association lists that agree outside a set of written names *)
Definition agree {A} (W : list name) (l l0 : list (name * A)) : Prop :=
  Forall2 (fun a b => fst a = fst b /\ (memN (fst a) W = false -> snd a = snd b)) l l0.
Definition minus (W ns : list name) : list name := filter (fun k => negb (memN k ns)) W.

Lemma agree_refl {A} W (l : list (name * A)) : agree W l l.
Proof. induction l; constructor; auto. Qed.
Lemma agree_sym {A} W (l l0 : list (name * A)) : agree W l l0 -> agree W l0 l.
Proof.
  induction 1 as [|a b l l0 [Hk Hv] _ IH]; constructor; auto.
  split; [symmetry; exact Hk|]. intros Hm. symmetry. apply Hv. rewrite Hk. exact Hm.
Qed.
Lemma agree_trans {A} W (l1 l2 l3 : list (name * A)) : agree W l1 l2 -> agree W l2 l3 -> agree W l1 l3.
Proof.
  intros H; revert l3; induction H as [|a b l l0 [Hk Hv] _ IH]; intros l3 H3; inversion H3 as [|b' c l0' l3' Hbc H3']; subst; constructor.
  - destruct Hbc as [Hk' Hv']. split; [rewrite Hk; exact Hk'|]. intros Hm. rewrite Hv by exact Hm. apply Hv'. rewrite <- Hk. exact Hm.
  - apply IH. exact H3'.
Qed.
Lemma agree_keys {A} W (l l0 : list (name * A)) : agree W l l0 -> keys l = keys l0.
Proof. induction 1 as [|a b l l0 [Hk _] _ IH]; unfold keys in *; cbn [map]; [reflexivity|]. f_equal; assumption. Qed.
Lemma agree_weaken {A} W W' (l l0 : list (name * A)) :
  (forall k, memN k W' = false -> memN k W = false) -> agree W l l0 -> agree W' l l0.
Proof.
  intros HW. induction 1 as [|a b l l0 [Hk Hv] _ IH]; constructor; auto.
Qed.
Lemma agree_none_eq {A} W (l l0 : list (name * A)) : (forall k, memN k W = false) -> agree W l l0 -> l = l0.
Proof.
  intros HW. induction 1 as [|a b l l0 [Hk Hv] _ IH]; [reflexivity|]. f_equal; [|exact IH].
  destruct a, b; simpl in *. f_equal; [exact Hk | apply Hv, HW].
Qed.

Lemma memN_minus k W ns : memN k (minus W ns) = memN k W && negb (memN k ns).
Proof.
  unfold minus. induction W as [|w W IH]; simpl; [reflexivity|].
  destruct (memN w ns) eqn:Hw; simpl.
  - rewrite IH. destruct (N.eqb_spec k w) as [->|Hne]; simpl; [rewrite Hw; simpl; destruct (memN w W); reflexivity | reflexivity].
  - rewrite IH. destruct (N.eqb_spec k w) as [->|Hne]; simpl; [rewrite Hw; reflexivity | reflexivity].
Qed.

Lemma agree_set {A} W n (v : A) l l0 :
  agree W l l0 -> agree (minus W [n]) (set_key n v l) (set_key n v l0).
Proof.
  induction 1 as [|a b l l0 [Hk Hv] _ IH]; simpl; constructor; auto.
  destruct (N.eqb_spec (fst a) n) as [He|Hne]; destruct (N.eqb_spec (fst b) n) as [He'|Hne']; simpl.
  - split; [exact Hk | reflexivity].
  - exfalso. apply Hne'. rewrite <- Hk. exact He.
  - exfalso. apply Hne. rewrite Hk. exact He'.
  - split; [exact Hk|]. intros Hm. apply Hv. rewrite memN_minus in Hm. simpl in Hm.
    destruct (N.eqb_spec (fst a) n); [contradiction|]. simpl in Hm. rewrite andb_true_r in Hm. exact Hm.
Qed.
Lemma set_key_touches {A} n (v : A) l : agree [n] (set_key n v l) l.
Proof.
  induction l as [|a l IH]; simpl; constructor; auto.
  match goal with |- context [N.eqb ?x ?y] => destruct (N.eqb x y) eqn:He end; simpl.
  - split; [reflexivity|]. intros Hm. rewrite He in Hm. discriminate.
  - split; reflexivity.
Qed.
Lemma keys_set_key {A} n (v : A) l : keys (set_key n v l) = keys l.
Proof. unfold keys, set_key. rewrite map_map. apply map_ext. intros a. match goal with |- context [N.eqb ?x ?y] => destruct (N.eqb x y) end; reflexivity. Qed.

(** same outcome (error or not) from agreeing containers; the written names stop mattering *)
Lemma seq_update_agree {A} ns (f : name -> option A) : forall W l l0 l' e,
  agree W l l0 -> seq_update ns f l = (l', e) ->
  exists l0', seq_update ns f l0 = (l0', e) /\ agree (match e with None => minus W ns | Some _ => W end) l' l0'.
Proof.
  induction ns as [|n ns IH]; intros W l l0 l' e Hag Hs; simpl in *.
  - inversion Hs; subst. exists l0. split; [reflexivity|].
    eapply agree_weaken; [|exact Hag]. intros k Hk. rewrite memN_minus in Hk. simpl in Hk. rewrite andb_true_r in Hk. exact Hk.
  - destruct (f n) as [v|].
    + rewrite <- (agree_keys _ _ _ Hag). destruct (memN n (keys l)) eqn:Hm.
      * destruct (IH _ _ _ _ _ (agree_set W n v _ _ Hag) Hs) as [l0' [Hs0 Hag']]. exists l0'. split; [exact Hs0|].
        destruct e.
        -- eapply agree_weaken; [|exact Hag']. intros k Hk. rewrite memN_minus. rewrite Hk. reflexivity.
        -- eapply agree_weaken; [|exact Hag']. intros k Hk. rewrite !memN_minus in *. simpl in *.
           destruct (memN k W); simpl in *; [|reflexivity]. rewrite orb_false_r.
           destruct (N.eqb k n); simpl in *; [reflexivity|]. exact Hk.
      * inversion Hs; subst. exists l0. split; [reflexivity | exact Hag].
    + inversion Hs; subst. exists l0. split; [reflexivity | exact Hag].
Qed.

Lemma seq_update_touches {A} ns (f : name -> option A) : forall l l' e,
  seq_update ns f l = (l', e) -> agree ns l' l.
Proof.
  induction ns as [|n ns IH]; intros l l' e Hs; simpl in *.
  - inversion Hs; subst. apply agree_refl.
  - destruct (f n) as [v|]; [|inversion Hs; subst; apply agree_refl].
    destruct (memN n (keys l)); [|inversion Hs; subst; apply agree_refl].
    apply IH in Hs. eapply agree_trans.
    + eapply agree_weaken; [|exact Hs]. intros k Hk. simpl in Hk. apply orb_false_iff in Hk. tauto.
    + eapply agree_weaken; [|apply set_key_touches]. intros k Hk. simpl in *. apply orb_false_iff in Hk.
      rewrite orb_false_r. tauto.
Qed.

Section Proofs.
  Context {T : Type} (O : num_ops T) (ff : fit_facts).
  Notation mstate := (mstate (T:=T)).
  Notation settings := (settings (T:=T)).

  Definition agree_st (Wp Wv : list name) (st st0 : mstate) : Prop :=
    agree Wp (ms_pars st) (ms_pars st0) /\ agree Wv (ms_vars st) (ms_vars st0).

  Lemma agree_st_refl Wp Wv st : agree_st Wp Wv st st.
  Proof. split; apply agree_refl. Qed.
  Lemma agree_st_trans Wp Wv a b c : agree_st Wp Wv a b -> agree_st Wp Wv b c -> agree_st Wp Wv a c.
  Proof. intros [H1 H2] [H3 H4]. split; eapply agree_trans; eauto. Qed.
  Lemma agree_st_weaken Wp Wv Wp' Wv' a b :
    (forall k, memN k Wp' = false -> memN k Wp = false) -> (forall k, memN k Wv' = false -> memN k Wv = false) ->
    agree_st Wp Wv a b -> agree_st Wp' Wv' a b.
  Proof. intros H1 H2 [H3 H4]. split; eapply agree_weaken; eauto. Qed.

  (** names written by one update phase *)
  Definition wp_phase (S : settings) (ph : upd_phase) : list name :=
    match ph with UpdPars => s_p_names S | _ => [] end.
  Definition wv_phase (S : settings) (ph : upd_phase) : list name :=
    match ph with
    | UpdY0 => match s_y0 S with Some y0 => keys y0 | None => [] end
    | UpdVars => s_v_names S
    | UpdPars => []
    end.

  Lemma minus_nil W k : memN k (minus W []) = memN k W.
  Proof. rewrite memN_minus. simpl. apply andb_true_r. Qed.

  Lemma apply_phase_agree S u ph Wp Wv st st0 st1 e :
    agree_st Wp Wv st st0 -> apply_phase S u ph st = (st1, e) ->
    exists st01, apply_phase S u ph st0 = (st01, e) /\
                 match e with
                 | None => agree_st (minus Wp (wp_phase S ph)) (minus Wv (wv_phase S ph)) st1 st01
                 | Some _ => agree_st Wp Wv st1 st01
                 end.
  Proof.
    intros [Hp Hv] Ha. destruct ph; simpl in *.
    - destruct (s_y0 S) as [y0|].
      + destruct (seq_update (keys y0) (fun n => lookup n y0) (ms_vars st)) as [v e'] eqn:Hs. inversion Ha; subst.
        destruct (seq_update_agree _ _ Wv _ _ _ _ Hv Hs) as [v0 [Hs0 Hag]]. rewrite Hs0. eexists. split; [reflexivity|].
        destruct e; split; simpl; auto. eapply agree_weaken; [|exact Hp]. intros k; rewrite minus_nil; auto.
      + inversion Ha; subst. exists st0. split; [reflexivity|]. split; simpl; (eapply agree_weaken; [|eassumption]); intros k; rewrite minus_nil; auto.
    - destruct (seq_update (s_p_names S) (fun n => lookup n u) (ms_pars st)) as [p e'] eqn:Hs. inversion Ha; subst.
      destruct (seq_update_agree _ _ Wp _ _ _ _ Hp Hs) as [p0 [Hs0 Hag]]. rewrite Hs0. eexists. split; [reflexivity|].
      destruct e; split; simpl; auto. eapply agree_weaken; [|exact Hv]. intros k; rewrite minus_nil; auto.
    - destruct (seq_update (s_v_names S) (fun n => lookup n u) (ms_vars st)) as [v e'] eqn:Hs. inversion Ha; subst.
      destruct (seq_update_agree _ _ Wv _ _ _ _ Hv Hs) as [v0 [Hs0 Hag]]. rewrite Hs0. eexists. split; [reflexivity|].
      destruct e; split; simpl; auto. eapply agree_weaken; [|exact Hp]. intros k; rewrite minus_nil; auto.
  Qed.

  Lemma apply_phase_touches S u ph st st1 e :
    apply_phase S u ph st = (st1, e) -> agree_st (wp_phase S ph) (wv_phase S ph) st1 st.
  Proof.
    intros Ha. destruct ph; simpl in *.
    - destruct (s_y0 S) as [y0|].
      + destruct (seq_update (keys y0) _ (ms_vars st)) as [v e'] eqn:Hs. inversion Ha; subst. split; simpl; [apply agree_refl|].
        eapply seq_update_touches; eauto.
      + inversion Ha; subst. apply agree_st_refl.
    - destruct (seq_update (s_p_names S) _ (ms_pars st)) as [p e'] eqn:Hs. inversion Ha; subst. split; simpl; [|apply agree_refl].
      eapply seq_update_touches; eauto.
    - destruct (seq_update (s_v_names S) _ (ms_vars st)) as [v e'] eqn:Hs. inversion Ha; subst. split; simpl; [apply agree_refl|].
      eapply seq_update_touches; eauto.
  Qed.

  Definition wp_phases S phs := flat_map (wp_phase S) phs.
  Definition wv_phases S phs := flat_map (wv_phase S) phs.

  Lemma memN_app k a b : memN k (a ++ b) = memN k a || memN k b.
  Proof. unfold memN. apply existsb_app. Qed.

  Lemma apply_phases_agree S u phs : forall Wp Wv st st0 st1 e,
    agree_st Wp Wv st st0 -> apply_phases S u phs st = (st1, e) ->
    exists st01, apply_phases S u phs st0 = (st01, e) /\
                 match e with
                 | None => agree_st (minus Wp (wp_phases S phs)) (minus Wv (wv_phases S phs)) st1 st01
                 | Some _ => agree_st Wp Wv st1 st01
                 end.
  Proof.
    induction phs as [|ph phs IH]; intros Wp Wv st st0 st1 e Hag Ha; simpl in *.
    - inversion Ha; subst. exists st0. split; [reflexivity|].
      eapply agree_st_weaken; [| |exact Hag]; intros k; rewrite minus_nil; auto.
    - destruct (apply_phase S u ph st) as [st' [e'|]] eqn:Hph.
      + inversion Ha; subst. destruct (apply_phase_agree _ _ _ _ _ _ _ _ _ Hag Hph) as [st0' [H0 Hag']].
        rewrite H0. exists st0'. split; [reflexivity | exact Hag'].
      + destruct (apply_phase_agree _ _ _ _ _ _ _ _ _ Hag Hph) as [st0' [H0 Hag']]. rewrite H0.
        destruct (IH _ _ _ _ _ _ Hag' Ha) as [st01 [H1 Hag1]]. exists st01. split; [exact H1|].
        destruct e.
        * eapply agree_st_weaken; [| |exact Hag1]; intros k Hk; rewrite memN_minus, Hk; reflexivity.
        * eapply agree_st_weaken; [| |exact Hag1]; intros k Hk; rewrite !memN_minus in *;
            unfold wp_phases, wv_phases in *; simpl in Hk; rewrite memN_app, negb_orb in Hk; rewrite <- andb_assoc; exact Hk.
  Qed.

  Lemma apply_phases_touches S u phs : forall st st1 e,
    apply_phases S u phs st = (st1, e) -> agree_st (wp_phases S phs) (wv_phases S phs) st1 st.
  Proof.
    induction phs as [|ph phs IH]; intros st st1 e Ha; simpl in *.
    - inversion Ha; subst. apply agree_st_refl.
    - destruct (apply_phase S u ph st) as [st' [e'|]] eqn:Hph.
      + inversion Ha; subst. apply apply_phase_touches in Hph.
        eapply agree_st_weaken; [| |exact Hph]; intros k Hk; unfold wp_phases, wv_phases in Hk; simpl in Hk;
          rewrite memN_app in Hk; apply orb_false_iff in Hk; tauto.
      + apply IH in Ha. apply apply_phase_touches in Hph. eapply agree_st_trans.
        * eapply agree_st_weaken; [| |exact Ha]; intros k Hk; unfold wp_phases, wv_phases in Hk; simpl in Hk;
            rewrite memN_app in Hk; apply orb_false_iff in Hk; tauto.
        * eapply agree_st_weaken; [| |exact Hph]; intros k Hk; unfold wp_phases, wv_phases in Hk; simpl in Hk;
            rewrite memN_app in Hk; apply orb_false_iff in Hk; tauto.
  Qed.

  (** *** the simulations: steady state and time course do not write; the protocol writes its own columns *)
  Lemma sim_steady_state S st : fst (sim_steady O S st) = st.
  Proof. unfold sim_steady. repeat (reflexivity || dm). Qed.
  Lemma sim_tc_state S st : fst (sim_time_course O S st) = st.
  Proof. unfold sim_time_course. repeat (reflexivity || dm). Qed.
End Proofs.
