(** C20 -- Fitting: losses measure discrepancy; fits are honest and spare the input.

    ONLY theorem statements (written out in full), each closed by [exact <lemma>] (the two
    [..._pinned] theorems by computation) and followed by [Print Assumptions].

    [gen_losses] / [loss_*] are REGENERATED expression-for-expression from
    /repo/src/mxlpy/fit/losses.py, [gen_fit_facts] / [gen_source_digests] from fit/abstract.py,
    fit/routines.py and minimizers/_scipy.py, on every run.  The loss laws are theorems about the
    regenerated definitions at Coq's real numbers; the fit theorems hold for EVERY numeric carrier,
    every settings object, every minimiser (strategy tree) and every history of evaluations. *)
From Coq Require Import List ZArith NArith QArith Reals String.
From MxlBase Require Import ListX.
From Fit Require Import LossOps GenLosses FitModel GenFitFacts FitExec LossProofs FitProofs FitWitness.
Import ListNotations.
Open Scope string_scope.

(** the shipped losses are exactly these seven formulas (a changed, added or removed loss breaks this) *)
Theorem C20_losses_pinned :
  gen_untranslatable = [] /\
  forall (T : Type) (O : num_ops T),
    gen_losses O =
    [ ("cosine_similarity", fun y_pred y_true => o_opp O (o_mul O (vnorm2 O y_pred) (vnorm2 O y_true)));
      ("mae", fun y_pred y_true => vmean O (vmap (o_abs O) (vbin (o_sub O) y_true y_pred)));
      ("mean", fun y_pred y_true => vmean O (vbin (o_sub O) y_pred y_true));
      ("mean_absolute_percentage", fun y_pred y_true =>
         o_mul O (o_ofQ O (100 # 1)) (vmean O (vmap (o_abs O) (vbin (o_div O) (vbin (o_sub O) y_true y_pred) y_pred))));
      ("mean_squared", fun y_pred y_true => vmean O (vmap (o_sq O) (vbin (o_sub O) y_pred y_true)));
      ("mean_squared_logarithmic", fun y_pred y_true =>
         vmean O (vmap (o_sq O) (vbin (o_sub O) (vmap (o_ln O) (vbin_r (o_add O) y_pred (o_ofQ O (1 # 1))))
                                               (vmap (o_ln O) (vbin_r (o_add O) y_true (o_ofQ O (1 # 1)))))));
      ("rmse", fun y_pred y_true => o_sqrt O (vmean O (vmap (o_sq O) (vbin (o_sub O) y_pred y_true)))) ].
Proof. split; [reflexivity | intros; reflexivity]. Qed.
Print Assumptions C20_losses_pinned.

(** the facts of the fit plumbing the model consults: [_Settings.loss] hands (data, prediction) to the loss,
    scaled or not; every residual applies y0, then the routed parameters, then the routed variables to the
    SHARED model, selects the data's names and returns +inf on a failed simulation; every wrapper copies
    FIRST (default on), routes names by membership, packs (parameters, residual) into Fit; the SciPy wrapper
    packs by position with default bounds (1e-6, 1e6) *)
Theorem C20_fit_facts_pinned :
  gen_fit_facts =
  mkFitFacts DataFirst DataFirst true
    (mkResidualFacts [UpdY0; UpdPars; UpdVars] SelDataIndex FailInf true true)
    (mkResidualFacts [UpdY0; UpdPars; UpdVars] SelDataColumns FailInf true true)
    (mkResidualFacts [UpdY0; UpdPars; UpdVars] SelDataColumns FailInf true true)
    (mkWrapperFacts true true true true true true true)
    (mkWrapperFacts true true true true true true true)
    (mkWrapperFacts true true true true true true true)
    (1 # 1000000) (1000000 # 1) true true true.
Proof. vm_compute. reflexivity. Qed.
Print Assumptions C20_fit_facts_pinned.

(** digests of the normalised source (docstrings / comments / formatting removed) of every modelled function *)
Theorem C20_source_digests_pinned :
  gen_source_digests =
  [ ("_Settings", "7ef6c219b20dd642");
    ("steady_state_residual", "891bbf419b57fa68");
    ("time_course_residual", "e3933b0eeb64114b");
    ("protocol_time_course_residual", "8dd50a22a156e572");
    ("steady_state", "9f1c585c35774991");
    ("time_course", "00cfdee8535ecb01");
    ("protocol_time_course", "cce95a4a460e0b60");
    ("_pack_updates", "b465f9816022f54a");
    ("LocalScipyMinimizer.__call__", "c44182df70fff738") ].
Proof. vm_compute. reflexivity. Qed.
Print Assumptions C20_source_digests_pinned.

(** FULL statement (false of the code, see the two [_refuted] theorems):
      forall n L, In (n, L) (gen_losses ROps) -> (forall d p, L d d <= L d p) /\ (size law).
    PROVED for five of the seven shipped losses; [mean] and [cosine_similarity] are recorded findings.

    law 1 -- smallest when the prediction reproduces the data: in the order the residuals use
    (data first), in the documented order (prediction first), and the minimum is 0 *)
Theorem C20_loss_min_at_data_partial :
  forall (n : string) (L : list R -> list R -> R),
    In (n, L) (gen_losses ROps) -> ~ (n = "mean" \/ n = "cosine_similarity") ->
    forall d p : list R, (L d d <= L d p /\ L d d <= L p d /\ L d d = 0)%R.
Proof. exact loss_min_at_data. Qed.
Print Assumptions C20_loss_min_at_data_partial.

(** law 1 as the residual functions apply it ([_Settings.loss] of the current source, with or without
    standard scaling, frames of any shape): defined, 0 at prediction = data, never below 0 *)
Theorem C20_residual_loss_min_at_data_partial :
  forall (n : string) (L : list R -> list R -> R),
    In (n, L) (gen_losses ROps) -> ~ (n = "mean" \/ n = "cosine_similarity") ->
    forall (standard_scale : bool) (data pred : list (list R)),
      settings_loss ROps gen_fit_facts L standard_scale data data = Some 0%R
      /\ exists v, settings_loss ROps gen_fit_facts L standard_scale data pred = Some v /\ (0 <= v)%R.
Proof.
  exact (fun n L H Hk => settings_loss_min_at_data gen_fit_facts n L H Hk
           (f_equal ff_args_unscaled C20_fit_facts_pinned) (f_equal ff_args_scaled C20_fit_facts_pinned)).
Qed.
Print Assumptions C20_residual_loss_min_at_data_partial.

(** law 2 -- a prediction is not rewarded merely for being large: scaling an overshooting prediction
    (each entry at or beyond the datum, on the same side of 0; for the logarithmic loss: nonnegative
    data) by any factor >= 1 never lowers the loss *)
Theorem C20_loss_not_rewarding_size_partial :
  forall (n : string) (L : list R -> list R -> R),
    In (n, L) (gen_losses ROps) -> ~ (n = "mean" \/ n = "cosine_similarity") ->
    forall (d p : list R) (lam : R),
      Forall2 (fun pi di => (0 <= di <= pi)%R \/ (n <> "mean_squared_logarithmic" /\ (pi <= di <= 0)%R)) p d ->
      (1 <= lam)%R ->
      (L d p <= L d (map (Rmult lam) p))%R.
Proof. exact loss_not_rewarding_size. Qed.
Print Assumptions C20_loss_not_rewarding_size_partial.

(** the signed [mean] violates both laws (finding c20-mean-signed) *)
Theorem C20_loss_laws_refuted_mean :
  exists (d p : list R) (lam : R),
    Forall2 (fun pi di => (0 <= di <= pi)%R) p d /\ (1 <= lam)%R /\
    (loss_mean ROps d p < loss_mean ROps d d)%R /\
    (loss_mean ROps d (map (Rmult lam) p) < loss_mean ROps d p)%R.
Proof. exact mean_refuted. Qed.
Print Assumptions C20_loss_laws_refuted_mean.

(** [cosine_similarity] (minus the product of the norms) violates both laws (finding c20-cosine-rewards-size) *)
Theorem C20_loss_laws_refuted_cosine :
  exists (d p : list R) (lam : R),
    Forall2 (fun pi di => (0 <= di <= pi)%R) p d /\ (1 <= lam)%R /\
    (loss_cosine_similarity ROps d p < loss_cosine_similarity ROps d d)%R /\
    (loss_cosine_similarity ROps d (map (Rmult lam) p) < loss_cosine_similarity ROps d p)%R.
Proof. exact cosine_refuted. Qed.
Print Assumptions C20_loss_laws_refuted_cosine.

(** each residual equals the chosen loss between the data and the model's prediction at the candidate
    values: once the candidate is written into the model, the simulation produced rows and the data's
    names were selected from them, the value returned is [loss (data, prediction)] -- on standard-scaled
    data and prediction when scaling is on *)
Theorem C20_residual_is_loss_of_prediction :
  forall (T : Type) (O : num_ops T) (k : fit_kind) (S : settings) (st : mstate) (u : list (name * T))
         (st1 st2 : mstate) (rows : list (Q * list (name * T))) (pred : list (list T)),
    apply_phases S u [UpdY0; UpdPars; UpdVars] st = (st1, None) ->
    simulate O k S st1 = (st2, SimRows rows) ->
    prediction (match k with KSteady => SelDataIndex | _ => SelDataColumns end) k S rows = inl (Some pred) ->
    residual_step O gen_fit_facts k S st u =
      (st2, RVal (if s_scale S
                  then s_loss S (concat (scale_frame O (s_data S) (s_data S))) (concat (scale_frame O (s_data S) pred))
                  else s_loss S (concat (s_data S)) (concat pred))).
Proof. exact (residual_structure_expected gen_fit_facts C20_fit_facts_pinned). Qed.
Print Assumptions C20_residual_is_loss_of_prediction.

(** the residual functions mutate one shared model, yet the residual at a candidate does not depend on
    the candidates evaluated before: after ANY history [us] of calls on the shared settings object the
    residual at [u] is the residual of a pristine model at [u] (steady state, time course and protocol) *)
Theorem C20_residual_history_independent :
  forall (T : Type) (O : num_ops T) (k : fit_kind) (S : settings) (st0 : mstate)
         (us : list (list (name * T))) (u : list (name * T)),
    snd (residual_step O gen_fit_facts k S
           (fold_left (fun st u' => fst (residual_step O gen_fit_facts k S st u')) us st0) u)
    = snd (residual_step O gen_fit_facts k S st0 u).
Proof. exact (fun T O k S => residual_history_independent O gen_fit_facts k S). Qed.
Print Assumptions C20_residual_history_independent.

(** the reported loss equals the loss recomputed at the reported parameters on the caller's pristine
    model -- for every minimiser that answers a value it observed at the parameters it answers *)
Theorem C20_reported_loss_is_loss_at_reported :
  forall (T : Type) (O : num_ops T) (k : fit_kind) (S : settings) (as_deepcopy : option bool)
         (caller : mstate) (p0 : list (name * T)) (minimiser : list (name * T) -> strat)
         (caller_after fit_model : mstate) (best_pars : list (name * T)) (loss : T),
    honest [] (minimiser p0) ->
    fit O gen_fit_facts k S as_deepcopy caller p0 minimiser = (caller_after, FitOk fit_model best_pars loss) ->
    snd (residual_step O gen_fit_facts k (route S caller p0) caller best_pars) = RVal loss.
Proof. exact (fun T O => fit_reported_loss O gen_fit_facts). Qed.
Print Assumptions C20_reported_loss_is_loss_at_reported.

(** never worse than the starting point: for every minimiser that first evaluates [p0] and answers
    nothing worse (w.r.t. any relation [le]) than what it observed there, the reported loss is [le] the
    loss of the pristine model at [p0] (or that loss is +inf) *)
Theorem C20_not_worse_than_start :
  forall (T : Type) (O : num_ops T) (le : T -> T -> Prop) (k : fit_kind) (S : settings) (as_deepcopy : option bool)
         (caller : mstate) (p0 : list (name * T)) (continue_with : rloss -> strat)
         (caller_after fit_model : mstate) (best_pars : list (name * T)) (loss : T),
    (forall b, leaves_le le b (continue_with (RVal b))) ->
    fit O gen_fit_facts k S as_deepcopy caller p0 (fun p => Ask p continue_with) = (caller_after, FitOk fit_model best_pars loss) ->
    snd (residual_step O gen_fit_facts k (route S caller p0) caller p0) = RInf
    \/ exists b, snd (residual_step O gen_fit_facts k (route S caller p0) caller p0) = RVal b /\ le loss b.
Proof. exact (fun T O => fit_not_worse_than_start O gen_fit_facts). Qed.
Print Assumptions C20_not_worse_than_start.

(** with copying enabled (explicitly or by default) the caller's model is left unchanged, whatever the
    minimiser does and however the fit ends *)
Theorem C20_input_untouched :
  forall (T : Type) (O : num_ops T) (k : fit_kind) (S : settings) (as_deepcopy : option bool)
         (caller : mstate) (p0 : list (name * T)) (minimiser : list (name * T) -> strat),
    as_deepcopy = None \/ as_deepcopy = Some true ->
    fst (fit O gen_fit_facts k S as_deepcopy caller p0 minimiser) = caller.
Proof. exact (input_untouched_expected gen_fit_facts C20_fit_facts_pinned). Qed.
Print Assumptions C20_input_untouched.

(** ... and the guard is needed: without copying there are fits after which the caller's model differs *)
Theorem C20_without_copy_input_changes :
  exists (k : fit_kind) (S : settings) (caller : mstate) (p0 : list (name * oQ)) (minimiser : list (name * oQ) -> strat),
    fst (fit QoOps gen_fit_facts k S (Some false) caller p0 minimiser) <> caller.
Proof. exact (without_copy_input_changes gen_fit_facts C20_fit_facts_pinned). Qed.
Print Assumptions C20_without_copy_input_changes.

(** LocalScipyMinimizer's name <-> position packing keeps an honest positional optimiser honest *)
Theorem C20_scipy_packing_honest :
  forall (T : Type) (names : list name) (s : vstrat) (seen : list (list T * rloss)),
    vhonest seen s ->
    honest (map (fun e => (combine names (fst e), snd e)) seen) (lift_vstrat names s).
Proof. exact (fun T => lift_honest (T:=T)). Qed.
Print Assumptions C20_scipy_packing_honest.

(** non-vacuity: an honest minimiser, a real model (dx/dt = k_in - k_out x), data generated by it; the fit
    finds k_in = 2 with loss 0 from the start k_in = 1 and leaves the caller's model alone *)
Example C20_nonvacuous :
  honest [] (probe_minimiser ex_p0) /\
  fit QoOps expected_fit_facts KTimeCourse (ex_settings (loss_mean_squared QoOps)) None ex_caller ex_p0 probe_minimiser
  = (ex_caller, FitOk (mkState (al [(1%N, 1 # 2); (2%N, 1 # 2)]) (al [(10%N, 1%Q)])) (al [(1%N, 2%Q)]) (Some 0%Q)).
Proof. exact nonvacuous_fit. Qed.
Print Assumptions C20_nonvacuous.
