From Fit Require Import LossOps GenLosses FitModel GenFitFacts.
