(** C20 -- Fitting: losses measure discrepancy; fits are honest and spare the input.

    ONLY theorem statements (written out in full), each closed by [exact <lemma>] (the two
    [..._pinned] theorems by computation) and followed by [Print Assumptions].

    [gen_losses] / [loss_*] are REGENERATED expression-for-expression from
    /repo/src/mxlpy/fit/losses.py, [gen_fit_facts] / [gen_source_digests] from fit/abstract.py,
    fit/routines.py and minimizers/_scipy.py, on every run.  The loss laws are theorems about the
    regenerated definitions at Coq's real numbers; the fit theorems hold for EVERY numeric carrier,
    every settings object, every minimiser (strategy tree) and every history of evaluations. *)
From Coq Require Import List ZArith NArith QArith Reals String.
From MxlBase Require Import ListX.
From Fit Require Import LossOps GenLosses FitModel FitScipy GenFitFacts FitExec FitScipyExec LossProofs FitProofs FitWitness FitScipyProofs.
Import ListNotations.
Open Scope string_scope.

(** the shipped losses are exactly these seven formulas (a changed, added or removed loss breaks this) *)
Theorem C20_losses_pinned :
  gen_untranslatable = [] /\
  forall (T : Type) (O : num_ops T),
    gen_losses O =
    [ ("cosine_similarity", fun y_pred y_true => o_opp O (o_mul O (vnorm2 O y_pred) (vnorm2 O y_true)));
      ("mae", fun y_pred y_true => vmean O (vmap (o_abs O) (vbin (o_sub O) y_true y_pred)));
      ("mean", fun y_pred y_true => vmean O (vbin (o_sub O) y_pred y_true));
      ("mean_absolute_percentage", fun y_pred y_true =>
         o_mul O (o_ofQ O (100 # 1)) (vmean O (vmap (o_abs O) (vbin (o_div O) (vbin (o_sub O) y_true y_pred) y_pred))));
      ("mean_squared", fun y_pred y_true => vmean O (vmap (o_sq O) (vbin (o_sub O) y_pred y_true)));
      ("mean_squared_logarithmic", fun y_pred y_true =>
         vmean O (vmap (o_sq O) (vbin (o_sub O) (vmap (o_ln O) (vbin_r (o_add O) y_pred (o_ofQ O (1 # 1))))
                                               (vmap (o_ln O) (vbin_r (o_add O) y_true (o_ofQ O (1 # 1)))))));
      ("rmse", fun y_pred y_true => o_sqrt O (vmean O (vmap (o_sq O) (vbin (o_sub O) y_pred y_true)))) ].
Proof. split; [reflexivity | intros; reflexivity]. Qed.
Print Assumptions C20_losses_pinned.

(** the facts of the fit plumbing the model consults: [_Settings.loss] hands (data, prediction) to the loss,
    scaled or not; every residual applies y0, then the routed parameters, then the routed variables to the
    SHARED model, selects the data's names and returns +inf on a failed simulation; every wrapper copies
    FIRST (default on), routes names by membership, packs (parameters, residual) into Fit; the SciPy wrapper
    packs by position with default bounds (1e-6, 1e6); NOTHING runs on the caller's object in front of the copy
    guard (last field of the wrapper facts: [[]]); the batch editors Model.update_variables (y0) and
    Model.update_parameters (protocol steps) validate ALL names before they write anything (/repo 037a1c8) *)
Theorem C20_fit_facts_pinned :
  gen_fit_facts =
  mkFitFacts DataFirst DataFirst true
    (mkResidualFacts [UpdY0; UpdPars; UpdVars] SelDataIndex FailInf true true)
    (mkResidualFacts [UpdY0; UpdPars; UpdVars] SelDataColumns FailInf true true)
    (mkResidualFacts [UpdY0; UpdPars; UpdVars] SelDataColumns FailInf true true)
    (mkWrapperFacts true true true true true true true [])
    (mkWrapperFacts true true true true true true true [])
    (mkWrapperFacts true true true true true true true [])
    (1 # 1000000) (1000000 # 1) true true true BatchValidated BatchValidated.
Proof. vm_compute. reflexivity. Qed.
Print Assumptions C20_fit_facts_pinned.

(** digests of the normalised source (docstrings / comments / formatting removed) of every modelled function *)
Theorem C20_source_digests_pinned :
  gen_source_digests =
  [ ("_Settings", "7ef6c219b20dd642");
    ("steady_state_residual", "891bbf419b57fa68");
    ("time_course_residual", "e3933b0eeb64114b");
    ("protocol_time_course_residual", "8dd50a22a156e572");
    ("steady_state", "9f1c585c35774991");
    ("time_course", "00cfdee8535ecb01");
    ("protocol_time_course", "cce95a4a460e0b60");
    ("_pack_updates", "b465f9816022f54a");
    ("LocalScipyMinimizer.__call__", "c44182df70fff738") ].
Proof. vm_compute. reflexivity. Qed.
Print Assumptions C20_source_digests_pinned.

(** FULL statement (false of the code, see the two [_refuted] theorems):
      forall n L, In (n, L) (gen_losses ROps) -> (forall d p, L d d <= L d p) /\ (size law).
    PROVED for five of the seven shipped losses; [mean] and [cosine_similarity] are recorded findings.

    law 1 -- smallest when the prediction reproduces the data: in the order the residuals use
    (data first), in the documented order (prediction first), and the minimum is 0 *)
Theorem C20_loss_min_at_data_partial :
  forall (n : string) (L : list R -> list R -> R),
    In (n, L) (gen_losses ROps) -> ~ (n = "mean" \/ n = "cosine_similarity") ->
    forall d p : list R, (L d d <= L d p /\ L d d <= L p d /\ L d d = 0)%R.
Proof. exact loss_min_at_data. Qed.
Print Assumptions C20_loss_min_at_data_partial.

(** law 1 as the residual functions apply it ([_Settings.loss] of the current source, with or without
    standard scaling, frames of any shape): defined, 0 at prediction = data, never below 0 *)
Theorem C20_residual_loss_min_at_data_partial :
  forall (n : string) (L : list R -> list R -> R),
    In (n, L) (gen_losses ROps) -> ~ (n = "mean" \/ n = "cosine_similarity") ->
    forall (standard_scale : bool) (data pred : list (list R)),
      settings_loss ROps gen_fit_facts L standard_scale data data = Some 0%R
      /\ exists v, settings_loss ROps gen_fit_facts L standard_scale data pred = Some v /\ (0 <= v)%R.
Proof.
  exact (fun n L H Hk => settings_loss_min_at_data gen_fit_facts n L H Hk
           (f_equal ff_args_unscaled C20_fit_facts_pinned) (f_equal ff_args_scaled C20_fit_facts_pinned)).
Qed.
Print Assumptions C20_residual_loss_min_at_data_partial.

(** law 2 -- a prediction is not rewarded merely for being large: scaling an overshooting prediction
    (each entry at or beyond the datum, on the same side of 0; for the logarithmic loss: nonnegative
    data) by any factor >= 1 never lowers the loss *)
Theorem C20_loss_not_rewarding_size_partial :
  forall (n : string) (L : list R -> list R -> R),
    In (n, L) (gen_losses ROps) -> ~ (n = "mean" \/ n = "cosine_similarity") ->
    forall (d p : list R) (lam : R),
      Forall2 (fun pi di => (0 <= di <= pi)%R \/ (n <> "mean_squared_logarithmic" /\ (pi <= di <= 0)%R)) p d ->
      (1 <= lam)%R ->
      (L d p <= L d (map (Rmult lam) p))%R.
Proof. exact loss_not_rewarding_size. Qed.
Print Assumptions C20_loss_not_rewarding_size_partial.

(** the signed [mean] violates both laws (finding c20-mean-signed) *)
Theorem C20_loss_laws_refuted_mean :
  exists (d p : list R) (lam : R),
    Forall2 (fun pi di => (0 <= di <= pi)%R) p d /\ (1 <= lam)%R /\
    (loss_mean ROps d p < loss_mean ROps d d)%R /\
    (loss_mean ROps d (map (Rmult lam) p) < loss_mean ROps d p)%R.
Proof. exact mean_refuted. Qed.
Print Assumptions C20_loss_laws_refuted_mean.

(** [cosine_similarity] (minus the product of the norms) violates both laws (finding c20-cosine-rewards-size) *)
Theorem C20_loss_laws_refuted_cosine :
  exists (d p : list R) (lam : R),
    Forall2 (fun pi di => (0 <= di <= pi)%R) p d /\ (1 <= lam)%R /\
    (loss_cosine_similarity ROps d p < loss_cosine_similarity ROps d d)%R /\
    (loss_cosine_similarity ROps d (map (Rmult lam) p) < loss_cosine_similarity ROps d p)%R.
Proof. exact cosine_refuted. Qed.
Print Assumptions C20_loss_laws_refuted_cosine.

(** each residual equals the chosen loss between the data and the model's prediction at the candidate
    values: once the candidate is written into the model, the simulation produced rows and the data's
    names were selected from them, the value returned is [loss (data, prediction)] -- on standard-scaled
    data and prediction when scaling is on *)
Theorem C20_residual_is_loss_of_prediction :
  forall (T : Type) (O : num_ops T) (k : fit_kind) (S : settings) (st : mstate) (u : list (name * T))
         (st1 st2 : mstate) (rows : list (Q * list (name * T))) (pred : list (list T)),
    apply_phases gen_fit_facts S u [UpdY0; UpdPars; UpdVars] st = (st1, None) ->
    simulate O gen_fit_facts k S st1 = (st2, SimRows rows) ->
    prediction (match k with KSteady => SelDataIndex | _ => SelDataColumns end) k S rows = inl (Some pred) ->
    residual_step O gen_fit_facts k S st u =
      (st2, RVal (if s_scale S
                  then s_loss S (concat (scale_frame O (s_data S) (s_data S))) (concat (scale_frame O (s_data S) pred))
                  else s_loss S (concat (s_data S)) (concat pred))).
Proof. exact (residual_structure_expected gen_fit_facts C20_fit_facts_pinned). Qed.
Print Assumptions C20_residual_is_loss_of_prediction.

(** [model.update_variables(y0)] with a name the model does not have is REJECTED AS A WHOLE: the KeyError leaves the
    shared model exactly as it was (the batch editor validates all names first, /repo 037a1c8) ... *)
Theorem C20_rejected_y0_changes_nothing :
  forall (T : Type) (S : settings) (u : list (name * T)) (st st' : mstate) (e : err),
    apply_phase gen_fit_facts S u UpdY0 st = (st', Some e) -> st' = st.
Proof. exact (y0_rejected_expected gen_fit_facts C20_fit_facts_pinned). Qed.
Print Assumptions C20_rejected_y0_changes_nothing.

(** ... whereas the plain fold of the single-item editor (the code before that commit; facts [BatchFold]) wrote the
    entries in front of the unknown name: y0 = {x: 3, unknown: 1} leaves x = 3 behind and raises *)
Theorem C20_fold_batch_editor_writes_before_it_raises :
  exists (S : settings) (u : list (name * oQ)) (st : mstate),
    let fold := mkFitFacts DataFirst DataFirst true
                  (mkResidualFacts [UpdY0; UpdPars; UpdVars] SelDataIndex FailInf true true)
                  (mkResidualFacts [UpdY0; UpdPars; UpdVars] SelDataColumns FailInf true true)
                  (mkResidualFacts [UpdY0; UpdPars; UpdVars] SelDataColumns FailInf true true)
                  (mkWrapperFacts true true true true true true true [])
                  (mkWrapperFacts true true true true true true true [])
                  (mkWrapperFacts true true true true true true true [])
                  (1 # 1000000) (1000000 # 1) true true true BatchFold BatchFold in
    apply_phase fold S u UpdY0 st = (mkState (ms_pars st) (al [(10%N, 3%Q)]), Some ErrKey) /\
    ms_vars st = al [(10%N, 1%Q)] /\
    apply_phase gen_fit_facts S u UpdY0 st = (st, Some ErrKey).
Proof. exact fold_y0_partial_write. Qed.
Print Assumptions C20_fold_batch_editor_writes_before_it_raises.

(** the residual functions mutate one shared model, yet the residual at a candidate does not depend on
    the candidates evaluated before: after ANY history [us] of calls on the shared settings object the
    residual at [u] is the residual of a pristine model at [u] (steady state, time course and protocol) *)
Theorem C20_residual_history_independent :
  forall (T : Type) (O : num_ops T) (k : fit_kind) (S : settings) (st0 : mstate)
         (us : list (list (name * T))) (u : list (name * T)),
    snd (residual_step O gen_fit_facts k S
           (fold_left (fun st u' => fst (residual_step O gen_fit_facts k S st u')) us st0) u)
    = snd (residual_step O gen_fit_facts k S st0 u).
Proof. exact (fun T O k S => residual_history_independent O gen_fit_facts k S). Qed.
Print Assumptions C20_residual_history_independent.

(** the reported loss equals the loss recomputed at the reported parameters on the caller's pristine
    model -- for every minimiser that answers a value it observed at the parameters it answers *)
Theorem C20_reported_loss_is_loss_at_reported :
  forall (T : Type) (O : num_ops T) (k : fit_kind) (S : settings) (as_deepcopy : option bool)
         (caller : mstate) (p0 : list (name * T)) (minimiser : list (name * T) -> strat)
         (caller_after fit_model : mstate) (best_pars : list (name * T)) (loss : T),
    honest [] (minimiser p0) ->
    fit O gen_fit_facts k S as_deepcopy caller p0 minimiser = (caller_after, FitOk fit_model best_pars loss) ->
    snd (residual_step O gen_fit_facts k (route S caller p0) caller best_pars) = RVal loss.
Proof. exact (reported_loss_expected gen_fit_facts C20_fit_facts_pinned). Qed.
Print Assumptions C20_reported_loss_is_loss_at_reported.

(** never worse than the starting point: for every minimiser that first evaluates [p0] and answers
    nothing worse (w.r.t. any relation [le]) than what it observed there, the reported loss is [le] the
    loss of the pristine model at [p0] (or that loss is +inf) *)
Theorem C20_not_worse_than_start :
  forall (T : Type) (O : num_ops T) (le : T -> T -> Prop) (k : fit_kind) (S : settings) (as_deepcopy : option bool)
         (caller : mstate) (p0 : list (name * T)) (continue_with : rloss -> strat)
         (caller_after fit_model : mstate) (best_pars : list (name * T)) (loss : T),
    (forall b, leaves_le le b (continue_with (RVal b))) ->
    fit O gen_fit_facts k S as_deepcopy caller p0 (fun p => Ask p continue_with) = (caller_after, FitOk fit_model best_pars loss) ->
    snd (residual_step O gen_fit_facts k (route S caller p0) caller p0) = RInf
    \/ exists b, snd (residual_step O gen_fit_facts k (route S caller p0) caller p0) = RVal b /\ le loss b.
Proof. exact (not_worse_than_start_expected gen_fit_facts C20_fit_facts_pinned). Qed.
Print Assumptions C20_not_worse_than_start.

(** with copying enabled (explicitly or by default) the caller's model is left unchanged, whatever the
    minimiser does and however the fit ends *)
Theorem C20_input_untouched :
  forall (T : Type) (O : num_ops T) (k : fit_kind) (S : settings) (as_deepcopy : option bool)
         (caller : mstate) (p0 : list (name * T)) (minimiser : list (name * T) -> strat),
    as_deepcopy = None \/ as_deepcopy = Some true ->
    fst (fit O gen_fit_facts k S as_deepcopy caller p0 minimiser) = caller.
Proof. exact (input_untouched_expected gen_fit_facts C20_fit_facts_pinned). Qed.
Print Assumptions C20_input_untouched.

(** ... and the guard is needed: without copying there are fits after which the caller's model differs *)
Theorem C20_without_copy_input_changes :
  exists (k : fit_kind) (S : settings) (caller : mstate) (p0 : list (name * oQ)) (minimiser : list (name * oQ) -> strat),
    fst (fit QoOps gen_fit_facts k S (Some false) caller p0 minimiser) <> caller.
Proof. exact (without_copy_input_changes gen_fit_facts C20_fit_facts_pinned). Qed.
Print Assumptions C20_without_copy_input_changes.

(** the caller's model INCLUDES its initial conditions ([ms_vars]); the theorem above needs the fact that nothing
    runs in front of the copy guard: with an early [model.update_variables(y0)] there (the shape of seeded change
    C20-3) the fit result is the same, the caller's parameters are the same, yet its initial conditions change *)
Theorem C20_y0_before_copy_reaches_caller :
  exists (k : fit_kind) (S : settings) (caller : mstate) (p0 : list (name * oQ)) (minimiser : list (name * oQ) -> strat),
    let y0_first := mkWrapperFacts true true true true true true true [UpdY0] in
    let facts := mkFitFacts DataFirst DataFirst true
                   (mkResidualFacts [UpdY0; UpdPars; UpdVars] SelDataIndex FailInf true true)
                   (mkResidualFacts [UpdY0; UpdPars; UpdVars] SelDataColumns FailInf true true)
                   (mkResidualFacts [UpdY0; UpdPars; UpdVars] SelDataColumns FailInf true true)
                   y0_first y0_first y0_first (1 # 1000000) (1000000 # 1) true true true BatchValidated BatchValidated in
    let r := fit QoOps facts k S None caller p0 minimiser in
    ms_pars (fst r) = ms_pars caller /\ ms_vars (fst r) <> ms_vars caller /\
    snd r = snd (fit QoOps gen_fit_facts k S None caller p0 minimiser).
Proof. exact y0_before_copy_reaches_caller. Qed.
Print Assumptions C20_y0_before_copy_reaches_caller.

(** without copying the caller's model is the minimiser's work model, but even then a fit changes ONLY the named
    entries: parameters among the routed names of p0 (and the protocol's columns), variables among y0's names and
    the routed names of p0; every other parameter value and initial condition is what it was (any minimiser) *)
Theorem C20_without_copy_only_named_entries_change :
  forall (T : Type) (O : num_ops T) (k : fit_kind) (S : settings) (caller : mstate) (p0 : list (name * T))
         (minimiser : list (name * T) -> strat),
    let S' := route S caller p0 in
    let after := fst (fit O gen_fit_facts k S (Some false) caller p0 minimiser) in
    keys (ms_pars after) = keys (ms_pars caller) /\ keys (ms_vars after) = keys (ms_vars caller) /\
    (forall n, memN n (s_p_names S' ++ match k with KProtocol => s_proto_names S | _ => [] end) = false ->
               lookup n (ms_pars after) = lookup n (ms_pars caller)) /\
    (forall n, memN n (match s_y0 S with Some y0 => keys y0 | None => [] end ++ s_v_names S') = false ->
               lookup n (ms_vars after) = lookup n (ms_vars caller)).
Proof. exact (without_copy_only_named_expected gen_fit_facts C20_fit_facts_pinned). Qed.
Print Assumptions C20_without_copy_only_named_entries_change.

(** LocalScipyMinimizer's name <-> position packing keeps an honest positional optimiser honest *)
Theorem C20_scipy_packing_honest :
  forall (T : Type) (names : list name) (s : vstrat) (seen : list (list T * rloss)),
    vhonest seen s ->
    honest (map (fun e => (combine names (fst e), snd e)) seen) (lift_vstrat names s).
Proof. exact (fun T => lift_honest (T:=T)). Qed.
Print Assumptions C20_scipy_packing_honest.

(** LocalScipyMinimizer hands the positional optimiser the box [[bounds.get(name, default) for name in p0]]
    ([aligned_bounds]: position i carries the interval of the i-th NAME of p0, the user's entry for that name or
    the default (1e-6, 1e6)).  Hence every reported parameter lies within ITS OWN bounds -- for every positional
    optimiser that answers inside the box it was handed ([within] is any notion of "v lies in the interval b") *)
Theorem C20_scipy_bounds_by_name :
  forall (T : Type) (O : num_ops T) (within : T * T -> T -> Prop) (k : fit_kind) (S : settings)
         (as_deepcopy : option bool) (caller : mstate) (p0 : list (name * T))
         (scipy_minimize : list T -> list (T * T) -> vstrat) (bounds : list (name * (T * T)))
         (caller_after fit_model : mstate) (best_pars : list (name * T)) (loss : T),
    (forall x0 box, vleaves_sat (fun x _ => Forall2 within box x) (scipy_minimize x0 box)) ->
    fit O gen_fit_facts k S as_deepcopy caller p0 (local_scipy_minimizer O gen_fit_facts scipy_minimize bounds)
      = (caller_after, FitOk fit_model best_pars loss) ->
    forall n v, In (n, v) best_pars ->
      within (match lookup n bounds with
              | Some b => b
              | None => (o_ofQ O (1 # 1000000), o_ofQ O (1000000 # 1)) end) v.
Proof. exact (fun T O => scipy_bounds_by_name O gen_fit_facts). Qed.
Print Assumptions C20_scipy_bounds_by_name.

(** a start that lies within the bounds of ITS OWN names is not moved by the projection into that box (whatever
    subset of the names the user bounded, in whatever order) *)
Theorem C20_scipy_start_within_own_bounds_is_kept :
  forall (T : Type) (O : num_ops T) (within : T * T -> T -> Prop) (clip1 : T * T -> T -> T)
         (bounds : list (name * (T * T))) (p0 : list (name * T)),
    (forall b v, within b v -> clip1 b v = v) ->
    (forall n v, In (n, v) p0 -> within (bound_for O gen_fit_facts bounds n) v) ->
    clip_box clip1 (aligned_bounds O gen_fit_facts bounds (keys p0)) (map snd p0) = map snd p0.
Proof. exact (fun T O => clip_start_kept O gen_fit_facts). Qed.
Print Assumptions C20_scipy_start_within_own_bounds_is_kept.

(** never worse than the start THROUGH LocalScipyMinimizer, with user bounds on any subset of the parameters in
    any order: a box-constrained optimiser (first evaluates the projection of x0 into its box, answers nothing
    worse than what it saw there) started within the bounds of its own names reports a loss [le] the pristine
    model's loss at p0 (or that loss is +inf) *)
Theorem C20_scipy_not_worse_than_start :
  forall (T : Type) (O : num_ops T) (le : T -> T -> Prop) (within : T * T -> T -> Prop) (clip1 : T * T -> T -> T)
         (k : fit_kind) (S : settings) (as_deepcopy : option bool) (caller : mstate) (p0 : list (name * T))
         (bounds : list (name * (T * T))) (continue_with : list (T * T) -> rloss -> vstrat)
         (caller_after fit_model : mstate) (best_pars : list (name * T)) (loss : T),
    (forall b v, within b v -> clip1 b v = v) ->
    (forall n v, In (n, v) p0 -> within (bound_for O gen_fit_facts bounds n) v) ->
    (forall box b, vleaves_sat (fun _ f => le f b) (continue_with box (RVal b))) ->
    fit O gen_fit_facts k S as_deepcopy caller p0
        (local_scipy_minimizer O gen_fit_facts (fun x0 box => VAsk (clip_box clip1 box x0) (continue_with box)) bounds)
      = (caller_after, FitOk fit_model best_pars loss) ->
    snd (residual_step O gen_fit_facts k (route S caller p0) caller p0) = RInf
    \/ exists b, snd (residual_step O gen_fit_facts k (route S caller p0) caller p0) = RVal b /\ le loss b.
Proof. exact (scipy_not_worse_than_start_expected gen_fit_facts C20_fit_facts_pinned). Qed.
Print Assumptions C20_scipy_not_worse_than_start.

(** LocalScipyMinimizer offers fifteen local methods; SciPy honours [bounds=] for eight of them and IGNORES it (with a
    RuntimeWarning) for CG, BFGS, Newton-CG, dogleg and the trust-region family.  What the wrapper does with [self.method] is a
    regenerated fact: the shipped code hands the box over for EVERY method and packs [res.x] / [res.fun] untouched *)
Theorem C20_scipy_shape_pinned :
  gen_scipy_shape = mkScipyShape BoundsAlways PackResX.
Proof. vm_compute. reflexivity. Qed.
Print Assumptions C20_scipy_shape_pinned.

(** the reported loss is the loss at the reported parameters for EVERY method: [scipy_minimize] is any positional optimiser
    that answers a value it observed at the point it answers -- it may be handed a box or none, honour it or ignore it and
    answer outside the user's bounds ([honours] = "self.method honours bounds", which the shipped wrapper never consults) *)
Theorem C20_scipy_reported_loss_for_every_method :
  forall (T : Type) (O : num_ops T) (honours : bool) (scipy_minimize : list T -> option (list (T * T)) -> vstrat)
         (clip1 : T * T -> T -> T) (bounds : list (name * (T * T)))
         (k : fit_kind) (S : settings) (as_deepcopy : option bool) (caller : mstate) (p0 : list (name * T))
         (caller_after fit_model : mstate) (best_pars : list (name * T)) (loss : T),
    (forall x0 box, vhonest [] (scipy_minimize x0 box)) ->
    fit O gen_fit_facts k S as_deepcopy caller p0
        (local_scipy_minimizer_m O gen_fit_facts gen_scipy_shape honours scipy_minimize clip1 bounds)
      = (caller_after, FitOk fit_model best_pars loss) ->
    snd (residual_step O gen_fit_facts k (route S caller p0) caller best_pars) = RVal loss.
Proof. exact (scipy_m_reported_loss_expected gen_fit_facts gen_scipy_shape C20_fit_facts_pinned C20_scipy_shape_pinned). Qed.
Print Assumptions C20_scipy_reported_loss_for_every_method.

(** never worse than the start for a method that ignores the box: an optimiser that first evaluates x0 ITSELF (nothing is
    projected) and answers nothing worse reports a loss [le] the pristine model's loss at p0 -- whatever bounds the caller
    gave, also bounds that exclude the start or the generating parameters *)
Theorem C20_scipy_not_worse_than_start_for_every_method :
  forall (T : Type) (O : num_ops T) (le : T -> T -> Prop) (honours : bool) (clip1 : T * T -> T -> T)
         (bounds : list (name * (T * T))) (k : fit_kind) (S : settings) (as_deepcopy : option bool) (caller : mstate)
         (p0 : list (name * T)) (continue_with : option (list (T * T)) -> rloss -> vstrat)
         (caller_after fit_model : mstate) (best_pars : list (name * T)) (loss : T),
    (forall box b, vleaves_sat (fun _ f => le f b) (continue_with box (RVal b))) ->
    fit O gen_fit_facts k S as_deepcopy caller p0
        (local_scipy_minimizer_m O gen_fit_facts gen_scipy_shape honours (fun x0 box => VAsk x0 (continue_with box)) clip1 bounds)
      = (caller_after, FitOk fit_model best_pars loss) ->
    snd (residual_step O gen_fit_facts k (route S caller p0) caller p0) = RInf
    \/ exists b, snd (residual_step O gen_fit_facts k (route S caller p0) caller p0) = RVal b /\ le loss b.
Proof. exact (scipy_m_not_worse_than_start_expected gen_fit_facts gen_scipy_shape C20_fit_facts_pinned C20_scipy_shape_pinned). Qed.
Print Assumptions C20_scipy_not_worse_than_start_for_every_method.

(** regression witness for the shape of seeded change C20-8 (box only for the methods that honour it; otherwise the answer is
    projected into the box AFTER the optimisation, [np.clip(res.x, lower, upper)], and [res.fun] is reported with it): there
    is a fit with an honest optimiser whose reported loss is NOT the loss at the reported parameters; the shipped wrapper on the
    same input reports the same loss with the parameters it belongs to -- which lie outside the caller's interval, as SciPy's
    bounds-ignoring methods answer *)
Theorem C20_clipped_answer_reports_foreign_loss :
  exists (k : fit_kind) (S : settings) (caller : mstate) (p0 : list (name * oQ))
         (bounds : list (name * (oQ * oQ))) (scipy_minimize : list oQ -> option (list (oQ * oQ)) -> vstrat),
    (forall x0 box, vhonest [] (scipy_minimize x0 box)) /\
    exists (caller_after fit_model : mstate) (best_pars : list (name * oQ)) (loss other : oQ) (best_shipped : list (name * oQ)),
      fit QoOps gen_fit_facts k S None caller p0
          (local_scipy_minimizer_m QoOps gen_fit_facts (mkScipyShape BoundsIfHonoured PackClippedIfIgnored) false scipy_minimize oq_clip bounds)
        = (caller_after, FitOk fit_model best_pars loss) /\
      snd (residual_step QoOps gen_fit_facts k (route S caller p0) caller best_pars) = RVal other /\ other <> loss /\
      fit QoOps gen_fit_facts k S None caller p0
          (local_scipy_minimizer_m QoOps gen_fit_facts gen_scipy_shape false scipy_minimize oq_clip bounds)
        = (caller_after, FitOk fit_model best_shipped loss) /\
      snd (residual_step QoOps gen_fit_facts k (route S caller p0) caller best_shipped) = RVal loss /\
      exists n b v, lookup n bounds = Some b /\ In (n, v) best_shipped /\ ~ oq_within b v.
Proof. exact (clipped_answer_reports_foreign_loss gen_fit_facts gen_scipy_shape C20_fit_facts_pinned C20_scipy_shape_pinned). Qed.
Print Assumptions C20_clipped_answer_reports_foreign_loss.

(** ... and that shape misreports ONLY where something is clipped: for a method that honours bounds, or an optimiser whose
    answers lie within the aligned box anyway, the clipping wrapper is as honest as the shipped one *)
Theorem C20_clipping_wrapper_honest_where_nothing_is_clipped :
  forall (T : Type) (O : num_ops T) (within : T * T -> T -> Prop) (honours : bool)
         (scipy_minimize : list T -> option (list (T * T)) -> vstrat) (clip1 : T * T -> T -> T)
         (bounds : list (name * (T * T))) (k : fit_kind) (S : settings) (as_deepcopy : option bool) (caller : mstate)
         (p0 : list (name * T)) (caller_after fit_model : mstate) (best_pars : list (name * T)) (loss : T),
    (forall b v, within b v -> clip1 b v = v) ->
    (forall x0 box, vhonest [] (scipy_minimize x0 box)) ->
    honours = true \/
    (forall x0, vleaves_sat (fun x _ => Forall2 within (aligned_bounds O gen_fit_facts bounds (keys p0)) x) (scipy_minimize x0 None)) ->
    fit O gen_fit_facts k S as_deepcopy caller p0
        (local_scipy_minimizer_m O gen_fit_facts (mkScipyShape BoundsIfHonoured PackClippedIfIgnored) honours scipy_minimize clip1 bounds)
      = (caller_after, FitOk fit_model best_pars loss) ->
    snd (residual_step O gen_fit_facts k (route S caller p0) caller best_pars) = RVal loss.
Proof. exact (clipping_reported_loss_partial_expected gen_fit_facts C20_fit_facts_pinned). Qed.
Print Assumptions C20_clipping_wrapper_honest_where_nothing_is_clipped.

(** non-vacuity: an honest minimiser, a real model (dx/dt = k_in - k_out x), data generated by it; the fit
    finds k_in = 2 with loss 0 from the start k_in = 1 and leaves the caller's model alone *)
Example C20_nonvacuous :
  honest [] (probe_minimiser ex_p0) /\
  fit QoOps expected_fit_facts KTimeCourse (ex_settings (loss_mean_squared QoOps)) None ex_caller ex_p0 probe_minimiser
  = (ex_caller, FitOk (mkState (al [(1%N, 1 # 2); (2%N, 1 # 2)]) (al [(10%N, 1%Q)])) (al [(1%N, 2%Q)]) (Some 0%Q)).
Proof. exact nonvacuous_fit. Qed.
Print Assumptions C20_nonvacuous.

(** non-vacuity with a [y0] argument that differs from the caller's initial condition (3 vs 1): the private copy
    carries y0, the caller's model -- parameters AND initial conditions -- is what it was *)
Example C20_nonvacuous_y0 :
  fit QoOps expected_fit_facts KTimeCourse (ex_settings_y0 (loss_mean_squared QoOps)) None ex_caller ex_p0 probe_minimiser
  = (ex_caller, FitOk (mkState (al [(1%N, 1 # 2); (2%N, 1 # 2)]) (al [(10%N, 3%Q)])) (al [(1%N, 2%Q)]) (Some 0%Q)).
Proof. exact nonvacuous_fit_y0. Qed.
Print Assumptions C20_nonvacuous_y0.

(** non-vacuity of the bounds theorems: p0 = {k_out: 1/2, k_in: 1}, the user bounds only the SECOND name, k_in, to
    (3/4, 3/2): the start lies within its own bounds; the box is [default; (3/4, 3/2)]; the fit through the model of
    LocalScipyMinimizer answers k_in = 3/2 (the truth 2 is outside the box); and the list "user-bounded names first"
    (seeded change C20-1) would have moved that start *)
Example C20_bounds_nonvacuous :
  (forall n v, In (n, v) ex_p0_2 -> oq_within (bound_for QoOps expected_fit_facts ex_bounds_2 n) v) /\
  aligned_bounds QoOps expected_fit_facts ex_bounds_2 (keys ex_p0_2)
    = [(qv (1 # 1000000), qv (1000000 # 1)); (qv (3 # 4), qv (3 # 2))] /\
  fit QoOps expected_fit_facts KTimeCourse (ex_settings2 (loss_mean_squared QoOps)) None ex_caller ex_p0_2
      (local_scipy_minimizer QoOps expected_fit_facts vprobe ex_bounds_2)
  = (ex_caller, FitOk (mkState (al [(1%N, 3 # 4); (2%N, 1 # 2)]) (al [(10%N, 1%Q)])) (al [(2%N, 1 # 2); (1%N, 3 # 2)]) (Some (2409 # 16384))) /\
  clip_box oq_clip (user_first_bounds expected_fit_facts ex_bounds_2 (keys ex_p0_2)) (map snd ex_p0_2) <> map snd ex_p0_2.
Proof. exact bounds_nonvacuous. Qed.
Print Assumptions C20_bounds_nonvacuous.

(** non-vacuity of the "every method" theorems: the harness' probe for a bounds-ignoring method is honest, evaluates x0 itself
    first and answers the smallest value it saw; through the shipped wrapper (p0 = {k_out: 1/2, k_in: 1}, k_in bounded to
    (3/4, 3/2)) it answers k_in = 2 -- outside the caller's interval -- with the loss 0 that belongs to it *)
Example C20_methods_nonvacuous :
  (forall x0 box, vhonest [] (vprobe_m false x0 box)) /\
  (forall x0 box, vprobe_m false x0 box = VAsk x0 (vprobe_free_kont x0)) /\
  (forall x0 b, vleaves_sat (fun _ f => oq_le f b) (vprobe_free_kont x0 (RVal b))) /\
  fit QoOps expected_fit_facts KTimeCourse (ex_settings2 (loss_mean_squared QoOps)) None ex_caller ex_p0_2
      (local_scipy_minimizer_m QoOps expected_fit_facts shipped_scipy_shape false (vprobe_m false) oq_clip ex_bounds_2)
  = (ex_caller, FitOk (mkState (al [(1%N, 1 # 2); (2%N, 1 # 2)]) (al [(10%N, 1%Q)])) (al [(2%N, 1 # 2); (1%N, 2%Q)]) (Some 0%Q)).
Proof. exact methods_nonvacuous. Qed.
Print Assumptions C20_methods_nonvacuous.
