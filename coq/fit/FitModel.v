(** C20 -- executable model of the fit plumbing of src/mxlpy/fit/{abstract,routines}.py and
    src/mxlpy/minimizers/_scipy.py (no proofs in this file).

    What is modelled, statement by statement:
    - [_Settings.loss]: standard scaling with the data's own mean / sample standard deviation
      (pandas: ddof = 1; per column for frames, over the whole Series for steady-state data) and
      the ORDER in which data and prediction are handed to the loss function (a regenerated fact);
    - the three residual functions: the settings' model is SHARED and MUTATED by every call
      ([update_variables y0] -- a BATCH editor whose treatment of an unknown name is a regenerated fact:
      since /repo 037a1c8 all names are validated before anything is written --, then [update_parameter] for the routed parameter names, then
      [update_variable] for the routed variable names -- the order is a regenerated fact), then the
      simulation, then the selection of the data's columns, then [_Settings.loss]; a failed
      simulation gives [+inf]; Python exceptions ([KeyError], [ValueError]) are outcomes;
    - the three fit wrappers: the statements in front of the copy guard (a regenerated fact: none in the
      shipped code) run on the CALLER's object, then the optional deep copy, routing of the names of [p0]
      to parameters / variables, the minimiser, the packing of its answer into [Fit];
    - [LocalScipyMinimizer.__call__]: name <-> position packing, the bounds list handed to the
      positional optimiser ([bounds.get(name, default) for name in p0]: a function from parameter NAME
      to interval, aligned with x0 by name), success branch.

    External behaviour enters as arguments: the minimiser is an arbitrary STRATEGY TREE ([strat]:
    ask the residual at a candidate, continue with the observed loss, eventually answer), so the
    theorems quantify over all minimisers and all histories of candidate evaluations.  The ODE
    integrator is the harness' own exact explicit-Euler integrator (harness/c20_driver.py), which is
    passed to the real code through its public [integrator=] argument and mirrored here, over a
    small family of kinetic models (constant-rate and mass-action reactions). *)
From Coq Require Import List ZArith NArith QArith Bool.
From MxlBase Require Import ListX.
From Fit Require Import LossOps.
Import ListNotations.

Definition name := N.

(** ** facts regenerated from the source (GenFitFacts.v) *)
Inductive arg_order := DataFirst | PredFirst | ArgsUnknown.
Inductive upd_phase := UpdY0 | UpdPars | UpdVars.
Inductive select_axis := SelDataIndex | SelDataColumns | SelUnknown.
Inductive fail_value := FailInf | FailUnknown.
(** how the BATCH editors [Model.update_variables] / [Model.update_parameters] treat an unknown name:
    a plain fold of the single-item editor (entries before the unknown name are written, then KeyError) /
    all names validated first (KeyError before anything is written) / unrecognised body *)
Inductive batch_mode := BatchFold | BatchValidated | BatchUnknown.
Record residual_facts := mkResidualFacts {
  rf_order : list upd_phase;      (* update phases in source order *)
  rf_select : select_axis;        (* which axis of the data names the predicted columns *)
  rf_fail : fail_value;           (* value returned when the simulation fails *)
  rf_model_shared : bool;         (* [model = settings.model] (no copy per call) *)
  rf_sim_ok : bool }.             (* the simulation call has the modelled shape *)
Record wrapper_facts := mkWrapperFacts {
  wf_copy_default : bool;         (* default of [as_deepcopy] *)
  wf_copy_guard : bool;           (* first statement is [if as_deepcopy: model = deepcopy(model)] *)
  wf_scale_default : bool;        (* default of [standard_scale] *)
  wf_routing : bool;              (* p_names / v_names comprehensions + _Settings construction *)
  wf_pack : bool;                 (* OptimisationState -> Fit(model, best_pars, loss) / error passthrough *)
  wf_default_rmse : bool;
  wf_default_residual : bool;
  wf_pre_copy : list upd_phase }. (* updates applied to the CALLER's object in front of the copy guard
                                     (none in the shipped code; [UpdY0] = an early [model.update_variables(y0)]) *)
Record fit_facts := mkFitFacts {
  ff_args_unscaled : arg_order; ff_args_scaled : arg_order; ff_scale_shape : bool;
  ff_res_steady : residual_facts; ff_res_tc : residual_facts; ff_res_proto : residual_facts;
  ff_wr_steady : wrapper_facts; ff_wr_tc : wrapper_facts; ff_wr_proto : wrapper_facts;
  ff_bound_lo : Q; ff_bound_hi : Q;
  ff_scipy_call : bool; ff_scipy_pack : bool; ff_pack_updates : bool;
  ff_batch_vars : batch_mode;     (* Model.update_variables  (used for y0) *)
  ff_batch_pars : batch_mode }.   (* Model.update_parameters (used by the protocol simulation, one call per step) *)

Inductive fit_kind := KSteady | KTimeCourse | KProtocol.
Definition res_facts (ff : fit_facts) (k : fit_kind) : residual_facts :=
  match k with KSteady => ff_res_steady ff | KTimeCourse => ff_res_tc ff | KProtocol => ff_res_proto ff end.
Definition wr_facts (ff : fit_facts) (k : fit_kind) : wrapper_facts :=
  match k with KSteady => ff_wr_steady ff | KTimeCourse => ff_wr_tc ff | KProtocol => ff_wr_proto ff end.

Inductive err := ErrKey | ErrValue | ErrUnmodelled.
Definition err_eqb (a b : err) : bool :=
  match a, b with ErrKey, ErrKey | ErrValue, ErrValue | ErrUnmodelled, ErrUnmodelled => true | _, _ => false end.

(** association lists = Python dicts in insertion order *)
Fixpoint lookup {A} (k : name) (l : list (name * A)) : option A :=
  match l with [] => None | (k', v) :: r => if N.eqb k k' then Some v else lookup k r end.
Definition keys {A} (l : list (name * A)) : list name := map fst l.
Definition set_key {A} (k : name) (v : A) (l : list (name * A)) : list (name * A) :=
  map (fun e => if N.eqb (fst e) k then (fst e, v) else e) l.

Fixpoint mapM {A B} (f : A -> option B) (l : list A) : option (list B) :=
  match l with
  | [] => Some []
  | x :: r => match f x, mapM f r with Some y, Some ys => Some (y :: ys) | _, _ => None end
  end.

(** [for n in names: container[n] = valof[n]] with Python's two KeyErrors ([valof[n]] missing;
    [update_*] on an unknown name); the partially updated container is returned in either case *)
Fixpoint seq_update {A} (names : list name) (valof : name -> option A) (l : list (name * A))
  : list (name * A) * option err :=
  match names with
  | [] => (l, None)
  | n :: r =>
      match valof n with
      | None => (l, Some ErrKey)
      | Some v => if memN n (keys l) then seq_update r valof (set_key n v l) else (l, Some ErrKey)
      end
  end.

(** [container.update_<batch>(dict)] under the three shapes of the batch editor *)
Definition batch_update {A} (mode : batch_mode) (names : list name) (valof : name -> option A) (l : list (name * A))
  : list (name * A) * option err :=
  match mode with
  | BatchFold => seq_update names valof l
  | BatchValidated => if forallb (fun n => memN n (keys l)) names then seq_update names valof l else (l, Some ErrKey)
  | BatchUnknown => (l, Some ErrUnmodelled)
  end.

Section Fit.
  Context {T : Type} (O : num_ops T).

  Definition frame := list (list T).          (* columns *)

  (** *** [_Settings.loss] *)
  Definition col_std (c : list T) : T :=       (* pandas [.std()]: ddof = 1 *)
    let m := vmean O c in
    o_sqrt O (o_div O (vsum O (vmap (fun x => o_sq O (o_sub O m x)) c))
                      (o_ofZ O (Z.of_nat (length c) - 1))).
  Definition scale_col (ref c : list T) : list T :=
    vbin_r (o_div O) (vbin_r (o_sub O) c (vmean O ref)) (col_std ref).
  Definition scale_frame (ref f : frame) : frame :=
    map (fun rc => scale_col (fst rc) (snd rc)) (combine ref f).
  Definition apply_loss (ord : arg_order) (L : list T -> list T -> T) (data pred : list T) : option T :=
    match ord with
    | DataFirst => Some (L data pred)
    | PredFirst => Some (L pred data)
    | ArgsUnknown => None
    end.
  Definition settings_loss (ff : fit_facts) (L : list T -> list T -> T) (standard_scale : bool)
             (data pred : frame) : option T :=
    if standard_scale
    then apply_loss (ff_args_scaled ff) L (concat (scale_frame data data)) (concat (scale_frame data pred))
    else apply_loss (ff_args_unscaled ff) L (concat data) (concat pred).

  (** *** kinetic models and the exact Euler integrator *)
  Inductive rate := RConst (p : name) | RMassAct (p : name) (x : name).   (* k ;  k * x *)
  Record rxn := mkRxn { r_name : name; r_rate : rate; r_stoich : list (name * Q) }.
  Record mstate := mkState { ms_pars : list (name * T); ms_vars : list (name * T) }.

  Definition flux (pars y : list (name * T)) (r : rxn) : option T :=
    match r_rate r with
    | RConst p => lookup p pars
    | RMassAct p x => match lookup p pars, lookup x y with Some k, Some s => Some (o_mul O k s) | _, _ => None end
    end.
  Definition deriv (pars y : list (name * T)) (rxns : list rxn) (v : name) : option T :=
    fold_left (fun acc r =>
                 match acc, lookup v (r_stoich r) with
                 | None, _ => None
                 | Some a, None => Some a
                 | Some a, Some c => match flux pars y r with Some f => Some (o_add O a (o_mul O (o_ofQ O c) f)) | None => None end
                 end) rxns (Some (o_zero O)).
  Definition euler_step (pars : list (name * T)) (rxns : list rxn) (h : Q) (y : list (name * T))
    : option (list (name * T)) :=
    mapM (fun e => match deriv pars y rxns (fst e) with
                   | Some d => Some (fst e, o_add O (snd e) (o_mul O (o_ofQ O h) d))
                   | None => None end) y.
  (** one combined row: variables then fluxes, as [Simulation.get_combined] *)
  Definition combined_row (pars : list (name * T)) (rxns : list rxn) (y : list (name * T))
    : option (list (name * T)) :=
    match mapM (fun r => match flux pars y r with Some f => Some (r_name r, f) | None => None end) rxns with
    | Some fl => Some (y ++ fl)
    | None => None
    end.
  (** Euler through the points [pts] starting at [(t, y)]; returns the states AT the points *)
  Fixpoint euler_through (pars : list (name * T)) (rxns : list rxn) (t : Q) (y : list (name * T)) (pts : list Q)
    : option (list (Q * list (name * T))) :=
    match pts with
    | [] => Some []
    | p :: r =>
        match euler_step pars rxns (p - t) y with
        | None => None
        | Some y' => match euler_through pars rxns p y' r with Some rows => Some ((p, y') :: rows) | None => None end
        end
    end.
  Fixpoint iter_euler (n : nat) (pars : list (name * T)) (rxns : list rxn) (h : Q) (y : list (name * T)) :=
    match n with
    | 0%nat => Some y
    | S k => match euler_step pars rxns h y with Some y' => iter_euler k pars rxns h y' | None => None end
    end.
  Definition steady_steps : nat := 4.
  Definition steady_h : Q := 1 # 2.

  (** *** settings of one fit *)
  Record settings := mkSettings {
    s_rxns : list rxn;
    s_names : list name;                   (* data.index (steady state) / data.columns *)
    s_times : list Q;                      (* data.index (time course, protocol) *)
    s_data : frame;                        (* columns; a steady-state Series is ONE column *)
    s_y0 : option (list (name * T));
    s_p_names : list name; s_v_names : list name;
    s_scale : bool;
    s_proto_names : list name;             (* protocol.columns *)
    s_proto : list (Q * list T);           (* (end time, values) per step *)
    s_loss : list T -> list T -> T }.

  Inductive rloss := RVal (v : T) | RInf | RErr (e : err).

  Definition apply_phase (ff : fit_facts) (S : settings) (u : list (name * T)) (ph : upd_phase) (st : mstate) : mstate * option err :=
    match ph with
    | UpdY0 =>
        match s_y0 S with
        | None => (st, None)
        | Some y0 => let '(v, e) := batch_update (ff_batch_vars ff) (keys y0) (fun n => lookup n y0) (ms_vars st) in (mkState (ms_pars st) v, e)
        end
    | UpdPars => let '(p, e) := seq_update (s_p_names S) (fun n => lookup n u) (ms_pars st) in (mkState p (ms_vars st), e)
    | UpdVars => let '(v, e) := seq_update (s_v_names S) (fun n => lookup n u) (ms_vars st) in (mkState (ms_pars st) v, e)
    end.
  Fixpoint apply_phases (ff : fit_facts) (S : settings) (u : list (name * T)) (phs : list upd_phase) (st : mstate) : mstate * option err :=
    match phs with
    | [] => (st, None)
    | ph :: r => match apply_phase ff S u ph st with
                 | (st', None) => apply_phases ff S u r st'
                 | (st', Some e) => (st', Some e)
                 end
    end.

  (** prediction = selected columns of the combined rows; [None] = KeyError of [.loc] *)
  Definition select_cols (names : list name) (rows : list (list (name * T))) : option frame :=
    mapM (fun n => mapM (fun row => lookup n row) rows) names.

  Definition all_some {A} (l : list (option A)) : option (list A) := mapM (fun x => x) l.

  Definition Qleb (a b : Q) : bool := Qle_bool a b.
  Definition Qltb (a b : Q) : bool := negb (Qle_bool b a).
  Fixpoint sorted_from (t : Q) (pts : list Q) : bool :=
    match pts with [] => true | p :: r => Qltb t p && sorted_from p r end.
  Definition last_q (l : list Q) : option Q := match rev l with [] => None | x :: _ => Some x end.

  (** simulation outcome of one residual call: the (possibly further mutated) model and either the
      rows of [get_combined()] WITH their time index, a failed simulation, or an exception *)
  Inductive sim_out := SimRows (rows : list (Q * list (name * T))) | SimFail | SimErr (e : err).

  Definition sim_steady (S : settings) (st : mstate) : mstate * sim_out :=
    match iter_euler steady_steps (ms_pars st) (s_rxns S) steady_h (ms_vars st) with
    | Some y => match combined_row (ms_pars st) (s_rxns S) y with
                | Some row => (st, SimRows [(inject_Z (Z.of_nat steady_steps) * steady_h, row)])
                | None => (st, SimErr ErrKey)
                end
    | None => (st, SimErr ErrKey)
    end.

  (** [Simulator.simulate_time_course] on a FRESH simulator + the integrator's insertion of t0 = 0 *)
  Definition sim_time_course (S : settings) (st : mstate) : mstate * sim_out :=
    match s_times S with
    | [] => (st, SimErr ErrUnmodelled)
    | t1 :: rest =>
        if negb (Qleb 0 t1 && sorted_from t1 rest) then (st, SimErr ErrUnmodelled) else
        match last_q (s_times S) with
        | None => (st, SimErr ErrUnmodelled)
        | Some tl =>
            if Qleb tl 0 then (st, SimErr ErrValue) else
            let pts := if Qeq_bool t1 0 then rest else s_times S in
            match combined_row (ms_pars st) (s_rxns S) (ms_vars st),
                  euler_through (ms_pars st) (s_rxns S) 0 (ms_vars st) pts with
            | Some row0, Some rows =>
                match mapM (fun ty => match combined_row (ms_pars st) (s_rxns S) (snd ty) with
                                      | Some r => Some (fst ty, r) | None => None end) rows with
                | Some rows' => (st, SimRows ((0, row0) :: rows'))
                | None => (st, SimErr ErrKey)
                end
            | _, _ => (st, SimErr ErrKey)
            end
        end
    end.

  (** [Simulator.simulate_protocol_time_course]: per step the protocol's parameters are written into
      the SHARED model, then the integrator continues through the points of (t_start, t_end] *)
  Fixpoint insert_sorted (x : Q) (l : list Q) : list Q :=
    match l with
    | [] => [x]
    | y :: r => if Qeq_bool x y then l else if Qltb x y then x :: l else y :: insert_sorted x r
    end.
  Fixpoint proto_steps (ff : fit_facts) (S : settings) (steps : list (Q * list T)) (full : list Q)
           (st : mstate) (t : Q) (y : list (name * T)) (acc : list (Q * list (name * T)))
    : mstate * sim_out :=
    match steps with
    | [] => (st, SimRows (rev acc))
    | (t_end, vals) :: r =>
        let '(p, e) := batch_update (ff_batch_pars ff) (s_proto_names S) (fun n => lookup n (combine (s_proto_names S) vals)) (ms_pars st) in
        let st' := mkState p (ms_vars st) in
        match e with
        | Some e => (st', SimErr e)
        | None =>
            let pts := filter (fun q => Qltb t q && Qleb q t_end) full in
            match pts with
            | [] => (st', SimErr ErrUnmodelled)
            | _ =>
                match euler_through p (s_rxns S) t y pts with
                | None => (st', SimErr ErrKey)
                | Some rows =>
                    match mapM (fun ty => match combined_row p (s_rxns S) (snd ty) with
                                          | Some r => Some (fst ty, r) | None => None end) rows with
                    | None => (st', SimErr ErrKey)
                    | Some rows' =>
                        let first := match acc with
                                     | [] => match combined_row p (s_rxns S) y with Some r0 => [(t, r0)] | None => [] end
                                     | _ => [] end in
                        match last rows (t, y) with
                        | (t', y') => proto_steps ff S r full st' t' y' (rev rows' ++ rev first ++ acc)
                        end
                    end
                end
            end
        end
    end.
  Definition sim_protocol (ff : fit_facts) (S : settings) (st : mstate) : mstate * sim_out :=
    match s_proto S, last_q (s_times S) with
    | [], _ | _, None => (st, SimErr ErrUnmodelled)
    | steps, Some tl =>
        if Qleb tl 0 then (st, SimErr ErrValue) else
        if negb (sorted_from 0 (map fst steps)) then (st, SimErr ErrUnmodelled) else
        let full := fold_right insert_sorted [] (map fst steps ++ s_times S) in
        proto_steps ff S steps full st 0 (ms_vars st) []
    end.

  Definition simulate (ff : fit_facts) (k : fit_kind) (S : settings) (st : mstate) : mstate * sim_out :=
    match k with
    | KSteady => sim_steady S st
    | KTimeCourse => sim_time_course S st
    | KProtocol => sim_protocol ff S st
    end.

  Definition qlist_eqb (a b : list Q) : bool := list_eqb Qeq_bool a b.

  (** the prediction handed to [_Settings.loss]; the model is only defined when the prediction's
      row index coincides with the data's (otherwise pandas aligns and NaN-skips: not modelled) *)
  Definition prediction (sel : select_axis) (k : fit_kind) (S : settings) (rows : list (Q * list (name * T))) : option frame + err :=
    match k, sel with
    | KSteady, SelDataIndex =>
        (* data is a Series over names; the one predicted row is read along the same names *)
        match rows with
        | [(_, row)] => match mapM (fun n => lookup n row) (s_names S) with
                        | Some v => inl (Some [v]) | None => inr ErrKey end
        | _ => inr ErrUnmodelled
        end
    | KTimeCourse, SelDataColumns | KProtocol, SelDataColumns =>
        if negb (qlist_eqb (map fst rows) (s_times S)) then inr ErrUnmodelled else
        match select_cols (s_names S) (map snd rows) with
        | Some f => inl (Some f) | None => inr ErrKey end
    | _, _ => inr ErrUnmodelled
    end.

  (** what the residual returns for a simulation outcome (a pure function of the outcome) *)
  Definition score (ff : fit_facts) (k : fit_kind) (S : settings) (out : sim_out) : rloss :=
    let rf := res_facts ff k in
    match out with
    | SimErr e => RErr e
    | SimFail => match rf_fail rf with FailInf => RInf | FailUnknown => RErr ErrUnmodelled end
    | SimRows rows =>
        match prediction (rf_select rf) k S rows with
        | inr e => RErr e
        | inl None => RErr ErrUnmodelled
        | inl (Some pred) =>
            match settings_loss ff (s_loss S) (s_scale S) (s_data S) pred with
            | Some v => RVal v
            | None => RErr ErrUnmodelled
            end
        end
    end.

  Definition residual_step (ff : fit_facts) (k : fit_kind) (S : settings) (st : mstate) (u : list (name * T))
    : mstate * rloss :=
    match apply_phases ff S u (rf_order (res_facts ff k)) st with
    | (st1, Some e) => (st1, RErr e)
    | (st1, None) => let '(st2, out) := simulate ff k S st1 in (st2, score ff k S out)
    end.

  (** *** minimisers as strategy trees *)
  Inductive strat :=
  | Ask (u : list (name * T)) (k : rloss -> strat)
  | Done (r : option (list (name * T) * T))       (* OptimisationState(parameters, residual) | failure *)
  | Raise (e : err).

  Inductive run_result := RunDone (r : option (list (name * T) * T)) | RunRaised (e : err).

  Fixpoint run_strat (step : mstate -> list (name * T) -> mstate * rloss) (s : strat) (st : mstate)
    : mstate * run_result :=
    match s with
    | Done r => (st, RunDone r)
    | Raise e => (st, RunRaised e)
    | Ask u k =>
        match step st u with
        | (st', RErr e) => (st', RunRaised e)       (* the exception leaves the minimiser *)
        | (st', l) => run_strat step (k l) st'
        end
    end.

  (** *** the fit wrappers *)
  Inductive fit_outcome :=
  | FitOk (fit_model : mstate) (best_pars : list (name * T)) (loss : T)
  | FitFailed
  | FitRaised (e : err).

  Definition route (S : settings) (caller : mstate) (p0 : list (name * T)) : settings :=
    mkSettings (s_rxns S) (s_names S) (s_times S) (s_data S) (s_y0 S)
               (filter (fun n => memN n (keys (ms_pars caller))) (keys p0))
               (filter (fun n => memN n (keys (ms_vars caller))) (keys p0))
               (s_scale S) (s_proto_names S) (s_proto S) (s_loss S).

  (** returns (the CALLER's model afterwards, outcome).  Statements in front of the copy guard
      ([wf_pre_copy], with [p0] as the update dictionary) act on the caller's own object; an exception
      there leaves the wrapper before anything else happens *)
  Definition fit (ff : fit_facts) (k : fit_kind) (S : settings) (as_deepcopy : option bool)
             (caller : mstate) (p0 : list (name * T)) (minimiser : list (name * T) -> strat)
    : mstate * fit_outcome :=
    let wf := wr_facts ff k in
    let copy := wf_copy_guard wf && match as_deepcopy with Some b => b | None => wf_copy_default wf end in
    let S' := route S caller p0 in
    match apply_phases ff S' p0 (wf_pre_copy wf) caller with
    | (caller1, Some e) => (caller1, FitRaised e)
    | (caller1, None) =>
        let '(st', r) := run_strat (residual_step ff k S') (minimiser p0) caller1 in
        (if copy then caller1 else st',
         match r with
         | RunDone (Some (x, v)) => FitOk st' x v
         | RunDone None => FitFailed
         | RunRaised e => FitRaised e
         end)
    end.

  (** *** [LocalScipyMinimizer.__call__] around an arbitrary positional optimiser *)
  Inductive vstrat :=
  | VAsk (x : list T) (k : rloss -> vstrat)
  | VDone (success : bool) (x : list T) (f : T).
  Fixpoint lift_vstrat (names : list name) (s : vstrat) : strat :=
    match s with
    | VAsk x k =>
        if Nat.eqb (length x) (length names)
        then Ask (combine names x) (fun l => lift_vstrat names (k l))
        else Raise ErrValue                                   (* zip(..., strict=True) *)
    | VDone ok x f =>
        if ok then (if Nat.eqb (length x) (length names) then Done (Some (combine names x, f)) else Raise ErrValue)
        else Done None
    end.
  (** the interval of ONE parameter: the user's entry for that NAME, else the default *)
  Definition bound_for (ff : fit_facts) (bounds : list (name * (T * T))) (n : name) : T * T :=
    match lookup n bounds with
    | Some b => b
    | None => (o_ofQ O (ff_bound_lo ff), o_ofQ O (ff_bound_hi ff))
    end.
  (** [[bounds.get(name, default) for name in p0]]: position i carries the interval of the i-th NAME of p0 *)
  Definition aligned_bounds (ff : fit_facts) (bounds : list (name * (T * T))) (names : list name) : list (T * T) :=
    map (bound_for ff bounds) names.
  (** projection of a point into a box, coordinate by coordinate (what a box-constrained optimiser does
      with its start; [clip1] is the carrier's projection of one value into one interval) *)
  Definition clip_box (clip1 : T * T -> T -> T) (bl : list (T * T)) (x : list T) : list T :=
    map (fun bv => clip1 (fst bv) (snd bv)) (combine bl x).
  Definition local_scipy_minimizer (ff : fit_facts)
             (scipy_minimize : list T -> list (T * T) -> vstrat)
             (bounds : list (name * (T * T))) (p0 : list (name * T)) : strat :=
    if ff_scipy_call ff && ff_scipy_pack ff && ff_pack_updates ff
    then lift_vstrat (keys p0) (scipy_minimize (map snd p0) (aligned_bounds ff bounds (keys p0)))
    else Raise ErrUnmodelled.                                   (* unrecognised call shape: not modelled *)
End Fit.

Arguments RVal {T}. Arguments RInf {T}. Arguments RErr {T}.
Arguments Ask {T}. Arguments Done {T}. Arguments Raise {T}.
Arguments VAsk {T}. Arguments VDone {T}.
Arguments FitOk {T}. Arguments FitFailed {T}. Arguments FitRaised {T}.
Arguments mkState {T}. Arguments ms_pars {T}. Arguments ms_vars {T}.
Arguments RunDone {T}. Arguments RunRaised {T}.
