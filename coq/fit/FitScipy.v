(** C20 -- [LocalScipyMinimizer.__call__] for EVERY local method (no proofs in this file).

    [FitModel.local_scipy_minimizer] models the wrapper around a positional optimiser that is always handed
    a box.  SciPy's local methods fall into two classes: those that honour [bounds=] (Nelder-Mead, Powell,
    L-BFGS-B, TNC, COBYLA, COBYQA, SLSQP, trust-constr) and those that IGNORE it with a RuntimeWarning
    (CG, BFGS, Newton-CG, dogleg, the trust-region family).  The shipped wrapper does not look at [self.method] at all:
    it hands the box to SciPy for every method and packs [res.x] / [res.fun] untouched.  What it does with
    the method is a REGENERATED fact ([scipy_shape], [gen_scipy_shape] in GenFitFacts.v):

    - [BoundsAlways] / [PackResX]                 the shipped code;
    - [BoundsIfHonoured] / [PackClippedIfIgnored]  the shape of seeded change C20-8: the box is handed over
      only when the method honours it, otherwise [bounds=None] and the answer [res.x] is projected into the
      box AFTER the optimisation ([np.clip]) while [res.fun] -- the loss at the UNprojected point -- is
      reported unchanged.

    The positional optimiser is external: an arbitrary function from (x0, optional box) to a strategy tree.
    [honours] stands for [self.method in _BOUNDED_LOCAL_METHODS]; the shipped shape never consults it. *)
From Coq Require Import List ZArith NArith QArith Bool.
From MxlBase Require Import ListX.
From Fit Require Import LossOps FitModel.
Import ListNotations.

Inductive bounds_arg := BoundsAlways | BoundsIfHonoured | BoundsArgUnknown.
Inductive pack_x := PackResX | PackClippedIfIgnored | PackXUnknown.
Record scipy_shape := mkScipyShape { ss_bounds : bounds_arg; ss_pack : pack_x }.

Section Methods.
  Context {T : Type} (O : num_ops T).

  (** post-processing of the optimiser's answer in the success branch ([if res.success: ... res.x ...]) *)
  Fixpoint vmap_answer (f : list T -> list T) (s : vstrat (T:=T)) : vstrat (T:=T) :=
    match s with
    | VAsk x k => VAsk x (fun l => vmap_answer f (k l))
    | VDone ok x v => VDone ok (if ok then f x else x) v
    end.

  Definition local_scipy_minimizer_m (ff : fit_facts) (sh : scipy_shape) (honours : bool)
             (scipy_minimize : list T -> option (list (T * T)) -> vstrat (T:=T))
             (clip1 : T * T -> T -> T)
             (bounds : list (name * (T * T))) (p0 : list (name * T)) : strat (T:=T) :=
    let box := aligned_bounds O ff bounds (keys p0) in
    if negb (ff_pack_updates ff) then Raise ErrUnmodelled else
    match ss_bounds sh, ss_pack sh with
    | BoundsAlways, PackResX =>
        lift_vstrat (keys p0) (scipy_minimize (map snd p0) (Some box))
    | BoundsIfHonoured, PackClippedIfIgnored =>
        if honours
        then lift_vstrat (keys p0) (scipy_minimize (map snd p0) (Some box))
        else lift_vstrat (keys p0) (vmap_answer (clip_box clip1 box) (scipy_minimize (map snd p0) None))
    | _, _ => Raise ErrUnmodelled                                  (* unrecognised shape: not modelled *)
    end.
End Methods.

Definition shipped_scipy_shape : scipy_shape := mkScipyShape BoundsAlways PackResX.
(** seeded change C20-8 *)
Definition clipping_scipy_shape : scipy_shape := mkScipyShape BoundsIfHonoured PackClippedIfIgnored.
