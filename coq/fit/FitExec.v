(** C20 -- executable instance ([option Q]) of the fit model, used by the correspondence files
    (coq/fit/corr/*.v written by harness/c20.py).  No proofs. *)
From Coq Require Import List ZArith NArith QArith Bool String.
From MxlBase Require Import ListX.
From Fit Require Import LossOps GenLosses FitModel GenFitFacts.
Import ListNotations.

Definition qv (q : Q) : oQ := Some (Qred q).
Definition alist := list (name * oQ).
Definition al (l : list (name * Q)) : alist := map (fun e => (fst e, qv (snd e))) l.

Definition alist_eqb (a b : alist) : bool :=
  list_eqb (fun x y => N.eqb (fst x) (fst y) && oq_eqb (snd x) (snd y)) a b.
Definition mstate_eqb (a b : mstate (T:=oQ)) : bool :=
  alist_eqb (ms_pars a) (ms_pars b) && alist_eqb (ms_vars a) (ms_vars b).

(** observed residual values: exact rational | +inf | exception class *)
Inductive obs := OVal (q : Q) | OInf | OErr (e : err).
Definition obs_eqb (o : obs) (l : rloss (T:=oQ)) : bool :=
  match o, l with
  | OVal q, RVal (Some v) => Qeq_bool q v
  | OInf, RInf => true
  | OErr e, RErr e' => err_eqb e e'
  | _, _ => false
  end.

Definition loss_by_name (n : string) : option (list oQ -> list oQ -> oQ) :=
  match find (fun e => String.eqb (fst e) n) (gen_losses QoOps) with
  | Some e => Some (snd e) | None => None end.

(** *** loss cases: (loss name, first argument, second argument, observed value (None = not finite)) *)
Definition loss_case := (string * list Q * list Q * option Q)%type.
Definition loss_case_ok (c : loss_case) : bool :=
  match c with
  | (n, a, b, o) =>
      match loss_by_name n with
      | None => false
      | Some L => match L (map qv a) (map qv b), o with
                  | Some v, Some q => Qeq_bool v q
                  | None, None => true
                  | _, _ => false
                  end
      end
  end.

(** *** [_Settings.loss] cases *)
Definition sloss_case := (string * bool * list (list Q) * list (list Q) * option Q)%type.
Definition sloss_case_ok (c : sloss_case) : bool :=
  match c with
  | (n, sc, data, pred, o) =>
      match loss_by_name n with
      | None => false
      | Some L =>
          match settings_loss QoOps gen_fit_facts L sc (map (map qv) data) (map (map qv) pred), o with
          | Some (Some v), Some q => Qeq_bool v q
          | Some None, None => true
          | _, _ => false
          end
      end
  end.

(** *** residual histories: the shared model is threaded through successive calls *)
Record res_case := mkResCase {
  rc_kind : fit_kind; rc_loss : string; rc_settings : (list oQ -> list oQ -> oQ) -> settings (T:=oQ);
  rc_start : mstate (T:=oQ);
  rc_calls : list (list (name * Q) * obs);       (* candidate, observed residual *)
  rc_final : mstate (T:=oQ) }.                   (* observed content of settings.model afterwards *)
Fixpoint res_calls_ok (step : mstate -> alist -> mstate * rloss) (st : mstate (T:=oQ))
         (calls : list (list (name * Q) * obs)) : bool * mstate :=
  match calls with
  | [] => (true, st)
  | (u, o) :: r => let '(st', l) := step st (al u) in
                   if obs_eqb o l then res_calls_ok step st' r else (false, st')
  end.
Definition res_case_ok (c : res_case) : bool :=
  match loss_by_name (rc_loss c) with
  | None => false
  | Some L =>
      let '(ok, st) := res_calls_ok (residual_step QoOps gen_fit_facts (rc_kind c) (rc_settings c L)) (rc_start c) (rc_calls c) in
      ok && mstate_eqb st (rc_final c)
  end.

(** *** wrapper cases with the harness' deterministic probe minimiser *)
Definition Qlt_bool (a b : Q) : bool := negb (Qle_bool b a).
Fixpoint probe_go (cands : list alist) (best : option (alist * Q)) : strat (T:=oQ) :=
  match cands with
  | [] => Done (match best with Some (u, q) => Some (u, Some q) | None => None end)
  | c :: r =>
      Ask c (fun l =>
               match l with
               | RVal (Some q) =>
                   probe_go r (match best with
                               | Some (_, b) => if Qlt_bool q b then Some (c, q) else best
                               | None => Some (c, q) end)
               | _ => probe_go r best
               end)
  end.
Definition scale_key (k : name) (f : Q) (p0 : alist) : alist :=
  map (fun e => if N.eqb (fst e) k then (fst e, lift2 Qmult (snd e) (Some f)) else e) p0.
Definition probe_minimiser (p0 : alist) : strat (T:=oQ) :=
  probe_go (p0 :: flat_map (fun k => [scale_key k 2 p0; scale_key k (1 # 2) p0]) (keys p0)) None.

(** the same probing, but through the model of LocalScipyMinimizer (positional vectors) *)
Fixpoint vprobe_go (cands : list (list oQ)) (best : option (list oQ * Q)) : vstrat (T:=oQ) :=
  match cands with
  | [] => match best with Some (x, q) => VDone true x (Some q) | None => VDone false [] None end
  | c :: r =>
      VAsk c (fun l =>
                match l with
                | RVal (Some q) =>
                    vprobe_go r (match best with
                                 | Some (_, b) => if Qlt_bool q b then Some (c, q) else best
                                 | None => Some (c, q) end)
                | _ => vprobe_go r best
                end)
  end.
Fixpoint scale_nth (i : nat) (f : Q) (x : list oQ) : list oQ :=
  match x, i with
  | [], _ => []
  | v :: r, 0%nat => lift2 Qmult v (Some f) :: r
  | v :: r, S j => v :: scale_nth j f r
  end.
(** projection of one value into one interval: [np.minimum(np.maximum(v, lo), hi)] *)
Definition oq_clip (b : oQ * oQ) (v : oQ) : oQ :=
  match fst b, snd b, v with
  | Some lo, Some hi, Some x =>
      let y := if Qlt_bool x lo then lo else x in Some (if Qlt_bool hi y then hi else y)
  | _, _, _ => None
  end.
(** the harness' positional stand-in for scipy.optimize.minimize: like a box-constrained optimiser it projects
    every candidate (the start first) into the box it was handed *)
Definition vprobe (x0 : list oQ) (bl : list (oQ * oQ)) : vstrat (T:=oQ) :=
  vprobe_go (map (clip_box oq_clip bl)
                 (x0 :: flat_map (fun i => [scale_nth i 2 x0; scale_nth i (1 # 2) x0]) (seq 0 (length x0)))) None.
Definition qbounds (l : list (name * (Q * Q))) : list (name * (oQ * oQ)) :=
  map (fun e => (fst e, (qv (fst (snd e)), qv (snd (snd e))))) l.

Inductive fit_obs := FOk (fit_model : mstate (T:=oQ)) (best : list (name * Q)) (loss : Q) | FFailed | FRaised (e : err).
Definition fit_obs_eqb (o : fit_obs) (r : fit_outcome (T:=oQ)) : bool :=
  match o, r with
  | FOk m b l, FitOk m' b' (Some l') => mstate_eqb m m' && alist_eqb (al b) b' && Qeq_bool l l'
  | FFailed, FitFailed => true
  | FRaised e, FitRaised e' => err_eqb e e'
  | _, _ => false
  end.
Record fit_case := mkFitCase {
  fc_kind : fit_kind; fc_loss : string; fc_settings : (list oQ -> list oQ -> oQ) -> settings (T:=oQ);
  fc_copy : option bool; fc_caller : mstate (T:=oQ); fc_p0 : list (name * Q);
  fc_via_scipy : bool;                             (* probe wrapped in LocalScipyMinimizer's packing *)
  fc_bounds : list (name * (Q * Q));               (* the caller's bounds dictionary, in ITS order *)
  fc_caller_after : mstate (T:=oQ); fc_obs : fit_obs }.
Definition fit_case_ok (c : fit_case) : bool :=
  match loss_by_name (fc_loss c) with
  | None => false
  | Some L =>
      let mini := if fc_via_scipy c then local_scipy_minimizer QoOps gen_fit_facts vprobe (qbounds (fc_bounds c)) else probe_minimiser in
      let '(after, out) := fit QoOps gen_fit_facts (fc_kind c) (fc_settings c L) (fc_copy c) (fc_caller c) (al (fc_p0 c)) mini in
      mstate_eqb after (fc_caller_after c) && fit_obs_eqb (fc_obs c) out
  end.

(** *** what LocalScipyMinimizer hands to scipy.optimize.minimize: (names of p0, x0, bounds list) observed by a
    recording stand-in; the default bounds are compared as the regenerated constants *)
Record bnd_case := mkBndCase {
  bc_p0 : list (name * Q); bc_bounds : list (name * (Q * Q));
  bc_x0 : list Q; bc_list : list (option (Q * Q)) }.      (* None = the default interval *)
Definition bnd_case_ok (c : bnd_case) : bool :=
  let dflt := (Some (Qred (ff_bound_lo gen_fit_facts)), Some (Qred (ff_bound_hi gen_fit_facts))) in
  let model := aligned_bounds QoOps gen_fit_facts (qbounds (bc_bounds c)) (keys (bc_p0 c)) in
  list_eqb (fun (a : oQ * oQ) b => oq_eqb (fst a) (fst b) && oq_eqb (snd a) (snd b)) model
           (map (fun o => match o with Some (lo, hi) => (qv lo, qv hi) | None => dflt end) (bc_list c))
  && list_eqb Qeq_bool (map snd (bc_p0 c)) (bc_x0 c).

