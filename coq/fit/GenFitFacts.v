(* REGENERATED from src/mxlpy/fit/abstract.py, fit/routines.py, minimizers/_scipy.py, model.py (batch editors) by harness/c20_gen.py
   -- do not edit.  Unrecognised shapes yield *Unknown / false, which breaks C20_fit_facts_pinned. *)
From Coq Require Import List QArith String.
From Fit Require Import LossOps FitModel FitScipy.
Import ListNotations.
Open Scope string_scope.
Definition gen_fit_facts : fit_facts :=
  mkFitFacts DataFirst DataFirst true
    (mkResidualFacts [UpdY0; UpdPars; UpdVars] SelDataIndex FailInf true true)
    (mkResidualFacts [UpdY0; UpdPars; UpdVars] SelDataColumns FailInf true true)
    (mkResidualFacts [UpdY0; UpdPars; UpdVars] SelDataColumns FailInf true true)
    (mkWrapperFacts true true true true true true true [])
    (mkWrapperFacts true true true true true true true [])
    (mkWrapperFacts true true true true true true true [])
    (1 # 1000000) (1000000 # 1) true true true BatchValidated BatchValidated.
(* what LocalScipyMinimizer.__call__ does with self.method: which methods get the box, how res.x is packed *)
Definition gen_scipy_shape : scipy_shape := mkScipyShape BoundsAlways PackResX.
Definition gen_source_digests : list (string * string) := [
  ("_Settings", "7ef6c219b20dd642");
  ("steady_state_residual", "891bbf419b57fa68");
  ("time_course_residual", "e3933b0eeb64114b");
  ("protocol_time_course_residual", "8dd50a22a156e572");
  ("steady_state", "9f1c585c35774991");
  ("time_course", "00cfdee8535ecb01");
  ("protocol_time_course", "cce95a4a460e0b60");
  ("_pack_updates", "b465f9816022f54a");
  ("LocalScipyMinimizer.__call__", "c44182df70fff738")].
