(** C20 -- the loss LAWS, proved about the REGENERATED definitions of GenLosses.v instantiated at
    Coq's real numbers.  A changed formula in src/mxlpy/fit/losses.py changes GenLosses.v and breaks
    either the pointwise-form lemmas below or [C20_losses_pinned]. *)
From Coq Require Import List Reals Lra Lia QArith Qreals String.
From Fit Require Import LossOps GenLosses FitModel.
Import ListNotations.
Open Scope R_scope.

Definition sumR (l : list R) : R := fold_right Rplus 0 l.
Definition meanR (l : list R) : R := sumR l / INR (List.length l).

Lemma Q2R_inject_Z z : Q2R (inject_Z z) = IZR z.
Proof. unfold Q2R, inject_Z. cbn. rewrite Rinv_1. ring. Qed.
Lemma Q2R_1 : Q2R (1 # 1) = 1.
Proof. unfold Q2R. cbn. rewrite Rinv_1. ring. Qed.
Lemma Q2R_100 : Q2R (100 # 1) = 100.
Proof. unfold Q2R. cbn. rewrite Rinv_1. ring. Qed.

Lemma vsum_R l : vsum ROps l = sumR l.
Proof. reflexivity. Qed.
Lemma vmean_R l : vmean ROps l = meanR l.
Proof.
  unfold vmean, meanR, vlen, o_ofZ. cbn [o_div o_ofQ ROps]. rewrite vsum_R, Q2R_inject_Z, <- INR_IZR_INZ. reflexivity.
Qed.

Lemma inv_INR_nonneg n : 0 <= / INR n.
Proof.
  destruct n as [|n].
  - simpl. rewrite Rinv_0. lra.
  - left. apply Rinv_0_lt_compat. apply lt_0_INR. lia.
Qed.

Lemma sumR_nonneg l : (forall x, In x l -> 0 <= x) -> 0 <= sumR l.
Proof.
  induction l as [|a l IH]; intros H; simpl; [lra|].
  assert (0 <= a) by (apply H; left; reflexivity).
  assert (0 <= sumR l) by (apply IH; intros; apply H; right; assumption). lra.
Qed.
Lemma sumR_zero l : (forall x, In x l -> x = 0) -> sumR l = 0.
Proof.
  induction l as [|a l IH]; intros H; simpl; [reflexivity|].
  rewrite (H a) by (left; reflexivity). rewrite IH; [ring|]. intros; apply H; right; assumption.
Qed.
Lemma sumR_map_le {A} (f g : A -> R) l :
  (forall x, In x l -> f x <= g x) -> sumR (map f l) <= sumR (map g l).
Proof.
  induction l as [|a l IH]; intros H; simpl; [lra|].
  assert (f a <= g a) by (apply H; left; reflexivity).
  assert (sumR (map f l) <= sumR (map g l)) by (apply IH; intros; apply H; right; assumption). lra.
Qed.

Lemma meanR_nonneg l : (forall x, In x l -> 0 <= x) -> 0 <= meanR l.
Proof. intros H. unfold meanR, Rdiv. apply Rmult_le_pos; [apply sumR_nonneg; exact H | apply inv_INR_nonneg]. Qed.
Lemma meanR_zero l : (forall x, In x l -> x = 0) -> meanR l = 0.
Proof. intros H. unfold meanR. rewrite sumR_zero by exact H. unfold Rdiv. ring. Qed.
Lemma meanR_map_le {A} (f g : A -> R) l :
  (forall x, In x l -> f x <= g x) -> meanR (map f l) <= meanR (map g l).
Proof.
  intros H. unfold meanR, Rdiv. rewrite !map_length.
  apply Rmult_le_compat_r; [apply inv_INR_nonneg | apply sumR_map_le; exact H].
Qed.

(** ** list plumbing *)
Lemma combine_swap {A B} (a : list A) (b : list B) :
  combine b a = map (fun xy => (snd xy, fst xy)) (combine a b).
Proof. revert b; induction a as [|x a IH]; intros [|y b]; simpl; try reflexivity. rewrite IH. reflexivity. Qed.
Lemma combine_map2 {A B C D} (f : A -> C) (g : B -> D) a b :
  combine (map f a) (map g b) = map (fun xy => (f (fst xy), g (snd xy))) (combine a b).
Proof. revert b; induction a as [|x a IH]; intros [|y b]; simpl; try reflexivity. rewrite IH. reflexivity. Qed.
Lemma combine_map_r {A B D} (g : B -> D) (a : list A) b :
  combine a (map g b) = map (fun xy => (fst xy, g (snd xy))) (combine a b).
Proof. revert b; induction a as [|x a IH]; intros [|y b]; simpl; try reflexivity. rewrite IH. reflexivity. Qed.
Lemma combine_nested {A B C} (h : B * A -> C) (a : list A) (b : list B) :
  combine (map h (combine b a)) a = map (fun xy => (h (snd xy, fst xy), fst xy)) (combine a b).
Proof. revert b; induction a as [|x a IH]; intros [|y b]; simpl; try reflexivity. rewrite IH. reflexivity. Qed.
Lemma combine_diag {A} (a : list A) : combine a a = map (fun x => (x, x)) a.
Proof. induction a as [|x a IH]; simpl; [reflexivity|]. rewrite IH. reflexivity. Qed.

(** ** every well-behaved shipped loss is (a monotone function of) a mean of a pointwise penalty *)
Definition pw (phi : R -> R -> R) (a b : list R) : R :=
  meanR (map (fun xy => phi (fst xy) (snd xy)) (combine a b)).

Definition phi_sq (x y : R) : R := (x - y) * (x - y).
Definition phi_abs (x y : R) : R := Rabs (y - x).
Definition phi_pct (x y : R) : R := Rabs ((y - x) / x).
Definition phi_log (x y : R) : R := (ln (x + 1) - ln (y + 1)) * (ln (x + 1) - ln (y + 1)).

Lemma mean_squared_pw a b : loss_mean_squared ROps a b = pw phi_sq a b.
Proof.
  unfold loss_mean_squared, pw, vmap, vbin. rewrite vmean_R, map_map. reflexivity.
Qed.
Lemma rmse_pw a b : loss_rmse ROps a b = sqrt (pw phi_sq a b).
Proof.
  unfold loss_rmse, pw, vmap, vbin. rewrite vmean_R, map_map. reflexivity.
Qed.
Lemma mae_pw a b : loss_mae ROps a b = pw phi_abs a b.
Proof.
  unfold loss_mae, pw, vmap, vbin. rewrite vmean_R, map_map, (combine_swap a b), map_map. reflexivity.
Qed.
Lemma mape_pw a b : loss_mean_absolute_percentage ROps a b = 100 * pw phi_pct a b.
Proof.
  unfold loss_mean_absolute_percentage, pw, vmap, vbin. rewrite vmean_R. cbn [o_mul o_ofQ ROps].
  rewrite Q2R_100, map_map, combine_nested, map_map. reflexivity.
Qed.
Lemma msle_pw a b : loss_mean_squared_logarithmic ROps a b = pw phi_log a b.
Proof.
  unfold loss_mean_squared_logarithmic, pw, vmap, vbin, vbin_r. rewrite vmean_R. cbn [o_add o_ofQ o_ln o_sub ROps].
  rewrite !map_map, combine_map2, !map_map. unfold phi_log, o_sq. cbn [o_mul ROps fst snd]. rewrite Q2R_1. reflexivity.
Qed.

Lemma pw_nonneg phi a b : (forall x y, 0 <= phi x y) -> 0 <= pw phi a b.
Proof.
  intros H. unfold pw. apply meanR_nonneg. intros x Hx. apply in_map_iff in Hx. destruct Hx as [xy [<- _]]. apply H.
Qed.
Lemma pw_refl phi a : (forall x, phi x x = 0) -> pw phi a a = 0.
Proof.
  intros H. unfold pw. rewrite combine_diag, map_map. apply meanR_zero.
  intros x Hx. apply in_map_iff in Hx. destruct Hx as [y [<- _]]. simpl. apply H.
Qed.

Lemma phi_sq_nonneg x y : 0 <= phi_sq x y. Proof. unfold phi_sq. apply (Rle_0_sqr (x - y)). Qed.
Lemma phi_abs_nonneg x y : 0 <= phi_abs x y. Proof. apply Rabs_pos. Qed.
Lemma phi_pct_nonneg x y : 0 <= phi_pct x y. Proof. apply Rabs_pos. Qed.
Lemma phi_log_nonneg x y : 0 <= phi_log x y. Proof. unfold phi_log. apply (Rle_0_sqr (ln (x + 1) - ln (y + 1))). Qed.
Lemma phi_sq_refl x : phi_sq x x = 0. Proof. unfold phi_sq. ring. Qed.
Lemma phi_abs_refl x : phi_abs x x = 0. Proof. unfold phi_abs. rewrite Rminus_diag_eq by reflexivity. apply Rabs_R0. Qed.
Lemma phi_pct_refl x : phi_pct x x = 0.
Proof. unfold phi_pct. rewrite Rminus_diag_eq by reflexivity. unfold Rdiv. rewrite Rmult_0_l. apply Rabs_R0. Qed.
Lemma phi_log_refl x : phi_log x x = 0. Proof. unfold phi_log. ring. Qed.

(** *** law 1: nonnegative everywhere, zero when the two arguments coincide *)
Definition nonneg_refl (L : list R -> list R -> R) : Prop :=
  (forall a b, 0 <= L a b) /\ (forall a, L a a = 0).

Lemma mean_squared_nr : nonneg_refl (loss_mean_squared ROps).
Proof. split; intros; rewrite mean_squared_pw; [apply pw_nonneg, phi_sq_nonneg | apply pw_refl, phi_sq_refl]. Qed.
Lemma rmse_nr : nonneg_refl (loss_rmse ROps).
Proof.
  split; intros; rewrite rmse_pw.
  - apply sqrt_pos.
  - rewrite pw_refl by apply phi_sq_refl. apply sqrt_0.
Qed.
Lemma mae_nr : nonneg_refl (loss_mae ROps).
Proof. split; intros; rewrite mae_pw; [apply pw_nonneg, phi_abs_nonneg | apply pw_refl, phi_abs_refl]. Qed.
Lemma mape_nr : nonneg_refl (loss_mean_absolute_percentage ROps).
Proof.
  split; intros; rewrite mape_pw.
  - pose proof (pw_nonneg phi_pct a b phi_pct_nonneg). lra.
  - rewrite pw_refl by apply phi_pct_refl. ring.
Qed.
Lemma msle_nr : nonneg_refl (loss_mean_squared_logarithmic ROps).
Proof. split; intros; rewrite msle_pw; [apply pw_nonneg, phi_log_nonneg | apply pw_refl, phi_log_refl]. Qed.

Open Scope string_scope.
Definition known_bad (n : string) : Prop := n = "mean" \/ n = "cosine_similarity".
Close Scope string_scope.

Lemma good_losses_nr n L : In (n, L) (gen_losses ROps) -> ~ known_bad n -> nonneg_refl L.
Proof.
  unfold gen_losses, known_bad. intros H Hk. simpl in H.
  repeat (destruct H as [H|H]; [inversion H; subst; clear H|]); try contradiction;
    try (exfalso; apply Hk; auto; fail);
    first [apply mean_squared_nr | apply rmse_nr | apply mae_nr | apply mape_nr | apply msle_nr].
Qed.

(** law 1 in the form used by the residual functions: data first, prediction second, scaled or
    not; and also for the documented order (prediction first) *)
Lemma loss_min_at_data n L :
  In (n, L) (gen_losses ROps) -> ~ known_bad n ->
  forall d p : list R, L d d <= L d p /\ L d d <= L p d /\ L d d = 0.
Proof.
  intros H Hk d p. destruct (good_losses_nr n L H Hk) as [Hn Hr]. rewrite Hr.
  repeat split; try apply Hn.
Qed.

Lemma settings_loss_min_at_data (ff : fit_facts) n L :
  In (n, L) (gen_losses ROps) -> ~ known_bad n ->
  ff_args_unscaled ff = DataFirst -> ff_args_scaled ff = DataFirst ->
  forall (sc : bool) (data pred : list (list R)),
    settings_loss ROps ff L sc data data = Some 0
    /\ exists v, settings_loss ROps ff L sc data pred = Some v /\ 0 <= v.
Proof.
  intros H Hk Hu Hs sc data pred. destruct (good_losses_nr n L H Hk) as [Hn Hr].
  unfold settings_loss. rewrite Hu, Hs. destruct sc; simpl; rewrite Hr; split; try reflexivity; eexists; split; try reflexivity; apply Hn.
Qed.

(** *** law 2: scaling an overshooting prediction up never lowers the loss *)
Definition scaleR (lam : R) (p : list R) : list R := map (Rmult lam) p.

Lemma pw_scale_le phi d p lam :
  (forall x y, In (x, y) (combine d p) -> phi x y <= phi x (lam * y)) ->
  pw phi d p <= pw phi d (scaleR lam p).
Proof.
  intros H. unfold pw, scaleR. rewrite combine_map_r, map_map. cbn [fst snd].
  apply meanR_map_le. intros [x y] Hxy. cbn [fst snd]. apply H. exact Hxy.
Qed.

Lemma Forall2_combine {A B} (P : A -> B -> Prop) p d :
  Forall2 P p d -> forall x y, In (x, y) (combine d p) -> P y x.
Proof.
  induction 1 as [|a b p d Hab HF IH]; intros x y Hin; simpl in Hin; [contradiction|].
  destruct Hin as [Hin|Hin]; [inversion Hin; subst; exact Hab | apply IH; exact Hin].
Qed.

Definition over2 (pi di : R) : Prop := 0 <= di <= pi \/ pi <= di <= 0.

Lemma scale_away_pos y lam : 0 <= y -> 1 <= lam -> y <= lam * y.
Proof. intros Hy Hl. pose proof (Rmult_le_pos (lam - 1) y). lra. Qed.
Lemma scale_away_neg y lam : y <= 0 -> 1 <= lam -> lam * y <= y.
Proof. intros Hy Hl. pose proof (Rmult_le_pos (lam - 1) (- y)). lra. Qed.
Lemma sq_le_sq a b : 0 <= a <= b -> a * a <= b * b.
Proof. intros H. apply Rmult_le_compat; lra. Qed.
Lemma phi_sq_over x y lam : over2 y x -> 1 <= lam -> phi_sq x y <= phi_sq x (lam * y).
Proof.
  unfold over2, phi_sq. intros [H|H] Hl.
  - pose proof (scale_away_pos y lam). replace ((x - y) * (x - y)) with ((y - x) * (y - x)) by ring.
    replace ((x - lam * y) * (x - lam * y)) with ((lam * y - x) * (lam * y - x)) by ring. apply sq_le_sq. lra.
  - pose proof (scale_away_neg y lam). apply sq_le_sq. lra.
Qed.
Lemma abs_over x y lam : over2 y x -> 1 <= lam -> Rabs (y - x) <= Rabs (lam * y - x).
Proof.
  unfold over2. intros [H|H] Hl.
  - pose proof (scale_away_pos y lam). rewrite !Rabs_right by lra. lra.
  - pose proof (scale_away_neg y lam). rewrite !Rabs_left1 by lra. lra.
Qed.
Lemma phi_abs_over x y lam : over2 y x -> 1 <= lam -> phi_abs x y <= phi_abs x (lam * y).
Proof. apply abs_over. Qed.
Lemma phi_pct_over x y lam : over2 y x -> 1 <= lam -> phi_pct x y <= phi_pct x (lam * y).
Proof.
  intros H Hl. unfold phi_pct, Rdiv. rewrite !Rabs_mult.
  apply Rmult_le_compat_r; [apply Rabs_pos | apply abs_over; assumption].
Qed.
Lemma ln_mono a b : 0 < a -> a <= b -> ln a <= ln b.
Proof. intros Ha [Hlt|Heq]; [left; apply ln_increasing; assumption | subst; lra]. Qed.
Lemma phi_log_over x y lam : 0 <= x <= y -> 1 <= lam -> phi_log x y <= phi_log x (lam * y).
Proof.
  intros H Hl. unfold phi_log.
  assert (ln (x + 1) <= ln (y + 1)) by (apply ln_mono; lra).
  assert (ln (y + 1) <= ln (lam * y + 1)) by (pose proof (scale_away_pos y lam); apply ln_mono; lra).
  replace ((ln (x + 1) - ln (y + 1)) * (ln (x + 1) - ln (y + 1))) with ((ln (y + 1) - ln (x + 1)) * (ln (y + 1) - ln (x + 1))) by ring.
  replace ((ln (x + 1) - ln (lam * y + 1)) * (ln (x + 1) - ln (lam * y + 1))) with ((ln (lam * y + 1) - ln (x + 1)) * (ln (lam * y + 1) - ln (x + 1))) by ring.
  apply sq_le_sq. lra.
Qed.

Open Scope string_scope.
Definition overshoot_for (n : string) (pi di : R) : Prop :=
  0 <= di <= pi \/ (n <> "mean_squared_logarithmic" /\ pi <= di <= 0).
Close Scope string_scope.

Lemma loss_not_rewarding_size n L :
  In (n, L) (gen_losses ROps) -> ~ known_bad n ->
  forall (d p : list R) (lam : R),
    Forall2 (overshoot_for n) p d -> 1 <= lam -> L d p <= L d (scaleR lam p).
Proof.
  unfold gen_losses, known_bad, overshoot_for. intros H Hk d p lam HF Hl. simpl in H.
  pose proof (Forall2_combine _ _ _ HF) as Hc.
  repeat (destruct H as [H|H]; [inversion H; subst; clear H|]); try contradiction;
    try (exfalso; apply Hk; auto; fail).
  - rewrite !mae_pw. apply pw_scale_le. intros x y Hxy. apply phi_abs_over; [|exact Hl].
    destruct (Hc x y Hxy) as [Ho|[_ Ho]]; [left|right]; exact Ho.
  - rewrite !mape_pw. apply Rmult_le_compat_l; [lra|]. apply pw_scale_le. intros x y Hxy.
    apply phi_pct_over; [|exact Hl]. destruct (Hc x y Hxy) as [Ho|[_ Ho]]; [left|right]; exact Ho.
  - rewrite !mean_squared_pw. apply pw_scale_le. intros x y Hxy. apply phi_sq_over; [|exact Hl].
    destruct (Hc x y Hxy) as [Ho|[_ Ho]]; [left|right]; exact Ho.
  - rewrite !msle_pw. apply pw_scale_le. intros x y Hxy. apply phi_log_over; [|exact Hl].
    destruct (Hc x y Hxy) as [Ho|[Hne _]]; [exact Ho | exfalso; apply Hne; reflexivity].
  - rewrite !rmse_pw. apply sqrt_le_1_alt. apply pw_scale_le. intros x y Hxy. apply phi_sq_over; [|exact Hl].
    destruct (Hc x y Hxy) as [Ho|[_ Ho]]; [left|right]; exact Ho.
Qed.

(** ** the two shipped losses that violate the laws (recorded findings) *)
Lemma mean_singleton x y : loss_mean ROps [x] [y] = x - y.
Proof.
  unfold loss_mean, vbin. rewrite vmean_R. unfold meanR. simpl. field.
Qed.
Lemma norm_singleton x : vnorm2 ROps [x] = Rabs x.
Proof.
  unfold vnorm2, vmap, o_sq. cbn. rewrite Rplus_0_r. apply sqrt_square. apply Rabs_pos.
Qed.
Lemma cosine_singleton x y : loss_cosine_similarity ROps [x] [y] = - (Rabs x * Rabs y).
Proof. unfold loss_cosine_similarity. rewrite !norm_singleton. reflexivity. Qed.

Lemma mean_refuted :
  exists d p lam, Forall2 (fun pi di => 0 <= di <= pi) p d /\ 1 <= lam /\
    loss_mean ROps d p < loss_mean ROps d d /\
    loss_mean ROps d (scaleR lam p) < loss_mean ROps d p.
Proof.
  exists [1], [2], 2. unfold scaleR. simpl map. rewrite !mean_singleton.
  repeat split; try lra. constructor; [lra|constructor].
Qed.
Lemma cosine_refuted :
  exists d p lam, Forall2 (fun pi di => 0 <= di <= pi) p d /\ 1 <= lam /\
    loss_cosine_similarity ROps d p < loss_cosine_similarity ROps d d /\
    loss_cosine_similarity ROps d (scaleR lam p) < loss_cosine_similarity ROps d p.
Proof.
  exists [1], [2], 2. unfold scaleR. simpl map. rewrite !cosine_singleton.
  replace (2 * 2) with 4 by ring.
  rewrite (Rabs_right 1), (Rabs_right 2), (Rabs_right 4) by lra.
  repeat split; try lra. constructor; [lra|constructor].
Qed.
