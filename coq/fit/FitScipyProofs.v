(** C20 -- proofs about the method-aware model of [LocalScipyMinimizer.__call__] (FitScipy.v):
    the shipped wrapper (box handed over for every method, [res.x] / [res.fun] packed untouched) is honest and
    never worse than the start for EVERY method -- also for optimisers that ignore the box and answer outside
    it --, whereas the wrapper that projects the answer of a bounds-ignoring method into the box afterwards
    (seeded change C20-8) reports a loss that belongs to other parameters. *)
From Coq Require Import List ZArith NArith QArith Bool String.
From MxlBase Require Import ListX.
From Fit Require Import LossOps GenLosses FitModel FitScipy GenFitFacts FitExec FitScipyExec FitProofs FitWitness.
Import ListNotations.

Section MProofs.
  Context {T : Type} (O : num_ops T) (ff : fit_facts).
  Notation vstrat := (vstrat (T:=T)).

  Lemma local_m_shipped honours (sm : list T -> option (list (T * T)) -> vstrat) clip1 bounds p0 :
    local_scipy_minimizer_m O ff shipped_scipy_shape honours sm clip1 bounds p0 =
    if negb (ff_pack_updates ff) then Raise ErrUnmodelled
    else lift_vstrat (keys p0) (sm (map snd p0) (Some (aligned_bounds O ff bounds (keys p0)))).
  Proof. reflexivity. Qed.

  (** the shipped wrapper never looks at the method *)
  Lemma local_m_shipped_any_method h h' (sm : list T -> option (list (T * T)) -> vstrat) clip1 clip1' bounds p0 :
    local_scipy_minimizer_m O ff shipped_scipy_shape h sm clip1 bounds p0 =
    local_scipy_minimizer_m O ff shipped_scipy_shape h' sm clip1' bounds p0.
  Proof. reflexivity. Qed.

  (** ... and coincides with [FitModel.local_scipy_minimizer] around the optimiser that is handed a box *)
  Lemma local_m_shipped_is_local honours (sm : list T -> option (list (T * T)) -> vstrat) clip1 bounds p0 :
    ff_scipy_call ff = true -> ff_scipy_pack ff = true ->
    local_scipy_minimizer_m O ff shipped_scipy_shape honours sm clip1 bounds p0 =
    local_scipy_minimizer O ff (fun x0 bl => sm x0 (Some bl)) bounds p0.
  Proof.
    intros Hc Hp. rewrite local_m_shipped. unfold local_scipy_minimizer. rewrite Hc, Hp. simpl.
    destruct (ff_pack_updates ff); reflexivity.
  Qed.

  Lemma local_m_shipped_honest honours (sm : list T -> option (list (T * T)) -> vstrat) clip1 bounds p0 :
    (forall x0 ob, vhonest [] (sm x0 ob)) ->
    honest [] (local_scipy_minimizer_m O ff shipped_scipy_shape honours sm clip1 bounds p0).
  Proof.
    intros H. rewrite local_m_shipped. destruct (negb (ff_pack_updates ff)); [exact I|].
    apply (lift_honest (keys p0) _ []). apply H.
  Qed.

  (** reported loss == loss at the reported parameters, whatever the method does with the box *)
  Lemma scipy_m_reported_loss honours (sm : list T -> option (list (T * T)) -> vstrat) clip1 bounds
        k S copy caller p0 after m best loss :
    wf_pre_copy (wr_facts ff k) = [] ->
    (forall x0 ob, vhonest [] (sm x0 ob)) ->
    fit O ff k S copy caller p0 (local_scipy_minimizer_m O ff shipped_scipy_shape honours sm clip1 bounds)
      = (after, FitOk m best loss) ->
    snd (residual_step O ff k (route S caller p0) caller best) = RVal loss.
  Proof.
    intros Hpre Hh Hf. eapply fit_reported_loss; [exact Hpre | | exact Hf].
    apply local_m_shipped_honest, Hh.
  Qed.

  (** never worse than the start for an optimiser that evaluates x0 ITSELF first (a method that ignores the box
      does not project its start) and answers nothing worse: no hypothesis on the bounds at all *)
  Lemma scipy_m_not_worse_than_start (le : T -> T -> Prop) honours clip1 bounds
        k S copy caller p0 (vkont : option (list (T * T)) -> rloss (T:=T) -> vstrat) after m best loss :
    wf_pre_copy (wr_facts ff k) = [] ->
    (forall ob b, vleaves_sat (fun _ f => le f b) (vkont ob (RVal b))) ->
    fit O ff k S copy caller p0
        (local_scipy_minimizer_m O ff shipped_scipy_shape honours (fun x0 ob => VAsk x0 (vkont ob)) clip1 bounds)
      = (after, FitOk m best loss) ->
    snd (residual_step O ff k (route S caller p0) caller p0) = RInf
    \/ exists b, snd (residual_step O ff k (route S caller p0) caller p0) = RVal b /\ le loss b.
  Proof.
    intros Hpre Hl Hf.
    set (ob := Some (aligned_bounds O ff bounds (keys p0))) in *.
    assert (Hm : ff_pack_updates ff = true).
    { destruct (ff_pack_updates ff) eqn:E; [reflexivity|].
      rewrite (fit_unfold _ _ _ _ _ _ _ _ Hpre) in Hf. rewrite local_m_shipped in Hf. rewrite E in Hf. simpl in Hf. discriminate. }
    assert (Hmini : local_scipy_minimizer_m O ff shipped_scipy_shape honours (fun x0 ob => VAsk x0 (vkont ob)) clip1 bounds p0
                    = Ask p0 (fun l => lift_vstrat (keys p0) (vkont ob l))).
    { rewrite local_m_shipped. rewrite Hm. simpl. fold ob.
      unfold keys at 1. rewrite !map_length, Nat.eqb_refl. rewrite combine_keys_vals. reflexivity. }
    rewrite (fit_ext O ff k S copy caller p0 _ (fun p => Ask p (fun l => lift_vstrat (keys p0) (vkont ob l)))) in Hf by exact Hmini.
    eapply fit_not_worse_than_start; [exact Hpre | | exact Hf].
    intros b. apply lift_leaves_le. apply Hl.
  Qed.

  (** *** the clipping wrapper (seeded change C20-8) is harmless where nothing is clipped *)
  Lemma vleaves_sat_mono (P Q : list T -> T -> Prop) : (forall x v, P x v -> Q x v) ->
    forall (s : vstrat), vleaves_sat P s -> vleaves_sat Q s.
  Proof.
    intros HPQ. induction s as [x kont IH|ok x v]; simpl; intros Hs.
    - intros l. apply IH, Hs.
    - intros E. apply HPQ, Hs, E.
  Qed.

  Lemma vmap_answer_honest (f : list T -> list T) : forall (s : vstrat) seen,
    vleaves_sat (fun x _ => f x = x) s -> vhonest seen s -> vhonest seen (vmap_answer f s).
  Proof.
    induction s as [x kont IH|ok x v]; intros seen Hs Hh; simpl in *.
    - intros l. apply IH; [apply Hs | apply Hh].
    - intros ->. rewrite (Hs eq_refl). apply Hh. reflexivity.
  Qed.

  Lemma clip_inside_kept (within : T * T -> T -> Prop) (clip1 : T * T -> T -> T) :
    (forall b v, within b v -> clip1 b v = v) ->
    forall bl x, Forall2 within bl x -> clip_box clip1 bl x = x.
  Proof.
    intros Hc bl x HF. unfold clip_box. induction HF as [|b v bl' x' Hb HF' IH]; simpl; [reflexivity|].
    f_equal; [apply Hc, Hb | exact IH].
  Qed.

  Lemma clipping_wrapper_honest (within : T * T -> T -> Prop) honours
        (sm : list T -> option (list (T * T)) -> vstrat) clip1 bounds p0 :
    (forall b v, within b v -> clip1 b v = v) ->
    (forall x0 ob, vhonest [] (sm x0 ob)) ->
    honours = true \/
    (forall x0, vleaves_sat (fun x _ => Forall2 within (aligned_bounds O ff bounds (keys p0)) x) (sm x0 None)) ->
    honest [] (local_scipy_minimizer_m O ff clipping_scipy_shape honours sm clip1 bounds p0).
  Proof.
    intros Hc Hh Hg. unfold local_scipy_minimizer_m. destruct (negb (ff_pack_updates ff)); [exact I|]. simpl.
    destruct honours.
    - apply (lift_honest (keys p0) _ []). apply Hh.
    - destruct Hg as [Hg|Hg]; [discriminate|].
      apply (lift_honest (keys p0) _ []). apply vmap_answer_honest; [|apply Hh].
      eapply vleaves_sat_mono; [|apply Hg]. intros x v0 HF. simpl in HF. eapply clip_inside_kept; eauto.
  Qed.

  Lemma clipping_reported_loss_partial (within : T * T -> T -> Prop) honours
        (sm : list T -> option (list (T * T)) -> vstrat) clip1 bounds k S copy caller p0 after m best loss :
    wf_pre_copy (wr_facts ff k) = [] ->
    (forall b v, within b v -> clip1 b v = v) ->
    (forall x0 ob, vhonest [] (sm x0 ob)) ->
    honours = true \/
    (forall x0, vleaves_sat (fun x _ => Forall2 within (aligned_bounds O ff bounds (keys p0)) x) (sm x0 None)) ->
    fit O ff k S copy caller p0 (local_scipy_minimizer_m O ff clipping_scipy_shape honours sm clip1 bounds)
      = (after, FitOk m best loss) ->
    snd (residual_step O ff k (route S caller p0) caller best) = RVal loss.
  Proof.
    intros Hpre Hc Hh Hg Hf. eapply fit_reported_loss; [exact Hpre | | exact Hf].
    eapply clipping_wrapper_honest; eauto.
  Qed.
End MProofs.

(** *** instances: the harness' positional probe answers only what it observed, for every method *)
Lemma vprobe_go_vhonest : forall cands seen best,
  match best with Some (x, q) => In (x, RVal (Some q)) seen | None => True end ->
  vhonest seen (vprobe_go cands best).
Proof.
  induction cands as [|c r IH]; intros seen best Hb; simpl.
  - destruct best as [[x q]|]; [intros _; exact Hb | discriminate].
  - intros l. destruct l as [[q|]| |e]; apply IH.
    + destruct best as [[x b]|]; [destruct (Qlt_bool q b)|]; simpl; auto.
    + destruct best as [[x b]|]; simpl; auto.
    + destruct best as [[x b]|]; simpl; auto.
    + destruct best as [[x b]|]; simpl; auto.
Qed.
Lemma vprobe_m_honest h x0 ob : vhonest [] (vprobe_m h x0 ob).
Proof. destruct ob as [bl|]; [destruct h|]; apply vprobe_go_vhonest; exact I. Qed.

(** the example of FitWitness ([ex_settings2]: data generated with k_in = 2, k_out = 1/2; p0 = {k_out: 1/2, k_in: 1};
    the user bounds k_in to (3/4, 3/2), which excludes the generating value) under a method that IGNORES bounds *)
Definition ex_best_free : alist := al [(2%N, 1 # 2); (1%N, 2)].
Definition ex_best_clipped : alist := al [(2%N, 1 # 2); (1%N, 3 # 2)].

Lemma shipped_ignoring_method_example :
  fit QoOps expected_fit_facts KTimeCourse (ex_settings2 (loss_mean_squared QoOps)) None ex_caller ex_p0_2
      (local_scipy_minimizer_m QoOps expected_fit_facts shipped_scipy_shape false (vprobe_m false) oq_clip ex_bounds_2)
  = (ex_caller, FitOk (mkState (al [(1%N, 1 # 2); (2%N, 1 # 2)]) (al [(10%N, 1)])) ex_best_free (Some 0)).
Proof. vm_compute. reflexivity. Qed.

(** the clipping wrapper (seeded change C20-8) on the same input: the answer k_in = 2 is projected to 3/2, the loss 0
    observed at k_in = 2 is reported with it; the loss AT the reported parameters is 2409/16384 *)
Lemma clipping_ignoring_method_example :
  fit QoOps expected_fit_facts KTimeCourse (ex_settings2 (loss_mean_squared QoOps)) None ex_caller ex_p0_2
      (local_scipy_minimizer_m QoOps expected_fit_facts clipping_scipy_shape false (vprobe_m false) oq_clip ex_bounds_2)
  = (ex_caller, FitOk (mkState (al [(1%N, 1 # 2); (2%N, 1 # 2)]) (al [(10%N, 1)])) ex_best_clipped (Some 0)) /\
  snd (residual_step QoOps expected_fit_facts KTimeCourse
         (route (ex_settings2 (loss_mean_squared QoOps)) ex_caller ex_p0_2) ex_caller ex_best_clipped)
  = RVal (Some (2409 # 16384)).
Proof. split; vm_compute; reflexivity. Qed.

Lemma clipped_answer_reports_foreign_loss ff sh : ff = expected_fit_facts -> sh = shipped_scipy_shape ->
  exists (k : fit_kind) (S : settings (T:=oQ)) (caller : mstate (T:=oQ)) (p0 : list (name * oQ))
         (bounds : list (name * (oQ * oQ))) (sm : list oQ -> option (list (oQ * oQ)) -> vstrat (T:=oQ)),
    (forall x0 ob, vhonest [] (sm x0 ob)) /\
    exists after m best loss other best',
      fit QoOps ff k S None caller p0
          (local_scipy_minimizer_m QoOps ff (mkScipyShape BoundsIfHonoured PackClippedIfIgnored) false sm oq_clip bounds)
        = (after, FitOk m best loss) /\
      snd (residual_step QoOps ff k (route S caller p0) caller best) = RVal other /\ other <> loss /\
      fit QoOps ff k S None caller p0 (local_scipy_minimizer_m QoOps ff sh false sm oq_clip bounds)
        = (after, FitOk m best' loss) /\
      snd (residual_step QoOps ff k (route S caller p0) caller best') = RVal loss /\
      exists n b v, lookup n bounds = Some b /\ In (n, v) best' /\ ~ oq_within b v.
Proof.
  intros -> ->.
  exists KTimeCourse, (ex_settings2 (loss_mean_squared QoOps)), ex_caller, ex_p0_2, ex_bounds_2, (vprobe_m false).
  split; [apply vprobe_m_honest|].
  exists ex_caller, (mkState (al [(1%N, 1 # 2); (2%N, 1 # 2)]) (al [(10%N, 1)])), ex_best_clipped, (Some 0),
         (Some (2409 # 16384)), ex_best_free.
  split; [apply clipping_ignoring_method_example|].
  split; [apply clipping_ignoring_method_example|].
  split; [discriminate|].
  split; [apply shipped_ignoring_method_example|].
  split; [vm_compute; reflexivity|].
  exists 1%N, (qv (3 # 4), qv (3 # 2)), (qv 2). split; [reflexivity|]. split; [right; left; reflexivity|].
  vm_compute. intros [_ H]. discriminate.
Qed.

(** *** the statements of PropsC20.v for the pinned facts *)
Lemma scipy_m_reported_loss_expected ff sh : ff = expected_fit_facts -> sh = shipped_scipy_shape ->
  forall (T : Type) (O : num_ops T) (honours : bool) (sm : list T -> option (list (T * T)) -> vstrat (T:=T))
         (clip1 : T * T -> T -> T) (bounds : list (name * (T * T))) k S copy caller p0 after m best loss,
    (forall x0 ob, vhonest [] (sm x0 ob)) ->
    fit O ff k S copy caller p0 (local_scipy_minimizer_m O ff sh honours sm clip1 bounds) = (after, FitOk m best loss) ->
    snd (residual_step O ff k (route S caller p0) caller best) = RVal loss.
Proof.
  intros -> -> T O honours sm clip1 bounds k S copy caller p0 after m best loss.
  apply scipy_m_reported_loss. apply pre_copy_expected.
Qed.

Lemma scipy_m_not_worse_than_start_expected ff sh : ff = expected_fit_facts -> sh = shipped_scipy_shape ->
  forall (T : Type) (O : num_ops T) (le : T -> T -> Prop) (honours : bool) (clip1 : T * T -> T -> T)
         (bounds : list (name * (T * T))) k S copy caller p0
         (vkont : option (list (T * T)) -> rloss (T:=T) -> vstrat (T:=T)) after m best loss,
    (forall ob b, vleaves_sat (fun _ f => le f b) (vkont ob (RVal b))) ->
    fit O ff k S copy caller p0
        (local_scipy_minimizer_m O ff sh honours (fun x0 ob => VAsk x0 (vkont ob)) clip1 bounds) = (after, FitOk m best loss) ->
    snd (residual_step O ff k (route S caller p0) caller p0) = RInf
    \/ exists b, snd (residual_step O ff k (route S caller p0) caller p0) = RVal b /\ le loss b.
Proof.
  intros -> -> T O le honours clip1 bounds k S copy caller p0 vkont after m best loss.
  apply scipy_m_not_worse_than_start. apply pre_copy_expected.
Qed.

Lemma clipping_reported_loss_partial_expected ff : ff = expected_fit_facts ->
  forall (T : Type) (O : num_ops T) (within : T * T -> T -> Prop) (honours : bool)
         (sm : list T -> option (list (T * T)) -> vstrat (T:=T)) (clip1 : T * T -> T -> T)
         (bounds : list (name * (T * T))) k S copy caller p0 after m best loss,
    (forall b v, within b v -> clip1 b v = v) ->
    (forall x0 ob, vhonest [] (sm x0 ob)) ->
    honours = true \/
    (forall x0, vleaves_sat (fun x _ => Forall2 within (aligned_bounds O ff bounds (keys p0)) x) (sm x0 None)) ->
    fit O ff k S copy caller p0
        (local_scipy_minimizer_m O ff (mkScipyShape BoundsIfHonoured PackClippedIfIgnored) honours sm clip1 bounds)
      = (after, FitOk m best loss) ->
    snd (residual_step O ff k (route S caller p0) caller best) = RVal loss.
Proof.
  intros -> T O within honours sm clip1 bounds k S copy caller p0 after m best loss.
  apply clipping_reported_loss_partial. apply pre_copy_expected.
Qed.

(** non-vacuity of the two "every method" statements: the probe for a bounds-ignoring method first evaluates x0 itself
    and answers the smallest value it saw ([oq_le]: nothing is claimed against an undefined value at the start) *)
Definition oq_le (a b : oQ) : Prop :=
  match b with
  | None => True
  | Some y => match a with Some x => Qle_bool x y = true | None => False end
  end.
Lemma vleaves_sat_true (P : list oQ -> oQ -> Prop) : (forall x v, P x v) -> forall s : vstrat (T:=oQ), vleaves_sat P s.
Proof. intros HP. induction s as [x kont IH|ok x v]; simpl; [intros l; apply IH | intros _; apply HP]. Qed.
Lemma vprobe_go_leaves_le : forall cands x q y,
  Qle_bool q y = true ->
  vleaves_sat (fun _ f => oq_le f (Some y)) (vprobe_go cands (Some (x, q))).
Proof.
  induction cands as [|c r IH]; intros x q y Hle; simpl.
  - intros _. exact Hle.
  - intros l. destruct l as [[q'|]| |e]; try (apply IH; exact Hle).
    destruct (Qlt_bool q' q) eqn:E; [|apply IH; exact Hle].
    apply IH. unfold Qlt_bool in E. apply negb_true_iff in E.
    apply Qle_bool_iff. apply Qle_bool_iff in Hle.
    destruct (Qlt_le_dec q' q) as [Hlt|Hge]; [apply Qlt_le_weak in Hlt; eapply Qle_trans; eauto|].
    apply Qle_bool_iff in Hge. rewrite Hge in E. discriminate.
Qed.
Definition vprobe_free_kont (x0 : list oQ) (l : rloss (T:=oQ)) : vstrat (T:=oQ) :=
  let rest := flat_map (fun i => [scale_nth i 2 x0; scale_nth i (1 # 2) x0]) (seq 0 (length x0)) in
  match l with
  | RVal (Some q) => vprobe_go rest (Some (x0, q))
  | _ => vprobe_go rest None
  end.
Lemma vprobe_free_asks_start_first x0 : vprobe_free x0 = VAsk x0 (vprobe_free_kont x0).
Proof. reflexivity. Qed.
Lemma vprobe_free_kont_leaves_le x0 b : vleaves_sat (fun _ f => oq_le f b) (vprobe_free_kont x0 (RVal b)).
Proof.
  destruct b as [q|]; simpl.
  - apply vprobe_go_leaves_le. apply Qle_bool_iff. apply Qle_refl.
  - apply vleaves_sat_true. intros x v. exact I.
Qed.

Lemma methods_nonvacuous :
  (forall x0 ob, vhonest [] (vprobe_m false x0 ob)) /\
  (forall x0 ob, vprobe_m false x0 ob = VAsk x0 (vprobe_free_kont x0)) /\
  (forall x0 b, vleaves_sat (fun _ f => oq_le f b) (vprobe_free_kont x0 (RVal b))) /\
  fit QoOps expected_fit_facts KTimeCourse (ex_settings2 (loss_mean_squared QoOps)) None ex_caller ex_p0_2
      (local_scipy_minimizer_m QoOps expected_fit_facts shipped_scipy_shape false (vprobe_m false) oq_clip ex_bounds_2)
  = (ex_caller, FitOk (mkState (al [(1%N, 1 # 2); (2%N, 1 # 2)]) (al [(10%N, 1)])) (al [(2%N, 1 # 2); (1%N, 2)]) (Some 0)).
Proof.
  split; [apply vprobe_m_honest|]. split; [intros x0 [bl|]; reflexivity|].
  split; [apply vprobe_free_kont_leaves_le | apply shipped_ignoring_method_example].
Qed.
