(** C20 -- concrete instances (exact rationals): the facts the theorems were proved for, a witness
    that WITHOUT copying the caller's model does change, the honesty of the harness' probe
    minimiser, and non-vacuity instances. *)
From Coq Require Import List ZArith NArith QArith Bool String.
From MxlBase Require Import ListX.
From Fit Require Import LossOps GenLosses FitModel GenFitFacts FitExec FitProofs.
Import ListNotations.

Definition expected_residual_facts (sel : select_axis) : residual_facts :=
  mkResidualFacts [UpdY0; UpdPars; UpdVars] sel FailInf true true.
Definition expected_wrapper_facts : wrapper_facts := mkWrapperFacts true true true true true true true.
Definition expected_fit_facts : fit_facts :=
  mkFitFacts DataFirst DataFirst true
    (expected_residual_facts SelDataIndex) (expected_residual_facts SelDataColumns) (expected_residual_facts SelDataColumns)
    expected_wrapper_facts expected_wrapper_facts expected_wrapper_facts
    (1 # 1000000) (1000000 # 1) true true true.

Lemma input_untouched_expected ff : ff = expected_fit_facts ->
  forall (T : Type) (O : num_ops T) k S copy caller p0 mini,
    copy = None \/ copy = Some true -> fst (fit O ff k S copy caller p0 mini) = caller.
Proof. intros -> T O k S copy caller p0 mini Hc. apply fit_input_untouched; [destruct k; reflexivity | destruct k; reflexivity | exact Hc]. Qed.

Lemma residual_structure_expected ff : ff = expected_fit_facts ->
  forall (T : Type) (O : num_ops T) k S st u st1 st2 rows pred,
    apply_phases S u [UpdY0; UpdPars; UpdVars] st = (st1, None) ->
    simulate O k S st1 = (st2, SimRows rows) ->
    prediction (match k with KSteady => SelDataIndex | _ => SelDataColumns end) k S rows = inl (Some pred) ->
    residual_step O ff k S st u =
      (st2, RVal (if s_scale S
                  then s_loss S (concat (scale_frame O (s_data S) (s_data S))) (concat (scale_frame O (s_data S) pred))
                  else s_loss S (concat (s_data S)) (concat pred))).
Proof.
  intros -> T O k S st u st1 st2 rows pred H1 H2 H3.
  apply (residual_is_loss_of_prediction O expected_fit_facts k S st u st1 st2 rows pred); destruct k; auto.
Qed.

(** the example used as witness / non-vacuity instance: dx/dt = k_in - k_out x, time-course data *)
Definition ex_settings (L : list oQ -> list oQ -> oQ) : settings (T:=oQ) :=
  mkSettings [mkRxn 20%N (RConst 1%N) [(10%N, 1)]; mkRxn 21%N (RMassAct 2%N 10%N) [(10%N, -1)]]
             [10%N] [0; 1 # 2; 1; 3 # 2] [map qv [1; 7 # 4; 37 # 16; 175 # 64]] None [] [] false [] [] L.
Definition ex_caller : mstate (T:=oQ) := mkState (al [(1%N, 2); (2%N, 1 # 2)]) (al [(10%N, 1)]).
Definition ex_p0 : alist := al [(1%N, 1)].

Lemma without_copy_input_changes ff : ff = expected_fit_facts ->
  exists k S caller p0 mini,
    fst (fit QoOps ff k S (Some false) caller p0 mini) <> caller.
Proof.
  intros ->. exists KTimeCourse, (ex_settings (loss_mean_squared QoOps)), ex_caller, ex_p0, probe_minimiser.
  vm_compute. discriminate.
Qed.

(** the probe minimiser answers only what it observed *)
Lemma probe_go_honest : forall cands seen best,
  match best with Some (u, q) => In (u, RVal (Some q)) seen | None => True end ->
  honest seen (probe_go cands best).
Proof.
  induction cands as [|c r IH]; intros seen best Hb; simpl.
  - destruct best as [[u q]|]; [exact Hb | exact I].
  - intros l. destruct l as [[q|]| |e]; apply IH.
    + destruct best as [[u b]|]; [destruct (Qlt_bool q b)|]; simpl; auto.
    + destruct best as [[u b]|]; simpl; auto.
    + destruct best as [[u b]|]; simpl; auto.
    + destruct best as [[u b]|]; simpl; auto.
Qed.
Lemma probe_honest p0 : honest [] (probe_minimiser p0).
Proof. apply probe_go_honest. exact I. Qed.

Lemma nonvacuous_fit :
  honest [] (probe_minimiser ex_p0) /\
  fit QoOps expected_fit_facts KTimeCourse (ex_settings (loss_mean_squared QoOps)) None ex_caller ex_p0 probe_minimiser
  = (ex_caller, FitOk (mkState (al [(1%N, 1 # 2); (2%N, 1 # 2)]) (al [(10%N, 1)])) (al [(1%N, 2)]) (Some 0)).
Proof. split; [apply probe_honest | vm_compute; reflexivity]. Qed.
