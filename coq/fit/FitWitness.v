(** C20 -- concrete instances (exact rationals): the facts the theorems were proved for, a witness
    that WITHOUT copying the caller's model does change, the honesty of the harness' probe
    minimiser, and non-vacuity instances. *)
From Coq Require Import List ZArith NArith QArith Bool String.
From MxlBase Require Import ListX.
From Fit Require Import LossOps GenLosses FitModel GenFitFacts FitExec FitProofs.
Import ListNotations.

Definition expected_residual_facts (sel : select_axis) : residual_facts :=
  mkResidualFacts [UpdY0; UpdPars; UpdVars] sel FailInf true true.
Definition expected_wrapper_facts : wrapper_facts := mkWrapperFacts true true true true true true true [].
Definition expected_fit_facts : fit_facts :=
  mkFitFacts DataFirst DataFirst true
    (expected_residual_facts SelDataIndex) (expected_residual_facts SelDataColumns) (expected_residual_facts SelDataColumns)
    expected_wrapper_facts expected_wrapper_facts expected_wrapper_facts
    (1 # 1000000) (1000000 # 1) true true true BatchValidated BatchValidated.

Lemma pre_copy_expected k : wf_pre_copy (wr_facts expected_fit_facts k) = [].
Proof. destruct k; reflexivity. Qed.

Lemma input_untouched_expected ff : ff = expected_fit_facts ->
  forall (T : Type) (O : num_ops T) k S copy caller p0 mini,
    copy = None \/ copy = Some true -> fst (fit O ff k S copy caller p0 mini) = caller.
Proof.
  intros -> T O k S copy caller p0 mini Hc.
  apply fit_input_untouched; [apply pre_copy_expected | destruct k; reflexivity | destruct k; reflexivity | exact Hc].
Qed.

Lemma reported_loss_expected ff : ff = expected_fit_facts ->
  forall (T : Type) (O : num_ops T) k S copy caller p0 (mini : list (name * T) -> strat) after m x v,
    honest [] (mini p0) ->
    fit O ff k S copy caller p0 mini = (after, FitOk m x v) ->
    snd (residual_step O ff k (route S caller p0) caller x) = RVal v.
Proof. intros -> T O k S copy caller p0 mini after m x v. apply fit_reported_loss. apply pre_copy_expected. Qed.

Lemma not_worse_than_start_expected ff : ff = expected_fit_facts ->
  forall (T : Type) (O : num_ops T) (le : T -> T -> Prop) k S copy caller p0 kont after m x v,
    (forall b, leaves_le le b (kont (RVal b))) ->
    fit O ff k S copy caller p0 (fun p => Ask p kont) = (after, FitOk m x v) ->
    snd (residual_step O ff k (route S caller p0) caller p0) = RInf
    \/ exists b, snd (residual_step O ff k (route S caller p0) caller p0) = RVal b /\ le v b.
Proof. intros -> T O le k S copy caller p0 kont after m x v. apply fit_not_worse_than_start. apply pre_copy_expected. Qed.

Lemma scipy_not_worse_than_start_expected ff : ff = expected_fit_facts ->
  forall (T : Type) (O : num_ops T) (le : T -> T -> Prop) (within : T * T -> T -> Prop) (clip1 : T * T -> T -> T)
         k S copy caller p0 bounds (vkont : list (T * T) -> rloss -> vstrat) after m best loss,
    (forall b v, within b v -> clip1 b v = v) ->
    (forall n v, In (n, v) p0 -> within (bound_for O ff bounds n) v) ->
    (forall bl b, vleaves_sat (fun _ f => le f b) (vkont bl (RVal b))) ->
    fit O ff k S copy caller p0
        (local_scipy_minimizer O ff (fun x0 bl => VAsk (clip_box clip1 bl x0) (vkont bl)) bounds) = (after, FitOk m best loss) ->
    snd (residual_step O ff k (route S caller p0) caller p0) = RInf
    \/ exists b, snd (residual_step O ff k (route S caller p0) caller p0) = RVal b /\ le loss b.
Proof.
  intros -> T O le within clip1 k S copy caller p0 bounds vkont after m best loss.
  apply scipy_not_worse_than_start. apply pre_copy_expected.
Qed.

(** without copying: only the named entries of the caller's model can change *)
Lemma without_copy_only_named_expected ff : ff = expected_fit_facts ->
  forall (T : Type) (O : num_ops T) k (S : settings (T:=T)) caller p0 mini,
    let S' := route S caller p0 in
    let after := fst (fit O ff k S (Some false) caller p0 mini) in
    keys (ms_pars after) = keys (ms_pars caller) /\ keys (ms_vars after) = keys (ms_vars caller) /\
    (forall n, memN n (s_p_names S' ++ match k with KProtocol => s_proto_names S | _ => [] end) = false ->
               lookup n (ms_pars after) = lookup n (ms_pars caller)) /\
    (forall n, memN n (match s_y0 S with Some y0 => keys y0 | None => [] end ++ s_v_names S') = false ->
               lookup n (ms_vars after) = lookup n (ms_vars caller)).
Proof.
  intros -> T O k S caller p0 mini S' after.
  pose proof (fit_touches O expected_fit_facts k S caller p0 mini (pre_copy_expected k)) as [Hp Hv].
  fold S' in Hp, Hv. fold after in Hp, Hv.
  split; [eapply agree_keys; exact Hp|]. split; [eapply agree_keys; exact Hv|]. split.
  - intros n Hn. eapply agree_lookup; [exact Hp|].
    revert Hn. unfold Wp, wp_phases, proto_w. destruct k; simpl; rewrite ?app_nil_r; auto.
  - intros n Hn. eapply agree_lookup; [exact Hv|].
    revert Hn. unfold Wv, wv_phases. destruct k; simpl; rewrite ?app_nil_r; auto.
Qed.

Lemma residual_structure_expected ff : ff = expected_fit_facts ->
  forall (T : Type) (O : num_ops T) k S st u st1 st2 rows pred,
    apply_phases ff S u [UpdY0; UpdPars; UpdVars] st = (st1, None) ->
    simulate O ff k S st1 = (st2, SimRows rows) ->
    prediction (match k with KSteady => SelDataIndex | _ => SelDataColumns end) k S rows = inl (Some pred) ->
    residual_step O ff k S st u =
      (st2, RVal (if s_scale S
                  then s_loss S (concat (scale_frame O (s_data S) (s_data S))) (concat (scale_frame O (s_data S) pred))
                  else s_loss S (concat (s_data S)) (concat pred))).
Proof.
  intros -> T O k S st u st1 st2 rows pred H1 H2 H3.
  apply (residual_is_loss_of_prediction O expected_fit_facts k S st u st1 st2 rows pred); destruct k; auto.
Qed.

(** the example used as witness / non-vacuity instance: dx/dt = k_in - k_out x, time-course data *)
Definition ex_settings (L : list oQ -> list oQ -> oQ) : settings (T:=oQ) :=
  mkSettings [mkRxn 20%N (RConst 1%N) [(10%N, 1)]; mkRxn 21%N (RMassAct 2%N 10%N) [(10%N, -1)]]
             [10%N] [0; 1 # 2; 1; 3 # 2] [map qv [1; 7 # 4; 37 # 16; 175 # 64]] None [] [] false [] [] L.
Definition ex_caller : mstate (T:=oQ) := mkState (al [(1%N, 2); (2%N, 1 # 2)]) (al [(10%N, 1)]).
Definition ex_p0 : alist := al [(1%N, 1)].

Lemma without_copy_input_changes ff : ff = expected_fit_facts ->
  exists k S caller p0 mini,
    fst (fit QoOps ff k S (Some false) caller p0 mini) <> caller.
Proof.
  intros ->. exists KTimeCourse, (ex_settings (loss_mean_squared QoOps)), ex_caller, ex_p0, probe_minimiser.
  vm_compute. discriminate.
Qed.

(** the probe minimiser answers only what it observed *)
Lemma probe_go_honest : forall cands seen best,
  match best with Some (u, q) => In (u, RVal (Some q)) seen | None => True end ->
  honest seen (probe_go cands best).
Proof.
  induction cands as [|c r IH]; intros seen best Hb; simpl.
  - destruct best as [[u q]|]; [exact Hb | exact I].
  - intros l. destruct l as [[q|]| |e]; apply IH.
    + destruct best as [[u b]|]; [destruct (Qlt_bool q b)|]; simpl; auto.
    + destruct best as [[u b]|]; simpl; auto.
    + destruct best as [[u b]|]; simpl; auto.
    + destruct best as [[u b]|]; simpl; auto.
Qed.
Lemma probe_honest p0 : honest [] (probe_minimiser p0).
Proof. apply probe_go_honest. exact I. Qed.

Lemma nonvacuous_fit :
  honest [] (probe_minimiser ex_p0) /\
  fit QoOps expected_fit_facts KTimeCourse (ex_settings (loss_mean_squared QoOps)) None ex_caller ex_p0 probe_minimiser
  = (ex_caller, FitOk (mkState (al [(1%N, 1 # 2); (2%N, 1 # 2)]) (al [(10%N, 1)])) (al [(1%N, 2)]) (Some 0)).
Proof. split; [apply probe_honest | vm_compute; reflexivity]. Qed.

(** *** initial conditions: an example WITH a [y0] argument that differs from the caller's initial value *)
Definition ex_settings_y0 (L : list oQ -> list oQ -> oQ) : settings (T:=oQ) :=
  mkSettings [mkRxn 20%N (RConst 1%N) [(10%N, 1)]; mkRxn 21%N (RMassAct 2%N 10%N) [(10%N, -1)]]
             [10%N] [0; 1 # 2; 1; 3 # 2] [map qv [3; 13 # 4; 55 # 16; 229 # 64]] (Some (al [(10%N, 3)])) [] [] false [] [] L.

(** copying on: the private copy carries y0, the caller keeps its own initial value *)
Lemma nonvacuous_fit_y0 :
  fit QoOps expected_fit_facts KTimeCourse (ex_settings_y0 (loss_mean_squared QoOps)) None ex_caller ex_p0 probe_minimiser
  = (ex_caller, FitOk (mkState (al [(1%N, 1 # 2); (2%N, 1 # 2)]) (al [(10%N, 3)])) (al [(1%N, 2)]) (Some 0)).
Proof. vm_compute. reflexivity. Qed.

(** the shape of seeded change C20-3: an early [model.update_variables(y0)] IN FRONT OF the copy guard *)
Definition y0_first_fit_facts : fit_facts :=
  let w := mkWrapperFacts true true true true true true true [UpdY0] in
  mkFitFacts DataFirst DataFirst true
    (expected_residual_facts SelDataIndex) (expected_residual_facts SelDataColumns) (expected_residual_facts SelDataColumns)
    w w w (1 # 1000000) (1000000 # 1) true true true BatchValidated BatchValidated.
Lemma y0_before_copy_reaches_caller :
  exists k S caller p0 mini,
    let r := fit QoOps y0_first_fit_facts k S None caller p0 mini in
    ms_pars (fst r) = ms_pars caller /\ ms_vars (fst r) <> ms_vars caller /\
    snd r = snd (fit QoOps expected_fit_facts k S None caller p0 mini).
Proof.
  exists KTimeCourse, (ex_settings_y0 (loss_mean_squared QoOps)), ex_caller, ex_p0, probe_minimiser.
  vm_compute. split; [reflexivity|]. split; [discriminate | reflexivity].
Qed.

(** *** bounds: the probe optimiser answers inside its box; a start within its own bounds *)
Definition oq_within (b : oQ * oQ) (v : oQ) : Prop :=
  match fst b, snd b, v with
  | Some lo, Some hi, Some x => Qle_bool lo x = true /\ Qle_bool x hi = true
  | _, _, _ => False
  end.
Lemma oq_clip_id b v : oq_within b v -> oq_clip b v = v.
Proof.
  destruct b as [[lo|] [hi|]], v as [x|]; simpl; try contradiction. intros [H1 H2].
  unfold oq_clip, Qlt_bool; simpl. rewrite H1. simpl. rewrite H2. reflexivity.
Qed.

Definition ex_settings2 (L : list oQ -> list oQ -> oQ) : settings (T:=oQ) :=
  mkSettings [mkRxn 20%N (RConst 1%N) [(10%N, 1)]; mkRxn 21%N (RMassAct 2%N 10%N) [(10%N, -1)]]
             [10%N] [0; 1 # 2; 1; 3 # 2] [map qv [1; 7 # 4; 37 # 16; 175 # 64]] None [] [] false [] [] L.
(** p0 lists k_out (= 1/2) BEFORE k_in (= 1); only k_in -- the SECOND name -- is bounded, to (3/4, 3/2) *)
Definition ex_p0_2 : alist := al [(2%N, 1 # 2); (1%N, 1)].
Definition ex_bounds_2 : list (name * (oQ * oQ)) := [(1%N, (qv (3 # 4), qv (3 # 2)))].

(** the construction of seeded change C20-1: user-bounded names first, then the rest of p0 with the default *)
Definition user_first_bounds (ff : fit_facts) (bounds : list (name * (oQ * oQ))) (names : list name) : list (oQ * oQ) :=
  map snd (filter (fun e => memN (fst e) names) bounds)
  ++ map (fun _ => (Some (Qred (ff_bound_lo ff)), Some (Qred (ff_bound_hi ff))))
         (filter (fun n => negb (memN n (keys bounds))) names).

Lemma bounds_nonvacuous :
  (forall n v, In (n, v) ex_p0_2 -> oq_within (bound_for QoOps expected_fit_facts ex_bounds_2 n) v) /\
  aligned_bounds QoOps expected_fit_facts ex_bounds_2 (keys ex_p0_2)
    = [(qv (1 # 1000000), qv (1000000 # 1)); (qv (3 # 4), qv (3 # 2))] /\
  fit QoOps expected_fit_facts KTimeCourse (ex_settings2 (loss_mean_squared QoOps)) None ex_caller ex_p0_2
      (local_scipy_minimizer QoOps expected_fit_facts vprobe ex_bounds_2)
  = (ex_caller, FitOk (mkState (al [(1%N, 3 # 4); (2%N, 1 # 2)]) (al [(10%N, 1)])) (al [(2%N, 1 # 2); (1%N, 3 # 2)]) (Some (2409 # 16384))) /\
  (* the user-first list puts k_in's interval on k_out: the start is moved although it lies within its own bounds *)
  clip_box oq_clip (user_first_bounds expected_fit_facts ex_bounds_2 (keys ex_p0_2)) (map snd ex_p0_2) <> map snd ex_p0_2.
Proof.
  split; [|split; [|split]].
  - intros n v [E|[E|[]]]; inversion E; subst; vm_compute; split; reflexivity.
  - vm_compute. reflexivity.
  - vm_compute. reflexivity.
  - vm_compute. discriminate.
Qed.

(** *** batch editors: a rejected [update_variables(y0)] changes nothing (validated names, /repo 037a1c8) ... *)
Lemma y0_rejected_expected ff : ff = expected_fit_facts ->
  forall (T : Type) (S : settings (T:=T)) (u : list (name * T)) (st st' : mstate) (e : err),
    apply_phase ff S u UpdY0 st = (st', Some e) -> st' = st.
Proof. intros -> T S u st st' e. apply (y0_rejected_changes_nothing expected_fit_facts). reflexivity. Qed.

(** ... whereas the plain fold (the code before 037a1c8) wrote the entries in front of the unknown name *)
Definition fold_fit_facts : fit_facts :=
  mkFitFacts DataFirst DataFirst true
    (expected_residual_facts SelDataIndex) (expected_residual_facts SelDataColumns) (expected_residual_facts SelDataColumns)
    expected_wrapper_facts expected_wrapper_facts expected_wrapper_facts
    (1 # 1000000) (1000000 # 1) true true true BatchFold BatchFold.
Definition ex_settings_bad_y0 (L : list oQ -> list oQ -> oQ) : settings (T:=oQ) :=
  mkSettings [mkRxn 20%N (RConst 1%N) [(10%N, 1)]; mkRxn 21%N (RMassAct 2%N 10%N) [(10%N, -1)]]
             [10%N] [0; 1 # 2; 1; 3 # 2] [map qv [1; 7 # 4; 37 # 16; 175 # 64]] (Some (al [(10%N, 3); (77%N, 1)])) [] [] false [] [] L.
Lemma fold_y0_partial_write :
  exists (S : settings (T:=oQ)) u st,
    apply_phase fold_fit_facts S u UpdY0 st = (mkState (ms_pars st) (al [(10%N, 3)]), Some ErrKey) /\
    ms_vars st = al [(10%N, 1)] /\
    apply_phase expected_fit_facts S u UpdY0 st = (st, Some ErrKey).
Proof.
  exists (ex_settings_bad_y0 (loss_mean_squared QoOps)), ex_p0, ex_caller. vm_compute. repeat split; reflexivity.
Qed.
