(* REGENERATED from src/mxlpy/fit/losses.py by harness/c20_gen.py -- do not edit.
   Each shipped loss, translated expression-for-expression; polymorphic in the numeric carrier. *)
From Coq Require Import List ZArith QArith String.
From Fit Require Import LossOps.
Import ListNotations.
Open Scope string_scope.
Section GenLosses.
  Context {T : Type} (O : num_ops T).
  Definition loss_cosine_similarity (y_pred y_true : list T) : T := (o_opp O (o_mul O (vnorm2 O y_pred) (vnorm2 O y_true))).
  Definition loss_mae (y_pred y_true : list T) : T := (vmean O (vmap (o_abs O) (vbin (o_sub O) y_true y_pred))).
  Definition loss_mean (y_pred y_true : list T) : T := (vmean O (vbin (o_sub O) y_pred y_true)).
  Definition loss_mean_absolute_percentage (y_pred y_true : list T) : T := (o_mul O (o_ofQ O (100 # 1)) (vmean O (vmap (o_abs O) (vbin (o_div O) (vbin (o_sub O) y_true y_pred) y_pred)))).
  Definition loss_mean_squared (y_pred y_true : list T) : T := (vmean O (vmap (o_sq O) (vbin (o_sub O) y_pred y_true))).
  Definition loss_mean_squared_logarithmic (y_pred y_true : list T) : T := (vmean O (vmap (o_sq O) (vbin (o_sub O) (vmap (o_ln O) (vbin_r (o_add O) y_pred (o_ofQ O (1 # 1)))) (vmap (o_ln O) (vbin_r (o_add O) y_true (o_ofQ O (1 # 1))))))).
  Definition loss_rmse (y_pred y_true : list T) : T := (o_sqrt O (vmean O (vmap (o_sq O) (vbin (o_sub O) y_pred y_true)))).
  Definition gen_losses : list (string * (list T -> list T -> T)) := [("cosine_similarity", loss_cosine_similarity); ("mae", loss_mae); ("mean", loss_mean); ("mean_absolute_percentage", loss_mean_absolute_percentage); ("mean_squared", loss_mean_squared); ("mean_squared_logarithmic", loss_mean_squared_logarithmic); ("rmse", loss_rmse)].
End GenLosses.
Definition gen_untranslatable : list string := [].
