(** C20 -- executable instance ([option Q]) of the method-aware model of LocalScipyMinimizer, used by the
    correspondence shards c20_fitm_*.v (written by harness/c20.py).  No proofs. *)
From Coq Require Import List ZArith NArith QArith Bool String.
From MxlBase Require Import ListX.
From Fit Require Import LossOps GenLosses FitModel FitScipy GenFitFacts FitExec.
Import ListNotations.

(** the harness' positional stand-in for scipy.optimize.minimize (c20_driver.positional_probe) for a method that
    IGNORES bounds (SciPy: CG, BFGS, ...): the start and each coordinate doubled / halved, nothing projected *)
Definition vprobe_free (x0 : list oQ) : vstrat (T:=oQ) :=
  vprobe_go (x0 :: flat_map (fun i => [scale_nth i 2 x0; scale_nth i (1 # 2) x0]) (seq 0 (length x0))) None.

(** ... for any method: [honours] = the method honours [bounds=]; without a box nothing can be projected *)
Definition vprobe_m (honours : bool) (x0 : list oQ) (ob : option (list (oQ * oQ))) : vstrat (T:=oQ) :=
  match ob with
  | Some bl => if honours then vprobe x0 bl else vprobe_free x0
  | None => vprobe_free x0
  end.

Record fitm_case := mkFitMCase { fm_case : fit_case; fm_honours : bool }.
Definition fitm_case_ok (c : fitm_case) : bool :=
  let f := fm_case c in
  match loss_by_name (fc_loss f) with
  | None => false
  | Some L =>
      let mini := local_scipy_minimizer_m QoOps gen_fit_facts gen_scipy_shape (fm_honours c) (vprobe_m (fm_honours c))
                                          oq_clip (qbounds (fc_bounds f)) in
      let '(after, out) := fit QoOps gen_fit_facts (fc_kind f) (fc_settings f L) (fc_copy f) (fc_caller f) (al (fc_p0 f)) mini in
      mstate_eqb after (fc_caller_after f) && fit_obs_eqb (fc_obs f) out
  end.

(** what LocalScipyMinimizer(method=...) hands to scipy.optimize.minimize as [bounds=]: observed "a box was handed
    over" against the regenerated shape *)
Definition hands_box (sh : scipy_shape) (honours : bool) : option bool :=
  match ss_bounds sh with
  | BoundsAlways => Some true
  | BoundsIfHonoured => Some honours
  | BoundsArgUnknown => None
  end.
