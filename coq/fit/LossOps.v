(** C20 -- numeric carrier for the REGENERATED loss functions (GenLosses.v) and the fit model.

    The loss functions of src/mxlpy/fit/losses.py are translated expression-for-expression into
    definitions that are polymorphic in a record of numeric operations.  Two instances:
    - [ROps]  : Coq's real numbers -- the loss LAWS are proved about this instance;
    - [QoOps] : [option Q], an exact partial evaluator ([None] = the value is not an exactly known
                rational: division by zero, irrational square root, logarithm of anything but 1)
                -- this instance is RUN inside Coq against the implementation.
    No proofs in this file. *)
From Coq Require Import List ZArith QArith Qabs Reals.
Import ListNotations.

Record num_ops (T : Type) := mkOps {
  o_zero : T; o_add : T -> T -> T; o_sub : T -> T -> T; o_mul : T -> T -> T; o_div : T -> T -> T;
  o_opp : T -> T; o_abs : T -> T; o_sqrt : T -> T; o_ln : T -> T; o_ofQ : Q -> T }.
Arguments o_zero {T}. Arguments o_add {T}. Arguments o_sub {T}. Arguments o_mul {T}.
Arguments o_div {T}. Arguments o_opp {T}. Arguments o_abs {T}. Arguments o_sqrt {T}.
Arguments o_ln {T}. Arguments o_ofQ {T}.

Section Vec.
  Context {T : Type} (O : num_ops T).
  Definition o_ofZ (z : Z) : T := o_ofQ O (inject_Z z).
  Definition o_sq (x : T) : T := o_mul O x x.
  (** elementwise binary operation on two aligned vectors (pandas aligns on the index; the
      harness only feeds identically indexed operands) *)
  Definition vbin (f : T -> T -> T) (a b : list T) : list T :=
    map (fun xy => f (fst xy) (snd xy)) (combine a b).
  Definition vbin_r (f : T -> T -> T) (a : list T) (s : T) : list T := map (fun x => f x s) a.
  Definition vbin_l (f : T -> T -> T) (s : T) (a : list T) : list T := map (fun x => f s x) a.
  Definition vmap (f : T -> T) (a : list T) : list T := map f a.
  Definition vsum (a : list T) : T := fold_right (o_add O) (o_zero O) a.
  Definition vlen (a : list T) : T := o_ofZ (Z.of_nat (length a)).
  Definition vmean (a : list T) : T := o_div O (vsum a) (vlen a).
  (** np.linalg.norm(v, 2) of a VECTOR (for a 2-d frame numpy computes the spectral norm, which is
      not modelled: see design/C20.md) *)
  Definition vnorm2 (a : list T) : T := o_sqrt O (vsum (vmap (fun x => o_sq (o_abs O x)) a)).
End Vec.

(** ** reals *)
Definition ROps : num_ops R :=
  mkOps R 0%R Rplus Rminus Rmult Rdiv Ropp Rabs sqrt ln Q2R.

(** ** exact partial rationals *)
Definition oQ := option Q.
Definition lift1 (f : Q -> Q) (a : oQ) : oQ := match a with Some x => Some (Qred (f x)) | None => None end.
Definition lift2 (f : Q -> Q -> Q) (a b : oQ) : oQ :=
  match a, b with Some x, Some y => Some (Qred (f x y)) | _, _ => None end.
Definition oq_div (a b : oQ) : oQ :=
  match a, b with
  | Some x, Some y => if Qeq_bool y 0 then None else Some (Qred (x / y))
  | _, _ => None
  end.
(** exact square root: [Some r] only if the (reduced) argument is the square of the rational [r >= 0] *)
Definition q_sqrt_exact (q : Q) : option Q :=
  let q := Qred q in
  let n := Qnum q in let d := Zpos (Qden q) in
  if (n <? 0)%Z then None else
  let rn := Z.sqrt n in let rd := Z.sqrt d in
  if ((rn * rn =? n) && (rd * rd =? d))%Z
  then match rd with Zpos p => Some (Qred (rn # p)) | _ => None end
  else None.
Definition oq_sqrt (a : oQ) : oQ := match a with Some x => q_sqrt_exact x | None => None end.
(** the only rational argument with a rational logarithm is 1 *)
Definition oq_ln (a : oQ) : oQ :=
  match a with Some x => if Qeq_bool x 1 then Some 0%Q else None | None => None end.
Definition QoOps : num_ops oQ :=
  mkOps oQ (Some 0%Q) (lift2 Qplus) (lift2 Qminus) (lift2 Qmult) oq_div (lift1 Qopp) (lift1 Qabs)
        oq_sqrt oq_ln (fun q => Some (Qred q)).

Definition oq_eqb (a b : oQ) : bool :=
  match a, b with
  | Some x, Some y => Qeq_bool x y
  | None, None => true
  | _, _ => false
  end.
