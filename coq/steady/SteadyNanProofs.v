(** Proofs about the steady-state loop over IEEE values (SteadyNan.v): it IS the loop of
    SteadyLoop.v on finite buffers; its outcome is decided by the first iteration that aborts or
    reaches the success return; a NaN norm never counts as convergence when the test reads
    [norm < tol], and always does in the early-continue form.  Exact arithmetic, no axioms. *)
From Coq Require Import QArith Qabs ZArith NArith List Bool Lia Lqa Arith.
Import ListNotations.
From Steady Require Import SteadyLoop SteadyLoopProofs SteadyHistProofs SteadyNan.

Local Open Scope Q_scope.

(** *** (1) on finite buffers the IEEE loop is the rational loop *)

Lemma xsumsq_fin d : xsumsq (fin d) = XFin (sumsq d).
Proof.
  induction d as [|x d IH]; [reflexivity|].
  unfold fin in *. cbn [map xsumsq fold_right]. unfold xsumsq in IH. rewrite IH. reflexivity.
Qed.

Lemma diff_abs_not_nonfinite : forall a b, diff_abs a b <> DNonFinite.
Proof.
  induction a as [|x a IH]; intros [|z b]; cbn [diff_abs]; try discriminate.
  specialize (IH b). destruct (diff_abs a b); try discriminate. exact IH.
Qed.

Lemma xdiff_abs_fin : forall a b,
  xdiff false (fin a) (fin b) = match diff_abs a b with DVec d => Some (fin d) | _ => None end.
Proof.
  induction a as [|x a IH]; intros [|z b]; try reflexivity.
  unfold fin in *. cbn [map xdiff diff_abs]. rewrite IH. destruct (diff_abs a b); reflexivity.
Qed.

(** the square of a norm that is not a finite number *)
Definition sq_nonfin (s : xq) : Prop := s = XInf false \/ s = XNaN.

Lemma xadd_sq_nonfin_r e s : sq_nonfin s -> sq_nonfin (xadd (xsq e) s).
Proof.
  intros [-> | ->]; destruct e as [q|n|]; cbn; unfold sq_nonfin; auto.
Qed.

Lemma xdiff_rel_fin : forall a b,
  match diff_rel a b with
  | DVec d => xdiff true (fin a) (fin b) = Some (fin d)
  | DShape => xdiff true (fin a) (fin b) = None
  | DNonFinite => exists d, xdiff true (fin a) (fin b) = Some d /\ sq_nonfin (xsumsq d)
  end.
Proof.
  induction a as [|x a IH]; intros [|z b]; try reflexivity.
  specialize (IH b). unfold fin in *. cbn [map xdiff diff_rel].
  destruct (diff_rel a b) as [d| |].
  - rewrite IH. cbn [xsub xdiv]. destruct (Qeq_bool x 0) eqn:Ex.
    + eexists. split; [reflexivity|]. cbn [xsumsq fold_right].
      pose proof (xsumsq_fin d) as Hd. unfold xsumsq, fin in Hd. rewrite Hd.
      destruct (Qeq_bool (z - x) 0); cbn; unfold sq_nonfin; auto.
    + reflexivity.
  - destruct IH as [d [E Hs]]. rewrite E. eexists. split; [reflexivity|].
    cbn [xsumsq fold_right]. apply xadd_sq_nonfin_r. exact Hs.
  - rewrite IH. reflexivity.
Qed.

Definition LtOrLe (F : ss_facts) : Prop := sf_cmp F = CmpLt \/ sf_cmp F = CmpLe.

Lemma Qcompare_Lt a b : (a ?= b) = Lt <-> a < b.
Proof. symmetry. apply Qlt_alt. Qed.
Lemma Qcompare_Eq a b : (a ?= b) = Eq <-> a == b.
Proof. symmetry. apply Qeq_alt. Qed.
Lemma Qcompare_Gt a b : (a ?= b) = Gt <-> b < a.
Proof. symmetry. apply Qgt_alt. Qed.

Lemma Qle_bool_false a b : Qle_bool a b = false <-> b < a.
Proof.
  split.
  - intro H. apply Qnot_le_lt. intro Hle. apply Qle_bool_iff in Hle. congruence.
  - intro H. destruct (Qle_bool a b) eqn:E; [|reflexivity]. apply Qle_bool_iff in E.
    exfalso. apply (Qlt_not_le _ _ H E).
Qed.

(** the four-valued comparison on a finite sum of squares is the test of SteadyLoop.v *)
Lemma reaches_below F d tol : LtOrLe F ->
  reaches_success F (norm_cmp (XFin (sumsq d)) tol) = below F d tol.
Proof.
  intros HC. unfold reaches_success, below, norm_cmp.
  destruct (sf_norm F); [|reflexivity].
  pose proof (sumsq_nonneg d) as Hs. set (s := sumsq d) in *.
  assert (B1 : forall a b, Qltb a b = true -> a < b) by (intros a b; apply Qltb_lt).
  assert (B2 : forall a b, Qltb a b = false -> b <= a) by (intros a b; apply Qltb_false).
  assert (B3 : forall a b, Qle_bool a b = true -> a <= b) by (intros a b; apply Qle_bool_iff).
  assert (B4 : forall a b, Qle_bool a b = false -> b < a) by (intros a b; apply Qle_bool_false).
  destruct HC as [-> | ->].
  - destruct (Qltb tol 0) eqn:E1; destruct (Qltb 0 tol) eqn:E2; destruct (Qltb s (tol * tol)) eqn:E3;
      destruct (Qcompare_spec s (tol * tol)) as [E4|E4|E4]; cbn; try reflexivity; exfalso;
      try apply B1 in E1; try apply B2 in E1; try apply B1 in E2; try apply B2 in E2;
      try apply B1 in E3; try apply B2 in E3; nra.
  - destruct (Qltb tol 0) eqn:E1; destruct (Qle_bool 0 tol) eqn:E2; destruct (Qle_bool s (tol * tol)) eqn:E3;
      destruct (Qcompare_spec s (tol * tol)) as [E4|E4|E4]; cbn; try reflexivity; exfalso;
      try apply B1 in E1; try apply B2 in E1; try apply B3 in E2; try apply B4 in E2;
      try apply B3 in E3; try apply B4 in E3; nra.
Qed.

Lemma reaches_nonfin F s tol : LtOrLe F -> sq_nonfin s -> reaches_success F (norm_cmp s tol) = false.
Proof.
  intros HC [-> | ->]; unfold reaches_success, norm_cmp; destruct (sf_norm F); try reflexivity;
    destruct HC as [-> | ->]; reflexivity.
Qed.

Lemma xconv_test_fin F tol rel a b : LtOrLe F ->
  xconv_test F tol rel (fin a) (fin b) = conv_test F tol rel a b.
Proof.
  intros HC. unfold xconv_test, xstep_cmp, conv_test. destruct rel.
  - pose proof (xdiff_rel_fin a b) as H. destruct (diff_rel a b) as [d| |].
    + rewrite H, xsumsq_fin, (reaches_below F d tol HC). reflexivity.
    + destruct H as [d [E Hs]]. rewrite E, (reaches_nonfin F _ tol HC Hs). reflexivity.
    + rewrite H. reflexivity.
  - rewrite xdiff_abs_fin. pose proof (diff_abs_not_nonfinite a b) as Hn.
    destruct (diff_abs a b) as [d| |]; [|contradiction|reflexivity].
    rewrite xsumsq_fin, (reaches_below F d tol HC). reflexivity.
Qed.

Definition xprev (p : prev_ref) : xprev_ref :=
  match p with Held v => XHeld (fin v) | Buffer => XBuffer end.

Lemma xs_loop_fin F tol rel (y : nat -> vec) ok : LtOrLe F ->
  forall fuel i t p,
    xs_loop F tol rel (fun n => fin (y n)) ok fuel i t (xprev p)
    = xs_of (ss_loop F tol rel y ok fuel i t p).
Proof.
  intros HC. induction fuel as [|fuel IH]; intros i t p; cbn [xs_loop ss_loop].
  - destruct (sf_exhaust F); reflexivity.
  - destruct (step_aborts F ok i); [reflexivity|].
    assert (E : xconv_test F tol rel match xprev p with XHeld v => v | XBuffer => fin (y (S i)) end (fin (y (S i)))
                = conv_test F tol rel match p with Held v => v | Buffer => y (S i) end (y (S i))).
    { destruct p; cbn [xprev]; apply xconv_test_fin; exact HC. }
    rewrite E. destruct (conv_test F tol rel _ (y (S i))); try reflexivity.
    destruct (sf_prev F).
    + apply (IH (S i) _ (Held (y (S i)))).
    + apply (IH (S i) _ Buffer).
    + apply (IH (S i) _ (Held (y (S i)))).
Qed.

Lemma xs_run_finite F tol rel y0 (y : nat -> vec) ok : LtOrLe F ->
  xs_run F tol rel (fin y0) (fun n => fin (y n)) ok = xs_of (ss_run_s F tol rel y0 y ok).
Proof.
  intros HC. unfold xs_run, ss_run_s. destruct (facts_known F); [|reflexivity].
  apply (xs_loop_fin F tol rel y ok HC _ _ _ (Held y0)).
Qed.

(** *** (2) the outcome is decided by the first iteration that is not "go on" *)

Lemma xdiff_shape rel : forall a b, length a = length b -> exists d, xdiff rel a b = Some d.
Proof.
  induction a as [|x a IH]; intros [|z b] Hl; simpl in Hl; try discriminate.
  - exists []. reflexivity.
  - injection Hl as Hl. destruct (IH b Hl) as [d E]. cbn [xdiff]. rewrite E. eexists. reflexivity.
Qed.

Lemma xstep_cmp_shape tol rel a b : length a = length b -> exists c, xstep_cmp tol rel a b = Some c.
Proof.
  intro Hl. unfold xstep_cmp. destruct (xdiff_shape rel a b Hl) as [d ->]. eexists. reflexivity.
Qed.

Inductive event := EAbort | EConv | ENot | EShp.

Section XSpec.
  Variable F : ss_facts.
  Variable tol : Q.
  Variable rel : bool.
  Variable y : nat -> xvec.
  Variable ok : nat -> bool.
  Hypothesis Hprev : sf_prev F = PrevCopy.
  Hypothesis Hex : sf_exhaust F = ExhaustFail.

  (** what iteration [i] does when the previous iterate is (a copy of) [y i] *)
  Definition ev (i : nat) : event :=
    if step_aborts F ok i then EAbort else
    match xconv_test F tol rel (y i) (y (S i)) with TConv => EConv | TNot => ENot | TShape => EShp end.

  Fixpoint tadv (t : Q) (k : nat) : Q :=
    match k with O => t | S k' => tadv (t + inject_Z (sf_step F)) k' end.

  Lemma tadv_eq : forall k t, tadv t k == t + inject_Z (sf_step F * Z.of_nat k).
  Proof.
    induction k as [|k IH]; intro t; cbn [tadv].
    - rewrite Z.mul_0_r. unfold inject_Z. ring.
    - rewrite IH, Nat2Z.inj_succ. unfold Z.succ. rewrite Z.mul_add_distr_l, Z.mul_1_r, !inject_Z_plus. ring.
  Qed.

  Definition outcome_at (t : Q) (i n : nat) : xs_out :=
    match ev n with
    | EAbort => XIntegFail
    | EConv => XSteady (tadv t (n - i)) (y (S n))
    | EShp => XShape
    | ENot => XNoSteady
    end.

  Lemma xs_loop_first : forall fuel i t n,
    (i <= n < i + fuel)%nat -> ev n <> ENot -> (forall m, (i <= m < n)%nat -> ev m = ENot) ->
    xs_loop F tol rel y ok fuel i t (XHeld (y i)) = outcome_at t i n.
  Proof.
    induction fuel as [|fuel IH]; intros i t n Hn Hne Hl; [lia|]. cbn [xs_loop].
    destruct (Nat.eq_dec n i) as [->|Hni].
    - unfold outcome_at, ev in *. rewrite Nat.sub_diag. cbn [tadv].
      destruct (step_aborts F ok i); [reflexivity|].
      destruct (xconv_test F tol rel (y i) (y (S i))); try reflexivity. contradiction.
    - assert (Hi : ev i = ENot) by (apply Hl; lia). unfold ev in Hi.
      destruct (step_aborts F ok i); [discriminate|].
      destruct (xconv_test F tol rel (y i) (y (S i))); try discriminate.
      rewrite Hprev. rewrite (IH (S i) _ n); [|lia|exact Hne|intros m Hm; apply Hl; lia].
      unfold outcome_at. replace (n - i)%nat with (S (n - S i))%nat by lia. reflexivity.
  Qed.

  Lemma xs_loop_none : forall fuel i t,
    (forall m, (i <= m < i + fuel)%nat -> ev m = ENot) ->
    xs_loop F tol rel y ok fuel i t (XHeld (y i)) = XNoSteady.
  Proof.
    induction fuel as [|fuel IH]; intros i t Hl; cbn [xs_loop].
    - rewrite Hex. reflexivity.
    - assert (Hi : ev i = ENot) by (apply Hl; lia). unfold ev in Hi.
      destruct (step_aborts F ok i); [discriminate|].
      destruct (xconv_test F tol rel (y i) (y (S i))); try discriminate.
      rewrite Hprev. apply IH. intros m Hm. apply Hl. lia.
  Qed.

  Lemma first_event : forall fuel i,
    (forall m, (i <= m < i + fuel)%nat -> ev m = ENot)
    \/ exists n, (i <= n < i + fuel)%nat /\ ev n <> ENot /\ forall m, (i <= m < n)%nat -> ev m = ENot.
  Proof.
    induction fuel as [|fuel IH]; intro i; [left; intros m Hm; lia|].
    destruct (ev i) eqn:E;
      try (right; exists i; split; [lia|]; split; [congruence | intros m Hm; lia]).
    destruct (IH (S i)) as [H | [n [Hn [He Hl]]]].
    - left. intros m Hm. destruct (Nat.eq_dec m i) as [->|Hne]; [exact E | apply H; lia].
    - right. exists n. split; [lia|]. split; [exact He|].
      intros m Hm. destruct (Nat.eq_dec m i) as [->|Hne]; [exact E | apply Hl; lia].
  Qed.
End XSpec.

(** the general specification: copy semantics + the test of integ.successful(); [r n] says whether
    the comparison of step [n] reaches the success return (whatever form the test has) *)
Section XChecked.
  Variable F : ss_facts.
  Hypothesis HF : CheckedFacts F.
  Variable tol : Q.
  Variable rel : bool.
  Variable y : nat -> xvec.
  Variable ok : nat -> bool.
  Hypothesis Hshape : forall n, length (y n) = length (y 0%nat).

  Let c (n : nat) : option ncmp := xstep_cmp tol rel (y n) (y (S n)).
  Let r (n : nat) : bool := match c n with Some k => reaches_success F k | None => false end.
  Let N := N.to_nat (sf_max_steps F).
  Let run := xs_run F tol rel (y 0%nat) y ok.

  Lemma c_some n : exists k, c n = Some k.
  Proof. apply xstep_cmp_shape. rewrite (Hshape n), (Hshape (S n)). reflexivity. Qed.

  Lemma ev_abort n : ev F tol rel y ok n = EAbort <-> ok (S n) = false.
  Proof.
    destruct HF as [_ HS]. unfold ev. rewrite (step_aborts_checked F ok n HS).
    destruct (ok (S n)); cbn.
    - split; [|discriminate]. destruct (xconv_test F tol rel (y n) (y (S n))); discriminate.
    - split; reflexivity.
  Qed.

  Lemma ev_conv n : ev F tol rel y ok n = EConv <-> ok (S n) = true /\ r n = true.
  Proof.
    destruct HF as [_ HS]. unfold ev, r, c, xconv_test. rewrite (step_aborts_checked F ok n HS).
    destruct (c_some n) as [k Hk]. unfold c in Hk. rewrite Hk.
    destruct (ok (S n)); cbn; destruct (reaches_success F k); split; try tauto; try discriminate;
      intros [? ?]; discriminate.
  Qed.

  Lemma ev_not n : ev F tol rel y ok n = ENot <-> ok (S n) = true /\ r n = false.
  Proof.
    destruct HF as [_ HS]. unfold ev, r, c, xconv_test. rewrite (step_aborts_checked F ok n HS).
    destruct (c_some n) as [k Hk]. unfold c in Hk. rewrite Hk.
    destruct (ok (S n)); cbn; destruct (reaches_success F k); split; try tauto; try discriminate;
      intros [? ?]; discriminate.
  Qed.

  Lemma ev_no_shape n : ev F tol rel y ok n <> EShp.
  Proof.
    unfold ev, xconv_test. destruct (c_some n) as [k Hk]. unfold c in Hk. rewrite Hk.
    destruct (step_aborts F ok n); [discriminate|]. destruct (reaches_success F k); discriminate.
  Qed.

  Lemma run_unfold : run = xs_loop F tol rel y ok N 0 (0 + inject_Z (sf_step F)) (XHeld (y 0%nat)).
  Proof. destruct HF as [[Hk _] _]. unfold run, xs_run. rewrite Hk. reflexivity. Qed.

  Lemma time_first n : tadv F (0 + inject_Z (sf_step F)) (n - 0) == time_of F n.
  Proof.
    rewrite tadv_eq. unfold time_of. rewrite Nat.sub_0_r, Nat2Z.inj_succ. unfold Z.succ.
    rewrite Z.mul_add_distr_l, Z.mul_1_r, !inject_Z_plus. ring.
  Qed.

  (** the three ways a run can end, each determined by the first step that is not "go on" *)
  Lemma xrun_steady_complete n :
    (n < N)%nat -> r n = true -> (forall m, (m <= n)%nat -> ok (S m) = true) ->
    (forall m, (m < n)%nat -> r m = false) ->
    exists t, run = XSteady t (y (S n)) /\ t == time_of F n.
  Proof.
    destruct HF as [[_ [Hp He]] _]. intros Hn Hr Hok Hl. rewrite run_unfold.
    rewrite (xs_loop_first F tol rel y ok Hp N 0 _ n); [|lia| |].
    - unfold outcome_at. assert (E : ev F tol rel y ok n = EConv) by (apply ev_conv; split; [apply Hok; lia | exact Hr]).
      rewrite E. eexists. split; [reflexivity | apply time_first].
    - assert (E : ev F tol rel y ok n = EConv) by (apply ev_conv; split; [apply Hok; lia | exact Hr]).
      rewrite E. discriminate.
    - intros m Hm. apply ev_not. split; [apply Hok; lia | apply Hl; lia].
  Qed.

  Lemma xrun_fail_complete n :
    (n < N)%nat -> ok (S n) = false -> (forall m, (m < n)%nat -> ok (S m) = true /\ r m = false) ->
    run = XIntegFail.
  Proof.
    destruct HF as [[_ [Hp He]] _]. intros Hn Hb Hl. rewrite run_unfold.
    assert (E : ev F tol rel y ok n = EAbort) by (apply ev_abort; exact Hb).
    rewrite (xs_loop_first F tol rel y ok Hp N 0 _ n); [|lia| |].
    - unfold outcome_at. rewrite E. reflexivity.
    - rewrite E. discriminate.
    - intros m Hm. apply ev_not. apply Hl. lia.
  Qed.

  Lemma xrun_nosteady_complete :
    (forall m, (m < N)%nat -> ok (S m) = true /\ r m = false) -> run = XNoSteady.
  Proof.
    destruct HF as [[_ [Hp He]] _]. intros Hl. rewrite run_unfold.
    apply (xs_loop_none F tol rel y ok Hp He). intros m Hm. apply ev_not. apply Hl. lia.
  Qed.

  (** every run ends in exactly one of them *)
  Lemma xrun_cases :
    (exists n t, (n < N)%nat /\ r n = true /\ (forall m, (m <= n)%nat -> ok (S m) = true)
                 /\ (forall m, (m < n)%nat -> r m = false) /\ run = XSteady t (y (S n)) /\ t == time_of F n)
    \/ (exists n, (n < N)%nat /\ ok (S n) = false /\ (forall m, (m < n)%nat -> ok (S m) = true /\ r m = false)
                  /\ run = XIntegFail)
    \/ ((forall m, (m < N)%nat -> ok (S m) = true /\ r m = false) /\ run = XNoSteady).
  Proof.
    destruct (first_event F tol rel y ok N 0) as [Hall | [n [Hn [Hne Hl]]]].
    - right. right. assert (H : forall m, (m < N)%nat -> ok (S m) = true /\ r m = false).
      { intros m Hm. apply ev_not. apply Hall. lia. }
      split; [exact H | apply xrun_nosteady_complete; exact H].
    - assert (Hl' : forall m, (m < n)%nat -> ok (S m) = true /\ r m = false).
      { intros m Hm. apply ev_not. apply Hl. lia. }
      destruct (ev F tol rel y ok n) eqn:E.
      + right. left. apply ev_abort in E. exists n. split; [lia|]. split; [exact E|]. split; [exact Hl'|].
        apply (xrun_fail_complete n); [lia | exact E | exact Hl'].
      + left. apply ev_conv in E. destruct E as [Hon Hr].
        assert (Hok : forall m, (m <= n)%nat -> ok (S m) = true).
        { intros m Hm. destruct (Nat.eq_dec m n) as [->|Hd]; [exact Hon | apply Hl'; lia]. }
        destruct (xrun_steady_complete n ltac:(lia) Hr Hok (fun m Hm => proj2 (Hl' m Hm))) as [t [Et Ht]].
        exists n, t. split; [lia|]. split; [exact Hr|]. split; [exact Hok|].
        split; [exact (fun m Hm => proj2 (Hl' m Hm))|]. split; [exact Et | exact Ht].
      + contradiction.
      + exfalso. apply (ev_no_shape n). exact E.
  Qed.

  Lemma xrun_steady_sound t v :
    run = XSteady t v ->
    exists n, (n < N)%nat /\ r n = true /\ (forall m, (m <= n)%nat -> ok (S m) = true)
              /\ (forall m, (m < n)%nat -> r m = false) /\ t == time_of F n /\ v = y (S n).
  Proof.
    intro E. destruct xrun_cases as [[n [t' [Hn [Hr [Hok [Hl [Er Ht]]]]]]] | [[n [_ [_ [_ Er]]]] | [_ Er]]];
      rewrite Er in E; try discriminate.
    injection E as Et Ev. exists n. subst t' v. repeat split; assumption.
  Qed.

  Lemma xrun_fail_sound :
    run = XIntegFail ->
    exists n, (n < N)%nat /\ ok (S n) = false /\ (forall m, (m < n)%nat -> ok (S m) = true /\ r m = false).
  Proof.
    intro E. destruct xrun_cases as [[n [t' [_ [_ [_ [_ [Er _]]]]]]] | [[n [Hn [Hb [Hl Er]]]] | [_ Er]]];
      rewrite Er in E; try discriminate.
    exists n. repeat split; try assumption; apply Hl; assumption.
  Qed.

  Lemma xrun_nosteady_sound :
    run = XNoSteady -> forall m, (m < N)%nat -> ok (S m) = true /\ r m = false.
  Proof.
    intro E. destruct xrun_cases as [[n [t' [_ [_ [_ [_ [Er _]]]]]]] | [[n [_ [_ [_ Er]]]] | [H _]]];
      try (rewrite Er in E; discriminate).
    exact H.
  Qed.

  Lemma xrun_total : run <> XShape /\ run <> XUnknownFacts.
  Proof.
    destruct xrun_cases as [[n [t' [_ [_ [_ [_ [Er _]]]]]]] | [[n [_ [_ [_ Er]]]] | [_ Er]]];
      rewrite Er; split; discriminate.
  Qed.
End XChecked.

(** *** (3) the tree's test [norm < tol]: success only on a NUMBER below the tolerance *)

Lemma reaches_lt F k : L2Lt F -> (reaches_success F k = true <-> k = NLt).
Proof.
  intros [Hn Hc]. unfold reaches_success. rewrite Hn, Hc. destruct k; split; congruence.
Qed.

Lemma reaches_lt_false F k : L2Lt F -> (reaches_success F k = false <-> k <> NLt).
Proof.
  intros HL. pose proof (reaches_lt F k HL) as H. destruct (reaches_success F k); split; intro A.
  - discriminate.
  - exfalso. apply A. apply H. reflexivity.
  - intro B. apply H in B. discriminate.
  - reflexivity.
Qed.

Section XLtSpec.
  Variable F : ss_facts.
  Hypothesis HF : CheckedFacts F.
  Hypothesis HL : L2Lt F.
  Variable tol : Q.
  Variable rel : bool.
  Variable y : nat -> xvec.
  Variable ok : nat -> bool.
  Hypothesis Hshape : forall n, length (y n) = length (y 0%nat).

  Let c (n : nat) : option ncmp := xstep_cmp tol rel (y n) (y (S n)).
  Let N := N.to_nat (sf_max_steps F).

  Lemma r_true n :
    match c n with Some k => reaches_success F k | None => false end = true <-> c n = Some NLt.
  Proof.
    destruct (c_some tol rel y Hshape n) as [k Hk]. cbv zeta in Hk. unfold c. rewrite Hk.
    rewrite (reaches_lt F k HL). split; [intros ->; reflexivity | intro H; injection H; auto].
  Qed.

  Lemma r_false n :
    match c n with Some k => reaches_success F k | None => false end = false <-> c n <> Some NLt.
  Proof.
    destruct (c_some tol rel y Hshape n) as [k Hk]. cbv zeta in Hk. unfold c. rewrite Hk.
    rewrite (reaches_lt_false F k HL). split; [intros H E; injection E; auto | intros H E; apply H; rewrite E; reflexivity].
  Qed.

  Lemma xlt_spec :
    (forall t v, xs_run F tol rel (y 0%nat) y ok = XSteady t v ->
       exists n, (n < N)%nat /\ c n = Some NLt /\ (forall m, (m <= n)%nat -> ok (S m) = true)
                 /\ (forall m, (m < n)%nat -> c m <> Some NLt) /\ t == time_of F n /\ v = y (S n))
    /\ (forall n, (n < N)%nat -> c n = Some NLt -> (forall m, (m <= n)%nat -> ok (S m) = true) ->
          (forall m, (m < n)%nat -> c m <> Some NLt) ->
          exists t, xs_run F tol rel (y 0%nat) y ok = XSteady t (y (S n)) /\ t == time_of F n)
    /\ (xs_run F tol rel (y 0%nat) y ok = XIntegFail
        <-> exists n, (n < N)%nat /\ ok (S n) = false
                      /\ (forall m, (m < n)%nat -> ok (S m) = true /\ c m <> Some NLt))
    /\ (xs_run F tol rel (y 0%nat) y ok = XNoSteady
        <-> forall m, (m < N)%nat -> ok (S m) = true /\ c m <> Some NLt)
    /\ xs_run F tol rel (y 0%nat) y ok <> XShape
    /\ xs_run F tol rel (y 0%nat) y ok <> XUnknownFacts.
  Proof.
    split; [|split; [|split; [|split]]].
    - intros t v E. destruct (xrun_steady_sound F HF tol rel y ok Hshape t v E) as [n [Hn [Hr [Hok [Hl [Ht Hv]]]]]].
      exists n. split; [exact Hn|]. split; [apply r_true; exact Hr|]. split; [exact Hok|].
      split; [|split; [exact Ht | exact Hv]]. intros m Hm. apply r_false. apply Hl. exact Hm.
    - intros n Hn Hc Hok Hl.
      apply (xrun_steady_complete F HF tol rel y ok Hshape n Hn); [apply r_true; exact Hc | exact Hok|].
      intros m Hm. apply r_false. apply Hl. exact Hm.
    - split.
      + intro E. destruct (xrun_fail_sound F HF tol rel y ok Hshape E) as [n [Hn [Hb Hl]]].
        exists n. split; [exact Hn|]. split; [exact Hb|]. intros m Hm. destruct (Hl m Hm) as [Ho Hr].
        split; [exact Ho | apply r_false; exact Hr].
      + intros [n [Hn [Hb Hl]]]. apply (xrun_fail_complete F HF tol rel y ok Hshape n Hn Hb).
        intros m Hm. destruct (Hl m Hm) as [Ho Hr]. split; [exact Ho | apply r_false; exact Hr].
    - split.
      + intros E m Hm. destruct (xrun_nosteady_sound F HF tol rel y ok Hshape E m Hm) as [Ho Hr].
        split; [exact Ho | apply r_false; exact Hr].
      + intros Hl. apply (xrun_nosteady_complete F HF tol rel y ok Hshape).
        intros m Hm. destruct (Hl m Hm) as [Ho Hr]. split; [exact Ho | apply r_false; exact Hr].
    - apply (xrun_total F HF tol rel y ok Hshape).
  Qed.

  (** a norm that is NaN in every step of the budget: the failure value *)
  Lemma undefined_norm_fails :
    (forall m, (m < N)%nat -> ok (S m) = true /\ c m = Some NUndef) ->
    xs_run F tol rel (y 0%nat) y ok = XNoSteady.
  Proof.
    intros H. apply xlt_spec. intros m Hm. destruct (H m Hm) as [Ho Hc].
    split; [exact Ho|]. rewrite Hc. discriminate.
  Qed.
End XLtSpec.

(** *** (4) where a NaN norm comes from *)

Lemma xadd_nan_r a : xadd a XNaN = XNaN.
Proof. destruct a; reflexivity. Qed.

Lemma xsumsq_nan : forall d, In XNaN d -> xsumsq d = XNaN.
Proof.
  induction d as [|x d IH]; intros Hin; [contradiction|]. cbn [xsumsq fold_right].
  destruct Hin as [-> | Hin]; [reflexivity|].
  pose proof (IH Hin) as E. unfold xsumsq in E. rewrite E. apply xadd_nan_r.
Qed.

(** entry of [diff] computed from entries [a] (previous) and [b] (new) *)
Definition xentry (rel : bool) (a b : xq) : xq := if rel then xdiv (xsub b a) a else xsub b a.

Lemma xdiff_nan_entry rel : forall a b d k,
  xdiff rel a b = Some d -> (k < length a)%nat ->
  xentry rel (nth k a (XFin 1)) (nth k b (XFin 1)) = XNaN -> In XNaN d.
Proof.
  induction a as [|x a IH]; intros [|z b] d k E Hk Hn; cbn [xdiff] in E; try discriminate;
    [simpl in Hk; lia|].
  destruct (xdiff rel a b) as [d'|] eqn:Ed; [|discriminate]. injection E as <-.
  destruct k as [|k]; cbn [nth] in Hn.
  - left. exact Hn.
  - right. apply (IH b d' k Ed); [simpl in Hk; lia | exact Hn].
Qed.

Lemma xstep_cmp_undef tol rel a b k :
  length a = length b -> (k < length a)%nat ->
  xentry rel (nth k a (XFin 1)) (nth k b (XFin 1)) = XNaN ->
  xstep_cmp tol rel a b = Some NUndef.
Proof.
  intros Hl Hk Hn. unfold xstep_cmp. destruct (xdiff_shape rel a b Hl) as [d E]. rewrite E.
  rewrite (xsumsq_nan d (xdiff_nan_entry rel a b d k E Hk Hn)). reflexivity.
Qed.

(** 0/0: a pool that is exactly 0 before and after the step (relative norm) *)
Lemma xentry_zero_zero : xentry true (XFin 0) (XFin 0) = XNaN.
Proof. reflexivity. Qed.
(** a NaN in the new buffer (both norms) *)
Lemma xentry_nan_new rel a : xentry rel a XNaN = XNaN.
Proof. destruct rel; destruct a; reflexivity. Qed.

Section NanSources.
  Variable F : ss_facts.
  Hypothesis HF : CheckedFacts F.
  Hypothesis HL : L2Lt F.
  Variable tol : Q.
  Variable y : nat -> xvec.
  Variable ok : nat -> bool.
  Hypothesis Hshape : forall n, length (y n) = length (y 0%nat).
  Hypothesis Hok : forall n, ok n = true.

  Lemma empty_pool_rel_fails k :
    (k < length (y 0%nat))%nat -> (forall n, nth k (y n) (XFin 1) = XFin 0) ->
    xs_run F tol true (y 0%nat) y ok = XNoSteady.
  Proof.
    intros Hk Hz. apply (undefined_norm_fails F HF HL tol true y ok Hshape).
    intros m _. split; [apply Hok|].
    apply (xstep_cmp_undef tol true (y m) (y (S m)) k).
    - rewrite (Hshape m), (Hshape (S m)). reflexivity.
    - rewrite (Hshape m). exact Hk.
    - rewrite (Hz m), (Hz (S m)). exact xentry_zero_zero.
  Qed.

  Lemma nan_state_fails rel :
    (forall n, (n < N.to_nat (sf_max_steps F))%nat ->
       exists k, (k < length (y 0%nat))%nat /\ nth k (y (S n)) (XFin 1) = XNaN) ->
    xs_run F tol rel (y 0%nat) y ok = XNoSteady.
  Proof.
    intros Hnan. apply (undefined_norm_fails F HF HL tol rel y ok Hshape).
    intros m Hm. split; [apply Hok|]. destruct (Hnan m Hm) as [k [Hk Hn]].
    apply (xstep_cmp_undef tol rel (y m) (y (S m)) k).
    - rewrite (Hshape m), (Hshape (S m)). reflexivity.
    - rewrite (Hshape m). exact Hk.
    - rewrite Hn. apply xentry_nan_new.
  Qed.
End NanSources.

(** *** (5) the early-continue form [if norm >= tol: ...; continue] + unconditional success *)

Definition L2NotGe (F : ss_facts) : Prop := sf_norm F = NormL2 /\ sf_cmp F = CmpNotGe.

Lemma reaches_notge F k : L2NotGe F -> (reaches_success F k = true <-> k = NLt \/ k = NUndef).
Proof.
  intros [Hn Hc]. unfold reaches_success. rewrite Hn, Hc.
  destruct k; split; try tauto; try congruence; intros [H|H]; congruence.
Qed.

(** a NaN norm in the FIRST step is reported as a steady state at the first sampling time *)
Lemma fallthrough_first_step F (HF : CheckedFacts F) (HG : L2NotGe F) tol rel (y : nat -> xvec) ok :
  (forall n, length (y n) = length (y 0%nat)) -> (1 <= N.to_nat (sf_max_steps F))%nat ->
  ok 1%nat = true -> xstep_cmp tol rel (y 0%nat) (y 1%nat) = Some NUndef ->
  exists t, xs_run F tol rel (y 0%nat) y ok = XSteady t (y 1%nat) /\ t == time_of F 0.
Proof.
  intros Hs HN Hok Hc.
  apply (xrun_steady_complete F HF tol rel y ok Hs 0); [lia | | |].
  - rewrite Hc. apply (reaches_notge F NUndef HG). right. reflexivity.
  - intros m Hm. replace m with 0%nat by lia. exact Hok.
  - intros m Hm. lia.
Qed.

(** the two forms agree on every run in which no comparison is undefined *)
Lemma xs_loop_same_tests F G tol rel (y : nat -> xvec) ok :
  sf_prev F = PrevCopy -> sf_prev G = PrevCopy -> sf_exhaust F = sf_exhaust G -> sf_step F = sf_step G ->
  sf_succ F = sf_succ G ->
  forall fuel i t,
    (forall m, (i <= m < i + fuel)%nat ->
       xconv_test F tol rel (y m) (y (S m)) = xconv_test G tol rel (y m) (y (S m))) ->
    xs_loop F tol rel y ok fuel i t (XHeld (y i)) = xs_loop G tol rel y ok fuel i t (XHeld (y i)).
Proof.
  intros HpF HpG He Hst Hsu. induction fuel as [|fuel IH]; intros i t Hall; cbn [xs_loop].
  - rewrite He. reflexivity.
  - assert (Ea : step_aborts F ok i = step_aborts G ok i) by (unfold step_aborts; rewrite Hsu; reflexivity).
    rewrite Ea, (Hall i ltac:(lia)). destruct (step_aborts G ok i); [reflexivity|].
    destruct (xconv_test G tol rel (y i) (y (S i))); try reflexivity.
    rewrite HpF, HpG, Hst. apply IH. intros m Hm. apply Hall. lia.
Qed.
