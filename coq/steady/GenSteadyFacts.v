(* REGENERATED from src/mxlpy/integrators/int_scipy.py (Scipy.integrate_to_steady_state, reset),
   simulator.py, scan.py, types.py, simulation.py by harness/c15.py; do not edit.
   An unrecognised shape yields a *Unknown constructor / false, which breaks C15_facts_pinned. *)
From Coq Require Import QArith ZArith NArith.
From Steady Require Import SteadyLoop SteadyHist2.
Definition gen_ss_facts : ss_facts :=
  mkSSFacts 100%Z 1000%N CmpLt NormL2 PrevCopy RelDivPrev ExhaustFail SuccChecked true.
Definition gen_plumb_facts : plumb_facts :=
  mkPlumb true true (4722366482869645 # 4722366482869645213696)%Q.
Definition gen_hist_facts : hist_facts :=
  mkHistFacts HkSkipfirst LabModelNames true.
