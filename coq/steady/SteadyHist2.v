(** C15 -- EXTENDED histories of one Simulator (closing round; no proofs in this file).

    SteadyLoop.v models [simulate] / [simulate_time_course] / [simulate_to_steady_state] on a fresh
    Simulator.  Here the same plumbing is modelled once more with everything a caller can do BETWEEN
    two runs on the same Simulator, and with the NAMES the reported state is attached to:

      Simulator.__init__           self.y0 = model.get_initial_conditions() if y0 is None else y0
      _initialise_integrator       integrator(rhs, tuple(y0[k] for k in model.get_variable_names()), jac)
                                   -- the integrator state is ordered by the MODEL's variable names; the
                                   y0 dictionary is only looked up by name ([init_state])
      update_parameter(s), scale_parameter(s)      self.model.<same>(...); return self   -- [O2UpdateParameters]
      update_variables             no stored results: y0 |= variables, new integrator
                                   else: t_last = float(variables[-1].index[-1]); ...; _time_shift = t_last;
                                   new integrator                                        -- [O2UpdateVariables]
      clear_results                variables = simulation_parameters = _time_shift = None; _errors = [];
                                   new integrator                                        -- [O2Clear]
      _handle_simulation_results(result, skipfirst)                                      -- [handle2]
          case TimeCourse(time, values):
              if self._time_shift is not None: time += self._time_shift
              results_df = pd.DataFrame(data=values, index=time, columns=<labels>)       [hf_label]
              if self.variables is None:   self.variables = [results_df]
              elif skipfirst:              self.variables.append(results_df.iloc[1:, :]) [hf_handle = HkSkipfirst]
              else:                        self.variables.append(results_df)
              ...
          case _ as e: self._errors.append(e)
      get_result                   first error | IntegrationFailure when nothing is stored | all frames

    Frames are kept as a list of lists (an empty last frame makes [variables[-1].index[-1]] raise:
    modelled as [None]).  What the integrator returns in a call is external behaviour carried by the
    operation, exactly as in SteadyLoop.v; that a new integrator object starts again at its own time 0
    from the overridden state is part of that external behaviour and not modelled.

    Two regenerated facts select the variant ([gen_hist_facts], GenSteadyFacts.v):
    [hf_handle]  HkSkipfirst = the tree; HkLaterOnly = seeded change C15-7 (no [skipfirst]; keep only
                 rows whose time is strictly later than the last stored time; nothing left => return
                 before anything is stored);
    [hf_label]   LabModelNames = the tree ([columns=self.model.get_variable_names()]); LabY0Keys =
                 seeded change C15-9 ([columns=list(self.y0)]: the key order of the caller's dict). *)
From Coq Require Import QArith ZArith NArith List Bool.
Import ListNotations.
From Steady Require Import SteadyLoop.

Inductive handle_kind := HkSkipfirst | HkLaterOnly | HkUnknown.
Inductive label_kind := LabModelNames | LabY0Keys | LabUnknown.

Record hist_facts := mkHistFacts {
  hf_handle : handle_kind;   (* how _handle_simulation_results appends a continued run *)
  hf_label : label_kind;     (* which names label the columns of a result frame *)
  hf_ops_ok : bool           (* __init__, _initialise_integrator, update_*, scale_*, clear_results as above *)
}.

Definition row := (Q * vec)%type.

Record sim2 := mkSim2 {
  s2_frames : option (list (list row));   (* self.variables *)
  s2_errors : list sim_error;             (* self._errors *)
  s2_shift : option Q                     (* self._time_shift *)
}.
Definition sim2_fresh : sim2 := mkSim2 None [] None.

(** [time += self._time_shift] *)
Definition shift_time (sh : option Q) (t : Q) : Q := match sh with None => t | Some d => t + d end.
Definition shift_rows (sh : option Q) (rows : list row) : list row :=
  map (fun r => (shift_time sh (fst r), snd r)) rows.

Definition last_opt {A : Type} (l : list A) : option A := match rev l with x :: _ => Some x | [] => None end.

(** [variables[-1].index[-1]]; [None] = IndexError (empty last frame) *)
Definition last_time (fs : list (list row)) : option Q :=
  match last_opt fs with
  | Some f => match last_opt f with Some r => Some (fst r) | None => None end
  | None => None
  end.

(** [results_df.index > t_prev] *)
Definition later (tp : Q) (r : row) : bool := negb (Qle_bool (fst r) tp).

Definition handle2 (k : handle_kind) (s : sim2) (r : tc_res) (skipfirst : bool) : option sim2 :=
  match r with
  | TCFail e => Some (mkSim2 (s2_frames s) (s2_errors s ++ [e]) (s2_shift s))
  | TCRows rows =>
      let rows' := shift_rows (s2_shift s) rows in
      match k, s2_frames s with
      | HkUnknown, _ => None
      | _, None => Some (mkSim2 (Some [rows']) (s2_errors s) (s2_shift s))
      | HkSkipfirst, Some fs =>
          Some (mkSim2 (Some (fs ++ [if skipfirst then tl rows' else rows'])) (s2_errors s) (s2_shift s))
      | HkLaterOnly, Some fs =>
          match last_time fs with
          | None => None
          | Some tp => match filter (later tp) rows' with
                       | [] => Some s
                       | kept => Some (mkSim2 (Some (fs ++ [kept])) (s2_errors s) (s2_shift s))
                       end
          end
      end
  end.

Inductive op2 :=
| O2Simulate (r : tc_res)      (* simulate / simulate_time_course; r = what the integrator returned *)
| O2Steady (r : ss_out)        (* simulate_to_steady_state; r = what the loop returned *)
| O2UpdateParameters           (* update_parameter(s) / scale_parameter(s) *)
| O2UpdateVariables            (* update_variable(s) *)
| O2Clear.                     (* clear_results *)

Definition step2 (k : handle_kind) (s : sim2) (op : op2) : option sim2 :=
  match op with
  | O2Simulate r => match s2_errors s with _ :: _ => Some s | [] => handle2 k s r true end
  | O2Steady r => match s2_errors s with
                  | _ :: _ => Some s
                  | [] => match tc_of_ss r with Some tc => handle2 k s tc false | None => None end
                  end
  | O2UpdateParameters => Some s
  | O2UpdateVariables =>
      match s2_frames s with
      | None => Some s
      | Some fs => match last_time fs with
                   | Some t => Some (mkSim2 (Some fs) (s2_errors s) (Some t))
                   | None => None
                   end
      end
  | O2Clear => Some sim2_fresh
  end.

Fixpoint hist2 (k : handle_kind) (s : sim2) (ops : list op2) : option sim2 :=
  match ops with
  | [] => Some s
  | op :: ops' => match step2 k s op with Some s' => hist2 k s' ops' | None => None end
  end.

Definition get_result2 (s : sim2) : sim_result :=
  match s2_errors s with
  | e :: _ => RError e
  | [] => match s2_frames s with None => RError EIntegrationFailure | Some fs => RSimulation (concat fs) end
  end.

Definition hist2_result (k : handle_kind) (ops : list op2) : option sim_result :=
  match hist2 k sim2_fresh ops with Some s => Some (get_result2 s) | None => None end.

(** ** names *)

Fixpoint lookupN (k : N) (d : list (N * Q)) : option Q :=
  match d with
  | [] => None
  | (k', v) :: d' => if N.eqb k k' then Some v else lookupN k d'
  end.

(** [tuple(y0[k] for k in self.model.get_variable_names())]; [None] = KeyError *)
Fixpoint init_state (names : list N) (y0 : list (N * Q)) : option vec :=
  match names with
  | [] => Some []
  | k :: names' => match lookupN k y0, init_state names' y0 with
                   | Some v, Some vs => Some (v :: vs)
                   | _, _ => None
                   end
  end.

Definition labels_of (lk : label_kind) (names keys : list N) : option (list N) :=
  match lk with LabModelNames => Some names | LabY0Keys => Some keys | LabUnknown => None end.

Definition named_row := (Q * list (N * Q))%type.

(** [pd.DataFrame(data=values, index=time, columns=labels)]: a row as name -> value; pandas raises when
    the number of labels differs from the width of the data *)
Definition label_row (ls : list N) (r : row) : option named_row :=
  if Nat.eqb (length ls) (length (snd r)) then Some (fst r, combine ls (snd r)) else None.

Fixpoint label_rows (ls : list N) (rows : list row) : option (list named_row) :=
  match rows with
  | [] => Some []
  | r :: rows' => match label_row ls r, label_rows ls rows' with
                  | Some x, Some xs => Some (x :: xs)
                  | _, _ => None
                  end
  end.

Inductive named_result := NSimulation (rows : list named_row) | NError (e : sim_error).

Definition name_result (lk : label_kind) (names keys : list N) (r : sim_result) : option named_result :=
  match r with
  | RError e => Some (NError e)
  | RSimulation rows =>
      match labels_of lk names keys with
      | None => None
      | Some ls => match label_rows ls rows with Some x => Some (NSimulation x) | None => None end
      end
  end.

(** get_result() after a history on [Simulator(model, y0)]: [names] = model.get_variable_names(),
    [keys] = list(y0) (= names when y0 is None) *)
Definition hist2_named (F : hist_facts) (names keys : list N) (ops : list op2) : option named_result :=
  if hf_ops_ok F
  then match hist2_result (hf_handle F) ops with
       | Some r => name_result (hf_label F) names keys r
       | None => None
       end
  else None.

(** ** comparison with the implementation (correspondence files) *)

Fixpoint nvec_eqb (a b : list (N * Q)) : bool :=
  match a, b with
  | [], [] => true
  | (k, x) :: a', (l, z) :: b' => N.eqb k l && Qeq_bool x z && nvec_eqb a' b'
  | _, _ => false
  end.
Fixpoint nrows_eqb (a b : list named_row) : bool :=
  match a, b with
  | [], [] => true
  | (t, v) :: a', (u, w) :: b' => Qeq_bool t u && nvec_eqb v w && nrows_eqb a' b'
  | _, _ => false
  end.
Definition named_eqb (a : option named_result) (b : named_result) : bool :=
  match a, b with
  | Some (NSimulation l), NSimulation m => nrows_eqb l m
  | Some (NError e), NError f => err_eqb e f
  | _, _ => false
  end.

(** the operations of SteadyLoop.v as operations of this model *)
Definition embed (op : sim_op) : op2 :=
  match op with OpSimulate r => O2Simulate r | OpSteady r => O2Steady r end.

(** the failure value of a search, if any *)
Definition ss_failure (r : ss_out) : option sim_error :=
  match r with
  | SSNoSteady => Some ENoSteadyState
  | SSIntegFail => Some EIntegrationFailure
  | _ => None
  end.

Definition is_clear (op : op2) : bool := match op with O2Clear => true | _ => false end.
