(** The general lemmas instantiated at the facts of the tree the theorems were proved for.
    Every lemma takes the pinning equation as an argument, so PropsC15.v depends on
    [C15_facts_pinned] (which breaks when the anchored code is edited). *)
From Coq Require Import Reals QArith Qreals Qabs ZArith NArith List Bool Lia Lra.
Import ListNotations.
From Steady Require Import SteadyLoop SteadyNan GenSteadyFacts ExpectedFacts SteadyLoopProofs SteadyHistProofs SteadyNanProofs Relax.

Definition expected_ss_facts : ss_facts :=
  mkSSFacts 100%Z 1000%N CmpLt NormL2 PrevCopy RelDivPrev ExhaustFail C15_expected_succ true.
(** the loop with / without the test of integ.successful() (fixes/C15-integrator-failure.diff) *)
Definition repaired_ss_facts : ss_facts := C15_ss_facts SuccChecked.
Definition snapshot_ss_facts : ss_facts := C15_ss_facts SuccUnchecked.
Definition expected_plumb_facts : plumb_facts := mkPlumb true true (4722366482869645 # 4722366482869645213696)%Q.
(** the same loop as it was before commit 0b233ce (y2 = integ.integrate(t), no copy) *)
Definition alias_ss_facts : ss_facts :=
  mkSSFacts 100%Z 1000%N CmpLt NormL2 PrevAlias RelDivPrev ExhaustFail SuccUnchecked true.

Definition Pinned : Prop :=
  gen_ss_facts = expected_ss_facts /\ gen_plumb_facts = expected_plumb_facts.

Lemma expected_copy : CopyFacts expected_ss_facts.
Proof. repeat split. Qed.
Lemma expected_l2lt : L2Lt expected_ss_facts.
Proof. split; reflexivity. Qed.
Lemma alias_facts : AliasFacts alias_ss_facts.
Proof. repeat split. Qed.

Section AtPinned.
  Hypothesis Hpin : Pinned.

  Lemma gen_copy : CopyFacts gen_ss_facts.
  Proof. destruct Hpin as [-> _]. exact expected_copy. Qed.
  Lemma gen_l2lt : L2Lt gen_ss_facts.
  Proof. destruct Hpin as [-> _]. exact expected_l2lt. Qed.
  Lemma gen_max : N.to_nat (sf_max_steps gen_ss_facts) = 1000%nat.
  Proof. destruct Hpin as [-> _]. reflexivity. Qed.
  Lemma gen_time n : time_of gen_ss_facts n = inject_Z (100 * Z.of_nat (S n)).
  Proof. destruct Hpin as [-> _]. reflexivity. Qed.

  Lemma p_loop_spec : forall tol rel (y : nat -> vec),
    (forall n, length (y n) = length (y 0%nat)) ->
    let c n := conv gen_ss_facts tol rel (y n) (y (S n)) in
    (forall t v, ss_run gen_ss_facts tol rel (y 0%nat) y = SSSteady t v ->
       exists n, (n < 1000)%nat /\ c n = true /\ (forall m, (m < n)%nat -> c m = false)
                 /\ (t == inject_Z (100 * Z.of_nat (S n)))%Q /\ v = y (S n))
    /\ (forall n, (n < 1000)%nat -> c n = true -> (forall m, (m < n)%nat -> c m = false) ->
          exists t, ss_run gen_ss_facts tol rel (y 0%nat) y = SSSteady t (y (S n))
                    /\ (t == inject_Z (100 * Z.of_nat (S n)))%Q)
    /\ (ss_run gen_ss_facts tol rel (y 0%nat) y = SSNoSteady <-> forall m, (m < 1000)%nat -> c m = false)
    /\ ss_run gen_ss_facts tol rel (y 0%nat) y <> SSShape
    /\ ss_run gen_ss_facts tol rel (y 0%nat) y <> SSUnknownFacts.
  Proof.
    intros tol rel y Hs. pose proof (loop_spec gen_ss_facts gen_copy tol rel y Hs) as H.
    cbv zeta in H. rewrite gen_max in H.
    destruct H as [H1 [H2 [H3 [H4 H5]]]]. cbv zeta. split; [|split; [|split; [|split]]]; assumption.
  Qed.

  Lemma p_criterion : forall tol a b, length a = length b ->
    (conv gen_ss_facts tol false a b = true <-> (norm2 (vsubR (map Q2R b) (map Q2R a)) < Q2R tol)%R)
    /\ (conv gen_ss_facts tol true a b = true <->
        nonzero a /\ (norm2 (vrelR (map Q2R b) (map Q2R a)) < Q2R tol)%R).
  Proof.
    intros tol a b Hl. split; [apply conv_abs_norm | apply conv_rel_norm]; auto using gen_l2lt.
  Qed.

  Lemma p_distance_bound : forall tol (y : nat -> vec) ms lams L,
    FastModes ms -> (0 <= L)%R -> Forall (fun l => (Rabs l <= L)%R) lams ->
    (forall n, map Q2R (y n) = relax ms n) ->
    forall t v, ss_run gen_ss_facts tol false (y 0%nat) y = SSSteady t v ->
      (norm2 (vsubR (map Q2R v) (stars ms)) < Q2R tol)%R
      /\ (norm2 (scaleR lams (vsubR (map Q2R v) (stars ms))) <= L * Q2R tol)%R.
  Proof.
    intros tol y ms lams L. apply (steady_flux_bound gen_ss_facts gen_copy gen_l2lt).
  Qed.

  Lemma p_accumulation_fails : forall tol (y : nat -> vec),
    (forall n, length (y n) = length (y 0%nat)) ->
    (forall n, (n < 1000)%nat -> exists k, (tol <= Qabs (nth k (y (S n)) 0 - nth k (y n) 0))%Q) ->
    ss_run gen_ss_facts tol false (y 0%nat) y = SSNoSteady.
  Proof.
    intros tol y Hs H. apply (accumulation_fails gen_ss_facts gen_copy gen_l2lt tol y Hs).
    rewrite gen_max. exact H.
  Qed.

  Lemma p_linear_accumulation_fails : forall tol y0 c k,
    length c = length y0 -> (tol <= Qabs (nth k c 0))%Q ->
    ss_run gen_ss_facts tol false (traj_fun (TrajLin y0 c) 0%nat) (traj_fun (TrajLin y0 c)) = SSNoSteady.
  Proof.
    intros tol y0 c k. apply (linear_accumulation_fails gen_ss_facts gen_copy gen_l2lt).
  Qed.

  Lemma p_rel_accumulation_exact : forall tol y0 c, (0 < y0)%Q -> (0 < c)%Q ->
    (ss_run gen_ss_facts tol true (traj_fun (TrajLin [y0] [c]) 0%nat) (traj_fun (TrajLin [y0] [c])) = SSNoSteady
     <-> (tol * (y0 + inject_Z 999 * c) <= c)%Q).
  Proof.
    intros tol y0 c Hy Hc.
    pose proof (rel_accumulation_exact gen_ss_facts gen_copy gen_l2lt tol y0 c Hy Hc) as H.
    rewrite gen_max in H. apply H. lia.
  Qed.
  Lemma p_plumbing : forall (tol : Q) (rel : bool) (y0 : vec) (y : nat -> vec),
    (ss_run gen_ss_facts tol rel y0 y = SSNoSteady ->
       exists s, sim_to_steady sim_fresh (ss_run gen_ss_facts tol rel y0 y) = Some s
                 /\ get_result s = RError ENoSteadyState)
    /\ (ss_run gen_ss_facts (pf_default_tol gen_plumb_facts) rel y0 y = SSNoSteady ->
         steady_state_row gen_plumb_facts gen_ss_facts rel y0 y = Some RowNaN)
    /\ (forall t v, ss_run gen_ss_facts tol rel y0 y = SSSteady t v ->
         exists s, sim_to_steady sim_fresh (ss_run gen_ss_facts tol rel y0 y) = Some s
                   /\ get_result s = RSimulation [(t, v)])
    /\ (forall t v, ss_run gen_ss_facts (pf_default_tol gen_plumb_facts) rel y0 y = SSSteady t v ->
         steady_state_row gen_plumb_facts gen_ss_facts rel y0 y = Some (RowValues v)).
  Proof.
    intros tol rel y0 y.
    assert (H1 : pf_sim_ok gen_plumb_facts = true) by (destruct Hpin as [_ ->]; reflexivity).
    assert (H2 : pf_worker_ok gen_plumb_facts = true) by (destruct Hpin as [_ ->]; reflexivity).
    destruct (failure_propagates gen_plumb_facts gen_ss_facts tol rel y0 y H1 H2) as [A B].
    destruct (success_propagates gen_plumb_facts gen_ss_facts tol rel y0 y H1 H2) as [C D].
    split; [exact A | split; [exact B | split; [exact C | exact D]]].
  Qed.

  (** the model of the code ([ss_run_s]) on runs whose integration steps all succeed *)
  Lemma p_all_ok_run : forall tol rel (y0 : vec) (y : nat -> vec) (ok : nat -> bool),
    (forall n, ok n = true) -> ss_run_s gen_ss_facts tol rel y0 y ok = ss_run gen_ss_facts tol rel y0 y.
  Proof. intros. apply all_ok_run. assumption. Qed.

  Lemma gen_sim_ok : pf_sim_ok gen_plumb_facts = true.
  Proof. destruct Hpin as [_ ->]. reflexivity. Qed.

  Lemma p_history_result : forall ops, Forall op_modelled ops ->
    hist_result gen_plumb_facts ops
    = Some match first_failure ops with
           | Some e => RError e
           | None => match hist_rows None ops with
                     | Some l => RSimulation l
                     | None => RError EIntegrationFailure
                     end
           end.
  Proof.
    intros ops Hm. unfold hist_result. rewrite gen_sim_ok.
    destruct (hist_result_spec ops Hm) as [s [E R]]. rewrite E, R. reflexivity.
  Qed.

  Lemma p_history_any_failure : forall ops op e, Forall op_modelled ops -> In op ops -> op_failure op = Some e ->
    exists e', hist_result gen_plumb_facts ops = Some (RError e') /\ worker_row (RError e') = RowNaN.
  Proof.
    intros ops op e Hm Hin Hf. rewrite (p_history_result ops Hm).
    destruct (first_failure_in ops op e Hin Hf) as [e' ->]. exists e'. split; reflexivity.
  Qed.

  Lemma p_history_failed_search : forall pre post r e, Forall op_modelled (pre ++ OpSteady r :: post) ->
    first_failure pre = None -> op_failure (OpSteady r) = Some e ->
    hist_result gen_plumb_facts (pre ++ OpSteady r :: post) = Some (RError e).
  Proof.
    intros pre post r e Hm Hpre Hf. rewrite (p_history_result _ Hm).
    rewrite (first_failure_app_none pre _ Hpre). cbn [first_failure]. rewrite Hf. reflexivity.
  Qed.

  Lemma p_history_success_last : forall pre r l, Forall op_modelled (pre ++ [OpSteady r]) ->
    hist_result gen_plumb_facts (pre ++ [OpSteady r]) = Some (RSimulation l) ->
    exists t v l', r = SSSteady t v /\ l = l' ++ [(t, v)] /\ first_failure pre = None
                   /\ worker_row (RSimulation l) = RowValues v.
  Proof.
    intros pre r l Hm H. unfold hist_result in H. rewrite gen_sim_ok in H.
    destruct (sim_hist sim_fresh (pre ++ [OpSteady r])) as [s|] eqn:E; [|discriminate].
    injection H as H.
    destruct (hist_success_last pre r l Hm (ex_intro _ s (conj E H))) as [t [v [l' [Hr [Hl Hp]]]]].
    exists t, v, l'. split; [exact Hr|]. split; [exact Hl|]. split; [exact Hp|].
    rewrite Hl. unfold worker_row. rewrite rev_app_distr. reflexivity.
  Qed.

  Lemma p_accumulation_after_simulation : forall pre tol y0 c k,
    Forall op_modelled pre -> first_failure pre = None ->
    length c = length y0 -> (tol <= Qabs (nth k c 0))%Q ->
    hist_result gen_plumb_facts
      (pre ++ [OpSteady (ss_run gen_ss_facts tol false (traj_fun (TrajLin y0 c) 0%nat) (traj_fun (TrajLin y0 c)))])
    = Some (RError ENoSteadyState).
  Proof.
    intros pre tol y0 c k Hm Hpre Hl Hk.
    rewrite (p_linear_accumulation_fails tol y0 c k Hl Hk).
    apply (p_history_failed_search pre [] SSNoSteady ENoSteadyState); [|exact Hpre|reflexivity].
    apply Forall_app. split; [exact Hm|]. constructor; [exact I | constructor].
  Qed.
  (** *** the loop over IEEE values (buffers with inf / NaN) *)
  Lemma gen_checked : CheckedFacts gen_ss_facts.
  Proof. destruct Hpin as [-> _]. repeat split. Qed.
  Lemma gen_lt_or_le : LtOrLe gen_ss_facts.
  Proof. left. exact (proj2 gen_l2lt). Qed.

  Lemma p_finite_run : forall tol rel (y0 : vec) (y : nat -> vec) (ok : nat -> bool),
    xs_run gen_ss_facts tol rel (fin y0) (fun n => fin (y n)) ok = xs_of (ss_run_s gen_ss_facts tol rel y0 y ok).
  Proof. intros. apply xs_run_finite. exact gen_lt_or_le. Qed.

  Lemma p_nan_loop_spec : forall tol rel (y : nat -> xvec) (ok : nat -> bool),
    (forall n, length (y n) = length (y 0%nat)) ->
    let c n := xstep_cmp tol rel (y n) (y (S n)) in
    (forall t v, xs_run gen_ss_facts tol rel (y 0%nat) y ok = XSteady t v ->
       exists n, (n < 1000)%nat /\ c n = Some NLt /\ (forall m, (m <= n)%nat -> ok (S m) = true)
                 /\ (forall m, (m < n)%nat -> c m <> Some NLt)
                 /\ (t == inject_Z (100 * Z.of_nat (S n)))%Q /\ v = y (S n))
    /\ (forall n, (n < 1000)%nat -> c n = Some NLt -> (forall m, (m <= n)%nat -> ok (S m) = true) ->
          (forall m, (m < n)%nat -> c m <> Some NLt) ->
          exists t, xs_run gen_ss_facts tol rel (y 0%nat) y ok = XSteady t (y (S n))
                    /\ (t == inject_Z (100 * Z.of_nat (S n)))%Q)
    /\ (xs_run gen_ss_facts tol rel (y 0%nat) y ok = XIntegFail
        <-> exists n, (n < 1000)%nat /\ ok (S n) = false
                      /\ (forall m, (m < n)%nat -> ok (S m) = true /\ c m <> Some NLt))
    /\ (xs_run gen_ss_facts tol rel (y 0%nat) y ok = XNoSteady
        <-> forall m, (m < 1000)%nat -> ok (S m) = true /\ c m <> Some NLt)
    /\ xs_run gen_ss_facts tol rel (y 0%nat) y ok <> XShape
    /\ xs_run gen_ss_facts tol rel (y 0%nat) y ok <> XUnknownFacts.
  Proof.
    intros tol rel y ok Hs. pose proof (xlt_spec gen_ss_facts gen_checked gen_l2lt tol rel y ok Hs) as H.
    cbv zeta in H. rewrite gen_max in H.
    destruct H as [H1 [H2 [H3 [H4 [H5 H6]]]]]. cbv zeta.
    split; [|split; [|split; [|split; [|split]]]]; assumption.
  Qed.

  Lemma p_undefined_norm_fails : forall tol rel (y : nat -> xvec) (ok : nat -> bool),
    (forall n, length (y n) = length (y 0%nat)) ->
    (forall m, (m < 1000)%nat -> ok (S m) = true /\ xstep_cmp tol rel (y m) (y (S m)) = Some NUndef) ->
    xs_run gen_ss_facts tol rel (y 0%nat) y ok = XNoSteady.
  Proof.
    intros tol rel y ok Hs H. apply (undefined_norm_fails gen_ss_facts gen_checked gen_l2lt tol rel y ok Hs).
    rewrite gen_max. exact H.
  Qed.

  Lemma p_empty_pool_rel_fails : forall tol (y : nat -> xvec) (ok : nat -> bool) (k : nat),
    (forall n, length (y n) = length (y 0%nat)) -> (forall n, ok n = true) ->
    (k < length (y 0%nat))%nat -> (forall n, nth k (y n) (XFin 1) = XFin 0) ->
    xs_run gen_ss_facts tol true (y 0%nat) y ok = XNoSteady.
  Proof.
    intros tol y ok k Hs Hok. apply (empty_pool_rel_fails gen_ss_facts gen_checked gen_l2lt tol y ok Hs Hok).
  Qed.

  Lemma p_nan_state_fails : forall tol rel (y : nat -> xvec) (ok : nat -> bool),
    (forall n, length (y n) = length (y 0%nat)) -> (forall n, ok n = true) ->
    (forall n, (n < 1000)%nat -> exists k, (k < length (y 0%nat))%nat /\ nth k (y (S n)) (XFin 1) = XNaN) ->
    xs_run gen_ss_facts tol rel (y 0%nat) y ok = XNoSteady.
  Proof.
    intros tol rel y ok Hs Hok H. apply (nan_state_fails gen_ss_facts gen_checked gen_l2lt tol y ok Hs Hok rel).
    rewrite gen_max. exact H.
  Qed.
End AtPinned.

(** the repaired loop: specification with failing integration steps *)
Lemma repaired_checked : CheckedFacts repaired_ss_facts.
Proof. repeat split. Qed.
Lemma snapshot_unchecked : UncheckedFacts snapshot_ss_facts.
Proof. repeat split. Qed.
Lemma snapshot_l2lt : L2Lt snapshot_ss_facts.
Proof. split; reflexivity. Qed.

Lemma p_integrator_failure_reported : forall tol rel (y : nat -> vec) (ok : nat -> bool),
  (forall n, length (y n) = length (y 0%nat)) ->
  let F := repaired_ss_facts in
  let c n := conv F tol rel (y n) (y (S n)) in
  (forall t v, ss_run_s F tol rel (y 0%nat) y ok = SSSteady t v ->
     exists n, (n < 1000)%nat /\ c n = true /\ (forall m, (m <= n)%nat -> ok (S m) = true)
               /\ (forall m, (m < n)%nat -> c m = false)
               /\ (t == inject_Z (100 * Z.of_nat (S n)))%Q /\ v = y (S n))
  /\ (ss_run_s F tol rel (y 0%nat) y ok = SSIntegFail
      <-> exists n, (n < 1000)%nat /\ ok (S n) = false /\ (forall m, (m < n)%nat -> ok (S m) = true /\ c m = false))
  /\ (ss_run_s F tol rel (y 0%nat) y ok = SSNoSteady
      <-> forall m, (m < 1000)%nat -> ok (S m) = true /\ c m = false)
  /\ ss_run_s F tol rel (y 0%nat) y ok <> SSShape
  /\ ss_run_s F tol rel (y 0%nat) y ok <> SSUnknownFacts.
Proof.
  intros tol rel y ok Hs. exact (checked_spec repaired_ss_facts repaired_checked tol rel y ok Hs).
Qed.

Lemma p_unchecked_stuck : forall tol (y : nat -> vec) (ok : nat -> bool) (f : nat),
  (0 < tol)%Q -> (forall n, length (y n) = length (y 0%nat)) -> (f < 999)%nat ->
  (forall m, (m <= f)%nat -> conv snapshot_ss_facts tol false (y m) (y (S m)) = false) ->
  ok (S f) = false -> y (S (S f)) = y (S f) ->
  exists t, ss_run_s snapshot_ss_facts tol false (y 0%nat) y ok = SSSteady t (y (S f))
            /\ (t == inject_Z (100 * Z.of_nat (S (S f))))%Q.
Proof.
  intros tol y ok f Ht Hs Hf Hnc _ Hstuck.
  apply (unchecked_stuck_is_steady snapshot_ss_facts snapshot_unchecked snapshot_l2lt tol y ok f Ht Hs); [|exact Hnc|exact Hstuck].
  change (N.to_nat (sf_max_steps snapshot_ss_facts)) with 1000%nat. lia.
Qed.

(** a solver that fails in the first step at x = 5 (from x = 1) and stays there: the snapshot loop
    reports x = 5 steady at t = 200, the repaired loop reports the failure *)
Definition stuck_traj : nat -> vec := fun n => match n with O => [1%Q] | _ => [5%Q] end.
Definition stuck_ok : nat -> bool := fun n => match n with O => true | _ => false end.

Lemma unchecked_witness :
  stuck_ok 1%nat = false
  /\ ss_run_s snapshot_ss_facts (1 # 1000000) false (stuck_traj 0%nat) stuck_traj stuck_ok = SSSteady 200 [5%Q]
  /\ ss_run_s repaired_ss_facts (1 # 1000000) false (stuck_traj 0%nat) stuck_traj stuck_ok = SSIntegFail.
Proof. split; [reflexivity|]. split; vm_compute; reflexivity. Qed.

(** non-vacuity of the history theorems: simulate two rows, then a failing search *)
Definition demo_hist : list sim_op :=
  [OpSimulate (TCRows [(0, [1%Q]); (10, [11%Q])]); OpSteady SSNoSteady; OpSimulate (TCRows [(10, [11%Q]); (20, [21%Q])])].
Lemma demo_hist_modelled : Forall op_modelled demo_hist.
Proof. repeat constructor. Qed.
Lemma demo_hist_result : hist_result expected_plumb_facts demo_hist = Some (RError ENoSteadyState).
Proof. vm_compute. reflexivity. Qed.
Definition demo_hist_ok : list sim_op :=
  [OpSimulate (TCRows [(0, [1%Q]); (10, [2%Q])]); OpSteady (SSSteady 300 [3%Q])].
Lemma demo_hist_ok_result :
  hist_result expected_plumb_facts demo_hist_ok = Some (RSimulation [(0, [1%Q]); (10, [2%Q]); (300, [3%Q])]).
Proof. vm_compute. reflexivity. Qed.

(** machine-checked counterexamples *)

Lemma rel_accumulation_witness :
  ss_run expected_ss_facts (1 # 100) true [1%Q] (traj_fun (TrajLin [1%Q] [100%Q])) = SSSteady 10100 [1 + 101 * 100]%Q
  /\ ~ (ss_run expected_ss_facts (1 # 100) true [1%Q] (traj_fun (TrajLin [1%Q] [100%Q])) = SSNoSteady).
Proof.
  assert (E : obs_of (ss_run expected_ss_facts (1 # 100) true [1%Q] (traj_fun (TrajLin [1%Q] [100%Q])))
              = ObsSteady (10100 # 1)) by (vm_compute; reflexivity).
  split; [vm_compute; reflexivity|]. intro H. rewrite H in E. discriminate.
Qed.

Lemma alias_witness :
  obs_of (ss_run alias_ss_facts (1 # 1000000) false [1%Q] (traj_fun (TrajLin [1%Q] [100%Q]))) = ObsSteady (200 # 1).
Proof. vm_compute. reflexivity. Qed.

(** non-vacuity: y n = 3 - 2 (1/2)^n, tolerance 1/100 *)
Fixpoint geo (a r : Q) (n : nat) : Q := match n with O => a | S k => (geo a r k * r)%Q end.
Definition demo_traj (n : nat) : vec := [(3 + geo (-2) (1 # 2) n)%Q].
Definition demo_modes : list mode := [mkMode 3 (-2) (1 / 2)].

Lemma Q2R_geo a r n : Q2R (geo a r n) = (Q2R a * Q2R r ^ n)%R.
Proof.
  induction n as [|n IH]; cbn [geo pow]; [lra|]. rewrite Q2R_mult, IH. ring.
Qed.

Lemma demo_is_relaxation : forall n, map Q2R (demo_traj n) = relax demo_modes n.
Proof.
  intro n. unfold demo_traj, demo_modes, relax. cbn [map m_star m_amp m_r].
  rewrite Q2R_plus, Q2R_geo. f_equal.
  replace (Q2R 3) with 3%R by (unfold Q2R; simpl; lra).
  replace (Q2R (-2)) with (-2)%R by (unfold Q2R; simpl; lra).
  replace (Q2R (1 # 2)) with (1 / 2)%R by (unfold Q2R; simpl; lra).
  reflexivity.
Qed.

Lemma demo_fast : FastModes demo_modes.
Proof. constructor; [|constructor]. cbn. lra. Qed.

Lemma demo_steady : obs_of (ss_run expected_ss_facts (1 # 100) false (demo_traj 0) demo_traj) = ObsSteady (800 # 1).
Proof. vm_compute. reflexivity. Qed.

Lemma p_alias_refuted : forall (tol : Q) (y : nat -> vec),
    (0 < tol)%Q -> (forall n, length (y n) = length (y 0%nat)) ->
    (exists t, ss_run alias_ss_facts tol false (y 0%nat) y = SSSteady t (y 1%nat) /\ (t == inject_Z 100)%Q)
    \/ (exists t, ss_run alias_ss_facts tol false (y 0%nat) y = SSSteady t (y 2%nat) /\ (t == inject_Z 200)%Q).
Proof.
  intros tol y Ht Hs.
  apply (alias_always_steady alias_ss_facts alias_facts tol y Ht Hs).
  apply Nat.leb_le. reflexivity.
Qed.

(** *** the early-continue form of the test (seeded change C15-4):
        [if norm >= tolerance: y1 = y2; t += step_size; continue] + unconditional success return *)
Definition fallthrough_ss_facts : ss_facts :=
  mkSSFacts 100%Z 1000%N CmpNotGe NormL2 PrevCopy RelDivPrev ExhaustFail SuccChecked true.

Lemma fallthrough_checked : CheckedFacts fallthrough_ss_facts.
Proof. repeat split. Qed.
Lemma fallthrough_notge : L2NotGe fallthrough_ss_facts.
Proof. split; reflexivity. Qed.

Lemma p_fallthrough_first_step : forall tol rel (y : nat -> xvec) (ok : nat -> bool),
  (forall n, length (y n) = length (y 0%nat)) -> ok 1%nat = true ->
  xstep_cmp tol rel (y 0%nat) (y 1%nat) = Some NUndef ->
  exists t, xs_run fallthrough_ss_facts tol rel (y 0%nat) y ok = XSteady t (y 1%nat) /\ (t == inject_Z 100)%Q.
Proof.
  intros tol rel y ok Hs Hok Hc.
  apply (fallthrough_first_step fallthrough_ss_facts fallthrough_checked fallthrough_notge tol rel y ok Hs); [|exact Hok|exact Hc].
  change (N.to_nat (sf_max_steps fallthrough_ss_facts)) with 1000%nat. lia.
Qed.

Lemma p_fallthrough_agrees : forall tol rel (y : nat -> xvec) (ok : nat -> bool),
  (forall m, (m < 1000)%nat -> xstep_cmp tol rel (y m) (y (S m)) <> Some NUndef) ->
  xs_run fallthrough_ss_facts tol rel (y 0%nat) y ok = xs_run repaired_ss_facts tol rel (y 0%nat) y ok.
Proof.
  intros tol rel y ok H. unfold xs_run.
  change (facts_known fallthrough_ss_facts) with true. change (facts_known repaired_ss_facts) with true.
  change (N.to_nat (sf_max_steps fallthrough_ss_facts)) with 1000%nat.
  change (N.to_nat (sf_max_steps repaired_ss_facts)) with 1000%nat.
  change (sf_step repaired_ss_facts) with (sf_step fallthrough_ss_facts).
  apply xs_loop_same_tests; try reflexivity.
  intros m Hm. specialize (H m ltac:(lia)). unfold xconv_test.
  destruct (xstep_cmp tol rel (y m) (y (S m))) as [k|]; [|reflexivity].
  destruct k; try reflexivity. exfalso. apply H. reflexivity.
Qed.

(** witnesses: (a) relative norm, a pool that relaxes slowly towards 50 next to a pool that stays
    exactly 0; (b) absolute norm, a rate law that leaves its domain after the first step (NaN state,
    the solver still reports success) *)
Definition empty_pool_traj : nat -> xvec := fun n =>
  match n with O => [XFin 0; XFin 0] | S O => [XFin 43; XFin 0] | _ => [XFin 50; XFin 0] end.
Definition nan_state_traj : nat -> xvec := fun n =>
  match n with O => [XFin 0; XFin 0] | S O => [XFin 5; XNaN] | _ => [XNaN; XNaN] end.

Lemma fallthrough_witness :
  xstep_cmp (1 # 1000000) true (empty_pool_traj 0) (empty_pool_traj 1) = Some NUndef
  /\ xs_run fallthrough_ss_facts (1 # 1000000) true (empty_pool_traj 0) empty_pool_traj all_ok = XSteady 100 [XFin 43; XFin 0]
  /\ xs_run repaired_ss_facts (1 # 1000000) true (empty_pool_traj 0) empty_pool_traj all_ok = XNoSteady
  /\ xs_run fallthrough_ss_facts (1 # 1000000) false (nan_state_traj 0) nan_state_traj all_ok = XSteady 100 [XFin 5; XNaN]
  /\ xs_run repaired_ss_facts (1 # 1000000) false (nan_state_traj 0) nan_state_traj all_ok = XNoSteady.
Proof. repeat split; vm_compute; reflexivity. Qed.

Lemma nan_traj_shapes :
  (forall n, length (empty_pool_traj n) = length (empty_pool_traj 0))
  /\ (forall n, nth 1 (empty_pool_traj n) (XFin 1) = XFin 0)
  /\ (forall n, length (nan_state_traj n) = length (nan_state_traj 0))
  /\ (forall n, exists k, (k < length (nan_state_traj 0))%nat /\ nth k (nan_state_traj (S n)) (XFin 1) = XNaN).
Proof.
  split; [|split; [|split]].
  - intros [|[|n]]; reflexivity.
  - intros [|[|n]]; reflexivity.
  - intros [|[|n]]; reflexivity.
  - intros [|n]; exists 1%nat; split; cbn; try lia; reflexivity.
Qed.

Lemma demo_steady_x :
  xobs_of (xs_run expected_ss_facts (1 # 100) false (fin (demo_traj 0)) (fun n => fin (demo_traj n)) all_ok) = ObsSteady (800 # 1).
Proof. vm_compute. reflexivity. Qed.
