(** The general lemmas instantiated at the facts of the tree the theorems were proved for.
    Every lemma takes the pinning equation as an argument, so PropsC15.v depends on
    [C15_facts_pinned] (which breaks when the anchored code is edited). *)
From Coq Require Import Reals QArith Qreals Qabs ZArith NArith List Bool Lia Lra.
Import ListNotations.
From Steady Require Import SteadyLoop GenSteadyFacts SteadyLoopProofs Relax.

Definition expected_ss_facts : ss_facts :=
  mkSSFacts 100%Z 1000%N CmpLt NormL2 PrevCopy RelDivPrev ExhaustFail true.
Definition expected_plumb_facts : plumb_facts := mkPlumb true true (4722366482869645 # 4722366482869645213696)%Q.
(** the same loop as it was before commit 0b233ce (y2 = integ.integrate(t), no copy) *)
Definition alias_ss_facts : ss_facts :=
  mkSSFacts 100%Z 1000%N CmpLt NormL2 PrevAlias RelDivPrev ExhaustFail true.

Definition Pinned : Prop :=
  gen_ss_facts = expected_ss_facts /\ gen_plumb_facts = expected_plumb_facts.

Lemma expected_copy : CopyFacts expected_ss_facts.
Proof. repeat split. Qed.
Lemma expected_l2lt : L2Lt expected_ss_facts.
Proof. split; reflexivity. Qed.
Lemma alias_facts : AliasFacts alias_ss_facts.
Proof. repeat split. Qed.

Section AtPinned.
  Hypothesis Hpin : Pinned.

  Lemma gen_copy : CopyFacts gen_ss_facts.
  Proof. destruct Hpin as [-> _]. exact expected_copy. Qed.
  Lemma gen_l2lt : L2Lt gen_ss_facts.
  Proof. destruct Hpin as [-> _]. exact expected_l2lt. Qed.
  Lemma gen_max : N.to_nat (sf_max_steps gen_ss_facts) = 1000%nat.
  Proof. destruct Hpin as [-> _]. reflexivity. Qed.
  Lemma gen_time n : time_of gen_ss_facts n = inject_Z (100 * Z.of_nat (S n)).
  Proof. destruct Hpin as [-> _]. reflexivity. Qed.

  Lemma p_loop_spec : forall tol rel (y : nat -> vec),
    (forall n, length (y n) = length (y 0%nat)) ->
    let c n := conv gen_ss_facts tol rel (y n) (y (S n)) in
    (forall t v, ss_run gen_ss_facts tol rel (y 0%nat) y = SSSteady t v ->
       exists n, (n < 1000)%nat /\ c n = true /\ (forall m, (m < n)%nat -> c m = false)
                 /\ (t == inject_Z (100 * Z.of_nat (S n)))%Q /\ v = y (S n))
    /\ (forall n, (n < 1000)%nat -> c n = true -> (forall m, (m < n)%nat -> c m = false) ->
          exists t, ss_run gen_ss_facts tol rel (y 0%nat) y = SSSteady t (y (S n))
                    /\ (t == inject_Z (100 * Z.of_nat (S n)))%Q)
    /\ (ss_run gen_ss_facts tol rel (y 0%nat) y = SSNoSteady <-> forall m, (m < 1000)%nat -> c m = false)
    /\ ss_run gen_ss_facts tol rel (y 0%nat) y <> SSShape
    /\ ss_run gen_ss_facts tol rel (y 0%nat) y <> SSUnknownFacts.
  Proof.
    intros tol rel y Hs. pose proof (loop_spec gen_ss_facts gen_copy tol rel y Hs) as H.
    cbv zeta in H. rewrite gen_max in H.
    destruct H as [H1 [H2 [H3 [H4 H5]]]]. cbv zeta. split; [|split; [|split; [|split]]]; assumption.
  Qed.

  Lemma p_criterion : forall tol a b, length a = length b ->
    (conv gen_ss_facts tol false a b = true <-> (norm2 (vsubR (map Q2R b) (map Q2R a)) < Q2R tol)%R)
    /\ (conv gen_ss_facts tol true a b = true <->
        nonzero a /\ (norm2 (vrelR (map Q2R b) (map Q2R a)) < Q2R tol)%R).
  Proof.
    intros tol a b Hl. split; [apply conv_abs_norm | apply conv_rel_norm]; auto using gen_l2lt.
  Qed.

  Lemma p_distance_bound : forall tol (y : nat -> vec) ms lams L,
    FastModes ms -> (0 <= L)%R -> Forall (fun l => (Rabs l <= L)%R) lams ->
    (forall n, map Q2R (y n) = relax ms n) ->
    forall t v, ss_run gen_ss_facts tol false (y 0%nat) y = SSSteady t v ->
      (norm2 (vsubR (map Q2R v) (stars ms)) < Q2R tol)%R
      /\ (norm2 (scaleR lams (vsubR (map Q2R v) (stars ms))) <= L * Q2R tol)%R.
  Proof.
    intros tol y ms lams L. apply (steady_flux_bound gen_ss_facts gen_copy gen_l2lt).
  Qed.

  Lemma p_accumulation_fails : forall tol (y : nat -> vec),
    (forall n, length (y n) = length (y 0%nat)) ->
    (forall n, (n < 1000)%nat -> exists k, (tol <= Qabs (nth k (y (S n)) 0 - nth k (y n) 0))%Q) ->
    ss_run gen_ss_facts tol false (y 0%nat) y = SSNoSteady.
  Proof.
    intros tol y Hs H. apply (accumulation_fails gen_ss_facts gen_copy gen_l2lt tol y Hs).
    rewrite gen_max. exact H.
  Qed.

  Lemma p_linear_accumulation_fails : forall tol y0 c k,
    length c = length y0 -> (tol <= Qabs (nth k c 0))%Q ->
    ss_run gen_ss_facts tol false (traj_fun (TrajLin y0 c) 0%nat) (traj_fun (TrajLin y0 c)) = SSNoSteady.
  Proof.
    intros tol y0 c k. apply (linear_accumulation_fails gen_ss_facts gen_copy gen_l2lt).
  Qed.

  Lemma p_rel_accumulation_exact : forall tol y0 c, (0 < y0)%Q -> (0 < c)%Q ->
    (ss_run gen_ss_facts tol true (traj_fun (TrajLin [y0] [c]) 0%nat) (traj_fun (TrajLin [y0] [c])) = SSNoSteady
     <-> (tol * (y0 + inject_Z 999 * c) <= c)%Q).
  Proof.
    intros tol y0 c Hy Hc.
    pose proof (rel_accumulation_exact gen_ss_facts gen_copy gen_l2lt tol y0 c Hy Hc) as H.
    rewrite gen_max in H. apply H. lia.
  Qed.
  Lemma p_plumbing : forall (tol : Q) (rel : bool) (y0 : vec) (y : nat -> vec),
    (ss_run gen_ss_facts tol rel y0 y = SSNoSteady ->
       exists s, sim_to_steady sim_fresh (ss_run gen_ss_facts tol rel y0 y) = Some s
                 /\ get_result s = RError ENoSteadyState)
    /\ (ss_run gen_ss_facts (pf_default_tol gen_plumb_facts) rel y0 y = SSNoSteady ->
         steady_state_row gen_plumb_facts gen_ss_facts rel y0 y = Some RowNaN)
    /\ (forall t v, ss_run gen_ss_facts tol rel y0 y = SSSteady t v ->
         exists s, sim_to_steady sim_fresh (ss_run gen_ss_facts tol rel y0 y) = Some s
                   /\ get_result s = RSimulation [(t, v)])
    /\ (forall t v, ss_run gen_ss_facts (pf_default_tol gen_plumb_facts) rel y0 y = SSSteady t v ->
         steady_state_row gen_plumb_facts gen_ss_facts rel y0 y = Some (RowValues v)).
  Proof.
    intros tol rel y0 y.
    assert (H1 : pf_sim_ok gen_plumb_facts = true) by (destruct Hpin as [_ ->]; reflexivity).
    assert (H2 : pf_worker_ok gen_plumb_facts = true) by (destruct Hpin as [_ ->]; reflexivity).
    destruct (failure_propagates gen_plumb_facts gen_ss_facts tol rel y0 y H1 H2) as [A B].
    destruct (success_propagates gen_plumb_facts gen_ss_facts tol rel y0 y H1 H2) as [C D].
    split; [exact A | split; [exact B | split; [exact C | exact D]]].
  Qed.
End AtPinned.

(** machine-checked counterexamples *)

Lemma rel_accumulation_witness :
  ss_run expected_ss_facts (1 # 100) true [1%Q] (traj_fun (TrajLin [1%Q] [100%Q])) = SSSteady 10100 [1 + 101 * 100]%Q
  /\ ~ (ss_run expected_ss_facts (1 # 100) true [1%Q] (traj_fun (TrajLin [1%Q] [100%Q])) = SSNoSteady).
Proof.
  assert (E : obs_of (ss_run expected_ss_facts (1 # 100) true [1%Q] (traj_fun (TrajLin [1%Q] [100%Q])))
              = ObsSteady (10100 # 1)) by (vm_compute; reflexivity).
  split; [vm_compute; reflexivity|]. intro H. rewrite H in E. discriminate.
Qed.

Lemma alias_witness :
  obs_of (ss_run alias_ss_facts (1 # 1000000) false [1%Q] (traj_fun (TrajLin [1%Q] [100%Q]))) = ObsSteady (200 # 1).
Proof. vm_compute. reflexivity. Qed.

(** non-vacuity: y n = 3 - 2 (1/2)^n, tolerance 1/100 *)
Fixpoint geo (a r : Q) (n : nat) : Q := match n with O => a | S k => (geo a r k * r)%Q end.
Definition demo_traj (n : nat) : vec := [(3 + geo (-2) (1 # 2) n)%Q].
Definition demo_modes : list mode := [mkMode 3 (-2) (1 / 2)].

Lemma Q2R_geo a r n : Q2R (geo a r n) = (Q2R a * Q2R r ^ n)%R.
Proof.
  induction n as [|n IH]; cbn [geo pow]; [lra|]. rewrite Q2R_mult, IH. ring.
Qed.

Lemma demo_is_relaxation : forall n, map Q2R (demo_traj n) = relax demo_modes n.
Proof.
  intro n. unfold demo_traj, demo_modes, relax. cbn [map m_star m_amp m_r].
  rewrite Q2R_plus, Q2R_geo. f_equal.
  replace (Q2R 3) with 3%R by (unfold Q2R; simpl; lra).
  replace (Q2R (-2)) with (-2)%R by (unfold Q2R; simpl; lra).
  replace (Q2R (1 # 2)) with (1 / 2)%R by (unfold Q2R; simpl; lra).
  reflexivity.
Qed.

Lemma demo_fast : FastModes demo_modes.
Proof. constructor; [|constructor]. cbn. lra. Qed.

Lemma demo_steady : obs_of (ss_run expected_ss_facts (1 # 100) false (demo_traj 0) demo_traj) = ObsSteady (800 # 1).
Proof. vm_compute. reflexivity. Qed.

Lemma p_alias_refuted : forall (tol : Q) (y : nat -> vec),
    (0 < tol)%Q -> (forall n, length (y n) = length (y 0%nat)) ->
    (exists t, ss_run alias_ss_facts tol false (y 0%nat) y = SSSteady t (y 1%nat) /\ (t == inject_Z 100)%Q)
    \/ (exists t, ss_run alias_ss_facts tol false (y 0%nat) y = SSSteady t (y 2%nat) /\ (t == inject_Z 200)%Q).
Proof.
  intros tol y Ht Hs.
  apply (alias_always_steady alias_ss_facts alias_facts tol y Ht Hs).
  apply Nat.leb_le. reflexivity.
Qed.
