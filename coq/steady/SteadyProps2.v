(** The lemmas of SteadyHist2Proofs.v instantiated at the regenerated facts [gen_hist_facts]
    (each takes the pinning equations as arguments, so PropsC15.v depends on them). *)
From Coq Require Import QArith ZArith NArith List Bool Lia Permutation.
Import ListNotations.
From Steady Require Import SteadyLoop SteadyHist2 GenSteadyFacts SteadyHistProofs SteadyHist2Proofs SteadyProps.

Definition expected_hist_facts : hist_facts := mkHistFacts HkSkipfirst LabModelNames true.
Definition later_only_facts : hist_facts := mkHistFacts HkLaterOnly LabModelNames true.
Definition y0_keys_facts : hist_facts := mkHistFacts HkSkipfirst LabY0Keys true.

Section AtPinned2.
  Variable G : hist_facts.   (* instantiated with [G]; abstract here so that no tactic can look into it *)
  Hypothesis Hpin : G = expected_hist_facts.

  Lemma p2_named names keys ops :
    hist2_named G names keys ops
    = match hist2_result HkSkipfirst ops with Some r => name_result LabModelNames names keys r | None => None end.
  Proof. rewrite Hpin. reflexivity. Qed.

  Lemma p2_handle : hf_handle G = HkSkipfirst.
  Proof. rewrite Hpin. reflexivity. Qed.

  Lemma p2_extends (Hp : Pinned) : forall names keys ops,
    hist2_named G names keys (map embed ops)
    = match hist_result gen_plumb_facts ops with
      | Some r => name_result LabModelNames names keys r
      | None => None
      end.
  Proof.
    intros names keys ops. rewrite p2_named, hist2_extends. unfold hist_result.
    destruct Hp as [_ ->]. cbn [pf_sim_ok expected_plumb_facts].
    destruct (sim_hist sim_fresh ops); reflexivity.
  Qed.

  Lemma p2_failed_search : forall names keys pre post r e s0 res,
    hist2 (hf_handle G) sim2_fresh pre = Some s0 -> s2_errors s0 = [] ->
    ss_failure r = Some e -> Forall (fun op => is_clear op = false) post ->
    hist2_named G names keys (pre ++ O2Steady r :: post) = Some res -> res = NError e.
  Proof.
    intros names keys pre post r e s0 res Epre He Hf Hpost. rewrite p2_handle in Epre. rewrite p2_named.
    destruct (hist2_result HkSkipfirst (pre ++ O2Steady r :: post)) as [r'|] eqn:E; [|discriminate].
    rewrite (failed_search2 HkSkipfirst pre post r e s0 r' Epre He Hf Hpost E).
    cbn [name_result]. intro H. injection H as <-. reflexivity.
  Qed.

  Lemma p2_rows_by_name : forall names keys ops nrows, NoDup names ->
    hist2_named G names keys ops = Some (NSimulation nrows) ->
    exists rows, hist2_result HkSkipfirst ops = Some (RSimulation rows) /\ Forall2 (row_by_name names) nrows rows.
  Proof.
    intros names keys ops nrows Hnd. rewrite p2_named.
    destruct (hist2_result HkSkipfirst ops) as [[rows|e]|]; cbn [name_result labels_of]; try discriminate.
    destruct (label_rows names rows) as [x|] eqn:E; [|discriminate]. intro H. injection H as <-.
    exists rows. split; [reflexivity|]. apply (label_rows_by_name names Hnd rows x E).
  Qed.

  Lemma p2_search_by_name : forall names keys pre r s0 nrows, NoDup names ->
    hist2 (hf_handle G) sim2_fresh pre = Some s0 ->
    hist2_named G names keys (pre ++ [O2Steady r]) = Some (NSimulation nrows) ->
    s2_errors s0 = []
    /\ exists t v nrows' lrow,
         r = SSSteady t v /\ nrows = nrows' ++ [(shift_time (s2_shift s0) t, lrow)]
         /\ length v = length names
         /\ forall i, (i < length names)%nat -> lookupN (nth i names 0%N) lrow = Some (nth i v 0%Q).
  Proof.
    intros names keys pre r s0 nrows Hnd Epre. rewrite p2_handle in Epre. rewrite p2_named.
    destruct (hist2_result HkSkipfirst (pre ++ [O2Steady r])) as [[rows|e]|] eqn:E; cbn [name_result labels_of]; try discriminate.
    destruct (label_rows names rows) as [x|] eqn:El; [|discriminate]. intro H. injection H as <-.
    destruct (success_is_search2 pre r s0 rows Epre E) as [He [t [v [rows' [Hr Hrows]]]]].
    split; [exact He|]. subst rows.
    destruct (label_rows_app names rows' _ x El) as [xa [xb [_ [Hb Hx]]]].
    cbn [label_rows] in Hb. destruct (label_row names (shift_time (s2_shift s0) t, v)) as [y|] eqn:Ey; [|discriminate].
    injection Hb as <-. destruct (label_row_by_name names _ y Hnd Ey) as [Ht [Hlen Hlook]].
    cbn [fst snd] in Ht, Hlen, Hlook. destruct y as [ty lrow]. cbn [fst snd] in Ht, Hlook. subst ty.
    exists t, v, xa, lrow. split; [exact Hr|]. split; [exact Hx|]. split; [exact Hlen | exact Hlook].
  Qed.

  Lemma p2_key_order : forall names (y0 y0' : list (N * Q)) ops,
    Permutation y0 y0' -> NoDup (map fst y0) ->
    init_state names y0 = init_state names y0'
    /\ hist2_named G names (map fst y0) ops = hist2_named G names (map fst y0') ops.
  Proof.
    intros names y0 y0' ops Hp Hnd. split; [apply init_state_perm; assumption|].
    rewrite !p2_named. destruct (hist2_result HkSkipfirst ops) as [[rows|e]|]; reflexivity.
  Qed.

  Lemma p2_nonvacuous :
    hist2_named G [0%N; 1%N] [1%N; 0%N] demo_hist2
    = Some (NSimulation [(200, [(0%N, 7); (1%N, 8)]); (16 + 200, [(0%N, 7); (1%N, 10)]); (100 + 200, [(0%N, 11); (1%N, 12)])])
    /\ hist2_named G [0%N; 1%N] [1%N; 0%N]
         [O2Steady (SSSteady 300 [3; 6]); O2UpdateParameters; O2Steady SSNoSteady; O2UpdateVariables; O2Steady (SSSteady 100 [1; 1])]
       = Some (NError ENoSteadyState).
  Proof. rewrite Hpin. exact demo_hist2_result. Qed.
End AtPinned2.

(** seeded change C15-7 *)
Lemma later_only_refuted :
  (forall pre s0 fs tp t v names keys,
     hist2 HkLaterOnly sim2_fresh pre = Some s0 -> s2_errors s0 = [] ->
     s2_frames s0 = Some fs -> last_time fs = Some tp -> (shift_time (s2_shift s0) t <= tp)%Q ->
     hist2_named later_only_facts names keys (pre ++ [O2Steady (SSSteady t v)])
     = hist2_named later_only_facts names keys pre)
  /\ (forall s fs tp rows t0 v0 rest,
        s2_frames s = Some fs -> last_time fs = Some tp ->
        shift_rows (s2_shift s) rows = (t0, v0) :: rest -> (t0 == tp)%Q ->
        rest <> [] -> Forall (fun r => (tp < fst r)%Q) rest ->
        handle2 HkLaterOnly s (TCRows rows) true = handle2 HkSkipfirst s (TCRows rows) true)
  /\ (hist2_result HkSkipfirst c157_ops = Some (RSimulation [(1100, [50; 20]); (600, [2; 20])])
      /\ hist2_result HkLaterOnly c157_ops = Some (RSimulation [(1100, [50; 20])])
      /\ hist2_result HkSkipfirst c157_sim_ops
         = Some (RSimulation [(0, [0; 0]); (2500, [50; 20]); (5000, [50; 20]); (500, [10; 20])])
      /\ hist2_result HkLaterOnly c157_sim_ops = Some (RSimulation [(0, [0; 0]); (2500, [50; 20]); (5000, [50; 20])])).
Proof.
  split; [|split; [exact later_only_agrees_on_continuation | exact c157_witness]].
  intros pre s0 fs tp t v names keys Epre He Ef Et Hle.
  unfold hist2_named, hist2_result. cbn [later_only_facts hf_ops_ok hf_handle hf_label].
  rewrite (later_only_drops_search pre s0 fs tp t v Epre He Ef Et Hle), Epre. reflexivity.
Qed.

(** seeded change C15-9 *)
Lemma y0_keys_refuted :
  (forall names ops, hist2_named y0_keys_facts names names ops = hist2_named expected_hist_facts names names ops)
  /\ (hist2_named expected_hist_facts c159_names c159_keys c159_ops
      = Some (NSimulation [(500, [(0%N, 5); (1%N, 10); (2%N, 15 # 2)])])
      /\ hist2_named y0_keys_facts c159_names c159_keys c159_ops
         = Some (NSimulation [(500, [(2%N, 5); (1%N, 10); (0%N, 15 # 2)])])
      /\ init_state c159_names [(2%N, 1 # 2); (1%N, 40); (0%N, 0)] = Some [0; 40; 1 # 2]
      /\ init_state c159_names [(0%N, 0); (1%N, 40); (2%N, 1 # 2)] = Some [0; 40; 1 # 2]).
Proof.
  split; [|exact c159_witness].
  intros names ops. unfold hist2_named. cbn [y0_keys_facts expected_hist_facts hf_ops_ok hf_handle hf_label].
  destruct (hist2_result HkSkipfirst ops) as [[rows|e]|]; reflexivity.
Qed.
