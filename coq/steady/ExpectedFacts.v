(** Hand-edited (together with a [fix:] commit in /repo only): which form of the steady-state loop
    PropsC15.v expects the extractor to regenerate from the current tree.

    [C15_expected_succ]
      SuccUnchecked  the snapshot: [integ.successful()] is never looked at after [integ.integrate(t)]
                     (recorded finding c15-integrator-failure-unchecked; theorem
                     C15_unchecked_failure_refuted applies to the tree)
      SuccChecked    after fixes/C15-integrator-failure.diff: a failed integration step returns
                     [Result(IntegrationFailure())] (theorem C15_integrator_failure_reported applies)
    tools/c15_switch.py rewrites this line and known_findings.d/C15.json consistently. *)
From Coq Require Import QArith ZArith NArith.
From Steady Require Import SteadyLoop.

Definition C15_expected_succ : succ_kind := SuccChecked.

Definition C15_ss_facts (k : succ_kind) : ss_facts :=
  mkSSFacts 100%Z 1000%N CmpLt NormL2 PrevCopy RelDivPrev ExhaustFail k true.
