(** Proofs about the steady-state loop model (exact arithmetic, no axioms). *)
From Coq Require Import QArith Qabs ZArith NArith List Bool Lia Lqa Arith.
Import ListNotations.
From Steady Require Import SteadyLoop.

Local Open Scope Q_scope.

(** boolean form of the per-step convergence test *)
Definition conv (F : ss_facts) (tol : Q) (rel : bool) (a b : vec) : bool :=
  match conv_test F tol rel a b with TConv => true | _ => false end.

(** plain element-wise operations used in the specifications *)
Fixpoint vsub (b a : vec) : vec :=
  match b, a with
  | x :: b', z :: a' => (x - z) :: vsub b' a'
  | _, _ => []
  end.
Fixpoint vrel (b a : vec) : vec :=
  match b, a with
  | x :: b', z :: a' => ((x - z) / z) :: vrel b' a'
  | _, _ => []
  end.
Definition nonzero (a : vec) : Prop := Forall (fun z => ~ z == 0) a.

Lemma Qltb_lt a b : Qltb a b = true <-> a < b.
Proof.
  unfold Qltb. rewrite negb_true_iff. split.
  - intro H. apply Qnot_le_lt. intro Hle. apply Qle_bool_iff in Hle. congruence.
  - intro H. destruct (Qle_bool b a) eqn:E; [|reflexivity].
    apply Qle_bool_iff in E. exfalso. apply (Qlt_not_le _ _ H E).
Qed.

Lemma Qltb_false a b : Qltb a b = false <-> b <= a.
Proof.
  unfold Qltb. rewrite negb_false_iff. apply Qle_bool_iff.
Qed.

(** *** shapes *)

Lemma diff_abs_shape : forall a b, length a = length b -> diff_abs a b = DVec (vsub b a).
Proof.
  induction a as [|x a IH]; intros [|z b] Hl; simpl in *; try discriminate; [reflexivity|].
  injection Hl as Hl. rewrite (IH b Hl). reflexivity.
Qed.

Lemma diff_rel_shape : forall a b, length a = length b ->
  (diff_rel a b = DNonFinite /\ ~ nonzero a) \/ (diff_rel a b = DVec (vrel b a) /\ nonzero a).
Proof.
  induction a as [|x a IH]; intros [|z b] Hl; simpl in *; try discriminate.
  - right. split; [reflexivity | constructor].
  - injection Hl as Hl. destruct (IH b Hl) as [[E Hn] | [E Hnz]]; rewrite E.
    + left; split; [reflexivity|]. intro H. inversion H; subst. contradiction.
    + destruct (Qeq_bool x 0) eqn:Ex.
      * left; split; [reflexivity|]. intro H. inversion H as [|? ? Hx ?]; subst.
        apply Hx. apply Qeq_bool_iff. exact Ex.
      * right. split; [reflexivity|]. constructor; [|exact Hnz].
        intro H. apply Qeq_bool_iff in H. congruence.
Qed.

Lemma conv_test_shape F tol rel a b : length a = length b -> conv_test F tol rel a b <> TShape.
Proof.
  intros Hl. unfold conv_test. destruct rel.
  - destruct (diff_rel_shape a b Hl) as [[E _] | [E _]]; rewrite E; [discriminate|].
    destruct (below F (vrel b a) tol); discriminate.
  - rewrite (diff_abs_shape a b Hl). destruct (below F (vsub b a) tol); discriminate.
Qed.

Lemma conv_test_cases F tol rel a b : length a = length b ->
  (conv_test F tol rel a b = TConv /\ conv F tol rel a b = true)
  \/ (conv_test F tol rel a b = TNot /\ conv F tol rel a b = false).
Proof.
  intros Hl. unfold conv. pose proof (conv_test_shape F tol rel a b Hl) as Hs.
  destruct (conv_test F tol rel a b); [left | right | contradiction]; split; reflexivity.
Qed.

(** *** the loop with copy semantics: least index, else failure *)

Definition time_of (F : ss_facts) (n : nat) : Q := inject_Z (sf_step F * Z.of_nat (S n)).

Section CopySpec.
  Variable F : ss_facts.
  Variable tol : Q.
  Variable rel : bool.
  Variable y : nat -> vec.
  Variable ok : nat -> bool.
  Hypothesis Hprev : sf_prev F = PrevCopy.
  Hypothesis Hex : sf_exhaust F = ExhaustFail.
  Hypothesis Hshape : forall n, length (y n) = length (y 0%nat).

  Let c (n : nat) : bool := conv F tol rel (y n) (y (S n)).
  Let bad (n : nat) : bool := step_aborts F ok n.

  Lemma ss_loop_copy_spec : forall fuel i t,
    match ss_loop F tol rel y ok fuel i t (Held (y i)) with
    | SSSteady t' v =>
        exists n, (i <= n < i + fuel)%nat /\ bad n = false /\ c n = true
                  /\ (forall m, (i <= m < n)%nat -> bad m = false /\ c m = false)
                  /\ t' == t + inject_Z (sf_step F * Z.of_nat (n - i)) /\ v = y (S n)
    | SSNoSteady => forall m, (i <= m < i + fuel)%nat -> bad m = false /\ c m = false
    | SSIntegFail =>
        exists n, (i <= n < i + fuel)%nat /\ bad n = true
                  /\ (forall m, (i <= m < n)%nat -> bad m = false /\ c m = false)
    | SSShape => False
    | SSUnknownFacts => False
    end.
  Proof.
    induction fuel as [|fuel IH]; intros i t; cbn [ss_loop].
    - rewrite Hex. intros m Hm. lia.
    - assert (Hl : length (y i) = length (y (S i))) by (rewrite (Hshape i), (Hshape (S i)); reflexivity).
      destruct (step_aborts F ok i) eqn:Eb.
      { exists i. split; [lia|]. split; [exact Eb|]. intros m Hm. lia. }
      destruct (conv_test_cases F tol rel (y i) (y (S i)) Hl) as [[E Ec] | [E Ec]]; rewrite E.
      + exists i. split; [lia|]. split; [exact Eb|]. split; [exact Ec|]. split; [intros m Hm; lia|].
        split; [|reflexivity].
        rewrite Nat.sub_diag. rewrite Z.mul_0_r. unfold inject_Z. ring.
      + rewrite Hprev. specialize (IH (S i) (t + inject_Z (sf_step F))).
        destruct (ss_loop F tol rel y ok fuel (S i) (t + inject_Z (sf_step F)) (Held (y (S i)))) as [t' v| | | |].
        * destruct IH as [n [Hn [Hbn [Hcn [Hleast [Ht Hv]]]]]].
          exists n. split; [lia|]. split; [exact Hbn|]. split; [exact Hcn|]. split; [|split; [|exact Hv]].
          -- intros m Hm. destruct (Nat.eq_dec m i) as [->|Hne]; [split; [exact Eb | exact Ec] | apply Hleast; lia].
          -- rewrite Ht. replace (n - i)%nat with (S (n - S i))%nat by lia.
             rewrite Nat2Z.inj_succ. unfold Z.succ. rewrite Z.mul_add_distr_l, Z.mul_1_r.
             rewrite !inject_Z_plus. ring.
        * intros m Hm. destruct (Nat.eq_dec m i) as [->|Hne]; [split; [exact Eb | exact Ec] | apply IH; lia].
        * exact IH.
        * exact IH.
        * destruct IH as [n [Hn [Hbn Hleast]]]. exists n. split; [lia|]. split; [exact Hbn|].
          intros m Hm. destruct (Nat.eq_dec m i) as [->|Hne]; [split; [exact Eb | exact Ec] | apply Hleast; lia].
  Qed.
End CopySpec.

Definition CopyFacts (F : ss_facts) : Prop :=
  facts_known F = true /\ sf_prev F = PrevCopy /\ sf_exhaust F = ExhaustFail.

(** the loop reads [ok] only through [step_aborts] *)
Lemma ss_loop_ext F tol rel y ok ok' :
  (forall n, step_aborts F ok n = step_aborts F ok' n) ->
  forall fuel i t p, ss_loop F tol rel y ok fuel i t p = ss_loop F tol rel y ok' fuel i t p.
Proof.
  intros H. induction fuel as [|fuel IH]; intros i t p; cbn [ss_loop]; [reflexivity|].
  rewrite (H i). destruct (step_aborts F ok' i); [reflexivity|].
  destruct (conv_test F tol rel _ _); try reflexivity. apply IH.
Qed.

Lemma step_aborts_all_ok F n : step_aborts F all_ok n = false.
Proof. unfold step_aborts, all_ok. destruct (sf_succ F); reflexivity. Qed.

(** *** the general run (any success flags) *)
Section RunSpecS.
  Variable F : ss_facts.
  Hypothesis HF : CopyFacts F.
  Variable tol : Q.
  Variable rel : bool.
  Variable y : nat -> vec.
  Variable ok : nat -> bool.
  Hypothesis Hshape : forall n, length (y n) = length (y 0%nat).

  Let c (n : nat) : bool := conv F tol rel (y n) (y (S n)).
  Let bad (n : nat) : bool := step_aborts F ok n.
  Let N := N.to_nat (sf_max_steps F).

  Lemma run_s_cases :
    match ss_run_s F tol rel (y 0%nat) y ok with
    | SSSteady t v =>
        exists n, (n < N)%nat /\ bad n = false /\ c n = true
                  /\ (forall m, (m < n)%nat -> bad m = false /\ c m = false)
                  /\ t == time_of F n /\ v = y (S n)
    | SSNoSteady => forall m, (m < N)%nat -> bad m = false /\ c m = false
    | SSIntegFail =>
        exists n, (n < N)%nat /\ bad n = true /\ (forall m, (m < n)%nat -> bad m = false /\ c m = false)
    | SSShape => False
    | SSUnknownFacts => False
    end.
  Proof.
    destruct HF as [Hk [Hp He]]. unfold ss_run_s. rewrite Hk.
    pose proof (ss_loop_copy_spec F tol rel y ok Hp He Hshape N 0 (0 + inject_Z (sf_step F))) as H.
    fold N. destruct (ss_loop F tol rel y ok N 0 (0 + inject_Z (sf_step F)) (Held (y 0%nat))) as [t v| | | |].
    - destruct H as [n [Hn [Hbn [Hcn [Hl [Ht Hv]]]]]]. exists n.
      split; [lia|]. split; [exact Hbn|]. split; [exact Hcn|]. split; [|split; [|exact Hv]].
      + intros m Hm. apply Hl. lia.
      + rewrite Ht. unfold time_of. rewrite Nat.sub_0_r, Nat2Z.inj_succ. unfold Z.succ.
        rewrite Z.mul_add_distr_l, Z.mul_1_r, !inject_Z_plus. ring.
    - intros m Hm. apply H. lia.
    - exact H.
    - exact H.
    - destruct H as [n [Hn [Hbn Hl]]]. exists n. split; [lia|]. split; [exact Hbn|].
      intros m Hm. apply Hl. lia.
  Qed.

  (** the outcome is determined by the first step that aborts or converges *)
  Lemma run_s_steady_complete n :
    (n < N)%nat -> bad n = false -> c n = true -> (forall m, (m < n)%nat -> bad m = false /\ c m = false) ->
    exists t, ss_run_s F tol rel (y 0%nat) y ok = SSSteady t (y (S n)) /\ t == time_of F n.
  Proof.
    intros Hn Hbn Hcn Hl. pose proof run_s_cases as H.
    destruct (ss_run_s F tol rel (y 0%nat) y ok) as [t v| | | |]; try contradiction.
    - destruct H as [n' [Hn' [Hbn' [Hcn' [Hl' [Ht Hv]]]]]].
      assert (n' = n).
      { destruct (lt_eq_lt_dec n' n) as [[Hlt|Heq]|Hgt]; [|exact Heq|].
        - destruct (Hl n' Hlt) as [_ Hc']. rewrite Hc' in Hcn'. discriminate.
        - destruct (Hl' n Hgt) as [_ Hc']. rewrite Hc' in Hcn. discriminate. }
      subst n'. exists t. split; [rewrite Hv; reflexivity | exact Ht].
    - destruct (H n Hn) as [_ Hc']. rewrite Hc' in Hcn. discriminate.
    - destruct H as [n' [Hn' [Hbn' Hl']]].
      destruct (lt_eq_lt_dec n' n) as [[Hlt|Heq]|Hgt].
      + destruct (Hl n' Hlt) as [Hb' _]. rewrite Hb' in Hbn'. discriminate.
      + subst n'. rewrite Hbn in Hbn'. discriminate.
      + destruct (Hl' n Hgt) as [_ Hc']. rewrite Hc' in Hcn. discriminate.
  Qed.

  Lemma run_s_fail_complete n :
    (n < N)%nat -> bad n = true -> (forall m, (m < n)%nat -> bad m = false /\ c m = false) ->
    ss_run_s F tol rel (y 0%nat) y ok = SSIntegFail.
  Proof.
    intros Hn Hbn Hl. pose proof run_s_cases as H.
    destruct (ss_run_s F tol rel (y 0%nat) y ok) as [t v| | | |]; try contradiction; [| |reflexivity].
    - destruct H as [n' [Hn' [Hbn' [Hcn' [Hl' _]]]]].
      destruct (lt_eq_lt_dec n' n) as [[Hlt|Heq]|Hgt].
      + destruct (Hl n' Hlt) as [_ Hc']. rewrite Hc' in Hcn'. discriminate.
      + subst n'. rewrite Hbn in Hbn'. discriminate.
      + destruct (Hl' n Hgt) as [Hb' _]. rewrite Hb' in Hbn. discriminate.
    - destruct (H n Hn) as [Hb' _]. rewrite Hb' in Hbn. discriminate.
  Qed.

  Lemma run_s_nosteady_complete :
    (forall m, (m < N)%nat -> bad m = false /\ c m = false) -> ss_run_s F tol rel (y 0%nat) y ok = SSNoSteady.
  Proof.
    intros Hall. pose proof run_s_cases as H.
    destruct (ss_run_s F tol rel (y 0%nat) y ok) as [t v| | | |]; try contradiction; [|reflexivity|].
    - destruct H as [n [Hn [_ [Hcn _]]]]. destruct (Hall n Hn) as [_ Hc']. rewrite Hc' in Hcn. discriminate.
    - destruct H as [n [Hn [Hbn _]]]. destruct (Hall n Hn) as [Hb' _]. rewrite Hb' in Hbn. discriminate.
  Qed.
End RunSpecS.

Section RunSpec.
  Variable F : ss_facts.
  Hypothesis HF : CopyFacts F.
  Variable tol : Q.
  Variable rel : bool.
  Variable y : nat -> vec.
  Hypothesis Hshape : forall n, length (y n) = length (y 0%nat).

  Let c (n : nat) : bool := conv F tol rel (y n) (y (S n)).
  Let N := N.to_nat (sf_max_steps F).

  Lemma run_cases :
    match ss_run F tol rel (y 0%nat) y with
    | SSSteady t v =>
        exists n, (n < N)%nat /\ c n = true /\ (forall m, (m < n)%nat -> c m = false)
                  /\ t == time_of F n /\ v = y (S n)
    | SSNoSteady => forall m, (m < N)%nat -> c m = false
    | SSShape => False
    | SSUnknownFacts => False
    | SSIntegFail => False
    end.
  Proof.
    pose proof (run_s_cases F HF tol rel y all_ok Hshape) as H. unfold ss_run.
    destruct (ss_run_s F tol rel (y 0%nat) y all_ok) as [t v| | | |].
    - destruct H as [n [Hn [_ [Hcn [Hl [Ht Hv]]]]]]. exists n.
      split; [exact Hn|]. split; [exact Hcn|]. split; [|split; [exact Ht | exact Hv]].
      intros m Hm. apply (Hl m Hm).
    - intros m Hm. apply (H m Hm).
    - exact H.
    - exact H.
    - destruct H as [n [_ [Hbn _]]]. rewrite step_aborts_all_ok in Hbn. discriminate.
  Qed.

  (** success  <->  there is a least converging index below the budget, and it is the one reported *)
  Lemma run_steady_sound t v :
    ss_run F tol rel (y 0%nat) y = SSSteady t v ->
    exists n, (n < N)%nat /\ c n = true /\ (forall m, (m < n)%nat -> c m = false)
              /\ t == time_of F n /\ v = y (S n).
  Proof. intro E. pose proof run_cases as H. rewrite E in H. exact H. Qed.

  Lemma run_nosteady_sound :
    ss_run F tol rel (y 0%nat) y = SSNoSteady -> forall m, (m < N)%nat -> c m = false.
  Proof. intro E. pose proof run_cases as H. rewrite E in H. exact H. Qed.

  Lemma run_steady_complete n :
    (n < N)%nat -> c n = true -> (forall m, (m < n)%nat -> c m = false) ->
    exists t, ss_run F tol rel (y 0%nat) y = SSSteady t (y (S n)) /\ t == time_of F n.
  Proof.
    intros Hn Hcn Hl. pose proof run_cases as H.
    destruct (ss_run F tol rel (y 0%nat) y) as [t v| | | |]; try contradiction.
    - destruct H as [n' [Hn' [Hcn' [Hl' [Ht Hv]]]]].
      assert (n' = n).
      { destruct (lt_eq_lt_dec n' n) as [[Hlt|Heq]|Hgt]; [|exact Heq|].
        - rewrite (Hl n' Hlt) in Hcn'. discriminate.
        - rewrite (Hl' n Hgt) in Hcn. discriminate. }
      subst n'. exists t. split; [rewrite Hv; reflexivity | exact Ht].
    - rewrite (H n Hn) in Hcn. discriminate.
  Qed.

  Lemma run_nosteady_complete :
    (forall m, (m < N)%nat -> c m = false) -> ss_run F tol rel (y 0%nat) y = SSNoSteady.
  Proof.
    intros Hall. pose proof run_cases as H.
    destruct (ss_run F tol rel (y 0%nat) y) as [t v| | | |]; try contradiction; [|reflexivity].
    destruct H as [n [Hn [Hcn _]]]. rewrite (Hall n Hn) in Hcn. discriminate.
  Qed.

  Lemma run_total :
    ss_run F tol rel (y 0%nat) y <> SSShape /\ ss_run F tol rel (y 0%nat) y <> SSUnknownFacts.
  Proof.
    pose proof run_cases as H.
    destruct (ss_run F tol rel (y 0%nat) y); split; try discriminate; try contradiction.
  Qed.

  Lemma run_never_integfail : ss_run F tol rel (y 0%nat) y <> SSIntegFail.
  Proof.
    pose proof run_cases as H. destruct (ss_run F tol rel (y 0%nat) y); try discriminate; contradiction.
  Qed.
End RunSpec.

(** the whole loop specification in one statement *)
Lemma loop_spec F (HF : CopyFacts F) tol rel (y : nat -> vec) :
  (forall n, length (y n) = length (y 0%nat)) ->
  let c n := conv F tol rel (y n) (y (S n)) in
  let N := N.to_nat (sf_max_steps F) in
  (forall t v, ss_run F tol rel (y 0%nat) y = SSSteady t v ->
     exists n, (n < N)%nat /\ c n = true /\ (forall m, (m < n)%nat -> c m = false)
               /\ t == time_of F n /\ v = y (S n))
  /\ (forall n, (n < N)%nat -> c n = true -> (forall m, (m < n)%nat -> c m = false) ->
        exists t, ss_run F tol rel (y 0%nat) y = SSSteady t (y (S n)) /\ t == time_of F n)
  /\ (ss_run F tol rel (y 0%nat) y = SSNoSteady <-> forall m, (m < N)%nat -> c m = false)
  /\ ss_run F tol rel (y 0%nat) y <> SSShape
  /\ ss_run F tol rel (y 0%nat) y <> SSUnknownFacts.
Proof.
  intros Hs c N. split; [|split; [|split; [|split]]].
  - intros t v. apply run_steady_sound; assumption.
  - intros n. apply run_steady_complete; assumption.
  - split; [apply run_nosteady_sound | apply run_nosteady_complete]; assumption.
  - apply (run_total F HF tol rel y Hs).
  - apply (run_total F HF tol rel y Hs).
Qed.

(** *** what the per-step test means (pinned norm and comparison) *)

Definition L2Lt (F : ss_facts) : Prop := sf_norm F = NormL2 /\ sf_cmp F = CmpLt.

Lemma below_iff F (HL : L2Lt F) d tol : below F d tol = true <-> 0 < tol /\ sumsq d < tol * tol.
Proof.
  destruct HL as [Hn Hc]. unfold below. rewrite Hn, Hc, andb_true_iff, !Qltb_lt. tauto.
Qed.

Lemma conv_abs_iff F (HL : L2Lt F) tol a b : length a = length b ->
  (conv F tol false a b = true <-> 0 < tol /\ sumsq (vsub b a) < tol * tol).
Proof.
  intros Hl. unfold conv, conv_test. rewrite (diff_abs_shape a b Hl), <- (below_iff F HL).
  destruct (below F (vsub b a) tol); split; congruence.
Qed.

Lemma conv_rel_iff F (HL : L2Lt F) tol a b : length a = length b ->
  (conv F tol true a b = true <-> nonzero a /\ 0 < tol /\ sumsq (vrel b a) < tol * tol).
Proof.
  intros Hl. unfold conv, conv_test.
  destruct (diff_rel_shape a b Hl) as [[E Hn] | [E Hnz]]; rewrite E.
  - split; [discriminate | tauto].
  - rewrite <- (below_iff F HL). destruct (below F (vrel b a) tol); split; try tauto; try congruence.
Qed.

(** *** alias semantics (the code before the repair): every trajectory "converges" at once *)

Lemma sumsq_cons x d : sumsq (x :: d) = x * x + sumsq d.
Proof. reflexivity. Qed.

Lemma sumsq_vsub_self b : sumsq (vsub b b) == 0.
Proof.
  induction b as [|x b IH]; [reflexivity|]. cbn [vsub]. rewrite sumsq_cons, IH. ring.
Qed.

Definition AliasFacts (F : ss_facts) : Prop :=
  facts_known F = true /\ sf_prev F = PrevAlias /\ L2Lt F.

Lemma alias_always_steady F (HF : AliasFacts F) tol (y : nat -> vec) :
  0 < tol -> (forall n, length (y n) = length (y 0%nat)) -> (2 <= N.to_nat (sf_max_steps F))%nat ->
  (exists t, ss_run F tol false (y 0%nat) y = SSSteady t (y 1%nat) /\ t == inject_Z (sf_step F))
  \/ (exists t, ss_run F tol false (y 0%nat) y = SSSteady t (y 2%nat) /\ t == inject_Z (2 * sf_step F)).
Proof.
  intros Htol Hs HN. destruct HF as [Hk [Hp HL]]. unfold ss_run, ss_run_s. rewrite Hk.
  destruct (N.to_nat (sf_max_steps F)) as [|[|k]]; try lia. cbn [ss_loop].
  rewrite !step_aborts_all_ok.
  assert (Hl : length (y 0%nat) = length (y 1%nat)) by (rewrite (Hs 1%nat); reflexivity).
  destruct (conv_test_cases F tol false (y 0%nat) (y 1%nat) Hl) as [[E _] | [E _]]; rewrite E.
  - left. eexists. split; [reflexivity | ring].
  - right. rewrite Hp.
    assert (E2 : conv_test F tol false (y 2%nat) (y 2%nat) = TConv).
    { unfold conv_test. rewrite (diff_abs_shape _ _ eq_refl).
      assert (Hb : below F (vsub (y 2%nat) (y 2%nat)) tol = true).
      { apply (below_iff F HL). split; [exact Htol|]. rewrite sumsq_vsub_self. nra. }
      rewrite Hb. reflexivity. }
    rewrite E2. eexists. split; [reflexivity|].
    replace (2 * sf_step F)%Z with (sf_step F + sf_step F)%Z by lia. rewrite inject_Z_plus. ring.
Qed.

(** *** accumulation: a pool that moves by at least the tolerance in every step => failure *)

Lemma sumsq_nonneg d : 0 <= sumsq d.
Proof.
  induction d as [|x d IH]; [apply Qle_refl|]. rewrite sumsq_cons. nra.
Qed.

Lemma sumsq_ge_component : forall d k, nth k d 0 * nth k d 0 <= sumsq d.
Proof.
  induction d as [|x d IH]; intros k.
  - destruct k; cbn; apply Qle_refl.
  - rewrite sumsq_cons. destruct k as [|k]; cbn [nth].
    + pose proof (sumsq_nonneg d). nra.
    + specialize (IH k). nra.
Qed.

Lemma nth_vsub : forall b a k, length a = length b -> nth k (vsub b a) 0 == nth k b 0 - nth k a 0.
Proof.
  induction b as [|x b IH]; intros [|z a] k Hl; simpl in Hl; try discriminate.
  - destruct k; cbn; ring.
  - injection Hl as Hl. destruct k as [|k]; cbn [vsub nth]; [reflexivity | apply IH; exact Hl].
Qed.

Lemma conv_abs_false_component F (HL : L2Lt F) tol a b k :
  length a = length b -> tol <= Qabs (nth k b 0 - nth k a 0) -> conv F tol false a b = false.
Proof.
  intros Hl Hk. destruct (conv F tol false a b) eqn:E; [|reflexivity]. exfalso.
  apply (conv_abs_iff F HL tol a b Hl) in E. destruct E as [Htol Hlt].
  pose proof (sumsq_ge_component (vsub b a) k) as Hc. rewrite (nth_vsub b a k Hl) in Hc.
  set (x := nth k b 0 - nth k a 0) in *.
  revert Hk. apply Qabs_case; intros Hx Hk; nra.
Qed.

Lemma accumulation_fails F (HF : CopyFacts F) (HL : L2Lt F) tol (y : nat -> vec) :
  (forall n, length (y n) = length (y 0%nat)) ->
  (forall n, (n < N.to_nat (sf_max_steps F))%nat ->
     exists k, tol <= Qabs (nth k (y (S n)) 0 - nth k (y n) 0)) ->
  ss_run F tol false (y 0%nat) y = SSNoSteady.
Proof.
  intros Hs Hacc. apply (run_nosteady_complete F HF tol false y Hs).
  intros m Hm. destruct (Hacc m Hm) as [k Hk].
  apply (conv_abs_false_component F HL tol _ _ k); [|exact Hk].
  rewrite (Hs m), (Hs (S m)). reflexivity.
Qed.

(** linear accumulation y n = y0 + n*c *)
Lemma vaxpy_length : forall c y0 n, length c = length y0 -> length (vaxpy n c y0) = length y0.
Proof.
  induction c as [|a c IH]; intros [|b y0] n Hl; simpl in *; try discriminate; [reflexivity|].
  injection Hl as Hl. rewrite (IH y0 n Hl). reflexivity.
Qed.

Lemma nth_vaxpy : forall c y0 n k, length c = length y0 ->
  nth k (vaxpy n c y0) 0 == nth k y0 0 + n * nth k c 0.
Proof.
  induction c as [|a c IH]; intros [|b y0] n k Hl; simpl in Hl; try discriminate.
  - destruct k; cbn; ring.
  - injection Hl as Hl. destruct k as [|k]; cbn [vaxpy nth]; [reflexivity | apply IH; exact Hl].
Qed.

Lemma inject_nat_succ n : inject_Z (Z.of_nat (S n)) == inject_Z (Z.of_nat n) + 1.
Proof. rewrite Nat2Z.inj_succ. unfold Z.succ. rewrite inject_Z_plus. reflexivity. Qed.

Lemma linear_accumulation_fails F (HF : CopyFacts F) (HL : L2Lt F) tol y0 c k :
  length c = length y0 -> tol <= Qabs (nth k c 0) ->
  let y := traj_fun (TrajLin y0 c) in
  ss_run F tol false (y 0%nat) y = SSNoSteady.
Proof.
  intros Hl Hk y. apply (accumulation_fails F HF HL tol y).
  - intros n. unfold y, traj_fun. rewrite !vaxpy_length; auto.
  - intros n _. exists k. unfold y, traj_fun.
    rewrite !(nth_vaxpy c y0 _ k Hl), inject_nat_succ.
    assert (E : nth k y0 0 + (inject_Z (Z.of_nat n) + 1) * nth k c 0
                - (nth k y0 0 + inject_Z (Z.of_nat n) * nth k c 0) == nth k c 0) by ring.
    rewrite E. exact Hk.
Qed.

(** *** relative norm: linear accumulation of one pool, exact characterisation *)

Section RelAccum.
  Variable F : ss_facts.
  Hypothesis HF : CopyFacts F.
  Hypothesis HL : L2Lt F.
  Variables tol y0 c : Q.
  Hypothesis Hy0 : 0 < y0.
  Hypothesis Hc : 0 < c.
  Let y := traj_fun (TrajLin [y0] [c]).
  Let N := N.to_nat (sf_max_steps F).

  Lemma y_shape : forall n, length (y n) = length (y 0%nat).
  Proof. intro n. reflexivity. Qed.

  Lemma inject_nat_nonneg n : 0 <= inject_Z (Z.of_nat n).
  Proof. change 0 with (inject_Z 0). rewrite <- Zle_Qle. lia. Qed.

  (** step n converges  <->  c < tol * (y0 + n*c) *)
  Lemma rel_step_iff n :
    conv F tol true (y n) (y (S n)) = true <-> c < tol * (y0 + inject_Z (Z.of_nat n) * c).
  Proof.
    rewrite (conv_rel_iff F HL tol (y n) (y (S n)) eq_refl).
    unfold y, traj_fun. cbn [vaxpy vrel]. rewrite sumsq_cons. cbn [sumsq fold_right].
    pose proof (inject_nat_nonneg n) as Hn. pose proof (inject_nat_succ n) as Hsn.
    set (q := inject_Z (Z.of_nat n)) in *. set (q' := inject_Z (Z.of_nat (S n))) in *.
    assert (HD : 0 < y0 + q * c) by nra.
    set (D := y0 + q * c) in *.
    assert (Hx : (y0 + q' * c - D) / D * D == c).
    { unfold D. rewrite Hsn. field. intro H0. unfold D in HD. rewrite H0 in HD. apply (Qlt_irrefl 0 HD). }
    set (x := (y0 + q' * c - D) / D) in *.
    assert (Hxpos : 0 < x).
    { destruct (Qlt_le_dec 0 x) as [H|H]; [exact H|]. exfalso. nra. }
    split.
    - intros [_ [Htol Hlt]].
      assert (x < tol).
      { destruct (Qlt_le_dec x tol) as [H|H]; [exact H|]. exfalso. nra. }
      nra.
    - intros Hlt. split; [|split].
      + constructor; [|constructor]. intro H0. fold D in H0. rewrite H0 in HD. apply (Qlt_irrefl 0 HD).
      + destruct (Qlt_le_dec 0 tol) as [H|H]; [exact H|]. exfalso. nra.
      + assert (Htol : 0 < tol).
        { destruct (Qlt_le_dec 0 tol) as [H|H]; [exact H|]. exfalso. nra. }
        assert (x < tol).
        { destruct (Qlt_le_dec x tol) as [H|H]; [exact H|]. exfalso. nra. }
        nra.
  Qed.

  (** failure is reported exactly when even the last step of the budget is not below the tolerance *)
  Lemma rel_accumulation_exact :
    (1 <= N)%nat ->
    (ss_run F tol true (y 0%nat) y = SSNoSteady <-> tol * (y0 + inject_Z (Z.of_nat (N - 1)) * c) <= c).
  Proof.
    intros HN. split.
    - intros E. pose proof (run_nosteady_sound F HF tol true y y_shape E (N - 1)%nat) as H.
      fold N in H. specialize (H ltac:(lia)).
      destruct (Qlt_le_dec c (tol * (y0 + inject_Z (Z.of_nat (N - 1)) * c))) as [Hlt|Hle]; [|exact Hle].
      apply rel_step_iff in Hlt. congruence.
    - intros Hle. apply (run_nosteady_complete F HF tol true y y_shape). fold N. intros m Hm.
      destruct (conv F tol true (y m) (y (S m))) eqn:E; [|reflexivity]. exfalso.
      apply rel_step_iff in E.
      assert (Hmn : inject_Z (Z.of_nat m) <= inject_Z (Z.of_nat (N - 1))) by (rewrite <- Zle_Qle; lia).
      pose proof (inject_nat_nonneg m) as Hm0.
      set (qm := inject_Z (Z.of_nat m)) in *. set (qN := inject_Z (Z.of_nat (N - 1))) in *.
      assert (HDm : 0 < y0 + qm * c) by nra.
      destruct (Qlt_le_dec 0 tol) as [Ht|Ht].
      + assert (Htc : 0 <= tol * c) by nra.
        assert (Hprod : 0 <= (tol * c) * (qN - qm)) by (apply Qmult_le_0_compat; [exact Htc | nra]).
        nra.
      + assert (tol * (y0 + qm * c) <= 0) by nra. nra.
  Qed.

  Lemma rel_accumulation_partial :
    tol * (y0 + inject_Z (Z.of_nat (N - 1)) * c) <= c ->
    ss_run F tol true (y 0%nat) y = SSNoSteady.
  Proof.
    intros Hle. destruct (Nat.eq_dec N 0) as [HN0|HN0].
    - apply (run_nosteady_complete F HF tol true y y_shape). fold N. intros m Hm. lia.
    - apply rel_accumulation_exact; [lia | exact Hle].
  Qed.
End RelAccum.

(** *** plumbing: a failure of the loop reaches the user as a failure value / NaN row *)

Lemma failure_propagates P F tol rel y0 y :
  pf_sim_ok P = true -> pf_worker_ok P = true ->
  (ss_run F tol rel y0 y = SSNoSteady ->
     exists s, sim_to_steady sim_fresh (ss_run F tol rel y0 y) = Some s
               /\ get_result s = RError ENoSteadyState)
  /\ (ss_run F (pf_default_tol P) rel y0 y = SSNoSteady -> steady_state_row P F rel y0 y = Some RowNaN).
Proof.
  intros H1 H2. split; intros E.
  - rewrite E. cbn. eexists. split; reflexivity.
  - unfold steady_state_row. rewrite H1, H2, E. reflexivity.
Qed.

Lemma success_propagates P F tol rel y0 y :
  pf_sim_ok P = true -> pf_worker_ok P = true ->
  (forall t v, ss_run F tol rel y0 y = SSSteady t v ->
     exists s, sim_to_steady sim_fresh (ss_run F tol rel y0 y) = Some s
               /\ get_result s = RSimulation [(t, v)])
  /\ (forall t v, ss_run F (pf_default_tol P) rel y0 y = SSSteady t v ->
        steady_state_row P F rel y0 y = Some (RowValues v)).
Proof.
  intros H1 H2. split; intros t v E.
  - rewrite E. cbn. eexists. split; reflexivity.
  - unfold steady_state_row. rewrite H1, H2, E. reflexivity.
Qed.
