(** C15 -- executable model of [Scipy.integrate_to_steady_state]
    (src/mxlpy/integrators/int_scipy.py) and of the error plumbing
    [Simulator.simulate_to_steady_state] / [Simulator.get_result] / [scan._steady_state_worker].

    The ODE solver is NOT modelled: the loop is run over an abstract SAMPLED TRAJECTORY
    [y : nat -> vec], [y n] = state at time [t0 + n * step_size] ([y (S i)] is what
    [integ.integrate(t)] returns in loop iteration [i]).  All arithmetic is exact ([Q]).

    Python (statement by statement; holes = facts regenerated from the source, see
    GenSteadyFacts.v):

      self.reset()                                   # t0 = 0, y0 = _y0_orig
      integ = spi.ode(...); integ.set_initial_value(self.y0)
      t = self.t0 + step_size                                            [sf_step]
      y1 = copy.deepcopy(self.y0)
      for _ in range(max_steps):                                         [sf_max_steps]
          y2 = np.array(integ.integrate(t), dtype=float)                 [sf_prev: copy | alias]
          if not integ.successful():                                     [sf_succ: checked | unchecked]
              return Result(IntegrationFailure())                        (only with fixes/C15-integrator-failure.diff)
          diff = (y2 - y1) / y1 if rel_norm else y2 - y1                 [sf_rel]
          if np.linalg.norm(diff, ord=2) < tolerance:                    [sf_norm, sf_cmp]
              return Result(TimeCourse(time=[t], values=[y2]))
          y1 = y2
          t += step_size
      return Result(NoSteadyState())                                     [sf_exhaust]

    [integ.integrate] returns scipy's internal output buffer, which the next call overwrites
    in place.  With [sf_prev = PrevAlias] (the code before commit 0b233ce) [y1 = y2] makes
    [y1] a reference to that buffer, so from the second iteration on [y1] and [y2] are the same
    array: modelled by [prev_ref].

    [integ.integrate(t)] does not raise when the solver fails (LSODA: too much work, step size
    underflow at a singularity, ...): it warns, clears [integ.successful()] and returns the state
    where it got stuck.  Hence the trajectory handed to the loop is the sequence of RETURNED
    BUFFERS [y (S i)] together with [ok (S i)] = [integ.successful()] after the call of iteration
    [i]; only while [ok] holds is [y (S i)] the flow at [t0 + (S i) * step_size].  The snapshot code
    ([sf_succ = SuccUnchecked]) never looks at [ok]. *)
From Coq Require Import QArith Qabs ZArith NArith List Bool.
Import ListNotations.

Definition vec := list Q.

(** how the success return is guarded: [if norm < tol: return ok] (CmpLt; CmpLe for [<=]) or the
    early-continue form [if norm >= tol: ...; continue] followed by an unconditional success return
    (CmpNotGe; CmpNotGt for [>]).  On numbers "not >=" is "<"; on a NaN norm it is not: every
    comparison with NaN is False, so the early-continue form FALLS THROUGH to the success return.
    The loop over finite rational buffers below cannot tell the two apart (its only non-finite norms
    come from a division by zero and are treated as "not below"); the loop over IEEE values in
    SteadyNan.v can, and is the model of the code on buffers that contain inf/nan. *)
Inductive cmp_kind := CmpLt | CmpLe | CmpUnknown | CmpNotGe | CmpNotGt.
Inductive norm_kind := NormL2 | NormUnknown.
Inductive prev_kind := PrevCopy | PrevAlias | PrevUnknown.
Inductive rel_kind := RelDivPrev | RelUnknown.
Inductive exhaust_kind := ExhaustFail | ExhaustUnknown.
Inductive succ_kind := SuccChecked | SuccUnchecked | SuccUnknown.

Record ss_facts := mkSSFacts {
  sf_step : Z;               (* default of step_size (the Simulator never passes it) *)
  sf_max_steps : N;          (* default of max_steps *)
  sf_cmp : cmp_kind;         (* norm < tolerance *)
  sf_norm : norm_kind;       (* np.linalg.norm(diff, ord=2) *)
  sf_prev : prev_kind;       (* is the previous iterate a copy or an alias of the buffer *)
  sf_rel : rel_kind;         (* (y2 - y1) / y1 if rel_norm else y2 - y1 *)
  sf_exhaust : exhaust_kind; (* what follows the loop *)
  sf_succ : succ_kind;       (* is integ.successful() tested after integ.integrate(t) *)
  sf_shape_ok : bool         (* every other statement of the method (and of reset) is as above *)
}.

Definition facts_known (F : ss_facts) : bool :=
  sf_shape_ok F
  && match sf_cmp F with CmpUnknown => false | _ => true end
  && match sf_norm F with NormUnknown => false | _ => true end
  && match sf_prev F with PrevUnknown => false | _ => true end
  && match sf_rel F with RelUnknown => false | _ => true end
  && match sf_exhaust F with ExhaustUnknown => false | _ => true end
  && match sf_succ F with SuccUnknown => false | _ => true end.

(** ** numpy expressions *)

(** result of an element-wise expression: a finite vector, a vector with inf/nan entries
    (division by zero: numpy warns and yields inf or nan), or a shape error *)
Inductive dres := DVec (d : vec) | DNonFinite | DShape.

(** [y2 - y1] *)
Fixpoint diff_abs (y1 y2 : vec) : dres :=
  match y1, y2 with
  | [], [] => DVec []
  | a :: y1', b :: y2' =>
      match diff_abs y1' y2' with
      | DVec d => DVec ((b - a) :: d)
      | e => e
      end
  | _, _ => DShape
  end.

(** [(y2 - y1) / y1] : a zero in [y1] gives inf (x/0) or nan (0/0) in that position *)
Fixpoint diff_rel (y1 y2 : vec) : dres :=
  match y1, y2 with
  | [], [] => DVec []
  | a :: y1', b :: y2' =>
      match diff_rel y1' y2' with
      | DShape => DShape
      | DNonFinite => DNonFinite
      | DVec d => if Qeq_bool a 0 then DNonFinite else DVec (((b - a) / a) :: d)
      end
  | _, _ => DShape
  end.

Definition sumsq (d : vec) : Q := fold_right (fun x acc => x * x + acc) 0 d.

Definition Qltb (a b : Q) : bool := negb (Qle_bool b a).

(** [np.linalg.norm(d, ord=2) < tol], decided without the square root:
    sqrt s < tol  <->  0 < tol /\ s < tol^2     (and with <= : 0 <= tol /\ s <= tol^2) *)
Definition below (F : ss_facts) (d : vec) (tol : Q) : bool :=
  match sf_norm F, sf_cmp F with
  | NormL2, CmpLt => Qltb 0 tol && Qltb (sumsq d) (tol * tol)
  | NormL2, CmpLe => Qle_bool 0 tol && Qle_bool (sumsq d) (tol * tol)
  | NormL2, CmpNotGe => Qltb 0 tol && Qltb (sumsq d) (tol * tol)          (* finite norm: not >= is < *)
  | NormL2, CmpNotGt => Qle_bool 0 tol && Qle_bool (sumsq d) (tol * tol)   (* finite norm: not > is <= *)
  | _, _ => false
  end.

(** the convergence test of one loop iteration, [y1] previous and [y2] new iterate.
    A norm of a vector with inf/nan entries is inf/nan, and every comparison with it is False *)
Inductive test_res := TConv | TNot | TShape.
Definition conv_test (F : ss_facts) (tol : Q) (rel : bool) (y1 y2 : vec) : test_res :=
  match (if rel then diff_rel y1 y2 else diff_abs y1 y2) with
  | DShape => TShape
  | DNonFinite => TNot
  | DVec d => if below F d tol then TConv else TNot
  end.

(** ** the loop *)

(** what the Python name [y1] refers to: an array of its own, or scipy's output buffer *)
Inductive prev_ref := Held (v : vec) | Buffer.

Inductive ss_out :=
| SSSteady (t : Q) (v : vec)   (* Result(TimeCourse(time=[t], values=[v])) *)
| SSNoSteady                   (* Result(NoSteadyState()) *)
| SSShape                      (* numpy shape error (proved unreachable for well-shaped trajectories) *)
| SSUnknownFacts               (* the extractor did not recognise the source: never equals anything *)
| SSIntegFail.                 (* Result(IntegrationFailure()): integ.successful() was False *)

Section Loop.
  Variable F : ss_facts.
  Variable tol : Q.
  Variable rel : bool.
  Variable y : nat -> vec.
  Variable ok : nat -> bool.

  (** does iteration [i] stop with the integrator's failure *)
  Definition step_aborts (i : nat) : bool :=
    match sf_succ F with SuccChecked => negb (ok (S i)) | _ => false end.

  Fixpoint ss_loop (fuel : nat) (i : nat) (t : Q) (y1 : prev_ref) : ss_out :=
    match fuel with
    | O => match sf_exhaust F with ExhaustFail => SSNoSteady | ExhaustUnknown => SSUnknownFacts end
    | S fuel' =>
        let buffer := y (S i) in                            (* integ.integrate(t) *)
        let y2 := buffer in
        let y1v := match y1 with Held v => v | Buffer => buffer end in
        if step_aborts i then SSIntegFail else               (* if not integ.successful(): return ... *)
        match conv_test F tol rel y1v y2 with
        | TShape => SSShape
        | TConv => SSSteady t y2
        | TNot =>
            let y1' := match sf_prev F with PrevAlias => Buffer | _ => Held y2 end in  (* y1 = y2 *)
            ss_loop fuel' (S i) (t + inject_Z (sf_step F)) y1'                           (* t += step_size *)
        end
    end.
End Loop.

(** [integrate_to_steady_state(tolerance=tol, rel_norm=rel)] on an integrator created with
    initial values [y0] whose flow sampled every [step_size] is [y] *)
Definition ss_run_s (F : ss_facts) (tol : Q) (rel : bool) (y0 : vec) (y : nat -> vec) (ok : nat -> bool) : ss_out :=
  if facts_known F
  then ss_loop F tol rel y ok (N.to_nat (sf_max_steps F)) 0 (0 + inject_Z (sf_step F)) (Held y0)
  else SSUnknownFacts.

(** the same when every integration step succeeds (the solver follows the flow) *)
Definition all_ok : nat -> bool := fun _ => true.
Definition ss_run (F : ss_facts) (tol : Q) (rel : bool) (y0 : vec) (y : nat -> vec) : ss_out :=
  ss_run_s F tol rel y0 y all_ok.

(** ** plumbing: Simulator and scan worker *)

Inductive sim_error := ENoSteadyState | EIntegrationFailure | EOther.
Inductive sim_result := RSimulation (rows : list (Q * vec)) | RError (e : sim_error).
Inductive scan_row := RowValues (v : vec) | RowNaN.

Record plumb_facts := mkPlumb {
  pf_sim_ok : bool;     (* simulate_to_steady_state / _handle_simulation_results / get_result as modelled *)
  pf_worker_ok : bool;  (* _steady_state_worker / Result.default / Simulation.default(NaN) as modelled *)
  pf_default_tol : Q    (* default of Simulator.simulate_to_steady_state(tolerance=...), which the worker uses *)
}.

(** Simulator state relevant here: [variables] and [_errors] *)
Record sim_state := mkSim { s_variables : option (list (Q * vec)); s_errors : list sim_error }.
Definition sim_fresh : sim_state := mkSim None [].

(** what one call of the integrator hands to [_handle_simulation_results]:
    [Result(TimeCourse(time, values))] (rows = (time, state)) or [Result(<exception>)] *)
Inductive tc_res := TCRows (rows : list (Q * vec)) | TCFail (e : sim_error).

(** [_handle_simulation_results(result, skipfirst)] ([_time_shift] is None: no update_variable in
    the histories modelled here).  The frames of [variables] are kept flattened, as
    [Simulation.variables] concatenates them.  The catch-all arm [case _ as e] records EVERY
    non-TimeCourse value. *)
Definition handle_tc (s : sim_state) (r : tc_res) (skipfirst : bool) : sim_state :=
  match r with
  | TCRows rows =>
      mkSim (Some (match s_variables s with
                   | None => rows
                   | Some l => l ++ (if skipfirst then tl rows else rows)
                   end)) (s_errors s)
  | TCFail e => mkSim (s_variables s) (s_errors s ++ [e])
  end.

(** the [Result] returned by [integrate_to_steady_state] *)
Definition tc_of_ss (r : ss_out) : option tc_res :=
  match r with
  | SSSteady t v => Some (TCRows [(t, v)])
  | SSNoSteady => Some (TCFail ENoSteadyState)
  | SSIntegFail => Some (TCFail EIntegrationFailure)
  | SSShape | SSUnknownFacts => None
  end.

(** [_handle_simulation_results(integrate_to_steady_state(...), skipfirst=False)] *)
Definition handle_result (s : sim_state) (r : ss_out) : option sim_state :=
  match tc_of_ss r with
  | Some tc => Some (handle_tc s tc false)
  | None => None
  end.

(** [simulate_to_steady_state]: skipped entirely when an error was recorded before *)
Definition sim_to_steady (s : sim_state) (r : ss_out) : option sim_state :=
  match s_errors s with
  | _ :: _ => Some s
  | [] => handle_result s r
  end.

(** ** histories of one Simulator

    [OpSimulate r]: [simulate(t_end, steps)] or [simulate_time_course(points)] where the integrator's
    [integrate] / [integrate_time_course] returned [r] (both pass [skipfirst=True]);
    [OpSteady r]: [simulate_to_steady_state(tolerance, rel_norm=...)] where the loop returned [r].
    Every method starts with [if len(self._errors) > 0: return self]. *)
Inductive sim_op := OpSimulate (r : tc_res) | OpSteady (r : ss_out).

Definition sim_step (s : sim_state) (op : sim_op) : option sim_state :=
  match s_errors s with
  | _ :: _ => Some s
  | [] => match op with
          | OpSimulate r => Some (handle_tc s r true)
          | OpSteady r => handle_result s r
          end
  end.

Fixpoint sim_hist (s : sim_state) (ops : list sim_op) : option sim_state :=
  match ops with
  | [] => Some s
  | op :: ops' => match sim_step s op with Some s' => sim_hist s' ops' | None => None end
  end.

(** [get_result] *)
Definition get_result (s : sim_state) : sim_result :=
  match s_errors s with
  | e :: _ => RError e
  | [] => match s_variables s with None => RError EIntegrationFailure | Some l => RSimulation l end
  end.

(** [_steady_state_worker]: [res.default(lambda: Simulation.default(model, time_points=[0.0]))]
    then the scan takes the last row *)
Definition worker_row (r : sim_result) : scan_row :=
  match r with
  | RError _ => RowNaN
  | RSimulation l => match rev l with (_, v) :: _ => RowValues v | [] => RowNaN end
  end.

Definition steady_state_row (P : plumb_facts) (F : ss_facts) (rel : bool) (y0 : vec) (y : nat -> vec)
  : option scan_row :=
  if pf_sim_ok P && pf_worker_ok P
  then match sim_to_steady sim_fresh (ss_run F (pf_default_tol P) rel y0 y) with
       | Some s => Some (worker_row (get_result s))
       | None => None
       end
  else None.

(** ** helpers for the correspondence files *)

(** trajectories: an explicit list of samples, or the exact linear accumulation y0 + n*c *)
Inductive traj :=
| TrajList (samples : list vec)
| TrajScaled (den : list positive) (samples : list (list Z))  (* sample n, pool i = z_{n,i} / den_i *)
| TrajLin (y0 c : vec).

Fixpoint scaled (zs : list Z) (den : list positive) : vec :=
  match zs, den with
  | z :: zs', d :: den' => (z # d) :: scaled zs' den'
  | _, _ => []
  end.

Fixpoint vaxpy (n : Q) (c y0 : vec) : vec :=
  match c, y0 with
  | a :: c', b :: y0' => (b + n * a) :: vaxpy n c' y0'
  | _, _ => []
  end.

Definition traj_fun (tr : traj) : nat -> vec :=
  match tr with
  | TrajList l => fun n => nth n l []
  | TrajScaled den l => fun n => scaled (nth n l []) den
  | TrajLin y0 c => fun n => vaxpy (inject_Z (Z.of_nat n)) c y0
  end.

(** observation compared with the implementation: success + reported time, or failure *)
Inductive ss_obs := ObsSteady (t : Q) | ObsNoSteady | ObsOther | ObsIntegFail.

Definition obs_of (o : ss_out) : ss_obs :=
  match o with
  | SSSteady t _ => ObsSteady t | SSNoSteady => ObsNoSteady | SSIntegFail => ObsIntegFail
  | _ => ObsOther
  end.

Definition obs_eqb (a b : ss_obs) : bool :=
  match a, b with
  | ObsSteady t, ObsSteady u => Qeq_bool t u
  | ObsNoSteady, ObsNoSteady => true
  | ObsIntegFail, ObsIntegFail => true
  | _, _ => false
  end.

Definition row_kind_eqb (a : option scan_row) (nan : bool) : bool :=
  match a with
  | Some RowNaN => nan
  | Some (RowValues _) => negb nan
  | None => false
  end.

(** recorded runs: the buffers the real solver returned and its success flags *)
Definition ok_fun (l : list bool) : nat -> bool := fun n => nth n l true.

(** exact comparison of [get_result] after a history with the implementation's *)
Fixpoint vec_eqb (a b : vec) : bool :=
  match a, b with
  | [], [] => true
  | x :: a', z :: b' => Qeq_bool x z && vec_eqb a' b'
  | _, _ => false
  end.
Fixpoint rows_eqb (a b : list (Q * vec)) : bool :=
  match a, b with
  | [], [] => true
  | (t, v) :: a', (u, w) :: b' => Qeq_bool t u && vec_eqb v w && rows_eqb a' b'
  | _, _ => false
  end.
Definition err_eqb (a b : sim_error) : bool :=
  match a, b with
  | ENoSteadyState, ENoSteadyState | EIntegrationFailure, EIntegrationFailure | EOther, EOther => true
  | _, _ => false
  end.
Definition hist_result (P : plumb_facts) (ops : list sim_op) : option sim_result :=
  if pf_sim_ok P
  then match sim_hist sim_fresh ops with Some s => Some (get_result s) | None => None end
  else None.
Definition result_eqb (a : option sim_result) (b : sim_result) : bool :=
  match a, b with
  | Some (RSimulation l), RSimulation m => rows_eqb l m
  | Some (RError e), RError f => err_eqb e f
  | _, _ => false
  end.
