(** Proofs about the extended histories of SteadyHist2.v (exact arithmetic, no axioms). *)
From Coq Require Import QArith ZArith NArith List Bool Lia Arith Permutation.
Import ListNotations.
From Steady Require Import SteadyLoop SteadyHist2.

(** *** small facts *)

Lemma last_opt_app {A} (l : list A) x : last_opt (l ++ [x]) = Some x.
Proof. unfold last_opt. rewrite rev_app_distr. reflexivity. Qed.

Lemma shift_rows_none rows : shift_rows None rows = rows.
Proof.
  unfold shift_rows. induction rows as [|[t v] rows IH]; [reflexivity|].
  cbn [map fst snd shift_time]. f_equal. exact IH.
Qed.

Lemma concat_snoc {A} (fs : list (list A)) f : concat (fs ++ [f]) = concat fs ++ f.
Proof. rewrite concat_app. cbn [concat]. rewrite app_nil_r. reflexivity. Qed.

Lemma hist2_app k : forall a b s, hist2 k s (a ++ b) = match hist2 k s a with Some s' => hist2 k s' b | None => None end.
Proof.
  induction a as [|op a IH]; intros b s; [reflexivity|].
  cbn [app hist2]. destruct (step2 k s op) as [s'|]; [apply IH | reflexivity].
Qed.

(** *** (1) the model of SteadyLoop.v is this model without the new operations *)

Definition same_state (s : sim_state) (s2 : sim2) : Prop :=
  s_variables s = option_map (@concat row) (s2_frames s2) /\ s_errors s = s2_errors s2 /\ s2_shift s2 = None.

Lemma handle_embed s s2 r sk : same_state s s2 ->
  exists s2', handle2 HkSkipfirst s2 r sk = Some s2' /\ same_state (handle_tc s r sk) s2'.
Proof.
  intros [Hv [He Hs]]. destruct r as [rows|e]; cbn [handle2 handle_tc].
  - rewrite Hs, shift_rows_none. destruct (s2_frames s2) as [fs|] eqn:Ef.
    + eexists. split; [reflexivity|]. unfold same_state. cbn [s_variables s_errors s2_frames s2_errors s2_shift option_map].
      rewrite Hv. cbn [option_map]. rewrite concat_snoc. repeat split; assumption.
    + eexists. split; [reflexivity|]. unfold same_state. cbn [s_variables s_errors s2_frames s2_errors s2_shift option_map].
      rewrite Hv. cbn [option_map concat]. rewrite app_nil_r. repeat split; assumption.
  - eexists. split; [reflexivity|]. unfold same_state. cbn [s_variables s_errors s2_frames s2_errors s2_shift].
    rewrite He. repeat split; assumption.
Qed.

Lemma step_embed s s2 op : same_state s s2 ->
  match sim_step s op with
  | Some s' => exists s2', step2 HkSkipfirst s2 (embed op) = Some s2' /\ same_state s' s2'
  | None => step2 HkSkipfirst s2 (embed op) = None
  end.
Proof.
  intro H. pose proof H as [Hv [He Hs]]. unfold sim_step. destruct op as [r|r]; cbn [embed step2]; rewrite <- He.
  - destruct (s_errors s) as [|e es]; [apply (handle_embed s s2 r true H)|].
    exists s2. split; [reflexivity | exact H].
  - destruct (s_errors s) as [|e es]; [|exists s2; split; [reflexivity | exact H]].
    unfold handle_result. destruct (tc_of_ss r) as [tc|]; [apply (handle_embed s s2 tc false H) | reflexivity].
Qed.

Lemma hist_embed : forall ops s s2, same_state s s2 ->
  match sim_hist s ops with
  | Some s' => exists s2', hist2 HkSkipfirst s2 (map embed ops) = Some s2' /\ same_state s' s2'
  | None => hist2 HkSkipfirst s2 (map embed ops) = None
  end.
Proof.
  induction ops as [|op ops IH]; intros s s2 H; cbn [sim_hist map hist2].
  - exists s2. split; [reflexivity | exact H].
  - pose proof (step_embed s s2 op H) as Hstep. destruct (sim_step s op) as [s'|].
    + destruct Hstep as [s2' [E H']]. rewrite E. apply (IH s' s2' H').
    + rewrite Hstep. reflexivity.
Qed.

Lemma get_result_embed s s2 : same_state s s2 -> get_result s = get_result2 s2.
Proof.
  intros [Hv [He _]]. unfold get_result, get_result2. rewrite He, Hv.
  destruct (s2_errors s2); [|reflexivity]. destruct (s2_frames s2); reflexivity.
Qed.

Lemma fresh_same : same_state sim_fresh sim2_fresh.
Proof. repeat split. Qed.

(** get_result after a history of the old operations is the same in both models *)
Lemma hist2_extends ops :
  hist2_result HkSkipfirst (map embed ops)
  = match sim_hist sim_fresh ops with Some s => Some (get_result s) | None => None end.
Proof.
  unfold hist2_result. pose proof (hist_embed ops sim_fresh sim2_fresh fresh_same) as H.
  destruct (sim_hist sim_fresh ops) as [s|].
  - destruct H as [s2 [E Hs]]. rewrite E, (get_result_embed s s2 Hs). reflexivity.
  - rewrite H. reflexivity.
Qed.

(** *** (2) errors stick until clear_results *)

Lemma step2_keeps_errors k s op s' e es : s2_errors s = e :: es -> is_clear op = false ->
  step2 k s op = Some s' -> s2_errors s' = e :: es.
Proof.
  intros He Hc E. destruct op as [r|r| | |]; cbn [step2 is_clear] in *; try discriminate.
  - rewrite He in E. injection E as <-. exact He.
  - rewrite He in E. injection E as <-. exact He.
  - injection E as <-. exact He.
  - destruct (s2_frames s) as [fs|]; [|injection E as <-; exact He].
    destruct (last_time fs); [|discriminate]. injection E as <-. exact He.
Qed.

Lemma hist2_keeps_errors k : forall ops s s' e es, s2_errors s = e :: es ->
  Forall (fun op => is_clear op = false) ops -> hist2 k s ops = Some s' -> s2_errors s' = e :: es.
Proof.
  induction ops as [|op ops IH]; intros s s' e es He Hc E; cbn [hist2] in E.
  - injection E as <-. exact He.
  - inversion Hc as [|? ? Hop Hrest]; subst. destruct (step2 k s op) as [s1|] eqn:E1; [|discriminate].
    apply (IH s1 s' e es (step2_keeps_errors k s op s1 e es He Hop E1) Hrest E).
Qed.

(** a search that FAILS, run when no error is recorded, decides the result -- whatever parameter or
    variable updates, time shifts and further runs surround it (until clear_results) *)
Lemma failed_search2 k pre post r e s0 res :
  hist2 k sim2_fresh pre = Some s0 -> s2_errors s0 = [] -> ss_failure r = Some e ->
  Forall (fun op => is_clear op = false) post ->
  hist2_result k (pre ++ O2Steady r :: post) = Some res -> res = RError e.
Proof.
  intros Epre He Hf Hpost. unfold hist2_result. rewrite hist2_app, Epre. cbn [hist2 step2]. rewrite He.
  assert (Hstep : match tc_of_ss r with Some tc => handle2 k s0 tc false | None => None end
                  = Some (mkSim2 (s2_frames s0) [e] (s2_shift s0))).
  { destruct r; cbn [ss_failure] in Hf; try discriminate; injection Hf as <-;
      cbn [tc_of_ss handle2]; rewrite He; reflexivity. }
  rewrite Hstep. destruct (hist2 k _ post) as [s'|] eqn:E; [|discriminate].
  intro H. injection H as <-.
  pose proof (hist2_keeps_errors k post (mkSim2 (s2_frames s0) [e] (s2_shift s0)) s' e [] eq_refl Hpost E) as He'.
  unfold get_result2. rewrite He'. reflexivity.
Qed.

(** *** (3) a success that ends with a search shows that search's state, at its (shifted) time, last *)

Lemma success_is_search2 pre r s0 rows :
  hist2 HkSkipfirst sim2_fresh pre = Some s0 ->
  hist2_result HkSkipfirst (pre ++ [O2Steady r]) = Some (RSimulation rows) ->
  s2_errors s0 = []
  /\ exists t v rows', r = SSSteady t v /\ rows = rows' ++ [(shift_time (s2_shift s0) t, v)].
Proof.
  intros Epre. unfold hist2_result. rewrite hist2_app, Epre. cbn [hist2 step2].
  destruct (s2_errors s0) as [|e0 es] eqn:He.
  - destruct r as [t v| | | |]; cbn [tc_of_ss]; try discriminate.
    + cbn [handle2 shift_rows map fst snd]. destruct (s2_frames s0) as [fs|] eqn:Ef.
      * cbn [get_result2 s2_errors s2_frames]. rewrite He. intro H. injection H as <-.
        split; [reflexivity|]. exists t, v, (concat fs). split; [reflexivity|]. apply concat_snoc.
      * cbn [get_result2 s2_errors s2_frames]. rewrite He. intro H. injection H as <-.
        split; [reflexivity|]. exists t, v, []. split; reflexivity.
    + cbn [handle2]. unfold get_result2. cbn [s2_errors]. rewrite He. discriminate.
    + cbn [handle2]. unfold get_result2. cbn [s2_errors]. rewrite He. discriminate.
  - unfold get_result2. rewrite He. discriminate.
Qed.

(** *** (4) seeded change C15-7: "keep only rows later than the last stored time" *)

(** a search whose (shifted) convergence time is not later than what is stored leaves NO trace:
    no row, no error -- get_result is the success it was before *)
Lemma later_only_drops_search pre s0 fs tp t v :
  hist2 HkLaterOnly sim2_fresh pre = Some s0 -> s2_errors s0 = [] ->
  s2_frames s0 = Some fs -> last_time fs = Some tp ->
  (shift_time (s2_shift s0) t <= tp)%Q ->
  hist2 HkLaterOnly sim2_fresh (pre ++ [O2Steady (SSSteady t v)]) = Some s0.
Proof.
  intros Epre He Ef Et Hle. rewrite hist2_app, Epre. cbn [hist2 step2 tc_of_ss]. rewrite He.
  cbn [handle2 shift_rows map fst snd]. rewrite Ef, Et. cbn [filter later fst].
  apply Qle_bool_iff in Hle. unfold later. cbn [fst]. rewrite Hle. reflexivity.
Qed.

Lemma filter_all {A} (p : A -> bool) l : Forall (fun x => p x = true) l -> filter p l = l.
Proof.
  induction 1 as [|x l Hx _ IH]; [reflexivity|]. cbn [filter]. rewrite Hx, IH. reflexivity.
Qed.

(** on a CONTINUED run (first row at the last stored time, the others strictly later) the seeded
    handler does what the tree does with skipfirst=True *)
Lemma later_only_agrees_on_continuation s fs tp rows t0 v0 rest :
  s2_frames s = Some fs -> last_time fs = Some tp ->
  shift_rows (s2_shift s) rows = (t0, v0) :: rest -> (t0 == tp)%Q ->
  rest <> [] -> Forall (fun r => (tp < fst r)%Q) rest ->
  handle2 HkLaterOnly s (TCRows rows) true = handle2 HkSkipfirst s (TCRows rows) true.
Proof.
  intros Ef Et Er Heq Hne Hlater. cbn [handle2]. rewrite Ef, Et, Er. cbn [filter later fst tl].
  assert (H0 : Qle_bool t0 tp = true) by (apply Qle_bool_iff; rewrite Heq; apply Qle_refl).
  unfold later at 1. cbn [fst]. rewrite H0. cbn [negb].
  assert (Hf : filter (later tp) rest = rest).
  { apply filter_all. revert Hlater. apply Forall_impl. intros r Hr. unfold later.
    destruct (Qle_bool (fst r) tp) eqn:E; [|reflexivity].
    apply Qle_bool_iff in E. exfalso. apply (Qlt_not_le _ _ Hr E). }
  rewrite Hf. destruct rest; [contradiction | reflexivity].
Qed.

(** the demo of the seeded change: slow parameters (converges at t = 1100), update_parameter, fast
    parameters (converges at t = 600) *)
Definition c157_ops : list op2 :=
  [O2Steady (SSSteady 1100 [50; 20]); O2UpdateParameters; O2Steady (SSSteady 600 [2; 20])].
Definition c157_sim_ops : list op2 :=
  [O2Simulate (TCRows [(0, [0; 0]); (2500, [50; 20]); (5000, [50; 20])]); O2UpdateParameters; O2Steady (SSSteady 500 [10; 20])].

Lemma c157_witness :
  hist2_result HkSkipfirst c157_ops = Some (RSimulation [(1100, [50; 20]); (600, [2; 20])])
  /\ hist2_result HkLaterOnly c157_ops = Some (RSimulation [(1100, [50; 20])])
  /\ hist2_result HkSkipfirst c157_sim_ops
     = Some (RSimulation [(0, [0; 0]); (2500, [50; 20]); (5000, [50; 20]); (500, [10; 20])])
  /\ hist2_result HkLaterOnly c157_sim_ops = Some (RSimulation [(0, [0; 0]); (2500, [50; 20]); (5000, [50; 20])]).
Proof. repeat split; vm_compute; reflexivity. Qed.

(** *** (5) names *)

Lemma lookupN_combine_nth : forall (names : list N) (v : vec) i,
  NoDup names -> length names = length v -> (i < length names)%nat ->
  lookupN (nth i names 0%N) (combine names v) = Some (nth i v 0%Q).
Proof.
  induction names as [|k names IH]; intros v i Hnd Hlen Hi; [cbn in Hi; lia|].
  destruct v as [|x v]; [discriminate|]. inversion Hnd as [|? ? Hnotin Hnd']; subst.
  cbn [combine lookupN]. destruct i as [|i].
  - cbn [nth]. rewrite N.eqb_refl. reflexivity.
  - cbn [nth]. cbn [length] in Hlen, Hi.
    destruct (N.eqb (nth i names 0%N) k) eqn:E.
    + apply N.eqb_eq in E. exfalso. apply Hnotin. rewrite <- E. apply nth_In. lia.
    + apply IH; [exact Hnd' | lia | lia].
Qed.

Lemma lookupN_notin k d : ~ In k (map fst d) -> lookupN k d = None.
Proof.
  induction d as [|[k' v] d IH]; intro H; [reflexivity|]. cbn [lookupN map fst In] in *.
  destruct (N.eqb k k') eqn:E; [apply N.eqb_eq in E; exfalso; apply H; left; symmetry; exact E|].
  apply IH. intro Hin. apply H. right. exact Hin.
Qed.

(** a dictionary is a mapping: the order in which its keys were written does not matter *)
Lemma lookupN_perm k : forall a b, Permutation a b -> NoDup (map fst a) -> lookupN k a = lookupN k b.
Proof.
  induction 1 as [|[k1 v1] a b Hp IH|[k1 v1] [k2 v2] a|a b c Hab IHab Hbc IHbc]; intro Hnd.
  - reflexivity.
  - cbn [lookupN]. cbn [map fst] in Hnd. inversion Hnd; subst. rewrite IH by assumption. reflexivity.
  - cbn [lookupN]. cbn [map fst] in Hnd. inversion Hnd as [|? ? Hnotin _]; subst.
    destruct (N.eqb k k2) eqn:E2; destruct (N.eqb k k1) eqn:E1; try reflexivity.
    apply N.eqb_eq in E1, E2. subst. exfalso. apply Hnotin. left. reflexivity.
  - rewrite IHab by assumption. apply IHbc.
    apply (Permutation_NoDup (Permutation_map fst Hab) Hnd).
Qed.

Lemma init_state_perm names a b : Permutation a b -> NoDup (map fst a) -> init_state names a = init_state names b.
Proof.
  intros Hp Hnd. induction names as [|k names IH]; [reflexivity|].
  cbn [init_state]. rewrite (lookupN_perm k a b Hp Hnd), IH. reflexivity.
Qed.

Lemma label_rows_app ls : forall a b x, label_rows ls (a ++ b) = Some x ->
  exists xa xb, label_rows ls a = Some xa /\ label_rows ls b = Some xb /\ x = xa ++ xb.
Proof.
  induction a as [|r a IH]; intros b x H.
  - exists [], x. repeat split. exact H.
  - cbn [app label_rows] in *. destruct (label_row ls r) as [y|]; [|discriminate].
    destruct (label_rows ls (a ++ b)) as [ys|] eqn:E; [|discriminate]. injection H as <-.
    destruct (IH b ys E) as [xa [xb [Ha [Hb Hx]]]]. rewrite Ha. exists (y :: xa), xb.
    repeat split; [exact Hb | rewrite Hx; reflexivity].
Qed.

(** every labelled row is the integrator's row read by NAME *)
Definition row_by_name (names : list N) (nr : named_row) (r : row) : Prop :=
  fst nr = fst r /\ length (snd r) = length names
  /\ forall i, (i < length names)%nat -> lookupN (nth i names 0%N) (snd nr) = Some (nth i (snd r) 0%Q).

Lemma label_row_by_name names r nr : NoDup names -> label_row names r = Some nr -> row_by_name names nr r.
Proof.
  intros Hnd H. unfold label_row in H. destruct (Nat.eqb (length names) (length (snd r))) eqn:E; [|discriminate].
  apply Nat.eqb_eq in E. injection H as <-. unfold row_by_name. cbn [fst snd].
  split; [reflexivity|]. split; [symmetry; exact E|].
  intros i Hi. apply lookupN_combine_nth; assumption.
Qed.

Lemma label_rows_by_name names : NoDup names -> forall rows x, label_rows names rows = Some x ->
  Forall2 (row_by_name names) x rows.
Proof.
  intro Hnd. induction rows as [|r rows IH]; intros x H; cbn [label_rows] in H.
  - injection H as <-. constructor.
  - destruct (label_row names r) as [y|] eqn:Ey; [|discriminate].
    destruct (label_rows names rows) as [ys|]; [|discriminate]. injection H as <-.
    constructor; [apply (label_row_by_name names r y Hnd Ey) | apply IH; reflexivity].
Qed.

(** seeded change C15-9: columns labelled with the keys of the caller's y0, written (C, B, A); the
    integrator state is ordered (A, B, C).  The correct steady state (5, 10, 15/2) is reported as
    A = 15/2, C = 5. *)
Definition c159_names : list N := [0%N; 1%N; 2%N].
Definition c159_keys : list N := [2%N; 1%N; 0%N].
Definition c159_ops : list op2 := [O2Steady (SSSteady 500 [5; 10; 15 # 2])].

Lemma c159_witness :
  hist2_named (mkHistFacts HkSkipfirst LabModelNames true) c159_names c159_keys c159_ops
  = Some (NSimulation [(500, [(0%N, 5); (1%N, 10); (2%N, 15 # 2)])])
  /\ hist2_named (mkHistFacts HkSkipfirst LabY0Keys true) c159_names c159_keys c159_ops
     = Some (NSimulation [(500, [(2%N, 5); (1%N, 10); (0%N, 15 # 2)])])
  /\ init_state c159_names [(2%N, 1 # 2); (1%N, 40); (0%N, 0)] = Some [0; 40; 1 # 2]
  /\ init_state c159_names [(0%N, 0); (1%N, 40); (2%N, 1 # 2)] = Some [0; 40; 1 # 2].
Proof. repeat split; vm_compute; reflexivity. Qed.

(** *** non-vacuity: a history with every kind of operation *)
Definition demo_hist2 : list op2 :=
  [O2Simulate (TCRows [(0, [1; 4]); (8, [2; 5])]); O2UpdateVariables; O2UpdateParameters;
   O2Steady (SSSteady 300 [3; 6]); O2Clear; O2Steady (SSSteady 200 [7; 8]); O2UpdateVariables;
   O2Simulate (TCRows [(0, [7; 9]); (16, [7; 10])]); O2Steady (SSSteady 100 [11; 12])].

Lemma demo_hist2_result :
  hist2_named (mkHistFacts HkSkipfirst LabModelNames true) [0%N; 1%N] [1%N; 0%N] demo_hist2
  = Some (NSimulation [(200, [(0%N, 7); (1%N, 8)]); (16 + 200, [(0%N, 7); (1%N, 10)]); (100 + 200, [(0%N, 11); (1%N, 12)])])
  /\ hist2_named (mkHistFacts HkSkipfirst LabModelNames true) [0%N; 1%N] [1%N; 0%N]
       [O2Steady (SSSteady 300 [3; 6]); O2UpdateParameters; O2Steady SSNoSteady; O2UpdateVariables; O2Steady (SSSteady 100 [1; 1])]
     = Some (NError ENoSteadyState).
Proof. split; vm_compute; reflexivity. Qed.
