(** C15 -- the steady-state loop over IEEE VALUES: finite numbers, +-inf and NaN.

    [SteadyLoop.ss_loop] runs over buffers of rationals.  The buffers the real solver returns are
    binary64 arrays and can hold inf and NaN (a rate law that left its domain -- sqrt of a negative
    number -- poisons the state with NaN while LSODA keeps reporting success), and the relative
    change [(y2 - y1) / y1] of a pool that stays exactly 0 is 0/0 = NaN.  A NaN norm is neither
    below nor not below the tolerance: EVERY comparison with it is False.  So it matters how the
    loop asks:

        if norm < tolerance: return success            (NaN: go on; the tree, sf_cmp = CmpLt)
        if norm >= tolerance: ...; continue            (NaN: falls through ...)
        return success                                 (... to SUCCESS; sf_cmp = CmpNotGe)

    This file is the same loop, statement by statement, over [xq] values, with a comparison that
    has FOUR outcomes (below / equal / above / undefined).  No proofs here.  On finite buffers it
    is [ss_loop] (SteadyNanProofs.xs_run_finite).  Exact rational arithmetic on the finite part;
    overflow of a finite intermediate to inf is not modelled (see design/C15.md, Limits). *)
From Coq Require Import QArith Qabs ZArith NArith List Bool.
Import ListNotations.
From Steady Require Import SteadyLoop.

(** a binary64 value: finite (exact rational), [XInf neg] = -inf if [neg] else +inf, NaN.
    The sign of zero is not represented: it only decides the sign of x/0, and the only consumer of a
    quotient squares it. *)
Inductive xq := XFin (q : Q) | XInf (neg : bool) | XNaN.
Definition xvec := list xq.

Definition qneg (q : Q) : bool := Qltb q 0.

(** [b - a] *)
Definition xsub (b a : xq) : xq :=
  match b, a with
  | XNaN, _ | _, XNaN => XNaN
  | XFin x, XFin z => XFin (x - z)
  | XInf s, XFin _ => XInf s
  | XFin _, XInf s => XInf (negb s)
  | XInf s, XInf s' => if Bool.eqb s s' then XNaN else XInf s     (* inf - inf = nan *)
  end.

(** [x / d] : 0/0 and inf/inf are NaN, x/0 is +-inf, x/inf is 0 *)
Definition xdiv (x d : xq) : xq :=
  match x, d with
  | XNaN, _ | _, XNaN => XNaN
  | XInf _, XInf _ => XNaN
  | XFin _, XInf _ => XFin 0
  | XInf s, XFin z => XInf (xorb s (qneg z))
  | XFin q, XFin z =>
      if Qeq_bool z 0 then (if Qeq_bool q 0 then XNaN else XInf (qneg q)) else XFin (q / z)
  end.

(** [x * x] *)
Definition xsq (x : xq) : xq :=
  match x with XFin q => XFin (q * q) | XInf _ => XInf false | XNaN => XNaN end.

(** [a + b] *)
Definition xadd (a b : xq) : xq :=
  match a, b with
  | XNaN, _ | _, XNaN => XNaN
  | XFin x, XFin z => XFin (x + z)
  | XInf s, XFin _ => XInf s
  | XFin _, XInf s => XInf s
  | XInf s, XInf s' => if Bool.eqb s s' then XInf s else XNaN
  end.

(** [diff = (y2 - y1) / y1 if rel_norm else y2 - y1]; [None] = numpy shape error *)
Fixpoint xdiff (rel : bool) (y1 y2 : xvec) : option xvec :=
  match y1, y2 with
  | [], [] => Some []
  | a :: y1', b :: y2' =>
      match xdiff rel y1' y2' with
      | Some d => Some ((if rel then xdiv (xsub b a) a else xsub b a) :: d)
      | None => None
      end
  | _, _ => None
  end.

(** the square of [np.linalg.norm(d, ord=2)] *)
Definition xsumsq (d : xvec) : xq := fold_right (fun x acc => xadd (xsq x) acc) (XFin 0) d.

(** the norm against the tolerance: [NLt] norm < tol, [NEq] norm == tol, [NGt] norm > tol,
    [NUndef] the norm is NaN (then [<], [<=], [>], [>=], [==] are ALL False).
    [s] is the square of the norm (never -inf); sqrt s ? tol is decided without the root. *)
Inductive ncmp := NLt | NEq | NGt | NUndef.
Definition norm_cmp (s : xq) (tol : Q) : ncmp :=
  match s with
  | XNaN => NUndef
  | XInf _ => NGt
  | XFin s => if Qltb tol 0 then NGt
              else match (s ?= tol * tol)%Q with Lt => NLt | Eq => NEq | Gt => NGt end
  end.

(** the comparison of one iteration: previous iterate [y1], new iterate [y2]; [None] = shape error *)
Definition xstep_cmp (tol : Q) (rel : bool) (y1 y2 : xvec) : option ncmp :=
  match xdiff rel y1 y2 with
  | Some d => Some (norm_cmp (xsumsq d) tol)
  | None => None
  end.

(** is the success return reached, given the outcome of the comparison and the form of the test *)
Definition reaches_success (F : ss_facts) (c : ncmp) : bool :=
  match sf_norm F with
  | NormL2 =>
      match sf_cmp F, c with
      | CmpLt, NLt => true                                   (* if norm < tol: return ok *)
      | CmpLe, (NLt | NEq) => true                           (* if norm <= tol: return ok *)
      | CmpNotGe, (NLt | NUndef) => true                     (* if norm >= tol: continue / return ok *)
      | CmpNotGt, (NLt | NEq | NUndef) => true               (* if norm > tol: continue / return ok *)
      | _, _ => false
      end
  | NormUnknown => false
  end.

Definition xconv_test (F : ss_facts) (tol : Q) (rel : bool) (y1 y2 : xvec) : test_res :=
  match xstep_cmp tol rel y1 y2 with
  | None => TShape
  | Some c => if reaches_success F c then TConv else TNot
  end.

(** ** the loop (the statements of [SteadyLoop.ss_loop], over [xvec]) *)

Inductive xprev_ref := XHeld (v : xvec) | XBuffer.

Inductive xs_out :=
| XSteady (t : Q) (v : xvec)
| XNoSteady
| XShape
| XUnknownFacts
| XIntegFail.

Section XLoop.
  Variable F : ss_facts.
  Variable tol : Q.
  Variable rel : bool.
  Variable y : nat -> xvec.       (* [y (S i)] = buffer returned by integ.integrate(t) in iteration i *)
  Variable ok : nat -> bool.      (* [ok (S i)] = integ.successful() after that call *)

  Fixpoint xs_loop (fuel : nat) (i : nat) (t : Q) (y1 : xprev_ref) : xs_out :=
    match fuel with
    | O => match sf_exhaust F with ExhaustFail => XNoSteady | ExhaustUnknown => XUnknownFacts end
    | S fuel' =>
        let buffer := y (S i) in
        let y2 := buffer in
        let y1v := match y1 with XHeld v => v | XBuffer => buffer end in
        if step_aborts F ok i then XIntegFail else
        match xconv_test F tol rel y1v y2 with
        | TShape => XShape
        | TConv => XSteady t y2
        | TNot =>
            let y1' := match sf_prev F with PrevAlias => XBuffer | _ => XHeld y2 end in
            xs_loop fuel' (S i) (t + inject_Z (sf_step F)) y1'
        end
    end.
End XLoop.

Definition xs_run (F : ss_facts) (tol : Q) (rel : bool) (y0 : xvec) (y : nat -> xvec) (ok : nat -> bool) : xs_out :=
  if facts_known F
  then xs_loop F tol rel y ok (N.to_nat (sf_max_steps F)) 0 (0 + inject_Z (sf_step F)) (XHeld y0)
  else XUnknownFacts.

(** embedding of the finite buffers and outcomes of SteadyLoop.v *)
Definition fin (v : vec) : xvec := map XFin v.
Definition xs_of (o : ss_out) : xs_out :=
  match o with
  | SSSteady t v => XSteady t (fin v)
  | SSNoSteady => XNoSteady
  | SSShape => XShape
  | SSUnknownFacts => XUnknownFacts
  | SSIntegFail => XIntegFail
  end.

(** ** helpers for the correspondence files *)
Definition xtraj_fun (l : list xvec) : nat -> xvec := fun n => nth n l [].
Definition xobs_of (o : xs_out) : ss_obs :=
  match o with
  | XSteady t _ => ObsSteady t | XNoSteady => ObsNoSteady | XIntegFail => ObsIntegFail
  | _ => ObsOther
  end.
