(** Proofs about (1) the loop when integration steps can fail and (2) histories of one Simulator
    (exact arithmetic, no axioms). *)
From Coq Require Import QArith Qabs ZArith NArith List Bool Lia Lqa Arith.
Import ListNotations.
From Steady Require Import SteadyLoop SteadyLoopProofs.

Local Open Scope Q_scope.

(** *** (1) integrator failures *)

Definition CheckedFacts (F : ss_facts) : Prop := CopyFacts F /\ sf_succ F = SuccChecked.
Definition UncheckedFacts (F : ss_facts) : Prop := CopyFacts F /\ sf_succ F = SuccUnchecked.

Lemma step_aborts_checked F ok n : sf_succ F = SuccChecked -> step_aborts F ok n = negb (ok (S n)).
Proof. intro H. unfold step_aborts. rewrite H. reflexivity. Qed.
Lemma step_aborts_unchecked F ok n : sf_succ F = SuccUnchecked -> step_aborts F ok n = false.
Proof. intro H. unfold step_aborts. rewrite H. reflexivity. Qed.

(** the snapshot loop never looks at the success flag *)
Lemma unchecked_ignores_ok F tol rel y0 y ok :
  sf_succ F = SuccUnchecked -> ss_run_s F tol rel y0 y ok = ss_run F tol rel y0 y.
Proof.
  intro H. unfold ss_run, ss_run_s. destruct (facts_known F); [|reflexivity].
  apply ss_loop_ext. intro n. rewrite step_aborts_all_ok. apply step_aborts_unchecked. exact H.
Qed.

(** when every step succeeds the test of the flag changes nothing *)
Lemma all_ok_run F tol rel y0 y ok :
  (forall n, ok n = true) -> ss_run_s F tol rel y0 y ok = ss_run F tol rel y0 y.
Proof.
  intro H. unfold ss_run, ss_run_s. destruct (facts_known F); [|reflexivity].
  apply ss_loop_ext. intro n. unfold step_aborts, all_ok. rewrite (H (S n)). reflexivity.
Qed.

Section Checked.
  Variable F : ss_facts.
  Hypothesis HF : CheckedFacts F.
  Variable tol : Q.
  Variable rel : bool.
  Variable y : nat -> vec.
  Variable ok : nat -> bool.
  Hypothesis Hshape : forall n, length (y n) = length (y 0%nat).

  Let c (n : nat) : bool := conv F tol rel (y n) (y (S n)).
  Let N := N.to_nat (sf_max_steps F).

  Lemma negb_false_true b : negb b = false -> b = true.
  Proof. destruct b; [reflexivity | discriminate]. Qed.

  (** success: least converging step, and EVERY integration step up to it succeeded *)
  Lemma checked_steady_sound t v :
    ss_run_s F tol rel (y 0%nat) y ok = SSSteady t v ->
    exists n, (n < N)%nat /\ c n = true /\ (forall m, (m <= n)%nat -> ok (S m) = true)
              /\ (forall m, (m < n)%nat -> c m = false) /\ t == time_of F n /\ v = y (S n).
  Proof.
    destruct HF as [HC HS]. intro E. pose proof (run_s_cases F HC tol rel y ok Hshape) as H.
    rewrite E in H. destruct H as [n [Hn [Hbn [Hcn [Hl [Ht Hv]]]]]].
    exists n. split; [exact Hn|]. split; [exact Hcn|]. split; [|split; [|split; [exact Ht | exact Hv]]].
    - intros m Hm. destruct (Nat.eq_dec m n) as [->|Hne].
      + rewrite (step_aborts_checked F ok n HS) in Hbn. apply negb_false_true. exact Hbn.
      + destruct (Hl m ltac:(lia)) as [Hb _]. rewrite (step_aborts_checked F ok m HS) in Hb.
        apply negb_false_true. exact Hb.
    - intros m Hm. apply (Hl m Hm).
  Qed.

  (** an integration step that fails before any convergence is reported as failure, and only then *)
  Lemma checked_fail_iff :
    ss_run_s F tol rel (y 0%nat) y ok = SSIntegFail
    <-> exists n, (n < N)%nat /\ ok (S n) = false /\ (forall m, (m < n)%nat -> ok (S m) = true /\ c m = false).
  Proof.
    destruct HF as [HC HS]. split.
    - intro E. pose proof (run_s_cases F HC tol rel y ok Hshape) as H. rewrite E in H.
      destruct H as [n [Hn [Hbn Hl]]]. exists n. split; [exact Hn|]. split.
      + rewrite (step_aborts_checked F ok n HS) in Hbn. destruct (ok (S n)); [discriminate | reflexivity].
      + intros m Hm. destruct (Hl m Hm) as [Hb Hc]. split; [|exact Hc].
        rewrite (step_aborts_checked F ok m HS) in Hb. apply negb_false_true. exact Hb.
    - intros [n [Hn [Hon Hl]]]. apply (run_s_fail_complete F HC tol rel y ok Hshape n Hn).
      + rewrite (step_aborts_checked F ok n HS), Hon. reflexivity.
      + intros m Hm. destruct (Hl m Hm) as [Ho Hc]. split; [|exact Hc].
        rewrite (step_aborts_checked F ok m HS), Ho. reflexivity.
  Qed.

  Lemma checked_nosteady_iff :
    ss_run_s F tol rel (y 0%nat) y ok = SSNoSteady
    <-> forall m, (m < N)%nat -> ok (S m) = true /\ c m = false.
  Proof.
    destruct HF as [HC HS]. split.
    - intros E m Hm. pose proof (run_s_cases F HC tol rel y ok Hshape) as H. rewrite E in H.
      destruct (H m Hm) as [Hb Hc]. split; [|exact Hc].
      rewrite (step_aborts_checked F ok m HS) in Hb. apply negb_false_true. exact Hb.
    - intro Hall. apply (run_s_nosteady_complete F HC tol rel y ok Hshape).
      intros m Hm. destruct (Hall m Hm) as [Ho Hc]. split; [|exact Hc].
      rewrite (step_aborts_checked F ok m HS), Ho. reflexivity.
  Qed.

  Lemma checked_total :
    ss_run_s F tol rel (y 0%nat) y ok <> SSShape /\ ss_run_s F tol rel (y 0%nat) y ok <> SSUnknownFacts.
  Proof.
    destruct HF as [HC HS]. pose proof (run_s_cases F HC tol rel y ok Hshape) as H.
    destruct (ss_run_s F tol rel (y 0%nat) y ok); split; try discriminate; try contradiction.
  Qed.
End Checked.

(** the whole specification of the repaired loop in one statement *)
Lemma checked_spec F (HF : CheckedFacts F) tol rel (y : nat -> vec) (ok : nat -> bool) :
  (forall n, length (y n) = length (y 0%nat)) ->
  let c n := conv F tol rel (y n) (y (S n)) in
  let N := N.to_nat (sf_max_steps F) in
  (forall t v, ss_run_s F tol rel (y 0%nat) y ok = SSSteady t v ->
     exists n, (n < N)%nat /\ c n = true /\ (forall m, (m <= n)%nat -> ok (S m) = true)
               /\ (forall m, (m < n)%nat -> c m = false) /\ t == time_of F n /\ v = y (S n))
  /\ (ss_run_s F tol rel (y 0%nat) y ok = SSIntegFail
      <-> exists n, (n < N)%nat /\ ok (S n) = false /\ (forall m, (m < n)%nat -> ok (S m) = true /\ c m = false))
  /\ (ss_run_s F tol rel (y 0%nat) y ok = SSNoSteady
      <-> forall m, (m < N)%nat -> ok (S m) = true /\ c m = false)
  /\ ss_run_s F tol rel (y 0%nat) y ok <> SSShape
  /\ ss_run_s F tol rel (y 0%nat) y ok <> SSUnknownFacts.
Proof.
  intros Hs c N. split; [|split; [|split]].
  - intros t v. apply checked_steady_sound; assumption.
  - apply checked_fail_iff; assumption.
  - apply checked_nosteady_iff; assumption.
  - apply (checked_total F HF tol rel y ok Hs).
Qed.

(** the snapshot loop on a solver that got stuck: after a failed step the solver keeps returning
    the state where it stopped, the change between two such buffers is 0, and the stuck state is
    reported as steady (absolute norm; any positive tolerance) *)
Lemma conv_abs_same F (HL : L2Lt F) tol a : 0 < tol -> conv F tol false a a = true.
Proof.
  intro Ht. apply (conv_abs_iff F HL tol a a eq_refl). split; [exact Ht|].
  rewrite sumsq_vsub_self. nra.
Qed.

Lemma unchecked_stuck_is_steady F (HF : UncheckedFacts F) (HL : L2Lt F) tol (y : nat -> vec) (ok : nat -> bool) f :
  0 < tol -> (forall n, length (y n) = length (y 0%nat)) ->
  (S f < N.to_nat (sf_max_steps F))%nat ->
  (forall m, (m <= f)%nat -> conv F tol false (y m) (y (S m)) = false) ->
  y (S (S f)) = y (S f) ->
  exists t, ss_run_s F tol false (y 0%nat) y ok = SSSteady t (y (S f)) /\ t == time_of F (S f).
Proof.
  intros Ht Hs Hf Hnc Hstuck. destruct HF as [HC HS].
  rewrite (unchecked_ignores_ok F tol false (y 0%nat) y ok HS).
  destruct (run_steady_complete F HC tol false y Hs (S f) Hf) as [t [E Et]].
  - rewrite Hstuck. apply conv_abs_same; assumption.
  - intros m Hm. apply Hnc. lia.
  - exists t. rewrite <- Hstuck at 1. split; [exact E | exact Et].
Qed.

(** *** (2) histories of one Simulator *)

(** the failure value an operation produces, if any *)
Definition op_failure (op : sim_op) : option sim_error :=
  match op with
  | OpSimulate (TCFail e) => Some e
  | OpSimulate (TCRows _) => None
  | OpSteady SSNoSteady => Some ENoSteadyState
  | OpSteady SSIntegFail => Some EIntegrationFailure
  | OpSteady _ => None
  end.

(** outcomes of the loop that the Python code can produce *)
Definition op_modelled (op : sim_op) : Prop :=
  match op with
  | OpSteady SSShape | OpSteady SSUnknownFacts => False
  | _ => True
  end.

Fixpoint first_failure (ops : list sim_op) : option sim_error :=
  match ops with
  | [] => None
  | op :: ops' => match op_failure op with Some e => Some e | None => first_failure ops' end
  end.

(** the rows a successful operation contributes *)
Definition op_rows (acc : option (list (Q * vec))) (op : sim_op) : option (list (Q * vec)) :=
  match op with
  | OpSimulate (TCRows rows) => Some (match acc with None => rows | Some l => l ++ tl rows end)
  | OpSteady (SSSteady t v) => Some (match acc with None => [(t, v)] | Some l => l ++ [(t, v)] end)
  | _ => acc
  end.
Definition hist_rows (acc : option (list (Q * vec))) (ops : list sim_op) : option (list (Q * vec)) :=
  fold_left op_rows ops acc.

Lemma hist_stuck : forall ops s e es, s_errors s = e :: es -> sim_hist s ops = Some s.
Proof.
  induction ops as [|op ops IH]; intros s e es H; cbn [sim_hist]; [reflexivity|].
  unfold sim_step. rewrite H. apply (IH s e es H).
Qed.

Lemma hist_inv : forall ops s, s_errors s = [] -> Forall op_modelled ops ->
  exists s', sim_hist s ops = Some s'
    /\ match first_failure ops with
       | Some e => s_errors s' = [e]
       | None => s_errors s' = [] /\ s_variables s' = hist_rows (s_variables s) ops
       end.
Proof.
  induction ops as [|op ops IH]; intros s Hs Hm; cbn [sim_hist first_failure].
  - exists s. split; [reflexivity|]. split; [exact Hs | reflexivity].
  - inversion Hm as [|? ? Hop Hrest]; subst. unfold sim_step. rewrite Hs.
    destruct op as [[rows|e]|r].
    + cbn [op_failure handle_tc]. 
      destruct (IH (mkSim (Some match s_variables s with None => rows | Some l => l ++ tl rows end) (s_errors s)) Hs Hrest)
        as [s' [E H]].
      exists s'. split; [exact E|]. exact H.
    + cbn [op_failure handle_tc]. rewrite Hs. cbn [app].
      exists (mkSim (s_variables s) [e]). split; [|reflexivity].
      apply (hist_stuck ops _ e []). reflexivity.
    + destruct r as [t v| | | |]; cbn [op_modelled] in Hop; try contradiction;
        cbn [op_failure handle_result tc_of_ss handle_tc].
      * destruct (IH (mkSim (Some match s_variables s with None => [(t, v)] | Some l => l ++ [(t, v)] end) (s_errors s)) Hs Hrest)
          as [s' [E H]].
        exists s'. split; [exact E|]. exact H.
      * rewrite Hs. cbn [app]. exists (mkSim (s_variables s) [ENoSteadyState]). split; [|reflexivity].
        apply (hist_stuck ops _ ENoSteadyState []). reflexivity.
      * rewrite Hs. cbn [app]. exists (mkSim (s_variables s) [EIntegrationFailure]). split; [|reflexivity].
        apply (hist_stuck ops _ EIntegrationFailure []). reflexivity.
Qed.

(** [get_result] after any history on a fresh Simulator *)
Lemma hist_result_spec ops : Forall op_modelled ops ->
  exists s, sim_hist sim_fresh ops = Some s
    /\ get_result s = match first_failure ops with
                      | Some e => RError e
                      | None => match hist_rows None ops with
                                | Some l => RSimulation l
                                | None => RError EIntegrationFailure
                                end
                      end.
Proof.
  intro Hm. destruct (hist_inv ops sim_fresh eq_refl Hm) as [s [E H]].
  exists s. split; [exact E|]. unfold get_result.
  destruct (first_failure ops) as [e|].
  - rewrite H. reflexivity.
  - destruct H as [He Hv]. rewrite He, Hv. reflexivity.
Qed.

Lemma first_failure_in : forall ops op e, In op ops -> op_failure op = Some e -> exists e', first_failure ops = Some e'.
Proof.
  induction ops as [|o ops IH]; intros op e Hin Hf; [contradiction|].
  cbn [first_failure]. destruct (op_failure o) as [e0|] eqn:Eo; [exists e0; reflexivity|].
  destruct Hin as [->|Hin]; [congruence|]. apply (IH op e Hin Hf).
Qed.

Lemma first_failure_app_none : forall pre post, first_failure pre = None ->
  first_failure (pre ++ post) = first_failure post.
Proof.
  induction pre as [|o pre IH]; intros post H; [reflexivity|].
  cbn [first_failure app] in *. destruct (op_failure o); [discriminate|]. apply IH. exact H.
Qed.

(** a failure of ANY step makes the result a failure value *)
Lemma hist_any_failure ops op e : Forall op_modelled ops -> In op ops -> op_failure op = Some e ->
  exists s e', sim_hist sim_fresh ops = Some s /\ get_result s = RError e'.
Proof.
  intros Hm Hin Hf. destruct (hist_result_spec ops Hm) as [s [E R]].
  destruct (first_failure_in ops op e Hin Hf) as [e' Ee]. rewrite Ee in R.
  exists s, e'. split; assumption.
Qed.

(** ... and it is the FIRST failure that is reported: a steady-state search that fails after
    successful simulations yields exactly its own failure value *)
Lemma hist_failed_search pre post r e : Forall op_modelled (pre ++ OpSteady r :: post) ->
  first_failure pre = None -> op_failure (OpSteady r) = Some e ->
  exists s, sim_hist sim_fresh (pre ++ OpSteady r :: post) = Some s /\ get_result s = RError e.
Proof.
  intros Hm Hpre Hf. destruct (hist_result_spec _ Hm) as [s [E R]].
  rewrite (first_failure_app_none pre _ Hpre) in R. cbn [first_failure] in R. rewrite Hf in R.
  exists s. split; assumption.
Qed.

Lemma hist_rows_app acc pre post : hist_rows acc (pre ++ post) = hist_rows (hist_rows acc pre) post.
Proof. unfold hist_rows. apply fold_left_app. Qed.

Lemma first_failure_app_some : forall pre post, first_failure (pre ++ post) = None ->
  first_failure pre = None /\ first_failure post = None.
Proof.
  induction pre as [|o pre IH]; intros post H; [split; [reflexivity | exact H]|].
  cbn [first_failure app] in *. destruct (op_failure o); [discriminate|]. apply IH. exact H.
Qed.

(** a history that ends with a steady-state search is a success ONLY IF that search succeeded, and
    then the last row -- what callers and the scan worker take as the steady state -- is the state
    the search reported: an earlier state is never presented as steady *)
Lemma hist_success_last pre r l : Forall op_modelled (pre ++ [OpSteady r]) ->
  (exists s, sim_hist sim_fresh (pre ++ [OpSteady r]) = Some s /\ get_result s = RSimulation l) ->
  exists t v l', r = SSSteady t v /\ l = l' ++ [(t, v)] /\ first_failure pre = None.
Proof.
  intros Hm [s [E R]]. destruct (hist_result_spec _ Hm) as [s' [E' R']].
  rewrite E in E'. injection E' as <-. rewrite R in R'.
  destruct (first_failure (pre ++ [OpSteady r])) as [e|] eqn:Ef; [discriminate|].
  destruct (first_failure_app_some _ _ Ef) as [Hpre Hlast].
  rewrite hist_rows_app in R'. cbn [hist_rows fold_left] in R'.
  destruct r as [t v| | | |]; cbn [first_failure op_failure] in Hlast; try discriminate.
  - cbn [op_rows] in R'. exists t, v.
    destruct (hist_rows None pre) as [l0|].
    + exists l0. injection R' as R'. split; [reflexivity|]. split; [exact R' | exact Hpre].
    + exists []. injection R' as R'. split; [reflexivity|]. split; [exact R' | exact Hpre].
  - apply Forall_app in Hm. destruct Hm as [_ Hm]. inversion Hm as [|? ? Hop _]; subst. contradiction.
  - apply Forall_app in Hm. destruct Hm as [_ Hm]. inversion Hm as [|? ? Hop _]; subst. contradiction.
Qed.
