(** C15 -- Steady-state results are steady states; absence is reported as failure.

    ONLY theorem statements (written out in full), each closed by [exact <lemma>] and followed by
    [Print Assumptions].  All statements are about [gen_ss_facts] / [gen_plumb_facts], the facts
    REGENERATED from /repo/src/mxlpy/integrators/int_scipy.py, simulator.py and scan.py on every
    run; [C15_facts_pinned] is the obligation that breaks when step size, iteration budget, the
    comparison, the norm, the copy of the integrator's buffer, the relative-difference formula,
    the failure return or the error plumbing is edited.

    [y : nat -> vec] is the trajectory sampled every [step_size]; the ODE solver itself is not
    modelled (it is validated by the correspondence check and the oracle of harness/c15.py).
    [ss_run_s F tol rel y0 y ok] is the loop on the buffers [y] the solver returned with the
    flags [ok (S i)] = [integ.successful()] after step [i]; [ss_run] is the same with every step
    successful ([C15_successful_integration_run]).  [C15_expected_succ] (ExpectedFacts.v) says
    whether the tree tests that flag (SuccChecked, after fixes/C15-integrator-failure.diff) or not
    (SuccUnchecked, the snapshot: recorded finding c15-integrator-failure-unchecked).
    [xs_run F tol rel y0 y ok] (SteadyNan.v) is the same loop over IEEE values [xq] = finite | +-inf |
    NaN: the buffers of the real solver can hold NaN (a rate law that left its domain) and the relative
    change of a pool that stays exactly 0 is 0/0.  [xstep_cmp tol rel a b] is the comparison of the
    norm with the tolerance in one step: [Some NLt] below, [Some NEq], [Some NGt], [Some NUndef] when
    the norm is NaN (then every comparison is False).  On finite buffers [xs_run] is [ss_run_s]
    ([C15_finite_buffers_run]), so the theorems about [ss_run]/[ss_run_s] describe the code there.
    Theorems that mention [R], [norm2], [Q2R] use Coq.Reals (classical real-number axioms). *)
From Coq Require Import Reals QArith Qreals Qabs ZArith NArith List Bool Permutation.
Import ListNotations.
From Steady Require Import SteadyLoop SteadyNan SteadyHist2 GenSteadyFacts ExpectedFacts SteadyLoopProofs SteadyHistProofs SteadyNanProofs Relax SteadyHist2Proofs SteadyProps SteadyProps2.

Theorem C15_facts_pinned :
  gen_ss_facts = mkSSFacts 100%Z 1000%N CmpLt NormL2 PrevCopy RelDivPrev ExhaustFail C15_expected_succ true
  /\ gen_plumb_facts = mkPlumb true true (4722366482869645 # 4722366482869645213696)%Q.
Proof. split; vm_compute; reflexivity. Qed.
Print Assumptions C15_facts_pinned.

(** the loop: success = the LEAST step index below the budget whose change is below the tolerance,
    reported with its time 100*(n+1) and the new state; otherwise (and only then) failure.
    Never a shape error on well-shaped trajectories, never an unknown-facts outcome. *)
Theorem C15_loop_spec :
  forall (tol : Q) (rel : bool) (y : nat -> vec),
    (forall n, length (y n) = length (y 0%nat)) ->
    let c n := conv gen_ss_facts tol rel (y n) (y (S n)) in
    (forall t v, ss_run gen_ss_facts tol rel (y 0%nat) y = SSSteady t v ->
       exists n, (n < 1000)%nat /\ c n = true /\ (forall m, (m < n)%nat -> c m = false)
                 /\ (t == inject_Z (100 * Z.of_nat (S n)))%Q /\ v = y (S n))
    /\ (forall n, (n < 1000)%nat -> c n = true -> (forall m, (m < n)%nat -> c m = false) ->
          exists t, ss_run gen_ss_facts tol rel (y 0%nat) y = SSSteady t (y (S n))
                    /\ (t == inject_Z (100 * Z.of_nat (S n)))%Q)
    /\ (ss_run gen_ss_facts tol rel (y 0%nat) y = SSNoSteady <-> forall m, (m < 1000)%nat -> c m = false)
    /\ ss_run gen_ss_facts tol rel (y 0%nat) y <> SSShape
    /\ ss_run gen_ss_facts tol rel (y 0%nat) y <> SSUnknownFacts.
Proof. exact (p_loop_spec C15_facts_pinned). Qed.
Print Assumptions C15_loop_spec.

(** the square-root-free test of the model IS the code's test: Euclidean norm of the (relative)
    change strictly below the tolerance; a zero in the previous state makes the relative test fail *)
Theorem C15_criterion_is_norm :
  forall (tol : Q) (a b : vec), length a = length b ->
    (conv gen_ss_facts tol false a b = true <-> (norm2 (vsubR (map Q2R b) (map Q2R a)) < Q2R tol)%R)
    /\ (conv gen_ss_facts tol true a b = true <->
        nonzero a /\ (norm2 (vrelR (map Q2R b) (map Q2R a)) < Q2R tol)%R).
Proof. exact (p_criterion C15_facts_pinned). Qed.
Print Assumptions C15_criterion_is_norm.

(** reported steady states ARE steady on the scale of the tolerance (absolute norm): if the
    sampled trajectory is a relaxation  y_i(n) = star_i + amp_i * r_i^n  whose modes at least halve
    per step (bounded relaxation time), the reported state is closer to the steady state than the
    tolerance, and the flux imbalance  lam_i (v_i - star_i)  is at most  max|lam| * tolerance *)
Theorem C15_distance_bound :
  forall (tol : Q) (y : nat -> vec) (ms : list mode) (lams : list R) (L : R),
    Forall (fun m => (0 <= m_r m <= 1 / 2)%R) ms ->
    (0 <= L)%R -> Forall (fun l => (Rabs l <= L)%R) lams ->
    (forall n, map Q2R (y n) = map (fun m => (m_star m + m_amp m * m_r m ^ n)%R) ms) ->
    forall t v, ss_run gen_ss_facts tol false (y 0%nat) y = SSSteady t v ->
      (norm2 (vsubR (map Q2R v) (map m_star ms)) < Q2R tol)%R
      /\ (norm2 (scaleR lams (vsubR (map Q2R v) (map m_star ms))) <= L * Q2R tol)%R.
Proof. exact (p_distance_bound C15_facts_pinned). Qed.
Print Assumptions C15_distance_bound.

(** the hypothesis "modes at least halve per step" for the flow exp(lam t) sampled every h:
    lam * h <= - ln 2; and the samples of the flow are the geometric modes *)
Theorem C15_relaxation_rate :
  forall lam h : R, (lam * h <= - ln 2)%R ->
    (0 <= exp (lam * h) <= 1 / 2)%R
    /\ forall n : nat, exp (lam * (INR n * h)) = (exp (lam * h) ^ n)%R.
Proof. exact (fun lam h H => conj (exp_halving lam h H) (exp_sample lam h)). Qed.
Print Assumptions C15_relaxation_rate.

(** outside that hypothesis the criterion does not bound the distance: for ANY contraction factor
    the distance is exactly r/(1-r) times the last change *)
Theorem C15_distance_exact_scalar :
  forall ystar a r : R, forall n : nat, (0 <= r < 1)%R ->
    Rabs ((ystar + a * r ^ S n) - ystar)
    = (r / (1 - r) * Rabs ((ystar + a * r ^ S n) - (ystar + a * r ^ n)))%R.
Proof. exact relax_scalar_exact. Qed.
Print Assumptions C15_distance_exact_scalar.

(** absence is reported as failure (absolute norm): whenever in every step of the budget some
    pool moves by at least the tolerance, the result is the failure value *)
Theorem C15_accumulation_fails :
  forall (tol : Q) (y : nat -> vec),
    (forall n, length (y n) = length (y 0%nat)) ->
    (forall n, (n < 1000)%nat -> exists k, (tol <= Qabs (nth k (y (S n)) 0 - nth k (y n) 0))%Q) ->
    ss_run gen_ss_facts tol false (y 0%nat) y = SSNoSteady.
Proof. exact (p_accumulation_fails C15_facts_pinned). Qed.
Print Assumptions C15_accumulation_fails.

(** ... in particular unbounded linear accumulation y0 + n*c with |c_k| >= tol for some pool k *)
Theorem C15_linear_accumulation_fails :
  forall (tol : Q) (y0 c : vec) (k : nat),
    length c = length y0 -> (tol <= Qabs (nth k c 0))%Q ->
    ss_run gen_ss_facts tol false (traj_fun (TrajLin y0 c) 0%nat) (traj_fun (TrajLin y0 c)) = SSNoSteady.
Proof. exact (p_linear_accumulation_fails C15_facts_pinned). Qed.
Print Assumptions C15_linear_accumulation_fails.

(** Relative norm.  FULL statement (false of the code, see [C15_rel_accumulation_refuted]):

      forall tol y0 c, 0 < y0 -> 0 < c ->
        ss_run gen_ss_facts tol true [y0 + 0*c] (fun n => [y0 + n*c]) = SSNoSteady.

    Proved: failure is reported EXACTLY when  tol * (y0 + 999 c) <= c ; the complement
    (tol > c / (y0 + 999 c), e.g. every tol > 1/999) is the recorded finding
    "c15-relnorm-accumulation". *)
Theorem C15_rel_accumulation_partial :
  forall tol y0 c : Q, (0 < y0)%Q -> (0 < c)%Q ->
    (ss_run gen_ss_facts tol true (traj_fun (TrajLin [y0] [c]) 0%nat) (traj_fun (TrajLin [y0] [c])) = SSNoSteady
     <-> (tol * (y0 + inject_Z 999 * c) <= c)%Q).
Proof. exact (p_rel_accumulation_exact C15_facts_pinned). Qed.
Print Assumptions C15_rel_accumulation_partial.

(** dx/dt = 1 from x = 1 (100 per step), relative norm, tolerance 1e-2: "steady" at t = 10100, x = 10101 *)
Theorem C15_rel_accumulation_refuted :
  exists tol y0 c : Q, (0 < y0)%Q /\ (0 < c)%Q /\
    ss_run gen_ss_facts tol true [y0] (traj_fun (TrajLin [y0] [c])) = SSSteady 10100 [1 + 101 * 100]%Q
    /\ ss_run gen_ss_facts tol true [y0] (traj_fun (TrajLin [y0] [c])) <> SSNoSteady.
Proof.
  exact (ex_intro _ (1 # 100)%Q (ex_intro _ 1%Q (ex_intro _ 100%Q
           (conj eq_refl (conj eq_refl
              (eq_ind_r (fun F => ss_run F (1 # 100) true [1%Q] (traj_fun (TrajLin [1%Q] [100%Q]))
                                  = SSSteady 10100 [1 + 101 * 100]%Q
                                  /\ ss_run F (1 # 100) true [1%Q] (traj_fun (TrajLin [1%Q] [100%Q])) <> SSNoSteady)
                        rel_accumulation_witness (proj1 C15_facts_pinned))))))).
Qed.
Print Assumptions C15_rel_accumulation_refuted.

(** The defect repaired by commit 0b233ce, kept as a theorem about the SAME loop with the
    extracted fact "alias" instead of "copy": every trajectory whatsoever is reported steady at
    the first or second step (e.g. dx/dt = 1 at t = 200).  The extractor still distinguishes copy
    from alias, so reverting the repair breaks [C15_facts_pinned]. *)
Theorem C15_alias_refuted :
  forall (tol : Q) (y : nat -> vec),
    (0 < tol)%Q -> (forall n, length (y n) = length (y 0%nat)) ->
    let F := mkSSFacts 100%Z 1000%N CmpLt NormL2 PrevAlias RelDivPrev ExhaustFail SuccUnchecked true in
    (exists t, ss_run F tol false (y 0%nat) y = SSSteady t (y 1%nat) /\ (t == inject_Z 100)%Q)
    \/ (exists t, ss_run F tol false (y 0%nat) y = SSSteady t (y 2%nat) /\ (t == inject_Z 200)%Q).
Proof. exact p_alias_refuted. Qed.
Print Assumptions C15_alias_refuted.

(** plumbing: a failure of the loop reaches the user as the failure value NoSteadyState and a scan
    row of NaN; a success as a one-row simulation holding the reported state *)
Theorem C15_failure_propagates :
  forall (tol : Q) (rel : bool) (y0 : vec) (y : nat -> vec),
    (ss_run gen_ss_facts tol rel y0 y = SSNoSteady ->
       exists s, sim_to_steady sim_fresh (ss_run gen_ss_facts tol rel y0 y) = Some s
                 /\ get_result s = RError ENoSteadyState)
    /\ (ss_run gen_ss_facts (pf_default_tol gen_plumb_facts) rel y0 y = SSNoSteady ->
         steady_state_row gen_plumb_facts gen_ss_facts rel y0 y = Some RowNaN)
    /\ (forall t v, ss_run gen_ss_facts tol rel y0 y = SSSteady t v ->
         exists s, sim_to_steady sim_fresh (ss_run gen_ss_facts tol rel y0 y) = Some s
                   /\ get_result s = RSimulation [(t, v)])
    /\ (forall t v, ss_run gen_ss_facts (pf_default_tol gen_plumb_facts) rel y0 y = SSSteady t v ->
         steady_state_row gen_plumb_facts gen_ss_facts rel y0 y = Some (RowValues v)).
Proof. exact (p_plumbing C15_facts_pinned). Qed.
Print Assumptions C15_failure_propagates.


(** ** integration steps that fail

    the model of the code on runs whose integration steps all succeed is [ss_run], the subject of
    the theorems above (whatever the tree does with the flag) *)
Theorem C15_successful_integration_run :
  forall (tol : Q) (rel : bool) (y0 : vec) (y : nat -> vec) (ok : nat -> bool),
    (forall n, ok n = true) ->
    ss_run_s gen_ss_facts tol rel y0 y ok = ss_run gen_ss_facts tol rel y0 y.
Proof. exact p_all_ok_run. Qed.
Print Assumptions C15_successful_integration_run.

(** FULL statement for failing integrators -- "a state is reported steady only if every integration
    step up to it succeeded; a step that fails before convergence yields the failure value" --
    holds of the loop WITH the test of integ.successful() (fixes/C15-integrator-failure.diff;
    the tree's loop when C15_expected_succ = SuccChecked) *)
Theorem C15_integrator_failure_reported :
  forall (tol : Q) (rel : bool) (y : nat -> vec) (ok : nat -> bool),
    (forall n, length (y n) = length (y 0%nat)) ->
    let F := mkSSFacts 100%Z 1000%N CmpLt NormL2 PrevCopy RelDivPrev ExhaustFail SuccChecked true in
    let c n := conv F tol rel (y n) (y (S n)) in
    (forall t v, ss_run_s F tol rel (y 0%nat) y ok = SSSteady t v ->
       exists n, (n < 1000)%nat /\ c n = true /\ (forall m, (m <= n)%nat -> ok (S m) = true)
                 /\ (forall m, (m < n)%nat -> c m = false)
                 /\ (t == inject_Z (100 * Z.of_nat (S n)))%Q /\ v = y (S n))
    /\ (ss_run_s F tol rel (y 0%nat) y ok = SSIntegFail
        <-> exists n, (n < 1000)%nat /\ ok (S n) = false
                      /\ (forall m, (m < n)%nat -> ok (S m) = true /\ c m = false))
    /\ (ss_run_s F tol rel (y 0%nat) y ok = SSNoSteady
        <-> forall m, (m < 1000)%nat -> ok (S m) = true /\ c m = false)
    /\ ss_run_s F tol rel (y 0%nat) y ok <> SSShape
    /\ ss_run_s F tol rel (y 0%nat) y ok <> SSUnknownFacts.
Proof. exact p_integrator_failure_reported. Qed.
Print Assumptions C15_integrator_failure_reported.

(** ... and is FALSE of the loop without that test (the tree's loop when C15_expected_succ =
    SuccUnchecked): a solver that fails in step f and keeps returning the state where it got stuck
    is reported STEADY one step later, whatever the positive tolerance (absolute norm) *)
Theorem C15_unchecked_failure_refuted :
  (forall (tol : Q) (y : nat -> vec) (ok : nat -> bool) (f : nat),
     (0 < tol)%Q -> (forall n, length (y n) = length (y 0%nat)) -> (f < 999)%nat ->
     let F := mkSSFacts 100%Z 1000%N CmpLt NormL2 PrevCopy RelDivPrev ExhaustFail SuccUnchecked true in
     (forall m, (m <= f)%nat -> conv F tol false (y m) (y (S m)) = false) ->
     ok (S f) = false -> y (S (S f)) = y (S f) ->
     exists t, ss_run_s F tol false (y 0%nat) y ok = SSSteady t (y (S f))
               /\ (t == inject_Z (100 * Z.of_nat (S (S f))))%Q)
  /\ (exists (tol : Q) (y : nat -> vec) (ok : nat -> bool),
        ok 1%nat = false
        /\ ss_run_s (mkSSFacts 100%Z 1000%N CmpLt NormL2 PrevCopy RelDivPrev ExhaustFail SuccUnchecked true)
                    tol false (y 0%nat) y ok = SSSteady 200 [5%Q]
        /\ ss_run_s (mkSSFacts 100%Z 1000%N CmpLt NormL2 PrevCopy RelDivPrev ExhaustFail SuccChecked true)
                    tol false (y 0%nat) y ok = SSIntegFail).
Proof.
  exact (conj p_unchecked_stuck
           (ex_intro _ (1 # 1000000)%Q (ex_intro _ stuck_traj (ex_intro _ stuck_ok unchecked_witness)))).
Qed.
Print Assumptions C15_unchecked_failure_refuted.

(** ** buffers that hold inf / NaN: the loop over IEEE values

    on finite buffers the IEEE loop is the rational loop of the theorems above *)
Theorem C15_finite_buffers_run :
  forall (tol : Q) (rel : bool) (y0 : vec) (y : nat -> vec) (ok : nat -> bool),
    xs_run gen_ss_facts tol rel (fin y0) (fun n => fin (y n)) ok
    = xs_of (ss_run_s gen_ss_facts tol rel y0 y ok).
Proof. exact (p_finite_run C15_facts_pinned). Qed.
Print Assumptions C15_finite_buffers_run.

(** FULL loop specification on arbitrary IEEE buffers and success flags: a state is reported steady
    ONLY IF the norm of its step is a NUMBER strictly below the tolerance ([Some NLt]: not NaN, not
    inf), it is the least such step, and every integration step up to it succeeded; a failing step
    before that gives IntegrationFailure; NoSteadyState exactly when all 1000 steps succeed and none
    has such a norm -- in particular steps whose norm is undefined count as NOT converged *)
Theorem C15_success_needs_a_number_below_tolerance :
  forall (tol : Q) (rel : bool) (y : nat -> xvec) (ok : nat -> bool),
    (forall n, length (y n) = length (y 0%nat)) ->
    let c n := xstep_cmp tol rel (y n) (y (S n)) in
    (forall t v, xs_run gen_ss_facts tol rel (y 0%nat) y ok = XSteady t v ->
       exists n, (n < 1000)%nat /\ c n = Some NLt /\ (forall m, (m <= n)%nat -> ok (S m) = true)
                 /\ (forall m, (m < n)%nat -> c m <> Some NLt)
                 /\ (t == inject_Z (100 * Z.of_nat (S n)))%Q /\ v = y (S n))
    /\ (forall n, (n < 1000)%nat -> c n = Some NLt -> (forall m, (m <= n)%nat -> ok (S m) = true) ->
          (forall m, (m < n)%nat -> c m <> Some NLt) ->
          exists t, xs_run gen_ss_facts tol rel (y 0%nat) y ok = XSteady t (y (S n))
                    /\ (t == inject_Z (100 * Z.of_nat (S n)))%Q)
    /\ (xs_run gen_ss_facts tol rel (y 0%nat) y ok = XIntegFail
        <-> exists n, (n < 1000)%nat /\ ok (S n) = false
                      /\ (forall m, (m < n)%nat -> ok (S m) = true /\ c m <> Some NLt))
    /\ (xs_run gen_ss_facts tol rel (y 0%nat) y ok = XNoSteady
        <-> forall m, (m < 1000)%nat -> ok (S m) = true /\ c m <> Some NLt)
    /\ xs_run gen_ss_facts tol rel (y 0%nat) y ok <> XShape
    /\ xs_run gen_ss_facts tol rel (y 0%nat) y ok <> XUnknownFacts.
Proof. exact (p_nan_loop_spec C15_facts_pinned). Qed.
Print Assumptions C15_success_needs_a_number_below_tolerance.

(** absence is reported as failure when the criterion cannot be evaluated: a norm that is NaN in
    every step of the budget yields the failure value (both norms) *)
Theorem C15_undefined_norm_fails :
  forall (tol : Q) (rel : bool) (y : nat -> xvec) (ok : nat -> bool),
    (forall n, length (y n) = length (y 0%nat)) ->
    (forall m, (m < 1000)%nat -> ok (S m) = true /\ xstep_cmp tol rel (y m) (y (S m)) = Some NUndef) ->
    xs_run gen_ss_facts tol rel (y 0%nat) y ok = XNoSteady.
Proof. exact (p_undefined_norm_fails C15_facts_pinned). Qed.
Print Assumptions C15_undefined_norm_fails.

(** ... source 1: relative norm and a pool [k] that is exactly 0 in every buffer (0/0), whatever the
    other pools do and whatever the tolerance: never a success (so never a wrong one) *)
Theorem C15_empty_pool_relative_norm_fails :
  forall (tol : Q) (y : nat -> xvec) (ok : nat -> bool) (k : nat),
    (forall n, length (y n) = length (y 0%nat)) -> (forall n, ok n = true) ->
    (k < length (y 0%nat))%nat -> (forall n, nth k (y n) (XFin 1) = XFin 0) ->
    xs_run gen_ss_facts tol true (y 0%nat) y ok = XNoSteady.
Proof. exact (p_empty_pool_rel_fails C15_facts_pinned). Qed.
Print Assumptions C15_empty_pool_relative_norm_fails.

(** ... source 2: every returned buffer holds a NaN (a rate law left its domain and the solver still
    reports success): the failure value, never a "steady state" that contains NaN *)
Theorem C15_nan_state_fails :
  forall (tol : Q) (rel : bool) (y : nat -> xvec) (ok : nat -> bool),
    (forall n, length (y n) = length (y 0%nat)) -> (forall n, ok n = true) ->
    (forall n, (n < 1000)%nat -> exists k, (k < length (y 0%nat))%nat /\ nth k (y (S n)) (XFin 1) = XNaN) ->
    xs_run gen_ss_facts tol rel (y 0%nat) y ok = XNoSteady.
Proof. exact (p_nan_state_fails C15_facts_pinned). Qed.
Print Assumptions C15_nan_state_fails.

(** Regression (seeded change C15-4): the SAME loop with the test in the early-continue form
    [if norm >= tolerance: y1 = y2; t += step_size; continue] followed by an unconditional success
    return (extracted fact CmpNotGe).  (1) It is the tree's loop on every run in which no norm is
    undefined; (2) a NaN norm in the first step is reported as a STEADY STATE at t = 100, whatever the
    tolerance; (3) witnesses: relative norm, a pool on its way 0 -> 43 -> 50 next to a pool that stays
    0: "steady" [43; 0] at t = 100 (the tree: NoSteadyState); absolute norm, state [5; NaN] "steady" at
    t = 100 (the tree: NoSteadyState).  The extractor tells the forms apart: [C15_facts_pinned]. *)
Theorem C15_fallthrough_on_nan_refuted :
  let G := mkSSFacts 100%Z 1000%N CmpNotGe NormL2 PrevCopy RelDivPrev ExhaustFail SuccChecked true in
  let T := mkSSFacts 100%Z 1000%N CmpLt NormL2 PrevCopy RelDivPrev ExhaustFail SuccChecked true in
  (forall (tol : Q) (rel : bool) (y : nat -> xvec) (ok : nat -> bool),
     (forall m, (m < 1000)%nat -> xstep_cmp tol rel (y m) (y (S m)) <> Some NUndef) ->
     xs_run G tol rel (y 0%nat) y ok = xs_run T tol rel (y 0%nat) y ok)
  /\ (forall (tol : Q) (rel : bool) (y : nat -> xvec) (ok : nat -> bool),
       (forall n, length (y n) = length (y 0%nat)) -> ok 1%nat = true ->
       xstep_cmp tol rel (y 0%nat) (y 1%nat) = Some NUndef ->
       exists t, xs_run G tol rel (y 0%nat) y ok = XSteady t (y 1%nat) /\ (t == inject_Z 100)%Q)
  /\ (xstep_cmp (1 # 1000000) true (empty_pool_traj 0) (empty_pool_traj 1) = Some NUndef
      /\ xs_run G (1 # 1000000) true (empty_pool_traj 0) empty_pool_traj all_ok = XSteady 100 [XFin 43; XFin 0]
      /\ xs_run T (1 # 1000000) true (empty_pool_traj 0) empty_pool_traj all_ok = XNoSteady
      /\ xs_run G (1 # 1000000) false (nan_state_traj 0) nan_state_traj all_ok = XSteady 100 [XFin 5; XNaN]
      /\ xs_run T (1 # 1000000) false (nan_state_traj 0) nan_state_traj all_ok = XNoSteady).
Proof. exact (conj p_fallthrough_agrees (conj p_fallthrough_first_step fallthrough_witness)). Qed.
Print Assumptions C15_fallthrough_on_nan_refuted.

(** non-vacuity of the IEEE-loop theorems: the two witness trajectories meet the hypotheses of
    [C15_empty_pool_relative_norm_fails] / [C15_nan_state_fails], and a finite relaxation is reported
    steady by the IEEE loop at t = 800 *)
Example C15_nan_nonvacuous :
  ((forall n, length (empty_pool_traj n) = length (empty_pool_traj 0))
   /\ (forall n, nth 1 (empty_pool_traj n) (XFin 1) = XFin 0)
   /\ (forall n, length (nan_state_traj n) = length (nan_state_traj 0))
   /\ (forall n, exists k, (k < length (nan_state_traj 0))%nat /\ nth k (nan_state_traj (S n)) (XFin 1) = XNaN))
  /\ xobs_of (xs_run gen_ss_facts (1 # 100) false (fin (demo_traj 0)) (fun n => fin (demo_traj n)) all_ok)
     = ObsSteady (800 # 1).
Proof.
  exact (conj nan_traj_shapes
           (eq_ind_r (fun F => xobs_of (xs_run F (1 # 100) false (fin (demo_traj 0)) (fun n => fin (demo_traj n)) all_ok)
                               = ObsSteady (800 # 1))
                     demo_steady_x (proj1 C15_facts_pinned))).
Qed.
Print Assumptions C15_nan_nonvacuous.

(** ** histories of one Simulator: simulate / simulate_time_course / simulate_to_steady_state in any
    order and number, then get_result.  [OpSimulate r] / [OpSteady r] carry what the integrator
    returned in that call (external behaviour); [op_failure] is the failure value in it, if any.

    get_result after ANY history: the FIRST failure if any step failed, else all rows *)
Theorem C15_history_result :
  forall ops : list sim_op, Forall op_modelled ops ->
    hist_result gen_plumb_facts ops
    = Some match first_failure ops with
           | Some e => RError e
           | None => match hist_rows None ops with
                     | Some l => RSimulation l
                     | None => RError EIntegrationFailure
                     end
           end.
Proof. exact (p_history_result C15_facts_pinned). Qed.
Print Assumptions C15_history_result.

(** a failure of ANY step makes get_result a failure value (and the scan row NaN) *)
Theorem C15_failure_propagates_history :
  forall (ops : list sim_op) (op : sim_op) (e : sim_error),
    Forall op_modelled ops -> In op ops -> op_failure op = Some e ->
    exists e', hist_result gen_plumb_facts ops = Some (RError e') /\ worker_row (RError e') = RowNaN.
Proof. exact (p_history_any_failure C15_facts_pinned). Qed.
Print Assumptions C15_failure_propagates_history.

(** a steady-state search that fails after successful simulations is reported with its own failure
    value, whatever follows *)
Theorem C15_failed_search_after_simulation :
  forall (pre post : list sim_op) (r : ss_out) (e : sim_error),
    Forall op_modelled (pre ++ OpSteady r :: post) ->
    first_failure pre = None -> op_failure (OpSteady r) = Some e ->
    hist_result gen_plumb_facts (pre ++ OpSteady r :: post) = Some (RError e).
Proof. exact (p_history_failed_search C15_facts_pinned). Qed.
Print Assumptions C15_failed_search_after_simulation.

(** a history ending with a steady-state search is a success ONLY IF that search succeeded, and then
    its last row (what callers and the scan worker read as the steady state) is the state the search
    reported: an earlier state is never presented as steady *)
Theorem C15_success_is_the_search_result :
  forall (pre : list sim_op) (r : ss_out) (l : list (Q * vec)),
    Forall op_modelled (pre ++ [OpSteady r]) ->
    hist_result gen_plumb_facts (pre ++ [OpSteady r]) = Some (RSimulation l) ->
    exists t v l', r = SSSteady t v /\ l = l' ++ [(t, v)] /\ first_failure pre = None
                   /\ worker_row (RSimulation l) = RowValues v.
Proof. exact (p_history_success_last C15_facts_pinned). Qed.
Print Assumptions C15_success_is_the_search_result.

(** end to end: unbounded linear accumulation searched after any successful simulations *)
Theorem C15_accumulation_after_simulation_fails :
  forall (pre : list sim_op) (tol : Q) (y0 c : vec) (k : nat),
    Forall op_modelled pre -> first_failure pre = None ->
    length c = length y0 -> (tol <= Qabs (nth k c 0))%Q ->
    hist_result gen_plumb_facts
      (pre ++ [OpSteady (ss_run gen_ss_facts tol false (traj_fun (TrajLin y0 c) 0%nat) (traj_fun (TrajLin y0 c)))])
    = Some (RError ENoSteadyState).
Proof. exact (p_accumulation_after_simulation C15_facts_pinned). Qed.
Print Assumptions C15_accumulation_after_simulation_fails.

(** non-vacuity of the history theorems *)
Example C15_history_nonvacuous :
  Forall op_modelled demo_hist
  /\ hist_result gen_plumb_facts demo_hist = Some (RError ENoSteadyState)
  /\ hist_result gen_plumb_facts demo_hist_ok = Some (RSimulation [(0, [1%Q]); (10, [2%Q]); (300, [3%Q])]).
Proof.
  exact (conj demo_hist_modelled
           (eq_ind_r (fun P => hist_result P demo_hist = Some (RError ENoSteadyState)
                               /\ hist_result P demo_hist_ok = Some (RSimulation [(0, [1%Q]); (10, [2%Q]); (300, [3%Q])]))
                     (conj demo_hist_result demo_hist_ok_result) (proj2 C15_facts_pinned))).
Qed.
Print Assumptions C15_history_nonvacuous.

(** non-vacuity: y n = 3 - 2 (1/2)^n meets the hypotheses of [C15_distance_bound] and the loop
    reports it steady at t = 800 with tolerance 1/100 *)
Example C15_nonvacuous :
  Forall (fun m => (0 <= m_r m <= 1 / 2)%R) demo_modes
  /\ (forall n, map Q2R (demo_traj n) = map (fun m => (m_star m + m_amp m * m_r m ^ n)%R) demo_modes)
  /\ obs_of (ss_run gen_ss_facts (1 # 100) false (demo_traj 0) demo_traj) = ObsSteady (800 # 1).
Proof.
  exact (conj demo_fast (conj demo_is_relaxation
           (eq_ind_r (fun F => obs_of (ss_run F (1 # 100) false (demo_traj 0) demo_traj) = ObsSteady (800 # 1))
                     demo_steady (proj1 C15_facts_pinned)))).
Qed.
Print Assumptions C15_nonvacuous.

(** ** EXTENDED histories of one Simulator (SteadyHist2.v): the operations above plus everything a
    caller can do BETWEEN two runs -- [O2UpdateParameters] (update_parameter(s) / scale_parameter(s)),
    [O2UpdateVariables] (update_variable(s): the time of the last stored row becomes the time shift
    that is added to every later result), [O2Clear] (clear_results) -- and the NAMES the reported
    state is attached to.  [hist2 k s ops] runs the operations ([None] = a call raises),
    [hist2_named F names keys ops] is get_result() on [Simulator(model, y0)] with
    [names = model.get_variable_names()] and [keys = list(y0)], every row as name -> value.
    [gen_hist_facts] is regenerated from simulator.py: the way a continued run is appended
    ([hf_handle]), the labels of a result frame ([hf_label]), the shape of __init__,
    _initialise_integrator, update_*, scale_*, clear_results ([hf_ops_ok]). *)
Theorem C15_history_facts_pinned :
  gen_hist_facts = mkHistFacts HkSkipfirst LabModelNames true.
Proof. vm_compute; reflexivity. Qed.
Print Assumptions C15_history_facts_pinned.

(** on the operations of the history theorems above the extended model IS the model of those theorems
    (so they describe the extended model too), every row labelled with the model's variable names *)
Theorem C15_extended_history_extends_history :
  forall (names keys : list N) (ops : list sim_op),
    hist2_named gen_hist_facts names keys (map embed ops)
    = match hist_result gen_plumb_facts ops with
      | Some r => name_result LabModelNames names keys r
      | None => None
      end.
Proof. exact (p2_extends gen_hist_facts C15_history_facts_pinned C15_facts_pinned). Qed.
Print Assumptions C15_extended_history_extends_history.

(** a steady-state search that FAILS while no error is recorded decides get_result -- whatever
    parameter updates, variable overrides (time shifts), cleared results and runs precede it and
    whatever follows it short of clear_results: absence of a steady state is a failure value *)
Theorem C15_failed_search_in_any_history :
  forall (names keys : list N) (pre post : list op2) (r : ss_out) (e : sim_error) (s0 : sim2) (res : named_result),
    hist2 (hf_handle gen_hist_facts) sim2_fresh pre = Some s0 -> s2_errors s0 = [] ->
    ss_failure r = Some e -> Forall (fun op => is_clear op = false) post ->
    hist2_named gen_hist_facts names keys (pre ++ O2Steady r :: post) = Some res ->
    res = NError e.
Proof. exact (p2_failed_search gen_hist_facts C15_history_facts_pinned). Qed.
Print Assumptions C15_failed_search_in_any_history.

(** every row of a successful result is the integrator's row read BY NAME: the value reported for the
    i-th variable of the model is the i-th component of the integrator state (which
    _initialise_integrator orders by the model's variable names), at the same time *)
Theorem C15_result_rows_by_name :
  forall (names keys : list N) (ops : list op2) (nrows : list named_row),
    NoDup names ->
    hist2_named gen_hist_facts names keys ops = Some (NSimulation nrows) ->
    exists rows, hist2_result HkSkipfirst ops = Some (RSimulation rows)
                 /\ Forall2 (fun nr r => fst nr = fst r /\ length (snd r) = length names
                                         /\ forall i, (i < length names)%nat ->
                                              lookupN (nth i names 0%N) (snd nr) = Some (nth i (snd r) 0%Q))
                            nrows rows.
Proof. exact (p2_rows_by_name gen_hist_facts C15_history_facts_pinned). Qed.
Print Assumptions C15_result_rows_by_name.

(** FULL statement for results that end with a search, over ANY history (parameter changes, variable
    overrides, cleared results, earlier runs that ended at ANY time, any key order of y0): the result
    is a success ONLY IF no error was recorded and the search succeeded, and then its LAST ROW carries
    the time the search reported (plus the time shift in force) and maps the i-th variable NAME to the
    i-th component of the state the search reported.  In particular the row is there even when its
    time is not later than the rows already stored (seeded change C15-7) and the names are the
    model's whatever the key order of y0 (seeded change C15-9). *)
Theorem C15_search_result_is_last_row_by_name :
  forall (names keys : list N) (pre : list op2) (r : ss_out) (s0 : sim2) (nrows : list named_row),
    NoDup names ->
    hist2 (hf_handle gen_hist_facts) sim2_fresh pre = Some s0 ->
    hist2_named gen_hist_facts names keys (pre ++ [O2Steady r]) = Some (NSimulation nrows) ->
    s2_errors s0 = []
    /\ exists t v nrows' lrow,
         r = SSSteady t v /\ nrows = nrows' ++ [(shift_time (s2_shift s0) t, lrow)]
         /\ length v = length names
         /\ forall i, (i < length names)%nat -> lookupN (nth i names 0%N) lrow = Some (nth i v 0%Q).
Proof. exact (p2_search_by_name gen_hist_facts C15_history_facts_pinned). Qed.
Print Assumptions C15_search_result_is_last_row_by_name.

(** a y0 dictionary is a mapping: writing its keys in another order changes neither the state the
    integrator starts from nor the reported result *)
Theorem C15_y0_key_order_is_irrelevant :
  forall (names : list N) (y0 y0' : list (N * Q)) (ops : list op2),
    Permutation y0 y0' -> NoDup (map fst y0) ->
    init_state names y0 = init_state names y0'
    /\ hist2_named gen_hist_facts names (map fst y0) ops = hist2_named gen_hist_facts names (map fst y0') ops.
Proof. exact (p2_key_order gen_hist_facts C15_history_facts_pinned). Qed.
Print Assumptions C15_y0_key_order_is_irrelevant.

(** regression, seeded change C15-7 = the SAME plumbing with the extracted fact [HkLaterOnly]
    (_handle_simulation_results keeps only rows whose time is strictly later than the last stored time
    and returns early when nothing is left).  (1) A successful search whose (shifted) convergence time
    is not later than the last stored time leaves NO trace -- no row, no error: get_result is the
    success it was before the search, its last row an OLDER state.  (2) On a continued run (first row
    at the last stored time, the others later) it does what the tree does with skipfirst=True -- which
    is why simulate / simulate_time_course do not show it.  (3) Witnesses: search (t = 1100),
    update_parameter, search (t = 600): tree [(1100, ..); (600, [2; 20])], seeded [(1100, [50; 20])];
    simulate to 5000, update_parameter, search (t = 500): the row of the search is missing. *)
Theorem C15_later_rows_only_refuted :
  let L := mkHistFacts HkLaterOnly LabModelNames true in
  (forall (pre : list op2) (s0 : sim2) (fs : list (list row)) (tp t : Q) (v : vec) (names keys : list N),
     hist2 HkLaterOnly sim2_fresh pre = Some s0 -> s2_errors s0 = [] ->
     s2_frames s0 = Some fs -> last_time fs = Some tp -> (shift_time (s2_shift s0) t <= tp)%Q ->
     hist2_named L names keys (pre ++ [O2Steady (SSSteady t v)]) = hist2_named L names keys pre)
  /\ (forall (s : sim2) (fs : list (list row)) (tp : Q) (rows : list row) (t0 : Q) (v0 : vec) (rest : list row),
        s2_frames s = Some fs -> last_time fs = Some tp ->
        shift_rows (s2_shift s) rows = (t0, v0) :: rest -> (t0 == tp)%Q ->
        rest <> [] -> Forall (fun r => (tp < fst r)%Q) rest ->
        handle2 HkLaterOnly s (TCRows rows) true = handle2 HkSkipfirst s (TCRows rows) true)
  /\ (hist2_result HkSkipfirst c157_ops = Some (RSimulation [(1100, [50; 20]); (600, [2; 20])])
      /\ hist2_result HkLaterOnly c157_ops = Some (RSimulation [(1100, [50; 20])])
      /\ hist2_result HkSkipfirst c157_sim_ops
         = Some (RSimulation [(0, [0; 0]); (2500, [50; 20]); (5000, [50; 20]); (500, [10; 20])])
      /\ hist2_result HkLaterOnly c157_sim_ops = Some (RSimulation [(0, [0; 0]); (2500, [50; 20]); (5000, [50; 20])])).
Proof. exact later_only_refuted. Qed.
Print Assumptions C15_later_rows_only_refuted.

(** regression, seeded change C15-9 = the SAME plumbing with the extracted fact [LabY0Keys]
    ([columns=list(self.y0)]).  (1) With keys written in the model's order nothing changes -- which is
    why default initial values and a y0 in model order do not show it.  (2) Witness: model variables
    (A, B, C) = (0, 1, 2), y0 written (C, B, A); both orders give the integrator the same start
    [0; 40; 1/2]; the search reports [5; 10; 15/2]; the tree reports A = 5, B = 10, C = 15/2, the
    seeded code C = 5, B = 10, A = 15/2. *)
Theorem C15_labels_from_y0_keys_refuted :
  let K := mkHistFacts HkSkipfirst LabY0Keys true in
  let T := mkHistFacts HkSkipfirst LabModelNames true in
  (forall (names : list N) (ops : list op2), hist2_named K names names ops = hist2_named T names names ops)
  /\ (hist2_named T c159_names c159_keys c159_ops
      = Some (NSimulation [(500, [(0%N, 5); (1%N, 10); (2%N, 15 # 2)])])
      /\ hist2_named K c159_names c159_keys c159_ops
         = Some (NSimulation [(500, [(2%N, 5); (1%N, 10); (0%N, 15 # 2)])])
      /\ init_state c159_names [(2%N, 1 # 2); (1%N, 40); (0%N, 0)] = Some [0; 40; 1 # 2]
      /\ init_state c159_names [(0%N, 0); (1%N, 40); (2%N, 1 # 2)] = Some [0; 40; 1 # 2]).
Proof. exact y0_keys_refuted. Qed.
Print Assumptions C15_labels_from_y0_keys_refuted.

(** non-vacuity of the extended-history theorems: a history with every kind of operation (run,
    override, parameter change, search, clear, search, override, run, search) is a success whose rows
    carry the time shift 200 and the model's names although y0 was written (x1, x0); a failing search
    in the middle of another one gives NoSteadyState *)
Example C15_extended_history_nonvacuous :
  hist2_named gen_hist_facts [0%N; 1%N] [1%N; 0%N] demo_hist2
  = Some (NSimulation [(200, [(0%N, 7); (1%N, 8)]); (16 + 200, [(0%N, 7); (1%N, 10)]); (100 + 200, [(0%N, 11); (1%N, 12)])])
  /\ hist2_named gen_hist_facts [0%N; 1%N] [1%N; 0%N]
       [O2Steady (SSSteady 300 [3; 6]); O2UpdateParameters; O2Steady SSNoSteady; O2UpdateVariables; O2Steady (SSSteady 100 [1; 1])]
     = Some (NError ENoSteadyState).
Proof. exact (p2_nonvacuous gen_hist_facts C15_history_facts_pinned). Qed.
Print Assumptions C15_extended_history_nonvacuous.
